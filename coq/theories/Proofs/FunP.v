(* C16 — lemmas and theorems about Model/Fun.v. *)
From Coq Require Import List Arith ZArith String Bool Lia.
From MechV Require Import Base.Sexp Base.Obs Model.Fun.
Import ListNotations.
Open Scope string_scope.

(* ================================================================== values *)
Fixpoint value_eqb_eq (a : value) : forall b, value_eqb a b = true -> a = b.
Proof.
  destruct a as [k z|x|l|r c l|t p]; intros [k' z'|x'|l'|r' c' l'|t' p'] H; cbn in H; try discriminate.
  - apply andb_prop in H as [H1 H2]. apply String.eqb_eq in H1. apply Z.eqb_eq in H2. congruence.
  - apply Bool.eqb_prop in H. congruence.
  - f_equal. revert l' H. induction l as [|x l IH]; intros [|y l'] H; try discriminate; [reflexivity|].
    apply andb_prop in H as [H1 H2]. f_equal; [apply value_eqb_eq; exact H1 | apply IH; exact H2].
  - apply andb_prop in H as [H H3]. apply andb_prop in H as [H1 H2].
    apply Nat.eqb_eq in H1, H2. subst. f_equal.
    revert l' H3. induction l as [|x l IH]; intros [|y l'] H; try discriminate; [reflexivity|].
    apply andb_prop in H as [Ha Hb]. f_equal; [apply value_eqb_eq; exact Ha | apply IH; exact Hb].
  - apply andb_prop in H as [H1 H2]. apply String.eqb_eq in H1. subst. f_equal.
    destruct p as [x|], p' as [y|]; try discriminate; [|reflexivity].
    f_equal. apply value_eqb_eq. exact H2.
Qed.

Fixpoint value_eqb_refl (a : value) : value_eqb a a = true.
Proof.
  destruct a as [k z|x|l|r c l|t p]; cbn.
  - rewrite String.eqb_refl, Z.eqb_refl. reflexivity.
  - destruct x; reflexivity.
  - induction l as [|x l IH]; [reflexivity|]. rewrite value_eqb_refl. exact IH.
  - rewrite !Nat.eqb_refl. cbn. induction l as [|x l IH]; [reflexivity|]. rewrite value_eqb_refl. exact IH.
  - rewrite String.eqb_refl. destruct p as [x|]; [apply value_eqb_refl|reflexivity].
Qed.

Lemma value_eqb_iff a b : value_eqb a b = true <-> a = b.
Proof. split; [apply value_eqb_eq | intros ->; apply value_eqb_refl]. Qed.

(* ================================================================== arm selection *)
Definition arm_guard (a : arm) : option expr := snd (fst a).
Definition arm_body (a : arm) : expr := snd a.

Section Select.
  Context (gd : env -> option expr -> res bool) (mt : pat -> bool * env).

  (* arm a is taken with environment e: its pattern matches, binding e, and its guard is true in e *)
  Definition accepts (a : arm) (e : env) : Prop :=
    mt (arm_pat a) = (true, e) /\ gd e (arm_guard a) = ROk true.
  (* arm a is passed over: its pattern does not match, or it matches and its guard is false *)
  Definition rejects (a : arm) : Prop :=
    fst (mt (arm_pat a)) = false \/ (fst (mt (arm_pat a)) = true /\ gd (snd (mt (arm_pat a))) (arm_guard a) = ROk false).

  Lemma select_cons_reject a rest k : rejects a -> select_at gd mt k (a :: rest) = select_at gd mt (S k) rest.
  Proof.
    destruct a as [[p g] b]. unfold rejects, arm_pat, arm_guard, select_at. cbn.
    destruct (mt p) as [m e]. cbn. intros [->|[-> ->]]; reflexivity.
  Qed.

  Lemma select_cons_accept a rest k e : accepts a e -> select_at gd mt k (a :: rest) = SelArm k e (arm_body a).
  Proof.
    destruct a as [[p g] b]. unfold accepts, arm_pat, arm_guard, arm_body, select_at. cbn.
    intros [-> ->]. reflexivity.
  Qed.

  (* the head arm is either taken, passed over, or its guard fails to evaluate to a bool *)
  Lemma select_cons_cases a rest k :
    (exists e, accepts a e /\ select_at gd mt k (a :: rest) = SelArm k e (arm_body a)) \/
    (rejects a /\ select_at gd mt k (a :: rest) = select_at gd mt (S k) rest) \/
    (exists r, select_at gd mt k (a :: rest) = SelErr r /\ ~ rejects a /\ forall e, ~ accepts a e).
  Proof.
    destruct a as [[p g] b]. unfold accepts, rejects, arm_pat, arm_guard, arm_body, select_at. cbn.
    destruct (mt p) as [m e] eqn:Em. cbn. destruct m.
    - destruct (gd e g) as [[|]| | | | | |] eqn:Eg.
      + left. exists e. auto.
      + right. left. split; [right; auto | reflexivity].
      + right. right. eexists. split; [reflexivity|]. split.
        * intros [H|[_ H]]; discriminate.
        * intros e' [H1 H2]. inversion H1; subst. congruence.
      + right. right. eexists. split; [reflexivity|]. split.
        * intros [H|[_ H]]; discriminate.
        * intros e' [H1 H2]. inversion H1; subst. congruence.
      + right. right. eexists. split; [reflexivity|]. split.
        * intros [H|[_ H]]; discriminate.
        * intros e' [H1 H2]. inversion H1; subst. congruence.
      + right. right. eexists. split; [reflexivity|]. split.
        * intros [H|[_ H]]; discriminate.
        * intros e' [H1 H2]. inversion H1; subst. congruence.
      + right. right. eexists. split; [reflexivity|]. split.
        * intros [H|[_ H]]; discriminate.
        * intros e' [H1 H2]. inversion H1; subst. congruence.
      + right. right. eexists. split; [reflexivity|]. split.
        * intros [H|[_ H]]; discriminate.
        * intros e' [H1 H2]. inversion H1; subst. congruence.
    - right. left. split; [left; reflexivity | reflexivity].
  Qed.

  Lemma accepts_not_rejects a e : accepts a e -> ~ rejects a.
  Proof.
    unfold accepts, rejects. intros [H1 H2] [H|[_ H]]; rewrite H1 in H; cbn in H; congruence.
  Qed.

  (* FIRST MATCH WINS, both directions: the selection is arm i with environment e exactly when
     arm i is taken with e and every earlier arm is passed over. *)
  Theorem select_first_at : forall arms k i e b,
    select_at gd mt k arms = SelArm i e b <->
    exists j a, i = k + j /\ nth_error arms j = Some a /\ arm_body a = b /\ accepts a e /\
                forall j' a', j' < j -> nth_error arms j' = Some a' -> rejects a'.
  Proof.
    induction arms as [|a rest IH]; intros k i e b.
    - split; [discriminate|]. intros (j & a & _ & Hn & _). destruct j; discriminate.
    - destruct (select_cons_cases a rest k) as [(e0 & Ha & Hs)|[(Hr & Hs)|(r & Hs & Hnr & Hna)]]; rewrite Hs.
      + split.
        * intros H. inversion H; subst. exists 0, a. rewrite Nat.add_0_r.
          split; [reflexivity|]. split; [reflexivity|]. split; [reflexivity|]. split; [exact Ha|].
          intros j' a' Hlt. lia.
        * intros (j & a1 & -> & Hn & <- & Hacc & Hearlier). destruct j as [|j].
          -- cbn in Hn. inversion Hn; subst. destruct Ha as [Ha1 _], Hacc as [Hb1 _].
             rewrite Ha1 in Hb1. inversion Hb1; subst. rewrite Nat.add_0_r. reflexivity.
          -- exfalso. apply (accepts_not_rejects _ _ Ha). apply (Hearlier 0 a); [lia|reflexivity].
      + rewrite IH. split.
        * intros (j & a1 & -> & Hn & Hb & Hacc & Hearlier). exists (S j), a1.
          split; [lia|]. split; [exact Hn|]. split; [exact Hb|]. split; [exact Hacc|]. intros [|j'] a' Hlt Hn'.
          -- cbn in Hn'. inversion Hn'; subst. exact Hr.
          -- apply (Hearlier j'); [lia|exact Hn'].
        * intros (j & a1 & -> & Hn & Hb & Hacc & Hearlier). destruct j as [|j].
          -- cbn in Hn. inversion Hn; subst. exfalso. exact (accepts_not_rejects _ _ Hacc Hr).
          -- exists j, a1. split; [lia|]. split; [exact Hn|]. split; [exact Hb|]. split; [exact Hacc|]. intros j' a' Hlt Hn'.
             apply (Hearlier (S j')); [lia|exact Hn'].
      + split; [discriminate|]. intros (j & a1 & -> & Hn & Hb & Hacc & Hearlier). exfalso. destruct j as [|j].
        * cbn in Hn. inversion Hn; subst. exact (Hna _ Hacc).
        * apply Hnr. apply (Hearlier 0 a); [lia|reflexivity].
  Qed.

  Theorem select_first : forall arms i e b,
    select_at gd mt 0 arms = SelArm i e b <->
    exists a, nth_error arms i = Some a /\ arm_body a = b /\ accepts a e /\
              forall j a', j < i -> nth_error arms j = Some a' -> rejects a'.
  Proof.
    intros arms i e b. rewrite select_first_at. split.
    - intros (j & a & -> & H). exists a. exact H.
    - intros (a & H). exists i, a. split; [reflexivity|exact H].
  Qed.

  (* no arm is selected exactly when every arm is passed over *)
  Theorem select_none : forall arms k, select_at gd mt k arms = SelNone <-> Forall rejects arms.
  Proof.
    induction arms as [|a rest IH]; intros k.
    - split; [constructor|reflexivity].
    - destruct (select_cons_cases a rest k) as [(e0 & Ha & Hs)|[(Hr & Hs)|(r & Hs & Hnr & Hna)]]; rewrite Hs.
      + split; [discriminate|]. intros H. inversion H; subst. exfalso. exact (accepts_not_rejects _ _ Ha H2).
      + rewrite IH. split; [intros H; constructor; assumption | intros H; inversion H; assumption].
      + split; [discriminate|]. intros H. inversion H; subst. contradiction.
  Qed.

  (* the arms after the selected one play no part: they can be replaced by anything *)
  Theorem no_later_arm_runs : forall l1 k i e b,
    select_at gd mt k l1 = SelArm i e b -> forall l2, select_at gd mt k (l1 ++ l2) = SelArm i e b.
  Proof.
    induction l1 as [|a rest IH]; intros k i e b H l2; [discriminate|].
    rewrite <- app_comm_cons.
    destruct (select_cons_cases a rest k) as [(e0 & Ha & Hs)|[(Hr & Hs)|(r & Hs & _)]]; rewrite Hs in H.
    - rewrite (select_cons_accept _ _ _ _ Ha). exact H.
    - rewrite (select_cons_reject _ _ _ Hr). apply IH. exact H.
    - discriminate.
  Qed.

  Theorem selected_index_bound : forall arms k i e b,
    select_at gd mt k arms = SelArm i e b -> k <= i < k + List.length arms.
  Proof.
    intros arms k i e b H. apply select_first_at in H as (j & a & -> & Hn & _).
    assert (j < List.length arms) by (apply nth_error_Some; congruence). lia.
  Qed.

  (* with guards that always evaluate to a bool this is the property's wording:
     arm i matches and its guard is true, and no earlier arm both matches and has a true guard *)
  Definition takes (a : arm) : Prop := exists e, accepts a e.
  Theorem select_first_total :
    (forall e g, exists b, gd e g = ROk b) ->
    forall arms i e b,
    select_at gd mt 0 arms = SelArm i e b <->
    exists a, nth_error arms i = Some a /\ arm_body a = b /\ accepts a e /\
              forall j a', j < i -> nth_error arms j = Some a' -> ~ takes a'.
  Proof.
    intros Htot arms i e b. rewrite select_first.
    split; intros (a & Hn & Hb & Ha & He); exists a; (split; [exact Hn|]); (split; [exact Hb|]); (split; [exact Ha|]).
    - intros j a' Hlt Hn' (e' & Hacc). exact (accepts_not_rejects _ _ Hacc (He _ _ Hlt Hn')).
    - intros j a' Hlt Hn'. specialize (He _ _ Hlt Hn'). unfold rejects, takes, accepts in *.
      destruct (mt (arm_pat a')) as [m e'] eqn:Em. cbn. destruct m; [|left; reflexivity].
      right. split; [reflexivity|]. destruct (Htot e' (arm_guard a')) as [[|] Hg]; [|exact Hg].
      exfalso. apply He. exists e'. auto.
  Qed.
End Select.

(* ================================================================== the pattern matcher *)
Lemma pm_tuple_unfold og ps vs e :
  pm og (PTuple ps) (VTuple vs) e = if Nat.eqb (List.length ps) (List.length vs) then pm_list og ps vs e else (false, e).
Proof. reflexivity. Qed.

Lemma pm_arr_unfold og pre sp suf r c l e :
  pm og (PArr pre sp suf) (VMat r c l) e =
    let n := List.length l in let np := List.length pre in let ns := List.length suf in
    if Nat.ltb n (np + ns) then (false, e) else
    let (b1, e1) := pm_list og pre l e in
    if negb b1 then (false, e1) else
    let (b2, e2) := pm_list og suf (skipn (n - ns) l) e1 in
    if negb b2 then (false, e2) else
    match sp with
    | None => (Nat.eqb n (np + ns), e2)
    | Some None => (true, e2)
    | Some (Some bp) => pm og bp (VMat 1 (n - ns - np) (firstn (n - ns - np) (skipn np l))) e2
    end.
Proof. reflexivity. Qed.

(* induction principle for patterns (nested lists / options) *)
Section PatInd.
  Variable Q : pat -> Prop.
  Hypothesis Hw : Q PWild.
  Hypothesis Hv : forall x, Q (PVar x).
  Hypothesis Hl : forall v, Q (PLit v).
  Hypothesis Ht : forall ps, Forall Q ps -> Q (PTuple ps).
  Hypothesis Ha : forall pre sp suf, Forall Q pre -> (forall b, sp = Some (Some b) -> Q b) -> Forall Q suf -> Q (PArr pre sp suf).
  Hypothesis He : forall t a, (forall p, a = Some p -> Q p) -> Q (PEnum t a).
  Fixpoint pat_ind' (p : pat) : Q p :=
    match p with
    | PWild => Hw
    | PVar x => Hv x
    | PLit v => Hl v
    | PTuple ps => Ht ps ((fix go (l : list pat) : Forall Q l := match l with [] => Forall_nil _ | x :: r => Forall_cons _ (pat_ind' x) (go r) end) ps)
    | PArr pre sp suf =>
        Ha pre sp suf
          ((fix go (l : list pat) : Forall Q l := match l with [] => Forall_nil _ | x :: r => Forall_cons _ (pat_ind' x) (go r) end) pre)
          (match sp as s return forall b, s = Some (Some b) -> Q b with
           | Some (Some b0) => fun b H => match H in _ = s' return match s' with Some (Some b') => Q b' | _ => True end with eq_refl => pat_ind' b0 end
           | _ => fun b H => ltac:(discriminate)
           end)
          ((fix go (l : list pat) : Forall Q l := match l with [] => Forall_nil _ | x :: r => Forall_cons _ (pat_ind' x) (go r) end) suf)
    | PEnum t a =>
        He t a (match a as s return forall p, s = Some p -> Q p with
                | Some p0 => fun p H => match H in _ = s' return match s' with Some p' => Q p' | None => True end with eq_refl => pat_ind' p0 end
                | None => fun p H => ltac:(discriminate)
                end)
    end.
End PatInd.

Definition extends (e e' : env) : Prop := forall x w, lookup x e = Some w -> lookup x e' = Some w.

Lemma extends_refl e : extends e e. Proof. intros x w H; exact H. Qed.
Lemma extends_trans a b c : extends a b -> extends b c -> extends a c.
Proof. intros H1 H2 x w H. apply H2, H1, H. Qed.

(* "pattern p describes value v, with the variables read from e" *)
Inductive holds (e : env) : pat -> value -> Prop :=
| H_wild v : holds e PWild v
| H_var x v : lookup x e = Some v -> holds e (PVar x) v
| H_lit v : holds e (PLit v) v
| H_tuple ps vs : Forall2 (holds e) ps vs -> holds e (PTuple ps) (VTuple vs)
| H_arr_exact pre suf r c l1 l2 :
    Forall2 (holds e) pre l1 -> Forall2 (holds e) suf l2 -> holds e (PArr pre None suf) (VMat r c (l1 ++ l2))
| H_arr_any pre suf r c l1 mid l2 :
    Forall2 (holds e) pre l1 -> Forall2 (holds e) suf l2 -> holds e (PArr pre (Some None) suf) (VMat r c (l1 ++ mid ++ l2))
| H_arr_bind pre b suf r c l1 mid l2 :
    Forall2 (holds e) pre l1 -> Forall2 (holds e) suf l2 -> holds e b (VMat 1 (List.length mid) mid) ->
    holds e (PArr pre (Some (Some b)) suf) (VMat r c (l1 ++ mid ++ l2))
| H_enum0 t : holds e (PEnum t None) (VEnum t None)
| H_enum1 t p v : holds e p v -> holds e (PEnum t (Some p)) (VEnum t (Some v)).

Lemma holds_mono e e' : extends e e' -> forall p v, holds e p v -> holds e' p v.
Proof.
  intros Hext. fix IH 3. intros p v H.
  assert (L : forall ps vs, Forall2 (holds e) ps vs -> Forall2 (holds e') ps vs).
  { fix go 3. intros ps vs F. destruct F as [|p0 v0 ps0 vs0 h t]; constructor; [apply IH; exact h | apply go; exact t]. }
  destruct H.
  - constructor.
  - constructor. apply Hext. assumption.
  - constructor.
  - constructor. apply L. assumption.
  - constructor; apply L; assumption.
  - constructor; apply L; assumption.
  - constructor; [apply L; assumption | apply L; assumption | apply IH; assumption].
  - constructor.
  - constructor. apply IH. assumption.
Qed.

Lemma holds_list_mono e e' ps vs : extends e e' -> Forall2 (holds e) ps vs -> Forall2 (holds e') ps vs.
Proof. intros X F. induction F; constructor; [eapply holds_mono; eassumption | assumption]. Qed.

Definition pm_ok (p : pat) : Prop :=
  forall v e e', pm false p v e = (true, e') -> extends e e' /\ holds e' p v.

Lemma pm_list_cons og p ps v vs e :
  pm_list og (p :: ps) (v :: vs) e = let (b, e') := pm og p v e in if b then pm_list og ps vs e' else (false, e').
Proof. reflexivity. Qed.

Lemma pm_list_sound ps : Forall pm_ok ps -> forall vs e e',
  List.length ps <= List.length vs -> pm_list false ps vs e = (true, e') ->
  extends e e' /\ Forall2 (holds e') ps (firstn (List.length ps) vs).
Proof.
  induction 1 as [|p ps Hp Hps IH]; intros vs e e' Hlen H.
  - cbn in H. inversion H; subst. split; [apply extends_refl|constructor].
  - destruct vs as [|v vs]; [cbn in Hlen; lia|]. rewrite pm_list_cons in H.
    destruct (pm false p v e) as [b e1] eqn:E1. destruct b; [|discriminate].
    apply Hp in E1 as [X1 Y1]. cbn in Hlen. apply IH in H as [X2 Y2]; [|lia].
    split; [eapply extends_trans; eassumption|]. cbn. constructor; [|exact Y2].
    eapply holds_mono; eassumption.
Qed.

Lemma skipn_skipn' {A} a b (l : list A) : skipn a (skipn b l) = skipn (b + a) l.
Proof.
  revert l. induction b as [|b IH]; intros l; [reflexivity|].
  destruct l as [|x l]; [cbn; apply skipn_nil|]. cbn. apply IH.
Qed.

Lemma split3 {A} (l : list A) np ns : np + ns <= List.length l ->
  l = (firstn np l ++ firstn (List.length l - ns - np) (skipn np l) ++ skipn (List.length l - ns) l)%list.
Proof.
  intros H. rewrite <- (firstn_skipn np l) at 1. f_equal.
  rewrite <- (firstn_skipn (List.length l - ns - np) (skipn np l)) at 1. f_equal.
  rewrite skipn_skipn'. f_equal. lia.
Qed.

Theorem pm_sound : forall p, pm_ok p.
Proof.
  induction p as [|x|l|ps IH|pre sp suf IHpre IHsp IHsuf|t a IH] using pat_ind'; intros v e e' H.
  - cbn in H. inversion H; subst. split; [apply extends_refl|constructor].
  - cbn in H. destruct (lookup x e) as [w|] eqn:El.
    + inversion H; subst. split; [apply extends_refl|]. constructor.
      apply value_eqb_eq in H1. congruence.
    + inversion H; subst. split.
      * intros y w Hy. cbn. destruct (String.eqb y x) eqn:Eyx; [|exact Hy].
        apply String.eqb_eq in Eyx. congruence.
      * constructor. cbn. rewrite String.eqb_refl. reflexivity.
  - cbn in H. inversion H; subst. apply value_eqb_eq in H1. subst. split; [apply extends_refl|constructor].
  - destruct v as [k z|b|vs|r c vs|tg pl]; try (cbn in H; discriminate).
    rewrite pm_tuple_unfold in H. destruct (Nat.eqb (List.length ps) (List.length vs)) eqn:En; [|discriminate].
    apply Nat.eqb_eq in En. apply pm_list_sound in H as [X Y]; [|exact IH|lia].
    split; [exact X|]. constructor. rewrite En, firstn_all in Y. exact Y.
  - destruct v as [k z|b|vs|r c l|tg pl]; try (cbn in H; discriminate).
    rewrite pm_arr_unfold in H. cbv zeta in H.
    destruct (Nat.ltb (List.length l) (List.length pre + List.length suf)) eqn:Elt; [discriminate|].
    apply Nat.ltb_ge in Elt.
    destruct (pm_list false pre l e) as [b1 e1] eqn:E1. destruct b1; [|discriminate]. cbn [negb] in H.
    destruct (pm_list false suf (skipn (List.length l - List.length suf) l) e1) as [b2 e2] eqn:E2.
    destruct b2; [|discriminate]. cbn [negb] in H.
    apply pm_list_sound in E1 as [X1 Y1]; [|exact IHpre|lia].
    assert (Ls : List.length (skipn (List.length l - List.length suf) l) = List.length suf) by (rewrite skipn_length; lia).
    apply pm_list_sound in E2 as [X2 Y2]; [|exact IHsuf|lia].
    rewrite firstn_all2 in Y2 by lia.
    rewrite (split3 l (List.length pre) (List.length suf)) by lia.
    destruct sp as [[bp|]|].
    + apply (IHsp bp eq_refl) in H as [X3 Y3]. split; [eauto using extends_trans|].
      set (mid := firstn (List.length l - List.length suf - List.length pre) (skipn (List.length pre) l)) in *.
      assert (Lm : List.length mid = List.length l - List.length suf - List.length pre).
      { unfold mid. rewrite firstn_length, skipn_length. lia. }
      rewrite <- Lm in Y3. constructor.
      * eapply holds_list_mono; [exact X3|]. eapply holds_list_mono; [exact X2|exact Y1].
      * eapply holds_list_mono; [exact X3|exact Y2].
      * exact Y3.
    + inversion H; subst. split; [eauto using extends_trans|]. constructor.
      * eapply holds_list_mono; [exact X2|exact Y1].
      * exact Y2.
    + inversion H; subst. apply Nat.eqb_eq in H1. split; [eauto using extends_trans|].
      replace (List.length l - List.length suf - List.length pre) with 0 by lia. cbn [firstn app].
      constructor.
      * eapply holds_list_mono; [exact X2|exact Y1].
      * exact Y2.
  - destruct v as [k z|b|vs|r c l|tg pl]; try (cbn in H; discriminate).
    cbn in H. destruct (String.eqb tg t) eqn:Et; [|discriminate]. apply String.eqb_eq in Et. subst tg.
    destruct pl as [pv|], a as [ap|]; try discriminate.
    + apply (IH ap eq_refl) in H as [X Y]. split; [exact X|]. constructor. exact Y.
    + inversion H; subst. split; [apply extends_refl|constructor].
Qed.

(* ---- what the matcher binds: corollaries *)
Theorem pmatch_sound p v e : pmatch p v = Some e -> holds e p v.
Proof.
  unfold pmatch. destruct (pm false p v []) as [b e'] eqn:E. destruct b; [|discriminate].
  intros H. inversion H; subst. apply pm_sound in E as [_ Y]. exact Y.
Qed.

Lemma pmatch_wild v : pmatch PWild v = Some [].
Proof. reflexivity. Qed.

Lemma pmatch_var x v : pmatch (PVar x) v = Some [(x, v)].
Proof. reflexivity. Qed.

Lemma pmatch_lit l v : pmatch (PLit l) v = if value_eqb l v then Some [] else None.
Proof. unfold pmatch. cbn. destruct (value_eqb l v); reflexivity. Qed.

Lemma pmatch_lit_iff l v e : pmatch (PLit l) v = Some e <-> l = v /\ e = [].
Proof.
  rewrite pmatch_lit. destruct (value_eqb l v) eqn:E.
  - apply value_eqb_eq in E. split; [intros H; inversion H; auto | intros [_ ->]; reflexivity].
  - split; [discriminate|]. intros [-> _]. rewrite value_eqb_refl in E. discriminate.
Qed.

(* head / tail: [h | t] binds h to the first element and t to the row of the rest *)
Theorem pmatch_head_tail h t r c a l : h <> t ->
  pmatch (PArr [PVar h] (Some (Some (PVar t))) []) (VMat r c (a :: l)) = Some [(t, VMat 1 (List.length l) l); (h, a)].
Proof.
  intros Hne. unfold pmatch. rewrite pm_arr_unfold. cbv zeta.
  cbn [List.length Nat.add Nat.ltb Nat.leb negb pm_list pm_list_with pm lookup].
  rewrite !Nat.sub_0_r.
  destruct (String.eqb t h) eqn:E; [apply String.eqb_eq in E; congruence|].
  replace (S (List.length l) - 1) with (List.length l) by lia. cbn [skipn]. rewrite firstn_all. reflexivity.
Qed.

Theorem pmatch_head_tail_empty h t r c :
  pmatch (PArr [PVar h] (Some (Some (PVar t))) []) (VMat r c []) = None.
Proof. reflexivity. Qed.

(* any environment that satisfies [h | t] has the head and the rest where the property says *)
Theorem holds_head_tail e h t r c l :
  holds e (PArr [PVar h] (Some (Some (PVar t))) []) (VMat r c l) ->
  exists a l', l = a :: l' /\ lookup h e = Some a /\ lookup t e = Some (VMat 1 (List.length l') l').
Proof.
  intros H. inversion H as [| | | | | |pre b suf r0 c0 l1 mid l2 F1 F2 Hb| |]; subst.
  inversion F1 as [|p0 a ps0 l1' Ha F1']; subst. inversion F1'; subst. inversion F2; subst.
  inversion Ha; subst. inversion Hb; subst.
  exists a, mid. rewrite app_nil_r. cbn. auto.
Qed.

(* [... x] binds x to the last element *)
Theorem holds_last e x r c l :
  holds e (PArr [] (Some None) [PVar x]) (VMat r c l) -> exists l' a, l = (l' ++ [a])%list /\ lookup x e = Some a.
Proof.
  intros H. inversion H as [| | | | |pre suf r0 c0 l1 mid l2 F1 F2| | |]; subst.
  inversion F1; subst. inversion F2 as [|p0 a ps0 l2' Ha F2']; subst. inversion F2'; subst. inversion Ha; subst.
  exists mid, a. cbn. auto.
Qed.

(* a tuple of distinct variables binds the i-th variable to the i-th component *)
Lemma pm_list_vars : forall xs vs e, List.length xs = List.length vs -> NoDup xs ->
  (forall x, In x xs -> lookup x e = None) ->
  pm_list false (map PVar xs) vs e = (true, (rev (combine xs vs) ++ e)%list).
Proof.
  induction xs as [|x xs IH]; intros vs e Hlen Hnd Hfresh; destruct vs as [|v vs]; try discriminate.
  - reflexivity.
  - cbn [map]. rewrite pm_list_cons. cbn [pm]. rewrite (Hfresh x (or_introl eq_refl)).
    inversion Hnd; subst. rewrite IH.
    + cbn [combine rev]. rewrite <- app_assoc. reflexivity.
    + cbn in Hlen. lia.
    + assumption.
    + intros y Hy. cbn. destruct (String.eqb y x) eqn:E.
      * apply String.eqb_eq in E. subst. contradiction.
      * apply Hfresh. right. exact Hy.
Qed.

Theorem pmatch_tuple_vars xs vs : List.length xs = List.length vs -> NoDup xs ->
  pmatch (PTuple (map PVar xs)) (VTuple vs) = Some (rev (combine xs vs)).
Proof.
  intros Hlen Hnd. unfold pmatch. rewrite pm_tuple_unfold, map_length, Hlen, Nat.eqb_refl.
  rewrite pm_list_vars; try assumption; [rewrite app_nil_r; reflexivity | reflexivity].
Qed.

Theorem pmatch_tuple_arity ps vs : List.length ps <> List.length vs -> pmatch (PTuple ps) (VTuple vs) = None.
Proof.
  intros H. unfold pmatch. rewrite pm_tuple_unfold. apply Nat.eqb_neq in H. rewrite H. reflexivity.
Qed.

Theorem pmatch_enum_payload t x v : pmatch (PEnum t (Some (PVar x))) (VEnum t (Some v)) = Some [(x, v)].
Proof. unfold pmatch. cbn. rewrite String.eqb_refl. reflexivity. Qed.

Theorem pmatch_enum_other t t' a p : t <> t' -> pmatch (PEnum t a) (VEnum t' p) = None.
Proof.
  intros H. unfold pmatch. cbn. destruct (String.eqb t' t) eqn:E; [apply String.eqb_eq in E; congruence|reflexivity].
Qed.

(* a repeated variable demands equal parts *)
Theorem pmatch_repeated x a b : pmatch (PTuple [PVar x; PVar x]) (VTuple [a; b]) = if value_eqb a b then Some [(x, a)] else None.
Proof. unfold pmatch. cbn. rewrite String.eqb_refl. destruct (value_eqb a b); reflexivity. Qed.

(* ================================================================== calls and match expressions *)
Section Calls.
  Context (q : quirks) (P : prog).

  (* wrong number of arguments: an error, whatever the arms are *)
  Theorem arity_err ev n d fd args :
    List.length args <> List.length (fparams fd) -> call_fn q P ev n d fd args = RErr.
  Proof. intros H. unfold call_fn. apply Nat.eqb_neq in H. rewrite H. reflexivity. Qed.

  Theorem arity_err_eval f d syms e fn fd args vs :
    find_fn (pdefs P) fn = Some fd -> map_res (eval q P f (S d) syms e) args = ROk vs ->
    List.length args <> List.length (fparams fd) ->
    eval q P (S f) (S d) syms e (ECall fn args) = RErr.
  Proof.
    intros Hf Hm Hl. cbn [eval]. rewrite Hf, Hm. cbn [bind]. apply arity_err.
    assert (List.length vs = List.length args); [|congruence].
    clear Hl Hf. revert vs Hm. induction args as [|a r IH]; intros vs Hm.
    - cbn in Hm. inversion Hm. reflexivity.
    - cbn [map_res] in Hm. destruct (eval q P f (S d) syms e a); try discriminate. cbn [bind] in Hm.
      destruct (map_res (eval q P f (S d) syms e) r); try discriminate. cbn [bind] in Hm.
      inversion Hm; subst. cbn. f_equal. apply IH. reflexivity.
  Qed.

  (* one activation of a function, spelled out: kinds conform, the arm list is acceptable,
     and then the FIRST arm whose pattern matches runs - nothing else *)
  Theorem fn_first_arm_runs ev n d fd args i e body :
    conforms_all P (fparams fd) args = true -> fn_exhaustive P fd = true ->
    select_at (guard_res (ev d (combine (map fst (fparams fd)) args))) (pm_args (q_multi_wild q) args) 0 (farms fd) = SelArm i e body ->
    self_tail_call fd body = None ->
    tail_loop q P ev (S n) d fd args = bind (ev d (combine (map fst (fparams fd)) args) e body) (coerce P (fout fd)).
  Proof. intros Hc Hx Hs Ht. cbn [tail_loop]. rewrite Hc, Hx, Hs, Ht. reflexivity. Qed.

  (* ... and when that arm's body is a direct self call, the loop goes round with the new
     arguments at the SAME depth *)
  Theorem fn_tail_call_loops ev n d fd args i e body targs vs :
    conforms_all P (fparams fd) args = true -> fn_exhaustive P fd = true ->
    select_at (guard_res (ev d (combine (map fst (fparams fd)) args))) (pm_args (q_multi_wild q) args) 0 (farms fd) = SelArm i e body ->
    self_tail_call fd body = Some targs ->
    map_res (ev d (combine (map fst (fparams fd)) args) e) targs = ROk vs ->
    tail_loop q P ev (S n) d fd args = tail_loop q P ev n d fd vs.
  Proof. intros Hc Hx Hs Ht Hm. cbn [tail_loop]. rewrite Hc, Hx, Hs, Ht, Hm. reflexivity. Qed.

  (* no arm accepts the arguments: an error *)
  Theorem no_match_err ev n d fd args :
    conforms_all P (fparams fd) args = true ->
    Forall (rejects (guard_res (ev d (combine (map fst (fparams fd)) args))) (pm_args (q_multi_wild q) args)) (farms fd) ->
    tail_loop q P ev (S n) d fd args = RErr.
  Proof.
    intros Hc Hr. cbn [tail_loop]. rewrite Hc. cbn [negb]. destruct (fn_exhaustive P fd); [|reflexivity]. cbn [negb].
    apply select_none with (k := 0) in Hr. rewrite Hr. reflexivity.
  Qed.

  (* a function over an enum whose arms neither contain the wildcard nor name every variant is rejected *)
  Theorem fn_nonexhaustive_rejected ev n d fd args :
    conforms_all P (fparams fd) args = true -> fn_exhaustive P fd = false ->
    tail_loop q P ev (S n) d fd args = RErr.
  Proof. intros Hc Hx. cbn [tail_loop]. rewrite Hc, Hx. reflexivity. Qed.
End Calls.

(* ---- broadcasting *)
Lemma map_res_ok {A B} (f : A -> res B) l outs :
  map_res f l = ROk outs <-> Forall2 (fun x y => f x = ROk y) l outs.
Proof.
  revert outs. induction l as [|a r IH]; intros outs.
  - cbn. split; [intros H; inversion H; constructor | intros H; inversion H; reflexivity].
  - cbn [map_res]. split.
    + intros H. destruct (f a) eqn:Ea; try discriminate. cbn [bind] in H.
      destruct (map_res f r) eqn:Er; try discriminate. cbn [bind] in H. inversion H; subst.
      constructor; [exact Ea | apply IH; reflexivity].
    + intros H. inversion H; subst. rewrite H2. cbn [bind]. apply IH in H4. rewrite H4. reflexivity.
Qed.

Section Broadcast.
  Context (P : prog).
  (* a single-argument scalar function *)
  Definition scalar_fn (fd : fdef) : Prop := exists x k, fparams fd = [(x, k)] /\ is_scalar_kind k = true.

  Lemma call_scalar_elem q ev n d fd v :
    scalar_fn fd -> (forall r c l, v <> VMat r c l) -> call_fn q P ev n d fd [v] = tail_loop q P ev n d fd [v].
  Proof.
    intros (x & k & Hp & Hk) Hv. unfold call_fn, broadcast_target. rewrite Hp. cbn.
    destruct v; try reflexivity. exfalso. eapply Hv. reflexivity.
  Qed.

  (* THE SPECIFICATION: calling it with a matrix whose elements are of the parameter's kind
     yields the matrix, of the same shape, of the function applied to each element *)
  Theorem broadcast_pointwise ev n d fd r c l outs :
    scalar_fn fd -> Forall (fun v => conforms P (param_kind1 fd) v = true) l ->
    (call_fn spec_q P ev n d fd [VMat r c l] = ROk (VMat r c outs) <->
     Forall2 (fun x y => call_fn spec_q P ev n d fd [x] = ROk y) l outs).
  Proof.
    intros Hs Hl. pose proof Hs as (x & k & Hp & Hk).
    assert (Hbt : broadcast_target P fd [VMat r c l] = Some (r, c, l)).
    { unfold broadcast_target. rewrite Hp, Hk. cbn [andb]. unfold param_kind1 in Hl. rewrite Hp in Hl.
      rewrite (proj2 (forallb_forall _ _)); [reflexivity|]. intros v Hv. rewrite Forall_forall in Hl. auto. }
    unfold call_fn at 1. rewrite Hp. cbn [List.length Nat.eqb negb]. fold (fparams fd).
    rewrite Hbt. cbn [q_bcast spec_q andb].
    assert (Hel : forall v, In v l -> call_fn spec_q P ev n d fd [v] = tail_loop spec_q P ev n d fd [v]).
    { intros v Hv. apply call_scalar_elem; [exact Hs|]. intros r' c' l' ->.
      rewrite Forall_forall in Hl. specialize (Hl _ Hv). unfold param_kind1 in Hl. rewrite Hp in Hl.
      destruct k; cbn in Hk, Hl; discriminate. }
    split.
    - intros H. destruct (map_res (fun x0 => tail_loop spec_q P ev n d fd [x0]) l) as [outs'| | | | | |] eqn:Em; try discriminate.
      cbn [bind] in H. inversion H; subst. apply map_res_ok in Em.
      clear -Em Hel. induction Em; constructor.
      + rewrite Hel; [assumption | left; reflexivity].
      + apply IHEm. intros v Hv. apply Hel. right. exact Hv.
    - intros H. assert (Em : map_res (fun x0 => tail_loop spec_q P ev n d fd [x0]) l = ROk outs).
      { apply map_res_ok. clear -H Hel. induction H; constructor.
        - rewrite <- Hel; [assumption | left; reflexivity].
        - apply IHForall2. intros v Hv. apply Hel. right. exact Hv. }
      rewrite Em. reflexivity.
  Qed.

  (* the code only does so when the declared output kind equals the input kind *)
  Theorem broadcast_impl_kind_change ev n d fd r c l :
    scalar_fn fd -> Forall (fun v => conforms P (param_kind1 fd) v = true) l ->
    pkind_eqb (param_kind1 fd) (fout fd) = false ->
    call_fn impl_q P ev n d fd [VMat r c l] = RErr.
  Proof.
    intros (x & k & Hp & Hk) Hl Hne. unfold call_fn. rewrite Hp. cbn [List.length Nat.eqb negb].
    unfold broadcast_target. rewrite Hp, Hk. cbn [andb]. unfold param_kind1 in Hl. rewrite Hp in Hl.
    rewrite (proj2 (forallb_forall _ _)); [|intros v Hv; rewrite Forall_forall in Hl; auto].
    fold (fparams fd). cbn [q_bcast impl_q andb]. rewrite Hne. reflexivity.
  Qed.
End Broadcast.

(* ================================================================== match expressions *)
Section MatchSpec.
  Context (P : prog) (evb : env -> expr -> res value).

  (* the specification of a match expression: acceptable arm list, then the body of the
     first arm whose pattern matches the source and whose guard is true - nothing else *)
  Theorem match_first_arm_runs base v arms i e b :
    match_exhaustive P v arms = true ->
    select_at (guard_res evb) (pm_m false v base) 0 arms = SelArm i e b ->
    match_step spec_q P evb base v arms = evb e b.
  Proof.
    intros Hx Hs. unfold match_step, match_main. rewrite Hx. cbn [negb q_later spec_q andb q_guard_early q_boolpat].
    unfold select_at in Hs. rewrite Hs. destruct (evb e b); reflexivity.
  Qed.

  Theorem match_no_arm_err base v arms :
    Forall (rejects (guard_res evb) (pm_m false v base)) arms ->
    match_step spec_q P evb base v arms = RErr.
  Proof.
    intros Hr. unfold match_step, match_main. destruct (match_exhaustive P v arms); [|reflexivity].
    cbn [negb q_later spec_q andb q_guard_early q_boolpat].
    apply select_none with (k := 0) in Hr. unfold select_at in Hr. rewrite Hr. reflexivity.
  Qed.

  (* a match with neither a wildcard arm nor arms naming every variant of the source's enum is
     rejected - by the specification and by the code model alike *)
  Theorem nonexhaustive_rejected q base v arms :
    match_exhaustive P v arms = false -> match_step q P evb base v arms = RErr.
  Proof. intros H. unfold match_step. rewrite H. reflexivity. Qed.

  Lemma mem_str_In s l : mem_str s l = true <-> In s l.
  Proof.
    unfold mem_str. rewrite existsb_exists. split.
    - intros (x & Hx & E). apply String.eqb_eq in E. subst. exact Hx.
    - intros H. exists s. split; [exact H | apply String.eqb_refl].
  Qed.

  Theorem match_exhaustive_iff v arms :
    match_exhaustive P v arms = true <->
    (exists a, In a arms /\ arm_pat a = PWild) \/
    ((exists t p, v = VEnum t p) /\ arm_tags arms <> [] /\
     forall t hp, In (t, hp) (penum P) -> In t (arm_tags arms)).
  Proof.
    unfold match_exhaustive, has_wild, covers. rewrite orb_true_iff, andb_true_iff, existsb_exists. split.
    - intros [(a & Ha & Hw)|[Hv Hc]].
      + left. exists a. split; [exact Ha|]. destruct (arm_pat a); try discriminate. reflexivity.
      + right. split; [destruct v; try discriminate; eauto|].
        destruct (arm_tags arms) as [|t0 ts] eqn:Et; [discriminate|]. split; [discriminate|].
        intros t hp Hin. rewrite forallb_forall in Hc. specialize (Hc _ Hin). apply mem_str_In in Hc. exact Hc.
    - intros [(a & Ha & Hw)|((t & p & ->) & Hne & Hall)].
      + left. exists a. split; [exact Ha|]. rewrite Hw. reflexivity.
      + right. split; [reflexivity|]. destruct (arm_tags arms) as [|t0 ts] eqn:Et; [congruence|].
        apply forallb_forall. intros [t1 hp] Hin. apply mem_str_In. eapply Hall. exact Hin.
  Qed.

  (* replacing the arms after the selected one changes nothing (same acceptance test) *)
  Theorem match_later_arms_irrelevant base v l1 l2 l2' i e b :
    select_at (guard_res evb) (pm_m false v base) 0 l1 = SelArm i e b ->
    match_main spec_q evb base v (l1 ++ l2) = match_main spec_q evb base v (l1 ++ l2').
  Proof.
    intros Hs. unfold match_main. cbn [q_later spec_q q_guard_early q_boolpat].
    fold (select_at (guard_res evb) (pm_m false v base) 0 (l1 ++ l2)).
    fold (select_at (guard_res evb) (pm_m false v base) 0 (l1 ++ l2')).
    rewrite !(no_later_arm_runs _ _ _ _ _ _ _ Hs). reflexivity.
  Qed.
End MatchSpec.

(* ---- the bool-literal quirk only concerns bool literals *)
Fixpoint no_bool_lit (p : pat) : bool :=
  match p with
  | PLit (VBool _) => false
  | PTuple ps => forallb no_bool_lit ps
  | PArr pre sp suf =>
      forallb no_bool_lit pre && forallb no_bool_lit suf &&
      match sp with Some (Some b) => no_bool_lit b | _ => true end
  | PEnum _ (Some a) => no_bool_lit a
  | _ => true
  end.

Lemma pm_list_ext ps : Forall (fun p => forall v e, pm true p v e = pm false p v e) ps ->
  forall vs e, pm_list true ps vs e = pm_list false ps vs e.
Proof.
  induction 1 as [|p ps Hp Hps IH]; intros vs e; [reflexivity|].
  destruct vs as [|v vs]; [reflexivity|]. rewrite !pm_list_cons, Hp.
  destruct (pm false p v e) as [b e']. destruct b; [apply IH|reflexivity].
Qed.

Lemma Forall_forallb_imp {A} (Q : A -> Prop) (f : A -> bool) l :
  Forall (fun x => f x = true -> Q x) l -> forallb f l = true -> Forall Q l.
Proof.
  induction 1 as [|x l Hx Hl IH]; intros H; [constructor|].
  cbn in H. apply andb_prop in H as [H1 H2]. constructor; auto.
Qed.

Theorem pm_boolpat_free : forall p, no_bool_lit p = true -> forall v e, pm true p v e = pm false p v e.
Proof.
  induction p as [|x|l|ps IH|pre sp suf IHpre IHsp IHsuf|t a IH] using pat_ind'; intros Hn v e; try reflexivity.
  - destruct l; try reflexivity. discriminate.
  - cbn [no_bool_lit] in Hn. destruct v; try reflexivity. rewrite !pm_tuple_unfold.
    rewrite pm_list_ext; [reflexivity|]. eapply Forall_forallb_imp; [|exact Hn]. exact IH.
  - cbn [no_bool_lit] in Hn. apply andb_prop in Hn as [Hn H3]. apply andb_prop in Hn as [H1 H2].
    destruct v; try reflexivity. rewrite !pm_arr_unfold. cbv zeta.
    rewrite (pm_list_ext pre) by (eapply Forall_forallb_imp; [|exact H1]; exact IHpre).
    destruct (Nat.ltb _ _); [reflexivity|].
    destruct (pm_list false pre l e) as [b1 e1]. destruct (negb b1); [reflexivity|].
    rewrite (pm_list_ext suf) by (eapply Forall_forallb_imp; [|exact H2]; exact IHsuf).
    destruct (pm_list false suf _ e1) as [b2 e2]. destruct (negb b2); [reflexivity|].
    destruct sp as [[bp|]|]; try reflexivity. apply (IHsp bp eq_refl). exact H3.
  - destruct v; try reflexivity. cbn. destruct (String.eqb tag t); [|reflexivity].
    destruct p as [pv|], a as [ap|]; try reflexivity. apply (IH ap eq_refl). exact Hn.
Qed.

(* ---- where the code model of match_expression agrees with the specification *)
Section MatchHolds.
  Context (P : prog) (evb : env -> expr -> res value) (base : env) (v : value).

  (* (b) the guard of every arm evaluates to some bool in the environment the matcher
         leaves behind - whether the pattern matched or not *)
  Definition guard_safe (a : arm) : Prop :=
    exists bb, guard_res evb (snd (pm_m false v base (arm_pat a))) (arm_guard a) = ROk bb.
  (* (c) every applicable non-wildcard arm has a body that evaluates, to the kind of [out] *)
  Definition arm_harmless (out : value) (a : arm) : Prop :=
    is_wild (arm_pat a) = false ->
    fst (pm false (arm_pat a) v base) = true ->
    guard_res evb (snd (pm false (arm_pat a) v base)) (arm_guard a) = ROk true ->
    exists w, evb (snd (pm false (arm_pat a) v base)) (arm_body a) = ROk w /\ same_kind w out = true.

  Lemma pm_m_free og p : no_bool_lit p = true -> pm_m og v base p = pm_m false v base p.
  Proof.
    intros H. destruct og; [|reflexivity]. destruct p; try reflexivity; unfold pm_m; apply pm_boolpat_free; exact H.
  Qed.

  Lemma pm_m_pm p : pm_m false v base p = pm false p v base.
  Proof. destruct p; reflexivity. Qed.

  Lemma select_early_eq : forall arms k,
    Forall (fun a => no_bool_lit (arm_pat a) = true) arms -> Forall guard_safe arms ->
    select_gen true (guard_res evb) (pm_m true v base) k arms =
    select_gen false (guard_res evb) (pm_m false v base) k arms.
  Proof.
    induction arms as [|[[p g] b] rest IH]; intros k Hn Hg; [reflexivity|].
    inversion Hn as [|? ? Hn1 Hn2]; inversion Hg as [|? ? Hg1 Hg2]; subst. cbn [arm_pat fst] in Hn1.
    cbn [select_gen]. rewrite (pm_m_free true p Hn1).
    unfold guard_safe in Hg1. cbn [arm_pat arm_guard fst snd] in Hg1.
    destruct (pm_m false v base p) as [m e] eqn:Em. cbn [snd] in Hg1. destruct Hg1 as [bb Hbb]. rewrite Hbb.
    destruct m, bb; cbn [andb]; try reflexivity; apply IH; assumption.
  Qed.

  Lemma validate_none out chosen : forall arms j,
    Forall (fun a => no_bool_lit (arm_pat a) = true) arms -> Forall guard_safe arms ->
    Forall (arm_harmless out) arms ->
    validate_others impl_q evb base v chosen out j arms = None.
  Proof.
    induction arms as [|[[p g] b] rest IH]; intros j Hn Hg Hh; [reflexivity|].
    inversion Hn as [|? ? Hn1 Hn2]; inversion Hg as [|? ? Hg1 Hg2]; inversion Hh as [|? ? Hh1 Hh2]; subst.
    cbn [arm_pat fst] in Hn1. cbn [validate_others].
    destruct (Nat.eqb j chosen || is_wild p) eqn:Esk; [apply IH; assumption|].
    apply orb_false_elim in Esk as [_ Ew].
    cbn [q_boolpat impl_q q_guard_early negb andb]. rewrite (pm_boolpat_free p Hn1).
    unfold guard_safe, arm_harmless in Hg1, Hh1. cbn [arm_pat arm_guard arm_body fst snd] in Hg1, Hh1.
    rewrite pm_m_pm in Hg1.
    destruct (pm false p v base) as [m e] eqn:Em. cbn [fst snd] in Hg1, Hh1. destruct Hg1 as [bb Hbb]. rewrite Hbb.
    destruct m, bb; cbn [andb]; try (apply IH; assumption).
    destruct (Hh1 Ew eq_refl Hbb) as (w & -> & ->). apply IH; assumption.
  Qed.

  (* C16 holds for this match expression: with a wildcard arm, no bool-literal patterns, total
     guards and harmless other arms, the code model computes exactly the specified result *)
  Theorem match_impl_eq_spec arms :
    has_wild arms = true ->
    Forall (fun a => no_bool_lit (arm_pat a) = true) arms -> Forall guard_safe arms ->
    (forall out, match_step spec_q P evb base v arms = ROk out -> Forall (arm_harmless out) arms) ->
    match_step impl_q P evb base v arms = match_step spec_q P evb base v arms.
  Proof.
    intros Hw Hn Hg Hh. unfold match_step in *. rewrite Hw in *.
    assert (Hx : match_exhaustive P v arms = true) by (unfold match_exhaustive; rewrite Hw; reflexivity).
    rewrite Hx in *. cbn [negb andb q_later impl_q spec_q] in *.
    unfold match_main in *. cbn [q_guard_early q_boolpat q_later impl_q spec_q] in *.
    rewrite select_early_eq by assumption.
    destruct (select_gen false (guard_res evb) (pm_m false v base) 0 arms) as [r| |i e b]; try reflexivity.
    destruct (evb e b) as [out| | | | | |] eqn:Eb; try reflexivity.
    rewrite validate_none; [reflexivity|assumption|assumption|]. apply Hh. reflexivity.
  Qed.
End MatchHolds.

(* ================================================================== recursion: the recurrences, for all n, by induction *)
Notation num k z := (EVal (VInt k z)).

Definition fact_def (k : string) : fdef :=
  {| fname := "fact"; fparams := [("x", KInt k)]; fout := KInt k;
     farms := [(PLit (VInt k 0), None, num k 1);
               (PVar "n", None, EBin Mul (EVar "n") (ECall "fact" [EBin Sub (EVar "n") (num k 1)]))] |}.

Fixpoint fact_Z (n : nat) : Z := match n with O => 1%Z | S m => (Z.of_nat (S m) * fact_Z m)%Z end.

Lemma arith_ok k lo hi z : kind_range k = Some (lo, hi) -> (lo <= z <= hi)%Z -> arith k z = ROk (VInt k z).
Proof.
  intros Hk [H1 H2]. unfold arith, in_kind. rewrite Hk.
  apply Z.leb_le in H1, H2. rewrite H1, H2. reflexivity.
Qed.


(* one-step unfoldings of the evaluator (so that proofs never unfold [eval] at a symbolic fuel) *)
Section Steps.
  Context (q : quirks) (P : prog).
  Lemma eval_val f d s e v : eval q P (S f) d s e (EVal v) = ROk v.
  Proof. reflexivity. Qed.
  Lemma eval_var f d s e y : eval q P (S f) d s e (EVar y) = match lookup2 s e y with Some v => ROk v | None => RErr end.
  Proof. reflexivity. Qed.
  Lemma eval_bin f d s e op a b : eval q P (S f) d s e (EBin op a b) =
    bind (eval q P f d s e a) (fun va => bind (eval q P f d s e b) (fun vb => binop_eval op va vb)).
  Proof. reflexivity. Qed.
  Lemma eval_call f d s e fn args : eval q P (S f) d s e (ECall fn args) =
    match find_fn (pdefs P) fn with
    | None => RErr
    | Some fd => bind (map_res (eval q P f d s e) args) (fun vs =>
                   match d with O => RStack | S d' => call_fn q P (eval q P f) f d' fd vs end)
    end.
  Proof. reflexivity. Qed.
  Lemma tail_loop_S ev n d fd args : tail_loop q P ev (S n) d fd args =
    if negb (conforms_all P (fparams fd) args) then RAdv "arg-kind"
    else if negb (fn_exhaustive P fd) then RErr
    else
      let syms := combine (map fst (fparams fd)) args in
      match select_at (guard_res (ev d syms)) (pm_args (q_multi_wild q) args) 0 (farms fd) with
      | SelErr r => r
      | SelNone => RErr
      | SelArm _ e body =>
          match self_tail_call fd body with
          | Some targs =>
              match map_res (ev d syms e) targs with
              | ROk vs => tail_loop q P ev n d fd vs
              | other => cast other
              end
          | None => bind (ev d syms e body) (coerce P (fout fd))
          end
      end.
  Proof. reflexivity. Qed.
  Lemma call_fn_unfold ev n d fd args : call_fn q P ev n d fd args =
    if negb (Nat.eqb (List.length args) (List.length (fparams fd))) then RErr
    else match broadcast_target P fd args with
         | Some (r, c, els) =>
             if q_bcast q && negb (pkind_eqb (param_kind1 fd) (fout fd)) then RErr
             else bind (map_res (fun x => tail_loop q P ev n d fd [x]) els) (fun outs => ROk (VMat r c outs))
         | None => tail_loop q P ev n d fd args
         end.
  Proof. reflexivity. Qed.
End Steps.

Lemma fact_Z_pos n : (1 <= fact_Z n)%Z.
Proof. induction n as [|n IH]; [reflexivity|]. change (fact_Z (S n)) with (Z.of_nat (S n) * fact_Z n)%Z. nia. Qed.
Lemma fact_Z_ge n : (Z.of_nat n <= fact_Z n)%Z.
Proof. destruct n as [|n]; [cbn; lia|]. change (fact_Z (S n)) with (Z.of_nat (S n) * fact_Z n)%Z. pose proof (fact_Z_pos n). nia. Qed.
Lemma fact_Z_mono n : (fact_Z n <= fact_Z (S n))%Z.
Proof. change (fact_Z (S n)) with (Z.of_nat (S n) * fact_Z n)%Z. pose proof (fact_Z_pos n). nia. Qed.


Section Fact.
  Context (q : quirks) (P : prog) (k : string) (lo hi : Z).
  Hypothesis Hk : kind_range k = Some (lo, hi).
  Hypothesis Hlo : (lo <= 0)%Z.
  Hypothesis HP : find_fn (pdefs P) "fact" = Some (fact_def k).

  Local Opaque eval tail_loop call_fn Z.of_nat fact_Z Z.eqb Z.leb Z.ltb Z.add Z.sub Z.mul Z.quot Z.rem.

  Ltac ev_step := first [ rewrite eval_val | rewrite eval_var | rewrite eval_bin | rewrite eval_call | rewrite tail_loop_S ].
  Ltac ev := repeat (ev_step; cbn; rewrite ?String.eqb_refl; cbn).

  Lemma fact_call : forall n f d, 2 * n + 2 <= f -> n <= d -> (fact_Z n <= hi)%Z ->
    call_fn q P (eval q P f) f d (fact_def k) [VInt k (Z.of_nat n)] = ROk (VInt k (fact_Z n)).
  Proof.
    induction n as [|n IH]; intros f d Hf Hd Hfit.
    - destruct f as [|f]; [lia|]. change (Z.of_nat 0) with 0%Z. rewrite call_fn_unfold. cbn. ev.
      rewrite Z.eqb_refl. cbn. ev. unfold coerce. cbn. rewrite String.eqb_refl. reflexivity.
    - destruct f as [|[|[|[|f]]]]; try lia. destruct d as [|d]; [lia|].
      rewrite call_fn_unfold. cbn. ev.
      replace (0 =? Z.of_nat (S n))%Z with false by (symmetry; apply Z.eqb_neq; lia). cbn.
      ev. rewrite HP. cbn. ev.
      rewrite (arith_ok k lo hi) by (exact Hk || (pose proof (fact_Z_ge (S n)); lia)). cbn.
      replace (Z.of_nat (S n) - 1)%Z with (Z.of_nat n) by lia.
      rewrite IH by (try lia; pose proof (fact_Z_mono n); lia). cbn. rewrite String.eqb_refl. cbn.
      rewrite (arith_ok k lo hi) by (exact Hk || (pose proof (fact_Z_pos (S n)); change (fact_Z (S n)) with (Z.of_nat (S n) * fact_Z n)%Z in *; lia)).
      cbn. unfold coerce. cbn. rewrite String.eqb_refl. reflexivity.
  Qed.

  (* factorial over its whole non-overflowing domain: every n with n! <= max of the kind *)
  Theorem factorial_correct : forall n f d syms e, 2 * n + 4 <= f -> n + 1 <= d -> (fact_Z n <= hi)%Z ->
    eval q P f d syms e (ECall "fact" [num k (Z.of_nat n)]) = ROk (VInt k (fact_Z n)).
  Proof.
    intros n f d syms e Hf Hd Hfit. destruct f as [|[|f]]; try lia. destruct d as [|d]; [lia|].
    ev. rewrite HP. cbn. ev. apply fact_call; [lia|lia|exact Hfit].
  Qed.
End Fact.

(* ---------------- power *)
Definition power_def (k : string) : fdef :=
  {| fname := "power"; fparams := [("x", KInt k); ("y", KInt k)]; fout := KInt k;
     farms := [(PTuple [PWild; PLit (VInt k 0)], None, num k 1);
               (PTuple [PVar "x"; PVar "y"], None,
                EBin Mul (EVar "x") (ECall "power" [EVar "x"; EBin Sub (EVar "y") (num k 1)]))] |}.

Section Power.
  Context (q : quirks) (P : prog) (k : string) (lo hi : Z).
  Hypothesis Hk : kind_range k = Some (lo, hi).
  Hypothesis Hlo : (lo <= 0)%Z.
  Hypothesis HP : find_fn (pdefs P) "power" = Some (power_def k).
  Local Opaque eval tail_loop call_fn Z.of_nat Z.eqb Z.leb Z.ltb Z.add Z.sub Z.mul Z.quot Z.rem Z.pow.
  Ltac ev_step := first [ rewrite eval_val | rewrite eval_var | rewrite eval_bin | rewrite eval_call | rewrite tail_loop_S ].
  Ltac ev := repeat (ev_step; cbn; rewrite ?String.eqb_refl; cbn).

  Lemma power_call : forall n x f d, 2 * n + 2 <= f -> n <= d -> (lo <= x <= hi)%Z -> (Z.of_nat n <= hi)%Z ->
    (forall m, m <= n -> (lo <= x ^ Z.of_nat m <= hi)%Z) ->
    call_fn q P (eval q P f) f d (power_def k) [VInt k x; VInt k (Z.of_nat n)] = ROk (VInt k (x ^ Z.of_nat n)).
  Proof.
    induction n as [|n IH]; intros x f d Hf Hd Hx Hn Hfit.
    - destruct f as [|f]; [lia|]. change (Z.of_nat 0) with 0%Z. rewrite call_fn_unfold. cbn. ev.
      rewrite Z.eqb_refl. cbn. ev. unfold coerce. cbn. rewrite String.eqb_refl. reflexivity.
    - destruct f as [|[|[|[|f]]]]; try lia. destruct d as [|d]; [lia|].
      rewrite call_fn_unfold. cbn. ev.
      replace (0 =? Z.of_nat (S n))%Z with false by (symmetry; apply Z.eqb_neq; lia). cbn.
      ev. rewrite HP. cbn. ev.
      rewrite (arith_ok k lo hi) by (exact Hk || lia). cbn.
      replace (Z.of_nat (S n) - 1)%Z with (Z.of_nat n) by lia.
      rewrite IH; [|lia|lia|exact Hx|lia|intros m Hm; apply Hfit; lia]. cbn. rewrite String.eqb_refl. cbn.
      assert (E : (x * x ^ Z.of_nat n = x ^ Z.of_nat (S n))%Z).
      { rewrite Nat2Z.inj_succ, Z.pow_succ_r by lia. reflexivity. }
      rewrite E. rewrite (arith_ok k lo hi) by (exact Hk || (apply Hfit; lia)).
      cbn. unfold coerce. cbn. rewrite String.eqb_refl. reflexivity.
  Qed.

  (* power over its whole non-overflowing domain *)
  Theorem power_correct : forall n x f d syms e, 2 * n + 4 <= f -> n + 1 <= d -> (lo <= x <= hi)%Z -> (Z.of_nat n <= hi)%Z ->
    (forall m, m <= n -> (lo <= x ^ Z.of_nat m <= hi)%Z) ->
    eval q P f d syms e (ECall "power" [num k x; num k (Z.of_nat n)]) = ROk (VInt k (x ^ Z.of_nat n)).
  Proof.
    intros n x f d syms e Hf Hd Hx Hn Hfit. destruct f as [|[|f]]; try lia. destruct d as [|d]; [lia|].
    ev. rewrite HP. cbn. ev. apply power_call; try assumption; lia.
  Qed.
End Power.

(* ---------------- fibonacci *)
Definition fib_def (k : string) : fdef :=
  {| fname := "fib"; fparams := [("x", KInt k)]; fout := KInt k;
     farms := [(PLit (VInt k 0), None, num k 0);
               (PLit (VInt k 1), None, num k 1);
               (PVar "n", None, EBin Add (ECall "fib" [EBin Sub (EVar "n") (num k 1)])
                                         (ECall "fib" [EBin Sub (EVar "n") (num k 2)]))] |}.

Fixpoint fib_Z (n : nat) : Z :=
  match n with
  | O => 0%Z
  | S m => match m with O => 1%Z | S p => (fib_Z m + fib_Z p)%Z end
  end.

Lemma fib_Z_SS n : fib_Z (S (S n)) = (fib_Z (S n) + fib_Z n)%Z.
Proof. reflexivity. Qed.
Lemma fib_Z_nonneg n : (0 <= fib_Z n)%Z /\ (0 <= fib_Z (S n))%Z.
Proof. induction n as [|n [IH1 IH2]]; [cbn; lia|]. split; [exact IH2|]. rewrite fib_Z_SS. lia. Qed.
Section Fib.
  Context (q : quirks) (P : prog) (k : string) (lo hi : Z).
  Hypothesis Hk : kind_range k = Some (lo, hi).
  Hypothesis Hlo : (lo <= 0)%Z.
  Hypothesis HP : find_fn (pdefs P) "fib" = Some (fib_def k).
  Local Opaque eval tail_loop call_fn Z.of_nat fib_Z Z.eqb Z.leb Z.ltb Z.add Z.sub Z.mul Z.quot Z.rem.
  Ltac ev_step := first [ rewrite eval_val | rewrite eval_var | rewrite eval_bin | rewrite eval_call | rewrite tail_loop_S ].
  Ltac ev := repeat (ev_step; cbn; rewrite ?String.eqb_refl; cbn).

  Definition fib_goal (n : nat) : Prop := forall f d, 2 * n + 2 <= f -> n <= d -> (Z.of_nat n <= hi)%Z -> (fib_Z n <= hi)%Z ->
    call_fn q P (eval q P f) f d (fib_def k) [VInt k (Z.of_nat n)] = ROk (VInt k (fib_Z n)).

  Lemma fib_call : forall n, fib_goal n /\ fib_goal (S n).
  Proof.
    induction n as [|n [IH1 IH2]].
    - split; intros f d Hf Hd Hn Hfit.
      + destruct f as [|f]; [lia|]. change (Z.of_nat 0) with 0%Z. rewrite call_fn_unfold. cbn. ev.
        rewrite Z.eqb_refl. cbn. ev. unfold coerce. cbn. rewrite String.eqb_refl. reflexivity.
      + destruct f as [|f]; [lia|]. change (Z.of_nat 1) with 1%Z. rewrite call_fn_unfold. cbn. ev.
        replace (0 =? 1)%Z with false by reflexivity. rewrite Z.eqb_refl. cbn. ev.
        unfold coerce. cbn. rewrite String.eqb_refl. reflexivity.
    - split; [exact IH2|]. intros f d Hf Hd Hn Hfit.
      destruct f as [|[|[|[|f]]]]; try lia. destruct d as [|d]; [lia|].
      rewrite call_fn_unfold. cbn. ev.
      replace (0 =? Z.of_nat (S (S n)))%Z with false by (symmetry; apply Z.eqb_neq; lia).
      replace (1 =? Z.of_nat (S (S n)))%Z with false by (symmetry; apply Z.eqb_neq; lia). cbn.
      ev. rewrite HP. cbn. ev.
      rewrite fib_Z_SS in Hfit. pose proof (fib_Z_nonneg n) as [N1 N2].
      rewrite (arith_ok k lo hi) by (exact Hk || lia). cbn.
      replace (Z.of_nat (S (S n)) - 1)%Z with (Z.of_nat (S n)) by lia.
      rewrite IH2 by lia. cbn. ev.
      rewrite (arith_ok k lo hi) by (exact Hk || lia). cbn.
      replace (Z.of_nat (S (S n)) - 2)%Z with (Z.of_nat n) by lia.
      rewrite IH1 by lia. cbn. rewrite String.eqb_refl. cbn.
      rewrite (arith_ok k lo hi) by (exact Hk || lia).
      cbn. unfold coerce. cbn. rewrite String.eqb_refl. rewrite fib_Z_SS. reflexivity.
  Qed.

  (* the doubly recursive fibonacci over its whole non-overflowing domain *)
  Theorem fib_correct : forall n f d syms e, 2 * n + 4 <= f -> n + 1 <= d -> (Z.of_nat n <= hi)%Z -> (fib_Z n <= hi)%Z ->
    eval q P f d syms e (ECall "fib" [num k (Z.of_nat n)]) = ROk (VInt k (fib_Z n)).
  Proof.
    intros n f d syms e Hf Hd Hn Hfit. destruct f as [|[|f]]; try lia. destruct d as [|d]; [lia|].
    ev. rewrite HP. cbn. ev. apply (proj1 (fib_call n)); try assumption; lia.
  Qed.
End Fib.

(* ---------------- gcd by remainder: a tail call, i.e. iterations of the loop *)
Definition gcd_def (k : string) : fdef :=
  {| fname := "gcd"; fparams := [("a", KInt k); ("b", KInt k)]; fout := KInt k;
     farms := [(PTuple [PVar "a"; PLit (VInt k 0)], None, EVar "a");
               (PTuple [PVar "a"; PVar "b"], None, ECall "gcd" [EVar "b"; EBin Mod (EVar "a") (EVar "b")])] |}.

Lemma gcd_step a b : (0 <= a)%Z -> (0 < b)%Z -> Z.gcd b (Z.rem a b) = Z.gcd a b.
Proof.
  intros Ha Hb. rewrite Z.rem_mod_nonneg by lia. rewrite Z.gcd_comm, Z.gcd_mod by lia. apply Z.gcd_comm.
Qed.

Section Gcd.
  Context (q : quirks) (P : prog) (k : string) (lo hi : Z).
  Hypothesis Hk : kind_range k = Some (lo, hi).
  Hypothesis Hlo : (lo <= 0)%Z.
  Hypothesis HP : find_fn (pdefs P) "gcd" = Some (gcd_def k).
  Local Opaque eval tail_loop call_fn Z.of_nat Z.eqb Z.leb Z.ltb Z.add Z.sub Z.mul Z.quot Z.rem Z.gcd.
  Ltac ev_step := first [ rewrite eval_val | rewrite eval_var | rewrite eval_bin | rewrite eval_call | rewrite tail_loop_S ].
  Ltac ev := repeat (ev_step; cbn; rewrite ?String.eqb_refl; cbn).

  (* the loop: at most b + 1 iterations, all at the depth d of the first call *)
  Lemma gcd_loop : forall m a b f n d, 2 <= f -> m + 1 <= n -> (0 <= a <= hi)%Z -> (0 <= b <= hi)%Z -> (b <= Z.of_nat m)%Z ->
    tail_loop q P (eval q P f) n d (gcd_def k) [VInt k a; VInt k b] = ROk (VInt k (Z.gcd a b)).
  Proof.
    induction m as [|m IH]; intros a b f n d Hf Hn Ha Hb Hm.
    - assert (b = 0%Z) by lia. subst b. destruct n as [|n]; [lia|]. destruct f as [|f]; [lia|].
      ev. rewrite Z.eqb_refl. cbn. ev. unfold coerce. cbn. rewrite String.eqb_refl.
      rewrite Z.gcd_0_r, Z.abs_eq by lia. reflexivity.
    - destruct n as [|n]; [lia|]. destruct f as [|[|f]]; try lia.
      destruct (Z.eq_dec b 0) as [->|Hb0].
      + ev. rewrite Z.eqb_refl. cbn. ev. unfold coerce. cbn. rewrite String.eqb_refl.
        rewrite Z.gcd_0_r, Z.abs_eq by lia. reflexivity.
      + ev. replace (0 =? b)%Z with false by (symmetry; apply Z.eqb_neq; lia). cbn.
        ev. replace (b =? 0)%Z with false by (symmetry; apply Z.eqb_neq; lia). cbn.
        assert (Hr : (0 <= Z.rem a b < b)%Z) by (apply Z.rem_bound_pos; lia).
        rewrite (arith_ok k lo hi) by (exact Hk || lia). cbn.
        rewrite IH; [|lia|lia|lia|lia|lia]. rewrite gcd_step by lia. reflexivity.
  Qed.

  (* gcd over its whole domain (non-negative operands of the kind) *)
  Theorem gcd_correct : forall a b f d syms e, Z.to_nat b + 4 <= f -> 1 <= d -> (0 <= a <= hi)%Z -> (0 <= b <= hi)%Z ->
    eval q P f d syms e (ECall "gcd" [num k a; num k b]) = ROk (VInt k (Z.gcd a b)).
  Proof.
    intros a b f d syms e Hf Hd Ha Hb. destruct f as [|[|f]]; try lia. destruct d as [|d]; [lia|].
    ev. rewrite HP. cbn. ev. rewrite call_fn_unfold. cbn.
    apply (gcd_loop (Z.to_nat b)); try assumption; lia.
  Qed.
End Gcd.

(* ---------------- countdown: tail recursion of any depth *)
Definition countdown_def (k : string) : fdef :=
  {| fname := "countdown"; fparams := [("n", KInt k)]; fout := KInt k;
     farms := [(PVar "n", None, ECall "cdacc" [EVar "n"; num k 0])] |}.
Definition cdacc_def (k : string) : fdef :=
  {| fname := "cdacc"; fparams := [("n", KInt k); ("acc", KInt k)]; fout := KInt k;
     farms := [(PTuple [PLit (VInt k 0); PVar "acc"], None, EVar "acc");
               (PTuple [PVar "n"; PVar "acc"], None,
                ECall "cdacc" [EBin Sub (EVar "n") (num k 1); EBin Add (EVar "acc") (num k 1)])] |}.

Section Countdown.
  Context (q : quirks) (P : prog) (k : string) (lo hi : Z).
  Hypothesis Hk : kind_range k = Some (lo, hi).
  Hypothesis Hlo : (lo <= 0)%Z.
  Hypothesis HP1 : find_fn (pdefs P) "countdown" = Some (countdown_def k).
  Hypothesis HP2 : find_fn (pdefs P) "cdacc" = Some (cdacc_def k).
  Local Opaque eval tail_loop call_fn Z.of_nat Z.eqb Z.leb Z.ltb Z.add Z.sub Z.mul Z.quot Z.rem.
  Ltac ev_step := first [ rewrite eval_val | rewrite eval_var | rewrite eval_bin | rewrite eval_call | rewrite tail_loop_S ].
  Ltac ev := repeat (ev_step; cbn; rewrite ?String.eqb_refl; cbn).

  (* n iterations of the loop at ONE depth d - whatever d is, 0 included *)
  Lemma cdacc_loop : forall m acc f n d, 2 <= f -> m + 1 <= n -> (0 <= acc)%Z -> (Z.of_nat m + acc <= hi)%Z ->
    tail_loop q P (eval q P f) n d (cdacc_def k) [VInt k (Z.of_nat m); VInt k acc] = ROk (VInt k (Z.of_nat m + acc)).
  Proof.
    induction m as [|m IH]; intros acc f n d Hf Hn Hacc Hfit.
    - destruct n as [|n]; [lia|]. destruct f as [|f]; [lia|]. change (Z.of_nat 0) with 0%Z.
      ev. rewrite Z.eqb_refl. cbn. ev. unfold coerce. cbn. rewrite String.eqb_refl. reflexivity.
    - destruct n as [|n]; [lia|]. destruct f as [|[|f]]; try lia.
      ev. replace (0 =? Z.of_nat (S m))%Z with false by (symmetry; apply Z.eqb_neq; lia). cbn.
      ev. rewrite !(arith_ok k lo hi) by (exact Hk || lia). cbn.
      replace (Z.of_nat (S m) - 1)%Z with (Z.of_nat m) by lia.
      rewrite IH; [|lia|lia|lia|lia]. f_equal. f_equal. lia.
  Qed.

  (* countdown(n) = n for EVERY n of the kind, with two activations of stack: tail calls do not nest *)
  Theorem countdown_correct : forall n f syms e, n + 6 <= f -> (Z.of_nat n <= hi)%Z ->
    eval q P f 2 syms e (ECall "countdown" [num k (Z.of_nat n)]) = ROk (VInt k (Z.of_nat n)).
  Proof.
    intros n f syms e Hf Hfit. destruct f as [|[|[|[|f]]]]; try lia.
    ev. rewrite HP1. cbn. ev. rewrite call_fn_unfold. cbn. ev. rewrite HP2. cbn. ev.
    rewrite call_fn_unfold. cbn. rewrite cdacc_loop; [|lia|lia|lia|lia].
    cbn. unfold coerce. cbn. rewrite String.eqb_refl. f_equal. f_equal. lia.
  Qed.
End Countdown.

(* ================================================================== declared parameter names *)
(* ---------------- scoping of declared parameter names *)
Lemma lookup_combine_nth : forall (names : list string) (args : list value) i x v,
  NoDup names -> nth_error names i = Some x -> nth_error args i = Some v ->
  lookup x (combine names args) = Some v.
Proof.
  induction names as [|y names IH]; intros args i x v Hnd Hn Ha.
  - destruct i; discriminate.
  - destruct args as [|a args]; [destruct i; discriminate|].
    destruct i as [|i]; cbn in *.
    + injection Hn as ->. injection Ha as ->. rewrite String.eqb_refl. reflexivity.
    + inversion Hnd as [|? ? Hnin Hnd']; subst.
      destruct (String.eqb x y) eqn:E.
      * apply String.eqb_eq in E. subst. exfalso. apply Hnin. eapply nth_error_In. exact Hn.
      * eapply IH; eassumption.
Qed.

Section Scoping.
  Context (q : quirks) (P : prog).
  (* a pattern variable wins over a declared parameter of the same name *)
  Lemma pattern_var_shadows_param f d syms e x v : lookup x e = Some v ->
    eval q P (S f) d syms e (EVar x) = ROk v.
  Proof. intros H. rewrite eval_var. unfold lookup2. rewrite H. reflexivity. Qed.
  (* a name the pattern did not bind denotes the argument at the parameter's position *)
  Lemma param_name_denotes_arg f d names args e i x v : lookup x e = None ->
    NoDup names -> nth_error names i = Some x -> nth_error args i = Some v ->
    eval q P (S f) d (combine names args) e (EVar x) = ROk v.
  Proof.
    intros He Hnd Hn Ha. rewrite eval_var. unfold lookup2. rewrite He.
    rewrite (lookup_combine_nth names args i x v Hnd Hn Ha). reflexivity.
  Qed.
End Scoping.

(* ---------------- an accumulator loop that reads its parameters BY NAME *)
Definition sumacc_def (k : string) : fdef :=
  {| fname := "sumacc"; fparams := [("n", KInt k); ("acc", KInt k)]; fout := KInt k;
     farms := [(PTuple [PLit (VInt k 0); PWild], None, EVar "acc");
               (PTuple [PVar "k"; PWild], None,
                ECall "sumacc" [EBin Sub (EVar "k") (num k 1); EBin Add (EVar "acc") (EVar "k")])] |}.
Definition sumname_def (k : string) : fdef :=
  {| fname := "sumname"; fparams := [("n", KInt k); ("acc", KInt k)]; fout := KInt k;
     farms := [(PTuple [PLit (VInt k 0); PWild], None, EVar "acc");
               (PTuple [PWild; PWild], None,
                ECall "sumname" [EBin Sub (EVar "n") (num k 1); EBin Add (EVar "acc") (EVar "n")])] |}.

Definition tri (n : nat) : Z := (Z.of_nat n * (Z.of_nat n + 1) / 2)%Z.
Lemma tri_S n : tri (S n) = (tri n + Z.of_nat (S n))%Z.
Proof.
  unfold tri. replace (Z.of_nat (S n) * (Z.of_nat (S n) + 1))%Z with (Z.of_nat n * (Z.of_nat n + 1) + Z.of_nat (S n) * 2)%Z by lia.
  rewrite Z.div_add by lia. reflexivity.
Qed.
Lemma tri_nonneg n : (0 <= tri n)%Z.
Proof. unfold tri. apply Z.div_pos; lia. Qed.

Section SumAcc.
  Context (q : quirks) (P : prog) (k : string) (lo hi : Z).
  Hypothesis Hk : kind_range k = Some (lo, hi).
  Hypothesis Hlo : (lo <= 0)%Z.
  Local Opaque eval tail_loop call_fn Z.of_nat Z.eqb Z.leb Z.ltb Z.add Z.sub Z.mul Z.quot Z.rem tri.
  Ltac ev_step := first [ rewrite eval_val | rewrite eval_var | rewrite eval_bin | rewrite eval_call | rewrite tail_loop_S ].
  Ltac ev := repeat (ev_step; cbn; rewrite ?String.eqb_refl; cbn).

  Lemma sumacc_loop : forall m acc f n d, 2 <= f -> m + 1 <= n -> (0 <= acc)%Z -> (acc + tri m <= hi)%Z ->
    tail_loop q P (eval q P f) n d (sumacc_def k) [VInt k (Z.of_nat m); VInt k acc] = ROk (VInt k (acc + tri m)).
  Proof.
    induction m as [|m IH]; intros acc f n d Hf Hn Hacc Hfit.
    - destruct n as [|n]; [lia|]. destruct f as [|f]; [lia|]. change (Z.of_nat 0) with 0%Z.
      ev. rewrite Z.eqb_refl. cbn. ev. unfold coerce. cbn. rewrite String.eqb_refl.
      Local Transparent tri. unfold tri. Local Opaque tri. change (Z.of_nat 0) with 0%Z. f_equal. f_equal.
      Local Transparent Z.add Z.mul. cbn. Local Opaque Z.add Z.mul. lia.
    - destruct n as [|n]; [lia|]. destruct f as [|[|f]]; try lia.
      pose proof (tri_nonneg m) as Ht. rewrite tri_S in Hfit.
      ev. replace (0 =? Z.of_nat (S m))%Z with false by (symmetry; apply Z.eqb_neq; lia). cbn.
      ev. rewrite !(arith_ok k lo hi) by (exact Hk || lia). cbn.
      replace (Z.of_nat (S m) - 1)%Z with (Z.of_nat m) by lia.
      rewrite IH; [|lia|lia|lia|lia]. rewrite tri_S. f_equal. f_equal. lia.
  Qed.

  Lemma sumname_loop : forall m acc f n d, 2 <= f -> m + 1 <= n -> (0 <= acc)%Z -> (acc + tri m <= hi)%Z ->
    tail_loop q P (eval q P f) n d (sumname_def k) [VInt k (Z.of_nat m); VInt k acc] = ROk (VInt k (acc + tri m)).
  Proof.
    induction m as [|m IH]; intros acc f n d Hf Hn Hacc Hfit.
    - destruct n as [|n]; [lia|]. destruct f as [|f]; [lia|]. change (Z.of_nat 0) with 0%Z.
      ev. rewrite Z.eqb_refl. cbn. ev. unfold coerce. cbn. rewrite String.eqb_refl.
      Local Transparent tri. unfold tri. Local Opaque tri. change (Z.of_nat 0) with 0%Z. f_equal. f_equal.
      Local Transparent Z.add Z.mul. cbn. Local Opaque Z.add Z.mul. lia.
    - destruct n as [|n]; [lia|]. destruct f as [|[|f]]; try lia.
      pose proof (tri_nonneg m) as Ht. rewrite tri_S in Hfit.
      ev. replace (0 =? Z.of_nat (S m))%Z with false by (symmetry; apply Z.eqb_neq; lia). cbn.
      ev. rewrite !(arith_ok k lo hi) by (exact Hk || lia). cbn.
      replace (Z.of_nat (S m) - 1)%Z with (Z.of_nat m) by lia.
      rewrite IH; [|lia|lia|lia|lia]. rewrite tri_S. f_equal. f_equal. lia.
  Qed.

  (* sumacc(n, acc) = acc + n(n+1)/2 for EVERY n, at one activation of stack: in each of the n+1
     iterations of the loop `acc` (and, in sumname, `n`) is read by its declared NAME and denotes
     the argument of THAT iteration *)
  Theorem sumacc_correct : find_fn (pdefs P) "sumacc" = Some (sumacc_def k) ->
    forall n acc f d syms e, n + 4 <= f -> 1 <= d -> (0 <= acc)%Z -> (acc + tri n <= hi)%Z ->
    eval q P f d syms e (ECall "sumacc" [num k (Z.of_nat n); num k acc]) = ROk (VInt k (acc + tri n)).
  Proof.
    intros HP n acc f d syms e Hf Hd Hacc Hfit. destruct f as [|[|f]]; try lia. destruct d as [|d]; [lia|].
    ev. rewrite HP. cbn. ev. rewrite call_fn_unfold. cbn.
    apply sumacc_loop; try assumption; lia.
  Qed.
  Theorem sumname_correct : find_fn (pdefs P) "sumname" = Some (sumname_def k) ->
    forall n acc f d syms e, n + 4 <= f -> 1 <= d -> (0 <= acc)%Z -> (acc + tri n <= hi)%Z ->
    eval q P f d syms e (ECall "sumname" [num k (Z.of_nat n); num k acc]) = ROk (VInt k (acc + tri n)).
  Proof.
    intros HP n acc f d syms e Hf Hd Hacc Hfit. destruct f as [|[|f]]; try lia. destruct d as [|d]; [lia|].
    ev. rewrite HP. cbn. ev. rewrite call_fn_unfold. cbn.
    apply sumname_loop; try assumption; lia.
  Qed.
End SumAcc.

(* ================================================================== the judge *)
(* what an `ok` verdict transports to the implementation: its observation on this case is exactly
   what the SPECIFICATION evaluator (every quirk off: first matching arm with a true guard, nothing
   else evaluated, ...) yields - the value, or an error where the specification has one *)
Definition C16_spec (c : case) (o : fobs) : Prop :=
  match run spec_q (big_depth c) c with
  | ROk v => o = FVal v
  | RErr => o = FErr
  | _ => False
  end.

Lemma obs_is_ok v o : obs_is (ROk v) o = true -> o = FVal v.
Proof. destruct o; cbn; try discriminate. intros H. apply value_eqb_eq in H. congruence. Qed.
Lemma obs_is_err o : obs_is RErr o = true -> o = FErr.
Proof. destruct o; cbn; try discriminate. reflexivity. Qed.

Ltac split_all := repeat match goal with
  | |- context [if ?b then _ else _] => destruct b
  | |- context [match ?x with _ => _ end] => destruct x
  end.

Lemma verdict_ok s i deep kc o tag : verdict s i deep kc o = v_ok tag ->
  (s = RErr \/ exists v, s = ROk v) /\ obs_is s o = true.
Proof.
  unfold verdict. destruct s as [v| | | |w| |]; try discriminate.
  - destruct (obs_is (ROk v) o) eqn:Eo; [intros _; split; [right; eauto|reflexivity]|].
    intros H. exfalso. revert H. destruct o; split_all; discriminate.
  - destruct (obs_is RErr o) eqn:Eo; [intros _; split; [left; reflexivity|reflexivity]|].
    intros H. exfalso. revert H. destruct o; split_all; discriminate.
Qed.

Theorem judge_case_sound c o tag : judge_case c o = v_ok tag -> C16_spec c o.
Proof.
  unfold judge_case, C16_spec. intros H. apply verdict_ok in H as [[Hs|[v Hs]] Ho]; rewrite Hs in *.
  - apply obs_is_err. exact Ho.
  - apply obs_is_ok. exact Ho.
Qed.

(* a kf verdict is only given when the observation is exactly what the code model predicts
   (or the process died on a recursion deeper than depth_safe) *)
Lemma verdict_kf s i deep kc o id : verdict s i deep kc o = v_kf id ->
  (id = "deep-recursion-abort" /\ o = FAbort /\ deep tt = true) \/
  (obs_is (i tt) o = true /\ res_eqb (i tt) s = false /\ kc tt = Some id).
Proof.
  unfold verdict.
  destruct s as [v| | | |w| |]; try discriminate.
  - destruct (obs_is (ROk v) o); [discriminate|].
    destruct o; try (destruct (deep tt) eqn:Ed; [|discriminate]; intros H; inversion H; subst; left; auto);
      (destruct (res_eqb (i tt) (ROk v)) eqn:Er; [discriminate|]); (destruct (obs_is (i tt) _) eqn:Eo; [|discriminate]);
      (destruct (kc tt) eqn:Ek; [|destruct (i tt); discriminate]);
      destruct (i tt); try discriminate; intros H; inversion H; subst; right; auto.
  - destruct (obs_is RErr o); [discriminate|].
    destruct o; try (destruct (deep tt) eqn:Ed; [|discriminate]; intros H; inversion H; subst; left; auto);
      (destruct (res_eqb (i tt) RErr) eqn:Er; [discriminate|]); (destruct (obs_is (i tt) _) eqn:Eo; [|discriminate]);
      (destruct (kc tt) eqn:Ek; [|destruct (i tt); discriminate]);
      destruct (i tt); try discriminate; intros H; inversion H; subst; right; auto.
Qed.

Theorem judge_case_kf c o id : judge_case c o = v_kf id ->
  (id = "deep-recursion-abort" /\ o = FAbort /\ is_deep c = true) \/
  (obs_is (run impl_q (big_depth c) c) o = true /\
   res_eqb (run impl_q (big_depth c) c) (run spec_q (big_depth c) c) = false /\
   kf_class c (run spec_q (big_depth c) c) = Some id).
Proof. unfold judge_case. intros H. apply verdict_kf in H. exact H. Qed.

(* ================================================================== C16 holds: programs without match expressions
   The five switches only matter (a) inside match expressions, (b) for a bare wildcard arm
   of a function with other than one parameter, (c) for a one-parameter scalar function whose
   output kind differs from its input kind.  For every program free of (a)-(c) - whatever
   patterns, recursion, tail calls, broadcasting it uses - the evaluator does not depend on the
   switches at all: the code model IS the specification. *)
Fixpoint nm (x : expr) : bool :=
  match x with
  | EVal _ => true
  | EVar _ => true
  | EBin _ a b => nm a && nm b
  | ETuple es => forallb nm es
  | ECall _ args => forallb nm args
  | EMatch _ _ => false
  end.

Definition arm_free (a : arm) : bool :=
  nm (arm_body a) && match arm_guard a with None => true | Some g => nm g end.

Definition fd_free (fd : fdef) : bool :=
  forallb arm_free (farms fd) &&
  match fparams fd with
  | [(_, k)] => negb (is_scalar_kind k) || pkind_eqb k (fout fd)
  | _ => negb (has_wild (farms fd))
  end.

Definition prog_free (P : prog) : bool := forallb fd_free (pdefs P).

Lemma map_res_ext {A B} (f g : A -> res B) l : (forall x, In x l -> f x = g x) -> map_res f l = map_res g l.
Proof.
  induction l as [|a r IH]; intros H; [reflexivity|]. cbn [map_res].
  rewrite (H a (or_introl eq_refl)), IH; [reflexivity|]. intros x Hx. apply H. right. exact Hx.
Qed.

Lemma select_ext gd1 gd2 mt1 mt2 : forall arms k,
  (forall a, In a arms -> forall e, gd1 e (arm_guard a) = gd2 e (arm_guard a)) ->
  (forall a, In a arms -> mt1 (arm_pat a) = mt2 (arm_pat a)) ->
  select_at gd1 mt1 k arms = select_at gd2 mt2 k arms.
Proof.
  induction arms as [|[[p g] b] rest IH]; intros k Hg Hm; [reflexivity|].
  unfold select_at in *. cbn [select_gen].
  pose proof (Hm (p, g, b) (or_introl eq_refl)) as Hm1. cbn [arm_pat fst] in Hm1. rewrite <- Hm1.
  destruct (mt1 p) as [m e].
  pose proof (Hg (p, g, b) (or_introl eq_refl) e) as Hg1. cbn [arm_guard fst snd] in Hg1. rewrite <- Hg1.
  rewrite IH; [reflexivity| |]; intros a Ha; [apply Hg | apply Hm]; right; exact Ha.
Qed.

Lemma select_in gd mt arms k i e b : select_at gd mt k arms = SelArm i e b -> exists a, In a arms /\ arm_body a = b.
Proof.
  intros H. apply select_first_at in H as (j & a & _ & Hn & Hb & _). exists a. split; [eapply nth_error_In; eassumption|exact Hb].
Qed.

Lemma conforms_all_length P ps vs : conforms_all P ps vs = true -> List.length ps = List.length vs.
Proof.
  revert vs. induction ps as [|[x k] ps IH]; intros [|v vs] H; try discriminate; [reflexivity|].
  cbn in H. apply andb_prop in H as [_ H]. cbn. f_equal. apply IH. exact H.
Qed.

Lemma nm_forallb_In l x : forallb nm l = true -> In x l -> nm x = true.
Proof. intros H Hx. rewrite forallb_forall in H. apply H. exact Hx. Qed.

Section QuirkFree.
  Context (q1 q2 : quirks) (P : prog).
  Hypothesis HP : prog_free P = true.

  Definition agree (ev1 ev2 : evaluator) : Prop := forall d s e x, nm x = true -> ev1 d s e x = ev2 d s e x.

  Lemma guard_res_ext ev1 ev2 d s e g : agree ev1 ev2 -> match g with None => true | Some ge => nm ge end = true ->
    guard_res (ev1 d s) e g = guard_res (ev2 d s) e g.
  Proof. intros Ha Hg. destruct g as [ge|]; [|reflexivity]. cbn. rewrite (Ha d s e ge Hg). reflexivity. Qed.

  Lemma tail_loop_ext ev1 ev2 fd : agree ev1 ev2 -> fd_free fd = true ->
    forall n d args, tail_loop q1 P ev1 n d fd args = tail_loop q2 P ev2 n d fd args.
  Proof.
    intros Ha Hf. unfold fd_free in Hf. apply andb_prop in Hf as [Harms Hshape].
    assert (Hfree : forall a, In a (farms fd) -> arm_free a = true) by (apply forallb_forall; exact Harms).
    induction n as [|n IH]; intros d args; [reflexivity|].
    rewrite !tail_loop_S. destruct (conforms_all P (fparams fd) args) eqn:Ec; [|reflexivity]. cbn [negb].
    destruct (fn_exhaustive P fd); [|reflexivity]. cbn [negb]. cbv zeta.
    set (syms := combine (map fst (fparams fd)) args).
    assert (Hsel : select_at (guard_res (ev1 d syms)) (pm_args (q_multi_wild q1) args) 0 (farms fd) =
                   select_at (guard_res (ev2 d syms)) (pm_args (q_multi_wild q2) args) 0 (farms fd)).
    { apply select_ext.
      - intros a Hin e. apply guard_res_ext; [exact Ha|]. specialize (Hfree a Hin). unfold arm_free in Hfree.
        apply andb_prop in Hfree as [_ Hg]. exact Hg.
      - intros a Hin. unfold pm_args. destruct args as [|v1 [|v2 vs]]; try reflexivity;
          (destruct (arm_pat a) eqn:Ep; try reflexivity; exfalso;
           apply conforms_all_length in Ec; destruct (fparams fd) as [|[x1 k1] [|pp ps]]; try discriminate;
           (apply negb_true_iff in Hshape; unfold has_wild in Hshape;
            assert (Hex : existsb (fun a0 => is_wild (arm_pat a0)) (farms fd) = true)
              by (apply existsb_exists; exists a; split; [exact Hin | rewrite Ep; reflexivity]);
            congruence)). }
    rewrite Hsel.
    destruct (select_at (guard_res (ev2 d syms)) (pm_args (q_multi_wild q2) args) 0 (farms fd)) as [r| |i e body] eqn:Es; try reflexivity.
    apply select_in in Es as (a & Hin & Hb). specialize (Hfree a Hin). unfold arm_free in Hfree.
    apply andb_prop in Hfree as [Hbody _]. rewrite Hb in Hbody.
    destruct (self_tail_call fd body) as [targs|] eqn:Et.
    - assert (Ht : forallb nm targs = true).
      { unfold self_tail_call in Et. destruct body; try discriminate. destruct (_ && _); [|discriminate].
        inversion Et; subst. exact Hbody. }
      rewrite (map_res_ext (ev1 d syms e) (ev2 d syms e)) by (intros x Hx; apply Ha; eapply nm_forallb_In; eassumption).
      destruct (map_res (ev2 d syms e) targs); try reflexivity. apply IH.
    - rewrite (Ha d syms e body Hbody). reflexivity.
  Qed.

  Lemma call_fn_ext ev1 ev2 fd n d args : agree ev1 ev2 -> fd_free fd = true ->
    call_fn q1 P ev1 n d fd args = call_fn q2 P ev2 n d fd args.
  Proof.
    intros Ha Hf. rewrite !call_fn_unfold. destruct (negb _); [reflexivity|].
    destruct (broadcast_target P fd args) as [[[r c] els]|] eqn:Eb.
    - assert (Hk : pkind_eqb (param_kind1 fd) (fout fd) = true).
      { unfold broadcast_target in Eb. unfold fd_free in Hf. apply andb_prop in Hf as [_ Hs]. unfold param_kind1.
        destruct (fparams fd) as [|[x k] [|pp ps]]; try discriminate.
        destruct args as [|[| | | |] [|? ?]]; try discriminate.
        destruct (is_scalar_kind k) eqn:Ek; [|discriminate]. cbn in Hs. exact Hs. }
      rewrite Hk. cbn [negb andb]. rewrite !andb_false_r.
      rewrite (map_res_ext (fun x => tail_loop q1 P ev1 n d fd [x]) (fun x => tail_loop q2 P ev2 n d fd [x]));
        [reflexivity|]. intros x _. apply tail_loop_ext; assumption.
    - apply tail_loop_ext; assumption.
  Qed.

  Lemma find_fn_free ds fn fd : forallb fd_free ds = true -> find_fn ds fn = Some fd -> fd_free fd = true.
  Proof.
    induction ds as [|d r IH]; intros H Hf; [discriminate|]. cbn in H, Hf. apply andb_prop in H as [H1 H2].
    destruct (String.eqb (fname d) fn); [inversion Hf; subst; exact H1 | apply IH; assumption].
  Qed.

  Theorem eval_quirk_free : forall fuel d s e x, nm x = true -> eval q1 P fuel d s e x = eval q2 P fuel d s e x.
  Proof.
    induction fuel as [|f IH]; intros d s e x Hx; [reflexivity|].
    assert (Ha : agree (eval q1 P f) (eval q2 P f)) by (intros d0 s0 e0 x0 H0; apply IH; exact H0).
    destruct x as [v|y|op a b|es|fn args|src arms]; cbn [nm] in Hx.
    - reflexivity.
    - reflexivity.
    - apply andb_prop in Hx as [H1 H2]. rewrite !eval_bin, (IH d s e a H1).
      destruct (eval q2 P f d s e a); try reflexivity. cbn [bind]. rewrite (IH d s e b H2). reflexivity.
    - cbn [eval]. rewrite (map_res_ext (eval q1 P f d s e) (eval q2 P f d s e)); [reflexivity|].
      intros x Hin. apply IH. eapply nm_forallb_In; eassumption.
    - rewrite !eval_call. destruct (find_fn (pdefs P) fn) as [fd|] eqn:Ef; [|reflexivity].
      rewrite (map_res_ext (eval q1 P f d s e) (eval q2 P f d s e)) by (intros x Hin; apply IH; eapply nm_forallb_In; eassumption).
      destruct (map_res (eval q2 P f d s e) args); try reflexivity. cbn [bind].
      destruct d as [|d']; [reflexivity|]. apply call_fn_ext; [exact Ha|]. eapply find_fn_free; [exact HP|exact Ef].
    - discriminate.
  Qed.
End QuirkFree.

(* ================================================================== known findings: witnesses
   (each: the specified outcome and the code model's outcome differ) *)
Definition mk_case (P : prog) (g : env) (m : expr) : case :=
  {| c_prog := P; c_globals := g; c_main := m; c_fuel := 50 |}.
Definition noprog : prog := {| penum := []; pdefs := [] |}.
Definition u (z : Z) : value := VInt "u64" z.

(* b := false;  b? | false => 1 | true => 2 | * => 3. *)
Definition w_bool : case := mk_case noprog [("p", VBool false)]
  (EMatch (EVar "p") [(PLit (VBool false), None, EVal (u 1)); (PLit (VBool true), None, EVal (u 2)); (PWild, None, EVal (u 3))]).
(* g(a, b) | * => 1.   g(3, 4) *)
Definition w_wild : case := mk_case
  {| penum := []; pdefs := [{| fname := "g"; fparams := [("a", KInt "u64"); ("b", KInt "u64")]; fout := KInt "u64";
                              farms := [(PWild, None, EVal (u 1))] |}] |} []
  (ECall "g" [EVal (u 3); EVal (u 4)]).
(* isz(x<u64>) => <bool> | 0 => true | * => false.   isz([0 1 2]) *)
Definition w_bcast : case := mk_case
  {| penum := []; pdefs := [{| fname := "isz"; fparams := [("x", KInt "u64")]; fout := KBool;
                              farms := [(PLit (u 0), None, EVal (VBool true)); (PWild, None, EVal (VBool false))] |}] |} []
  (ECall "isz" [EVal (VMat 1 3 [u 0; u 1; u 2])]).
(* s := 5;  s? | (a, b), a > 1 => 1 | * => 0. *)
Definition w_guard : case := mk_case noprog [("s", u 5)]
  (EMatch (EVar "s") [(PTuple [PVar "a"; PVar "b"], Some (EBin Gt (EVar "a") (EVal (u 1))), EVal (u 1)); (PWild, None, EVal (u 0))]).
(* x := 0;  x? | 0 => 1 | m => m - 1 | * => 0. *)
Definition w_later : case := mk_case noprog [("x", u 0)]
  (EMatch (EVar "x") [(PLit (u 0), None, EVal (u 1)); (PVar "m", None, EBin Sub (EVar "m") (EVal (u 1))); (PWild, None, EVal (u 0))]).
(* sumto(100): 101 nested activations *)
Definition sum_def : fdef :=
  {| fname := "sumto"; fparams := [("x", KInt "u64")]; fout := KInt "u64";
     farms := [(PLit (u 0), None, EVal (u 0));
               (PVar "n", None, EBin Add (EVar "n") (ECall "sumto" [EBin Sub (EVar "n") (EVal (u 1))]))] |}.
Definition w_deep : case :=
  {| c_prog := {| penum := []; pdefs := [sum_def] |}; c_globals := []; c_main := ECall "sumto" [EVal (u 100)]; c_fuel := 1000 |}.

Lemma refuted_bool : run spec_q 50 w_bool = ROk (u 1) /\ run impl_q 50 w_bool = ROk (u 2) /\ kf_class w_bool (ROk (u 1)) = Some "match-bool-literal".
Proof. vm_compute. auto. Qed.
Lemma refuted_wild : run spec_q 50 w_wild = ROk (u 1) /\ run impl_q 50 w_wild = RErr /\ kf_class w_wild (ROk (u 1)) = Some "multi-arg-wildcard".
Proof. vm_compute. auto. Qed.
Lemma refuted_bcast : run spec_q 50 w_bcast = ROk (VMat 1 3 [VBool true; VBool false; VBool false]) /\ run impl_q 50 w_bcast = RErr /\
  kf_class w_bcast (run spec_q 50 w_bcast) = Some "broadcast-kind-change".
Proof. vm_compute. auto. Qed.
Lemma refuted_guard : run spec_q 50 w_guard = ROk (u 0) /\ run impl_q 50 w_guard = RErr /\ kf_class w_guard (ROk (u 0)) = Some "guard-before-match".
Proof. vm_compute. auto. Qed.
Lemma refuted_later : run spec_q 50 w_later = ROk (u 1) /\ run impl_q 50 w_later = RArith /\ kf_class w_later (ROk (u 1)) = Some "later-arm-evaluated".
Proof. vm_compute. auto. Qed.
Lemma refuted_deep : run spec_q 1000 w_deep = ROk (u 5050) /\ run spec_q depth_safe w_deep = RStack /\ is_deep w_deep = true.
Proof. vm_compute. auto. Qed.

(* the witnesses are in the complement of what the "holds" theorems cover *)
Lemma w_wild_not_free : prog_free (c_prog w_wild) = false. Proof. reflexivity. Qed.
Lemma w_bcast_not_free : prog_free (c_prog w_bcast) = false. Proof. reflexivity. Qed.

(* ---- the generator's encoding of the recursive definitions decodes to the definitions the theorems are about *)
Definition prog_of (s : string) : option prog :=
  match parse_sx s with Some x => option_map c_prog (dec_case x) | None => None end.

Lemma gen_fact : prog_of "(c16 (enum) (defs (fn fact ((x (int u64))) (int u64) (arm (l (i u64 0)) - (val (i u64 1))) (arm (v n) - (op mul (var n) (call fact (op sub (var n) (val (i u64 1)))))))) (globals) (main (call fact (val (i u64 5)))) (fuel 600))"
  = Some {| penum := []; pdefs := [fact_def "u64"] |}.
Proof. vm_compute. reflexivity. Qed.
Lemma gen_power : prog_of "(c16 (enum) (defs (fn power ((x (int u64)) (y (int u64))) (int u64) (arm (t _ (l (i u64 0))) - (val (i u64 1))) (arm (t (v x) (v y)) - (op mul (var x) (call power (var x) (op sub (var y) (val (i u64 1)))))))) (globals) (main (call power (val (i u64 2)) (val (i u64 10)))) (fuel 600))"
  = Some {| penum := []; pdefs := [power_def "u64"] |}.
Proof. vm_compute. reflexivity. Qed.
Lemma gen_fib : prog_of "(c16 (enum) (defs (fn fib ((x (int u64))) (int u64) (arm (l (i u64 0)) - (val (i u64 0))) (arm (l (i u64 1)) - (val (i u64 1))) (arm (v n) - (op add (call fib (op sub (var n) (val (i u64 1)))) (call fib (op sub (var n) (val (i u64 2)))))))) (globals) (main (call fib (val (i u64 10)))) (fuel 600))"
  = Some {| penum := []; pdefs := [fib_def "u64"] |}.
Proof. vm_compute. reflexivity. Qed.
Lemma gen_gcd : prog_of "(c16 (enum) (defs (fn gcd ((a (int u64)) (b (int u64))) (int u64) (arm (t (v a) (l (i u64 0))) - (var a)) (arm (t (v a) (v b)) - (call gcd (var b) (op mod (var a) (var b)))))) (globals) (main (call gcd (val (i u64 12)) (val (i u64 18)))) (fuel 600))"
  = Some {| penum := []; pdefs := [gcd_def "u64"] |}.
Proof. vm_compute. reflexivity. Qed.
Lemma gen_countdown : prog_of "(c16 (enum) (defs (fn countdown ((n (int u64))) (int u64) (arm (v n) - (call cdacc (var n) (val (i u64 0))))) (fn cdacc ((n (int u64)) (acc (int u64))) (int u64) (arm (t (l (i u64 0)) (v acc)) - (var acc)) (arm (t (v n) (v acc)) - (call cdacc (op sub (var n) (val (i u64 1))) (op add (var acc) (val (i u64 1))))))) (globals) (main (call countdown (val (i u64 1000)))) (fuel 1400))"
  = Some {| penum := []; pdefs := [countdown_def "u64"; cdacc_def "u64"] |}.
Proof. vm_compute. reflexivity. Qed.

Lemma gen_sumacc : prog_of "(c16 (enum) (defs (fn sumacc ((n (int u64)) (acc (int u64))) (int u64) (arm (t (l (i u64 0)) _) - (var acc)) (arm (t (v k) _) - (call sumacc (op sub (var k) (val (i u64 1))) (op add (var acc) (var k)))))) (globals) (main (call sumacc (val (i u64 10)) (val (i u64 0)))) (fuel 110))"
  = Some {| penum := []; pdefs := [sumacc_def "u64"] |}.
Proof. vm_compute. reflexivity. Qed.
Lemma gen_sumname : prog_of "(c16 (enum) (defs (fn sumname ((n (int u64)) (acc (int u64))) (int u64) (arm (t (l (i u64 0)) _) - (var acc)) (arm (t _ _) - (call sumname (op sub (var n) (val (i u64 1))) (op add (var acc) (var n)))))) (globals) (main (call sumname (val (i u64 10)) (val (i u64 0)))) (fuel 110))"
  = Some {| penum := []; pdefs := [sumname_def "u64"] |}.
Proof. vm_compute. reflexivity. Qed.

(* the judge on whole lines *)
Lemma judge_line_ok : run_line "((c16 (enum) (defs (fn fact ((x (int u64))) (int u64) (arm (l (i u64 0)) - (val (i u64 1))) (arm (v n) - (op mul (var n) (call fact (op sub (var n) (val (i u64 1)))))))) (globals) (main (call fact (val (i u64 5)))) (fuel 600)) (s u64 120))" = "(ok value)".
Proof. vm_compute. reflexivity. Qed.
Lemma judge_line_bad : run_line "((c16 (enum) (defs (fn fact ((x (int u64))) (int u64) (arm (l (i u64 0)) - (val (i u64 1))) (arm (v n) - (op mul (var n) (call fact (op sub (var n) (val (i u64 1)))))))) (globals) (main (call fact (val (i u64 5)))) (fuel 600)) (s u64 121))" = "(bad wrong-result (value (i u64 120)))".
Proof. vm_compute. reflexivity. Qed.
