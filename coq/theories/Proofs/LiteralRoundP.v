(* C13, continued: (1) the binary32 bit round-trip, (3) the executable rounding function [round_ne]
   is total and correct (its result is accepted by the checker [is_nearest], hence [rounds_to]).
   No real numbers here (closed under the global context); the link to Flocq is in LiteralFlocqP.v. *)
From Coq Require Import List ZArith QArith Qabs Bool Lia.
From MechV Require Import Base.Sexp Base.Obs Model.Literal Proofs.LiteralP.
Import ListNotations.
Local Open Scope Z_scope.

(* ================================================================== *)
(* 1. binary32: decode (encode v) = v                                   *)
(* ================================================================== *)
Lemma decode_encode_f32 v : fval_wf f32 v -> decode_bits f32 (encode_bits f32 v) = Some v.
Proof.
  destruct v as [s M e|s|]; cbn [fval_wf]; [|intros _; destruct s; vm_compute; reflexivity|contradiction].
  unfold canon. change (fprec f32) with 24. change (femax f32) with 253.
  change (2 ^ (24 - 1)) with 8388608.
  intros (HM & He & Hn).
  unfold decode_bits, encode_bits.
  change (fprec f32 - 1) with 23. change (fexpbits f32) with 8.
  change (23 + 8 + 1) with 32. change (32 - 1) with 31. change (23 + 8) with 31.
  change (2 ^ 32) with 4294967296. change (2 ^ 31) with 2147483648.
  change (2 ^ 23) with 8388608. change (2 ^ 8) with 256. change (256 - 1) with 255.
  set (S := if s then 2147483648 else 0).
  assert (HS : S = 0 /\ s = false \/ S = 2147483648 /\ s = true) by (unfold S; destruct s; auto).
  destruct (M <? 8388608) eqn:EM.
  - apply Z.ltb_lt in EM. assert (e = 0) by lia. subst e.
    set (b := S + M).
    assert (Hb : 0 <= b < 4294967296) by (unfold b; lia).
    assert (H1 : (0 <? b / 2147483648) = s).
    { unfold b. destruct HS as [[-> ->]|[-> ->]]; [apply Z.ltb_ge|apply Z.ltb_lt];
        Z.to_euclidean_division_equations; lia. }
    assert (H2 : (b / 8388608) mod 256 = 0) by (unfold b; Z.to_euclidean_division_equations; lia).
    assert (H3 : b mod 8388608 = M) by (unfold b; Z.to_euclidean_division_equations; lia).
    replace (andb (0 <=? b) (b <? 4294967296)) with true
      by (symmetry; apply andb_true_iff; split; [apply Z.leb_le|apply Z.ltb_lt]; lia).
    rewrite H1, H2, H3. reflexivity.
  - apply Z.ltb_ge in EM.
    set (b := S + (e + 1) * 8388608 + (M - 8388608)).
    assert (Hb : 0 <= b < 4294967296) by (unfold b; lia).
    assert (H1 : (0 <? b / 2147483648) = s).
    { unfold b. destruct HS as [[-> ->]|[-> ->]]; [apply Z.ltb_ge|apply Z.ltb_lt];
        Z.to_euclidean_division_equations; lia. }
    assert (H2 : (b / 8388608) mod 256 = e + 1) by (unfold b; Z.to_euclidean_division_equations; lia).
    assert (H3 : b mod 8388608 = M - 8388608) by (unfold b; Z.to_euclidean_division_equations; lia).
    replace (andb (0 <=? b) (b <? 4294967296)) with true
      by (symmetry; apply andb_true_iff; split; [apply Z.leb_le|apply Z.ltb_lt]; lia).
    rewrite H1, H2, H3.
    replace (e + 1 =? 255) with false by (symmetry; apply Z.eqb_neq; lia).
    replace (e + 1 =? 0) with false by (symmetry; apply Z.eqb_neq; lia).
    f_equal. f_equal; lia.
Qed.

(* both formats at once *)
Lemma decode_encode w32 v :
  fval_wf (fmt_of w32) v -> decode_bits (fmt_of w32) (encode_bits (fmt_of w32) v) = Some v.
Proof. destruct w32; cbn [fmt_of]; [apply decode_encode_f32|apply decode_encode_f64]. Qed.

(* ================================================================== *)
(* 3. round_ne is total and correct                                     *)
(* ================================================================== *)
Section RoundNe.
  Variable f : fmt.
  Hypothesis Hf : fmt_ok f.
  Hypothesis Hp2 : 2 <= fprec f.
  Let P := 2 ^ (fprec f - 1).

  Lemma P_even : Z.even P = true.
  Proof.
    unfold P. replace (fprec f - 1) with (1 + (fprec f - 2)) by lia.
    rewrite Z.pow_add_r by lia. change (2 ^ 1) with 2. apply Z.even_mul.
  Qed.

  (* the candidate computed with log2 and division: the canonical (M, e) (exponent not yet bounded) with
     M * 2^e <= X/Y < (M+1) * 2^e *)
  Lemma floor_me_spec X Y M e :
    0 <= X -> 0 < Y -> floor_me f X Y = (M, e) ->
    0 <= e /\ 0 <= M < 2 * P /\ (e = 0 \/ P <= M) /\
    M * (2 ^ e * Y) <= X < (M + 1) * (2 ^ e * Y).
  Proof.
    intros HX HY. unfold floor_me. intros H. injection H as HM He. rewrite He in HM.
    pose proof (P_pos f Hf) as HP. fold P in HP.
    destruct Hf as (Hp & _ & _).
    set (t := X / Y) in *. set (L := Z.log2 t) in *.
    assert (Ht : 0 <= t) by (apply Z.div_pos; lia).
    assert (HtY : t * Y <= X < (t + 1) * Y).
    { unfold t. pose proof (Z.mul_div_le X Y HY). pose proof (Z.mul_succ_div_gt X Y HY). lia. }
    assert (He0 : 0 <= e) by lia.
    pose proof (pow2_gt0 e He0) as Hu.
    assert (HU : 0 < Y * 2 ^ e) by (apply Z.mul_pos_pos; lia).
    assert (Hdiv : M * (2 ^ e * Y) <= X < (M + 1) * (2 ^ e * Y)).
    { subst M.
      pose proof (Z.mul_div_le X _ HU). pose proof (Z.mul_succ_div_gt X _ HU).
      replace (2 ^ e * Y) with (Y * 2 ^ e) by ring. lia. }
    assert (HM0 : 0 <= M) by (subst M; apply Z.div_pos; lia).
    split; [exact He0|].
    destruct (Z.eq_dec t 0) as [Ht0|Ht0].
    - (* X < Y *)
      assert (HL : L = 0) by (unfold L; rewrite Ht0; reflexivity).
      assert (E0 : e = 0) by lia. clear He. subst e.
      change (2 ^ 0) with 1 in *. rewrite Z.mul_1_r in HM. fold t in HM.
      split; [lia|]. split; [left; reflexivity|exact Hdiv].
    - assert (Htpos : 0 < t) by lia.
      destruct (Z.log2_spec t Htpos) as [HL1 HL2]. fold L in HL1, HL2.
      assert (HL0 : 0 <= L) by apply Z.log2_nonneg.
      replace (Z.succ L) with (L + 1) in HL2 by lia.
      destruct (Z_le_gt_dec L (fprec f - 1)) as [Hle|Hgt].
      + assert (E0 : e = 0) by lia. clear He. subst e.
        change (2 ^ 0) with 1 in *. rewrite Z.mul_1_r in HM. fold t in HM.
        assert (2 ^ (L + 1) <= 2 ^ fprec f) by (apply Z.pow_le_mono_r; lia).
        rewrite (pow2_prec f (conj Hp (conj (proj1 (proj2 Hf)) (proj2 (proj2 Hf))))) in H. fold P in H.
        split; [lia|]. split; [left; reflexivity|exact Hdiv].
      + assert (Ee : e = L - (fprec f - 1)) by lia.
        assert (E1 : 2 ^ L = P * 2 ^ e).
        { unfold P. rewrite <- Z.pow_add_r by lia. f_equal. lia. }
        assert (E2 : 2 ^ (L + 1) = 2 * P * 2 ^ e).
        { rewrite Z.pow_add_r by lia. rewrite E1. change (2 ^ 1) with 2. ring. }
        assert (HMlt : M < 2 * P).
        { subst M. apply Z.div_lt_upper_bound; [exact HU|].
          assert ((t + 1) * Y <= 2 ^ (L + 1) * Y) by (apply Z.mul_le_mono_nonneg_r; lia).
          rewrite E2 in H. replace (Y * 2 ^ e * (2 * P)) with (2 * P * 2 ^ e * Y) by ring. lia. }
        assert (HMge : P <= M).
        { subst M. apply Z.div_le_lower_bound; [exact HU|].
          assert (2 ^ L * Y <= t * Y) by (apply Z.mul_le_mono_nonneg_r; lia).
          rewrite E1 in H. replace (Y * 2 ^ e * P) with (P * 2 ^ e * Y) by ring. lia. }
        split; [lia|]. split; [right; exact HMge|exact Hdiv].
  Qed.

  (* the three acceptance cases of [near], on integers *)
  Lemma near_floor M e X Y :
    0 <= e -> 0 < Y -> M * (2 ^ e * Y) <= X ->
    (4 * X < (4 * M + 2) * (2 ^ e * Y) \/ (4 * X = (4 * M + 2) * (2 ^ e * Y) /\ Z.even M = true)) ->
    near f M e X Y = true.
  Proof.
    intros He HY Hlo Hup. unfold near.
    pose proof (pow2_gt0 e He) as Hu.
    assert (HU : 0 < 2 ^ e * Y) by (apply Z.mul_pos_pos; lia).
    set (hl := if andb (M =? 2 ^ (fprec f - 1)) (1 <=? e) then 1 else 2).
    assert (Hhl : 1 <= hl <= 2) by (unfold hl; destruct (andb _ _); lia).
    replace ((4 * M + 2) * 2 ^ e * Y) with ((4 * M + 2) * (2 ^ e * Y)) by ring.
    replace ((4 * M - hl) * 2 ^ e * Y) with (4 * (M * (2 ^ e * Y)) - hl * (2 ^ e * Y)) by ring.
    set (U := 2 ^ e * Y) in *. set (V := M * U) in *.
    assert (0 < hl * U) by (apply Z.mul_pos_pos; lia).
    apply andb_true_iff. split; apply orb_true_iff.
    - destruct Hup as [Hup|[Hup Hev]]; [left; apply Z.ltb_lt; exact Hup|right].
      apply andb_true_iff. split; [apply Z.eqb_eq; exact Hup|exact Hev].
    - left. apply Z.ltb_lt. lia.
  Qed.

  Lemma near_succ M e X Y :
    0 <= e -> 0 < Y -> 0 <= M -> (e = 0 \/ P <= M) -> X < (M + 1) * (2 ^ e * Y) ->
    ((4 * M + 2) * (2 ^ e * Y) < 4 * X \/ (4 * X = (4 * M + 2) * (2 ^ e * Y) /\ Z.even M = false)) ->
    near f (M + 1) e X Y = true.
  Proof.
    intros He HY HM Hn Hlt Hup. unfold near.
    pose proof (pow2_gt0 e He) as Hu.
    assert (HU : 0 < 2 ^ e * Y) by (apply Z.mul_pos_pos; lia).
    assert (Hhl : andb (M + 1 =? 2 ^ (fprec f - 1)) (1 <=? e) = false).
    { apply andb_false_iff. destruct Hn as [->|Hn]; [right; reflexivity|left]. apply Z.eqb_neq. fold P. lia. }
    rewrite Hhl.
    replace ((4 * (M + 1) + 2) * 2 ^ e * Y) with ((4 * M + 6) * (2 ^ e * Y)) by ring.
    replace ((4 * (M + 1) - 2) * 2 ^ e * Y) with ((4 * M + 2) * (2 ^ e * Y)) by ring.
    set (U := 2 ^ e * Y) in *.
    replace ((M + 1) * U) with (M * U + U) in Hlt by ring.
    replace ((4 * M + 6) * U) with (4 * (M * U) + 6 * U) by ring.
    apply andb_true_iff. split; apply orb_true_iff.
    - left. apply Z.ltb_lt. lia.
    - destruct Hup as [Hup|[Hup Hodd]]; [left; apply Z.ltb_lt; exact Hup|right].
      apply andb_true_iff. split; [apply Z.eqb_eq; symmetry; exact Hup|].
      rewrite Z.even_add, Hodd. reflexivity.
  Qed.

  Lemma near_next_binade M e X Y :
    0 <= e -> 0 < Y -> M + 1 = 2 * P -> X < (M + 1) * (2 ^ e * Y) ->
    ((4 * M + 2) * (2 ^ e * Y) < 4 * X \/ (4 * X = (4 * M + 2) * (2 ^ e * Y) /\ Z.even M = false)) ->
    near f P (e + 1) X Y = true.
  Proof.
    intros He HY HM Hlt Hup. unfold near. fold P.
    pose proof (pow2_gt0 e He) as Hu.
    assert (HU : 0 < 2 ^ e * Y) by (apply Z.mul_pos_pos; lia).
    assert (Hhl : andb (P =? P) (1 <=? e + 1) = true).
    { apply andb_true_iff. split; [apply Z.eqb_refl|apply Z.leb_le; lia]. }
    rewrite Hhl.
    assert (E2 : 2 ^ (e + 1) = 2 * 2 ^ e) by (rewrite Z.pow_add_r by lia; change (2 ^ 1) with 2; ring).
    rewrite E2.
    replace ((4 * P + 2) * (2 * 2 ^ e) * Y) with ((8 * P + 4) * (2 ^ e * Y)) by ring.
    replace ((4 * P - 1) * (2 * 2 ^ e) * Y) with ((8 * P - 2) * (2 ^ e * Y)) by ring.
    assert (EM : M = 2 * P - 1) by lia. subst M.
    replace (2 * P - 1 + 1) with (2 * P) in Hlt by ring.
    replace (4 * (2 * P - 1) + 2) with (8 * P - 2) in Hup by ring.
    set (U := 2 ^ e * Y) in *.
    replace ((8 * P + 4) * U) with (4 * (2 * P * U) + 4 * U) by ring.
    apply andb_true_iff. split; apply orb_true_iff.
    - left. apply Z.ltb_lt. lia.
    - destruct Hup as [Hup|[Hup Hodd]]; [left; apply Z.ltb_lt; exact Hup|right].
      apply andb_true_iff. split; [apply Z.eqb_eq; symmetry; exact Hup|apply P_even].
  Qed.

  Lemma canonb_intro M e : 0 <= M < 2 * P -> 0 <= e <= femax f -> (e = 0 \/ P <= M) -> canonb f M e = true.
  Proof. intros HM He Hn. apply (canonb_spec f M e Hf). unfold canon. fold P. auto. Qed.

  (* one of the two candidates of [round_ne] is accepted by the checker *)
  Lemma round_ne_cands q :
    let s := Qnum q <? 0 in
    let c0 := floor_me f (scaledX f q) (scaledY q) in
    is_nearest f (fin_or_inf f s c0) q = true \/ is_nearest f (fin_or_inf f s (succ_me f c0)) q = true.
  Proof.
    destruct q as [n d]. cbn zeta. unfold is_nearest, scaledX, scaledY. cbn [Qnum Qden].
    set (X := Z.abs n * 2 ^ fscale f). set (Y := Zpos d). set (s := n <? 0).
    assert (HX : 0 <= X).
    { unfold X. apply Z.mul_nonneg_nonneg; [apply Z.abs_nonneg|]. apply Z.lt_le_incl, pow2_gt0. apply Hf. }
    assert (HY : 0 < Y) by reflexivity.
    destruct (floor_me f X Y) as [M e] eqn:Efl.
    destruct (floor_me_spec X Y M e HX HY Efl) as (He & HM & Hn & Hlo & Hhi).
    pose proof (P_pos f Hf) as HP. fold P in HP.
    assert (HP2 : 2 ^ fprec f = 2 * P) by (apply (pow2_prec f Hf)).
    pose proof (pow2_gt0 e He) as Hu.
    assert (HU : 0 < 2 ^ e * Y) by (apply Z.mul_pos_pos; lia).
    assert (Hss : Bool.eqb s s = true) by apply Bool.eqb_reflx.
    unfold fin_or_inf, succ_me. cbn [fst snd].
    destruct (e <=? femax f) eqn:Ee.
    - pose proof Ee as Eeb. apply Z.leb_le in Ee.
      (* compare 4X with the midpoint (4M+2)*2^e*Y *)
      destruct (Z.lt_trichotomy (4 * X) ((4 * M + 2) * (2 ^ e * Y))) as [Hc|[Hc|Hc]];
        [left| destruct (Z.even M) eqn:Hev; [left|right] |right].
      + rewrite (canonb_intro M e HM (conj He Ee) Hn), Hss, orb_true_r, andb_true_r. cbn [andb].
        apply near_floor; auto.
      + rewrite (canonb_intro M e HM (conj He Ee) Hn), Hss, orb_true_r, andb_true_r. cbn [andb].
        apply near_floor; auto.
      + (* tie, M odd: the successor *)
        assert (Hup : (4 * M + 2) * (2 ^ e * Y) < 4 * X \/ (4 * X = (4 * M + 2) * (2 ^ e * Y) /\ Z.even M = false))
          by (right; split; assumption).
        destruct (M + 1 =? 2 ^ fprec f) eqn:EM; cbn [fst snd].
        * apply Z.eqb_eq in EM. rewrite HP2 in EM. fold P.
          destruct (e + 1 <=? femax f) eqn:Ee1.
          -- apply Z.leb_le in Ee1.
             rewrite (canonb_intro P (e + 1) ltac:(lia) ltac:(lia) ltac:(right; lia)), Hss, orb_true_r, andb_true_r.
             cbn [andb]. apply (near_next_binade M); auto.
          -- apply Z.leb_gt in Ee1. rewrite Hss, andb_true_r. unfold overflows. apply Z.leb_le.
             assert (e = femax f) by lia. subst e.
             rewrite HP2.
             replace ((4 * (2 * P) - 2) * 2 ^ femax f * Y) with ((4 * M + 2) * (2 ^ femax f * Y))
               by (replace M with (2 * P - 1) by lia; ring).
             lia.
        * apply Z.eqb_neq in EM. rewrite HP2 in EM.
          rewrite Eeb.
          rewrite (canonb_intro (M + 1) e ltac:(lia) (conj He Ee) ltac:(destruct Hn; [left; assumption|right; lia])),
            Hss, orb_true_r, andb_true_r.
          cbn [andb]. apply near_succ; auto; lia.
      + assert (Hup : (4 * M + 2) * (2 ^ e * Y) < 4 * X \/ (4 * X = (4 * M + 2) * (2 ^ e * Y) /\ Z.even M = false))
          by (left; assumption).
        destruct (M + 1 =? 2 ^ fprec f) eqn:EM; cbn [fst snd].
        * apply Z.eqb_eq in EM. rewrite HP2 in EM. fold P.
          destruct (e + 1 <=? femax f) eqn:Ee1.
          -- apply Z.leb_le in Ee1.
             rewrite (canonb_intro P (e + 1) ltac:(lia) ltac:(lia) ltac:(right; lia)), Hss, orb_true_r, andb_true_r.
             cbn [andb]. apply (near_next_binade M); auto.
          -- apply Z.leb_gt in Ee1. rewrite Hss, andb_true_r. unfold overflows. apply Z.leb_le.
             assert (e = femax f) by lia. subst e.
             rewrite HP2.
             replace ((4 * (2 * P) - 2) * 2 ^ femax f * Y) with ((4 * M + 2) * (2 ^ femax f * Y))
               by (replace M with (2 * P - 1) by lia; ring).
             lia.
        * apply Z.eqb_neq in EM. rewrite HP2 in EM.
          rewrite Eeb.
          rewrite (canonb_intro (M + 1) e ltac:(lia) (conj He Ee) ltac:(destruct Hn; [left; assumption|right; lia])),
            Hss, orb_true_r, andb_true_r.
          cbn [andb]. apply near_succ; auto; lia.
    - (* the exponent is already beyond the format: infinity *)
      apply Z.leb_gt in Ee. left. rewrite Hss, andb_true_r. unfold overflows. apply Z.leb_le.
      rewrite HP2.
      pose proof (proj2 (proj2 Hf)) as Hfe.
      assert (HPM : P <= M) by (destruct Hn; lia).
      destruct (pow2_diff (femax f) e ltac:(apply Hf) Ee) as (K & HK & HKe).
      pose proof (pow2_gt0 (femax f) ltac:(apply Hf)) as HE.
      assert (HEY : 0 < 2 ^ femax f * Y) by (apply Z.mul_pos_pos; lia).
      rewrite HKe in Hlo.
      replace (M * (K * 2 ^ femax f * Y)) with (M * K * (2 ^ femax f * Y)) in Hlo by ring.
      replace ((4 * (2 * P) - 2) * 2 ^ femax f * Y) with ((8 * P - 2) * (2 ^ femax f * Y)) by ring.
      assert (P * 2 <= M * K) by (apply Z.mul_le_mono_nonneg; lia).
      assert (P * 2 * (2 ^ femax f * Y) <= M * K * (2 ^ femax f * Y)) by (apply Z.mul_le_mono_nonneg_r; lia).
      set (EY := 2 ^ femax f * Y) in *. lia.
  Qed.

  (* round_ne never fails, and what it returns is accepted by the checker *)
  Theorem round_ne_correct q : exists v, round_ne f q = Some v /\ is_nearest f v q = true.
  Proof.
    pose proof (round_ne_cands q) as Hc. cbn zeta in Hc. unfold round_ne.
    destruct (is_nearest f (fin_or_inf f (Qnum q <? 0) (floor_me f (scaledX f q) (scaledY q))) q) eqn:E0.
    - eexists. split; [reflexivity|exact E0].
    - destruct Hc as [Hc|Hc]; [discriminate|]. rewrite Hc. eexists. split; [reflexivity|exact Hc].
  Qed.

  Corollary round_ne_rounds_to q : exists v, round_ne f q = Some v /\ rounds_to f v q.
  Proof.
    destruct (round_ne_correct q) as (v & Hr & Hn). exists v. split; [exact Hr|].
    apply is_nearest_sound; assumption.
  Qed.

  (* round_ne is THE correctly rounded value: whatever the checker accepts is what round_ne returns
     (up to the sign of zero) *)
  Corollary round_ne_complete q v' :
    is_nearest f v' q = true -> exists v, round_ne f q = Some v /\ fval_eqv v v'.
  Proof.
    intros Hv'. destruct (round_ne_correct q) as (v & Hr & Hn). exists v. split; [exact Hr|].
    eapply is_nearest_unique; eassumption.
  Qed.
End RoundNe.

(* the finite-case clause of rounds_to does not mention the overflow threshold; the checker does enforce it *)
Lemma is_nearest_fin_in_range f s M e q :
  fmt_ok f -> is_nearest f (FFin s M e) q = true -> (Qabs q < max_plus_half f)%Q.
Proof.
  intros Hf. destruct q as [n d]. unfold is_nearest, scaledX, scaledY. cbn [Qnum Qden].
  rewrite !andb_true_iff. intros (Hcb & Hn & _).
  apply (canonb_spec f M e Hf) in Hcb.
  pose proof (near_not_overflow f Hf M e _ _ Hn Hcb ltac:(reflexivity)) as Ho.
  unfold overflows in Ho. apply Z.leb_gt in Ho.
  unfold Qlt, Qabs, max_plus_half. cbn [Qnum Qden]. change (2 * Sf f)%positive with (xO (Sf f)).
  rewrite (Pos2Z.inj_xO (Sf f)), (Sf_eq f Hf). lia.
Qed.

(* the faithful model's f64 prediction for a decimal integer / float body: exactly one value, and it is the
   correctly rounded one (so [C13_holds] is not vacuous for these literals, and does not rest on testing round_ne) *)
Lemma impl_f64_abs_decimal b q :
  (is_int_body b = true \/ exists w fr, b = BFloat w fr) -> body_Q b = Some q ->
  exists v, impl_f64_abs b = [v] /\ is_nearest f64 v q = true /\ rounds_to f64 v q.
Proof.
  intros Hform Hq.
  destruct (round_ne_correct f64 f64_ok ltac:(cbn; lia) q) as (v & Hr & Hn).
  exists v. split; [|split; [exact Hn|apply (is_nearest_sound f64 f64_ok); exact Hn]].
  destruct Hform as [Hi|(w & fr & ->)]; [destruct b; try discriminate|];
    cbn [impl_f64_abs]; rewrite Hq, Hr; reflexivity.
Qed.
