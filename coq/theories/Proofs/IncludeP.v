(* C20 — lemmas and theorems about Model/Include.v.

   Specification side (no fuel, no active set, no errors):
     edge / reach / on_cycle / dangling   the include graph of a file system
     subst_file f p t                     t is the textual substitution of file p defined by recursion on the graph
     good f p                             the include tree below p is well-founded and every target is present
   Implementation side: expand (active set, fuel, error results) and expand_buf (with the outside-fence buffer). *)
From Coq Require Import List Arith Ascii String Bool Lia.
From MechV Require Import Base.Sexp Base.Obs Model.Include.
Import ListNotations.
Local Open Scope list_scope.

(* ------------------------------------------------------------------ *)
(* equality tests                                                      *)
(* ------------------------------------------------------------------ *)
Lemma list_eqb_eq {A} (e : A -> A -> bool) :
  (forall x y, e x y = true <-> x = y) -> forall a b, list_eqb e a b = true <-> a = b.
Proof.
  intros He. induction a as [|x a IH]; intros [|y b]; cbn; split; intros H; try discriminate; try reflexivity.
  - apply andb_prop in H as [H1 H2]. apply He in H1. apply IH in H2. congruence.
  - inversion H; subst. apply andb_true_intro. split; [now apply He | now apply IH].
Qed.

Lemma bytes_eqb_eq : forall a b, bytes_eqb a b = true <-> a = b.
Proof. apply list_eqb_eq. intros x y. apply Ascii.eqb_eq. Qed.

Lemma path_eqb_eq : forall a b, path_eqb a b = true <-> a = b.
Proof. apply list_eqb_eq. apply bytes_eqb_eq. Qed.

Lemma path_eqb_refl : forall a, path_eqb a a = true.
Proof. intros a. now apply path_eqb_eq. Qed.

Lemma mem_path_In : forall p l, mem_path p l = true <-> In p l.
Proof.
  intros p l. unfold mem_path. rewrite existsb_exists. split.
  - intros [x [Hin He]]. apply path_eqb_eq in He. now subst.
  - intros Hin. exists p. split; [exact Hin | apply path_eqb_refl].
Qed.

Lemma mem_path_false : forall p l, mem_path p l = false -> ~ In p l.
Proof. intros p l H Hin. apply mem_path_In in Hin. congruence. Qed.

Lemma lookup_In : forall f p c, lookup f p = Some c -> In p (map fst f).
Proof.
  induction f as [|[q d] f IH]; intros p c H; cbn in *; [discriminate|].
  destruct (path_eqb q p) eqn:E.
  - left. now apply path_eqb_eq.
  - right. eapply IH; eauto.
Qed.

Lemma resolve_lookup : forall f dir raw q, resolve f dir raw = Some q -> lookup f q <> None.
Proof.
  intros f dir raw q H. unfold resolve in H.
  destruct (walk f _ _) as [p|]; [|discriminate].
  destruct (lookup f p) eqn:E; [|discriminate]. inversion H; subst. congruence.
Qed.

(* ------------------------------------------------------------------ *)
(* result monad                                                        *)
(* ------------------------------------------------------------------ *)
Lemma prepend_prepend : forall a b r, prepend a (prepend b r) = prepend (a ++ b) r.
Proof. intros a b [t| | |]; cbn; try reflexivity. now rewrite app_assoc. Qed.

Lemma prepend_nil : forall r, prepend [] r = r.
Proof. now intros [t| | |]. Qed.

Lemma bind_bind : forall r k1 k2, bind (bind r k1) k2 = bind r (fun t => bind (k1 t) k2).
Proof. now intros [t| | |]. Qed.

Lemma bind_prepend : forall a r k, bind (prepend a r) k = bind r (fun t => k (a ++ t)).
Proof. now intros a [t| | |]. Qed.

Lemma bind_ext : forall r k1 k2, (forall t, k1 t = k2 t) -> bind r k1 = bind r k2.
Proof. intros [t| | |] k1 k2 H; cbn; auto. Qed.

(* ------------------------------------------------------------------ *)
(* the include graph and the textual substitution                      *)
(* ------------------------------------------------------------------ *)
Definition dir_of (p : path) : path := removelast p.

(* targets of the include lines of a text that are outside fences, in order *)
Definition includes_of (src : bytes) : list bytes := active_includes (split_inclusive src) None.

Definition edge (f : fsys) (p q : path) : Prop :=
  exists src raw, lookup f p = Some src /\ In raw (includes_of src) /\ resolve f (dir_of p) raw = Some q.

(* file p has an include line (outside fences) whose target does not exist *)
Definition dangling (f : fsys) (p : path) (raw : bytes) : Prop :=
  exists src, lookup f p = Some src /\ In raw (includes_of src) /\ resolve f (dir_of p) raw = None.

Inductive reach (f : fsys) : path -> path -> Prop :=
| reach_refl : forall p, reach f p p
| reach_step : forall p q r, edge f p q -> reach f q r -> reach f p r.

Definition on_cycle (f : fsys) (q : path) : Prop := exists m, edge f q m /\ reach f m q.

Lemma reach_trans : forall f a b c, reach f a b -> reach f b c -> reach f a c.
Proof. intros f a b c H. induction H; intros Hc; [exact Hc|]. eapply reach_step; eauto. Qed.

Lemma reach_edge_r : forall f a b c, reach f a b -> edge f b c -> reach f a c.
Proof. intros f a b c H E. eapply reach_trans; [exact H|]. eapply reach_step; [exact E | apply reach_refl]. Qed.

(* the specification: substitution of include lines by the substituted text of their targets *)
Inductive subst_file (f : fsys) : path -> bytes -> Prop :=
| SF : forall p src t,
    lookup f p = Some src ->
    subst_lines f (dir_of p) (split_inclusive src) None t ->
    subst_file f p t
with subst_lines (f : fsys) : path -> list bytes -> fence -> bytes -> Prop :=
| SL_nil : forall dir fc, subst_lines f dir [] fc []
| SL_fenced : forall dir l r fc t,        (* inside a fence, or a fence opener: verbatim *)
    fenced fc l = true ->
    subst_lines f dir r (next_fence fc l) t ->
    subst_lines f dir (l :: r) fc (l ++ t)
| SL_plain : forall dir l r fc t,         (* not a stand-alone {...mec} line: verbatim *)
    fenced fc l = false -> include_of_line l = None ->
    subst_lines f dir r None t ->
    subst_lines f dir (l :: r) fc (l ++ t)
| SL_include : forall dir l r fc raw q tq t,   (* the line (without its newline) is replaced *)
    fenced fc l = false -> include_of_line l = Some raw ->
    resolve f dir raw = Some q ->
    subst_file f q tq ->
    subst_lines f dir r None t ->
    subst_lines f dir (l :: r) fc ((tq ++ snd (strip_nl l)) ++ t).

Scheme subst_file_mind := Minimality for subst_file Sort Prop
  with subst_lines_mind := Minimality for subst_lines Sort Prop.
Combined Scheme subst_mutind from subst_file_mind, subst_lines_mind.

(* well-founded include tree with every target present *)
Inductive good (f : fsys) : path -> Prop :=
| good_intro : forall p src,
    lookup f p = Some src ->
    (forall raw, In raw (includes_of src) -> resolve f (dir_of p) raw <> None) ->
    (forall raw q, In raw (includes_of src) -> resolve f (dir_of p) raw = Some q -> good f q) ->
    good f p.

Lemma fenced_false_None : forall fc l, fenced fc l = false -> fc = None /\ code_fence_delimiter l = None.
Proof.
  intros [[m n]|] l H; cbn in H; [discriminate|].
  destruct (code_fence_delimiter l); [discriminate|]. now split.
Qed.

Lemma next_fence_unfenced : forall fc l, fenced fc l = false -> next_fence fc l = None.
Proof.
  intros fc l H. destruct (fenced_false_None _ _ H) as [-> Hd]. cbn. now rewrite Hd.
Qed.

(* ------------------------------------------------------------------ *)
(* what one run of the line loop returns, in terms of the recursive call *)
(* ------------------------------------------------------------------ *)
Lemma process_cases : forall f rec dir lines fc,
  match process f rec dir lines fc with
  | Ok t =>
      (forall raw q tq, In raw (active_includes lines fc) -> resolve f dir raw = Some q ->
                        rec q = Ok tq -> subst_file f q tq) ->
      subst_lines f dir lines fc t
  | e =>
      (exists raw, In raw (active_includes lines fc) /\ resolve f dir raw = None /\ e = ErrMissing raw) \/
      (exists raw q, In raw (active_includes lines fc) /\ resolve f dir raw = Some q /\ rec q = e)
  end.
Proof.
  intros f rec dir lines. induction lines as [|l r IH]; intros fc.
  - cbn. intros _. constructor.
  - cbn [process active_includes]. destruct (fenced fc l) eqn:Hf.
    + specialize (IH (next_fence fc l)).
      destruct (process f rec dir r (next_fence fc l)) as [t| |nm|]; cbn [prepend]; try exact IH.
      intros H. apply SL_fenced; auto.
    + unfold token_line. destruct (include_of_line l) as [raw|] eqn:Hi.
      * destruct (resolve f dir raw) as [q|] eqn:Hr.
        -- destruct (rec q) as [tq| |nm|] eqn:Hq; cbn [bind].
           ++ specialize (IH None).
              destruct (process f rec dir r None) as [t| |nm|]; cbn [prepend].
              ** intros H. eapply SL_include; eauto.
                 --- eapply H; eauto. now left.
                 --- apply IH. intros raw' q' tq' Hin. apply H. now right.
              ** destruct IH as [[raw' [Hin Hx]]|[raw' [q' [Hin Hx]]]];
                   [left; exists raw' | right; exists raw', q']; (split; [now right | exact Hx]).
              ** destruct IH as [[raw' [Hin Hx]]|[raw' [q' [Hin Hx]]]];
                   [left; exists raw' | right; exists raw', q']; (split; [now right | exact Hx]).
              ** destruct IH as [[raw' [Hin Hx]]|[raw' [q' [Hin Hx]]]];
                   [left; exists raw' | right; exists raw', q']; (split; [now right | exact Hx]).
           ++ right. exists raw, q. split; [now left | now split].
           ++ right. exists raw, q. split; [now left | now split].
           ++ right. exists raw, q. split; [now left | now split].
        -- cbn. left. exists raw. split; [now left | now split].
      * cbn [bind]. specialize (IH None).
        destruct (process f rec dir r None) as [t| |nm|]; cbn [prepend]; try exact IH.
        intros H. apply SL_plain; auto.
Qed.

(* ------------------------------------------------------------------ *)
(* soundness of every outcome of expand                                *)
(* ------------------------------------------------------------------ *)
Definition outcome_sound (f : fsys) (p : path) (active : list path) (r : res) : Prop :=
  match r with
  | Ok t => subst_file f p t
  | ErrCircular => exists q, reach f p q /\ (In q active \/ on_cycle f q)
  | ErrMissing name => (lookup f p = None /\ name = join_path p) \/ (exists q, reach f p q /\ dangling f q name)
  | OutOfFuel => True
  end.

Lemma expand_sound_gen : forall fuel f p active, outcome_sound f p active (expand fuel f p active).
Proof.
  induction fuel as [|n IH]; intros f p active; [exact I|].
  cbn [expand]. destruct (lookup f p) as [src|] eqn:Hl; [|left; now split].
  destruct (mem_path p active) eqn:Hm.
  - exists p. split; [apply reach_refl | left; now apply mem_path_In].
  - pose proof (process_cases f (fun q => expand n f q (p :: active)) (removelast p) (split_inclusive src) None) as HP.
    assert (Hedge : forall raw q, In raw (active_includes (split_inclusive src) None) ->
                                  resolve f (removelast p) raw = Some q -> edge f p q).
    { intros raw q Hin Hr. exists src, raw. now repeat split. }
    destruct (process _ _ _ _ _) as [t| |nm|] eqn:E; cbn.
    + econstructor; [exact Hl|]. apply HP. intros raw q tq Hin Hr Hq.
      specialize (IH f q (p :: active)). rewrite Hq in IH. exact IH.
    + destruct HP as [[raw [_ [_ Hx]]]|[raw [q [Hin [Hr Hq]]]]]; [discriminate|].
      specialize (IH f q (p :: active)). rewrite Hq in IH. destruct IH as [q' [Hre [[Heq|Hin']|Hc]]].
      * subst q'. exists p. split; [apply reach_refl|]. right. exists q. split; eauto.
      * exists q'. split; [eapply reach_step; eauto | now left].
      * exists q'. split; [eapply reach_step; eauto | now right].
    + right. destruct HP as [[raw [Hin [Hr Hx]]]|[raw [q [Hin [Hr Hq]]]]].
      * inversion Hx; subst. exists p. split; [apply reach_refl|]. exists src. now repeat split.
      * specialize (IH f q (p :: active)). rewrite Hq in IH. destruct IH as [[Hn _]|[q' [Hre Hd]]].
        -- exfalso. eapply resolve_lookup; eauto.
        -- exists q'. split; [eapply reach_step; eauto | exact Hd].
    + exact I.
Qed.

(* ------------------------------------------------------------------ *)
(* fuel: |files| + 1 units suffice, and more fuel changes nothing       *)
(* ------------------------------------------------------------------ *)
Lemma process_not_oof : forall f rec dir lines fc,
  (forall raw q, In raw (active_includes lines fc) -> resolve f dir raw = Some q -> rec q <> OutOfFuel) ->
  process f rec dir lines fc <> OutOfFuel.
Proof.
  intros f rec dir lines fc H E. pose proof (process_cases f rec dir lines fc) as HP. rewrite E in HP.
  destruct HP as [[raw [_ [_ Hx]]]|[raw [q [Hin [Hr Hq]]]]]; [discriminate|]. eapply H; eauto.
Qed.

Lemma expand_fuel_gen : forall fuel f p active,
  NoDup active -> (forall a, In a active -> lookup f a <> None) ->
  List.length f < fuel + List.length active ->
  expand fuel f p active <> OutOfFuel.
Proof.
  induction fuel as [|n IH]; intros f p active Hnd Hex Hlen.
  - exfalso. assert (Hincl : incl active (map fst f)).
    { intros a Ha. specialize (Hex a Ha). destruct (lookup f a) eqn:E; [|congruence]. eapply lookup_In; eauto. }
    pose proof (NoDup_incl_length Hnd Hincl) as Hle. rewrite map_length in Hle. cbn in Hlen. lia.
  - cbn [expand]. destruct (lookup f p) as [src|] eqn:Hl; [|discriminate].
    destruct (mem_path p active) eqn:Hm; [discriminate|].
    apply process_not_oof. intros raw q _ _. apply IH.
    + constructor; [now apply mem_path_false | exact Hnd].
    + intros a [<-|Ha]; [congruence | now apply Hex].
    + cbn [List.length]. lia.
Qed.

Theorem expand_fuel : forall f p fuel, List.length f < fuel -> expand fuel f p [] <> OutOfFuel.
Proof.
  intros f p fuel H. apply expand_fuel_gen; [constructor | intros a [] | cbn; lia].
Qed.

Lemma process_rec_ext : forall f rec1 rec2 dir lines fc,
  (forall q, rec1 q <> OutOfFuel -> rec2 q = rec1 q) ->
  process f rec1 dir lines fc <> OutOfFuel ->
  process f rec2 dir lines fc = process f rec1 dir lines fc.
Proof.
  intros f rec1 rec2 dir lines. induction lines as [|l r IH]; intros fc Hrec Hn; [reflexivity|].
  cbn [process] in *. destruct (fenced fc l).
  - rewrite IH; auto. intros E. apply Hn. now rewrite E.
  - unfold token_line in *. destruct (include_of_line l) as [raw|]; cbn [bind] in *.
    + destruct (resolve f dir raw) as [q|]; [|reflexivity].
      destruct (rec1 q) as [tq| |nm|] eqn:E1.
      * rewrite (Hrec q) by congruence. rewrite E1. cbn [bind] in *.
        rewrite IH; auto. intros E. apply Hn. now rewrite E.
      * rewrite (Hrec q) by congruence. now rewrite E1.
      * rewrite (Hrec q) by congruence. now rewrite E1.
      * exfalso. now apply Hn.
    + rewrite IH; auto. intros E. apply Hn. now rewrite E.
Qed.

Lemma expand_fuel_mono : forall n m f p active,
  n <= m -> expand n f p active <> OutOfFuel -> expand m f p active = expand n f p active.
Proof.
  induction n as [|n IH]; intros m f p active Hle Hn; [cbn in Hn; congruence|].
  destruct m as [|m]; [lia|]. cbn [expand] in *.
  destruct (lookup f p) as [src|]; [|reflexivity].
  destruct (mem_path p active); [reflexivity|].
  apply process_rec_ext; [|exact Hn].
  intros q Hq. apply IH; [lia | exact Hq].
Qed.

(* every amount of fuel above the number of files gives the result of expand_root *)
Theorem expand_fuel_indep : forall f p fuel, List.length f < fuel -> expand fuel f p [] = expand_root f p.
Proof.
  intros f p fuel H. unfold expand_root. apply expand_fuel_mono; [lia|]. apply expand_fuel. lia.
Qed.

Theorem expand_root_terminates : forall f p, expand_root f p <> OutOfFuel.
Proof. intros f p. apply expand_fuel. lia. Qed.

(* ------------------------------------------------------------------ *)
(* the substitution is a function, and is defined exactly on good files *)
(* ------------------------------------------------------------------ *)
Lemma subst_functional : forall f,
  (forall p t, subst_file f p t -> forall t', subst_file f p t' -> t = t') /\
  (forall dir lines fc t, subst_lines f dir lines fc t -> forall t', subst_lines f dir lines fc t' -> t = t').
Proof.
  intros f. apply subst_mutind.
  - intros p src t Hl _ IH t' H'. inversion H'; subst.
    assert (src0 = src) by congruence. subst. now apply IH.
  - intros dir fc t' H'. now inversion H'.
  - intros dir l r fc t Hf _ IH t' H'. inversion H'; subst; try congruence.
    f_equal. now apply IH.
  - intros dir l r fc t Hf Hi _ IH t' H'. inversion H'; subst; try congruence.
    f_equal. now apply IH.
  - intros dir l r fc raw q tq t Hf Hi Hr _ IHq _ IHr t' H'. inversion H'; subst; try congruence.
    assert (raw0 = raw) by congruence. subst. assert (q0 = q) by congruence. subst.
    f_equal; [f_equal; now apply IHq | now apply IHr].
Qed.

Theorem subst_file_fun : forall f p t t', subst_file f p t -> subst_file f p t' -> t = t'.
Proof. intros f p t t' H H'. eapply (proj1 (subst_functional f)); eauto. Qed.

Lemma subst_good_mut : forall f,
  (forall p t, subst_file f p t -> good f p) /\
  (forall dir lines fc t, subst_lines f dir lines fc t ->
     forall raw, In raw (active_includes lines fc) ->
       resolve f dir raw <> None /\ (forall q, resolve f dir raw = Some q -> good f q)).
Proof.
  intros f. apply subst_mutind.
  - intros p src t Hl _ IH. econstructor; [exact Hl| |].
    + intros raw Hin. now apply (IH raw Hin).
    + intros raw q Hin. now apply (IH raw Hin).
  - intros dir fc raw [].
  - intros dir l r fc t Hf _ IH raw Hin. cbn [active_includes] in Hin. rewrite Hf in Hin. now apply IH.
  - intros dir l r fc t Hf Hi _ IH raw Hin. cbn [active_includes] in Hin. rewrite Hf, Hi in Hin. now apply IH.
  - intros dir l r fc raw q tq t Hf Hi Hr _ IHq _ IHr raw' Hin.
    cbn [active_includes] in Hin. rewrite Hf, Hi in Hin. destruct Hin as [<-|Hin]; [|now apply IHr].
    split; [congruence|]. intros q' Hq'. assert (q' = q) by congruence. now subst.
Qed.

Theorem subst_file_good : forall f p t, subst_file f p t -> good f p.
Proof. intros f p t H. eapply (proj1 (subst_good_mut f)); eauto. Qed.

Lemma good_edge : forall f p q, good f p -> edge f p q -> good f q.
Proof.
  intros f p q Hg [src [raw [Hl [Hin Hr]]]]. inversion Hg as [p' src' Hl' _ Hch]; subst.
  assert (src' = src) by congruence. subst. eapply Hch; eauto.
Qed.

Lemma good_reach : forall f p q, good f p -> reach f p q -> good f q.
Proof. intros f p q Hg H. induction H; [exact Hg|]. apply IHreach. eapply good_edge; eauto. Qed.

Lemma good_no_cycle : forall f q, good f q -> ~ on_cycle f q.
Proof.
  intros f q Hg. induction Hg as [p src Hl Hpres Hch IH]. intros [m [He Hre]].
  destruct He as [src' [raw [Hl' [Hin Hr]]]]. assert (src' = src) by congruence. subst src'.
  apply (IH raw m Hin Hr).
  assert (Hpm : edge f p m) by (exists src, raw; now repeat split).
  inversion Hre as [|a b c Hab Hbc]; subst.
  - exists p. split; [exact Hpm | apply reach_refl].
  - exists b. split; [exact Hab|]. eapply reach_edge_r; eauto.
Qed.

Lemma good_no_dangling : forall f q raw, good f q -> ~ dangling f q raw.
Proof.
  intros f q raw Hg [src [Hl [Hin Hr]]]. inversion Hg as [p' src' Hl' Hpres _]; subst.
  assert (src' = src) by congruence. subst. now apply (Hpres raw Hin).
Qed.

(* ------------------------------------------------------------------ *)
(* main theorems about expand_root                                      *)
(* ------------------------------------------------------------------ *)
Definition acyclic_from (f : fsys) (p : path) : Prop := forall q, reach f p q -> ~ on_cycle f q.
Definition all_present (f : fsys) (p : path) : Prop :=
  lookup f p <> None /\ forall q raw, reach f p q -> ~ dangling f q raw.

Lemma expand_root_sound : forall f p,
  match expand_root f p with
  | Ok t => subst_file f p t
  | ErrCircular => exists q, reach f p q /\ on_cycle f q
  | ErrMissing name => (lookup f p = None /\ name = join_path p) \/ (exists q, reach f p q /\ dangling f q name)
  | OutOfFuel => False
  end.
Proof.
  intros f p. pose proof (expand_sound_gen (S (List.length f)) f p []) as H.
  pose proof (expand_root_terminates f p) as Hn. unfold expand_root in *.
  destruct (expand _ f p []) as [t| |nm|]; cbn in H; auto.
  destruct H as [q [Hre [[]|Hc]]]. eauto.
Qed.

(* acyclic from the root and every reachable target present: the result is the substitution *)
Theorem expand_acyclic : forall f p,
  acyclic_from f p -> all_present f p -> exists t, expand_root f p = Ok t /\ subst_file f p t.
Proof.
  intros f p Hac [Hl Hpres]. pose proof (expand_root_sound f p) as H.
  destruct (expand_root f p) as [t| |nm|].
  - eauto.
  - exfalso. destruct H as [q [Hre Hc]]. exact (Hac q Hre Hc).
  - exfalso. destruct H as [[Hn _]|[q [Hre Hd]]]; [congruence | exact (Hpres q nm Hre Hd)].
  - contradiction.
Qed.

Theorem expand_good : forall f p, good f p -> exists t, expand_root f p = Ok t /\ subst_file f p t.
Proof.
  intros f p Hg. apply expand_acyclic.
  - intros q Hre. apply good_no_cycle. eapply good_reach; eauto.
  - split; [inversion Hg; congruence|]. intros q raw Hre. apply good_no_dangling. eapply good_reach; eauto.
Qed.

(* converse: a successful expansion is the substitution (so success happens only on good files) *)
Theorem expand_ok_subst : forall f p t, expand_root f p = Ok t -> subst_file f p t /\ good f p.
Proof.
  intros f p t E. pose proof (expand_root_sound f p) as H. rewrite E in H. split; [exact H|].
  eapply subst_file_good; eauto.
Qed.

(* a reachable cycle: never a text; with all reachable targets present: the circular-include error *)
Theorem expand_cycle_not_ok : forall f p, (exists q, reach f p q /\ on_cycle f q) -> forall t, expand_root f p <> Ok t.
Proof.
  intros f p [q [Hre Hc]] t E. apply expand_ok_subst in E as [_ Hg].
  eapply good_no_cycle; [eapply good_reach; eauto | exact Hc].
Qed.

Theorem expand_cycle : forall f p,
  lookup f p <> None -> (exists q, reach f p q /\ on_cycle f q) ->
  (forall q raw, reach f p q -> ~ dangling f q raw) ->
  expand_root f p = ErrCircular.
Proof.
  intros f p Hl Hcyc Hpres. pose proof (expand_root_sound f p) as H.
  destruct (expand_root f p) as [t| |nm|] eqn:E.
  - exfalso. eapply expand_cycle_not_ok; eauto.
  - reflexivity.
  - exfalso. destruct H as [[Hn _]|[q [Hre Hd]]]; [congruence | exact (Hpres q nm Hre Hd)].
  - contradiction.
Qed.

(* a reachable missing target: never a text; without reachable cycles: the include error naming a missing
   target exactly as written in the including file *)
Theorem expand_missing_not_ok : forall f p, (exists q raw, reach f p q /\ dangling f q raw) -> forall t, expand_root f p <> Ok t.
Proof.
  intros f p [q [raw [Hre Hd]]] t E. apply expand_ok_subst in E as [_ Hg].
  eapply good_no_dangling; [eapply good_reach; eauto | exact Hd].
Qed.

Theorem expand_missing : forall f p,
  lookup f p <> None -> acyclic_from f p -> (exists q raw, reach f p q /\ dangling f q raw) ->
  exists q raw, expand_root f p = ErrMissing raw /\ reach f p q /\ dangling f q raw.
Proof.
  intros f p Hl Hac Hd. pose proof (expand_root_sound f p) as H.
  destruct (expand_root f p) as [t| |nm|] eqn:E.
  - exfalso. eapply expand_missing_not_ok; eauto.
  - exfalso. destruct H as [q [Hre Hc]]. exact (Hac q Hre Hc).
  - destruct H as [[Hn _]|[q [Hre Hd']]]; [congruence|]. exists q, nm. auto.
  - contradiction.
Qed.

(* every error is justified by the graph (no spurious circular / missing reports) *)
Theorem expand_error_justified : forall f p, lookup f p <> None ->
  (expand_root f p = ErrCircular -> exists q, reach f p q /\ on_cycle f q) /\
  (forall raw, expand_root f p = ErrMissing raw -> exists q, reach f p q /\ dangling f q raw).
Proof.
  intros f p Hl. pose proof (expand_root_sound f p) as H. split.
  - intros E. now rewrite E in H.
  - intros raw E. rewrite E in H. destruct H as [[Hn _]|H]; [congruence | exact H].
Qed.

(* the same file may be included several times / through several routes: whatever the multiplicities of the
   include lines of p, if every one of them names a good file the expansion succeeds *)
Theorem repeat_include_ok : forall f p src,
  lookup f p = Some src ->
  (forall raw, In raw (includes_of src) -> exists q, resolve f (dir_of p) raw = Some q /\ good f q) ->
  exists t, expand_root f p = Ok t /\ subst_file f p t.
Proof.
  intros f p src Hl Hch. apply expand_good. econstructor; [exact Hl| |].
  - intros raw Hin. destruct (Hch raw Hin) as [q [Hr _]]. congruence.
  - intros raw q Hin Hr. destruct (Hch raw Hin) as [q' [Hr' Hg]]. congruence.
Qed.

(* the result for a file does not depend on the set of files that are being expanded around it,
   as long as none of them is reachable from it (the active set is restored on return) *)
Theorem expand_active_irrelevant : forall f p t active fuel,
  subst_file f p t ->
  NoDup active -> (forall a, In a active -> lookup f a <> None) -> (forall a, In a active -> ~ reach f p a) ->
  List.length f < fuel + List.length active ->
  expand fuel f p active = Ok t.
Proof.
  intros f p t active fuel Hs Hnd Hex Hnr Hlen.
  pose proof (expand_sound_gen fuel f p active) as H.
  pose proof (expand_fuel_gen fuel f p active Hnd Hex Hlen) as Hn.
  pose proof (subst_file_good _ _ _ Hs) as Hg.
  destruct (expand fuel f p active) as [t'| |nm|]; cbn in H.
  - f_equal. eapply subst_file_fun; eauto.
  - exfalso. destruct H as [q [Hre [Hin|Hc]]]; [exact (Hnr q Hin Hre)|].
    eapply good_no_cycle; [eapply good_reach; eauto | exact Hc].
  - exfalso. destruct H as [[Hn' _]|[q [Hre Hd]]]; [inversion Hg; congruence|].
    eapply good_no_dangling; [eapply good_reach; eauto | exact Hd].
  - congruence.
Qed.

(* ------------------------------------------------------------------ *)
(* lines and texts that are left untouched                              *)
(* ------------------------------------------------------------------ *)
Lemma split_inclusive_concat : forall s, List.concat (split_inclusive s) = s.
Proof.
  induction s as [|c r IH]; [reflexivity|]. cbn [split_inclusive].
  destruct (Ascii.eqb c c_nl).
  - cbn. now rewrite IH.
  - destruct (split_inclusive r) as [|l ls]; cbn in *; now rewrite <- IH.
Qed.

Lemma process_verbatim : forall f rec dir lines fc,
  active_includes lines fc = [] -> process f rec dir lines fc = Ok (List.concat lines).
Proof.
  intros f rec dir lines. induction lines as [|l r IH]; intros fc H; [reflexivity|].
  cbn [process active_includes List.concat] in *. destruct (fenced fc l).
  - now rewrite IH.
  - unfold token_line. destruct (include_of_line l); [discriminate|]. cbn [bind]. now rewrite IH.
Qed.

(* a file without include lines outside fences (whatever it has inside fences, whatever other brace
   expressions it contains) expands to itself, byte for byte *)
Theorem expand_verbatim : forall f p src n active,
  lookup f p = Some src -> includes_of src = [] -> mem_path p active = false ->
  expand (S n) f p active = Ok src.
Proof.
  intros f p src n active Hl Hi Hm. cbn [expand]. rewrite Hl, Hm.
  rewrite process_verbatim by exact Hi. now rewrite split_inclusive_concat.
Qed.

Definition fence_after (fc : fence) (ls : list bytes) : fence := fold_left next_fence ls fc.

Lemma subst_lines_app : forall f dir l1 l2 fc t,
  subst_lines f dir (l1 ++ l2) fc t ->
  exists t1 t2, t = t1 ++ t2 /\ subst_lines f dir l1 fc t1 /\ subst_lines f dir l2 (fence_after fc l1) t2.
Proof.
  intros f dir l1. induction l1 as [|l r IH]; intros l2 fc t H.
  - exists [], t. repeat split; [constructor | exact H].
  - cbn [app] in H.
    inversion H as [ | d l' r' fc' t' Hf Hr | d l' r' fc' t' Hf Hi Hr | d l' r' fc' raw q tq t' Hf Hi Hres Hq Hr]; subst.
    + destruct (IH _ _ _ Hr) as [t1 [t2 [-> [H1 H2]]]]. exists (l ++ t1), t2.
      repeat split; [now rewrite app_assoc | now apply SL_fenced | exact H2].
    + destruct (IH _ _ _ Hr) as [t1 [t2 [-> [H1 H2]]]]. exists (l ++ t1), t2.
      repeat split; [now rewrite app_assoc | now apply SL_plain |].
      cbn [fence_after fold_left]. now rewrite next_fence_unfenced.
    + destruct (IH _ _ _ Hr) as [t1 [t2 [-> [H1 H2]]]]. exists ((tq ++ snd (strip_nl l)) ++ t1), t2.
      repeat split; [now rewrite app_assoc | eapply SL_include; eauto |].
      cbn [fence_after fold_left]. now rewrite next_fence_unfenced.
Qed.

(* a line inside a fence (or opening one) appears verbatim between the substitution of the lines before it
   and the substitution of the lines after it *)
Theorem fence_lines_untouched : forall f dir pre l post fc t,
  subst_lines f dir (pre ++ l :: post) fc t ->
  fenced (fence_after fc pre) l = true ->
  exists t1 t2, t = t1 ++ l ++ t2 /\ subst_lines f dir pre fc t1 /\
                subst_lines f dir post (next_fence (fence_after fc pre) l) t2.
Proof.
  intros f dir pre l post fc t H Hf. destruct (subst_lines_app _ _ _ _ _ _ H) as [t1 [t2 [-> [H1 H2]]]].
  inversion H2 as [ | d l' r' fc' t' Hf' Hr' | d l' r' fc' t' Hf' Hi' Hr' | d l' r' fc' raw' q tq t' Hf' Hi' Hres Hq Hr']; subst; try congruence. exists t1, t'. now repeat split.
Qed.

(* a line outside fences that is not a stand-alone {...mec} line (any other brace expression) likewise *)
Theorem non_include_lines_untouched : forall f dir pre l post fc t,
  subst_lines f dir (pre ++ l :: post) fc t ->
  fenced (fence_after fc pre) l = false -> include_of_line l = None ->
  exists t1 t2, t = t1 ++ l ++ t2 /\ subst_lines f dir pre fc t1 /\ subst_lines f dir post None t2.
Proof.
  intros f dir pre l post fc t H Hf Hi. destruct (subst_lines_app _ _ _ _ _ _ H) as [t1 [t2 [-> [H1 H2]]]].
  inversion H2 as [ | d l' r' fc' t' Hf' Hr' | d l' r' fc' t' Hf' Hi' Hr' | d l' r' fc' raw' q tq t' Hf' Hi' Hres Hq Hr']; subst; try congruence. exists t1, t'. now repeat split.
Qed.

(* an include line outside fences is replaced (keeping its newline) by the substitution of its target *)
Theorem include_line_replaced : forall f dir pre l post fc t raw,
  subst_lines f dir (pre ++ l :: post) fc t ->
  fenced (fence_after fc pre) l = false -> include_of_line l = Some raw ->
  exists q tq t1 t2, resolve f dir raw = Some q /\ subst_file f q tq /\
                     t = t1 ++ (tq ++ snd (strip_nl l)) ++ t2 /\
                     subst_lines f dir pre fc t1 /\ subst_lines f dir post None t2.
Proof.
  intros f dir pre l post fc t raw H Hf Hi. destruct (subst_lines_app _ _ _ _ _ _ H) as [t1 [t2 [-> [H1 H2]]]].
  inversion H2 as [ | d l' r' fc' t' Hf' Hr' | d l' r' fc' t' Hf' Hi' Hr' | d l' r' fc' raw' q tq t' Hf' Hi' Hres Hq Hr']; subst; try congruence. assert (raw' = raw) by congruence. subst.
  exists q, tq, t1, t'. now repeat split.
Qed.

(* what a stand-alone include line is *)
Lemma ends_with_single : forall x s, ends_with [x] s = true <-> exists s', s = s' ++ [x].
Proof.
  intros x s. unfold ends_with. cbn [rev app]. split.
  - destruct (rev s) as [|y t] eqn:E; cbn; [discriminate|]. rewrite andb_true_r. intros H.
    apply Ascii.eqb_eq in H. subst y. exists (rev t).
    rewrite <- (rev_involutive s), E. reflexivity.
  - intros [s' ->]. rewrite rev_app_distr. cbn. now rewrite Ascii.eqb_refl.
Qed.

Theorem include_of_line_spec : forall l raw,
  include_of_line l = Some raw <->
  exists inner, trim (fst (strip_nl l)) = c_lbrace :: inner ++ [c_rbrace] /\ raw = trim inner /\ ends_with dot_mec raw = true.
Proof.
  intros l raw. unfold include_of_line, standalone_braced_content, looks_like_mech_include. split.
  - destruct (trim (fst (strip_nl l))) as [|c r] eqn:Et; [discriminate|].
    destruct (Ascii.eqb c c_lbrace) eqn:Ec; cbn [andb]; [|discriminate].
    destruct (ends_with [c_rbrace] (c :: r)) eqn:Ee; [|discriminate].
    apply Ascii.eqb_eq in Ec. subst c. apply ends_with_single in Ee as [s' Hs'].
    destruct s' as [|c' s'']; cbn in Hs'; [inversion Hs'|]. inversion Hs'; subst.
    rewrite removelast_last. destruct (ends_with dot_mec (trim s'')) eqn:Em; [|discriminate].
    intros H. inversion H; subst. exists s''. now repeat split.
  - intros [inner [-> [-> Hm]]]. rewrite Ascii.eqb_refl. cbn [andb].
    assert (He : ends_with [c_rbrace] (c_lbrace :: inner ++ [c_rbrace]) = true).
    { apply ends_with_single. now exists (c_lbrace :: inner). }
    rewrite He, removelast_last, Hm. reflexivity.
Qed.

(* ------------------------------------------------------------------ *)
(* the outside-fence buffer of the Rust code changes nothing            *)
(* ------------------------------------------------------------------ *)
Definition no_nl (s : bytes) : Prop := Forall (fun c => c <> c_nl) s.
Definition complete_line (l : bytes) : Prop := exists body, l = body ++ [c_nl] /\ no_nl body.
Definition last_line (l : bytes) : Prop := l <> [] /\ no_nl l.

Fixpoint lines_ok (ls : list bytes) : Prop :=
  match ls with
  | [] => True
  | l :: r => (complete_line l /\ lines_ok r) \/ (last_line l /\ r = [])
  end.

Lemma eqb_nl_false : forall c, c <> c_nl -> Ascii.eqb c c_nl = false.
Proof. intros c H. destruct (Ascii.eqb c c_nl) eqn:E; [apply Ascii.eqb_eq in E; contradiction | reflexivity]. Qed.

Lemma split_inclusive_ok : forall s, lines_ok (split_inclusive s).
Proof.
  induction s as [|c r IH]; [exact I|]. cbn [split_inclusive].
  destruct (Ascii.eqb c c_nl) eqn:E.
  - apply Ascii.eqb_eq in E. subst. left. split; [|exact IH]. exists []. split; [reflexivity | constructor].
  - assert (Hc : c <> c_nl) by (intros ->; rewrite Ascii.eqb_refl in E; discriminate).
    destruct (split_inclusive r) as [|l ls].
    + right. split; [|reflexivity]. split; [discriminate | now constructor].
    + cbn [lines_ok] in *. destruct IH as [[[body [-> Hb]] Hr]|[[Hne Hn] ->]].
      * left. split; [|exact Hr]. exists (c :: body). split; [reflexivity | now constructor].
      * right. split; [|reflexivity]. split; [discriminate | now constructor].
Qed.

Lemma split_complete_app : forall l s, complete_line l -> split_inclusive (l ++ s) = l :: split_inclusive s.
Proof.
  intros l s [body [-> Hb]]. induction Hb as [|c body Hc Hb IH].
  - cbn. reflexivity.
  - cbn [app split_inclusive]. rewrite eqb_nl_false by exact Hc. cbn [app] in IH. now rewrite IH.
Qed.

Lemma split_last_line : forall l, last_line l -> split_inclusive l = [l].
Proof.
  intros l [Hne Hn]. induction Hn as [|c l Hc Hn IH]; [congruence|].
  cbn [split_inclusive]. rewrite eqb_nl_false by exact Hc.
  destruct l as [|c' l']; [reflexivity|]. rewrite IH by discriminate. reflexivity.
Qed.

Definition cbuf (buf : bytes) : Prop := exists ls, Forall complete_line ls /\ buf = List.concat ls.

Lemma split_cbuf_app : forall buf s, cbuf buf -> split_inclusive (buf ++ s) = split_inclusive buf ++ split_inclusive s.
Proof.
  intros buf s [ls [Hls ->]]. induction Hls as [|l ls Hl Hls IH]; [reflexivity|].
  cbn [List.concat]. rewrite <- app_assoc.
  rewrite (split_complete_app l (List.concat ls ++ s) Hl), (split_complete_app l (List.concat ls) Hl). cbn. now rewrite IH.
Qed.

Lemma cbuf_nil : cbuf [].
Proof. exists []. split; [constructor | reflexivity]. Qed.

Lemma cbuf_app : forall buf l, cbuf buf -> complete_line l -> cbuf (buf ++ l).
Proof.
  intros buf l [ls [Hls ->]] Hl. exists (ls ++ [l]). split.
  - apply Forall_app. split; [exact Hls | now constructor].
  - rewrite concat_app. cbn. now rewrite app_nil_r.
Qed.

Lemma prepend_bind : forall a r k, prepend a (bind r k) = bind r (fun t => prepend a (k t)).
Proof. now intros a [t| | |]. Qed.

Lemma bind_ret : forall r, bind r (fun t => prepend t (Ok [])) = r.
Proof. intros [t| | |]; cbn; try reflexivity. now rewrite app_nil_r. Qed.

Lemma tokens_snoc_bind : forall f rec dir A l P,
  bind (tokens f rec dir (A ++ [l])) (fun t => prepend t P) =
  bind (tokens f rec dir A) (fun t => prepend t (bind (token_line f rec dir l) (fun t' => prepend t' P))).
Proof.
  intros f rec dir A l P. induction A as [|a A IH].
  - cbn [app tokens bind]. rewrite prepend_nil, bind_bind. apply bind_ext. intros t.
    cbn [prepend bind]. now rewrite app_nil_r.
  - cbn [app tokens]. rewrite !bind_bind. apply bind_ext. intros t.
    rewrite !bind_prepend.
    transitivity (bind (tokens f rec dir (A ++ [l])) (fun t0 => prepend t (prepend t0 P))).
    { apply bind_ext. intros t0. now rewrite prepend_prepend. }
    transitivity (prepend t (bind (tokens f rec dir (A ++ [l])) (fun t0 => prepend t0 P))).
    { now rewrite prepend_bind. }
    rewrite IH. rewrite prepend_bind. apply bind_ext. intros t0. now rewrite prepend_prepend.
Qed.

Lemma flush_tokens : forall f rec dir buf, flush f rec dir buf = tokens f rec dir (split_inclusive buf).
Proof. intros f rec dir [|c b]; reflexivity. Qed.

Lemma scan_process : forall f rec dir lines,
  lines_ok lines ->
  (forall buf, cbuf buf ->
     scan f rec dir lines None buf =
     bind (tokens f rec dir (split_inclusive buf)) (fun t => prepend t (process f rec dir lines None))) /\
  (forall m n, scan f rec dir lines (Some (m, n)) [] = process f rec dir lines (Some (m, n))).
Proof.
  intros f rec dir lines. induction lines as [|l r IH]; intros Hok.
  - split.
    + intros buf _. cbn [scan process]. rewrite flush_tokens. now rewrite bind_ret.
    + intros m n. reflexivity.
  - assert (Hr : lines_ok r) by (destruct Hok as [[_ H]|[_ ->]]; [exact H | exact I]).
    destruct (IH Hr) as [IH1 IH2]. split.
    + intros buf Hbuf. cbn [scan process fenced]. destruct (code_fence_delimiter l) as [[[m n] after]|] eqn:Hd.
      * rewrite flush_tokens, IH2. cbn [next_fence]. rewrite Hd. apply bind_ext. intros t.
        now rewrite prepend_prepend.
      * assert (Hs : split_inclusive (buf ++ l) = split_inclusive buf ++ [l]).
        { rewrite split_cbuf_app by exact Hbuf. f_equal. destruct Hok as [[Hl _]|[Hl _]].
          - rewrite <- (app_nil_r l) at 1. now rewrite split_complete_app.
          - now apply split_last_line. }
        assert (Hscan : scan f rec dir r None (buf ++ l) =
                        bind (tokens f rec dir (split_inclusive (buf ++ l))) (fun t => prepend t (process f rec dir r None))).
        { destruct Hok as [[Hl _]|[_ ->]].
          - apply IH1. now apply cbuf_app.
          - cbn [scan process]. rewrite flush_tokens. now rewrite bind_ret. }
        rewrite Hscan, Hs. apply tokens_snoc_bind.
    + intros m n. cbn [scan process fenced next_fence]. f_equal.
      destruct (is_code_fence_close l m n).
      * rewrite (IH1 [] cbuf_nil). cbn. now rewrite prepend_nil.
      * apply IH2.
Qed.

Lemma process_ext : forall f rec1 rec2 dir lines fc,
  (forall q, rec1 q = rec2 q) -> process f rec1 dir lines fc = process f rec2 dir lines fc.
Proof.
  intros f rec1 rec2 dir lines. induction lines as [|l r IH]; intros fc H; [reflexivity|].
  cbn [process]. destruct (fenced fc l); [now rewrite IH|].
  unfold token_line. destruct (include_of_line l) as [raw|]; cbn [bind].
  - destruct (resolve f dir raw) as [q|]; [|reflexivity]. rewrite H. apply bind_ext. intros t. cbn [bind]. now rewrite IH.
  - now rewrite IH.
Qed.

(* the transcription with the buffer and the line-by-line model agree on every input *)
Theorem expand_buf_eq : forall fuel f p active, expand_buf fuel f p active = expand fuel f p active.
Proof.
  induction fuel as [|n IH]; intros f p active; [reflexivity|].
  cbn [expand_buf expand]. destruct (lookup f p) as [src|]; [|reflexivity].
  destruct (mem_path p active); [reflexivity|].
  destruct (scan_process f (fun q => expand_buf n f q (p :: active)) (removelast p) (split_inclusive src)
              (split_inclusive_ok src)) as [H1 _].
  rewrite (H1 [] cbuf_nil). cbn [split_inclusive tokens bind]. rewrite prepend_nil.
  apply process_ext. intros q. apply IH.
Qed.

(* ------------------------------------------------------------------ *)
(* the judge                                                            *)
(* ------------------------------------------------------------------ *)
Definition C20_spec (f : fsys) (root : path) (o : obs20) : Prop :=
  match o with
  | O_ok t => subst_file f root t
  | O_err _ m =>
      (is_circular_err m = true /\ exists q, reach f root q /\ on_cycle f q) \/
      (exists raw q, is_missing_err raw m = true /\ reach f root q /\ dangling f q raw)
  | O_other => False
  end.

(* soundness of the reachability closure used to accept the other error class *)
Lemma targets_of_edge : forall f p q, In q (targets_of f p) -> edge f p q.
Proof.
  intros f p q H. unfold targets_of in H. destruct (lookup f p) as [src|] eqn:Hl; [|contradiction].
  apply in_flat_map in H as [raw [Hin Hq]].
  destruct (resolve f (removelast p) raw) as [q'|] eqn:Hr; [|contradiction].
  destruct Hq as [<-|[]]. exists src, raw. now repeat split.
Qed.

Lemma add_new_In : forall xs s x, In x (add_new xs s) -> In x xs \/ In x s.
Proof.
  induction xs as [|y r IH]; intros s x H; cbn in H; [now right|].
  destruct (mem_path y s).
  - destruct (IH _ _ H); [left; now right | now right].
  - destruct (IH _ _ H) as [H1|H1]; [left; now right|].
    apply in_app_or in H1 as [H1|[<-|[]]]; [now right | left; now left].
Qed.

Lemma closure_sound : forall n f a s, (forall x, In x s -> reach f a x) -> forall x, In x (closure n f s) -> reach f a x.
Proof.
  induction n as [|n IH]; intros f a s Hs x Hx; cbn in Hx; [now apply Hs|].
  eapply IH; [|exact Hx]. intros y Hy. apply add_new_In in Hy as [Hy|Hy]; [|now apply Hs].
  apply in_flat_map in Hy as [z [Hz Hy]]. eapply reach_edge_r; [apply Hs; exact Hz | now apply targets_of_edge].
Qed.

Lemma reachable_sound : forall f p x, In x (reachable f p) -> reach f p x.
Proof.
  intros f p x. apply closure_sound. intros y [<-|[]]. apply reach_refl.
Qed.

Lemma alt_missing_sound : forall f root m, alt_missing f root m = true ->
  exists raw q, is_missing_err raw m = true /\ reach f root q /\ dangling f q raw.
Proof.
  intros f root m H. unfold alt_missing in H. apply existsb_exists in H as [q [Hq Hd]].
  unfold dangling_named in Hd. destruct (lookup f q) as [src|] eqn:Hl; [|discriminate].
  apply existsb_exists in Hd as [raw [Hin Hm]].
  destruct (resolve f (removelast q) raw) eqn:Hr; [discriminate|].
  exists raw, q. split; [exact Hm|]. split; [now apply reachable_sound|]. exists src. now repeat split.
Qed.

Lemma alt_cycle_sound : forall f root, alt_cycle f root = true -> exists q, reach f root q /\ on_cycle f q.
Proof.
  intros f root H. unfold alt_cycle in H. apply existsb_exists in H as [q [Hq Hc]].
  apply existsb_exists in Hc as [t [Ht Hm]]. apply mem_path_In in Hm.
  exists q. split; [now apply reachable_sound|]. exists t. split; [now apply targets_of_edge | now apply reachable_sound].
Qed.

Theorem judge_fs_sound : forall f root o tag,
  lookup f root <> None -> judge_fs f root o = v_ok tag -> C20_spec f root o.
Proof.
  intros f root o tag Hl H. unfold judge_fs in H. pose proof (expand_root_sound f root) as HS.
  destruct (expand_root f root) as [t| |nm|]; destruct o as [t'|k m|]; try discriminate H; cbn [C20_spec].
  - destruct (bytes_eqb t t') eqn:E; [|discriminate H]. apply bytes_eqb_eq in E. now subst.
  - destruct (is_circular_err m) eqn:E; [left; now split|].
    destruct (alt_missing f root m) eqn:E2; [|discriminate H]. right. now apply alt_missing_sound.
  - destruct (is_missing_err nm m) eqn:E.
    + right. destruct HS as [[Hn _]|[q [Hre Hd]]]; [congruence|]. exists nm, q. now repeat split.
    + destruct (andb (is_circular_err m) (alt_cycle f root)) eqn:E2.
      * apply andb_prop in E2 as [E3 E4]. left. split; [exact E3 | now apply alt_cycle_sound].
      * destruct (alt_missing f root m) eqn:E3; [|discriminate H]. right. now apply alt_missing_sound.
Qed.

Theorem judge_include_sound : forall c o tag,
  judge_include (Lx [c; o]) = v_ok tag ->
  exists f root, decode_case c = Some (f, root) /\ lookup f root <> None /\ C20_spec f root (decode_obs20 o).
Proof.
  intros c o tag H. cbn [judge_include] in H.
  destruct (decode_case c) as [[f root]|]; [|discriminate H].
  destruct (wf_fs f); cbn [andb] in H; [|discriminate H].
  destruct (lookup f root) eqn:Hl; [|discriminate H].
  destruct (forallb (fun e => content_ok (snd e)) f); cbn [negb] in H; [|discriminate H].
  destruct (existsb file_unsafe f); [discriminate H|].
  destruct (existsb file_brace f); [discriminate H|].
  destruct (res_eqb _ _); [|discriminate H].
  exists f, root. split; [reflexivity|]. split; [congruence|].
  eapply judge_fs_sound; [congruence | exact H].
Qed.

(* ------------------------------------------------------------------ *)
(* the domain of the substitution, and what a fence delimiter is        *)
(* ------------------------------------------------------------------ *)
Theorem good_iff : forall f p,
  good f p <-> ((forall q, reach f p q -> ~ on_cycle f q) /\
                (lookup f p <> None /\ forall q raw, reach f p q -> ~ dangling f q raw)).
Proof.
  intros f p. split.
  - intros Hg. split; [|split].
    + intros q Hre. apply good_no_cycle. eapply good_reach; eauto.
    + inversion Hg; congruence.
    + intros q raw Hre. apply good_no_dangling. eapply good_reach; eauto.
  - intros [Hac Hpres]. destruct (expand_acyclic f p Hac Hpres) as [t [E _]].
    now apply expand_ok_subst in E.
Qed.

Theorem subst_defined_iff : forall f p, (exists t, subst_file f p t) <-> good f p.
Proof.
  intros f p. split.
  - intros [t H]. eapply subst_file_good; eauto.
  - intros Hg. destruct (expand_good f p Hg) as [t [_ H]]. eauto.
Qed.

Lemma strip_spaces_spec : forall n s k t, strip_spaces n s = (k, t) ->
  k <= n /\ s = repeat c_sp k ++ t /\ (k < n -> match t with c :: _ => c <> c_sp | [] => True end).
Proof.
  induction n as [|n IH]; intros s k t H; cbn in H.
  - inversion H; subst. split; [lia|]. split; [reflexivity|]. intros Hlt. lia.
  - destruct s as [|c r].
    { inversion H; subst. split; [lia|]. split; [reflexivity|]. intros _. exact I. }
    destruct (Ascii.eqb c c_sp) eqn:E.
    + apply Ascii.eqb_eq in E. subst c. destruct (strip_spaces n r) as [k' t'] eqn:E'. inversion H; subst.
      destruct (IH _ _ _ E') as [H1 [H2 H3]]. split; [lia|]. split.
      * cbn. now rewrite H2 at 1.
      * intros Hlt. apply H3. lia.
    + inversion H; subst. split; [lia|]. split; [reflexivity|]. intros _ ->. now rewrite Ascii.eqb_refl in E.
Qed.

Lemma run_of_spec : forall m s k t, run_of m s = (k, t) ->
  s = repeat m k ++ t /\ match t with c :: _ => c <> m | [] => True end.
Proof.
  intros m. induction s as [|c r IH]; intros k t H; cbn in H.
  - inversion H; subst. now split.
  - destruct (Ascii.eqb c m) eqn:E.
    + apply Ascii.eqb_eq in E. subst c. destruct (run_of m r) as [k' t'] eqn:E'. inversion H; subst.
      destruct (IH _ _ eq_refl) as [H1 H2]. split; [cbn; now rewrite H1 at 1 | exact H2].
    + inversion H; subst. split; [reflexivity|]. intros ->. now rewrite Ascii.eqb_refl in E.
Qed.

(* a fence delimiter line: at most 3 spaces, then a maximal run of at least 3 backticks or of at least 3 tildes *)
Theorem code_fence_delimiter_sound : forall l m n after,
  code_fence_delimiter l = Some (m, n, after) ->
  exists k, k <= 3 /\ l = repeat c_sp k ++ repeat m n ++ after /\ (m = c_tick \/ m = c_tilde) /\ 3 <= n /\
            match after with c :: _ => c <> m | [] => True end.
Proof.
  intros l m n after H. unfold code_fence_delimiter in H.
  destruct (strip_spaces 4 l) as [i rest] eqn:Es. destruct (Nat.ltb 3 i) eqn:Ei; [discriminate|].
  apply Nat.ltb_ge in Ei. destruct rest as [|c rest']; [discriminate|].
  destruct (orb (Ascii.eqb c c_tick) (Ascii.eqb c c_tilde)) eqn:Em; [|discriminate].
  destruct (run_of c (c :: rest')) as [count aft] eqn:Er. destruct (Nat.ltb count 3) eqn:Ec; [discriminate|].
  apply Nat.ltb_ge in Ec. inversion H; subst.
  destruct (strip_spaces_spec _ _ _ _ Es) as [_ [Hl _]]. destruct (run_of_spec _ _ _ _ Er) as [Hr Ha].
  exists i. repeat split; try lia; [now rewrite Hl, Hr | | exact Ha].
  apply orb_prop in Em as [Em|Em]; apply Ascii.eqb_eq in Em; auto.
Qed.

Lemma strip_spaces_repeat : forall b j t, j < b -> match t with c :: _ => c <> c_sp | [] => True end ->
  strip_spaces b (repeat c_sp j ++ t) = (j, t).
Proof.
  induction b as [|b IH]; intros j t Hj Ht; [lia|]. destruct j as [|j]; cbn.
  - destruct t as [|c r]; [reflexivity|]. cbn. destruct (Ascii.eqb c c_sp) eqn:E; [apply Ascii.eqb_eq in E; congruence | reflexivity].
  - try rewrite Ascii.eqb_refl. rewrite IH by (auto; lia). reflexivity.
Qed.

Lemma run_of_repeat : forall m j t, match t with c :: _ => c <> m | [] => True end -> run_of m (repeat m j ++ t) = (j, t).
Proof.
  intros m j t Ht. induction j as [|j IH]; cbn.
  - destruct t as [|c r]; [reflexivity|]. cbn. destruct (Ascii.eqb c m) eqn:E; [apply Ascii.eqb_eq in E; congruence | reflexivity].
  - rewrite Ascii.eqb_refl. now rewrite IH.
Qed.

Theorem code_fence_delimiter_complete : forall k m n after,
  k <= 3 -> (m = c_tick \/ m = c_tilde) -> 3 <= n -> match after with c :: _ => c <> m | [] => True end ->
  code_fence_delimiter (repeat c_sp k ++ repeat m n ++ after) = Some (m, n, after).
Proof.
  intros k m n after Hk Hm Hn Ha.
  assert (Hms : m <> c_sp) by (destruct Hm as [-> | ->]; discriminate).
  destruct n as [|n']; [lia|]. unfold code_fence_delimiter.
  rewrite strip_spaces_repeat; [|lia|cbn; exact Hms].
  replace (Nat.ltb 3 k) with false by (symmetry; apply Nat.ltb_ge; lia).
  cbn [repeat app]. replace (orb (Ascii.eqb m c_tick) (Ascii.eqb m c_tilde)) with true
    by (destruct Hm as [-> | ->]; reflexivity).
  change (m :: repeat m n' ++ after) with (repeat m (S n') ++ after).
  rewrite run_of_repeat by exact Ha.
  replace (Nat.ltb (S n') 3) with false by (symmetry; apply Nat.ltb_ge; lia). reflexivity.
Qed.
