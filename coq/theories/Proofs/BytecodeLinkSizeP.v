(* C06 — the size side condition [size_ok] of the link theorems, discharged by ONE bound: the payload length the
   compiler computes (file_len_before_trailer = dict_off + dict_len: header + every section) is below 2^32,
   i.e. the emitted file is shorter than 4 GiB.  Then every count fits a u32 and every offset / length a u64. *)
From Coq Require Import List NArith ZArith Arith Bool Lia.
From MechV Require Import Model.Crc32 Model.Loader Model.Container Model.ConstCodec Model.BytecodeLink
  Proofs.LoaderP Proofs.ContainerP Proofs.BytecodeLinkP.
Import ListNotations.
Local Open Scope N_scope.

Lemma instrs_len_ge is : N.of_nat (length is) <= sumN (map instr_byte_len is).
Proof.
  induction is as [|i r IH]; [cbn; lia|]. cbn [length map sumN fold_right]. fold (sumN (map instr_byte_len r)).
  assert (1 <= instr_byte_len i) by (destruct i; cbn [instr_byte_len]; lia). lia.
Qed.

Lemma types_len_ge (ts : list tentry) :
  N.of_nat (length ts) <= sumN (map (fun t : tentry => 12 + N.of_nat (length (snd t))) ts).
Proof.
  induction ts as [|t r IH]; [cbn; lia|]. cbn [length map sumN fold_right].
  fold (sumN (map (fun t : tentry => 12 + N.of_nat (length (snd t))) r)). lia.
Qed.

Lemma lower_go_cells_le P : forall st stF is, lower_go st P = (stF, is) ->
  (length (ls_cells stF) <= length (ls_cells st) + length is)%nat.
Proof.
  induction P as [|i r IH]; intros st stF is E; cbn [lower_go] in E.
  - injection E as <- <-. cbn [length]. lia.
  - destruct (lstep st i) as [st1 ci] eqn:E1. destruct (lower_go st1 r) as [st2 cis] eqn:E2. injection E as <- <-.
    pose proof (IH _ _ _ E2) as H. cbn [length].
    assert (length (ls_cells st1) <= S (length (ls_cells st)))%nat.
    { destruct i as [c v|f var d args]; cbn [lstep] in E1.
      - destruct (intern Nat.eqb c (ls_cells st)) as [r0 cells1] eqn:Ei. destruct (intern_kind v (ls_types st)) as [tid ts1].
        injection E1 as <- <-. cbn [ls_cells]. unfold intern in Ei. destruct (find_idx Nat.eqb c (ls_cells st)); injection Ei as <- <-;
          [lia|rewrite app_length; cbn [length]; lia].
      - injection E1 as <- <-. lia. }
    lia.
Qed.

Theorem small_file_size_ok e P : wf_lenv e = true -> payload_len e P < 2 ^ 32 -> size_ok e P = true.
Proof.
  intros We Hs. unfold wf_lenv in We. apply andb_prop in We as [_ Wm]. apply N.ltb_lt in Wm.
  unfold size_ok, payload_len in *. rewrite lower_eq in *. destruct (lower_go ls0 P) as [st is] eqn:E. cbn [fst snd] in *.
  pose proof (lower_go_cells_le P ls0 st is E) as Hc. cbn [ls0 ls_cells length] in Hc.
  unfold relayout in *. cbn [p_header] in *. unfold layout_header in *. cbv zeta in *.
  cbn [hfield nth raw p_header p_features p_types p_consts p_blob p_symbols p_instrs p_dict] in *.
  unfold feat_len, types_len, tbl_len, blob_len, syms_len, instrs_len, dict_len in *.
  cbn [raw p_features p_types p_consts p_blob p_symbols p_instrs p_dict length map] in *.
  change (sumN []) with 0 in *.
  pose proof (instrs_len_ge is) as Hi. pose proof (types_len_ge (ls_types st)) as Ht.
  set (IL := sumN (map instr_byte_len is)) in *.
  set (TL := sumN (map (fun t : tentry => 12 + N.of_nat (length (snd t))) (ls_types st))) in *.
  change (N.of_nat HEADER_SIZE) with 129 in *.
  assert (HM : MAGIC < 2 ^ 32) by (vm_compute; reflexivity).
  assert (P32 : 2 ^ 32 < 2 ^ 64) by (vm_compute; reflexivity).
  cbn [wf_fields header_widths].
  change (2 ^ (8 * N.of_nat 4)) with (2 ^ 32). change (2 ^ (8 * N.of_nat 8)) with (2 ^ 64).
  change (2 ^ (8 * N.of_nat 1)) with 256. change (2 ^ (8 * N.of_nat 2)) with 65536.
  change (2 ^ 16) with 65536 in Wm.
  repeat match goal with |- context [?a <? ?b] =>
    replace (a <? b) with true by (symmetry; apply N.ltb_lt; lia) end.
  reflexivity.
Qed.
