(* C06 — compiled bytecode recomputes every step from the final operand values; for a pure plan
   that reproduces the interpreter's values (Model/Bytecode.v, Model/Plan.v). *)
From Coq Require Import List Arith Bool Lia.
From MechV Require Import Model.Plan Model.Bytecode Proofs.PlanP.
Import ListNotations.

Section BytecodeP.
  Context {V : Type}.
  Notation pstep := (@pstep V).
  Variable final : @store V.

  Definition good (rs : @regs V) (c : nat) : Prop := rs c = final c.

  Lemma run_app (a b : list (@binstr V)) rs : run (a ++ b) rs = run b (run a rs).
  Proof. unfold run. apply fold_left_app. Qed.

  (* const loads of final values only make registers good *)
  Lemma run_loads_good (l : list nat) : forall rs c,
    (good rs c \/ In c l) -> good (run (map (fun a => CL a (final a)) l) rs) c.
  Proof.
    induction l as [|a l IH]; intros rs c H; cbn [map run fold_left].
    - destruct H as [H|[]]. exact H.
    - fold (run (map (fun a => CL a (final a)) l) (exec rs (CL a (final a)))). apply IH.
      unfold good, exec, upd. destruct (Nat.eqb c a) eqn:E.
      + left. apply Nat.eqb_eq in E. subst. reflexivity.
      + destruct H as [H|[H|H]]; [left; exact H | subst; rewrite Nat.eqb_refl in E; discriminate | right; exact H].
  Qed.

  (* one compiled step: good registers stay good, and the step's output becomes good,
     provided the step's function maps the final operand values to the final output value *)
  Lemma compile_step_good (st : pstep) rs :
    s_fn st (map final (s_args st)) = final (s_out st) ->
    (forall c, good rs c -> good (run (compile_step final st) rs) c) /\
    good (run (compile_step final st) rs) (s_out st).
  Proof.
    intros Hf. unfold compile_step.
    change (CL (s_out st) (final (s_out st)) :: map (fun a => CL a (final a)) (s_args st) ++ [OP (s_fn st) (s_out st) (s_args st)])
      with (map (fun a => CL a (final a)) (s_out st :: s_args st) ++ [OP (s_fn st) (s_out st) (s_args st)]).
    rewrite run_app. set (rs1 := run (map (fun a => CL a (final a)) (s_out st :: s_args st)) rs).
    assert (G1 : forall c, good rs c \/ In c (s_out st :: s_args st) -> good rs1 c) by (intros c; apply run_loads_good).
    assert (Hargs : map rs1 (s_args st) = map final (s_args st)).
    { apply map_ext_in. intros a Ha. apply G1. right. right. exact Ha. }
    cbn [run fold_left exec]. split.
    - intros c Hc. unfold good, upd. destruct (Nat.eqb c (s_out st)) eqn:E.
      + apply Nat.eqb_eq in E. subst c. rewrite Hargs. exact Hf.
      + apply G1. left. exact Hc.
    - unfold good, upd. rewrite Nat.eqb_refl, Hargs. exact Hf.
  Qed.

  Lemma compile_good (p : list pstep) : forall rs,
    (forall st, In st p -> s_fn st (map final (s_args st)) = final (s_out st)) ->
    (forall c, good rs c -> good (run (compile p final) rs) c) /\
    (forall st, In st p -> good (run (compile p final) rs) (s_out st)).
  Proof.
    induction p as [|st p IH]; intros rs H.
    - split; [intros c Hc; exact Hc | intros st []].
    - unfold compile. cbn [flat_map]. fold (compile p final). rewrite run_app.
      destruct (compile_step_good st rs (H st (or_introl eq_refl))) as [K1 K2].
      destruct (IH (run (compile_step final st) rs) (fun st' Hin => H st' (or_intror Hin))) as [J1 J2].
      split.
      + intros c Hc. apply J1, K1, Hc.
      + intros st' [<-|Hin]; [apply J1, K2 | apply J2, Hin].
  Qed.
End BytecodeP.

(* Main theorem: for a pure plan, running the compiled program from ANY initial register file leaves in
   the register of every step's output cell exactly the value the interpreter computed for that cell. *)
Theorem compile_run_correct {V} (p : list (@pstep V)) (s0 : @store V) :
  plan_pure p ->
  forall rs st, In st p -> run (compile p (resolve p s0)) rs (s_out st) = resolve p s0 (s_out st).
Proof.
  intros Hp rs st Hin.
  apply (compile_good (resolve p s0) p rs); [|exact Hin].
  intros st' Hin'. apply step_value_final; assumption.
Qed.

(* What the compiled program computes in general: each step's function of the FINAL operand values.
   This is the statement that predicts the defect for plans with assignments. *)
Theorem compile_last_step {V} (pre : list (@pstep V)) (st : @pstep V) (final : @store V) rs :
  run (compile (pre ++ [st]) final) rs (s_out st) = s_fn st (map final (s_args st)).
Proof.
  unfold compile. rewrite flat_map_app. cbn [flat_map]. rewrite app_nil_r, run_app.
  set (rs0 := run (flat_map (compile_step final) pre) rs).
  unfold compile_step.
  change (CL (s_out st) (final (s_out st)) :: map (fun a => CL a (final a)) (s_args st) ++ [OP (s_fn st) (s_out st) (s_args st)])
    with (map (fun a => CL a (final a)) (s_out st :: s_args st) ++ [OP (s_fn st) (s_out st) (s_args st)]).
  rewrite run_app. cbn [run fold_left exec]. unfold upd. rewrite Nat.eqb_refl. f_equal.
  apply map_ext_in. intros a Ha.
  apply (run_loads_good final (s_out st :: s_args st) rs0 a). right. right. exact Ha.
Qed.

(* The faithful model violates the property as soon as a cell is assigned after it was read:
   y := x[..] (here: y := x) ; x = 9.  Interpreter: y = 2.  Bytecode: y = 9. *)
Theorem C06_refuted_stale_read :
  exists (p : list (@pstep nat)) (s0 : @store nat) (st : @pstep nat),
    In st p /\ run (compile p (resolve p s0)) (fun _ => 0) (s_out st) <> resolve p s0 (s_out st).
Proof.
  set (rd := {| s_out := 1; s_args := [0]; s_fn := fun l => hd 0 l |}).
  set (wr := {| s_out := 0; s_args := []; s_fn := fun _ => 9 |}).
  exists [rd; wr], (fun c => if Nat.eqb c 0 then 2 else 0), rd.
  split; [left; reflexivity|]. vm_compute. discriminate.
Qed.
