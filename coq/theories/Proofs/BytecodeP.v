(* C06 — what the compiled bytecode computes (Model/Bytecode.v, Model/Plan.v):
   running = constant snapshot + rebuilt plan; re-evaluating the loaded program = resolve of that plan. *)
From Coq Require Import List Arith Bool Lia.
From MechV Require Import Model.Plan Model.Bytecode Proofs.PlanP.
Import ListNotations.

Section BytecodeP.
  Context {V : Type}.
  Notation pstep := (@pstep V).
  Variable final : @store V.

  (* a register is good if it holds the final value of its cell *)
  Definition good (rs : @regs V) (c : nat) : Prop := rs c = final c.

  Lemma run_app (a b : list (@binstr V)) st : fold_left exec (a ++ b) st = fold_left exec b (fold_left exec a st).
  Proof. apply fold_left_app. Qed.

  Lemma loads_effect (l : list nat) : forall st,
    snd (fold_left exec (map (fun a => CL a (final a)) l) st) = snd st /\
    (forall c, good (fst st) c \/ In c l -> good (fst (fold_left exec (map (fun a => CL a (final a)) l) st)) c).
  Proof.
    induction l as [|a l IH]; intros st; cbn [map fold_left].
    - split; [reflexivity|]. intros c [H|[]]. exact H.
    - destruct (IH (exec st (CL a (final a)))) as [P G]. split; [rewrite P; reflexivity|].
      intros c H. apply G. cbn [exec fst]. unfold good, upd. destruct (Nat.eqb c a) eqn:E.
      + left. apply Nat.eqb_eq in E. subst. reflexivity.
      + destruct H as [H|[H|H]]; [left; exact H | subst; rewrite Nat.eqb_refl in E; discriminate | right; exact H].
  Qed.

  (* one compiled step: appends exactly that step to the plan, keeps good registers good and makes
     the step's output and operand registers good — whatever the step's function is *)
  Lemma compile_step_effect (s : pstep) st :
    let st' := fold_left exec (compile_step final s) st in
    snd st' = snd st ++ [s] /\
    (forall c, good (fst st) c -> good (fst st') c) /\
    (forall c, In c (s_out s :: s_args s) -> good (fst st') c).
  Proof.
    unfold compile_step.
    change (CL (s_out s) (final (s_out s)) :: map (fun a => CL a (final a)) (s_args s) ++ [OP (s_fn s) (s_out s) (s_args s)])
      with (map (fun a => CL a (final a)) (s_out s :: s_args s) ++ [OP (s_fn s) (s_out s) (s_args s)]).
    rewrite run_app. destruct (loads_effect (s_out s :: s_args s) st) as [P G].
    cbn [fold_left exec fst snd]. rewrite P. split; [destruct s; reflexivity|]. split.
    - intros c Hc. apply G. left. exact Hc.
    - intros c Hc. apply G. right. exact Hc.
  Qed.

  Lemma compile_effect (p : list pstep) : forall st,
    let st' := fold_left exec (compile p final) st in
    snd st' = snd st ++ p /\
    (forall c, good (fst st) c -> good (fst st') c) /\
    (forall c, In c (cells p) -> good (fst st') c).
  Proof.
    induction p as [|s p IH]; intros st.
    - cbn. rewrite app_nil_r. repeat split; auto. intros c [].
    - unfold compile. cbn [flat_map]. fold (compile p final). rewrite run_app.
      destruct (compile_step_effect s st) as (P1 & K1 & O1).
      destruct (IH (fold_left exec (compile_step final s) st)) as (P2 & K2 & O2).
      cbv zeta. split; [rewrite P2, P1, <- app_assoc; reflexivity|]. split.
      + intros c Hc. apply K2, K1, Hc.
      + intros c Hc. unfold cells in Hc. cbn [flat_map] in Hc. apply in_app_or in Hc as [Hc|Hc].
        * apply K2, O1, Hc.
        * apply O2, Hc.
  Qed.
End BytecodeP.

(* 1. Running the compiled program, from ANY register file and for ANY plan, leaves in every register the
      program touches the value its cell held after interpretation: the run's result is a snapshot. *)
Theorem run_is_snapshot {V} (p : list (@pstep V)) (final : @store V) rs :
  forall c, In c (cells p) -> fst (run (compile p final) rs) c = final c.
Proof. intros c Hc. apply (compile_effect final p (rs, [])). exact Hc. Qed.

(* 2. ... and rebuilds exactly the interpreter's plan (same functions over the same cells, same order). *)
Theorem run_rebuilds_plan {V} (p : list (@pstep V)) (final : @store V) rs :
  snd (run (compile p final) rs) = p.
Proof. apply (compile_effect final p (rs, [])). Qed.

(* resolve only looks at the cells of the plan *)
Lemma resolve_ext_cells {V} (p : list (@pstep V)) : forall (s t : @store V) (extra : list nat),
  (forall c, In c (cells p ++ extra) -> s c = t c) ->
  forall c, In c (cells p ++ extra) -> resolve p s c = resolve p t c.
Proof.
  induction p as [|st p IH]; intros s t extra H c Hc; [apply H; exact Hc|].
  cbn [resolve fold_left]. fold (resolve p (solve s st)). fold (resolve p (solve t st)).
  unfold cells in *. cbn [flat_map] in *.
  apply (IH (solve s st) (solve t st) (extra ++ s_out st :: s_args st)).
  - intros c' Hc'. unfold solve, upd. destruct (Nat.eqb c' (s_out st)); [|apply H].
    + f_equal. apply map_ext_in. intros a Ha. apply H. apply in_or_app. left. right. apply in_or_app. left. exact Ha.
    + apply in_app_or in Hc' as [Hc'|Hc'].
      * apply in_or_app. left. right. apply in_or_app. right. exact Hc'.
      * apply in_app_or in Hc' as [Hc'|Hc'].
        -- apply in_or_app. right. exact Hc'.
        -- apply in_or_app. left. destruct Hc' as [<-|Hc']; [left; reflexivity|right; apply in_or_app; left; exact Hc'].
  - apply in_app_or in Hc as [Hc|Hc].
    + destruct Hc as [<-|Hc]; [apply in_or_app; right; apply in_or_app; right; left; reflexivity|].
      apply in_app_or in Hc as [Hc|Hc].
      * apply in_or_app. right. apply in_or_app. right. right. exact Hc.
      * apply in_or_app. left. exact Hc.
    + apply in_or_app. right. apply in_or_app. left. exact Hc.
Qed.

Lemma In_out_cells {V} (p : list (@pstep V)) st : In st p -> In (s_out st) (cells p).
Proof. intros H. unfold cells. apply in_flat_map. exists st. split; [exact H|left; reflexivity]. Qed.

(* 3. Re-evaluating the loaded program (step after load) of a PURE plan reproduces the interpreter's value
      of every step's output, from any initial register file. *)
Theorem restep_correct {V} (p : list (@pstep V)) (s0 : @store V) :
  plan_pure p ->
  forall rs st, In st p -> restep (compile p (resolve p s0)) rs (s_out st) = resolve p s0 (s_out st).
Proof.
  intros Hp rs st Hin. unfold restep.
  destruct (run (compile p (resolve p s0)) rs) as [rs' plan] eqn:E.
  assert (Epl : plan = p) by (pose proof (run_rebuilds_plan p (resolve p s0) rs) as R; rewrite E in R; exact R).
  subst plan.
  assert (Hrs : forall c, In c (cells p ++ []) -> rs' c = resolve p s0 c).
  { intros c Hc. rewrite app_nil_r in Hc. pose proof (run_is_snapshot p (resolve p s0) rs c Hc) as R. rewrite E in R. exact R. }
  rewrite (resolve_ext_cells p rs' (resolve p s0) [] Hrs) by (rewrite app_nil_r; apply In_out_cells; exact Hin).
  destruct Hp as [Hnd Hre]. apply resolve_idempotent; assumption.
Qed.

(* 4. For a plan with a cell assigned after it was read, re-evaluating the loaded program does NOT reproduce
      the interpreter's values (the run itself still does, by run_is_snapshot):  y := x ; x = 9. *)
Theorem restep_refuted_stale_read :
  exists (p : list (@pstep nat)) (s0 : @store nat) (st : @pstep nat),
    In st p /\ restep (compile p (resolve p s0)) (fun _ => 0) (s_out st) <> resolve p s0 (s_out st).
Proof.
  set (rd := {| s_out := 1; s_args := [0]; s_fn := fun l => hd 0 l |}).
  set (wr := {| s_out := 0; s_args := []; s_fn := fun _ => 9 |}).
  exists [rd; wr], (fun c => if Nat.eqb c 0 then 2 else 0), rd.
  split; [left; reflexivity|]. vm_compute. discriminate.
Qed.
