(* C09 — proofs about the recovery skeleton and the range bookkeeping (Model/ParseLoop.v). *)
From Coq Require Import List Arith ZArith String Ascii Bool Lia.
From MechV Require Import Base.Sexp Base.Obs Model.ParseLoop.
Import ListNotations.
Open Scope list_scope.

(* ====================================================================== *)
(* (A) cursor -> (row, col)                                                *)
(* ====================================================================== *)

Definition ends_nl (gs : list gk) : Prop := exists pre, gs = pre ++ [GNl].

Lemma init_source_ends_nl : forall body, ends_nl (init_source body).
Proof. intros body. exists body. reflexivity. Qed.

Lemma ends_nl_cons : forall g r, ends_nl (g :: r) -> (g = GNl /\ r = []) \/ ends_nl r.
Proof.
  intros g r [pre Hpre]. destruct pre as [|p pre'].
  - left. cbn in Hpre. inversion Hpre. auto.
  - right. cbn in Hpre. inversion Hpre. exists pre'. reflexivity.
Qed.

Lemma ends_nl_not_nil : ~ ends_nl [].
Proof. intros [pre Hpre]. destruct pre; discriminate. Qed.

Lemma first_width_ge : forall gs w, ends_nl gs ->
  exists x rest, line_widths_from w gs = x :: rest /\ w <= x.
Proof.
  induction gs as [|g r IH]; intros w Hnl.
  - exfalso. apply ends_nl_not_nil. exact Hnl.
  - destruct g as [|y].
    + exists w, (line_widths_from 0 r). split; [reflexivity|lia].
    + destruct (ends_nl_cons _ _ Hnl) as [[Hg _]|Hr]; [discriminate|].
      destruct (IH (w + y) Hr) as [x [rest [Hx Hle]]].
      exists x, rest. cbn [line_widths_from]. split; [exact Hx|lia].
Qed.

Lemma loc_from_nil : forall l c, loc_from l [] c = l.
Proof. intros l c. destruct c; reflexivity. Qed.

Lemma loc_from_zero : forall l gs, loc_from l gs 0 = l.
Proof. intros l gs. destruct gs; reflexivity. Qed.

(* generalised invariant: at location (r0, w0 + 1) with w0 the width already consumed on the current line *)
Lemma loc_from_bounds : forall gs r0 w0 c, ends_nl gs ->
  let ws := line_widths_from w0 gs in
  let l := loc_from (r0, S w0) gs c in
  r0 <= fst l /\ fst l < r0 + List.length ws /\ 1 <= snd l /\ snd l <= nth (fst l - r0) ws 0 + 1.
Proof.
  induction gs as [|g r IH]; intros r0 w0 c Hnl; cbv zeta.
  - exfalso. apply ends_nl_not_nil. exact Hnl.
  - destruct c as [|c'].
    + cbn [loc_from fst snd].
      destruct (first_width_ge (g :: r) w0 Hnl) as [x [rest [Hx Hle]]].
      rewrite Hx. cbn [List.length]. replace (r0 - r0) with 0 by lia. cbn [nth]. lia.
    + cbn [loc_from].
      destruct g as [|y].
      * (* line terminator *)
        destruct r as [|g2 r2].
        -- cbn [is_nil advance]. rewrite loc_from_nil. cbn [fst snd line_widths_from List.length].
           replace (r0 - r0) with 0 by lia. cbn [nth]. lia.
        -- cbn [is_nil advance fst snd].
           destruct (ends_nl_cons _ _ Hnl) as [[_ Hr]|Hr]; [discriminate|].
           specialize (IH (S r0) 0 c' Hr). cbv zeta in IH.
           remember (g2 :: r2) as tl eqn:Htl.
           change (line_widths_from w0 (GNl :: tl)) with (w0 :: line_widths_from 0 tl).
           cbn [List.length].
           destruct IH as [H1 [H2 [H3 H4]]].
           remember (loc_from (S r0, 1) tl c') as l eqn:Hl.
           remember (line_widths_from 0 tl) as ws eqn:Hws.
           replace (fst l - r0) with (S (fst l - S r0)) by lia.
           cbn [nth]. lia.
      * destruct (ends_nl_cons _ _ Hnl) as [[Hg _]|Hr]; [discriminate|].
        cbn [advance fst snd line_widths_from].
        replace (S w0 + y) with (S (w0 + y)) by lia.
        exact (IH r0 (w0 + y) c' Hr).
Qed.

Lemma loc_of_bounds : forall gs c, ends_nl gs ->
  let ws := line_widths gs in
  let l := loc_of gs c in
  1 <= fst l /\ fst l <= List.length ws /\ 1 <= snd l /\ snd l <= nth (fst l - 1) ws 0 + 1.
Proof.
  intros gs c Hnl. cbv zeta. unfold loc_of, line_widths.
  pose proof (loc_from_bounds gs 1 0 c Hnl) as H. cbv zeta in H. lia.
Qed.

(* locations only move forward *)
Definition lex_le (a b : loc) : Prop := fst a < fst b \/ (fst a = fst b /\ snd a <= snd b).

Lemma lex_le_refl : forall a, lex_le a a.
Proof. intros a. right. split; lia. Qed.

Lemma lex_le_trans : forall a b c, lex_le a b -> lex_le b c -> lex_le a c.
Proof. unfold lex_le. intros a b c Hab Hbc. lia. Qed.

Lemma advance_ge : forall l g last, lex_le l (advance l g last).
Proof.
  intros [r c] g last. destruct g as [|w]; cbn [advance fst snd].
  - destruct last; [apply lex_le_refl|]. left. cbn. lia.
  - right. cbn. lia.
Qed.

Lemma loc_from_ge : forall gs l c, lex_le l (loc_from l gs c).
Proof.
  induction gs as [|g r IH]; intros l c.
  - rewrite loc_from_nil. apply lex_le_refl.
  - destruct c as [|c']; [apply lex_le_refl|].
    cbn [loc_from]. eapply lex_le_trans; [apply advance_ge|apply IH].
Qed.

Lemma loc_from_split : forall c1 gs l c2, c1 <= c2 ->
  loc_from l gs c2 = loc_from (loc_from l gs c1) (skipn c1 gs) (c2 - c1).
Proof.
  induction c1 as [|c1 IH]; intros gs l c2 Hle.
  - rewrite loc_from_zero. cbn [skipn]. f_equal. lia.
  - destruct gs as [|g r].
    + cbn [skipn]. rewrite !loc_from_nil. reflexivity.
    + destruct c2 as [|c2']; [lia|].
      cbn [loc_from skipn]. replace (S c2' - S c1) with (c2' - c1) by lia.
      apply IH. lia.
Qed.

Lemma loc_of_mono : forall gs c1 c2, c1 <= c2 -> lex_le (loc_of gs c1) (loc_of gs c2).
Proof.
  intros gs c1 c2 Hle. unfold loc_of.
  rewrite (loc_from_split c1 gs (1, 1) c2 Hle). apply loc_from_ge.
Qed.

(* the Prop behind range_withinb *)
Definition range_within (ws : list Z) (r : srange) : Prop :=
  (1 <= sr_r1 r /\ sr_r1 r <= sr_r2 r /\ sr_r2 r <= Z.of_nat (List.length ws) /\
   1 <= sr_c1 r /\ sr_c1 r <= nthZ ws (sr_r1 r) + 1 /\
   1 <= sr_c2 r /\ sr_c2 r <= nthZ ws (sr_r2 r) + 2 /\
   (sr_r1 r < sr_r2 r \/ sr_c1 r <= sr_c2 r))%Z.

Lemma range_withinb_spec : forall ws r, range_withinb ws r = true <-> range_within ws r.
Proof.
  intros ws r. unfold range_withinb, range_within.
  rewrite !andb_true_iff, orb_true_iff, !Z.leb_le, Z.ltb_lt. tauto.
Qed.

Lemma nthZ_of_nat : forall ws r, 1 <= r -> nthZ (map Z.of_nat ws) (Z.of_nat r) = Z.of_nat (nth (r - 1) ws 0).
Proof.
  intros ws r Hr. unfold nthZ.
  replace (Z.to_nat (Z.of_nat r - 1)) with (r - 1) by lia.
  change 0%Z with (Z.of_nat 0). apply map_nth.
Qed.

(* ranges_in_bounds: a range built from two cursors a <= b of a newline-terminated source lies inside the
   line table of that source (whatever the cursors: loc_from saturates at the end), with or without the
   one-column bump of ParseError::new, and the formatter's `- 1` subtractions cannot underflow. *)
Theorem ranges_in_bounds : forall gs a b bump, ends_nl gs -> a <= b ->
  range_within (map Z.of_nat (line_widths gs)) (to_srange gs (CR a b bump)) /\
  fmt_safeb (to_srange gs (CR a b bump)) = true.
Proof.
  intros gs a b bump Hnl Hab.
  pose proof (loc_of_bounds gs a Hnl) as Ha. pose proof (loc_of_bounds gs b Hnl) as Hb.
  pose proof (loc_of_mono gs a b Hab) as Hm. cbv zeta in Ha, Hb. unfold lex_le in Hm.
  unfold to_srange.
  remember (loc_of gs a) as la eqn:Hla. remember (loc_of gs b) as lb eqn:Hlb.
  destruct la as [r1 c1]. destruct lb as [r2 c2]. cbn [fst snd] in *.
  split.
  - unfold range_within. cbn [sr_r1 sr_c1 sr_r2 sr_c2].
    rewrite map_length.
    rewrite (nthZ_of_nat (line_widths gs) r1) by lia.
    rewrite (nthZ_of_nat (line_widths gs) r2) by lia.
    destruct bump; lia.
  - unfold fmt_safeb. cbn [sr_r1 sr_c1 sr_r2 sr_c2].
    rewrite !andb_true_iff, !Z.leb_le. destruct bump; lia.
Qed.

Corollary ranges_in_bounds_b : forall gs a b bump, ends_nl gs -> a <= b ->
  range_withinb (map Z.of_nat (line_widths gs)) (to_srange gs (CR a b bump)) = true.
Proof.
  intros gs a b bump Hnl Hab. apply range_withinb_spec. apply ranges_in_bounds; assumption.
Qed.

(* number of lines = number of terminators; the appended "\n" closes the last line *)
Lemma line_widths_from_app_nl : forall pre w,
  List.length (line_widths_from w (pre ++ [GNl])) = S (List.length (filter (fun g => match g with GNl => true | _ => false end) pre)).
Proof.
  induction pre as [|g r IH]; intros w.
  - reflexivity.
  - destruct g as [|y]; cbn [app line_widths_from filter List.length].
    + rewrite IH. reflexivity.
    + apply IH.
Qed.

(* ====================================================================== *)
(* (B) the loops                                                           *)
(* ====================================================================== *)

Section LoopProofs.
  Variable len : nat.
  Variable not_mech : nat -> bool.
  Variable alt : nat -> ares.
  Variable subtitle_at : nat -> bool.
  Variable skip_eos : nat -> option nat.
  Variable term : nat -> tres.
  Variable close_at : nat -> bool.
  Variable ul_subtitle : nat -> option nat.
  Variable mika : nat -> option (nat * list crange).
  Variable sect_elem : nat -> eres.
  Variable blank_lines : nat -> nat.
  Variable ws0 : nat -> nat.
  Variable title : nat -> option (nat * list crange).

  Definition cr_ok (cr : crange) : Prop := match cr with CR a b _ => a <= b /\ b <= len end.

  (* ---- everything that is assumed about the leaf parsers ---- *)
  (* results carry cursors in [i, len]; log entries are ranges between cursors of the source *)
  Hypothesis alt_ok : forall i j lg, i <= len -> alt i = AOk j lg -> i <= j /\ j <= len /\ Forall cr_ok lg.
  Hypothesis alt_unexp : forall i s k lg, i <= len -> alt i = AUnexp s k lg -> s <= k /\ k <= len /\ Forall cr_ok lg.
  Hypothesis alt_err : forall i s k lg, i <= len -> alt i = AErr s k lg -> i <= k /\ s <= k /\ k <= len /\ Forall cr_ok lg.
  Hypothesis alt_fail : forall i s k lg, i <= len -> alt i = AFail s k lg -> i <= k /\ s <= k /\ k <= len /\ Forall cr_ok lg.
  Hypothesis skip_rng : forall k j, k <= len -> skip_eos k = Some j -> k <= j /\ j <= len.
  (* code_terminal := *space-tab, ?comment, (new-line | ";" | eof | peek(mika-close)), *whitespace:
     it consumes nothing only at eof or in front of a mika close *)
  Hypothesis term_ok : forall j j', j <= len -> term j = TOk j' ->
    j <= j' /\ j' <= len /\ (j' = j -> j = len \/ close_at j = true).
  Hypothesis term_err : forall j s k, j <= len -> term j = TErr s k -> s <= k /\ k <= len.
  (* not_mech_code has mika_section_close among its alternatives *)
  Hypothesis close_not_mech : forall i, close_at i = true -> not_mech i = true.
  (* section level *)
  Hypothesis ul_rng : forall i j, i <= len -> ul_subtitle i = Some j -> i < j /\ j <= len.
  Hypothesis mika_rng : forall i j lg, i <= len -> mika i = Some (j, lg) -> i < j /\ j <= len /\ Forall cr_ok lg.
  Hypothesis elem_ok : forall i j lg, i <= len -> sect_elem i = EOk j lg -> i < j /\ j <= len /\ Forall cr_ok lg.
  Hypothesis elem_err : forall i s k lg, i <= len -> sect_elem i = EErr s k lg -> s <= k /\ k <= len /\ Forall cr_ok lg.
  Hypothesis blank_rng : forall j, j <= len -> j <= blank_lines j /\ blank_lines j <= len.
  Hypothesis ws0_rng : forall i, i <= len -> i <= ws0 i /\ ws0 i <= len.
  Hypothesis title_rng : forall i j lg, i <= len -> title i = Some (j, lg) -> i <= j /\ j <= len /\ Forall cr_ok lg.

  Let mstep := mech_step len not_mech alt subtitle_at skip_eos term.
  Let mloop := mech_loop len not_mech alt subtitle_at skip_eos term.
  Let mcode := mech_code len not_mech alt subtitle_at skip_eos term.
  Let sstepf := section_step len not_mech alt subtitle_at skip_eos term close_at ul_subtitle mika sect_elem blank_lines.
  Let sloop := section_loop len not_mech alt subtitle_at skip_eos term close_at ul_subtitle mika sect_elem blank_lines.
  Let sect := section len not_mech alt subtitle_at skip_eos term close_at ul_subtitle mika sect_elem blank_lines.
  Let bstepf := body_step len not_mech alt subtitle_at skip_eos term close_at ul_subtitle mika sect_elem blank_lines.
  Let bloop := body_loop len not_mech alt subtitle_at skip_eos term close_at ul_subtitle mika sect_elem blank_lines.
  Let bodyf := body len not_mech alt subtitle_at skip_eos term close_at ul_subtitle mika sect_elem blank_lines ws0.
  Let programf := program len not_mech alt subtitle_at skip_eos term close_at ul_subtitle mika sect_elem blank_lines ws0 title.
  Let parsef := parse len not_mech alt subtitle_at skip_eos term close_at ul_subtitle mika sect_elem blank_lines ws0 title.

  Definition mres_ok (r : mres) : Prop :=
    match r with
    | MOk j _ lg => j <= len /\ Forall cr_ok lg
    | MErr s k lg => s <= k /\ k <= len /\ Forall cr_ok lg
    end.
  Definition sres_ok (r : sres) : Prop :=
    match r with
    | SOk j lg => j <= len /\ Forall cr_ok lg
    | SErr s k lg => s <= k /\ k <= len /\ Forall cr_ok lg
    end.

  Lemma Forall_snoc : forall (l : list crange) x, Forall cr_ok l -> cr_ok x -> Forall cr_ok (l ++ [x]).
  Proof. intros l x Hl Hx. apply Forall_app. split; [exact Hl|constructor; [exact Hx|constructor]]. Qed.

  Lemma Forall_app2 : forall (l1 l2 : list crange), Forall cr_ok l1 -> Forall cr_ok l2 -> Forall cr_ok (l1 ++ l2).
  Proof. intros l1 l2 H1 H2. apply Forall_app. split; assumption. Qed.

  (* --- the tail of an iteration --- *)
  Lemma after_code_next : forall i j n log0 log j' n' log',
    i <= j -> j <= len -> not_mech i = false ->
    after_code len term i j n log0 log = MNext j' n' log' ->
    i < j' /\ j' < len /\ n' = S n /\ log' = log.
  Proof.
    intros i j n log0 log j' n' log' Hij Hj Hnm H. unfold after_code in H.
    destruct (term j) as [t|s k] eqn:Ht; [|discriminate].
    destruct (Nat.eqb t len) eqn:Hlen; [discriminate|].
    inversion H; subst. apply Nat.eqb_neq in Hlen.
    destruct (term_ok j j' Hj Ht) as [H1 [H2 H3]].
    repeat split; try lia.
    destruct (Nat.eq_dec j' i) as [Heq|Hne]; [|lia].
    exfalso. assert (Hjj : j' = j) by lia. destruct (H3 Hjj) as [Hl|Hc]; [lia|].
    assert (Hc' : close_at i = true) by (replace i with j by lia; exact Hc).
    rewrite (close_not_mech i Hc') in Hnm. discriminate.
  Qed.

  Lemma after_code_ret : forall i j n log0 log r,
    i <= j -> j <= len -> i <= len -> Forall cr_ok log0 -> Forall cr_ok log ->
    after_code len term i j n log0 log = MRet r ->
    mres_ok r /\ forall jj m lg, r = MOk jj m lg -> (jj = i /\ 0 < n) \/ (jj = len).
  Proof.
    intros i j n log0 log r Hij Hj Hi Hl0 Hl H. unfold after_code in H.
    destruct (term j) as [t|s k] eqn:Ht.
    - destruct (Nat.eqb t len) eqn:Hlen; [|discriminate].
      inversion H; subst. apply Nat.eqb_eq in Hlen. subst t. split.
      + cbn. split; [lia|exact Hl].
      + intros jj m lg Heq. inversion Heq; subst. right. reflexivity.
    - inversion H; subst. unfold stop_or. destruct (Nat.ltb 0 n) eqn:Hn.
      + apply Nat.ltb_lt in Hn. split; [cbn; split; [lia|exact Hl0]|].
        intros jj m lg Heq. inversion Heq; subst. left. split; [reflexivity|exact Hn].
      + destruct (term_err j s k Hj Ht) as [H1 H2]. split; [cbn; repeat split; try lia; exact Hl|].
        intros jj m lg Heq. discriminate.
  Qed.

  (* progress_or_stop: an iteration that continues has moved the cursor strictly forward and has not
     reached the end (at the end the loop breaks); one more statement has been pushed. *)
  Theorem progress_or_stop : forall i n log,
    i <= len -> Forall cr_ok log ->
    match mstep i n log with
    | MRet r => mres_ok r /\ forall jj m lg, r = MOk jj m lg -> (jj = i /\ 0 < n) \/ jj = len
    | MNext j n' log' => i < j /\ j < len /\ n' = S n /\ Forall cr_ok log'
    end.
  Proof.
    intros i n log Hi Hl. unfold mstep, mech_step.
    destruct (not_mech i) eqn:Hnm.
    - unfold stop_or. destruct (Nat.ltb 0 n) eqn:Hn.
      + apply Nat.ltb_lt in Hn. split; [cbn; split; [lia|exact Hl]|].
        intros jj m lg Heq. inversion Heq; subst. left. split; [reflexivity|exact Hn].
      + split; [cbn; repeat split; try lia; exact Hl|]. intros jj m lg Heq. discriminate.
    - assert (Hrec : forall k lg, i <= k -> k <= len -> Forall cr_ok lg ->
        match recover_stmt len skip_eos term i k n log (log ++ lg) with
        | MRet r => mres_ok r /\ forall jj m lg', r = MOk jj m lg' -> (jj = i /\ 0 < n) \/ jj = len
        | MNext j n' log' => i < j /\ j < len /\ n' = S n /\ Forall cr_ok log'
        end).
      { intros k lg Hik Hk Hlg. unfold recover_stmt.
        assert (Hlog1 : Forall cr_ok ((log ++ lg) ++ [CR i k true])).
        { apply Forall_snoc; [apply Forall_app2; assumption|cbn; lia]. }
        destruct (skip_eos k) as [j|] eqn:Hs.
        - destruct (skip_rng k j Hk Hs) as [H1 H2].
          destruct (after_code len term i j n log ((log ++ lg) ++ [CR i k true])) as [r|j' n' log'] eqn:Ha.
          + apply (after_code_ret i j n log ((log ++ lg) ++ [CR i k true]) r); try assumption; lia.
          + destruct (after_code_next i j n log _ j' n' log' ltac:(lia) H2 Hnm Ha) as [A [B [C D]]].
            subst log'. repeat split; assumption.
        - split; [cbn; repeat split; try lia; exact Hlog1|]. intros jj m lg' Heq. discriminate. }
      destruct (alt i) as [j lg|s k lg|s k lg|s k lg] eqn:Ha.
      + destruct (alt_ok i j lg Hi Ha) as [H1 [H2 H3]].
        destruct (after_code len term i j n log (log ++ lg)) as [r|j' n' log'] eqn:Hac.
        * apply (after_code_ret i j n log (log ++ lg) r); try assumption. apply Forall_app2; assumption.
        * destruct (after_code_next i j n log _ j' n' log' H1 H2 Hnm Hac) as [A [B [C D]]].
          subst log'. repeat split; try assumption. apply Forall_app2; assumption.
      + destruct (alt_unexp i s k lg Hi Ha) as [H1 [H2 H3]].
        unfold stop_or. destruct (Nat.ltb 0 n) eqn:Hn.
        * apply Nat.ltb_lt in Hn. split; [cbn; split; [lia|exact Hl]|].
          intros jj m lg' Heq. inversion Heq; subst. left. split; [reflexivity|exact Hn].
        * split; [cbn; repeat split; try lia; apply Forall_app2; assumption|]. intros jj m lg' Heq. discriminate.
      + destruct (alt_err i s k lg Hi Ha) as [H1 [H2 [H3 H4]]]. apply Hrec; assumption.
      + destruct (alt_fail i s k lg Hi Ha) as [H1 [H2 [H3 H4]]].
        destruct (subtitle_at i).
        * unfold stop_or. destruct (Nat.ltb 0 n) eqn:Hn.
          -- apply Nat.ltb_lt in Hn. split; [cbn; split; [lia|exact Hl]|].
             intros jj m lg' Heq. inversion Heq; subst. left. split; [reflexivity|exact Hn].
          -- split; [cbn; repeat split; try lia; apply Forall_app2; assumption|]. intros jj m lg' Heq. discriminate.
        * apply Hrec; assumption.
  Qed.

  (* mech_code_terminates: any fuel above len - i is enough; in particular len + 1 *)
  Lemma mech_loop_terminates : forall fuel i n log,
    i <= len -> Forall cr_ok log -> len - i < fuel ->
    exists r, mloop fuel i n log = Some r /\ mres_ok r /\
              forall jj m lg, r = MOk jj m lg -> i <= jj /\ (n = 0 -> i < len -> i < jj).
  Proof.
    induction fuel as [|f IH]; intros i n log Hi Hl Hf; [lia|].
    unfold mloop. cbn [mech_loop]. fold mstep.
    pose proof (progress_or_stop i n log Hi Hl) as Hp.
    destruct (mstep i n log) as [r|j n' log'] eqn:Hs.
    - exists r. destruct Hp as [Hok Hj]. split; [reflexivity|]. split; [exact Hok|].
      intros jj m lg Heq. destruct (Hj jj m lg Heq) as [[A B]|A]; subst; lia.
    - destruct Hp as [A [B [C D]]].
      destruct (IH j n' log' ltac:(lia) D ltac:(lia)) as [r [Hr [Hok Hj]]].
      exists r. fold mloop. split; [exact Hr|]. split; [exact Hok|].
      intros jj m lg Heq. destruct (Hj jj m lg Heq) as [E _]. lia.
  Qed.

  Theorem mech_code_terminates : forall i log,
    i <= len -> Forall cr_ok log ->
    exists r, mcode i log = Some r /\ mres_ok r /\
              forall jj m lg, r = MOk jj m lg -> i <= jj /\ (i < len -> i < jj).
  Proof.
    intros i log Hi Hl. unfold mcode, mech_code. fold mloop.
    destruct (mech_loop_terminates (S len) i 0 log Hi Hl ltac:(lia)) as [r [Hr [Hok Hj]]].
    exists r. split; [exact Hr|]. split; [exact Hok|].
    intros jj m lg Heq. destruct (Hj jj m lg Heq) as [A B]. split; [exact A|]. intros Hlt. apply B; [reflexivity|exact Hlt].
  Qed.

  (* --- section --- *)
  Lemma section_step_facts : forall i log,
    i <= len -> Forall cr_ok log ->
    match sstepf i log with
    | SRet r => sres_ok r /\
                forall j lg, r = SOk j lg -> j = i /\ (i < len -> ul_subtitle i = None -> close_at i = true)
    | SNext j log' => i < j /\ j <= len /\ Forall cr_ok log'
    | SHang => False
    end.
  Proof.
    intros i log Hi Hl. unfold sstepf, section_step.
    destruct (Nat.leb len i) eqn:Hle.
    - apply Nat.leb_le in Hle. split; [cbn; split; [lia|exact Hl]|].
      intros j lg Heq. inversion Heq; subst. split; [reflexivity|]. intros; lia.
    - apply Nat.leb_gt in Hle.
      destruct (ul_subtitle i) as [j0|] eqn:Hul.
      + split; [cbn; split; [lia|exact Hl]|].
        intros j lg Heq. inversion Heq; subst. split; [reflexivity|]. intros _ Hd. discriminate.
      + destruct (close_at i) eqn:Hc.
        * split; [cbn; split; [lia|exact Hl]|].
          intros j lg Heq. inversion Heq; subst. split; [reflexivity|]. intros _ _. reflexivity.
        * destruct (mika i) as [[j lg]|] eqn:Hm.
          -- destruct (mika_rng i j lg Hi Hm) as [A [B C]]. repeat split; try assumption. apply Forall_app2; assumption.
          -- fold mcode.
             destruct (mech_code_terminates i log Hi Hl) as [r [Hr [Hok Hj]]]. rewrite Hr.
             destruct r as [j m lg|s k lg].
             ++ destruct (Hj j m lg eq_refl) as [A B]. cbn in Hok. destruct Hok as [C D].
                repeat split; try assumption. apply B. exact Hle.
             ++ destruct (sect_elem i) as [j lg'|s' k' lg'] eqn:He.
                ** destruct (elem_ok i j lg' Hi He) as [A [B C]].
                   destruct (blank_rng j B) as [D E].
                   repeat split; try lia. apply Forall_app2; assumption.
                ** destruct (elem_err i s' k' lg' Hi He) as [A [B C]].
                   split; [cbn; repeat split; try assumption; apply Forall_app2; assumption|].
                   intros j0 lg0 Heq. discriminate.
  Qed.

  Lemma section_loop_terminates : forall fuel i log,
    i <= len -> Forall cr_ok log -> len - i < fuel ->
    exists r, sloop fuel i log = Some r /\ sres_ok r /\ forall j lg, r = SOk j lg -> i <= j.
  Proof.
    induction fuel as [|f IH]; intros i log Hi Hl Hf; [lia|].
    unfold sloop. cbn [section_loop]. fold sstepf.
    pose proof (section_step_facts i log Hi Hl) as Hp.
    destruct (sstepf i log) as [r|j log'|] eqn:Hs.
    - exists r. destruct Hp as [Hok Hj]. split; [reflexivity|]. split; [exact Hok|].
      intros j lg Heq. destruct (Hj j lg Heq) as [A _]. lia.
    - destruct Hp as [A [B C]].
      destruct (IH j log' B C ltac:(lia)) as [r [Hr [Hok Hj]]].
      exists r. fold sloop. split; [exact Hr|]. split; [exact Hok|].
      intros jj lg Heq. specialize (Hj jj lg Heq). lia.
    - contradiction.
  Qed.

  (* section terminates; it returns Ok without consuming anything only at the end of the input or in
     front of a stray mika close bracket *)
  Theorem section_terminates : forall i log,
    i <= len -> Forall cr_ok log ->
    exists r, sect i log = Some r /\ sres_ok r /\
      forall j lg, r = SOk j lg -> i <= j /\ (i < len -> close_at i = false -> i < j).
  Proof.
    intros i log Hi Hl. unfold sect, section. fold sloop.
    destruct (ul_subtitle i) as [j0|] eqn:Hul.
    - destruct (ul_rng i j0 Hi Hul) as [A B].
      destruct (section_loop_terminates (S len) j0 log B Hl ltac:(lia)) as [r [Hr [Hok Hj]]].
      exists r. split; [exact Hr|]. split; [exact Hok|].
      intros j lg Heq. specialize (Hj j lg Heq). lia.
    - (* unfold the first iteration *)
      unfold sloop. cbn [section_loop]. fold sstepf.
      pose proof (section_step_facts i log Hi Hl) as Hp.
      destruct (sstepf i log) as [r|j log'|] eqn:Hs.
      + exists r. destruct Hp as [Hok Hj]. split; [reflexivity|]. split; [exact Hok|].
        intros j lg Heq. destruct (Hj j lg Heq) as [A B]. split; [lia|].
        intros Hlt Hc. rewrite (B Hlt Hul) in Hc. discriminate.
      + destruct Hp as [A [B C]].
        destruct (section_loop_terminates len j log' B C ltac:(lia)) as [r [Hr [Hok Hj]]].
        exists r. split; [exact Hr|]. split; [exact Hok|].
        intros jj lg Heq. specialize (Hj jj lg Heq). lia.
      + contradiction.
  Qed.

  (* --- body --- *)
  (* body terminates (the progress check of fix d162281 makes every continuing iteration advance) *)
  Lemma body_loop_terminates : forall fuel i log,
    i <= len -> Forall cr_ok log -> len - i < fuel ->
    exists r, bloop fuel i log = Some r /\ sres_ok r /\ forall j lg, r = SOk j lg -> i <= j.
  Proof.
    induction fuel as [|f IH]; intros i log Hi Hl Hf; [lia|].
    unfold bloop. cbn [body_loop]. fold bstepf. unfold bstepf, body_step. fold sect.
    destruct (Nat.leb len i) eqn:Hle.
    - apply Nat.leb_le in Hle. exists (SOk i log). split; [reflexivity|]. split; [cbn; split; [lia|exact Hl]|].
      intros j lg Heq. inversion Heq; subst. lia.
    - apply Nat.leb_gt in Hle.
      destruct (section_terminates i log Hi Hl) as [r [Hr [Hok Hj]]]. rewrite Hr.
      destruct r as [j lg|s k lg].
      + destruct (Hj j lg eq_refl) as [A _].
        cbn in Hok. destruct Hok as [C D].
        destruct (Nat.eqb j i) eqn:Hji.
        * exists (SOk i log). split; [reflexivity|]. split; [cbn; split; [lia|exact Hl]|].
          intros j0 lg0 Heq. inversion Heq; subst. lia.
        * apply Nat.eqb_neq in Hji.
          destruct (IH j lg C D ltac:(lia)) as [r' [Hr' [Hok' Hj']]].
          exists r'. fold bloop. split; [exact Hr'|]. split; [exact Hok'|].
          intros j0 lg0 Heq. specialize (Hj' j0 lg0 Heq). lia.
      + exists (SErr s k lg). split; [reflexivity|]. split; [exact Hok|]. intros j lg' Heq. discriminate.
  Qed.

  (* what the check repairs: WITHOUT it, a stray mika close bracket where a section starts makes `section`
     return Ok without consuming, and the loop never returns, whatever the fuel (the behaviour of the code before
     fix d162281: parser::parse("⸥") did not return). *)
  Theorem unguarded_body_hangs_at_close : forall i log,
    i < len -> close_at i = true -> ul_subtitle i = None ->
    forall fuel, body_loop_unguarded len not_mech alt subtitle_at skip_eos term close_at ul_subtitle mika sect_elem blank_lines fuel i log = None.
  Proof.
    intros i log Hi Hc Hul fuel. induction fuel as [|f IH]; [reflexivity|].
    cbn [body_loop_unguarded]. unfold body_step_unguarded.
    assert (Hle : Nat.leb len i = false) by (apply Nat.leb_gt; exact Hi). rewrite Hle.
    unfold section. rewrite Hul. cbn [section_loop]. unfold section_step. rewrite Hle, Hul, Hc.
    exact IH.
  Qed.

  (* --- parse --- *)
  Lemma finish_facts : forall tree j log,
    j <= len -> Forall cr_ok log -> (tree = false -> log <> []) ->
    match finish len tree j log with
    | PTree f => f = len /\ j = len /\ log = [] /\ tree = true
    | PReport rep => rep <> [] /\ Forall cr_ok rep
    | PHang => False
    end.
  Proof.
    intros tree j log Hj Hl Ht. unfold finish.
    destruct (Nat.ltb j len) eqn:Hlt.
    - apply Nat.ltb_lt in Hlt.
      destruct (log ++ [CR j j true]) as [|x rest] eqn:Happ.
      + exfalso. destruct log; discriminate.
      + rewrite <- Happ. split.
        * destruct log; discriminate.
        * apply Forall_snoc; [exact Hl|cbn; lia].
    - apply Nat.ltb_ge in Hlt. destruct log as [|x rest].
      + destruct tree.
        * repeat split; lia.
        * exfalso. apply Ht; reflexivity.
      + split; [discriminate|exact Hl].
  Qed.

  (* parse_outcome_total: the model of parse() always returns, and it returns Ok(tree) only when the whole input
     has been consumed and nothing was logged; otherwise a non-empty report all of whose ranges are built from
     cursors inside the source. *)
  Theorem parse_outcome_total :
    match parsef with
    | PTree f => f = len
    | PReport rep => rep <> [] /\ Forall cr_ok rep
    | PHang => False
    end.
  Proof.
    unfold parsef, parse, program, body.
    destruct (ws0_rng 0 ltac:(lia)) as [W1 W2].
    set (i1 := ws0 0) in *.
    assert (Ht : exists i2 log0, (match title i1 with Some (j, lg) => (j, lg) | None => (i1, []) end) = (i2, log0)
                                 /\ i2 <= len /\ Forall cr_ok log0).
    { destruct (title i1) as [[j lg]|] eqn:Htt.
      - destruct (title_rng i1 j lg W2 Htt) as [A [B C]]. exists j, lg. repeat split; assumption.
      - exists i1, []. repeat split; [exact W2|constructor]. }
    destruct Ht as [i2 [log0 [Ht [Hi2 Hl0]]]]. rewrite Ht.
    destruct (ws0_rng i2 Hi2) as [V1 V2].
    fold bloop.
    destruct (body_loop_terminates (S len) (ws0 i2) log0 V2 Hl0 ltac:(lia)) as [r [Hr [Hok Hj]]].
    rewrite Hr. destruct r as [j lg|s k lg].
    - cbn in Hok. destruct Hok as [A B].
      destruct (ws0_rng j A) as [U1 U2].
      pose proof (finish_facts true (ws0 j) lg U2 B ltac:(discriminate)) as Hf.
      destruct (finish len true (ws0 j) lg) as [f|rep|]; [|exact Hf|exact Hf].
      destruct Hf as [Hf _]. exact Hf.
    - cbn in Hok. destruct Hok as [A [B C]].
      pose proof (finish_facts false k (lg ++ [CR s k true]) B ltac:(apply Forall_snoc; [exact C|cbn; lia])
                    ltac:(intros _; destruct lg; discriminate)) as Hf.
      destruct (finish len false k (lg ++ [CR s k true])) as [f|rep|]; [|exact Hf|exact Hf].
      destruct Hf as [_ [_ [_ Hf]]]. discriminate.
  Qed.
End LoopProofs.

(* every range of a report built from in-range cursors lies inside the line table of the source *)
Theorem report_ranges_in_bounds : forall gs rep,
  ends_nl gs -> Forall (cr_ok (List.length gs)) rep ->
  Forall (fun cr => range_within (map Z.of_nat (line_widths gs)) (to_srange gs cr)) rep.
Proof.
  intros gs rep Hnl Hrep. induction Hrep as [|cr rest Hcr _ IH]; constructor; [|exact IH].
  destruct cr as [a b bump]. cbn in Hcr. apply ranges_in_bounds; [exact Hnl|lia].
Qed.

(* ---- the same statements over the bundled leaves ---- *)
Definition Lcr_ok (L : leaves) : crange -> Prop := cr_ok (l_len L).

(* ALL that is assumed about the leaf parsers of the grammar (nothing else about the ~5000 lines of nom code
   enters the theorems below): *)
Record leaf_ok (L : leaves) : Prop := {
  (* results carry cursors between the start cursor and the end of the source; logged ranges are built
     from cursors of the source *)
  lo_alt_ok : forall i j lg, i <= l_len L -> l_alt L i = AOk j lg -> i <= j /\ j <= l_len L /\ Forall (Lcr_ok L) lg;
  lo_alt_unexp : forall i s k lg, i <= l_len L -> l_alt L i = AUnexp s k lg -> s <= k /\ k <= l_len L /\ Forall (Lcr_ok L) lg;
  lo_alt_err : forall i s k lg, i <= l_len L -> l_alt L i = AErr s k lg -> i <= k /\ s <= k /\ k <= l_len L /\ Forall (Lcr_ok L) lg;
  lo_alt_fail : forall i s k lg, i <= l_len L -> l_alt L i = AFail s k lg -> i <= k /\ s <= k /\ k <= l_len L /\ Forall (Lcr_ok L) lg;
  lo_skip : forall k j, k <= l_len L -> l_skip_eos L k = Some j -> k <= j /\ j <= l_len L;
  (* code_terminal consumes nothing only at eof or in front of a mika close bracket *)
  lo_term_ok : forall j j', j <= l_len L -> l_term L j = TOk j' ->
     j <= j' /\ j' <= l_len L /\ (j' = j -> j = l_len L \/ l_close_at L j = true);
  lo_term_err : forall j s k, j <= l_len L -> l_term L j = TErr s k -> s <= k /\ k <= l_len L;
  (* not_mech_code lists mika_section_close *)
  lo_close_not_mech : forall i, l_close_at L i = true -> l_not_mech L i = true;
  (* subtitles, mika blocks and section elements consume at least one grapheme *)
  lo_ul : forall i j, i <= l_len L -> l_ul_subtitle L i = Some j -> i < j /\ j <= l_len L;
  lo_mika : forall i j lg, i <= l_len L -> l_mika L i = Some (j, lg) -> i < j /\ j <= l_len L /\ Forall (Lcr_ok L) lg;
  lo_elem_ok : forall i j lg, i <= l_len L -> l_sect_elem L i = EOk j lg -> i < j /\ j <= l_len L /\ Forall (Lcr_ok L) lg;
  lo_elem_err : forall i s k lg, i <= l_len L -> l_sect_elem L i = EErr s k lg -> s <= k /\ k <= l_len L /\ Forall (Lcr_ok L) lg;
  lo_blank : forall j, j <= l_len L -> j <= l_blank_lines L j /\ l_blank_lines L j <= l_len L;
  lo_ws0 : forall i, i <= l_len L -> i <= l_ws0 L i /\ l_ws0 L i <= l_len L;
  lo_title : forall i j lg, i <= l_len L -> l_title L i = Some (j, lg) -> i <= j /\ j <= l_len L /\ Forall (Lcr_ok L) lg
}.

Definition Lmres_ok (L : leaves) : mres -> Prop := mres_ok (l_len L).
Definition Lsres_ok (L : leaves) : sres -> Prop := sres_ok (l_len L).

Theorem L_progress_or_stop : forall L, leaf_ok L -> forall i n log,
  i <= l_len L -> Forall (Lcr_ok L) log ->
  match L_mech_step L i n log with
  | MRet r => Lmres_ok L r /\ forall jj m lg, r = MOk jj m lg -> (jj = i /\ 0 < n) \/ jj = l_len L
  | MNext j n' log' => i < j /\ j < l_len L /\ n' = S n /\ Forall (Lcr_ok L) log'
  end.
Proof.
  intros L H. destruct L; destruct H; cbn in *.
  eapply progress_or_stop; eassumption.
Qed.

Theorem L_mech_code_terminates : forall L, leaf_ok L -> forall i log,
  i <= l_len L -> Forall (Lcr_ok L) log ->
  exists r, L_mech_code L i log = Some r /\ Lmres_ok L r /\
            forall jj m lg, r = MOk jj m lg -> i <= jj /\ (i < l_len L -> i < jj).
Proof.
  intros L H. destruct L; destruct H; cbn in *.
  eapply mech_code_terminates; eassumption.
Qed.

Theorem L_section_terminates : forall L, leaf_ok L -> forall i log,
  i <= l_len L -> Forall (Lcr_ok L) log ->
  exists r, L_section L i log = Some r /\ Lsres_ok L r /\
    forall j lg, r = SOk j lg -> i <= j /\ (i < l_len L -> l_close_at L i = false -> i < j).
Proof.
  intros L H. destruct L; destruct H; cbn in *.
  eapply section_terminates; eassumption.
Qed.

Theorem L_unguarded_body_hangs_at_close : forall L i log,
  i < l_len L -> l_close_at L i = true -> l_ul_subtitle L i = None ->
  forall fuel, L_body_loop_unguarded L fuel i log = None.
Proof.
  intros L. destruct L; cbn in *. intros. apply unguarded_body_hangs_at_close; assumption.
Qed.

Theorem L_parse_outcome_total : forall L, leaf_ok L ->
  match L_parse L with
  | PTree f => f = l_len L
  | PReport rep => rep <> [] /\ Forall (Lcr_ok L) rep
  | PHang => False
  end.
Proof.
  intros L H. destruct L; destruct H; cbn in *.
  eapply parse_outcome_total; eassumption.
Qed.

(* ---- the concrete instance: the source "⸥" ---- *)
Theorem stray_close_unguarded_never_returns : forall fuel, L_body_loop_unguarded stray_leaves fuel 0 [] = None.
Proof.
  intros fuel. apply L_unguarded_body_hangs_at_close; [cbn; lia|reflexivity|reflexivity].
Qed.

(* with the progress check the same source yields a one-entry report "Inputs since here are not parsed" at 1:1 *)
Lemma stray_parse_reports : L_parse stray_leaves = PReport [CR 0 0 true].
Proof. vm_compute. reflexivity. Qed.

(* everything that is assumed holds of the stray instance except the absence of a stray close: the
   assumptions are not what makes the loop diverge *)
Lemma stray_leaf_ok : leaf_ok stray_leaves.
Proof.
  constructor; cbn; unfold Lcr_ok; cbn.
  - intros i j lg Hi H. discriminate.
  - intros i s k lg Hi H. inversion H; subst. repeat split; try lia. constructor.
  - intros i s k lg Hi H. discriminate.
  - intros i s k lg Hi H. discriminate.
  - intros k j Hk H. inversion H; subst. lia.
  - intros j j' Hj H. discriminate.
  - intros j s k Hj H. inversion H; subst. lia.
  - intros i H. exact H.
  - intros i j Hi H. discriminate.
  - intros i j lg Hi H. discriminate.
  - intros i j lg Hi H. discriminate.
  - intros i s k lg Hi H. inversion H; subst. repeat split; try lia. constructor.
  - intros j Hj. lia.
  - intros i Hi. lia.
  - intros i j lg Hi H. discriminate.
Qed.

(* non-vacuity of the assumptions: a concrete source with one statement *)
Lemma tiny_leaf_ok : leaf_ok tiny_leaves.
Proof.
  constructor; cbn; unfold Lcr_ok; cbn.
  - intros i j lg Hi H. destruct (Nat.eqb i 0) eqn:E; [|discriminate].
    apply Nat.eqb_eq in E. inversion H; subst. repeat split; try lia. constructor.
  - intros i s k lg Hi H. destruct (Nat.eqb i 0) eqn:E; [discriminate|].
    inversion H; subst. repeat split; try lia. constructor.
  - intros i s k lg Hi H. destruct (Nat.eqb i 0); discriminate.
  - intros i s k lg Hi H. destruct (Nat.eqb i 0); discriminate.
  - intros k j Hk H. inversion H; subst. lia.
  - intros j j' Hj H. destruct (Nat.eqb j 1) eqn:E1.
    + apply Nat.eqb_eq in E1. inversion H; subst. repeat split; try lia.
    + destruct (Nat.eqb j 3) eqn:E3; [|discriminate]. apply Nat.eqb_eq in E3. inversion H; subst.
      repeat split; try lia; try (intros _; left; reflexivity).
  - intros j s k Hj H. destruct (Nat.eqb j 1); [discriminate|]. destruct (Nat.eqb j 3); [discriminate|].
    inversion H; subst. lia.
  - intros i H. discriminate.
  - intros i j Hi H. discriminate.
  - intros i j lg Hi H. discriminate.
  - intros i j lg Hi H. discriminate.
  - intros i s k lg Hi H. inversion H; subst. repeat split; try lia. constructor.
  - intros j Hj. lia.
  - intros i Hi. lia.
  - intros i j lg Hi H. discriminate.
Qed.

Lemma tiny_parse : L_parse tiny_leaves = PTree 3.
Proof. vm_compute. reflexivity. Qed.

(* ====================================================================== *)
(* (C) the judge                                                           *)
(* ====================================================================== *)

Definition line_ok (b : bline) (glen w : Z) : Prop :=
  (bl_ascii b = true -> glen = bl_bytes b /\ w = (bl_bytes b - bl_ctl b)%Z) /\
  (bl_ascii b = false -> (0 <= w /\ w <= glen /\ glen <= bl_cps b /\ 1 <= glen)%Z).

Inductive table_ok : list bline -> list Z -> list Z -> Prop :=
| table_nil : table_ok [] [] []
| table_cons : forall b bs l lens w ws, line_ok b l w -> table_ok bs lens ws -> table_ok (b :: bs) (l :: lens) (w :: ws).

Lemma line_okb_spec : forall b l w, line_okb b l w = true -> line_ok b l w.
Proof.
  intros b l w H. unfold line_okb in H. unfold line_ok. destruct (bl_ascii b).
  - rewrite andb_true_iff, !Z.eqb_eq in H. split; [intros _; exact H|discriminate].
  - rewrite !andb_true_iff, !Z.leb_le in H. split; [discriminate|intros _; tauto].
Qed.

Lemma table_okb_spec : forall bs lens ws, table_okb bs lens ws = true -> table_ok bs lens ws.
Proof.
  induction bs as [|b bs IH]; intros lens ws H.
  - destruct lens; [destruct ws; [constructor|discriminate]|discriminate].
  - destruct lens as [|l lens]; [discriminate|]. destruct ws as [|w ws]; [discriminate|].
    cbn [table_okb] in H. rewrite andb_true_iff in H. destruct H as [H1 H2].
    constructor; [apply line_okb_spec; exact H1|apply IH; exact H2].
Qed.

(* the byte-level line table the judge computes is the model's line table of the text's graphemes
   (stated for ASCII texts, where graphemes are bytes except CR LF) *)
Lemma bl_push_width : forall cur c w,
  Z.of_nat w = bl_width cur ->
  Z.of_nat (w + (if byte_ctl (nat_of_ascii c) then 0 else 1)) = bl_width (bl_push cur c).
Proof.
  intros cur c w H. unfold bl_width, bl_push in *. cbn [bl_bytes bl_ctl].
  destruct (byte_ctl (nat_of_ascii c)); lia.
Qed.

Lemma ascii_line_table_from : forall n s cur w,
  String.length s <= n -> Z.of_nat w = bl_width cur ->
  map bl_width (text_lines_from cur s) = map Z.of_nat (line_widths_from w (init_source (gks_of_ascii s))).
Proof.
  induction n as [|n IH]; intros s cur w Hlen Hw.
  - destruct s; [|cbn in Hlen; lia]. cbn. rewrite Hw. reflexivity.
  - destruct s as [|c r].
    + cbn. rewrite Hw. reflexivity.
    + cbn [String.length] in Hlen.
      cbn [text_lines_from gks_of_ascii].
      destruct (Nat.eqb (nat_of_ascii c) 10).
      * unfold init_source. cbn [app line_widths_from map]. rewrite Hw. f_equal.
        apply (IH r bl0 0); [lia|reflexivity].
      * destruct (Nat.eqb (nat_of_ascii c) 13).
        -- destruct r as [|c2 r2].
           ++ unfold init_source. cbn [app line_widths_from map text_lines_from gks_of_ascii]. rewrite Hw. reflexivity.
           ++ destruct (Nat.eqb (nat_of_ascii c2) 10).
              ** unfold init_source. cbn [app line_widths_from map]. rewrite Hw. f_equal.
                 apply (IH r2 bl0 0); [cbn [String.length] in Hlen; lia|reflexivity].
              ** unfold init_source. cbn [app line_widths_from map]. rewrite Hw. f_equal.
                 apply (IH (String c2 r2) bl0 0); [lia|reflexivity].
        -- unfold init_source. cbn [app line_widths_from].
           apply (IH r (bl_push cur c)); [lia|apply bl_push_width; exact Hw].
Qed.

Theorem ascii_line_table_agrees : forall s,
  map bl_width (text_lines s) = map Z.of_nat (line_widths (init_source (gks_of_ascii s))).
Proof.
  intros s. unfold text_lines, line_widths.
  apply (ascii_line_table_from (String.length s)); [lia|reflexivity].
Qed.

(* the facts checked on a record of the hook log *)
Definition hrec_ok (h : hrec) : Prop :=
  let s := h_site h in
  ((s = 6 \/ s = 7 \/ s = 8) /\ 0 <= h_a h /\ h_a h < h_b h /\ h_b h <= h_len h)%Z \/
  (s = 12 /\ h_b h = 1 /\ h_a h < h_len h)%Z \/
  (((1 <= s /\ s <= 5) \/ (9 <= s /\ s <= 11)) /\ 0 <= h_a h /\ h_a h <= h_b h /\ h_b h <= h_len h)%Z.

Lemma hrec_okb_spec : forall h, hrec_okb h = true -> hrec_ok h.
Proof.
  intros h H. unfold hrec_okb in H. unfold hrec_ok. cbv zeta in *.
  destruct ((h_site h =? 6) || (h_site h =? 7) || (h_site h =? 8))%Z eqn:E1.
  - left. rewrite !orb_true_iff, !Z.eqb_eq in E1. rewrite !andb_true_iff, !Z.leb_le, Z.ltb_lt in H. lia.
  - destruct (h_site h =? 12)%Z eqn:E2.
    + right. left. rewrite Z.eqb_eq in E2. rewrite andb_true_iff, Z.eqb_eq, Z.ltb_lt in H. lia.
    + destruct (((1 <=? h_site h) && (h_site h <=? 5) || (9 <=? h_site h) && (h_site h <=? 11))%Z) eqn:E3; [|discriminate].
      right. right. rewrite orb_true_iff, !andb_true_iff, !Z.leb_le in E3.
      rewrite !andb_true_iff, !Z.leb_le in H. lia.
Qed.

(* what an `ok` verdict asserts about the implementation's behaviour on this text *)
Definition C09_obs_spec (text : string) (p : pobs) : Prop :=
  po_tag p <> TgPanic /\                                          (* terminated without panic: a tree or a report *)
  po_same p = true /\                                             (* the same outcome twice *)
  po_nlines p = Z.of_nat (List.length (text_lines text)) /\       (* the harness's line table is the text's *)
  table_ok (text_lines text) (po_lens p) (po_widths p) /\
  Forall (range_within (po_widths p)) (po_causes p ++ po_annots p) /\   (* every range lies within the input *)
  po_flags p = [] /\                                              (* the report's consumers did not panic *)
  Forall hrec_ok (po_hook p) /\                                   (* the replayed hook log satisfies the loop invariants *)
  (po_tag p = TgOk -> po_causes p = [] /\ po_annots p = []) /\
  (po_tag p = TgErr -> po_causes p <> []).                        (* an error report is not empty *)

Lemma is_nil_spec : forall A (l : list A), is_nil l = true -> l = [].
Proof. intros A l H. destruct l; [reflexivity|discriminate]. Qed.

Lemma okb_ranges : forall ws (l : list srange),
  forallb (range_okb ws) l = true -> Forall (range_within ws) l.
Proof.
  intros ws l H. apply Forall_forall. intros r Hr. rewrite forallb_forall in H. specialize (H r Hr).
  unfold range_okb in H. rewrite andb_true_iff in H. apply range_withinb_spec. tauto.
Qed.

Lemma obs_okb_sound : forall text p, obs_okb text p = true -> C09_obs_spec text p.
Proof.
  intros text p H. unfold obs_okb in H. rewrite !andb_true_iff in H.
  destruct H as [[[[[[[H1 H2] H3] H4] H5] H6] Hfl] H7].
  unfold C09_obs_spec.
  split. { intros Ht. rewrite Ht in H7. discriminate. }
  split. { exact H1. }
  split. { apply Z.eqb_eq. exact H2. }
  split. { apply table_okb_spec. exact H3. }
  split. { apply Forall_app. split; apply okb_ranges; assumption. }
  split. { apply is_nil_spec. exact Hfl. }
  split. { apply Forall_forall. intros h Hh. apply hrec_okb_spec. rewrite forallb_forall in H6. apply H6. exact Hh. }
  split.
  - intros Ht. rewrite Ht in H7. rewrite andb_true_iff in H7. destruct H7 as [A B].
    split; apply is_nil_spec; assumption.
  - intros Ht. rewrite Ht in H7. intros Hc. rewrite Hc in H7. discriminate.
Qed.

Lemma v_ok_not_kf : forall t i, v_kf i <> v_ok t.
Proof. intros t i H. unfold v_kf, v_ok in H. inversion H. Qed.
Lemma v_ok_not_bad : forall t w e, v_bad w e <> v_ok t.
Proof. intros t w e H. unfold v_bad, v_ok in H. inversion H. Qed.

(* judge soundness: an `ok` verdict means the observation is a terminated, repeatable parse whose ranges
   all lie inside the text as described by the (checked) line table *)
Theorem judge_parse_sound : forall text o tag,
  judge_parse text o = v_ok tag -> exists p, o = RParse p /\ C09_obs_spec text p.
Proof.
  intros text o tag H. unfold judge_parse in H. destruct o as [p| | |].
  - destruct (obs_okb text p) eqn:Hok.
    + exists p. split; [reflexivity|apply obs_okb_sound; exact Hok].
    + exfalso. destruct (kf_rat_suffix text && obs_okb text (drop_uncovered p)); [exact (v_ok_not_kf _ _ H)|exact (v_ok_not_bad _ _ _ H)].
  - exfalso. destruct (kf_exp_nesting text); [exact (v_ok_not_kf _ _ H)|exact (v_ok_not_bad _ _ _ H)].
  - exfalso. destruct (kf_stack_run text); [exact (v_ok_not_kf _ _ H)|exact (v_ok_not_bad _ _ _ H)].
  - exfalso. exact (v_ok_not_bad _ _ _ H).
Qed.

Lemma v_malformed_not_ok : forall t, v_malformed <> v_ok t.
Proof. intros t H. unfold v_malformed, v_ok in H. inversion H. Qed.

Theorem judge_c09_sound : forall x tag,
  judge_c09 x = v_ok tag ->
  exists text o p, x = Lx [Lx [Ax "c09"%string; Qx text]; o] /\ dec_obs o = RParse p /\ C09_obs_spec text p.
Proof.
  intros x tag H. unfold judge_c09 in H.
  destruct x as [z|s|s|l]; try (exfalso; exact (v_malformed_not_ok _ H)).
  destruct l as [|c l]; try (exfalso; exact (v_malformed_not_ok _ H)).
  destruct c as [z|s|s|lc]; try (exfalso; exact (v_malformed_not_ok _ H)).
  destruct lc as [|c1 lc]; try (exfalso; exact (v_malformed_not_ok _ H)).
  destruct c1 as [z|s1|s1|l1]; try (exfalso; exact (v_malformed_not_ok _ H)).
  destruct lc as [|c2 lc]; try (exfalso; exact (v_malformed_not_ok _ H)).
  destruct c2 as [z|s2|text|l2]; try (exfalso; exact (v_malformed_not_ok _ H)).
  destruct lc as [|c3 lc]; try (exfalso; exact (v_malformed_not_ok _ H)).
  destruct l as [|o l]; try (exfalso; exact (v_malformed_not_ok _ H)).
  destruct l as [|o2 l]; try (exfalso; exact (v_malformed_not_ok _ H)).
  destruct (String.eqb s1 "c09") eqn:Hs; try (exfalso; exact (v_malformed_not_ok _ H)).
  apply String.eqb_eq in Hs. subst s1.
  destruct (judge_parse_sound text (dec_obs o) tag H) as [p [Hp Hspec]].
  exists text, o, p. split; [reflexivity|split; [exact Hp|exact Hspec]].
Qed.

(* a known-finding verdict is given only inside its class and only for the predicted wrong behaviour *)
Theorem judge_kf_narrow : forall text o id,
  judge_parse text o = v_kf id ->
  (id = "exp-nesting"%string /\ o = RHang /\ nest_threshold <= nest_depth text) \/
  (id = "stack-overflow-prefix-run"%string /\ o = RAbort /\ run_threshold <= max_prefix_run text) \/
  (id = "rational-suffix-dropped"%string /\ kf_rat_suffix text = true /\
   exists p, o = RParse p /\ obs_okb text p = false /\ obs_okb text (drop_uncovered p) = true).
Proof.
  intros text o id H. unfold judge_parse in H. destruct o as [p| | |].
  - destruct (obs_okb text p) eqn:Hok; [inversion H|].
    destruct (kf_rat_suffix text && obs_okb text (drop_uncovered p)) eqn:Hk; [|inversion H].
    apply andb_prop in Hk as [Hk1 Hk2]. right. right. inversion H. repeat split; try reflexivity; try exact Hk1.
    exists p. repeat split; assumption.
  - destruct (kf_exp_nesting text) eqn:Hn; [|inversion H].
    left. inversion H. repeat split; try reflexivity.
    unfold kf_exp_nesting in Hn. apply Nat.leb_le in Hn. exact Hn.
  - destruct (kf_stack_run text) eqn:Hn; [|inversion H].
    right. left. inversion H. repeat split; try reflexivity.
    unfold kf_stack_run in Hn. apply Nat.leb_le in Hn. exact Hn.
  - inversion H.
Qed.

(* SourceRange::default() = 0:0-0:0 (what the hand-built ParseErrors carried before fix 6eb0df4) lies outside every
   input (rows and columns are 1-based) and makes err_location's `end.col - 1` underflow; no range built from
   cursors is of that form (ranges_in_bounds) *)
Theorem zero_range_outside : forall ws,
  range_withinb ws (SR 0 0 0 0) = false /\ fmt_safeb (SR 0 0 0 0) = false /\ is_zero (SR 0 0 0 0) = true.
Proof. intros ws. repeat split; reflexivity. Qed.

Theorem cursor_range_not_zero : forall gs a b bump, ends_nl gs -> a <= b -> is_zero (to_srange gs (CR a b bump)) = false.
Proof.
  intros gs a b bump Hnl Hab.
  destruct (ranges_in_bounds gs a b bump Hnl Hab) as [Hw _].
  unfold range_within in Hw. unfold is_zero.
  destruct (sr_r1 (to_srange gs (CR a b bump)) =? 0)%Z eqn:E; [|reflexivity].
  apply Z.eqb_eq in E. lia.
Qed.

(* format_error's count of errors not shown (`errors.1.len() - n`, n = min(len, 10), since fix 213fdb6) cannot underflow *)
Theorem fmt_not_shown_nonneg : forall nerr, (0 <= nerr)%Z -> (0 <= fmt_not_shown nerr)%Z.
Proof. intros nerr H. unfold fmt_not_shown. lia. Qed.
