(* C19 — theorems about re-evaluating a plan (Model/Plan.v). *)
From Coq Require Import List Arith Bool Lia.
From MechV Require Import Model.Plan.
Import ListNotations.

Section PlanP.
  Context {V : Type}.
  Notation pstep := (@pstep V).
  Notation store := (@store V).
  Implicit Types (p pre suf : list pstep) (s t : store).

  (* n single steps = one request for n steps; requests compose *)
  Theorem steps_compose m : forall n p s, steps (m + n) p s = steps n p (steps m p s).
  Proof. induction m as [|m IH]; intros n p s; cbn; [reflexivity|apply IH]. Qed.

  Corollary steps_singles n p s : steps (S n) p s = steps 1 p (steps n p s).
  Proof. replace (S n) with (n + 1) by lia. apply steps_compose. Qed.

  Lemma resolve_app pre suf s : resolve (pre ++ suf) s = resolve suf (resolve pre s).
  Proof. unfold resolve. apply fold_left_app. Qed.

  (* frame: a cell no step writes keeps its value *)
  Lemma resolve_frame p : forall s c, ~ In c (outs p) -> resolve p s c = s c.
  Proof.
    induction p as [|st p IH]; intros s c H; [reflexivity|].
    cbn [resolve fold_left]. fold (resolve p (solve s st)). rewrite IH.
    - unfold solve, upd. destruct (Nat.eqb c (s_out st)) eqn:E; [|reflexivity].
      apply Nat.eqb_eq in E. exfalso. apply H. left. symmetry. exact E.
    - intros Hin. apply H. right. exact Hin.
  Qed.

  Lemma outs_app pre suf : outs (pre ++ suf) = outs pre ++ outs suf.
  Proof. unfold outs. apply map_app. Qed.

  Lemma reads_earlier_split all pre : forall before st suf,
    reads_earlier before all (pre ++ st :: suf) ->
    forall a, In a (s_args st) -> In a (outs pre) \/ In a before \/ ~ In a all.
  Proof.
    induction pre as [|x pre IH]; intros before st suf H a Ha; cbn [app reads_earlier] in H.
    - destruct H as [H _]. destruct (H a Ha); tauto.
    - destruct H as [_ H]. destruct (IH _ _ _ H a Ha) as [K|[K|K]]; cbn [outs map In] in *; tauto.
  Qed.

  Section Idem.
    Variable p : list pstep.
    Variable s0 : store.
    Hypothesis Hnd : NoDup (outs p).
    Hypothesis Hre : reads_earlier [] (outs p) p.
    Let final := resolve p s0.

    (* the operands of a step already have their final values when the step runs *)
    Lemma args_final pre st suf : p = pre ++ st :: suf ->
      forall a, In a (s_args st) -> resolve pre s0 a = final a.
    Proof.
      intros E a Ha. unfold final. rewrite E, resolve_app. symmetry. apply resolve_frame.
      rewrite E in Hre, Hnd. destruct (reads_earlier_split _ _ _ _ _ Hre a Ha) as [K|[[]|K]].
      - rewrite outs_app in Hnd. intros Hin.
        clear - Hnd K Hin. induction (outs pre) as [|x l IH]; [destruct K|].
        cbn in Hnd. inversion Hnd as [|? ? Hx Hl]; subst. destruct K as [->|K].
        + apply Hx. apply in_or_app. right. exact Hin.
        + apply IH; assumption.
      - intros Hin. apply K. rewrite outs_app. apply in_or_app. right. exact Hin.
    Qed.

    (* the output cell of a step keeps, to the end, the value the step computed *)
    Lemma out_final pre st suf : p = pre ++ st :: suf ->
      final (s_out st) = s_fn st (map (resolve pre s0) (s_args st)).
    Proof.
      intros E. unfold final. rewrite E, resolve_app. cbn [resolve fold_left]. fold (resolve suf (solve (resolve pre s0) st)).
      rewrite resolve_frame.
      - unfold solve, upd. rewrite Nat.eqb_refl. reflexivity.
      - rewrite E, outs_app in Hnd. apply NoDup_remove_2 in Hnd. intros Hin. apply Hnd. apply in_or_app. right. exact Hin.
    Qed.

    Lemma idem_prefix pre : forall suf, p = pre ++ suf -> forall c, resolve pre final c = final c.
    Proof.
      induction pre as [|st pre IH] using rev_ind; intros suf E c; [reflexivity|].
      rewrite <- app_assoc in E. cbn [app] in E.
      rewrite resolve_app. cbn [resolve fold_left]. unfold solve at 1, upd.
      destruct (Nat.eqb c (s_out st)) eqn:Ec.
      - apply Nat.eqb_eq in Ec. subst c. rewrite (out_final _ _ _ E). f_equal.
        apply map_ext_in. intros a Ha. rewrite (IH _ E). symmetry. apply (args_final _ _ _ E a Ha).
      - apply (IH _ E).
    Qed.

    (* re-evaluation of a pure plan is a no-op (pointwise on cells, for any number of extra steps) *)
    Theorem resolve_idempotent : forall c, resolve p final c = final c.
    Proof. apply (idem_prefix p []). symmetry. apply app_nil_r. Qed.
  End Idem.

  Lemma resolve_ext p : forall s t, (forall c, s c = t c) -> forall c, resolve p s c = resolve p t c.
  Proof.
    induction p as [|st p IH]; intros s t H c; [apply H|].
    cbn [resolve fold_left]. apply IH. intros c'. unfold solve, upd.
    destruct (Nat.eqb c' (s_out st)); [|apply H]. f_equal. apply map_ext. exact H.
  Qed.

  (* in a pure plan every step's output is the step's function of the FINAL operand values *)
  Lemma step_value_final p s0 : plan_pure p -> forall st, In st p ->
    s_fn st (map (resolve p s0) (s_args st)) = resolve p s0 (s_out st).
  Proof.
    intros [Hnd Hre] st Hin. apply in_split in Hin as (pre & suf & E).
    rewrite (out_final p s0 Hnd pre st suf E). f_equal. apply map_ext_in. intros a Ha.
    symmetry. apply (args_final p s0 Hnd Hre pre st suf E a Ha).
  Qed.

  Lemma steps_ext p n : forall s t, (forall c, s c = t c) -> forall c, steps n p s c = steps n p t c.
  Proof.
    induction n as [|n IH]; intros s t H c; cbn [steps]; [apply H|].
    apply IH. apply resolve_ext. exact H.
  Qed.

  Theorem steps_noop p s0 : plan_pure p -> forall n c, steps n p (resolve p s0) c = resolve p s0 c.
  Proof.
    intros [Hnd Hre] n. induction n as [|n IH]; intros c; [reflexivity|].
    cbn [steps]. rewrite <- (IH c). apply steps_ext. apply resolve_idempotent; assumption.
  Qed.
End PlanP.

(* ---- the boolean check on the observed dataflow implies the hypothesis of steps_noop ---- *)
Section Observed.
  Context {V : Type}.
  Variable fn : rstep -> list V -> V.      (* whatever the kernels compute *)

  Fixpoint abstract (p : list rstep) : list (@pstep V) :=
    match p with
    | [] => []
    | st :: r =>
        if is_define (r_name st) then abstract r
        else match r_outs st with
             | [o] => {| s_out := o; s_args := r_ins st; s_fn := fn st |} :: abstract r
             | _ => abstract r
             end
    end.

  Lemma mem_nat_In x l : mem_nat x l = true <-> In x l.
  Proof.
    induction l as [|y l IH]; cbn; [split; [discriminate|tauto]|].
    rewrite orb_true_iff, Nat.eqb_eq, IH. split; intros [H|H]; auto.
  Qed.

  Lemma nodup_nat_NoDup l : nodup_nat l = true -> NoDup l.
  Proof.
    induction l as [|x l IH]; cbn; intros H; constructor.
    - apply andb_prop in H as [H _]. apply negb_true_iff in H. intros Hin. apply mem_nat_In in Hin. congruence.
    - apply IH. apply andb_prop in H as [_ H]. exact H.
  Qed.

  Lemma reads_earlierb_sound all p : forall before,
    reads_earlierb before all p = true ->
    outs (abstract p) = real_outs p /\ reads_earlier before all (abstract p).
  Proof.
    induction p as [|st p IH]; intros before H; cbn [reads_earlierb abstract real_outs flat_map] in *.
    - split; [reflexivity|exact I].
    - destruct (is_define (r_name st)).
      + cbn [app]. apply IH. exact H.
      + destruct (r_outs st) as [|o [|o' os]]; try discriminate.
        apply andb_prop in H as [Ha Hr]. destruct (IH _ Hr) as [E R].
        split.
        * cbn [outs map s_out app]. f_equal. exact E.
        * cbn [reads_earlier s_args s_out]. split; [|exact R].
          intros a Hin. rewrite forallb_forall in Ha. specialize (Ha a Hin).
          apply orb_prop in Ha as [Ha|Ha]; [left; apply mem_nat_In; exact Ha|].
          right. apply negb_true_iff in Ha. intros K. apply mem_nat_In in K. congruence.
  Qed.

  Theorem plan_pureb_sound p : plan_pureb p = true -> plan_pure (abstract p).
  Proof.
    unfold plan_pureb, plan_pure. intros H.
    apply andb_prop in H as [_ H]. apply andb_prop in H as [Hn Hr].
    destruct (reads_earlierb_sound _ _ _ Hr) as [E R]. rewrite E. split; [apply nodup_nat_NoDup; exact Hn|exact R].
  Qed.
End Observed.
