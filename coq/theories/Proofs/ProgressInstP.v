(* C09 (deepening) — what the analysis establishes for the grammar extracted from the current source.
   Every lemma closed by `vm_compute; reflexivity` re-checks Gen/ParserGrammar.v, i.e. the parser source as it is now. *)
From Coq Require Import List Arith String Bool Lia.
From MechV Require Import Model.Progress Gen.ParserGrammar Model.ProgressInst Proofs.ProgressP.
Import ListNotations.
Open Scope string_scope.

(* the obligation: on the cut grammar the analysis finds no inconsistency, no call cycle without consumption, and
   exactly the two allow-listed nom guards that may fire *)
Lemma cut_analysis : analyse grammar_cut = {| r_nu_bad := []; r_cycles := []; r_guards := guards_allowed |}.
Proof. vm_compute. reflexivity. Qed.

(* on the uncut grammar, the entries on a cycle of calls-before-consumption are exactly the assumed loops *)
Lemma uncut_cycles : same_set (on_cycle (compute_nu grammar) grammar) cycles_expected = true.
Proof. vm_compute. reflexivity. Qed.

Lemma unknown_as_expected : same_set (unknown_fns grammar) unknown_expected = true.
Proof. vm_compute. reflexivity. Qed.

Lemma must_consume_nonnullable : forallb (fun f => negb (nu_g f)) must_consume = true.
Proof. vm_compute. reflexivity. Qed.

Lemma must_consume_defined : forallb (fun f => match lookup f grammar_cut with Some _ => true | None => false end) must_consume = true.
Proof. vm_compute. reflexivity. Qed.

Lemma nu_g_ok : nu_bad nu_g grammar_cut = [].
Proof. vm_compute. reflexivity. Qed.

Lemma rk_g_ok : rank_bad nu_g rk_g grammar_cut = [].
Proof. vm_compute. reflexivity. Qed.

Lemma guards_g : guards_live nu_g grammar_cut = guards_allowed.
Proof. vm_compute. reflexivity. Qed.

(* ---- consequences for the extracted grammar ---- *)
Theorem parser_terminates : forall O, oracle_ok O -> forall f i n,
  (List.length i + 1) * (rank_bound * size_bound) + 1 < n -> exists r, evalp O grammar_cut all_on n (PCall f) i = Some r.
Proof.
  intros O HO f i n Hn.
  apply (eval_terminates O grammar_cut nu_g rk_g HO nu_g_ok rk_g_ok (PCall f) i n). exact Hn.
Qed.

Theorem parser_results_are_suffixes : forall O, oracle_ok O -> forall n f i r,
  evalp O grammar_cut all_on n (PCall f) i = Some r ->
  suffix (pos r) i /\ (is_ok r = true -> nu_g f = false -> strict_suffix (pos r) i).
Proof.
  intros O HO n f i r H. exact (nullable_sound O grammar_cut nu_g HO nu_g_ok n (PCall f) i r H).
Qed.

Theorem must_consume_consumes : forall O, oracle_ok O -> forall f, In f must_consume -> forall n i j,
  evalp O grammar_cut all_on n (PCall f) i = Some (ROk j) -> strict_suffix j i.
Proof.
  intros O HO f Hf n i j H.
  destruct (parser_results_are_suffixes O HO n f i _ H) as [_ H2]. apply H2; [reflexivity|].
  pose proof must_consume_nonnullable as Hm. rewrite forallb_forall in Hm. specialize (Hm f Hf).
  now apply negb_true_iff in Hm.
Qed.

Theorem other_guards_dead : forall O, oracle_ok O -> forall n f i,
  evalp O grammar_cut gd_allowed n (PCall f) i = evalp O grammar_cut all_on n (PCall f) i.
Proof.
  intros O HO n f i. apply (guards_dead O grammar_cut nu_g gd_allowed HO nu_g_ok).
  intros site Hs. rewrite guards_g in Hs. unfold gd_allowed. apply existsb_exists. exists site. split; [exact Hs|apply String.eqb_refl].
Qed.

(* non-vacuity: an oracle satisfying oracle_ok exists (every leaf fails at its input) *)
Definition fail_oracle : oracle :=
  {| o_leaf := fun _ _ i => RErr i; o_unk := fun _ _ i => RErr i; o_cond := fun _ _ _ => false |}.
Lemma fail_oracle_ok : oracle_ok fail_oracle.
Proof. constructor; cbn; intros; try apply suffix_refl; discriminate. Qed.

(* and one that consumes: every consuming leaf eats one grapheme when there is one *)
Definition eat_oracle : oracle :=
  {| o_leaf := fun _ c i => match i with [] => RErr i | _ :: t => if c then ROk t else ROk i end;
     o_unk := fun _ _ i => RErr i; o_cond := fun _ _ _ => false |}.
Lemma eat_oracle_ok : oracle_ok eat_oracle.
Proof.
  constructor; cbn.
  - intros nm c i. destruct i as [|g t]; cbn; [apply suffix_refl|]. destruct c; cbn; [exists [g]; reflexivity|apply suffix_refl].
  - intros nm i j H. destruct i as [|g t]; [discriminate|]. inversion H; subst. cbn. lia.
  - intros s n i. apply suffix_refl.
Qed.

(* the evaluator really runs the extracted grammar: `comma` on a one-grapheme input consumes it *)
Lemma comma_runs : evalp eat_oracle grammar_cut all_on 20 (PCall "comma") [44] = Some (ROk []).
Proof. vm_compute. reflexivity. Qed.
