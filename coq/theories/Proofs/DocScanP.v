(* C10 — proofs about the line-level scanner of Model/DocScan.v and its connection to the document algebra. *)
From Coq Require Import List ZArith Ascii String Bool Arith Lia.
From MechV Require Import Base.Sexp Base.Obs Proofs.SexpP Model.Doc Proofs.DocP Model.DocScan.
Import ListNotations.
Open Scope string_scope.

(* ------------------------------------------------------------------------ strings *)
Lemma sig_char_not_blank sg : is_blank (sig_char sg) = false.
Proof. destruct sg; reflexivity. Qed.

Lemma blank_not_sig c sg : is_blank c = true -> Ascii.eqb c (sig_char sg) = false.
Proof.
  intros Hb. destruct (Ascii.eqb c (sig_char sg)) eqn:E; [|reflexivity].
  apply Ascii.eqb_eq in E. subst c. rewrite sig_char_not_blank in Hb. discriminate.
Qed.

Lemma starts_with_sig_blank c r sg : is_blank c = true -> starts_with_sig sg (String c r) = None.
Proof.
  intros Hb. unfold starts_with_sig. destruct r as [|b [|c' r']]; try reflexivity.
  rewrite (blank_not_sig _ _ Hb). reflexivity.
Qed.

Lemma starts_with_sig_self sg r : starts_with_sig sg (sig_str sg ++ r) = Some r.
Proof. unfold sig_str. cbn. rewrite Ascii.eqb_refl. reflexivity. Qed.

Lemma starts_with_sig_sound sg s r : starts_with_sig sg s = Some r -> s = sig_str sg ++ r.
Proof.
  unfold starts_with_sig. destruct s as [|a [|b [|c r']]]; try discriminate.
  destruct (Ascii.eqb a (sig_char sg)) eqn:Ea; cbn [andb]; [|discriminate].
  destruct (Ascii.eqb b (sig_char sg)) eqn:Eb; cbn [andb]; [|discriminate].
  destruct (Ascii.eqb c (sig_char sg)) eqn:Ec; [|discriminate].
  apply Ascii.eqb_eq in Ea, Eb, Ec. intros H. injection H as <-. subst. reflexivity.
Qed.

Lemma starts_sigil_self sg r : starts_sigil (sig_str sg ++ r) = Some (sg, r).
Proof. destruct sg; reflexivity. Qed.

Lemma starts_sigil_sound s sg r : starts_sigil s = Some (sg, r) -> s = sig_str sg ++ r.
Proof.
  unfold starts_sigil. destruct (starts_with_sig Grave s) as [r1|] eqn:E1.
  - intros H. injection H as <- <-. apply starts_with_sig_sound, E1.
  - destruct (starts_with_sig Tilde s) as [r2|] eqn:E2; [|discriminate].
    intros H. injection H as <- <-. apply starts_with_sig_sound, E2.
Qed.

Lemma skip_blanks_app ind s :
  all_blank ind = true -> skip_blanks (ind ++ s) = skip_blanks s.
Proof.
  induction ind as [|c ind IH]; cbn [all_blank append skip_blanks]; [reflexivity|].
  intros H. apply andb_prop in H as [Hc Hi]. rewrite Hc. apply IH, Hi.
Qed.

Lemma leading_blanks_app ind s :
  all_blank ind = true -> leading_blanks (ind ++ s) = ind ++ leading_blanks s.
Proof.
  induction ind as [|c ind IH]; cbn [all_blank append leading_blanks]; [reflexivity|].
  intros H. apply andb_prop in H as [Hc Hi]. rewrite Hc, (IH Hi). reflexivity.
Qed.

Lemma skip_blanks_sig sg r : skip_blanks (sig_str sg ++ r) = sig_str sg ++ r.
Proof. destruct sg; reflexivity. Qed.
Lemma leading_blanks_sig sg r : leading_blanks (sig_str sg ++ r) = "".
Proof. destruct sg; reflexivity. Qed.

Lemma leading_skip s : leading_blanks s ++ skip_blanks s = s.
Proof.
  induction s as [|c s IH]; [reflexivity|]. cbn [leading_blanks skip_blanks].
  destruct (is_blank c); [cbn [append]; rewrite IH|]; reflexivity.
Qed.

Lemma append_nil_r s : s ++ "" = s.
Proof. induction s as [|c s IH]; [reflexivity|]. cbn. rewrite IH. reflexivity. Qed.

(* ---- the opening line ---- *)
Lemma opener_render eat ind sg raw :
  all_blank ind = true -> (eat = true \/ ind = "") ->
  opener eat (ind ++ sig_str sg ++ raw) = Some (ind, sg, raw).
Proof.
  intros Hb He. unfold opener. destruct eat.
  - rewrite (skip_blanks_app _ _ Hb), skip_blanks_sig, starts_sigil_self.
    rewrite (leading_blanks_app _ _ Hb), leading_blanks_sig, append_nil_r. reflexivity.
  - destruct He as [He|He]; [discriminate|]. subst ind. cbn [append]. rewrite starts_sigil_self. reflexivity.
Qed.

Lemma opener_sound eat l ind sg raw :
  opener eat l = Some (ind, sg, raw) -> l = ind ++ sig_str sg ++ raw.
Proof.
  unfold opener. destruct eat.
  - destruct (starts_sigil (skip_blanks l)) as [[sg' raw']|] eqn:E; [|discriminate].
    intros H. injection H as <- <- <-. apply starts_sigil_sound in E. rewrite <- E. symmetry. apply leading_skip.
  - destruct (starts_sigil l) as [[sg' raw']|] eqn:E; [|discriminate].
    intros H. injection H as <- <- <-. apply starts_sigil_sound in E. exact E.
Qed.

(* a line that is not an opener even after skipping blanks is not an opener at all *)
Lemma opener_true_none eat l : opener true l = None -> opener eat l = None.
Proof.
  destruct eat; [auto|]. unfold opener.
  destruct (starts_sigil l) as [[sg raw]|] eqn:E; [|reflexivity].
  apply starts_sigil_sound in E. subst l. rewrite skip_blanks_sig, starts_sigil_self. discriminate.
Qed.

(* ---- the closing line ---- *)
Lemma find_sig_blank_prefix sg pre post :
  all_blank pre = true -> find_sig sg (pre ++ sig_str sg ++ post) = Some (pre, post).
Proof.
  induction pre as [|c pre IH]; intros Hb.
  - cbn [append]. destruct sg; reflexivity.
  - cbn [all_blank] in Hb. apply andb_prop in Hb as [Hc Hp].
    cbn [append find_sig]. rewrite (starts_with_sig_blank _ _ _ Hc), (IH Hp). reflexivity.
Qed.

Lemma find_sig_sound sg s pre post :
  find_sig sg s = Some (pre, post) -> s = pre ++ sig_str sg ++ post.
Proof.
  revert pre post. induction s as [|a s IH]; intros pre post; [discriminate|].
  cbn [find_sig]. destruct (starts_with_sig sg (String a s)) as [p|] eqn:E.
  - intros H. injection H as <- <-. apply starts_with_sig_sound in E. exact E.
  - destruct (find_sig sg s) as [[p q]|] eqn:F; [|discriminate].
    intros H. injection H as <- <-. cbn [append]. f_equal. apply IH. reflexivity.
Qed.

(* a complete fence line of the OTHER sigil type (blanks, the other sigil, any info string without the own sigil)
   does not close a fence *)
Lemma other_char_ne sg : Ascii.eqb (sig_char (other_sig sg)) (sig_char sg) = false.
Proof. destruct sg; reflexivity. Qed.

Lemma starts_with_sig_other_head sg r :
  starts_with_sig sg (String (sig_char (other_sig sg)) r) = None.
Proof. unfold starts_with_sig. destruct r as [|b [|c r']]; try reflexivity. rewrite other_char_ne. reflexivity. Qed.

Lemma find_sig_other_line sg ind raw :
  all_blank ind = true -> find_sig sg raw = None ->
  find_sig sg (ind ++ sig_str (other_sig sg) ++ raw) = None.
Proof.
  intros Hb Hr. induction ind as [|c ind IH].
  - cbn [append]. unfold sig_str. cbn [append find_sig].
    rewrite !starts_with_sig_other_head, Hr. reflexivity.
  - cbn [all_blank] in Hb. apply andb_prop in Hb as [Hc Hp].
    cbn [append find_sig]. rewrite (starts_with_sig_blank _ _ _ Hc), (IH Hp). reflexivity.
Qed.

(* ------------------------------------------------------------------------ the scanner *)
Section ScanP.
  Context {A : Type}.
  Variable is_code : A -> bool.
  Variable dflt : A.
  Notation scan_go := (@scan_go A is_code).
  Notation render := (@render A dflt).
  Notation render_block := (@render_block A dflt).
  Notation wf_blocks := (@wf_blocks A is_code).

  (* inside a fence: lines without the own sigil are body, the first line with it closes *)
  Lemma scan_body_lines ind sg raw body : forall acc rest,
    (forall l, In l body -> find_sig sg (fst l) = None) ->
    scan_go (InFence ind sg raw acc) (body ++ rest) = scan_go (InFence ind sg raw (List.rev body ++ acc)) rest.
  Proof.
    induction body as [|l body IH]; intros acc rest Hb; [reflexivity|].
    cbn [List.app scan_go]. rewrite (Hb l (or_introl eq_refl)).
    rewrite IH by (intros l' Hl'; apply Hb; right; exact Hl').
    cbn [List.rev]. rewrite <- app_assoc. reflexivity.
  Qed.

  Lemma render_cons b bs : render (b :: bs) = (render_block b ++ render bs)%list.
  Proof. reflexivity. Qed.

  (* (a) render / scan round trip *)
  Theorem scan_render bs : forall eat,
    wf_blocks eat bs -> scan_go (Top eat) (render bs) = Closed bs.
  Proof.
    induction bs as [|b bs IH]; intros eat Hwf; [reflexivity|].
    rewrite render_cons. destruct b as [f|l].
    - cbn [DocScan.wf_blocks] in Hwf. destruct Hwf as (Hind & Heat & Hbody & Hpre & Hrest).
      cbn [DocScan.render_block List.app DocScan.scan_go fst].
      unfold open_line. rewrite (opener_render eat _ _ _ Hind Heat).
      rewrite <- app_assoc. rewrite (scan_body_lines _ _ _ _ [] _ Hbody).
      cbn [List.app DocScan.scan_go fst]. unfold close_line. rewrite (find_sig_blank_prefix _ _ _ Hpre).
      rewrite app_nil_r, rev_involutive, (IH true Hrest). destruct f; reflexivity.
    - cbn [DocScan.wf_blocks] in Hwf. destruct Hwf as (Hno & Hrest).
      cbn [DocScan.render_block List.app DocScan.scan_go].
      rewrite (opener_true_none eat _ Hno), (IH _ Hrest). reflexivity.
  Qed.

  Corollary scan_render_doc bs : wf_blocks true bs -> scan is_code (render bs) = Closed bs.
  Proof. apply scan_render. Qed.

  (* state carried by the scanner after the blocks bs *)
  Fixpoint eat_after (eat : bool) (bs : list (block A)) : bool :=
    match bs with
    | [] => eat
    | BFence _ :: r => eat_after true r
    | BLine l :: r => eat_after (next_eat is_code eat l) r
    end.

  Lemma scan_render_app bs : forall eat rest,
    wf_blocks eat bs ->
    scan_go (Top eat) (render bs ++ rest) =
    match scan_go (Top (eat_after eat bs)) rest with
    | Closed bs' => Closed (bs ++ bs')
    | Unclosed bs' i s r b => Unclosed (bs ++ bs') i s r b
    end.
  Proof.
    induction bs as [|b bs IH]; intros eat rest Hwf.
    - cbn [DocScan.render flat_map List.app eat_after]. destruct (scan_go (Top eat) rest); reflexivity.
    - rewrite render_cons, <- app_assoc. destruct b as [f|l].
      + cbn [DocScan.wf_blocks] in Hwf. destruct Hwf as (Hind & Heat & Hbody & Hpre & Hrest).
        cbn [DocScan.render_block List.app DocScan.scan_go fst eat_after].
        unfold open_line. rewrite (opener_render eat _ _ _ Hind Heat).
        rewrite <- app_assoc. rewrite (scan_body_lines _ _ _ _ [] _ Hbody).
        cbn [List.app DocScan.scan_go fst]. unfold close_line. rewrite (find_sig_blank_prefix _ _ _ Hpre).
        rewrite app_nil_r, rev_involutive, (IH true rest Hrest).
        destruct (scan_go (Top (eat_after true bs)) rest); destruct f; reflexivity.
      + cbn [DocScan.wf_blocks] in Hwf. destruct Hwf as (Hno & Hrest).
        cbn [DocScan.render_block List.app DocScan.scan_go eat_after].
        rewrite (opener_true_none eat _ Hno), (IH _ rest Hrest).
        destruct (scan_go (Top (eat_after (next_eat is_code eat l) bs)) rest); reflexivity.
  Qed.

  (* an opening line that is followed only by lines without its sigil: the fence is never closed, whatever the
     other sigil type does in those lines *)
  Theorem scan_unclosed bs ind sg raw body :
    wf_blocks true bs -> all_blank ind = true -> (eat_after true bs = true \/ ind = "") ->
    (forall l, In l body -> find_sig sg (fst l) = None) ->
    scan is_code (render bs ++ (ind ++ sig_str sg ++ raw, dflt) :: body) = Unclosed bs ind sg raw body.
  Proof.
    intros Hwf Hind Heat Hbody. unfold scan. rewrite (scan_render_app _ _ _ Hwf).
    cbn [DocScan.scan_go fst]. rewrite (opener_render _ _ _ _ Hind Heat).
    rewrite <- (app_nil_r body), (scan_body_lines _ _ _ _ [] [] Hbody). cbn [DocScan.scan_go].
    rewrite !app_nil_r, rev_involutive. reflexivity.
  Qed.

  (* the scanner loses no text and invents none *)
  Lemma res_lines_cons b r : res_lines dflt (cons_block b r) = (map fst (render_block b) ++ res_lines dflt r)%list.
  Proof.
    destruct r as [bs|bs i s rw bd]; cbn [cons_block res_lines]; rewrite render_cons, map_app; [reflexivity|].
    rewrite <- app_assoc. reflexivity.
  Qed.

  Theorem scan_text ls : forall m,
    res_lines dflt (scan_go m ls) =
    match m with
    | Top _ => map fst ls
    | InFence ind sg raw acc => (ind ++ sig_str sg ++ raw) :: map fst (List.rev acc) ++ map fst ls
    end.
  Proof.
    induction ls as [|l ls IH]; intros m.
    - destruct m as [eat|ind sg raw acc]; cbn [DocScan.scan_go res_lines DocScan.render flat_map map List.app];
        [reflexivity|]. rewrite app_nil_r. reflexivity.
    - destruct m as [eat|ind sg raw acc]; cbn [DocScan.scan_go].
      + destruct (opener eat (fst l)) as [[[ind sg] raw]|] eqn:Eo.
        * rewrite IH. cbn [List.rev map List.app]. apply opener_sound in Eo. rewrite <- Eo. reflexivity.
        * rewrite res_lines_cons, IH. reflexivity.
      + destruct (find_sig sg (fst l)) as [[pre post]|] eqn:Ef.
        * rewrite res_lines_cons, IH. apply find_sig_sound in Ef.
          cbn [DocScan.render_block map f_body fst]. unfold open_line, close_line. cbn [f_ind f_sig f_raw f_pre f_post].
          rewrite map_app. cbn [map fst List.app]. rewrite <- Ef, <- app_assoc. reflexivity.
        * rewrite IH. cbn [List.rev]. rewrite map_app. cbn [map List.app]. rewrite <- app_assoc. reflexivity.
  Qed.

  Corollary scan_loses_nothing ls : res_lines dflt (scan is_code ls) = map fst ls.
  Proof. apply (scan_text ls (Top true)). Qed.
End ScanP.

(* ------------------------------------------------------------------------ the info string *)
Definition no_colon_head (n : string) : Prop := match n with String ":"%char _ => False | _ => True end.

Lemma trim_colon_id n : no_colon_head n -> trim_colon n = n.
Proof. destruct n as [|c r]; [reflexivity|]. cbn. intros H. destruct c as [[] [] [] [] [] [] [] []]; try reflexivity. contradiction. Qed.

(* everything after "mech:" / "mec:" is the name: nothing of it is eaten, whatever letters it starts with *)
Theorem mech_rest_name n : no_colon_head n -> mech_rest ("mech:" ++ n) = n /\ mech_rest ("mec:" ++ n) = n.
Proof. intros H. unfold mech_rest. cbn. rewrite (trim_colon_id _ H). split; reflexivity. Qed.

Definition reserved_name (n : string) : bool :=
  String.eqb n "" || String.eqb n "disabled" || String.eqb n "hidden".

Theorem classify_named n :
  no_colon_head n -> reserved_name n = false ->
  classify_tag ("mech:" ++ n) = TNamed n /\ classify_tag ("mec:" ++ n) = TNamed n.
Proof.
  intros Hc Hr. unfold reserved_name in Hr.
  apply orb_false_elim in Hr as [Hr Hh]. apply orb_false_elim in Hr as [He Hd].
  destruct (mech_rest_name n Hc) as [R1 R2].
  unfold classify_tag. split.
  - change (String.eqb ("mech:" ++ n) "ebnf") with false. change (prefix "mech" ("mech:" ++ n)) with true.
    cbn [orb]. cbv zeta. rewrite R1, He, Hd, Hh. reflexivity.
  - change (String.eqb ("mec:" ++ n) "ebnf") with false.
    change (prefix "mech" ("mec:" ++ n)) with false. change (prefix "mec" ("mec:" ++ n)) with true.
    cbn [orb]. cbv zeta. rewrite R2, He, Hd, Hh. reflexivity.
Qed.

Theorem classify_reserved :
  classify_tag "mech" = TUnnamed /\ classify_tag "mech:" = TUnnamed /\ classify_tag "mec" = TUnnamed /\
  classify_tag "mech:disabled" = TDisabled /\ classify_tag "mech:hidden" = THidden /\
  classify_tag "python" = TPlain /\ classify_tag "" = TPlain /\ classify_tag "`mech" = TPlain /\
  classify_tag "me" = TPlain /\ classify_tag "Mech" = TPlain.
Proof. repeat split; reflexivity. Qed.

(* (c) the splitter is injective on names *)
Theorem classify_injective n1 n2 :
  no_colon_head n1 -> no_colon_head n2 -> reserved_name n1 = false -> reserved_name n2 = false ->
  (classify_tag ("mech:" ++ n1) = classify_tag ("mech:" ++ n2) <-> n1 = n2).
Proof.
  intros H1 H2 R1 R2. split; [|intros ->; reflexivity].
  rewrite (proj1 (classify_named n1 H1 R1)), (proj1 (classify_named n2 H2 R2)). intros H. injection H as ->. reflexivity.
Qed.

(* names over the identifier alphabet (letters — m, e, c, h included —, digits, dash, underscore) *)
Definition ident_char (c : ascii) : bool :=
  let n := nat_of_ascii c in
  (Nat.leb 97 n && Nat.leb n 122) || (Nat.leb 65 n && Nat.leb n 90) || (Nat.leb 48 n && Nat.leb n 57)
  || Ascii.eqb c "-"%char || Ascii.eqb c "_"%char.
Fixpoint ident_chars (s : string) : bool :=
  match s with EmptyString => true | String c r => ident_char c && ident_chars r end.

Lemma ident_no_colon n : ident_chars n = true -> no_colon_head n.
Proof.
  destruct n as [|c r]; [exact (fun _ => I)|]. cbn [ident_chars]. intros H. apply andb_prop in H as [H _].
  unfold no_colon_head. destruct c as [[] [] [] [] [] [] [] []]; try exact I. discriminate.
Qed.

Theorem classify_ident_injective n1 n2 :
  ident_chars n1 = true -> ident_chars n2 = true -> reserved_name n1 = false -> reserved_name n2 = false ->
  (classify_tag ("mech:" ++ n1) = classify_tag ("mech:" ++ n2) <-> n1 = n2) /\
  classify_tag ("mech:" ++ n1) = TNamed n1.
Proof.
  intros I1 I2 R1 R2. split.
  - apply classify_injective; auto using ident_no_colon.
  - apply classify_named; auto using ident_no_colon.
Qed.

(* ------------------------------------------------------------------------ what a scanned document executes *)
Open Scope list_scope.
Section ExecP.
  Context {S stmt : Type}.
  Variable exec : S -> stmt -> res S.
  Variable cmt : S -> S.
  Variable init : S.
  (* how a tag is read: [keep_tag] (the code) or [rtrim] (without the blanks at its end) or anything else *)
  Variable norm : string -> string.
  Notation blockT := (block (role stmt)).
  Notation run_doc := (@run_doc S stmt string exec cmt init).
  Notation run_items := (@run_items S stmt exec cmt).
  Notation elem_of_block := (@elem_of_block stmt norm).
  Notation elems_of := (@elems_of stmt norm).
  Notation main_of_block := (@main_of_block stmt norm).
  Notation ns_of_block := (@ns_of_block stmt norm).
  Notation block_executes := (@block_executes stmt norm).
  Notation fence_kind := (@fence_kind stmt norm).
  Notation doc_elems := (@doc_elems stmt norm).

  Lemma main_items_app (d1 d2 : list (elem stmt string)) : main_items (d1 ++ d2) = main_items d1 ++ main_items d2.
  Proof. unfold main_items. apply flat_map_app. Qed.

  Lemma main_of_block_ok (b : blockT) : main_items (elem_of_block b) = main_of_block b.
  Proof.
    destruct b as [f|l]; cbn [DocScan.elem_of_block DocScan.main_of_block].
    - destruct (fence_kind f); cbn; rewrite ?app_nil_r; reflexivity.
    - unfold item_of_line. destruct (snd l); cbn; reflexivity.
  Qed.

  (* (b) the main program of a document = the code lines outside fences and the bodies of the mech / mech:hidden
     fences, in document order *)
  Theorem main_of_blocks (bs : list blockT) : main_items (elems_of bs) = flat_map main_of_block bs.
  Proof.
    induction bs as [|b bs IH]; [reflexivity|].
    unfold DocScan.elems_of in *. cbn [flat_map]. rewrite main_items_app, IH, main_of_block_ok. reflexivity.
  Qed.

  Lemma ns_fences_app n (d1 d2 : list (elem stmt string)) : ns_fences n (d1 ++ d2) = ns_fences n d1 ++ ns_fences n d2.
  Proof.
    induction d1 as [|e d1 IH]; [reflexivity|]. cbn [List.app ns_fences].
    destruct (ns_items_of n e); rewrite IH; reflexivity.
  Qed.

  Lemma ns_of_block_ok n (b : blockT) : ns_fences n (elem_of_block b) = ns_of_block n b.
  Proof.
    destruct b as [f|l]; cbn [DocScan.elem_of_block DocScan.ns_of_block].
    - destruct (fence_kind f); cbn; try reflexivity. destruct (String.eqb n n0); reflexivity.
    - destruct (snd l); reflexivity.
  Qed.

  (* the program of namespace n = the bodies of the fences whose name is n, in document order *)
  Theorem ns_of_blocks n (bs : list blockT) : ns_fences n (elems_of bs) = flat_map (ns_of_block n) bs.
  Proof.
    induction bs as [|b bs IH]; [reflexivity|].
    unfold DocScan.elems_of in *. cbn [flat_map]. rewrite ns_fences_app, IH, ns_of_block_ok. reflexivity.
  Qed.

  Lemma strip_prose_app (d1 d2 : list (elem stmt string)) : strip_prose (d1 ++ d2) = strip_prose d1 ++ strip_prose d2.
  Proof. unfold strip_prose. apply filter_app. Qed.

  Lemma strip_block (b : blockT) :
    strip_prose (elem_of_block b) = if block_executes b then elem_of_block b else [].
  Proof.
    destruct b as [f|l]; cbn [DocScan.elem_of_block DocScan.block_executes].
    - destruct (fence_kind f); reflexivity.
    - destruct (snd l); reflexivity.
  Qed.

  Lemma strip_elems (bs : list blockT) : strip_prose (elems_of bs) = elems_of (filter block_executes bs).
  Proof.
    induction bs as [|b bs IH]; [reflexivity|].
    unfold DocScan.elems_of in *. cbn [flat_map filter]. rewrite strip_prose_app, IH, strip_block.
    destruct (block_executes b) eqn:E; [|reflexivity].
    cbn [flat_map]. reflexivity.
  Qed.

  (* prose lines, blank lines and plain / other-language / disabled fences contribute nothing *)
  Theorem inert_blocks_contribute_nothing (bs : list blockT) :
    run_doc (elems_of (filter block_executes bs)) = run_doc (elems_of bs).
  Proof. rewrite <- strip_elems. apply (prose_inert exec cmt init). Qed.

  Theorem scanned_main_store (bs : list blockT) :
    d_main (run_doc (elems_of bs)) = fst (run_items init (flat_map main_of_block bs)) /\
    d_halted (run_doc (elems_of bs)) = negb (snd (run_items init (flat_map main_of_block bs))).
  Proof. rewrite <- main_of_blocks. apply main_is_code_in_order. Qed.

  Theorem scanned_namespace_store n (bs : list blockT) :
    lookup n (d_subs (run_doc (elems_of bs))) = ns_result exec cmt init n (live exec cmt init (elems_of bs)).
  Proof. apply namespace_is_its_fences. Qed.

  (* written and read back: the document executes what its blocks say *)
  Theorem doc_elems_render (bs : list blockT) :
    wf_blocks role_is_code true bs -> doc_elems (render RFence bs) = Some (elems_of bs).
  Proof. intros H. unfold DocScan.doc_elems, scan_doc. rewrite (scan_render_doc _ _ _ H). reflexivity. Qed.

  Theorem doc_elems_unclosed (bs : list blockT) ind sg raw body :
    wf_blocks role_is_code true bs -> all_blank ind = true -> (eat_after role_is_code true bs = true \/ ind = "") ->
    (forall l, In l body -> find_sig sg (fst l) = None) ->
    doc_elems (render RFence bs ++ ((ind ++ sig_str sg ++ raw)%string, RFence) :: body) = None.
  Proof. intros H1 H2 H3 H4. unfold DocScan.doc_elems, scan_doc. rewrite (scan_unclosed _ _ _ _ _ _ _ H1 H2 H3 H4). reflexivity. Qed.

  (* two fences run in the same interpreter iff they have the same name *)
  Theorem same_namespace_iff (f1 f2 : fence (role stmt)) n1 n2 :
    fence_kind f1 = TNamed n1 -> fence_kind f2 = TNamed n2 ->
    ((exists n, ns_of_block n (BFence f1) <> [] /\ ns_of_block n (BFence f2) <> []) <-> n1 = n2).
  Proof.
    intros K1 K2. cbn [DocScan.ns_of_block]. rewrite K1, K2. split.
    - intros (n & A & B). destruct (String.eqb n n1) eqn:E1; [|contradiction]. destruct (String.eqb n n2) eqn:E2; [|contradiction].
      apply String.eqb_eq in E1, E2. congruence.
    - intros ->. exists n2. rewrite String.eqb_refl. split; discriminate.
  Qed.
End ExecP.

(* ------------------------------------------------------------------------ the judge *)
Lemma ikind_eqb_eq a b : ikind_eqb a b = true -> a = b.
Proof. destruct a, b; cbn; congruence. Qed.
Lemma ikinds_eqb_eq a : forall b, ikinds_eqb a b = true -> a = b.
Proof.
  induction a as [|x a IH]; intros [|y b]; cbn; try discriminate; [reflexivity|].
  intros H. apply andb_prop in H as [H1 H2]. apply ikind_eqb_eq in H1. apply IH in H2. congruence.
Qed.
Lemma sblock_eqb_eq a b : sblock_eqb a b = true -> a = b.
Proof.
  destruct a, b; cbn; try discriminate.
  - intros H. repeat (apply andb_prop in H as [H ?]).
    apply String.eqb_eq in H. apply ikinds_eqb_eq in H0.
    apply Bool.eqb_prop in H1, H2, H3. congruence.
  - intros H. apply String.eqb_eq in H. congruence.
  - intros H. apply ikinds_eqb_eq in H. congruence.
Qed.
Lemma sblocks_eqb_eq a : forall b, sblocks_eqb a b = true -> a = b.
Proof.
  induction a as [|x a IH]; intros [|y b]; cbn; try discriminate; [reflexivity|].
  intros H. apply andb_prop in H as [H1 H2]. apply sblock_eqb_eq in H1. apply IH in H2. congruence.
Qed.

(* what an `ok` of the algebra comparison means (as C10_spec of Proofs/DocP.v, for the scanned elements) *)
Definition algebra_spec (d : list (elem jstmt string)) (D M : dobs) (rest : list dobs) : Prop :=
  o_src M = main_only d /\ is_perr (o_res D) = false /\ o_res D = o_res M /\ o_main D = o_main M /\
  List.length (o_subs D) = List.length (ns_names d) /\ ns_spec d D (ns_names d) rest.

Lemma judge_algebra_ok stream d D M rest tag :
  judge_algebra stream d D M rest = Some (v_ok tag) -> algebra_spec d D M rest.
Proof.
  unfold judge_algebra.
  destruct (String.eqb (o_src M) (main_only d)) eqn:Es; cbn [negb]; [|discriminate]. apply String.eqb_eq in Es.
  destruct (is_perr (o_res M)); [discriminate|].
  destruct (is_perr (o_res D)) eqn:Ep.
  { destruct (negb (stream_binding stream)); [discriminate|]. destruct (kf_list_dash d); discriminate. }
  destruct (ns_checks d D (ns_names d) rest) as [nsr|] eqn:En; [|discriminate].
  destruct (sx_eqb (o_res D) (o_res M)) eqn:Er; cbn [negb]; [|discriminate].
  destruct (Nat.eqb (List.length (o_subs D)) (List.length (ns_names d))) eqn:El; cbn [negb]; [|discriminate].
  destruct (table_check (last_is_cmt (d_main (jrun d))) (o_main D) (o_main M)) eqn:Et; destruct nsr; try discriminate.
  intros _. unfold algebra_spec. repeat split; try assumption.
  - apply sx_eqb_eq, Er.
  - eapply table_check_eq, Et.
  - apply Nat.eqb_eq, El.
  - apply ns_checks_eq, En.
Qed.

Lemma v_ok_inj a b : v_ok a = v_ok b -> a = b.
Proof. unfold v_ok. intros H. injection H as ->. reflexivity. Qed.
Lemma sx_eqb_v_ok s : sx_eqb (v_ok s) (v_ok s) = true.
Proof. unfold v_ok. cbn. rewrite String.eqb_refl. reflexivity. Qed.

(* the algebra comparison answers `ok` only with the stream as tag, and never a finding id of the scanner *)
Lemma judge_algebra_ok_tag stream d D M rest tag :
  judge_algebra stream d D M rest = Some (v_ok tag) -> tag = stream.
Proof.
  unfold judge_algebra.
  destruct (negb (String.eqb (o_src M) (main_only d))); [discriminate|].
  destruct (is_perr (o_res M)); [discriminate|].
  destruct (is_perr (o_res D)).
  { destruct (negb (stream_binding stream)); [discriminate|]. destruct (kf_list_dash d); discriminate. }
  destruct (ns_checks d D (ns_names d) rest) as [nsr|]; [|discriminate].
  destruct (negb (sx_eqb (o_res D) (o_res M))); [discriminate|].
  destruct (negb (Nat.eqb (List.length (o_subs D)) (List.length (ns_names d)))); [discriminate|].
  destruct (table_check (last_is_cmt (d_main (jrun d))) (o_main D) (o_main M)); destruct nsr; try discriminate.
  intros H. injection H as ->. reflexivity.
Qed.

(* what an `ok` of one reading of the tags means: every block is of a modelled shape, the parsed tree has exactly the
   model's fenced blocks and top-level code runs (kinds, names, disabled / hidden flags, items, bodies), and the tables
   of the document equal those of the code-only documents of the scanned elements *)
Definition variant_spec (norm : string -> string) (pl : list (string * role jstmt)) (bs : list (block (role jstmt)))
                        (D : dobs) (got : list sblock) (rest : list (dobs * option (list sblock))) : Prop :=
  exists M x rest', rest = (M, x) :: rest' /\ anomaly norm pl bs = None /\ summary norm bs = got /\
    algebra_spec (elems_of norm bs) D M (map fst rest').

Lemma judge_variant_ok norm stream pl bs D got rest tag :
  judge_variant norm stream pl bs D got rest = Some (v_ok tag) -> tag = stream /\ variant_spec norm pl bs D got rest.
Proof.
  unfold judge_variant. destruct (anomaly norm pl bs) eqn:Ea; [discriminate|].
  destruct (forallb elem_ok (elems_of norm bs)); cbn [negb]; [|discriminate].
  destruct rest as [|[M x] rest']; [discriminate|].
  destruct (judge_algebra stream (elems_of norm bs) D M (map fst rest')) as [v|] eqn:Ej; [|discriminate].
  destruct (sx_eqb v (v_ok stream)) eqn:Eok; cbn [negb].
  - apply sx_eqb_eq in Eok. subst v. apply judge_algebra_ok in Ej.
    unfold blocks_check. destruct (sblocks_eqb (summary norm bs) got) eqn:Eb.
    + intros H. injection H as <-. split; [reflexivity|].
      exists M, x, rest'. split; [reflexivity|]. split; [exact Ea|]. split; [apply sblocks_eqb_eq, Eb|exact Ej].
    + destruct (sblocks_eqb (fences_only (summary norm bs)) (fences_only got)); [|discriminate].
      destruct (stream_binding stream); discriminate.
  - intros H. injection H as ->. apply judge_algebra_ok_tag in Ej. subst tag.
    rewrite sx_eqb_v_ok in Eok. discriminate.
Qed.

(* the property that an `ok` verdict of the line judge transports to the implementation's behaviour on the case:
   the document is exactly the lines; either the model finds a fence that is never closed and the real parser rejected
   the document, or the model finds the blocks bs and the observation is what the model says — under the code's reading
   of the tags outside the class fence-info-trailing-blank, under the reading without the blanks inside it *)
Definition C10_scan_spec (ls : list jline) (os : list (dobs * option (list sblock))) : Prop :=
  exists D got rest, os = (D, Some got) :: rest /\ o_src D = unlines ls /\
    ((exists bs i s r b, scan_doc (prep ls) = Unclosed bs i s r b /\ is_perr (o_res D) = true) \/
     (exists bs, scan_doc (prep ls) = Closed bs /\
        ((kf_trailing_blank bs = false /\ variant_spec keep_tag (prep ls) bs D got rest) \/
         (kf_trailing_blank bs = true /\ exists bsT n, scan_doc (prep_sel true ls) = Closed bsT /\
            variant_spec rtrim (prep_sel true ls) bsT D got (firstn n rest))))).

Theorem judge_lines0_sound stream listed ls os tag :
  judge_lines0 stream listed ls os = Some (v_ok tag) -> C10_scan_spec ls os.
Proof.
  unfold judge_lines0. destruct os as [|[D [got|]] rest]; try discriminate.
  destruct (String.eqb (o_src D) (unlines ls)) eqn:Es; cbn [negb]; [|discriminate]. apply String.eqb_eq in Es.
  destruct (scan_doc (prep ls)) as [bs|bs i s r b] eqn:Esc.
  - destruct (kf_trailing_blank bs) eqn:Ek; cbn [negb].
    + destruct (scan_doc (prep_sel true ls)) as [bsT|] eqn:EscT; [|discriminate].
      set (n := Datatypes.S (2 * List.length (ns_names (elems_of rtrim bsT)))).
      destruct (judge_variant rtrim stream (prep_sel true ls) bsT D got (firstn n rest)) as [vS|] eqn:EvS; [|discriminate].
      destruct (judge_variant keep_tag stream (prep ls) bs D got (skipn n rest)) as [vI|] eqn:EvI; [|discriminate].
      destruct (sx_eqb vS (v_ok stream)) eqn:EokS.
      * apply sx_eqb_eq in EokS. subst vS. intros _. apply judge_variant_ok in EvS as [_ Hs].
        exists D, got, rest. split; [reflexivity|]. split; [exact Es|]. right. exists bs. split; [exact Esc|].
        right. split; [exact Ek|]. exists bsT, n. split; [exact EscT|exact Hs].
      * destruct (sx_eqb vI (v_ok stream)).
        { destruct (mem "fence-info-trailing-blank" listed); discriminate. }
        intros H. injection H as ->. apply judge_variant_ok in EvS as [-> _].
        rewrite sx_eqb_v_ok in EokS. discriminate.
    + intros H. apply judge_variant_ok in H as [_ Hs].
      exists D, got, rest. split; [reflexivity|]. split; [exact Es|]. right. exists bs. split; [exact Esc|].
      left. split; [exact Ek|exact Hs].
  - destruct (line_blocks_anomaly bs); [discriminate|].
    destruct (is_perr (o_res D)) eqn:Ep; [|discriminate].
    intros _. exists D, got, rest. split; [reflexivity|]. split; [exact Es|]. left.
    exists bs, i, s, r, b. split; [exact Esc|exact Ep].
Qed.

(* a `kf fence-info-trailing-blank` verdict is given only inside the class and only when the observation is the
   model's prediction of what the real code does there (tree and tables), under the code's reading of the tags *)
Lemma judge_variant_never_kf norm stream pl bs D got rest :
  judge_variant norm stream pl bs D got rest <> Some (v_kf "fence-info-trailing-blank").
Proof.
  unfold judge_variant. destruct (anomaly norm pl bs); [discriminate|].
  destruct (negb (forallb elem_ok (elems_of norm bs))); [discriminate|].
  destruct rest as [|[M x] rest']; [discriminate|].
  destruct (judge_algebra stream (elems_of norm bs) D M (map fst rest')) as [v|] eqn:Ej; [|discriminate].
  destruct (sx_eqb v (v_ok stream)) eqn:Eok; cbn [negb].
  - apply sx_eqb_eq in Eok. subst v. destruct (blocks_check (summary norm bs) got); try discriminate.
    destruct (stream_binding stream); discriminate.
  - intros H. injection H as ->. revert Ej. unfold judge_algebra.
    destruct (negb (String.eqb (o_src M) (main_only (elems_of norm bs)))); [discriminate|].
    destruct (is_perr (o_res M)); [discriminate|].
    destruct (is_perr (o_res D)).
    { destruct (negb (stream_binding stream)); [discriminate|]. destruct (kf_list_dash (elems_of norm bs)); discriminate. }
    destruct (ns_checks (elems_of norm bs) D (ns_names (elems_of norm bs)) (map fst rest')) as [nsr|]; [|discriminate].
    destruct (negb (sx_eqb (o_res D) (o_res M))); [discriminate|].
    destruct (negb (Nat.eqb (List.length (o_subs D)) (List.length (ns_names (elems_of norm bs))))); [discriminate|].
    destruct (table_check (last_is_cmt (d_main (jrun (elems_of norm bs)))) (o_main D) (o_main M)); destruct nsr; discriminate.
Qed.

Theorem judge_lines0_kf_sound stream listed ls os :
  judge_lines0 stream listed ls os = Some (v_kf "fence-info-trailing-blank") ->
  exists D got rest bs n, os = (D, Some got) :: rest /\ scan_doc (prep ls) = Closed bs /\
    kf_trailing_blank bs = true /\ variant_spec keep_tag (prep ls) bs D got (skipn n rest).
Proof.
  unfold judge_lines0. destruct os as [|[D [got|]] rest]; try discriminate.
  destruct (String.eqb (o_src D) (unlines ls)); cbn [negb]; [|discriminate].
  destruct (scan_doc (prep ls)) as [bs|bs i s r b] eqn:Esc.
  - destruct (kf_trailing_blank bs) eqn:Ek; cbn [negb].
    + destruct (scan_doc (prep_sel true ls)) as [bsT|] eqn:EscT; [|discriminate].
      set (n := Datatypes.S (2 * List.length (ns_names (elems_of rtrim bsT)))).
      destruct (judge_variant rtrim stream (prep_sel true ls) bsT D got (firstn n rest)) as [vS|] eqn:EvS; [|discriminate].
      destruct (judge_variant keep_tag stream (prep ls) bs D got (skipn n rest)) as [vI|] eqn:EvI; [|discriminate].
      destruct (sx_eqb vS (v_ok stream)) eqn:EokS.
      * apply sx_eqb_eq in EokS. subst vS. discriminate.
      * destruct (sx_eqb vI (v_ok stream)) eqn:EokI.
        -- apply sx_eqb_eq in EokI. subst vI. intros _. apply judge_variant_ok in EvI as [_ Hs].
           exists D, got, rest, bs, n. split; [reflexivity|]. split; [first [reflexivity|exact Esc]|].
           split; [first [exact Ek|reflexivity]|exact Hs].
        -- intros H. injection H as ->. exfalso. exact (judge_variant_never_kf _ _ _ _ _ _ _ EvS).
    + intros H. exfalso. exact (judge_variant_never_kf _ _ _ _ _ _ _ H).
  - destruct (line_blocks_anomaly bs); [discriminate|]. destruct (is_perr (o_res D)); discriminate.
Qed.

(* the class quote-swallows-after-whitespace-line only turns would-be violations into an advisory verdict *)
Lemma judge_lines_inv stream listed ls os v :
  judge_lines stream listed ls os = Some v ->
  judge_lines0 stream listed ls os = Some v \/
  (v = v_adv "finding-quote-swallows-after-whitespace-line" /\ quote_ws_doc ls = true /\
   exists w, judge_lines0 stream listed ls os = Some w /\ is_violation w = true).
Proof.
  unfold judge_lines. destruct (judge_lines0 stream listed ls os) as [w|]; [|discriminate].
  destruct (is_violation w) eqn:Ev; cbn [andb]; [|intros H; left; exact H].
  destruct (quote_ws_doc ls) eqn:Eq; [|intros H; left; exact H].
  intros H. injection H as <-. right. split; [reflexivity|]. split; [reflexivity|]. exists w. split; [reflexivity|exact Ev].
Qed.

Theorem judge_lines_sound stream listed ls os tag :
  judge_lines stream listed ls os = Some (v_ok tag) -> C10_scan_spec ls os.
Proof.
  intros H. apply judge_lines_inv in H as [H|(H & _)]; [eapply judge_lines0_sound, H|discriminate].
Qed.

Theorem judge_lines_kf_sound stream listed ls os :
  judge_lines stream listed ls os = Some (v_kf "fence-info-trailing-blank") ->
  exists D got rest bs n, os = (D, Some got) :: rest /\ scan_doc (prep ls) = Closed bs /\
    kf_trailing_blank bs = true /\ variant_spec keep_tag (prep ls) bs D got (skipn n rest).
Proof.
  intros H. apply judge_lines_inv in H as [H|(H & _)]; [eapply judge_lines0_kf_sound, H|discriminate].
Qed.

(* ------------------------------------------------------------------------ finding fence-info-trailing-blank *)
Lemma tagkind_eqb_eq a b : tagkind_eqb a b = true -> a = b.
Proof. destruct a, b; cbn; try discriminate; try reflexivity. intros H. apply String.eqb_eq in H. congruence. Qed.

(* the code's reading of a tag keeps the blanks at its end: an unnamed fence becomes the namespace " ", a disabled
   fence is executed, equal names become different namespaces *)
Theorem trailing_blank_refuted :
  classify_tag (keep_tag "mech ") = TNamed " " /\ classify_tag (rtrim "mech ") = TUnnamed /\
  classify_tag (keep_tag "mech:disabled ") = TNamed "disabled " /\ classify_tag (rtrim "mech:disabled ") = TDisabled /\
  classify_tag (keep_tag "mech:a ") <> classify_tag (keep_tag "mech:a") /\
  classify_tag (rtrim "mech:a ") = classify_tag (rtrim "mech:a").
Proof. repeat split; try reflexivity. discriminate. Qed.

Section Readings.
  Context {stmt : Type}.
  Definition block_in_class (b : block (role stmt)) : bool :=
    match b with BFence f => tag_trailing_blank (f_raw f) | BLine _ => false end.

  (* outside the class both readings see the same document *)
  Theorem readings_agree (bs : list (block (role stmt))) :
    existsb block_in_class bs = false -> elems_of keep_tag bs = elems_of rtrim bs.
  Proof.
    induction bs as [|b bs IH]; [reflexivity|]. cbn [existsb]. intros H.
    apply orb_false_elim in H as [Hb Hr]. unfold elems_of in *. cbn [flat_map]. rewrite (IH Hr). f_equal.
    destruct b as [f|l]; [|reflexivity]. cbn [block_in_class] in Hb. unfold tag_trailing_blank in Hb.
    apply negb_false_iff, tagkind_eqb_eq in Hb. cbn [elem_of_block]. unfold fence_kind, keep_tag. rewrite Hb. reflexivity.
  Qed.
End Readings.

Lemma kf_trailing_blank_class (bs : list (block (role jstmt))) : kf_trailing_blank bs = existsb block_in_class bs.
Proof. reflexivity. Qed.
