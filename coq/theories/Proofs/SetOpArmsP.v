(* C14 — the binary set functions (operations ∪ ∩ ∖ Δ ×, relations ⊆ ⊇ ⊊ ⊋ == != disjoint) against the tables
   REGENERATED from the Rust source on every run (Gen/SetOpArms.v, written by translators/setop_arms.py).

   machines/set/src/{operations,relations}/*.rs are hand-made copies of one file.  For every function:

     compile()      binds lhs, rhs = arguments[0], [1]; calls its kernel-level function with (lhs, rhs) directly and in
                    each of the three operand-form arms, every reference unwrapped, nothing swapped      [so_compile_*]
     kernel level   fn f(lhs, rhs) matches (lhs, rhs) against (Value::Set(lhs), Value::Set(rhs)) and builds the kernel
                    struct with lhs <- lhs, rhs <- rhs; union and symmetric difference (only) first refuse operands of
                    different element kinds; the result set is allocated with the kind of lhs (operations)  [kfn_ok]
     kernel struct  fields lhs, rhs, out; new() (bytecode loader: Binary(out, arg1, arg2), lhs <- arg1, rhs <- arg2);
                    solve() is the reference body of the function: `out.set = lhs.set.<method>(&rhs.set)` with the
                    method of the file, receiver lhs, argument rhs, and — for every operation — the metadata of the
                    result recomputed FROM THE RESULT (num_elements = len, kind = kind of an element of the result, Empty
                    for the empty set: the result kind comes from the elements of both operands that survive, not from
                    the allocation with lhs' kind); emitted instruction (out, lhs, rhs)                [kernel_ok]

   Meaning: [so_compile_applies_kernel_to_lhs_rhs] (Proofs/SrcArmsP.compile_model_correct instantiated),
   [operation_solve_is_Fop]: the extracted solve() of ∪ ∩ ∖ Δ, read as a term, is [SetM.Fop o lhs rhs] (the
   faithful model of Model/SetM.v: lhs the receiver, rhs the argument), and [relation_solve_is_Frel]: the extracted
   boolean expression of ⊆ ⊊ ⊇ ⊋, EVALUATED as a term, is [SetM.Frel r lhs rhs] for all operands.

   Irregularities of the unchanged tree that are encoded: the element-kind guard exists for union and symmetric
   difference only (intersection / difference / product of sets of different kinds are well defined); powerset is the
   only compiled-in one-operand function ([so_other]); operations/complement.rs is not compiled in (mod.rs). *)
From Coq Require Import List Arith Bool String Lia.
From MechV Require Import Base.Sexp Model.SrcArms Proofs.SrcArmsP Gen.SetOpArms Model.SetM.
Import ListNotations.
Open Scope string_scope.

Definition so_operations : list string := ["cartesian_product"; "difference"; "intersection"; "symmetric_difference"; "union"].
Definition so_relations : list string := ["disjoint"; "equals"; "not_equals"; "proper_subset"; "proper_superset"; "subset"; "superset"].

(* ---- 0. ------------------------------------------------------------------------------------------- *)
Theorem so_nothing_unrecognised :
  so_unrecognised = [] /\ map (fun e : string * string * string => (fst (fst e), snd (fst e))) so_other = [("operations", "powerset")].
Proof. split; vm_compute; reflexivity. Qed.

(* ---- 1. compile() ---------------------------------------------------------------------------------- *)
Definition kfn_entry : Type :=
  string * string * string * string * list string * tm * list tm * tm * string * list (string * string * string) * tm.

Definition scallee_of (g m : string) : option string :=
  match find (fun e : kfn_entry => let '(g', m', _, _, _, _, _, _, _, _, _) := e in String.eqb g g' && String.eqb m m') so_kernel_fns with
  | Some (_, _, _, n, _, _, _, _, _, _, _) => Some n
  | None => None
  end.

Definition so_compile_diag (c : cfn) : list string :=
  match cf_tag c with
  | [g; m] => match scallee_of g m with
              | Some f => cfn_diag f [0; 1] [0; 1] c
              | None => [cf_site c ++ ": no kernel-level function"]
              end
  | _ => [cf_site c ++ ": tag"]
  end.
Definition so_compile_ok (c : cfn) : bool :=
  match cf_tag c with
  | [g; m] => match scallee_of g m with Some f => cfn_ok f [0; 1] [0; 1] c | None => false end
  | _ => false
  end.

Definition so_compile_complete : bool :=
  list_eqb (list_eqb String.eqb) (map cf_tag so_compile)
           (List.app (map (fun m => ["operations"; m]) so_operations) (map (fun m => ["relations"; m]) so_relations)).

Theorem so_compile_sites : flat_map so_compile_diag so_compile = [].
Proof. vm_compute. reflexivity. Qed.

Theorem so_compile_regular : forallb so_compile_ok so_compile = true /\ so_compile_complete = true.
Proof. split; vm_compute; reflexivity. Qed.

Theorem so_compile_applies_kernel_to_lhs_rhs :
  forall (A R : Type) (c : cfn) (g m : string) (k : string -> list (rval A) -> option R) (a b : rval A),
    In c so_compile -> cf_tag c = [g; m] ->
    (forall f vs, existsb is_ref vs = true -> k f vs = None) ->
    exists r f, resolve_cfn c = Some r /\ scallee_of g m = Some f /\ compile_model r k [a; b] = k f [strip a; strip b].
Proof.
  intros A R c g m k a b Hin Htag Hk.
  assert (Hok : so_compile_ok c = true).
  { pose proof (proj1 so_compile_regular) as H. rewrite forallb_forall in H. now apply H. }
  unfold so_compile_ok in Hok. rewrite Htag in Hok.
  destruct (scallee_of g m) as [f|] eqn:Ef; [|discriminate].
  unfold cfn_ok in Hok. destruct (resolve_cfn c) as [r|] eqn:Er; [|discriminate].
  exists r, f. repeat split; try reflexivity.
  assert (Hn : rc_nargs r = 2).
  { clear - Hin Er.
    assert (H : forallb (fun c => match resolve_cfn c with Some r => Nat.eqb (rc_nargs r) 2 | None => false end) so_compile = true)
      by (vm_compute; reflexivity).
    rewrite forallb_forall in H. specialize (H c Hin). rewrite Er in H. now apply Nat.eqb_eq in H. }
  rewrite (compile_model_correct f [0; 1] [0; 1] r k [a; b] Hok); [reflexivity|now rewrite Hn| |exact Hk].
  intros i v Hi _. destruct i as [|[|i]]; try reflexivity. destruct i; discriminate.
Qed.

(* ---- 2. kernel-level functions ---------------------------------------------------------------------- *)
Definition kind_guard : tm :=
  T "block"
    [T "let" [T "tuple" [L "l"; L "r"]; T "tuple" [T ".borrow()" [L "lhs"]; T ".borrow()" [L "rhs"]]];
     T "if" [T "&&" [T "&&" [T ">" [T ".num_elements" [L "l"]; L "0"]; T ">" [T ".num_elements" [L "r"]; L "0"]];
                     T "!=" [T ".kind" [L "l"]; T ".kind" [L "r"]]];
             T "block" [T "return" [T "call" [L "Err"; T ".with_compiler_loc()"
               [T "call" [L "MechError::new";
                          T "struct" [L "SetKindMismatchError"; T "expected_kind:" [T ".kind" [L "l"]]; T "actual_kind:" [T ".kind" [L "r"]]];
                          L "None"]]]]]]].

Definition guarded (m : string) : bool := str_in m ["union"; "symmetric_difference"].

Definition num_of (v : string) : tm := T ".num_elements" [T ".borrow()" [L v]].
Definition kind_of (v : string) : tm := T ".kind" [T ".borrow()" [L v]].
Definition ref_out (g m : string) : tm :=
  if String.eqb g "relations" then T "call" [L "Ref::new"; L "false"]
  else if String.eqb m "cartesian_product"
  then T "call" [L "Ref::new"; T "call" [L "MechSet::new"; T "call" [L "ValueKind::Tuple"; T "vec!" [kind_of "lhs"; kind_of "rhs"]];
                                         T "*" [num_of "lhs"; num_of "rhs"]]]
  else T "call" [L "Ref::new"; T "call" [L "MechSet::new"; kind_of "lhs"; T "+" [num_of "lhs"; num_of "rhs"]]].

Definition field3_eqb (a b : string * string * string) : bool :=
  String.eqb (fst (fst a)) (fst (fst b)) && String.eqb (snd (fst a)) (snd (fst b)) && String.eqb (snd a) (snd b).

Definition kfn_ok (e : kfn_entry) : bool :=
  let '(g, m, _, _, params, scrut, pats, guard, _, fields, out) := e in
  list_eqb String.eqb params ["lhs"; "rhs"] && tm_eqb scrut (T "tuple" [L "lhs"; L "rhs"]) &&
  match pats with
  | [T "Value::Set" [L b1]; T "Value::Set" [L b2]] =>
      negb (String.eqb b1 b2) && list_eqb field3_eqb fields [("lhs", b1, "clone"); ("rhs", b2, "clone")]
  | _ => false
  end &&
  tm_eqb (norm guard) (if guarded m then kind_guard else L "block") &&
  tm_eqb (norm out) (ref_out g m).
Definition kfn_site (e : kfn_entry) : string := let '(_, _, s, _, _, _, _, _, _, _, _) := e in s.

(* ---- 3. kernel structs -------------------------------------------------------------------------------- *)
Definition unchecked (v from : string) : tm := T "let" [L v; T "block" [T ".as_unchecked()" [L from]]].
Definition ref_new (st : string) : tm :=
  T "block"
    [T "match"
       [L "args";
        T "arm" [T "FunctionArgs::Binary" [L "out"; L "arg1"; L "arg2"]; L "_noguard";
                 T "block" [unchecked "lhs" "arg1"; unchecked "rhs" "arg2"; unchecked "out" "out";
                            T "call" [L "Ok"; T "call" [L "Box::new";
                              T "struct" [L st; T "lhs:" [L "lhs"]; T "rhs:" [L "rhs"]; T "out:" [L "out"]]]]]];
        T "arm" [L "_"; L "_noguard";
                 T "call" [L "Err"; T ".with_compiler_loc()"
                   [T "call" [L "MechError::new";
                              T "struct" [L "IncorrectNumberOfArguments"; T "expected:" [L "2"]; T "found:" [T ".len()" [L "args"]]];
                              L "None"]]]]]].

Definition ptrs : list tm :=
  [T "let" [L "out_ptr"; T ".as_mut_ptr()" [T ".out" [L "self"]]];
   T "let" [L "lhs_ptr"; T ".as_ptr()" [T ".lhs" [L "self"]]];
   T "let" [L "rhs_ptr"; T ".as_ptr()" [T ".rhs" [L "self"]]]].
Definition lset : tm := T ".set" [L "lhs_ptr"].
Definition rset : tm := T ".set" [L "rhs_ptr"].
Definition oset : tm := T ".set" [L "out_ptr"].

(* the metadata of the result, recomputed from the result: every operation ends with these two statements *)
Definition metadata : list tm :=
  [T "=" [T ".num_elements" [L "out_ptr"]; T ".len()" [oset]];
   T "=" [T ".kind" [L "out_ptr"];
          T "if" [T ">" [T ".len()" [oset]; L "0"];
                  T "block" [T ".kind()" [T ".unwrap()" [T ".next()" [T ".iter()" [oset]]]]];
                  T "block" [L "ValueKind::Empty"]]]].

Definition op_method (m : string) : option string :=
  if String.eqb m "union" then Some ".union()" else if String.eqb m "intersection" then Some ".intersection()"
  else if String.eqb m "difference" then Some ".difference()"
  else if String.eqb m "symmetric_difference" then Some ".symmetric_difference()" else None.

(* the boolean expression of a relation *)
Definition rel_expr (m : string) : option tm :=
  if String.eqb m "subset" then Some (T ".is_subset()" [lset; rset])
  else if String.eqb m "superset" then Some (T ".is_superset()" [lset; rset])
  else if String.eqb m "proper_subset" then Some (T "&&" [T ".is_subset()" [lset; rset]; T "<" [T ".len()" [lset]; T ".len()" [rset]]])
  else if String.eqb m "proper_superset" then Some (T "&&" [T ".is_superset()" [lset; rset]; T ">" [T ".len()" [lset]; T ".len()" [rset]]])
  else if String.eqb m "disjoint" then Some (T ".is_disjoint()" [lset; rset])
  else if String.eqb m "equals" then Some (T "==" [lset; rset])
  else if String.eqb m "not_equals" then Some (T "!=" [lset; rset])
  else None.

Definition ref_solve (g m : string) : option tm :=
  if String.eqb g "relations" then
    match rel_expr m with Some e => Some (T "block" (List.app ptrs [T "=" [L "out_ptr"; e]])) | None => None end
  else if String.eqb m "cartesian_product" then
    Some (T "block" (List.app ptrs (List.app
      [T ".clear()" [oset];
       T "for" [L "elem1"; lset;
         T "block" [T "for" [L "elem2"; rset;
           T "block" [T ".insert()" [oset;
             T "call" [L "Value::Tuple"; T "call" [L "Ref::new";
               T "struct" [L "MechTuple"; T "elements:" [T "vec!" [T "call" [L "Box::new"; L "elem1"]; T "call" [L "Box::new"; L "elem2"]]]]]]]]]]]]
      metadata)))
  else match op_method m with
       | Some meth => Some (T "block" (List.app ptrs (List.app
                        [T ".clear()" [oset]; T "=" [oset; T ".collect()" [T ".cloned()" [T meth [lset; rset]]]]] metadata)))
       | None => None
       end.

Definition kernel_entry : Type := string * string * string * list string * (string * tm) * (string * tm) * (string * tm) * (string * tm).

Definition emit_ok (t : tm) : bool :=
  match t with
  | T "compile_binop!" (n :: o :: l :: r :: c :: _) =>
      list_eqb tm_eqb [n; o; l; r; c] [L "name"; T ".out" [L "self"]; T ".lhs" [L "self"]; T ".rhs" [L "self"]; L "ctx"]
  | _ => false
  end.

Definition kernel_diag (e : kernel_entry) : list string :=
  let '(g, m, st, fields, (s1, nw), (s2, sv), (s3, ou), (s4, em)) := e in
  List.app (if list_eqb String.eqb fields ["lhs"; "rhs"; "out"] then [] else [s1 ++ ": field order"])
  (List.app (if tm_eqb (norm nw) (ref_new st) then [] else [s1])
  (List.app (match ref_solve g m with Some r => if tm_eqb (norm sv) r then [] else [s2] | None => [s2 ++ ": no reference"] end)
  (List.app (if tm_eqb (norm ou) (T "block" [T "call" [L (if String.eqb g "relations" then "Value::Bool" else "Value::Set"); T ".out" [L "self"]]]) then [] else [s3])
            (if emit_ok em then [] else [s4])))).
Definition kernel_ok (e : kernel_entry) : bool := match kernel_diag e with [] => true | _ => false end.

Definition tables_complete : bool :=
  let names := List.app (map (fun m => ("operations", m)) so_operations) (map (fun m => ("relations", m)) so_relations) in
  list_eqb (fun (a b : string * string) => String.eqb (fst a) (fst b) && String.eqb (snd a) (snd b))
           (map (fun e : kfn_entry => let '(g, m, _, _, _, _, _, _, _, _, _) := e in (g, m)) so_kernel_fns) names &&
  list_eqb (fun (a b : string * string) => String.eqb (fst a) (fst b) && String.eqb (snd a) (snd b))
           (map (fun e : kernel_entry => let '(g, m, _, _, _, _, _, _) := e in (g, m)) so_kernels) names.

Theorem so_table_sites : irregular kfn_site kfn_ok so_kernel_fns = [] /\ flat_map kernel_diag so_kernels = [].
Proof. split; vm_compute; reflexivity. Qed.

Theorem so_tables_regular :
  forallb kfn_ok so_kernel_fns = true /\ forallb kernel_ok so_kernels = true /\ tables_complete = true.
Proof. repeat split; vm_compute; reflexivity. Qed.

(* every operation recomputes the metadata of its result from the result *)
Definition ends_with_metadata (body : tm) : bool :=
  match norm body with
  | T "block" l => list_eqb tm_eqb (skipn (List.length l - 2) l) metadata
  | _ => false
  end.
Theorem so_result_kind_from_result_elements :
  forall e : kernel_entry, In e so_kernels ->
    let '(g, _, _, _, _, (_, sv), _, _) := e in g = "operations" -> ends_with_metadata sv = true.
Proof.
  intros e Hin.
  assert (H : forallb (fun e : kernel_entry => let '(g, _, _, _, _, (_, sv), _, _) := e in
                         negb (String.eqb g "operations") || ends_with_metadata sv) so_kernels = true) by (vm_compute; reflexivity).
  rewrite forallb_forall in H. specialize (H e Hin).
  destruct e as [[[[[[[g m] st] fl] nw] [s2 sv]] ou] em]. intros ->. exact H.
Qed.

(* ---- 4. what solve() computes --------------------------------------------------------------------------- *)
Definition setop_of (m : string) : option setop :=
  if String.eqb m "union" then Some OUnion else if String.eqb m "intersection" then Some OInter
  else if String.eqb m "difference" then Some ODiff else if String.eqb m "symmetric_difference" then Some OSym else None.
Definition method_setop (h : string) : option setop :=
  if String.eqb h ".union()" then Some OUnion else if String.eqb h ".intersection()" then Some OInter
  else if String.eqb h ".difference()" then Some ODiff else if String.eqb h ".symmetric_difference()" then Some OSym else None.

Section Denote.
  (* the contents of self.lhs and self.rhs *)
  Variables (lhs rhs : list tval).

  Definition side (t : tm) : option (list tval) :=
    match t with
    | T ".set" [L "lhs_ptr"] => Some lhs
    | T ".set" [L "rhs_ptr"] => Some rhs
    | _ => None
    end.

  (* `x.set.m(&y.set)` of indexmap's IndexSet: receiver x, argument y *)
  Definition denote_opexpr (t : tm) : option (list tval) :=
    match t with
    | T ".collect()" [T ".cloned()" [T h [x; y]]] =>
        match method_setop h, side x, side y with
        | Some o, Some a, Some b => Some (Fop o a b)
        | _, _, _ => None
        end
    | _ => None
    end.

  (* the statement `out_ptr.set = ..` of a (normalised) solve body *)
  Definition denote_solve_op (body : tm) : option (list tval) :=
    match find (fun s => match s with T "=" [T ".set" [L "out_ptr"]; _] => true | _ => false end) (args_of (norm body)) with
    | Some (T _ [_; e]) => denote_opexpr e
    | _ => None
    end.

  (* boolean expressions of the relations: `x.is_subset(&y)` is [Fsubset x y], `x.is_superset(&y)` is [Fsubset y x],
     `x.len()` the number of elements *)
  Inductive bv : Type := BB (b : bool) | BN (n : nat) | BBad.
  Fixpoint eval_rel (t : tm) : bv :=
    match t with
    | T h [x; y] =>
        if String.eqb h ".is_subset()" then match side x, side y with Some a, Some b => BB (Fsubset a b) | _, _ => BBad end
        else if String.eqb h ".is_superset()" then match side x, side y with Some a, Some b => BB (Fsubset b a) | _, _ => BBad end
        else if String.eqb h "&&" then match eval_rel x, eval_rel y with BB p, BB q => BB (p && q) | _, _ => BBad end
        else if String.eqb h "<" then match eval_rel x, eval_rel y with BN p, BN q => BB (Nat.ltb p q) | _, _ => BBad end
        else if String.eqb h ">" then match eval_rel x, eval_rel y with BN p, BN q => BB (Nat.ltb q p) | _, _ => BBad end
        else BBad
    | T h [x] => if String.eqb h ".len()" then match side x with Some a => BN (List.length a) | None => BBad end else BBad
    | _ => BBad
    end.

  Definition denote_solve_rel (body : tm) : option bool :=
    match find (fun s => match s with T "=" [L "out_ptr"; _] => true | _ => false end) (args_of (norm body)) with
    | Some (T _ [_; e]) => match eval_rel e with BB b => Some b | _ => None end
    | _ => None
    end.
End Denote.

Definition relop_of (m : string) : option relop :=
  if String.eqb m "subset" then Some RSub else if String.eqb m "proper_subset" then Some RPSub
  else if String.eqb m "superset" then Some RSup else if String.eqb m "proper_superset" then Some RPSup else None.

Lemma kernel_solve_is_reference (e : kernel_entry) :
  In e so_kernels -> let '(g, m, _, _, _, (_, sv), _, _) := e in exists r, ref_solve g m = Some r /\ norm sv = r.
Proof.
  intro Hin. pose proof (proj1 (proj2 so_tables_regular)) as H. rewrite forallb_forall in H. specialize (H e Hin).
  destruct e as [[[[[[[g m] st] fl] [s1 nw]] [s2 sv]] [s3 ou]] [s4 em]].
  unfold kernel_ok, kernel_diag in H.
  destruct (list_eqb String.eqb fl ["lhs"; "rhs"; "out"]); [|discriminate].
  destruct (tm_eqb (norm nw) (ref_new st)); [|discriminate].
  cbn [List.app] in H. destruct (ref_solve g m) as [r|]; [|discriminate].
  destruct (tm_eqb (norm sv) r) eqn:E; [|discriminate]. exists r. split; [reflexivity|now apply tm_eqb_eq].
Qed.

(* the solve() of ∪ ∩ ∖ Δ computes Fop of ITS operation on (self.lhs, self.rhs), in this order *)
Theorem operation_solve_is_Fop :
  forall e : kernel_entry, In e so_kernels ->
    let '(g, m, _, _, _, (_, sv), _, _) := e in
    forall o, g = "operations" -> setop_of m = Some o ->
      forall lhs rhs : list tval, denote_solve_op lhs rhs sv = Some (Fop o lhs rhs).
Proof.
  intros e Hin. pose proof (kernel_solve_is_reference e Hin) as H.
  destruct e as [[[[[[[g m] st] fl] nw] [s2 sv]] ou] em]. destruct H as [r [Hr Hn]].
  intros o -> Ho lhs rhs. unfold denote_solve_op. rewrite Hn. clear Hn.
  unfold ref_solve in Hr. cbn [String.eqb Ascii.eqb Bool.eqb] in Hr.
  unfold setop_of in Ho.
  destruct (String.eqb m "cartesian_product") eqn:Ec.
  { apply String.eqb_eq in Ec. subst m. discriminate. }
  unfold op_method in Hr.
  destruct (String.eqb m "union"); [injection Hr as <-; injection Ho as <-; reflexivity|].
  destruct (String.eqb m "intersection"); [injection Hr as <-; injection Ho as <-; reflexivity|].
  destruct (String.eqb m "difference"); [injection Hr as <-; injection Ho as <-; reflexivity|].
  destruct (String.eqb m "symmetric_difference"); [injection Hr as <-; injection Ho as <-; reflexivity|discriminate].
Qed.

(* the solve() of ⊆ ⊊ ⊇ ⊋ computes Frel of ITS relation on (self.lhs, self.rhs), in this order *)
Theorem relation_solve_is_Frel :
  forall e : kernel_entry, In e so_kernels ->
    let '(g, m, _, _, _, (_, sv), _, _) := e in
    forall r, g = "relations" -> relop_of m = Some r ->
      forall lhs rhs : list tval, denote_solve_rel lhs rhs sv = Some (Frel r lhs rhs).
Proof.
  intros e Hin. pose proof (kernel_solve_is_reference e Hin) as H.
  destruct e as [[[[[[[g m] st] fl] nw] [s2 sv]] ou] em]. destruct H as [rf [Hr Hn]].
  intros r -> Ho lhs rhs. unfold denote_solve_rel. rewrite Hn. clear Hn.
  unfold ref_solve in Hr. cbn [String.eqb Ascii.eqb Bool.eqb] in Hr.
  unfold relop_of in Ho. unfold rel_expr in Hr. revert Hr Ho.
  destruct (String.eqb m "subset") eqn:E1.
  { intros Hr Ho. injection Hr as <-. injection Ho as <-. reflexivity. }
  destruct (String.eqb m "superset") eqn:E2.
  { apply String.eqb_eq in E2. subst m. intros Hr Ho. injection Hr as <-. vm_compute in Ho. injection Ho as <-. reflexivity. }
  destruct (String.eqb m "proper_subset") eqn:E3.
  { intros Hr Ho. injection Hr as <-. injection Ho as <-. reflexivity. }
  destruct (String.eqb m "proper_superset") eqn:E4.
  { intros Hr Ho. injection Hr as <-. injection Ho as <-. reflexivity. }
  intros _ Ho. discriminate.
Qed.
