(* General lemmas about the source-level arm tables of Model/SrcArms.v: what the boolean checks over the
   regenerated tables (Gen/*Arms.v) mean.

   [irregular_nil_iff]       `irregular site ok l = []`  <->  `forallb ok l = true`
   [tm_eqb_eq]               the term comparison decides equality
   [dispatch_exact]          a table whose arms are regular ([rarm_ok]) and exact ([form_exact]) unwraps every
                             reference operand and passes the operands to the callee in the order [perm]
   [compile_model_correct]   a regular compile() ([rcfn_ok]) applies the kernel-level function [callee] to the
                             CONTENTS of its operands in the order [roles], whatever mixture of plain values and
                             references the operands are *)
From Coq Require Import List String Bool Arith Lia.
From MechV Require Import Model.SrcArms.
Import ListNotations.
Open Scope string_scope.

(* ---- irregular ---------------------------------------------------------------------------------- *)
Lemma irregular_nil_iff {A} (site : A -> string) (ok : A -> bool) (l : list A) :
  irregular site ok l = [] <-> forallb ok l = true.
Proof.
  unfold irregular. induction l as [|a l IH]; cbn [filter forallb map].
  - split; reflexivity.
  - destruct (ok a); cbn [negb andb map].
    + exact IH.
    + split; discriminate.
Qed.

(* ---- term equality -------------------------------------------------------------------------------- *)
Lemma tm_eqb_eq : forall a b : tm, tm_eqb a b = true -> a = b.
Proof.
  fix IH 1. intros a b. destruct a as [x|h xs]; destruct b as [y|k ys]; cbn [tm_eqb]; try discriminate.
  - intro H. apply String.eqb_eq in H. now subst.
  - intro H. apply andb_true_iff in H. destruct H as [Hh Hl]. apply String.eqb_eq in Hh. subst k. f_equal.
    revert ys Hl. induction xs as [|x xr IHx]; intros [|y yr] Hl; try discriminate; try reflexivity.
    apply andb_true_iff in Hl. destruct Hl as [H1 H2]. f_equal.
    + apply IH. exact H1.
    + apply IHx. exact H2.
Qed.

Lemma tm_eqb_refl : forall a : tm, tm_eqb a a = true.
Proof.
  fix IH 1. intros [x|h xs]; cbn [tm_eqb].
  - apply String.eqb_refl.
  - rewrite String.eqb_refl. cbn [andb]. induction xs as [|x xr IHx]; [reflexivity|].
    rewrite IH. cbn [andb]. exact IHx.
Qed.

(* ---- list utilities ------------------------------------------------------------------------------- *)
Lemma list_eqb_bool_eq (x y : list bool) : list_eqb Bool.eqb x y = true -> x = y.
Proof.
  revert y. induction x as [|a x IH]; intros [|b y] H; try discriminate; try reflexivity.
  cbn [list_eqb] in H. apply andb_true_iff in H. destruct H as [H1 H2].
  apply Bool.eqb_prop in H1. subst. f_equal. now apply IH.
Qed.

Lemma list_eqb_nat_eq (x y : list nat) : list_eqb Nat.eqb x y = true -> x = y.
Proof.
  revert y. induction x as [|a x IH]; intros [|b y] H; try discriminate; try reflexivity.
  cbn [list_eqb] in H. apply andb_true_iff in H. destruct H as [H1 H2].
  apply Nat.eqb_eq in H1. subst. f_equal. now apply IH.
Qed.

Lemma nat_in_In i l : nat_in i l = true <-> In i l.
Proof.
  unfold nat_in. rewrite existsb_exists. split.
  - intros [x [Hx He]]. apply Nat.eqb_eq in He. now subst.
  - intro H. exists i. split; [exact H|apply Nat.eqb_refl].
Qed.

Lemma index_nat_nth x l j : index_nat x l = Some j -> nth_error l j = Some x.
Proof.
  revert j. induction l as [|y l IH]; intros j H; [discriminate|].
  cbn [index_nat] in H. destruct (Nat.eqb x y) eqn:E.
  - injection H as <-. apply Nat.eqb_eq in E. now subst.
  - destruct (index_nat x l) as [j'|]; [|discriminate]. injection H as <-. cbn [nth_error]. now apply IH.
Qed.

Lemma bool_lists_complete (f : list bool) : In f (bool_lists (List.length f)).
Proof.
  induction f as [|b f IH]; cbn [bool_lists List.length]; [now left|].
  apply in_flat_map. exists f. split; [exact IH|]. destruct b; cbn; auto.
Qed.

Lemma omap_ext {A B} (f g : A -> option B) (l : list A) :
  (forall a, In a l -> f a = g a) -> omap f l = omap g l.
Proof.
  induction l as [|a l IH]; intro H; [reflexivity|]. cbn [omap].
  rewrite (H a (or_introl eq_refl)). rewrite IH; [reflexivity|]. intros x Hx. apply H. now right.
Qed.

Lemma omap_nth {A B} (f : A -> option B) (l : list A) (r : list B) j a :
  omap f l = Some r -> nth_error l j = Some a -> exists b, f a = Some b /\ nth_error r j = Some b.
Proof.
  revert r j. induction l as [|x l IH]; intros r j H Hn; [destruct j; discriminate|].
  cbn [omap] in H. destruct (f x) as [b|] eqn:Ef; [|discriminate].
  destruct (omap f l) as [bs|] eqn:Eo; [|discriminate]. injection H as <-.
  destruct j as [|j]; cbn [nth_error] in *.
  - injection Hn as <-. now exists b.
  - now apply (IH bs j eq_refl).
Qed.

Lemma omap_length {A B} (f : A -> option B) (l : list A) (r : list B) : omap f l = Some r -> List.length r = List.length l.
Proof.
  revert r. induction l as [|x l IH]; intros r H; cbn [omap] in H.
  - now injection H as <-.
  - destruct (f x); [|discriminate]. destruct (omap f l) as [bs|]; [|discriminate].
    injection H as <-. cbn [List.length]. f_equal. now apply IH.
Qed.

Section DispatchP.
  Context {A : Type}.
  Implicit Types (vs : list (rval A)) (v : rval A).

  Lemma strip_plain v : is_ref v = false -> strip v = v.
  Proof. destruct v; [reflexivity|discriminate]. Qed.

  Lemma nth_forms vs i : nth_error (forms_of vs) i = option_map is_ref (nth_error vs i).
  Proof. unfold forms_of. revert i. induction vs as [|v vs IH]; intros [|i]; cbn; auto. Qed.

  (* a regular arm whose patterns are exactly the operand forms passes the stripped operands in the order perm *)
  Lemma run_arm_ok perm callee (a : rarm) vs :
    rarm_ok perm callee a = true -> ra_refs a = forms_of vs ->
    run_arm a vs = option_map (fun l => (callee, l)) (omap (fun i => option_map strip (nth_error vs i)) perm).
  Proof.
    unfold rarm_ok, run_arm. intros H Hf. apply andb_true_iff in H. destruct H as [Hc Hl].
    apply String.eqb_eq in Hc. rewrite Hc. f_equal. rewrite Hf in *. clear Hc Hf.
    revert perm Hl. induction (ra_args a) as [|x xs IH]; intros [|i perm] Hl; try discriminate; [reflexivity|].
    cbn [list_eqb] in Hl. apply andb_true_iff in Hl. destruct Hl as [Hx Hr].
    apply andb_true_iff in Hx. destruct Hx as [Hi Hacc]. apply Nat.eqb_eq in Hi.
    cbn [omap]. rewrite (IH perm Hr). unfold eval_arg. rewrite Hi.
    rewrite nth_forms in *. destruct (nth_error vs i) as [v|]; cbn [option_map] in *; [|discriminate].
    apply Bool.eqb_prop in Hacc. rewrite Hacc, Bool.eqb_reflx.
    destruct (is_ref v) eqn:Er; [reflexivity|]. now rewrite (strip_plain v Er).
  Qed.

  Theorem dispatch_exact perm callee (arms : list rarm) vs :
    forallb (rarm_ok perm callee) arms = true ->
    form_exact arms (forms_of vs) = true ->
    dispatch arms vs =
      if existsb (fun b => b) (forms_of vs)
      then option_map (fun l => (callee, l)) (omap (fun i => option_map strip (nth_error vs i)) perm)
      else None.
  Proof.
    intros Hok Hex. unfold form_exact in Hex. unfold dispatch, arm_matches. unfold select_by_forms in Hex.
    destruct (existsb (fun b => b) (forms_of vs)).
    - destruct (find (fun a => refs_match (ra_refs a) (forms_of vs)) arms) as [a|] eqn:Ef; [|discriminate].
      apply find_some in Ef. destruct Ef as [Hin _].
      rewrite forallb_forall in Hok. apply run_arm_ok; [now apply Hok|now apply list_eqb_bool_eq].
    - destruct (find (fun a => refs_match (ra_refs a) (forms_of vs)) arms); [discriminate|reflexivity].
  Qed.

  Lemma table_exact_form n refpos arms f :
    table_exact n refpos arms = true -> List.length f = n -> allowed_form refpos f = true -> form_exact arms f = true.
  Proof.
    unfold table_exact. intros H Hl Ha. rewrite forallb_forall in H.
    specialize (H f). rewrite <- Hl in H. specialize (H (bool_lists_complete f)).
    rewrite Ha in H. exact H.
  Qed.

  Lemma allowed_from_intro refpos f i0 :
    (forall j, nth_error f j = Some true -> nat_in (i0 + j) refpos = true) -> allowed_from i0 refpos f = true.
  Proof.
    revert i0. induction f as [|b f IH]; intros i0 H; [reflexivity|]. cbn [allowed_from].
    apply andb_true_iff. split.
    - destruct b; [|now rewrite orb_true_r]. specialize (H 0 eq_refl). rewrite Nat.add_0_r in H. now rewrite H.
    - apply IH. intros j Hj. specialize (H (S j) Hj). now rewrite Nat.add_succ_r in H.
  Qed.

  Lemma existsb_forms_false vs : existsb is_ref vs = false -> forall j v, nth_error vs j = Some v -> is_ref v = false.
  Proof.
    intros H j v Hn. apply nth_error_In in Hn.
    destruct (is_ref v) eqn:E; [|reflexivity].
    assert (existsb is_ref vs = true) by (apply existsb_exists; now exists v). congruence.
  Qed.

  Lemma existsb_forms vs : existsb (fun b => b) (forms_of vs) = existsb is_ref vs.
  Proof. unfold forms_of. induction vs as [|v vs IH]; [reflexivity|]. cbn. now rewrite IH. Qed.

  (* a regular compile() applies [callee] to the contents of its operands in the order [roles] *)
  Theorem compile_model_correct {R} callee roles refpos (c : rcfn) (k : string -> list (rval A) -> option R)
          (args : list (rval A)) :
    rcfn_ok callee roles refpos c = true ->
    List.length args = rc_nargs c ->
    (forall i v, nth_error args i = Some v -> is_ref v = true -> nat_in i refpos = true) ->
    (forall f vs, existsb is_ref vs = true -> k f vs = None) ->
    compile_model c k args =
      match omap (fun i => option_map strip (nth_error args i)) roles with
      | Some vs => k callee vs
      | None => None
      end.
  Proof.
    intros Hok Hlen Hrefs Hk. unfold rcfn_ok in Hok.
    repeat (apply andb_true_iff in Hok; destruct Hok as [Hok ?]).
    destruct (omap (fun i => index_nat i (rc_scrut c)) roles) as [perm|] eqn:Eperm; [|discriminate].
    destruct (omap (fun i => index_nat i (rc_scrut c)) refpos) as [srefpos|] eqn:Esref; [|discriminate].
    rename H into Harms, H0 into Hsc, H1 into Hcover, H2 into Hdirect.
    apply andb_true_iff in Harms. destruct Harms as [Harms Hback].
    apply andb_true_iff in Harms. destruct Harms as [Harms Hexact].
    apply String.eqb_eq in Hok. apply list_eqb_nat_eq in Hdirect.
    unfold compile_model. rewrite Hdirect, Hok. clear Hdirect Hok.
    destruct (existsb is_ref args) eqn:Eref.
    - (* some operand is a reference: the direct call fails, the arms unwrap *)
      apply existsb_exists in Eref. destruct Eref as [v0 [Hin0 Hr0]].
      apply In_nth_error in Hin0. destruct Hin0 as [i0 Hi0].
      assert (Hi0n : i0 < rc_nargs c) by (rewrite <- Hlen; apply nth_error_Some; congruence).
      assert (Hroles : In i0 roles).
      { rewrite forallb_forall in Hcover. apply nat_in_In. apply Hcover. apply in_seq. lia. }
      destruct (omap (nth_error args) roles) as [dvs|] eqn:Edvs.
      2:{ (* an operand index out of range: both sides are None *)
          assert (omap (fun i => option_map strip (nth_error args i)) roles = None) as ->; [|reflexivity].
          clear - Edvs. induction roles as [|i roles IH]; [discriminate|]. cbn [omap] in *.
          destruct (nth_error args i); cbn [option_map]; [|reflexivity].
          destruct (omap (nth_error args) roles); [discriminate|]. now rewrite IH. }
      assert (Hkd : k callee dvs = None).
      { apply Hk. apply existsb_exists. apply In_nth_error in Hroles. destruct Hroles as [m Hm].
        destruct (omap_nth _ _ _ _ _ Edvs Hm) as [b [Hb1 Hb2]]. exists b. split; [now apply nth_error_In in Hb2|].
        congruence. }
      rewrite Hkd.
      (* the matched tuple *)
      assert (Hsv : exists svs, omap (nth_error args) (rc_scrut c) = Some svs).
      { rewrite forallb_forall in Hsc. clear - Hsc Hlen. induction (rc_scrut c) as [|i l IH]; [now exists []|].
        cbn [omap]. assert (Hi : i < List.length args).
        { rewrite Hlen. apply Nat.ltb_lt. apply Hsc. now left. }
        destruct (nth_error args i) eqn:E; [|apply nth_error_None in E; lia].
        destruct IH as [svs ->]; [intros x Hx; apply Hsc; now right|]. eauto. }
      destruct Hsv as [svs Esvs]. rewrite Esvs.
      assert (Hsl : List.length svs = List.length (rc_scrut c)) by now apply omap_length in Esvs.
      (* svs[j] = args[scrut[j]] *)
      assert (Hsn : forall j i, nth_error (rc_scrut c) j = Some i -> nth_error svs j = nth_error args i).
      { intros j i Hj. destruct (omap_nth _ _ _ _ _ Esvs Hj) as [b [Hb1 Hb2]]. congruence. }
      (* the forms are allowed *)
      assert (Hall : allowed_form srefpos (forms_of svs) = true).
      { apply allowed_from_intro. intros j Hj. cbn [Nat.add]. rewrite nth_forms in Hj.
        destruct (nth_error svs j) as [v|] eqn:Ev; [|discriminate]. cbn [option_map] in Hj. injection Hj as Hj.
        rewrite forallb_forall in Hback.
        assert (Hjl : j < List.length (rc_scrut c)) by (rewrite <- Hsl; apply nth_error_Some; congruence).
        specialize (Hback j). rewrite in_seq in Hback. specialize (Hback ltac:(lia)).
        destruct (nth_error (rc_scrut c) j) as [i|] eqn:Ej; [|discriminate].
        rewrite (Hsn j i Ej) in Ev. rewrite (Hrefs i v Ev Hj) in Hback. cbn [negb orb] in Hback. exact Hback. }
      assert (Hfe : form_exact (rc_arms c) (forms_of svs) = true).
      { eapply table_exact_form; [exact Hexact| |exact Hall]. unfold forms_of. now rewrite map_length. }
      rewrite (dispatch_exact perm callee _ svs Harms Hfe).
      (* some component is a reference *)
      assert (Hex : existsb (fun b => b) (forms_of svs) = true).
      { rewrite existsb_forms. apply existsb_exists. apply In_nth_error in Hroles. destruct Hroles as [m Hm].
        destruct (omap_nth _ _ _ _ _ Eperm Hm) as [j [Hj1 Hj2]]. apply index_nat_nth in Hj1.
        exists v0. split; [|exact Hr0]. apply (nth_error_In svs j). rewrite (Hsn j i0 Hj1). exact Hi0. }
      rewrite Hex.
      (* svs at perm = args at roles *)
      assert (Hperm : omap (fun j => option_map strip (nth_error svs j)) perm
                      = omap (fun i => option_map strip (nth_error args i)) roles).
      { clear - Eperm Hsn. revert perm Eperm. induction roles as [|i roles IH]; intros perm Eperm; cbn [omap] in Eperm.
        - now injection Eperm as <-.
        - destruct (index_nat i (rc_scrut c)) as [j|] eqn:Ej; [|discriminate].
          destruct (omap (fun i => index_nat i (rc_scrut c)) roles) as [p|]; [|discriminate].
          injection Eperm as <-. cbn [omap]. rewrite (IH p eq_refl). apply index_nat_nth in Ej.
          now rewrite (Hsn j i Ej). }
      rewrite Hperm. destruct (omap (fun i => option_map strip (nth_error args i)) roles); reflexivity.
    - (* all operands are plain values: the direct call decides, no arm matches *)
      assert (Hplain : forall i, option_map strip (nth_error args i) = nth_error args i).
      { intro i. destruct (nth_error args i) as [v|] eqn:E; [|reflexivity]. cbn [option_map].
        now rewrite (strip_plain v (existsb_forms_false args Eref i v E)). }
      rewrite (omap_ext _ _ roles (fun i _ => Hplain i)).
      destruct (omap (nth_error args) roles) as [dvs|]; [|reflexivity].
      destruct (k callee dvs) as [r|]; [reflexivity|].
      destruct (omap (nth_error args) (rc_scrut c)) as [svs|] eqn:Esvs; [|reflexivity].
      assert (Hnr : existsb is_ref svs = false).
      { destruct (existsb is_ref svs) eqn:E; [|reflexivity]. apply existsb_exists in E. destruct E as [v [Hv Hr]].
        apply In_nth_error in Hv. destruct Hv as [j Hj].
        assert (exists i, nth_error args i = Some v) as [i Hi].
        { clear - Esvs Hj. revert svs j Esvs Hj. induction (rc_scrut c) as [|i l IH]; intros svs j Esvs Hj; cbn [omap] in Esvs.
          - injection Esvs as <-. destruct j; discriminate.
          - destruct (nth_error args i) as [x|] eqn:Ex; [|discriminate].
            destruct (omap (nth_error args) l) as [xs|]; [|discriminate]. injection Esvs as <-.
            destruct j; cbn [nth_error] in Hj; [injection Hj as <-; eauto|eapply IH; eauto]. }
        rewrite (existsb_forms_false args Eref i v Hi) in Hr. discriminate. }
      assert (Hall : allowed_form srefpos (forms_of svs) = true).
      { apply allowed_from_intro. intros j Hj. rewrite nth_forms in Hj.
        destruct (nth_error svs j) as [v|] eqn:Ev; [|discriminate]. cbn [option_map] in Hj. injection Hj as Hj.
        rewrite (existsb_forms_false svs Hnr j v Ev) in Hj. discriminate. }
      assert (Hfe : form_exact (rc_arms c) (forms_of svs) = true).
      { eapply table_exact_form; [exact Hexact| |exact Hall]. unfold forms_of. rewrite map_length.
        now apply omap_length in Esvs. }
      rewrite (dispatch_exact perm callee _ svs Harms Hfe). rewrite existsb_forms, Hnr. reflexivity.
  Qed.
End DispatchP.

Lemma cfn_diag_nil callee roles refpos c : cfn_diag callee roles refpos c = [] -> cfn_ok callee roles refpos c = true.
Proof.
  unfold cfn_diag, cfn_ok. destruct (resolve_cfn c) as [r|]; [|discriminate].
  destruct (rcfn_ok callee roles refpos r); [reflexivity|discriminate].
Qed.
