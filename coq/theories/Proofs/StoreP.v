(* C05 — proofs about Model/Store.v *)
From Coq Require Import List ZArith String Bool Arith Lia.
From MechV Require Import Base.Sexp Base.Obs Model.Store.
Import ListNotations.
Open Scope list_scope.

(* ================================================================== *)
(* A. the equality tests are equalities                                *)
(* ================================================================== *)
Lemma dy_eqb_eq (a b : dy) : dy_eqb a b = true <-> a = b.
Proof.
  destruct a as [m e], b as [m' e']; unfold dy_eqb; cbn [fst snd]. split.
  - intros H. apply andb_prop in H as [H1 H2]. apply Z.eqb_eq in H1, H2. congruence.
  - intros H. inversion H; subst. rewrite !Z.eqb_refl. reflexivity.
Qed.

Lemma dys_eqb_eq (a b : list dy) : dys_eqb a b = true <-> a = b.
Proof.
  revert b. induction a as [|x a IH]; intros [|y b]; cbn; split; intros H; try discriminate; try reflexivity.
  - apply andb_prop in H as [H1 H2]. apply dy_eqb_eq in H1. apply IH in H2. congruence.
  - inversion H; subst. apply andb_true_intro. split; [apply dy_eqb_eq; reflexivity | apply IH; reflexivity].
Qed.

Lemma cols_eqb_eq (a b : list (string * list dy)) : cols_eqb a b = true <-> a = b.
Proof.
  revert b. induction a as [|[n x] a IH]; intros [|[n' y] b]; cbn; split; intros H; try discriminate; try reflexivity.
  - apply andb_prop in H as [H1 H3]. apply andb_prop in H1 as [H1 H2].
    apply String.eqb_eq in H1. apply dys_eqb_eq in H2. apply IH in H3. congruence.
  - inversion H; subst. rewrite String.eqb_refl. cbn.
    apply andb_true_intro. split; [apply dys_eqb_eq; reflexivity | apply IH; reflexivity].
Qed.

Fixpoint dv_eqb_sound (a : dv) : forall b, dv_eqb a b = true -> a = b.
Proof.
  destruct a as [x|r c d|l|l|l|l]; intros [x'|r' c' d'|l'|l'|l'|l'] H; cbn in H; try discriminate.
  - apply dy_eqb_eq in H. congruence.
  - apply andb_prop in H as [H H3]. apply andb_prop in H as [H1 H2].
    apply Nat.eqb_eq in H1, H2. apply dys_eqb_eq in H3. congruence.
  - apply dys_eqb_eq in H. congruence.
  - apply cols_eqb_eq in H. congruence.
  - f_equal. revert l' H. induction l as [|v l IH]; intros [|w l'] H; try discriminate; [reflexivity|].
    apply andb_prop in H as [H1 H2]. f_equal; [apply dv_eqb_sound; exact H1 | apply IH; exact H2].
  - f_equal. revert l' H. induction l as [|[n v] l IH]; intros [|[n' w] l'] H; try discriminate; [reflexivity|].
    apply andb_prop in H as [H1 H3]. apply andb_prop in H1 as [H1 H2]. apply String.eqb_eq in H1. subst.
    f_equal; [f_equal; apply dv_eqb_sound; exact H2 | apply IH; exact H3].
Qed.

Fixpoint dv_eqb_refl (a : dv) : dv_eqb a a = true.
Proof.
  destruct a as [x|r c d|l|l|l|l]; cbn.
  - apply dy_eqb_eq; reflexivity.
  - rewrite !Nat.eqb_refl. cbn. apply dys_eqb_eq; reflexivity.
  - apply dys_eqb_eq; reflexivity.
  - apply cols_eqb_eq; reflexivity.
  - induction l as [|v l IH]; [reflexivity|]. rewrite dv_eqb_refl. exact IH.
  - induction l as [|[n v] l IH]; [reflexivity|]. rewrite String.eqb_refl, dv_eqb_refl. exact IH.
Qed.

Lemma dv_eqb_eq (a b : dv) : dv_eqb a b = true <-> a = b.
Proof. split; [apply dv_eqb_sound | intros ->; apply dv_eqb_refl]. Qed.

Lemma row_eqb_eq (a b : row) : row_eqb a b = true <-> a = b.
Proof.
  destruct a as [m v], b as [m' v']; unfold row_eqb; cbn [fst snd]. split.
  - intros H. apply andb_prop in H as [H1 H2]. apply eqb_prop in H1. apply dv_eqb_eq in H2. congruence.
  - intros H. inversion H; subst. rewrite eqb_reflx. apply dv_eqb_eq. reflexivity.
Qed.

Lemma orow_eqb_eq (a b : option row) : orow_eqb a b = true <-> a = b.
Proof.
  destruct a as [x|], b as [y|]; cbn; split; intros H; try discriminate; try reflexivity.
  - apply row_eqb_eq in H. congruence.
  - inversion H; subst. apply row_eqb_eq. reflexivity.
Qed.

Lemma mem_In (x : string) (l : list string) : mem x l = true <-> In x l.
Proof.
  induction l as [|y l IH]; cbn; [split; [discriminate | tauto]|].
  rewrite orb_true_iff, IH, String.eqb_eq. split; intros [H|H]; auto.
Qed.

Lemma nodupb_NoDup (l : list string) : nodupb l = true <-> NoDup l.
Proof.
  induction l as [|x l IH]; cbn; [split; [constructor | reflexivity]|].
  rewrite andb_true_iff, negb_true_iff, IH. split.
  - intros [H1 H2]. constructor; [|exact H2]. intros Hin. apply mem_In in Hin. congruence.
  - intros H. inversion H; subst. split; [|assumption].
    destruct (mem x l) eqn:E; [|reflexivity]. apply mem_In in E. contradiction.
Qed.

Lemma find_None {A} (x : string) (l : list (string * A)) : find x l = None <-> ~ In x (keys l).
Proof.
  induction l as [|[y a] l IH]; cbn; [tauto|].
  destruct (String.eqb x y) eqn:E.
  - apply String.eqb_eq in E. subst. split; [discriminate | intros H; exfalso; apply H; auto].
  - apply String.eqb_neq in E. rewrite IH. split; [intros H [H1|H1]; [congruence | auto] | intros H H1; apply H; auto].
Qed.

Lemma find_In {A} (x : string) (a : A) (l : list (string * A)) : find x l = Some a -> In (x, a) l.
Proof.
  induction l as [|[y b] l IH]; cbn; [discriminate|].
  destruct (String.eqb x y) eqn:E.
  - apply String.eqb_eq in E. intros H. inversion H; subst. auto.
  - auto.
Qed.

Lemma In_find {A} (x : string) (a : A) (l : list (string * A)) : NoDup (keys l) -> In (x, a) l -> find x l = Some a.
Proof.
  induction l as [|[y b] l IH]; cbn; [tauto|]. intros Hnd [H|H].
  - inversion H; subst. rewrite String.eqb_refl. reflexivity.
  - inversion Hnd; subst. destruct (String.eqb x y) eqn:E.
    + apply String.eqb_eq in E. subst. exfalso. apply H2. apply (in_map fst) in H. exact H.
    + apply IH; assumption.
Qed.

(* ================================================================== *)
(* B. the property as a proposition                                    *)
(* ================================================================== *)
(* every name outside xs means the same in T and T' *)
Definition frame (xs : list string) (T T' : tab) : Prop :=
  forall n, ~ In n xs -> find n T' = find n T.

Inductive step_ok (T : tab) : stmt -> bool -> tab -> Prop :=
| ok_err st T' :                        (* a failing statement changes nothing at all *)
    frame [] T T' -> step_ok T st false T'
| ok_def mu x e v T' :                  (* a definition adds exactly x, with the value of its right-hand side *)
    find x T = None -> seval T e = Some v -> find x T' = Some (mu, v) -> frame [x] T T' ->
    step_ok T (SDef mu x e) true T'
| ok_destr xs e l T' :                  (* a destructure adds exactly its (new, distinct) targets, immutable *)
    seval T e = Some (DTup l) -> NoDup xs -> (forall x, In x xs -> find x T = None) ->
    List.length xs <= List.length l ->
    (forall i x v, nth_error xs i = Some x -> nth_error l i = Some v -> find x T' = Some (false, v)) ->
    frame xs T T' ->
    step_ok T (SDestr xs e) true T'
| ok_asg st x v0 v1 T' :                (* an assignment needs a mutable target and touches nothing else *)
    assign_target st = Some x -> find x T = Some (true, v0) -> find x T' = Some (true, v1) -> frame [x] T T' ->
    step_ok T st true T'.

Fixpoint trace_ok (T : tab) (tr : list tstep) : Prop :=
  match tr with
  | [] => True
  | (st, ok, T') :: r => step_ok T st ok T' /\ trace_ok T' r
  end.

Lemma frameb_frame xs T T' : frameb xs T T' = true <-> frame xs T T'.
Proof.
  unfold frameb, frame. rewrite forallb_forall. split.
  - intros H n Hn. destruct (in_dec string_dec n (keys T ++ keys T')) as [Hin|Hin].
    + specialize (H n Hin). apply orb_true_iff in H as [H|H].
      * apply mem_In in H. contradiction.
      * apply orow_eqb_eq in H. exact H.
    + assert (H1 : find n T = None) by (apply find_None; intros X; apply Hin; apply in_or_app; auto).
      assert (H2 : find n T' = None) by (apply find_None; intros X; apply Hin; apply in_or_app; auto).
      congruence.
  - intros H n _. destruct (mem n xs) eqn:E; [reflexivity|]. cbn.
    apply orow_eqb_eq. apply H. intros Hin. apply mem_In in Hin. congruence.
Qed.

Lemma destr_rowsb_spec xs l T' :
  destr_rowsb xs l T' = true <->
  (List.length xs <= List.length l /\
   forall i x v, nth_error xs i = Some x -> nth_error l i = Some v -> find x T' = Some (false, v)).
Proof.
  revert l. induction xs as [|x xs IH]; intros l; cbn [destr_rowsb].
  - split; [intros _; split; [cbn; lia | intros [|i] ? ? H; discriminate] | reflexivity].
  - destruct l as [|v l].
    + split; [discriminate | intros [H _]; cbn in H; lia].
    + rewrite andb_true_iff, IH, orow_eqb_eq. split.
      * intros [H1 [H2 H3]]. split; [cbn; lia|]. intros [|i] y w Hy Hw; cbn in Hy, Hw.
        -- inversion Hy; inversion Hw; subst. exact H1.
        -- eapply H3; eassumption.
      * intros [H1 H2]. split; [apply (H2 0); reflexivity|]. split; [cbn in H1; lia|].
        intros i y w Hy Hw. apply (H2 (S i)); assumption.
Qed.

Lemma forallb_undef xs (T : tab) :
  forallb (fun x => match find x T with None => true | Some _ => false end) xs = true <->
  (forall x, In x xs -> find x T = None).
Proof.
  rewrite forallb_forall. split; intros H x Hx; specialize (H x Hx); destruct (find x T); congruence.
Qed.

Lemma asg_case T st x T' :
  assign_target st = Some x ->
  (match find x T, find x T' with
   | Some (true, _), Some (true, _) => frameb [x] T T'
   | _, _ => false
   end = true <-> step_ok T st true T').
Proof.
  intros Hx. split.
  - destruct (find x T) as [[[|] v0]|] eqn:E0; try discriminate.
    destruct (find x T') as [[[|] v1]|] eqn:E1; try discriminate.
    intros H. apply frameb_frame in H. eapply ok_asg; eassumption.
  - intros H. inversion H; subst; try discriminate.
    assert (x0 = x) by congruence. subst.
    rewrite H1, H2. apply frameb_frame. assumption.
Qed.

Theorem step_okb_ok T st ok T' : step_okb T st ok T' = true <-> step_ok T st ok T'.
Proof.
  unfold step_okb. destruct ok; cbn [negb].
  2:{ rewrite frameb_frame. split; [apply ok_err | intros H; inversion H; assumption]. }
  destruct st as [mu x e|x e|x i s|x i j s|x o e|x f e|x k e|xs e]; cbn [assign_target];
    try (apply asg_case; reflexivity).
  - destruct (find x T) as [r|] eqn:Ef.
    { split; [discriminate | intros H; inversion H; subst; [rewrite Ef in *; discriminate | discriminate]]. }
    destruct (seval T e) as [v|] eqn:Ee.
    2:{ split; [discriminate | intros H; inversion H; subst; [rewrite Ee in *; discriminate | discriminate]]. }
    rewrite andb_true_iff, orow_eqb_eq, frameb_frame. split.
    + intros [H1 H2]. eapply ok_def; eassumption.
    + intros H. inversion H; subst; [|discriminate]. rewrite Ee in *. split; [congruence | assumption].
  - destruct (seval T e) as [[| | | |l|]|] eqn:Ee;
      try (split; [discriminate | intros H; inversion H; subst; [rewrite Ee in *; discriminate | discriminate]]).
    rewrite !andb_true_iff, nodupb_NoDup, forallb_undef, destr_rowsb_spec, frameb_frame. split.
    + intros [[H1 H2] [[H3 H4] H5]]. eapply ok_destr; eassumption.
    + intros H. inversion H; subst; [|discriminate]. rewrite Ee in *.
      assert (l0 = l) by congruence. subst. tauto.
Qed.

Theorem trace_okb_ok T tr : trace_okb T tr = true <-> trace_ok T tr.
Proof.
  revert T. induction tr as [|[[st ok] T'] r IH]; intros T; cbn; [tauto|].
  rewrite andb_true_iff, step_okb_ok, IH. tauto.
Qed.

(* ================================================================== *)
(* C. what the property means for whole histories                      *)
(* ================================================================== *)
Lemma frame_nil T T' : frame [] T T' <-> (forall n, find n T' = find n T).
Proof. unfold frame. split; intros H n; [apply H; intros [] | intros _; apply H]. Qed.

(* one step never touches an immutable binding *)
Lemma step_keeps_immutable T st ok T' x v :
  step_ok T st ok T' -> find x T = Some (false, v) -> find x T' = Some (false, v).
Proof.
  intros H Hx. inversion H; subst.
  - rewrite <- Hx. apply H0. intros [].
  - rewrite <- Hx. apply H3. intros [E|[]]. subst. congruence.
  - rewrite <- Hx. apply H5. intros Hin. apply H2 in Hin. congruence.
  - rewrite <- Hx. apply H3. intros [E|[]]. subst. congruence.
Qed.

Definition states (tr : list tstep) : list tab := map snd tr.

(* a binding made without ~ keeps its value whatever follows *)
Theorem immutable_forever T tr x v :
  trace_ok T tr -> find x T = Some (false, v) -> Forall (fun T' => find x T' = Some (false, v)) (states tr).
Proof.
  revert T. induction tr as [|[[st ok] T'] r IH]; intros T Htr Hx; cbn; [constructor|].
  destruct Htr as [H1 H2]. pose proof (step_keeps_immutable _ _ _ _ _ _ H1 Hx) as Hx'.
  constructor; [exact Hx' | eapply IH; eassumption].
Qed.

(* ... and that value is the value its right-hand side had when it was defined *)
Theorem defined_value_forever T x e T1 tr v :
  trace_ok T ((SDef false x e, true, T1) :: tr) -> seval T e = Some v ->
  Forall (fun T' => find x T' = Some (false, v)) (T1 :: states tr).
Proof.
  intros [H1 H2] Hv. inversion H1; subst.
  assert (v0 = v) by congruence. subst.
  constructor; [assumption | eapply immutable_forever; eassumption].
Qed.

(* assigning to or through x changes nothing seen through another name, nor which names exist *)
Theorem assign_only_target T st T' x :
  step_ok T st true T' -> assign_target st = Some x ->
  (forall n, n <> x -> find n T' = find n T) /\
  (forall n, find n T' = None <-> find n T = None) /\
  (exists v0 v1, find x T = Some (true, v0) /\ find x T' = Some (true, v1)).
Proof.
  intros H Hx. inversion H; subst; try discriminate.
  assert (x0 = x) by congruence. subst.
  assert (Hf : forall n, n <> x -> find n T' = find n T) by (intros n Hn; apply H3; intros [E|[]]; congruence).
  split; [exact Hf|]. split; [|eauto].
  intros n. destruct (string_dec n x) as [->|Hn]; [rewrite H1, H2; split; discriminate | rewrite (Hf n Hn); tauto].
Qed.

(* a failing statement leaves every binding and the set of names as they were *)
Theorem failure_atomic T st T' :
  step_ok T st false T' -> forall n, find n T' = find n T.
Proof. intros H. inversion H; subst. apply frame_nil. assumption. Qed.

(* the three mandatory errors *)
Definition must_fail (T : tab) (st : stmt) : Prop :=
  match st with
  | SDef _ x _ => find x T <> None                                   (* redefinition *)
  | SDestr xs _ => exists x, In x xs /\ find x T <> None             (* redefinition by a destructure *)
  | _ => match assign_target st with
         | Some x => find x T = None \/ exists v, find x T = Some (false, v)   (* undefined / immutable target *)
         | None => False
         end
  end.

Theorem errors_rejected T st ok T' : step_ok T st ok T' -> must_fail T st -> ok = false.
Proof.
  intros H Hm. inversion H; subst; try reflexivity; exfalso.
  - cbn in Hm. congruence.
  - cbn in Hm. destruct Hm as [x [Hx Hd]]. apply Hd. apply H2. exact Hx.
  - destruct st; cbn in H0; try discriminate; cbn in Hm; inversion H0; subst;
      (destruct Hm as [Hm|[v Hm]]; congruence).
Qed.

(* ================================================================== *)
(* D. the judge                                                        *)
(* ================================================================== *)
Theorem judge_hist_sound h os tag :
  judge_hist h os = v_ok tag -> trace_ok [] (obs_trace h os).
Proof.
  unfold judge_hist.
  destruct (negb (Nat.eqb (List.length h) (List.length os))); [discriminate|].
  destruct (trace_okb [] (obs_trace h os)) eqn:E.
  - intros _. apply trace_okb_ok. exact E.
  - destruct (find_cfg h os) as [cf|]; [|discriminate].
    destruct (classes cf store0 [] h os) as [[|id r]|]; discriminate.
Qed.
