(* C05 — proofs about Model/Store.v *)
From Coq Require Import List ZArith String Bool Arith Lia.
From MechV Require Import Base.Sexp Base.Obs Model.Store.
Import ListNotations.
Open Scope list_scope.

(* ================================================================== *)
(* A. the equality tests are equalities                                *)
(* ================================================================== *)
Lemma dy_eqb_eq (a b : dy) : dy_eqb a b = true <-> a = b.
Proof.
  destruct a as [m e], b as [m' e']; unfold dy_eqb; cbn [fst snd]. split.
  - intros H. apply andb_prop in H as [H1 H2]. apply Z.eqb_eq in H1, H2. congruence.
  - intros H. inversion H; subst. rewrite !Z.eqb_refl. reflexivity.
Qed.

Lemma dys_eqb_eq (a b : list dy) : dys_eqb a b = true <-> a = b.
Proof.
  revert b. induction a as [|x a IH]; intros [|y b]; cbn; split; intros H; try discriminate; try reflexivity.
  - apply andb_prop in H as [H1 H2]. apply dy_eqb_eq in H1. apply IH in H2. congruence.
  - inversion H; subst. apply andb_true_intro. split; [apply dy_eqb_eq; reflexivity | apply IH; reflexivity].
Qed.

Lemma cols_eqb_eq (a b : list (string * list dy)) : cols_eqb a b = true <-> a = b.
Proof.
  revert b. induction a as [|[n x] a IH]; intros [|[n' y] b]; cbn; split; intros H; try discriminate; try reflexivity.
  - apply andb_prop in H as [H1 H3]. apply andb_prop in H1 as [H1 H2].
    apply String.eqb_eq in H1. apply dys_eqb_eq in H2. apply IH in H3. congruence.
  - inversion H; subst. rewrite String.eqb_refl. cbn.
    apply andb_true_intro. split; [apply dys_eqb_eq; reflexivity | apply IH; reflexivity].
Qed.

Fixpoint sx_eqb_sound (a : sx) : forall b, sx_eqb a b = true -> a = b.
Proof.
  destruct a as [x|x|x|l]; intros [y|y|y|l'] H; cbn in H; try discriminate.
  - apply Z.eqb_eq in H. congruence.
  - apply String.eqb_eq in H. congruence.
  - apply String.eqb_eq in H. congruence.
  - f_equal. revert l' H. induction l as [|v l IH]; intros [|w l'] H; try discriminate; [reflexivity|].
    apply andb_prop in H as [H1 H2]. f_equal; [apply sx_eqb_sound; exact H1 | apply IH; exact H2].
Qed.

Fixpoint sx_eqb_refl (a : sx) : sx_eqb a a = true.
Proof.
  destruct a as [x|x|x|l]; cbn.
  - apply Z.eqb_refl.
  - apply String.eqb_refl.
  - apply String.eqb_refl.
  - induction l as [|v l IH]; [reflexivity|]. rewrite sx_eqb_refl. exact IH.
Qed.

Lemma sxl_eqb_eq (a b : list sx) : sxl_eqb a b = true <-> a = b.
Proof.
  revert b. induction a as [|x a IH]; intros [|y b]; cbn; split; intros H; try discriminate; try reflexivity.
  - apply andb_prop in H as [H1 H2]. apply sx_eqb_sound in H1. apply IH in H2. congruence.
  - inversion H; subst. rewrite sx_eqb_refl. apply IH. reflexivity.
Qed.

Lemma shape_eqb_eq (a b : option (nat * nat)) : shape_eqb a b = true <-> a = b.
Proof.
  destruct a as [[r c]|], b as [[r' c']|]; cbn; split; intros H; try discriminate; try reflexivity.
  - apply andb_prop in H as [H1 H2]. apply Nat.eqb_eq in H1, H2. congruence.
  - inversion H; subst. rewrite !Nat.eqb_refl. reflexivity.
Qed.

Fixpoint dv_eqb_sound (a : dv) : forall b, dv_eqb a b = true -> a = b.
Proof.
  destruct a as [x|r c d|l|l|l|l|k sh l|x]; intros [x'|r' c' d'|l'|l'|l'|l'|k' sh' l'|x'] H; cbn in H; try discriminate.
  - apply dy_eqb_eq in H. congruence.
  - apply andb_prop in H as [H H3]. apply andb_prop in H as [H1 H2].
    apply Nat.eqb_eq in H1, H2. apply dys_eqb_eq in H3. congruence.
  - apply dys_eqb_eq in H. congruence.
  - apply cols_eqb_eq in H. congruence.
  - f_equal. revert l' H. induction l as [|v l IH]; intros [|w l'] H; try discriminate; [reflexivity|].
    apply andb_prop in H as [H1 H2]. f_equal; [apply dv_eqb_sound; exact H1 | apply IH; exact H2].
  - f_equal. revert l' H. induction l as [|[n v] l IH]; intros [|[n' w] l'] H; try discriminate; [reflexivity|].
    apply andb_prop in H as [H1 H3]. apply andb_prop in H1 as [H1 H2]. apply String.eqb_eq in H1. subst.
    f_equal; [f_equal; apply dv_eqb_sound; exact H2 | apply IH; exact H3].
  - apply andb_prop in H as [H H3]. apply andb_prop in H as [H1 H2].
    apply String.eqb_eq in H1. apply shape_eqb_eq in H2. apply sxl_eqb_eq in H3. congruence.
  - apply sx_eqb_sound in H. congruence.
Qed.

Fixpoint dv_eqb_refl (a : dv) : dv_eqb a a = true.
Proof.
  destruct a as [x|r c d|l|l|l|l|k sh l|x]; cbn.
  - apply dy_eqb_eq; reflexivity.
  - rewrite !Nat.eqb_refl. cbn. apply dys_eqb_eq; reflexivity.
  - apply dys_eqb_eq; reflexivity.
  - apply cols_eqb_eq; reflexivity.
  - induction l as [|v l IH]; [reflexivity|]. rewrite dv_eqb_refl. exact IH.
  - induction l as [|[n v] l IH]; [reflexivity|]. rewrite String.eqb_refl, dv_eqb_refl. exact IH.
  - rewrite String.eqb_refl. cbn. apply andb_true_intro. split; [apply shape_eqb_eq | apply sxl_eqb_eq]; reflexivity.
  - apply sx_eqb_refl.
Qed.

Lemma dv_eqb_eq (a b : dv) : dv_eqb a b = true <-> a = b.
Proof. split; [apply dv_eqb_sound | intros ->; apply dv_eqb_refl]. Qed.

Lemma row_eqb_eq (a b : row) : row_eqb a b = true <-> a = b.
Proof.
  destruct a as [m v], b as [m' v']; unfold row_eqb; cbn [fst snd]. split.
  - intros H. apply andb_prop in H as [H1 H2]. apply eqb_prop in H1. apply dv_eqb_eq in H2. congruence.
  - intros H. inversion H; subst. rewrite eqb_reflx. apply dv_eqb_eq. reflexivity.
Qed.

Lemma orow_eqb_eq (a b : option row) : orow_eqb a b = true <-> a = b.
Proof.
  destruct a as [x|], b as [y|]; cbn; split; intros H; try discriminate; try reflexivity.
  - apply row_eqb_eq in H. congruence.
  - inversion H; subst. apply row_eqb_eq. reflexivity.
Qed.

Lemma mem_In (x : string) (l : list string) : mem x l = true <-> In x l.
Proof.
  induction l as [|y l IH]; cbn; [split; [discriminate | tauto]|].
  rewrite orb_true_iff, IH, String.eqb_eq. split; intros [H|H]; auto.
Qed.

Lemma nodupb_NoDup (l : list string) : nodupb l = true <-> NoDup l.
Proof.
  induction l as [|x l IH]; cbn; [split; [constructor | reflexivity]|].
  rewrite andb_true_iff, negb_true_iff, IH. split.
  - intros [H1 H2]. constructor; [|exact H2]. intros Hin. apply mem_In in Hin. congruence.
  - intros H. inversion H; subst. split; [|assumption].
    destruct (mem x l) eqn:E; [|reflexivity]. apply mem_In in E. contradiction.
Qed.

Lemma find_None {A} (x : string) (l : list (string * A)) : find x l = None <-> ~ In x (keys l).
Proof.
  induction l as [|[y a] l IH]; cbn; [tauto|].
  destruct (String.eqb x y) eqn:E.
  - apply String.eqb_eq in E. subst. split; [discriminate | intros H; exfalso; apply H; auto].
  - apply String.eqb_neq in E. rewrite IH. split; [intros H [H1|H1]; [congruence | auto] | intros H H1; apply H; auto].
Qed.

Lemma find_In {A} (x : string) (a : A) (l : list (string * A)) : find x l = Some a -> In (x, a) l.
Proof.
  induction l as [|[y b] l IH]; cbn; [discriminate|].
  destruct (String.eqb x y) eqn:E.
  - apply String.eqb_eq in E. intros H. inversion H; subst. auto.
  - auto.
Qed.

Lemma In_find {A} (x : string) (a : A) (l : list (string * A)) : NoDup (keys l) -> In (x, a) l -> find x l = Some a.
Proof.
  induction l as [|[y b] l IH]; cbn; [tauto|]. intros Hnd [H|H].
  - inversion H; subst. rewrite String.eqb_refl. reflexivity.
  - inversion Hnd; subst. destruct (String.eqb x y) eqn:E.
    + apply String.eqb_eq in E. subst. exfalso. apply H2. apply (in_map fst) in H. exact H.
    + apply IH; assumption.
Qed.

(* ================================================================== *)
(* B. the property as a proposition                                    *)
(* ================================================================== *)
(* every name outside xs means the same in T and T' *)
Definition frame (xs : list string) (T T' : tab) : Prop :=
  forall n, ~ In n xs -> find n T' = find n T.

Inductive step_ok (T : tab) : stmt -> bool -> tab -> Prop :=
| ok_err st T' :                        (* a failing statement changes nothing at all *)
    frame [] T T' -> step_ok T st false T'
| ok_def mu x e v T' :                  (* a definition adds exactly x, with the value of its right-hand side *)
    find x T = None -> seval T e = Some v -> find x T' = Some (mu, v) -> frame [x] T T' ->
    step_ok T (SDef mu x e) true T'
| ok_destr xs e l T' :                  (* a destructure adds exactly its (new, distinct) targets, immutable *)
    seval T e = Some (DTup l) -> NoDup xs -> (forall x, In x xs -> find x T = None) ->
    List.length xs <= List.length l ->
    (forall i x v, nth_error xs i = Some x -> nth_error l i = Some v -> find x T' = Some (false, v)) ->
    frame xs T T' ->
    step_ok T (SDestr xs e) true T'
| ok_asg st x v0 v1 T' :                (* an assignment needs a mutable target and touches nothing else *)
    assign_target st = Some x -> find x T = Some (true, v0) -> find x T' = Some (true, v1) -> frame [x] T T' ->
    step_ok T st true T'.

Fixpoint trace_ok (T : tab) (tr : list tstep) : Prop :=
  match tr with
  | [] => True
  | (st, ok, T') :: r => step_ok T st ok T' /\ trace_ok T' r
  end.

Lemma frameb_frame xs T T' : frameb xs T T' = true <-> frame xs T T'.
Proof.
  unfold frameb, frame. rewrite forallb_forall. split.
  - intros H n Hn. destruct (in_dec string_dec n (keys T ++ keys T')) as [Hin|Hin].
    + specialize (H n Hin). apply orb_true_iff in H as [H|H].
      * apply mem_In in H. contradiction.
      * apply orow_eqb_eq in H. exact H.
    + assert (H1 : find n T = None) by (apply find_None; intros X; apply Hin; apply in_or_app; auto).
      assert (H2 : find n T' = None) by (apply find_None; intros X; apply Hin; apply in_or_app; auto).
      congruence.
  - intros H n _. destruct (mem n xs) eqn:E; [reflexivity|]. cbn.
    apply orow_eqb_eq. apply H. intros Hin. apply mem_In in Hin. congruence.
Qed.

Lemma destr_rowsb_spec xs l T' :
  destr_rowsb xs l T' = true <->
  (List.length xs <= List.length l /\
   forall i x v, nth_error xs i = Some x -> nth_error l i = Some v -> find x T' = Some (false, v)).
Proof.
  revert l. induction xs as [|x xs IH]; intros l; cbn [destr_rowsb].
  - split; [intros _; split; [cbn; lia | intros [|i] ? ? H; discriminate] | reflexivity].
  - destruct l as [|v l].
    + split; [discriminate | intros [H _]; cbn in H; lia].
    + rewrite andb_true_iff, IH, orow_eqb_eq. split.
      * intros [H1 [H2 H3]]. split; [cbn; lia|]. intros [|i] y w Hy Hw; cbn in Hy, Hw.
        -- inversion Hy; inversion Hw; subst. exact H1.
        -- eapply H3; eassumption.
      * intros [H1 H2]. split; [apply (H2 0); reflexivity|]. split; [cbn in H1; lia|].
        intros i y w Hy Hw. apply (H2 (S i)); assumption.
Qed.

Lemma forallb_undef xs (T : tab) :
  forallb (fun x => match find x T with None => true | Some _ => false end) xs = true <->
  (forall x, In x xs -> find x T = None).
Proof.
  rewrite forallb_forall. split; intros H x Hx; specialize (H x Hx); destruct (find x T); congruence.
Qed.

Lemma asg_case T st x T' :
  assign_target st = Some x ->
  (match find x T, find x T' with
   | Some (true, _), Some (true, _) => frameb [x] T T'
   | _, _ => false
   end = true <-> step_ok T st true T').
Proof.
  intros Hx. split.
  - destruct (find x T) as [[[|] v0]|] eqn:E0; try discriminate.
    destruct (find x T') as [[[|] v1]|] eqn:E1; try discriminate.
    intros H. apply frameb_frame in H. eapply ok_asg; eassumption.
  - intros H. inversion H; subst; try discriminate.
    assert (x0 = x) by congruence. subst.
    repeat match goal with Ha : find x _ = Some _ |- _ => rewrite Ha; clear Ha end.
    apply frameb_frame. assumption.
Qed.

Theorem step_okb_ok T st ok T' : step_okb T st ok T' = true <-> step_ok T st ok T'.
Proof.
  unfold step_okb. destruct ok; cbn [negb].
  2:{ rewrite frameb_frame. split; [apply ok_err | intros H; inversion H; assumption]. }
  destruct st as [mu x e|x e|x i s|x i j s|x o e|x f e|x k e|xs e]; cbn [assign_target];
    try (apply asg_case; reflexivity).
  - destruct (find x T) as [r|] eqn:Ef.
    { split; [discriminate | intros H; inversion H; subst; [rewrite Ef in *; discriminate | discriminate]]. }
    destruct (seval T e) as [v|] eqn:Ee.
    2:{ split; [discriminate | intros H; inversion H; subst; [rewrite Ee in *; discriminate | discriminate]]. }
    rewrite andb_true_iff, orow_eqb_eq, frameb_frame. split.
    + intros [H1 H2]. eapply ok_def; eassumption.
    + intros H. inversion H; subst; [|discriminate]. rewrite Ee in *. split; [congruence | assumption].
  - destruct (seval T e) as [[| | | |l| | |]|] eqn:Ee;
      try (split; [discriminate | intros H; inversion H; subst; [rewrite Ee in *; discriminate | discriminate]]).
    rewrite !andb_true_iff, nodupb_NoDup, forallb_undef, destr_rowsb_spec, frameb_frame. split.
    + intros [[H1 H2] [[H3 H4] H5]]. eapply ok_destr; eassumption.
    + intros H. inversion H; subst; [|discriminate]. rewrite Ee in *.
      assert (l0 = l) by congruence. subst. tauto.
Qed.

Theorem trace_okb_ok T tr : trace_okb T tr = true <-> trace_ok T tr.
Proof.
  revert T. induction tr as [|[[st ok] T'] r IH]; intros T; cbn; [tauto|].
  rewrite andb_true_iff, step_okb_ok, IH. tauto.
Qed.

(* ================================================================== *)
(* C. what the property means for whole histories                      *)
(* ================================================================== *)
Lemma frame_nil T T' : frame [] T T' <-> (forall n, find n T' = find n T).
Proof. unfold frame. split; intros H n; [apply H; intros [] | intros _; apply H]. Qed.

(* one step never touches an immutable binding *)
Lemma step_keeps_immutable T st ok T' x v :
  step_ok T st ok T' -> find x T = Some (false, v) -> find x T' = Some (false, v).
Proof.
  intros H Hx. inversion H; subst.
  - rewrite <- Hx. apply H0. intros [].
  - rewrite <- Hx. apply H3. intros [E|[]]. subst. congruence.
  - rewrite <- Hx. apply H5. intros Hin. apply H2 in Hin. congruence.
  - rewrite <- Hx. apply H3. intros [E|[]]. subst. congruence.
Qed.

Definition states (tr : list tstep) : list tab := map snd tr.

(* a binding made without ~ keeps its value whatever follows *)
Theorem immutable_forever T tr x v :
  trace_ok T tr -> find x T = Some (false, v) -> Forall (fun T' => find x T' = Some (false, v)) (states tr).
Proof.
  revert T. induction tr as [|[[st ok] T'] r IH]; intros T Htr Hx; cbn; [constructor|].
  destruct Htr as [H1 H2]. pose proof (step_keeps_immutable _ _ _ _ _ _ H1 Hx) as Hx'.
  constructor; [exact Hx' | eapply IH; eassumption].
Qed.

(* ... and that value is the value its right-hand side had when it was defined *)
Theorem defined_value_forever T x e T1 tr v :
  trace_ok T ((SDef false x e, true, T1) :: tr) -> seval T e = Some v ->
  Forall (fun T' => find x T' = Some (false, v)) (T1 :: states tr).
Proof.
  intros [H1 H2] Hv. inversion H1; subst; [|discriminate].
  assert (v0 = v) by congruence. subst.
  constructor; [assumption | eapply immutable_forever; eassumption].
Qed.

(* assigning to or through x changes nothing seen through another name, nor which names exist *)
Theorem assign_only_target T st T' x :
  step_ok T st true T' -> assign_target st = Some x ->
  (forall n, n <> x -> find n T' = find n T) /\
  (forall n, find n T' = None <-> find n T = None) /\
  (exists v0 v1, find x T = Some (true, v0) /\ find x T' = Some (true, v1)).
Proof.
  intros H Hx. inversion H; subst; try discriminate.
  assert (x0 = x) by congruence. subst.
  assert (Hf : forall n, n <> x -> find n T' = find n T) by (intros n Hn; apply H3; intros [E|[]]; congruence).
  split; [exact Hf|]. split; [|eauto].
  intros n. destruct (string_dec n x) as [->|Hn]; [rewrite H1, H2; split; discriminate | rewrite (Hf n Hn); tauto].
Qed.

(* a failing statement leaves every binding and the set of names as they were *)
Theorem failure_atomic T st T' :
  step_ok T st false T' -> forall n, find n T' = find n T.
Proof. intros H. inversion H; subst. apply frame_nil. assumption. Qed.

(* the three mandatory errors *)
Definition must_fail (T : tab) (st : stmt) : Prop :=
  match st with
  | SDef _ x _ => find x T <> None                                   (* redefinition *)
  | SDestr xs _ => exists x, In x xs /\ find x T <> None             (* redefinition by a destructure *)
  | _ => match assign_target st with
         | Some x => find x T = None \/ exists v, find x T = Some (false, v)   (* undefined / immutable target *)
         | None => False
         end
  end.

Theorem errors_rejected T st ok T' : step_ok T st ok T' -> must_fail T st -> ok = false.
Proof.
  intros H Hm. inversion H; subst; try reflexivity; exfalso.
  - cbn in Hm. congruence.
  - cbn in Hm. destruct Hm as [x [Hx Hd]]. apply Hd. apply H2. exact Hx.
  - destruct st; cbn in H0; try discriminate; cbn in Hm; inversion H0; subst;
      (destruct Hm as [Hm|[v Hm]]; congruence).
Qed.

(* ================================================================== *)
(* D. the judge                                                        *)
(* ================================================================== *)
Theorem judge_hist_sound h os tag :
  judge_hist h os = v_ok tag -> trace_ok [] (obs_trace h os).
Proof.
  unfold judge_hist.
  destruct (negb (Nat.eqb (List.length h) (List.length os))); [discriminate|].
  destruct (trace_okb [] (obs_trace h os)) eqn:E.
  - intros _. apply trace_okb_ok. exact E.
  - destruct (find_cfg h os) as [cf|]; [|discriminate].
    destruct (classes cf store0 [] h os) as [[|id r]|]; discriminate.
Qed.

(* ================================================================== *)
(* E. the heap model violates the property: one witness per class      *)
(* ================================================================== *)
Definition dz (z : Z) : dy := dnorm z 0.
Definition refutes (id : string) (h : list stmt) : Prop :=
  ~ trace_ok [] (impl_trace cfg_cur store0 h) /\
  classes cfg_cur store0 [] h (model_obs cfg_cur h) = Some [id].

Ltac refute := split; [intros H; apply trace_okb_ok in H; vm_compute in H; discriminate | vm_compute; reflexivity].

(* a := 1 ; ~b := a ; b = 5      -- a becomes 5 *)
Definition w_alias_define : list stmt :=
  [SDef false "a" (ENum (dz 1)); SDef true "b" (EVar "a"); SAssign "b" (ENum (dz 5))].
Lemma refuted_alias_define : refutes "alias-define" w_alias_define.
Proof. refute. Qed.

(* ~a := 1 ; t := (a, 2) ; a = 5  -- t becomes (5, 2) *)
Definition w_alias_literal : list stmt :=
  [SDef true "a" (ENum (dz 1)); SDef false "t" (ETup [AVar "a"; ANum (dz 2)]); SAssign "a" (ENum (dz 5))].
Lemma refuted_alias_literal : refutes "alias-literal" w_alias_literal.
Proof. refute. Qed.

(* (p, q) := (1, 2)              -- p and q are mutable *)
Definition w_destructure_mutable : list stmt :=
  [SDestr ["p"; "q"] (ETup [ANum (dz 1); ANum (dz 2)])].
Lemma refuted_destructure_mutable : refutes "destructure-mutable" w_destructure_mutable.
Proof. refute. Qed.

(* a := 1 ; (p, a) := (1, 2)     -- error, but p stays defined *)
Definition w_destructure_partial : list stmt :=
  [SDef false "a" (ENum (dz 1)); SDestr ["p"; "a"] (ETup [ANum (dz 1); ANum (dz 2)])].
Lemma refuted_destructure_partial : refutes "destructure-partial" w_destructure_partial.
Proof. refute. Qed.

(* ~t := | fa<f64> | 1 | 2 | ; t.fa = [5; 6; 7]   -- error, but the column is now 5 6 *)
Definition w_table_column_partial : list stmt :=
  [SDef true "t" (ETab [("fa", [dz 1; dz 2])]); SField "t" "fa" (EMat 3 1 [dz 5; dz 6; dz 7])].
Lemma refuted_table_column_partial : refutes "table-column-partial" w_table_column_partial.
Proof. refute. Qed.

(* ~m<[u8]:1,3> := [1 100 3] ; m += 200<u8>   -- error (100 + 200 overflows u8), but m is now [201 100 3] *)
Definition w_int_op_partial : list stmt :=
  [SDef true "m" (EK "u8" (Some (1, 3)) [Zx 1; Zx 100; Zx 3]); SOp "m" OAdd (EK "u8" None [Zx 200])].
Lemma refuted_int_op_partial : refutes "int-op-partial" w_int_op_partial.
Proof. refute. Qed.

(* ~m<[u8]:1,3> := [4 4 4] ; m /= [2<u8> 0<u8> 2<u8>]   -- error (division by zero), but m is now [2 4 4] *)
Definition w_int_div_partial : list stmt :=
  [SDef true "m" (EK "u8" (Some (1, 3)) [Zx 4; Zx 4; Zx 4]); SOp "m" ODiv (EK "u8" (Some (1, 3)) [Zx 2; Zx 0; Zx 2])].
Lemma refuted_int_div_partial : refutes "int-op-partial" w_int_div_partial.
Proof. refute. Qed.

(* ~x := 3/2 ; x /= 0<r64>   -- error, but x is now 1/0 *)
Definition w_r64_div_zero : list stmt :=
  [SDef true "x" (EK "r64" None [Lx [Zx 3; Zx 2]]); SOp "x" ODiv (EK "r64" None [Lx [Zx 0; Zx 1]])].
Lemma refuted_r64_div_zero : refutes "r64-div-zero-partial" w_r64_div_zero.
Proof. refute. Qed.

(* t := (1, 2) ; (p, q) := t ; p = 5   -- t becomes (5, 2); (the destructure itself is already a finding) *)
Definition w_alias_destructure : list stmt :=
  [SDef false "t" (ETup [ANum (dz 1); ANum (dz 2)]); SDestr ["p"; "q"] (EVar "t"); SAssign "p" (ENum (dz 5))].
Lemma refuted_alias_destructure :
  ~ trace_ok [] (impl_trace cfg_cur store0 w_alias_destructure) /\
  classes cfg_cur store0 [] w_alias_destructure (model_obs cfg_cur w_alias_destructure)
    = Some ["destructure-mutable"; "alias-destructure"].
Proof. refute. Qed.

(* ================================================================== *)
(* F. outside the classes the heap model satisfies the property        *)
(* ================================================================== *)
Section value_ind'.
  Variable P : value -> Prop.
  Hypothesis HC : forall c, P (VC c).
  Hypothesis HS : forall i l, P (VSet i l).
  Hypothesis HT : forall i l, Forall P l -> P (VTup i l).
  Hypothesis HR : forall i l, Forall (fun p => P (snd p)) l -> P (VRec i l).
  Hypothesis HF : forall v, P v -> P (VRef v).
  Fixpoint value_ind' (v : value) : P v :=
    match v with
    | VC c => HC c
    | VSet i l => HS i l
    | VTup i l =>
        HT i l ((fix go (l : list value) : Forall P l :=
                   match l with
                   | [] => Forall_nil _
                   | w :: r => Forall_cons w (value_ind' w) (go r)
                   end) l)
    | VRec i l =>
        HR i l ((fix go (l : list (string * value)) : Forall (fun p => P (snd p)) l :=
                   match l with
                   | [] => Forall_nil _
                   | (f, w) :: r => Forall_cons (f, w) (value_ind' w) (go r)
                   end) l)
    | VRef w => HF w (value_ind' w)
    end.
End value_ind'.

(* a value looks the same in two heaps that agree on the cells it reaches *)
Lemma snap_agree v : forall cs cs',
  (forall c, In c (cells_of v) -> findn c cs' = findn c cs) -> snap cs' v = snap cs v.
Proof.
  induction v as [c|i l|i l IH|i l IH|v IH] using value_ind'; intros cs cs' H; cbn [snap].
  - unfold get. rewrite H; [reflexivity | cbn; auto].
  - reflexivity.
  - f_equal. cbn [cells_of] in H. induction l as [|w l IHl]; [reflexivity|].
    inversion IH; subst. cbn [map flat_map] in *. f_equal.
    + apply H2. intros c Hc. apply H. apply in_or_app. auto.
    + apply IHl; [assumption|]. intros c Hc. apply H. apply in_or_app. auto.
  - f_equal. cbn [cells_of] in H. induction l as [|[f w] l IHl]; [reflexivity|].
    inversion IH; subst. cbn [map flat_map snd] in *. f_equal.
    + f_equal. apply H2. intros c Hc. apply H. apply in_or_app. auto.
    + apply IHl; [assumption|]. intros c Hc. apply H. apply in_or_app. auto.
  - apply IH. exact H.
Qed.

Lemma findn_write_other a d cs c : c <> a -> findn c (write a d cs) = findn c cs.
Proof. intros H. unfold write. cbn. apply Nat.eqb_neq in H. rewrite H. reflexivity. Qed.

Lemma snap_write_other a d cs v : ~ In a (cells_of v) -> snap (write a d cs) v = snap cs v.
Proof. intros H. apply snap_agree. intros c Hc. apply findn_write_other. intros ->. contradiction. Qed.

(* the second heap extends the first: every cell below n is as it was *)
Definition heap_ext (n : nat) (cs cs' : list (nat * dv)) : Prop := forall c, c < n -> findn c cs' = findn c cs.

Lemma heap_ext_refl n cs : heap_ext n cs cs.
Proof. intros c _. reflexivity. Qed.
Lemma heap_ext_trans n m a b c : n <= m -> heap_ext n a b -> heap_ext m b c -> heap_ext n a c.
Proof. intros Hnm H1 H2 k Hk. rewrite H2 by lia. apply H1. exact Hk. Qed.

Lemma snap_ext n cs cs' v : heap_ext n cs cs' -> (forall c, In c (cells_of v) -> c < n) -> snap cs' v = snap cs v.
Proof. intros H Hv. apply snap_agree. intros c Hc. apply H. apply Hv. exact Hc. Qed.

(* what evaluating a right-hand side does to the store, whatever the expression *)
Definition grows (st s1 : store) : Prop :=
  names s1 = names st /\ next st <= next s1 /\ heap_ext (next st) (cells st) (cells s1).

Lemma grows_refl st : grows st st.
Proof. split; [reflexivity|]. split; [lia | apply heap_ext_refl]. Qed.
Lemma grows_trans a b c : grows a b -> grows b c -> grows a c.
Proof.
  intros [H1 [H2 H3]] [H4 [H5 H6]]. split; [congruence|]. split; [lia|].
  eapply heap_ext_trans; eassumption.
Qed.

Lemma alloc_grows d st : grows st (snd (alloc d st)).
Proof.
  unfold grows, alloc; simpl. split; [reflexivity|]. split; [lia|].
  intros c Hc. simpl. assert (E : Nat.eqb c (next st) = false) by (apply Nat.eqb_neq; lia). rewrite E. reflexivity.
Qed.
Lemma fresh_id_grows st : grows st (snd (fresh_id st)).
Proof. unfold grows, fresh_id; simpl. split; [reflexivity|]. split; [lia | apply heap_ext_refl]. Qed.

Section AnyCfg.
  Variable cf : cfg.
  Hypothesis Hac : c_atom_copy cf = false.

Lemma eval_atom_grows st a v s1 : eval_atom cf st a = Some (v, s1) -> grows st s1.
Proof.
  destruct a as [x|r c d|x|k sh l]; cbn.
  - intros H. inversion H; subst. apply (alloc_grows (DNum x) st).
  - intros H. inversion H; subst. apply (alloc_grows (DMat r c d) st).
  - destruct (find x (names st)) as [[[mu w] b]|]; [|discriminate]. rewrite Hac. intros H. inversion H; subst. apply grows_refl.
  - intros H. inversion H; subst. apply (alloc_grows (DK k sh l) st).
Qed.

Lemma eval_atoms_grows l : forall st vs s1, eval_atoms cf st l = Some (vs, s1) -> grows st s1.
Proof.
  induction l as [|a l IH]; intros st vs s1; cbn [eval_atoms].
  - intros H. inversion H; subst. apply grows_refl.
  - destruct (eval_atom cf st a) as [[v s0]|] eqn:Ea; [|discriminate].
    destruct (eval_atoms cf s0 l) as [[ws s2]|] eqn:El; [|discriminate].
    intros H. inversion H; subst. eapply grows_trans; [eapply eval_atom_grows; eassumption | eapply IH; eassumption].
Qed.

Lemma eval_expr_grows st e v s1 b : eval_expr cf st e = Some (v, s1, b) -> grows st s1.
Proof.
  destruct e as [x|r c d|l|cols|l|l|x|k sh l|x]; cbn [eval_expr].
  - intros H. inversion H; subst. apply (alloc_grows (DNum x) st).
  - intros H. inversion H; subst. apply (alloc_grows (DMat r c d) st).
  - intros H. inversion H; subst. apply (fresh_id_grows st).
  - intros H. inversion H; subst. apply (alloc_grows (DTab cols) st).
  - cbn. destruct (eval_atoms cf _ l) as [[vs s2]|] eqn:E; [|discriminate].
    intros H. inversion H; subst. eapply grows_trans; [apply (fresh_id_grows st) | eapply eval_atoms_grows; exact E].
  - cbn. destruct (eval_atoms cf _ (map snd l)) as [[vs s2]|] eqn:E; [|discriminate].
    intros H. inversion H; subst. eapply grows_trans; [apply (fresh_id_grows st) | eapply eval_atoms_grows; exact E].
  - destruct (find x (names st)) as [[[mu w] b']|]; [|discriminate]. intros H. inversion H; subst. apply grows_refl.
  - intros H. inversion H; subst. apply (alloc_grows (DK k sh l) st).
  - intros H. inversion H; subst. apply (alloc_grows (DOpq x) st).
Qed.

(* ... and when it is a closed literal: everything it reaches is new, and it denotes the literal *)
Definition closed_atom (a : atom) : Prop := match a with AVar _ => False | _ => True end.
Definition closed_expr (e : expr) : Prop :=
  match e with
  | EVar _ => False
  | ETup l => Forall closed_atom l
  | ERec l => Forall closed_atom (map snd l)
  | _ => True
  end.
Definition adv (a : atom) : dv :=
  match a with ANum x => DNum x | AMat r c d => DMat r c d | AVar _ => DNum (0%Z, 0%Z) | AK k sh l => DK k sh l end.

Definition new_in (st s1 : store) (cs : list nat) : Prop := forall c, In c cs -> next st <= c < next s1.

Lemma get_alloc d st : get (next st) (cells (snd (alloc d st))) = d.
Proof. unfold alloc, get; cbn. rewrite Nat.eqb_refl. reflexivity. Qed.

Lemma eval_atom_closed T st a v s1 :
  closed_atom a -> eval_atom cf st a = Some (v, s1) ->
  new_in st s1 (cells_of v) /\ snap (cells s1) v = adv a /\ aeval T a = Some (adv a).
Proof.
  destruct a as [x|r c d|x|k sh l]; cbn; intros Hc H; try contradiction; inversion H; subst; simpl; unfold new_in, get; simpl;
    rewrite Nat.eqb_refl; (split; [intros c0 [<-|[]]; lia|]); split; reflexivity.
Qed.

Lemma eval_atoms_closed T l : forall st vs s1,
  Forall closed_atom l -> eval_atoms cf st l = Some (vs, s1) ->
  new_in st s1 (flat_map cells_of vs) /\ map (snap (cells s1)) vs = map adv l /\
  map_opt (aeval T) l = Some (map adv l) /\ List.length vs = List.length l.
Proof.
  induction l as [|a l IH]; intros st vs s1 Hc; cbn [eval_atoms].
  - intros H. inversion H; subst. cbn. split; [intros c0 []|]. repeat split.
  - inversion Hc; subst.
    destruct (eval_atom cf st a) as [[v s0]|] eqn:Ea; [|discriminate].
    destruct (eval_atoms cf s0 l) as [[ws s2]|] eqn:El; [|discriminate].
    intros H. inversion H; subst.
    pose proof (eval_atom_grows _ _ _ _ Ea) as [_ [Hn0 _]].
    pose proof (eval_atoms_grows _ _ _ _ El) as [_ [Hn1 Hx1]].
    destruct (eval_atom_closed T _ _ _ _ H1 Ea) as [Hnew [Hs Ha]].
    destruct (IH _ _ _ H2 El) as [Hnew' [Hs' [Ha' Hl]]].
    split; [|split; [|split]].
    + intros c Hin. cbn in Hin. apply in_app_or in Hin as [Hin|Hin]; [apply Hnew in Hin | apply Hnew' in Hin]; lia.
    + cbn. f_equal; [|exact Hs']. rewrite <- Hs. eapply snap_ext; [exact Hx1|]. intros c Hin. apply Hnew in Hin. lia.
    + cbn. rewrite Ha, Ha'. reflexivity.
    + cbn. lia.
Qed.

Lemma combine_map_snd {A B C} (g : B -> C) (fs : list A) (vs : list B) :
  map (fun p => (fst p, g (snd p))) (combine fs vs) = combine fs (map g vs).
Proof. revert vs. induction fs as [|f fs IH]; intros [|v vs]; cbn; try reflexivity. f_equal. apply IH. Qed.

Lemma combine_fst_snd {A B C} (g : B -> C) (l : list (A * B)) :
  combine (map fst l) (map g (map snd l)) = map (fun p => (fst p, g (snd p))) l.
Proof. induction l as [|[a b] l IH]; cbn; [reflexivity|]. f_equal. exact IH. Qed.

Lemma flat_cells_combine (fs : list string) (vs : list value) :
  List.length fs = List.length vs ->
  flat_map (fun p : string * value => match p with (_, w) => cells_of w end) (combine fs vs) = flat_map cells_of vs.
Proof.
  revert vs. induction fs as [|f fs IH]; intros [|v vs] H; cbn in *; try reflexivity; try discriminate.
  f_equal. apply IH. lia.
Qed.

Lemma map_opt_fields T (l : list (string * atom)) :
  map_opt (aeval T) (map snd l) = Some (map adv (map snd l)) ->
  map_opt (fun p => option_map (pair (fst p)) (aeval T (snd p))) l = Some (map (fun p => (fst p, adv (snd p))) l).
Proof.
  induction l as [|[f a] l IH]; cbn; [reflexivity|].
  destruct (aeval T a) as [d|] eqn:Ea; [|discriminate].
  destruct (map_opt (aeval T) (map snd l)) as [ds|] eqn:El; [|discriminate].
  intros H. inversion H; subst. rewrite IH by reflexivity. cbn. reflexivity.
Qed.

Lemma eval_expr_closed T st e v s1 b :
  closed_expr e -> eval_expr cf st e = Some (v, s1, b) ->
  new_in st s1 (cells_of v) /\ seval T e = Some (snap (cells s1) v) /\ detach v = v /\ deref1 v = v.
Proof.
  destruct e as [x|r c d|l|cols|l|l|x|k sh l0|x]; cbn [eval_expr closed_expr]; intros Hc; try contradiction.
  - intros H. inversion H; subst. simpl; unfold new_in, get; simpl. rewrite Nat.eqb_refl.
    split; [intros c0 [<-|[]]; lia|]. repeat split.
  - intros H. inversion H; subst. simpl; unfold new_in, get; simpl. rewrite Nat.eqb_refl.
    split; [intros c0 [<-|[]]; lia|]. repeat split.
  - intros H. inversion H; subst. unfold new_in; simpl. split; [intros c0 []|]. repeat split.
  - intros H. inversion H; subst. simpl; unfold new_in, get; simpl. rewrite Nat.eqb_refl.
    split; [intros c0 [<-|[]]; lia|]. repeat split.
  - cbn. destruct (eval_atoms cf _ l) as [[vs s2]|] eqn:E; [|discriminate].
    intros H. inversion H; subst.
    destruct (eval_atoms_closed T _ _ _ _ Hc E) as [Hnew [Hs [Ha _]]].
    split; [|split; [|split; reflexivity]].
    + intros c Hin. cbn [cells_of] in Hin. apply Hnew in Hin. simpl in Hin. lia.
    + cbn [seval snap]. rewrite Ha, Hs. reflexivity.
  - cbn. destruct (eval_atoms cf _ (map snd l)) as [[vs s2]|] eqn:E; [|discriminate].
    intros H. inversion H; subst.
    destruct (eval_atoms_closed T _ _ _ _ Hc E) as [Hnew [Hs [Ha Hl]]].
    rewrite map_length in Hl.
    split; [|split; [|split; reflexivity]].
    + intros c Hin. cbn [cells_of] in Hin. rewrite flat_cells_combine in Hin by (rewrite map_length; lia).
      apply Hnew in Hin. simpl in Hin. lia.
    + cbn [seval snap]. rewrite (map_opt_fields _ _ Ha). cbn. f_equal. f_equal.
      rewrite <- combine_fst_snd, <- Hs, <- combine_map_snd.
      apply map_ext. intros [f w]. reflexivity.
  - intros H. inversion H; subst. simpl; unfold new_in, get; simpl. rewrite Nat.eqb_refl.
    split; [intros c0 [<-|[]]; lia|]. repeat split.
  - intros H. inversion H; subst. simpl; unfold new_in, get; simpl. rewrite Nat.eqb_refl.
    split; [intros c0 [<-|[]]; lia|]. repeat split.
Qed.

End AnyCfg.

(* the invariant of class-free runs: every name owns the cells its value reaches *)
Record Inv (st : store) : Prop := {
  inv_nd : NoDup (keys (names st));
  inv_lt : forall x mu v b c, In (x, (mu, v, b)) (names st) -> In c (cells_of v) -> c < next st;
  inv_nr : forall x mu v b, In (x, (mu, v, b)) (names st) -> deref1 v = v;
  inv_sep : forall x y mu mu' v v' b b' c,
      In (x, (mu, v, b)) (names st) -> In (y, (mu', v', b')) (names st) ->
      In c (cells_of v) -> In c (cells_of v') -> x = y }.

Lemma Inv0 : Inv store0.
Proof. constructor; cbn; try constructor; intros; contradiction. Qed.

Lemma find_snap_tab st x :
  find x (snap_tab st) =
  match find x (names st) with Some (mu, v, _) => Some (mu, snap (cells st) v) | None => None end.
Proof.
  unfold snap_tab. induction (names st) as [|[y [[mu v] b]] l IH]; cbn; [reflexivity|].
  destruct (String.eqb x y); [reflexivity | exact IH].
Qed.

Lemma find_app_new {A} x (a : A) l : find x l = None -> find x (l ++ [(x, a)]) = Some a.
Proof.
  induction l as [|[y b] l IH]; cbn; [rewrite String.eqb_refl; reflexivity|].
  destruct (String.eqb x y); [discriminate | exact IH].
Qed.
Lemma find_app_other {A} n x (a : A) l : n <> x -> find n (l ++ [(x, a)]) = find n l.
Proof.
  intros Hn. induction l as [|[y b] l IH]; cbn.
  - apply String.eqb_neq in Hn. rewrite Hn. reflexivity.
  - destruct (String.eqb n y); [reflexivity | exact IH].
Qed.

Lemma Inv_grows st s1 : Inv st -> grows st s1 -> Inv {| cells := cells s1; names := names st; next := next s1 |}.
Proof.
  intros [H1 H2 H3 H4] [_ [Hn _]]. constructor; cbn; try assumption.
  intros x mu v b c Hin Hc. specialize (H2 _ _ _ _ _ Hin Hc). lia.
Qed.

(* a refused statement *)
Lemma refused_ok st s : step_ok (snap_tab st) s false (snap_tab st).
Proof. apply ok_err. intros n _. reflexivity. Qed.

(* a name other than the owner of cell a keeps its snapshot when a is written in a grown heap *)
Lemma other_names_keep st s1 x sink b0 a d n :
  Inv st -> grows st s1 -> find x (names st) = Some (true, sink, b0) -> In a (cells_of sink) -> n <> x ->
  find n (snap_tab {| cells := write a d (cells s1); names := names st; next := next s1 |}) = find n (snap_tab st).
Proof.
  intros HI [_ [_ Hx]] Hf Ha Hn. rewrite !find_snap_tab. cbn [names cells].
  destruct (find n (names st)) as [[[mu v] b]|] eqn:E; [|reflexivity].
  f_equal. f_equal. apply find_In in E. apply find_In in Hf.
  rewrite snap_write_other.
  - eapply snap_ext; [exact Hx|]. intros c Hc. eapply inv_lt; eassumption.
  - intros Hin. apply Hn. eapply (inv_sep _ HI n x); eassumption.
Qed.

(* what a kernel may do: write one cell, and that cell belongs to the sink *)
Definition kernel_ok (k : list (nat * dv) -> value -> kres) : Prop :=
  forall cs sink a cs', deref1 sink = sink -> k cs sink = KOk a cs' ->
    In a (cells_of sink) /\ exists d, cs' = write a d cs.

Lemma assign_with_ok st s1 s x k :
  Inv st -> grows st s1 -> assign_target s = Some x -> kernel_ok k ->
  is_partial (assign_with st s1 x k) = false ->
  step_ok (snap_tab st) s (snd (fst (assign_with st s1 x k))) (snap_tab (fst (fst (assign_with st s1 x k)))) /\
  Inv (fst (fst (assign_with st s1 x k))).
Proof.
  intros HI Hg Hs Hk Hp. unfold assign_with, target in *.
  destruct (find x (names st)) as [[[[|] sink] b0]|] eqn:Ef; cbn [fst snd]; try (split; [apply refused_ok | exact HI]).
  destruct (k (cells s1) sink) as [|a cs'|a cs'] eqn:Ek; cbn [finish fst snd] in *; try (split; [apply refused_ok | exact HI]); try discriminate.
  assert (Hd : deref1 sink = sink) by (apply find_In in Ef; eapply inv_nr; eassumption).
  destruct (Hk _ _ _ _ Hd Ek) as [Ha [d ->]].
  destruct Hg as [Hn [Hlt Hx]]. unfold set_cells. rewrite Hn. split.
  - eapply ok_asg with (x := x).
    + exact Hs.
    + rewrite find_snap_tab, Ef. reflexivity.
    + rewrite find_snap_tab. cbn [names]. rewrite Ef. reflexivity.
    + intros n Hnin. eapply other_names_keep; try eassumption.
      * split; [exact Hn|]. split; assumption.
      * intros ->. apply Hnin. left. reflexivity.
  - destruct HI as [H1 H2 H3 H4]. constructor; cbn; try assumption.
    intros y mu v b c Hin Hc. specialize (H2 _ _ _ _ _ Hin Hc). lia.
Qed.

Lemma with_src_ok cf st s x e k :
  c_atom_copy cf = false ->
  Inv st -> assign_target s = Some x -> (forall src, kernel_ok (fun cs sink => k cs sink src)) ->
  is_partial (with_src cf st e (fun src s1 => assign_with st s1 x (fun cs sink => k cs sink src))) = false ->
  let r := with_src cf st e (fun src s1 => assign_with st s1 x (fun cs sink => k cs sink src)) in
  step_ok (snap_tab st) s (snd (fst r)) (snap_tab (fst (fst r))) /\ Inv (fst (fst r)).
Proof.
  intros Hac HI Hs Hk Hp. unfold with_src in *.
  destruct (eval_expr cf st e) as [[[src s1] b]|] eqn:Ee; cbn [fst snd]; [|split; [apply refused_ok | exact HI]].
  apply assign_with_ok; try assumption; [eapply eval_expr_grows; eassumption | apply Hk].
Qed.

(* the five kernels *)
Ltac dmh := match goal with H : context [match ?x with _ => _ end] |- _ => destruct x eqn:?; try discriminate end.

Lemma k_assign_ok src : kernel_ok (fun cs sink => k_assign cs sink src).
Proof.
  intros cs sink a cs' Hd H. unfold k_assign in H. rewrite Hd in H.
  repeat dmh; inversion H; subst; (split; [cbn; auto | eexists; reflexivity]).
Qed.

Lemma k_idx_ok lin s : kernel_ok (fun cs sink => k_idx cs sink lin s).
Proof.
  intros cs sink a cs' Hd H. unfold k_idx in H. rewrite Hd in H.
  repeat dmh; inversion H; subst; (split; [cbn; auto | eexists; reflexivity]).
Qed.

Lemma k_op_ok o src : kernel_ok (fun cs sink => k_op cs o sink src).
Proof.
  intros cs sink a cs' Hd H. unfold k_op in H. rewrite Hd in H.
  repeat dmh; inversion H; subst; (split; [cbn; auto | eexists; reflexivity]).
Qed.

Lemma find_cells f (fs : list (string * value)) w c :
  find f fs = Some w -> In c (cells_of w) ->
  In c (flat_map (fun p : string * value => match p with (_, u) => cells_of u end) fs).
Proof.
  induction fs as [|[g u] fs IH]; cbn; [discriminate|].
  destruct (String.eqb f g).
  - intros H Hc. inversion H; subst. apply in_or_app. auto.
  - intros H Hc. apply in_or_app. right. apply IH; assumption.
Qed.

Lemma nth_cells (l : list value) n w c : nth_error l n = Some w -> In c (cells_of w) -> In c (flat_map cells_of l).
Proof.
  revert n. induction l as [|u l IH]; intros [|n]; cbn; try discriminate.
  - intros H Hc. inversion H; subst. apply in_or_app. auto.
  - intros H Hc. apply in_or_app. right. eapply IH; eassumption.
Qed.

Lemma k_field_ok cf f src : kernel_ok (fun cs sink => k_field cf cs sink f src).
Proof.
  intros cs sink a cs' Hd H. unfold k_field in H. rewrite Hd in H.
  destruct sink as [c|i l|i l|i fs|w]; try discriminate.
  - repeat dmh; inversion H; subst; (split; [cbn; auto | eexists; reflexivity]).
  - destruct (find f fs) as [[a0| | | |]|] eqn:Ef; try discriminate.
    repeat dmh; inversion H; subst; (split; [|eexists; reflexivity]);
    (cbn [cells_of]; eapply find_cells; [exact Ef | cbn; auto]).
Qed.

Lemma k_tix_ok k src : kernel_ok (fun cs sink => k_tix cs sink k src).
Proof.
  intros cs sink a cs' Hd H. unfold k_tix in H. rewrite Hd in H.
  destruct (Z.leb k 0); [discriminate|].
  destruct sink as [c|i l|i l|i fs|w]; try discriminate.
  destruct (nth_error l (Z.to_nat (k - 1))) as [[a0| | | |]|] eqn:En; try discriminate.
  repeat dmh; inversion H; subst; (split; [|eexists; reflexivity]);
  (cbn [cells_of]; eapply nth_cells; [exact En | cbn; auto]).
Qed.

Lemma NoDup_app_one {A} (l : list A) (x : A) : NoDup l -> ~ In x l -> NoDup (l ++ [x]).
Proof.
  induction l as [|y l IH]; cbn; intros Hnd Hx; [constructor; [intros []|constructor]|].
  inversion Hnd; subst. constructor.
  - intros Hin. apply in_app_or in Hin as [Hin|[Hin|[]]]; [contradiction | subst; apply Hx; auto].
  - apply IH; [assumption | intros Hin; apply Hx; auto].
Qed.

(* binding x to a value made of new cells only *)
Lemma add_fresh_ok st s2 mu x v b :
  Inv st -> grows st s2 -> new_in st s2 (cells_of v) -> deref1 v = v -> find x (names st) = None ->
  Inv (add_name x (mu, v, b) s2) /\
  find x (snap_tab (add_name x (mu, v, b) s2)) = Some (mu, snap (cells s2) v) /\
  (forall n, n <> x -> find n (snap_tab (add_name x (mu, v, b) s2)) = find n (snap_tab st)).
Proof.
  intros HI [Hn [Hlt Hx]] Hnew Hdr Ef. split; [|split].
  - destruct HI as [H1 H2 H3 H4]. unfold add_name. constructor; cbn [names next cells]; rewrite Hn.
    + unfold keys. rewrite map_app. cbn. apply NoDup_app_one; [exact H1|]. apply find_None. exact Ef.
    + intros y mu' v' b' c Hin Hc. apply in_app_or in Hin as [Hin|[Hin|[]]].
      * specialize (H2 _ _ _ _ _ Hin Hc). lia.
      * inversion Hin; subst. apply Hnew in Hc. lia.
    + intros y mu' v' b' Hin. apply in_app_or in Hin as [Hin|[Hin|[]]]; [eapply H3; eassumption|].
      inversion Hin; subst. exact Hdr.
    + intros y z mu1 mu2 v1 v2 b1 b2 c Hy Hz Hc1 Hc2.
      apply in_app_or in Hy as [Hy|[Hy|[]]]; apply in_app_or in Hz as [Hz|[Hz|[]]].
      * eapply H4; eassumption.
      * inversion Hz; subst. specialize (H2 _ _ _ _ _ Hy Hc1). apply Hnew in Hc2. lia.
      * inversion Hy; subst. specialize (H2 _ _ _ _ _ Hz Hc2). apply Hnew in Hc1. lia.
      * inversion Hy; inversion Hz; subst. reflexivity.
  - rewrite find_snap_tab. unfold add_name; cbn [names cells]. rewrite Hn, (find_app_new _ _ _ Ef). reflexivity.
  - intros n Hne. rewrite !find_snap_tab. unfold add_name; cbn [names cells]. rewrite Hn, (find_app_other _ _ _ _ Hne).
    destruct (find n (names st)) as [[[mu' v'] b']|] eqn:E; [|reflexivity].
    f_equal. f_equal. eapply snap_ext; [exact Hx|]. intros c Hc. apply find_In in E. eapply inv_lt; eassumption.
Qed.

(* defining x with a value made of new cells only *)
Lemma define_fresh_ok st s2 mu x e v b d :
  Inv st -> grows st s2 -> new_in st s2 (cells_of v) -> deref1 v = v ->
  find x (names st) = None -> seval (snap_tab st) e = Some d -> snap (cells s2) v = d ->
  step_ok (snap_tab st) (SDef mu x e) true (snap_tab (add_name x (mu, v, b) s2)) /\
  Inv (add_name x (mu, v, b) s2).
Proof.
  intros HI Hg Hnew Hdr Ef Hse Hsn.
  destruct (add_fresh_ok st s2 mu x v b HI Hg Hnew Hdr Ef) as [HI' [Hfx Hfr]].
  split; [|exact HI']. eapply ok_def.
  - rewrite find_snap_tab, Ef. reflexivity.
  - exact Hse.
  - rewrite Hfx, Hsn. reflexivity.
  - intros n Hnin. apply Hfr. intros ->. apply Hnin. left. reflexivity.
Qed.

(* the statements of a class-free history *)
Definition safe_stmt (s : stmt) : Prop :=
  match s with
  | SDef _ _ e => closed_expr e        (* no variable on the right of a definition: nothing is shared *)
  | SDestr _ _ => False                (* every successful destructure is a finding *)
  | _ => True
  end.

Lemma exec_safe_ok st s :
  Inv st -> safe_stmt s -> is_partial (exec cfg_cur st s) = false ->
  step_ok (snap_tab st) s (snd (exec_st cfg_cur st s)) (snap_tab (fst (exec_st cfg_cur st s))) /\
  Inv (fst (exec_st cfg_cur st s)).
Proof.
  intros HI Hs Hp. unfold exec_st.
  destruct (exec cfg_cur st s) as [[s2 ok] w] eqn:Ex. cbn [fst snd].
  destruct s as [mu x e|x e|x i d|x i j d|x o e|x f e|x k e|xs e]; cbn [exec safe_stmt] in *; try contradiction.
  - (* definition *)
    destruct (find x (names st)) as [en|] eqn:Ef.
    { inversion Ex; subst. split; [apply refused_ok | exact HI]. }
    destruct (eval_expr cfg_cur st e) as [[[v s1] b]|] eqn:Ee.
    2:{ inversion Ex; subst. split; [apply refused_ok | exact HI]. }
    assert (Ex' : (add_name x (mu, detach v, b) s1, true, @None nat) = (s2, ok, w)).
    { destruct e; try exact Ex. cbn in Hs. contradiction. }
    clear Ex. inversion Ex'; subst. clear Ex'.
    pose proof (eval_expr_grows cfg_cur eq_refl _ _ _ _ _ Ee) as Hg.
    destruct (eval_expr_closed cfg_cur eq_refl (snap_tab st) _ _ _ _ _ Hs Ee) as [Hnew [Hse [Hdt Hdr]]].
    rewrite Hdt. eapply define_fresh_ok; try eassumption. reflexivity.
  - pose proof (with_src_ok cfg_cur st (SAssign x e) x e (fun cs sink src => k_assign cs sink src) eq_refl HI eq_refl k_assign_ok) as H.
    cbv beta zeta in H. rewrite Ex in H. apply H. exact Hp.
  - pose proof (assign_with_ok st st (SIdx1 x i d) x _ HI (grows_refl st) eq_refl (k_idx_ok (lin1 i) d)) as H.
    rewrite Ex in H. apply H. exact Hp.
  - pose proof (assign_with_ok st st (SIdx2 x i j d) x _ HI (grows_refl st) eq_refl (k_idx_ok (lin2 i j) d)) as H.
    rewrite Ex in H. apply H. exact Hp.
  - pose proof (with_src_ok cfg_cur st (SOp x o e) x e (fun cs sink src => k_op cs o sink src) eq_refl HI eq_refl (k_op_ok o)) as H.
    cbv beta zeta in H. rewrite Ex in H. apply H. exact Hp.
  - pose proof (with_src_ok cfg_cur st (SField x f e) x e (fun cs sink src => k_field cfg_cur cs sink f src) eq_refl HI eq_refl (k_field_ok cfg_cur f)) as H.
    cbv beta zeta in H. rewrite Ex in H. apply H. exact Hp.
  - pose proof (with_src_ok cfg_cur st (STix x k e) x e (fun cs sink src => k_tix cs sink k src) eq_refl HI eq_refl (k_tix_ok k)) as H.
    cbv beta zeta in H. rewrite Ex in H. apply H. exact Hp.
Qed.

Theorem holds_from st h :
  Inv st -> Forall safe_stmt h -> no_partial cfg_cur st h = true ->
  trace_ok (snap_tab st) (impl_trace cfg_cur st h).
Proof.
  revert st. induction h as [|s r IH]; intros st HI Hs Hp; cbn [impl_trace]; [exact I|].
  inversion Hs; subst. cbn [no_partial] in Hp. apply andb_prop in Hp as [Hp1 Hp2].
  apply negb_true_iff in Hp1.
  destruct (exec_safe_ok st s HI H1 Hp1) as [Hstep HI'].
  destruct (exec_st cfg_cur st s) as [s1 ok] eqn:Ex. cbn [fst snd] in *.
  split; [exact Hstep | apply IH; assumption].
Qed.

Theorem holds_class_free h :
  Forall safe_stmt h -> no_partial cfg_cur store0 h = true ->
  trace_ok [] (impl_trace cfg_cur store0 h).
Proof. intros Hs Hp. apply (holds_from store0 h Inv0 Hs Hp). Qed.

(* ================================================================== *)
(* G. the model of the REPAIRED interpreter (proposed/C05-*.diff)      *)
(* ================================================================== *)
Definition cfg_rep : cfg :=
  {| c_def_copy := true; c_atom_copy := false; c_destr_fixed := true; c_col_checked := true |}.

Definition bounded (n : nat) (v : value) : Prop := forall c, In c (cells_of v) -> c < n.

Lemma grows_bounded st s1 v : grows st s1 -> bounded (next st) v -> bounded (next s1) v.
Proof. intros [_ [H _]] Hb c Hc. specialize (Hb c Hc). lia. Qed.

Lemma grows_snap st s1 v : grows st s1 -> bounded (next st) v -> snap (cells s1) v = snap (cells st) v.
Proof. intros [_ [_ H]] Hb. eapply snap_ext; eassumption. Qed.

(* Value::deep_copy: new cells only, same deep value, no reference left *)
Definition copy_ok (v : value) : Prop := forall st v' st',
  bounded (next st) v -> copyv st v = (v', st') ->
  grows st st' /\ new_in st st' (cells_of v') /\ snap (cells st') v' = snap (cells st) v /\ deref1 v' = v'.

Lemma copy_list_ok l : Forall copy_ok l -> forall s0 l' s2,
  (forall w, In w l -> bounded (next s0) w) -> map_st copyv l s0 = (l', s2) ->
  grows s0 s2 /\ new_in s0 s2 (flat_map cells_of l') /\ map (snap (cells s2)) l' = map (snap (cells s0)) l.
Proof.
  induction l as [|w r IHr]; intros IH s0 l1 s3 Hbs; cbn [map_st].
  - intros H. inversion H; subst. split; [apply grows_refl|]. split; [intros c []|reflexivity].
  - inversion IH as [|? ? Hw Hr]; subst.
    destruct (copyv s0 w) as [w' s1] eqn:Ew. destruct (map_st copyv r s1) as [r' s4] eqn:Er.
    intros H. inversion H; subst. clear H.
    destruct (Hw _ _ _ (Hbs w (or_introl eq_refl)) Ew) as [G1 [N1 [S1 _]]].
    destruct (IHr Hr s1 r' s3) as [G2 [N2 S2]].
    { intros u Hu. eapply grows_bounded; [exact G1 | apply Hbs; right; exact Hu]. }
    { exact Er. }
    split; [eapply grows_trans; eassumption|]. split.
    + intros c Hc. cbn in Hc. destruct G1 as [_ [L1 _]], G2 as [_ [L2 _]].
      apply in_app_or in Hc as [Hc|Hc]; [apply N1 in Hc | apply N2 in Hc]; lia.
    + cbn. f_equal.
      * rewrite <- S1. apply grows_snap; [exact G2|]. intros c Hc. apply N1 in Hc. lia.
      * rewrite S2. apply map_ext_in. intros u Hu. apply grows_snap; [exact G1 | apply Hbs; right; exact Hu].
Qed.

Definition cellsf (p : string * value) : list nat := match p with (_, u) => cells_of u end.
Definition snapf (cs : list (nat * dv)) (p : string * value) : string * dv := match p with (f, u) => (f, snap cs u) end.
Definition copyf (s : store) (p : string * value) : (string * value) * store :=
  match p with (f, w) => let '(w', s1) := copyv s w in ((f, w'), s1) end.

Lemma copy_fields_ok l : Forall (fun p => copy_ok (snd p)) l -> forall s0 l' s2,
  (forall p, In p l -> bounded (next s0) (snd p)) -> map_st copyf l s0 = (l', s2) ->
  grows s0 s2 /\ new_in s0 s2 (flat_map cellsf l') /\ map (snapf (cells s2)) l' = map (snapf (cells s0)) l.
Proof.
  induction l as [|[f w] r IHr]; intros IH s0 l1 s3 Hbs; cbn [map_st].
  - intros H. inversion H; subst. split; [apply grows_refl|]. split; [intros c []|reflexivity].
  - inversion IH as [|? ? Hw Hr]; subst. cbn [snd] in Hw. unfold copyf at 1.
    destruct (copyv s0 w) as [w' s1] eqn:Ew. destruct (map_st copyf r s1) as [r' s4] eqn:Er.
    intros H. inversion H; subst. clear H.
    destruct (Hw _ _ _ (Hbs (f, w) (or_introl eq_refl)) Ew) as [G1 [N1 [S1 _]]].
    destruct (IHr Hr s1 r' s3) as [G2 [N2 S2]].
    { intros u Hu. eapply grows_bounded; [exact G1 | apply Hbs; right; exact Hu]. }
    { exact Er. }
    split; [eapply grows_trans; eassumption|]. split.
    + intros c Hc. cbn in Hc. destruct G1 as [_ [L1 _]], G2 as [_ [L2 _]].
      apply in_app_or in Hc as [Hc|Hc]; [apply N1 in Hc | apply N2 in Hc]; lia.
    + cbn. f_equal.
      * f_equal. rewrite <- S1. apply grows_snap; [exact G2|]. intros c Hc. apply N1 in Hc. lia.
      * rewrite S2. apply map_ext_in. intros [g u] Hu. unfold snapf. f_equal.
        apply grows_snap; [exact G1 | apply (Hbs (g, u)); right; exact Hu].
Qed.

Lemma copyv_spec v : copy_ok v.
Proof.
  induction v as [c|i l|i l IH|i l IH|v IH] using value_ind'; intros st v' st' Hb; cbn [copyv].
  - intros H. inversion H; subst. split; [apply (alloc_grows _ st)|].
    simpl; unfold new_in, get; simpl. rewrite Nat.eqb_refl.
    split; [intros c0 [<-|[]]; lia|]. split; reflexivity.
  - intros H. inversion H; subst. split; [apply (fresh_id_grows st)|].
    simpl; unfold new_in; simpl. split; [intros c0 []|]. split; reflexivity.
  - unfold fresh_id.
    destruct (map_st copyv l {| cells := cells st; names := names st; next := S (next st) |}) as [l' s2] eqn:El.
    intros H. inversion H; subst. clear H.
    assert (Hbs : forall w, In w l -> bounded (next {| cells := cells st; names := names st; next := S (next st) |}) w).
    { intros w Hw c Hc. simpl. apply Nat.lt_lt_succ_r. apply Hb. cbn [cells_of]. apply in_flat_map. exists w. split; assumption. }
    destruct (copy_list_ok l IH _ _ _ Hbs El) as [G [N S]].
    split; [eapply grows_trans; [apply (fresh_id_grows st) | exact G]|]. split; [|split; [|reflexivity]].
    + intros c Hc. cbn [cells_of] in Hc. apply N in Hc. simpl in Hc. lia.
    + cbn [snap]. rewrite S. reflexivity.
  - unfold fresh_id. fold copyf.
    destruct (map_st copyf l {| cells := cells st; names := names st; next := S (next st) |}) as [l' s2] eqn:El.
    intros H. inversion H; subst. clear H.
    assert (Hbs : forall p, In p l -> bounded (next {| cells := cells st; names := names st; next := S (next st) |}) (snd p)).
    { intros [g u] Hp c Hc. simpl. apply Nat.lt_lt_succ_r. apply Hb. cbn [cells_of]. apply in_flat_map. exists (g, u). split; [exact Hp | exact Hc]. }
    destruct (copy_fields_ok l IH _ _ _ Hbs El) as [G [N S]].
    split; [eapply grows_trans; [apply (fresh_id_grows st) | exact G]|]. split; [|split; [|reflexivity]].
    + intros c Hc. cbn [cells_of] in Hc. apply N in Hc. simpl in Hc. lia.
    + cbn [snap]. fold (snapf (cells st')). fold (snapf (cells st)). rewrite S. reflexivity.
  - intros H. cbn [cells_of snap]. apply IH; assumption.
Qed.

(* right-hand sides denote, in the model, what they denote on the observable table (any expression) *)
Definition names_bounded (st : store) : Prop :=
  forall x mu v b, In (x, (mu, v, b)) (names st) -> bounded (next st) v.

Lemma Inv_names_bounded st : Inv st -> names_bounded st.
Proof. intros HI x mu v b Hin c Hc. eapply inv_lt; eassumption. Qed.

Lemma find_snap_tab_grows st0 st x :
  names_bounded st0 -> grows st0 st -> find x (snap_tab st) = find x (snap_tab st0).
Proof.
  intros Hnb Hg. rewrite !find_snap_tab. pose proof Hg as [Hn _]. rewrite Hn.
  destruct (find x (names st0)) as [[[mu v] b]|] eqn:E; [|reflexivity].
  f_equal. f_equal. apply grows_snap; [exact Hg|]. apply find_In in E. eapply Hnb; eassumption.
Qed.

Section AnyCfg2.
  Variable cf : cfg.
  Hypothesis Hac : c_atom_copy cf = false.

  Lemma eval_atom_snap st0 st a v s1 :
    names_bounded st0 -> grows st0 st -> eval_atom cf st a = Some (v, s1) ->
    aeval (snap_tab st0) a = Some (snap (cells s1) v) /\ bounded (next s1) v.
  Proof.
    intros Hnb Hg. destruct a as [x|r c d|x|k sh l]; cbn [eval_atom aeval].
    - intros H. inversion H; subst. simpl; unfold get, bounded; simpl. rewrite Nat.eqb_refl.
      split; [reflexivity | intros c0 [<-|[]]; lia].
    - intros H. inversion H; subst. simpl; unfold get, bounded; simpl. rewrite Nat.eqb_refl.
      split; [reflexivity | intros c0 [<-|[]]; lia].
    - destruct (find x (names st)) as [[[mu w] b]|] eqn:E; [|discriminate]. rewrite Hac.
      intros H. inversion H; subst. pose proof Hg as [Hn [Hlt _]]. rewrite Hn in E.
      rewrite find_snap_tab, E. cbn [option_map snd snap cells_of].
      assert (Hb : bounded (next st0) w) by (apply find_In in E; eapply Hnb; eassumption).
      split; [f_equal; symmetry; apply grows_snap; assumption | eapply grows_bounded; eassumption].
    - intros H. inversion H; subst. simpl; unfold get, bounded; simpl. rewrite Nat.eqb_refl.
      split; [reflexivity | intros c0 [<-|[]]; lia].
  Qed.

  Lemma eval_atoms_snap st0 l : forall st vs s1,
    names_bounded st0 -> grows st0 st -> eval_atoms cf st l = Some (vs, s1) ->
    map_opt (aeval (snap_tab st0)) l = Some (map (snap (cells s1)) vs) /\
    (forall w, In w vs -> bounded (next s1) w) /\ List.length vs = List.length l.
  Proof.
    induction l as [|a l IH]; intros st vs s1 Hnb Hg; cbn [eval_atoms].
    - intros H. inversion H; subst. cbn. repeat split. intros w [].
    - destruct (eval_atom cf st a) as [[v s0]|] eqn:Ea; [|discriminate].
      destruct (eval_atoms cf s0 l) as [[ws s2]|] eqn:El; [|discriminate].
      intros H. inversion H; subst.
      pose proof (eval_atom_grows cf Hac _ _ _ _ Ea) as G1.
      pose proof (eval_atoms_grows cf Hac _ _ _ _ El) as G2.
      destruct (eval_atom_snap _ _ _ _ _ Hnb Hg Ea) as [Ha Hb].
      destruct (IH s0 ws s1 Hnb (grows_trans _ _ _ Hg G1) El) as [Hl [Hbs Hlen]].
      split; [|split].
      + cbn. rewrite Ha, Hl. f_equal. f_equal. symmetry. apply grows_snap; assumption.
      + intros w [<-|Hw]; [eapply grows_bounded; eassumption | apply Hbs; exact Hw].
      + cbn. lia.
  Qed.

  Lemma map_opt_fields_gen T (l : list (string * atom)) ds :
    map_opt (aeval T) (map snd l) = Some ds ->
    map_opt (fun p => option_map (pair (fst p)) (aeval T (snd p))) l = Some (combine (map fst l) ds).
  Proof.
    revert ds. induction l as [|[f a] l IH]; cbn; intros ds.
    - intros H. inversion H; subst. reflexivity.
    - destruct (aeval T a) as [d|] eqn:Ea; [|discriminate].
      destruct (map_opt (aeval T) (map snd l)) as [ds'|] eqn:El; [|discriminate].
      intros H. inversion H; subst. rewrite (IH ds') by reflexivity. cbn. reflexivity.
  Qed.

  Lemma eval_expr_snap st e v s1 b :
    names_bounded st -> eval_expr cf st e = Some (v, s1, b) ->
    seval (snap_tab st) e = Some (snap (cells s1) v) /\ bounded (next s1) v.
  Proof.
    intros Hnb. destruct e as [x|r c d|l|cols|l|l|x|k sh l|x]; cbn [eval_expr seval].
    - intros H. inversion H; subst. simpl; unfold get, bounded; simpl. rewrite Nat.eqb_refl.
      split; [reflexivity | intros c0 [<-|[]]; lia].
    - intros H. inversion H; subst. simpl; unfold get, bounded; simpl. rewrite Nat.eqb_refl.
      split; [reflexivity | intros c0 [<-|[]]; lia].
    - intros H. inversion H; subst. simpl. split; [reflexivity | intros c0 []].
    - intros H. inversion H; subst. simpl; unfold get, bounded; simpl. rewrite Nat.eqb_refl.
      split; [reflexivity | intros c0 [<-|[]]; lia].
    - cbn. destruct (eval_atoms cf _ l) as [[vs s2]|] eqn:E; [|discriminate].
      intros H. inversion H; subst.
      destruct (eval_atoms_snap st l _ _ _ Hnb (fresh_id_grows st) E) as [Hl [Hbs _]].
      rewrite Hl. cbn [option_map snap]. split; [reflexivity|].
      intros c Hc. cbn [cells_of] in Hc. apply in_flat_map in Hc as [w [Hw Hc]]. eapply Hbs; eassumption.
    - cbn. destruct (eval_atoms cf _ (map snd l)) as [[vs s2]|] eqn:E; [|discriminate].
      intros H. inversion H; subst.
      destruct (eval_atoms_snap st (map snd l) _ _ _ Hnb (fresh_id_grows st) E) as [Hl [Hbs Hlen]].
      rewrite map_length in Hlen.
      rewrite (map_opt_fields_gen _ _ _ Hl). cbn [option_map snap]. split.
      + f_equal. f_equal. rewrite <- combine_map_snd. apply map_ext. intros [f w]. reflexivity.
      + intros c Hc. cbn [cells_of] in Hc. rewrite flat_cells_combine in Hc by (rewrite map_length; lia).
        apply in_flat_map in Hc as [w [Hw Hc]]. eapply Hbs; eassumption.
    - destruct (find x (names st)) as [[[mu w] b']|] eqn:E; [|discriminate].
      intros H. inversion H; subst. rewrite find_snap_tab, E. cbn [option_map snd snap cells_of].
      split; [reflexivity|]. apply find_In in E. exact (Hnb _ _ _ _ E).
    - intros H. inversion H; subst. simpl; unfold get, bounded; simpl. rewrite Nat.eqb_refl.
      split; [reflexivity | intros c0 [<-|[]]; lia].
    - intros H. inversion H; subst. simpl; unfold get, bounded; simpl. rewrite Nat.eqb_refl.
      split; [reflexivity | intros c0 [<-|[]]; lia].
  Qed.
End AnyCfg2.

Lemma Inv_of_grows st s1 : Inv st -> grows st s1 -> Inv s1.
Proof.
  intros [H1 H2 H3 H4] [Hn [Hlt _]]. constructor; rewrite Hn; try assumption.
  intros x mu v b c Hin Hc. specialize (H2 _ _ _ _ _ Hin Hc). lia.
Qed.

(* the repaired destructure: every target a fresh, immutable copy of its element *)
Lemma destr_new_ok xs : forall l s,
  Inv s -> NoDup xs -> (forall x, In x xs -> find x (names s) = None) -> List.length xs <= List.length l ->
  (forall w, In w l -> bounded (next s) w) ->
  Inv (destr_new xs l s) /\
  (forall n, ~ In n xs -> find n (snap_tab (destr_new xs l s)) = find n (snap_tab s)) /\
  (forall i x w, nth_error xs i = Some x -> nth_error l i = Some w ->
     find x (snap_tab (destr_new xs l s)) = Some (false, snap (cells s) w)).
Proof.
  induction xs as [|x xr IH]; intros l s HI Hnd Hfr Hlen Hb; cbn [destr_new].
  - split; [exact HI|]. split; [reflexivity | intros [|i] ? ? H; discriminate].
  - destruct l as [|w lr]; [cbn in Hlen; lia|].
    destruct (copyv s w) as [w' s1] eqn:Ec.
    destruct (copyv_spec w _ _ _ (Hb w (or_introl eq_refl)) Ec) as [G [N [S D]]].
    inversion Hnd as [|? ? Hx Hnd']; subst.
    destruct (add_fresh_ok s s1 false x w' BFresh HI G N D (Hfr x (or_introl eq_refl))) as [HI2 [Hfx Hfo]].
    set (s2 := add_name x (false, w', BFresh) s1) in *.
    assert (G2 : grows s s1) by exact G.
    assert (P1 : forall y, In y xr -> find y (names s2) = None).
    { intros y Hy. unfold s2, add_name; cbn [names]. destruct G as [Hn _]. rewrite Hn.
      rewrite find_app_other; [apply Hfr; right; exact Hy | intros ->; contradiction]. }
    assert (P2 : List.length xr <= List.length lr) by (cbn in Hlen; lia).
    assert (P3 : forall u, In u lr -> bounded (next s2) u).
    { intros u Hu. unfold s2, add_name; cbn [next]. eapply grows_bounded; [exact G | apply Hb; right; exact Hu]. }
    destruct (IH lr s2 HI2 Hnd' P1 P2 P3) as [HI' [Hframe Hrows]].
    split; [exact HI'|]. split.
    + intros n Hn. rewrite Hframe by (intros Hin; apply Hn; right; exact Hin).
      apply Hfo. intros ->. apply Hn. left. reflexivity.
    + intros [|i] y u Hy Hu; cbn in Hy, Hu.
      * inversion Hy; inversion Hu; subst. rewrite Hframe by exact Hx. rewrite Hfx, S. reflexivity.
      * rewrite (Hrows i y u Hy Hu). f_equal. f_equal. unfold s2, add_name; cbn [cells].
        apply grows_snap; [exact G|]. apply Hb. right. eapply nth_error_In; eassumption.
Qed.

Lemma tuple_elems_snap v l cs :
  tuple_elems v = Some l -> snap cs v = DTup (map (snap cs) l) /\ (forall n, bounded n v -> forall w, In w l -> bounded n w).
Proof.
  destruct v as [c|i l0|i l0|i l0|[c|i l0|i l0|i l0|w0]]; cbn; try discriminate;
    intros H; inversion H; subst; (split; [reflexivity|]);
    intros n Hb w Hw c0 Hc; apply Hb; cbn [cells_of]; apply in_flat_map; exists w; split; assumption.
Qed.

(* no kernel of the repaired interpreter fails after it wrote *)
Definition never_partial (k : list (nat * dv) -> value -> kres) : Prop :=
  forall cs sink a cs', k cs sink <> KPartial a cs'.

Lemma assign_with_np st s1 x k : never_partial k -> is_partial (assign_with st s1 x k) = false.
Proof.
  intros Hk. unfold assign_with. destruct (target st x) as [sink|]; [|reflexivity].
  destruct (k (cells s1) sink) as [|a cs'|a cs'] eqn:E; try reflexivity. exfalso. eapply Hk; exact E.
Qed.

Lemma with_src_np cf st e x k :
  (forall src, never_partial (fun cs sink => k cs sink src)) ->
  is_partial (with_src cf st e (fun src s1 => assign_with st s1 x (fun cs sink => k cs sink src))) = false.
Proof.
  intros Hk. unfold with_src. destruct (eval_expr cf st e) as [[[src s1] b]|]; [|reflexivity].
  apply assign_with_np. apply Hk.
Qed.

Ltac dmg := match goal with |- context [match ?x with _ => _ end] => destruct x eqn:?; try discriminate end.

Lemma k_assign_np src : never_partial (fun cs sink => k_assign cs sink src).
Proof. intros cs sink a cs'. unfold k_assign. repeat dmg. Qed.
Lemma k_idx_np lin s : never_partial (fun cs sink => k_idx cs sink lin s).
Proof. intros cs sink a cs'. unfold k_idx. repeat dmg. Qed.
(* k_op is the exception: an integer op-assignment may panic (overflow, division by zero) after it wrote
   some elements; no repair is proposed for it, so it stays a hypothesis *)
Definition op_partial (cf : cfg) (st : store) (s : stmt) : bool :=
  match s with SOp _ _ _ => is_partial (exec cf st s) | _ => false end.
Fixpoint no_op_partial (cf : cfg) (st : store) (h : list stmt) : bool :=
  match h with
  | [] => true
  | s :: r => andb (negb (op_partial cf st s)) (no_op_partial cf (fst (exec_st cf st s)) r)
  end.
Lemma k_tix_np k src : never_partial (fun cs sink => k_tix cs sink k src).
Proof. intros cs sink a cs'. unfold k_tix. repeat dmg. Qed.
Lemma k_field_np cf f src : c_col_checked cf = true -> never_partial (fun cs sink => k_field cf cs sink f src).
Proof.
  intros Hc cs sink a cs'. unfold k_field. rewrite Hc. cbn [andb].
  repeat dmg.
Qed.

(* the only histories the repairs do not cover: a definition by a tuple/record literal with a variable in it *)
Definition no_var_atoms (e : expr) : Prop :=
  match e with
  | ETup l => Forall closed_atom l
  | ERec l => Forall closed_atom (map snd l)
  | _ => True
  end.
Definition rep_safe (s : stmt) : Prop :=
  match s with SDef _ _ e => no_var_atoms e | _ => True end.

Lemma nth_error_map_inv {A B} (f : A -> B) l i b : nth_error (map f l) i = Some b -> exists a, nth_error l i = Some a /\ b = f a.
Proof.
  revert i. induction l as [|a l IH]; intros [|i]; cbn; try discriminate.
  - intros H. inversion H; subst. eauto.
  - apply IH.
Qed.

Lemma exec_rep_ok st s :
  Inv st -> rep_safe s -> op_partial cfg_rep st s = false ->
  step_ok (snap_tab st) s (snd (exec_st cfg_rep st s)) (snap_tab (fst (exec_st cfg_rep st s))) /\
  Inv (fst (exec_st cfg_rep st s)).
Proof.
  intros HI Hs Hop. unfold exec_st.
  destruct (exec cfg_rep st s) as [[s2 ok] w] eqn:Ex. cbn [fst snd].
  pose proof (Inv_names_bounded _ HI) as Hnb.
  destruct s as [mu x e|x e|x i d|x i j d|x o e|x f e|x k e|xs e]; cbn [exec rep_safe op_partial] in *.
  - (* definition *)
    destruct (find x (names st)) as [en|] eqn:Ef.
    { inversion Ex; subst. split; [apply refused_ok | exact HI]. }
    destruct (eval_expr cfg_rep st e) as [[[v s1] b]|] eqn:Ee.
    2:{ inversion Ex; subst. split; [apply refused_ok | exact HI]. }
    pose proof (eval_expr_grows cfg_rep eq_refl _ _ _ _ _ Ee) as Hg.
    destruct (eval_expr_snap cfg_rep eq_refl _ _ _ _ _ Hnb Ee) as [Hse Hbv].
    assert (Hclosed : closed_expr e ->
              step_ok (snap_tab st) (SDef mu x e) ok (snap_tab s2) /\ Inv s2).
    { intros Hc.
      destruct (eval_expr_closed cfg_rep eq_refl (snap_tab st) _ _ _ _ _ Hc Ee) as [Hnew [_ [Hdt Hdr]]].
      assert (Ex' : (add_name x (mu, detach v, b) s1, true, @None nat) = (s2, ok, w)).
      { destruct e; try exact Ex. cbn in Hc. contradiction. }
      inversion Ex'; subst. rewrite Hdt.
      apply (define_fresh_ok st s1 mu x e v b (snap (cells s1) v) HI Hg Hnew Hdr Ef Hse eq_refl). }
    destruct e as [y|r c d0|l|cols|l|l|y|k0 sh0 l0|y]; try (apply Hclosed; exact Hs).
    (* y := x : a deep copy *)
    clear Hclosed. cbn [c_def_copy cfg_rep] in Ex. destruct (copyv s1 v) as [w' s3] eqn:Ec. inversion Ex; subst. clear Ex.
    destruct (copyv_spec v _ _ _ Hbv Ec) as [G [N [S D]]].
    apply (define_fresh_ok st s3 mu x (EVar y) w' BFresh (snap (cells s1) v) HI (grows_trans _ _ _ Hg G)); try assumption.
    intros c Hc. apply N in Hc. destruct Hg as [_ [Hl _]]. lia.
  - pose proof (with_src_ok cfg_rep st (SAssign x e) x e (fun cs sink src => k_assign cs sink src) eq_refl HI eq_refl k_assign_ok) as H.
    cbv beta zeta in H. rewrite Ex in H. apply H. rewrite <- Ex. apply (with_src_np cfg_rep st e x (fun cs sink src => k_assign cs sink src) k_assign_np).
  - pose proof (assign_with_ok st st (SIdx1 x i d) x _ HI (grows_refl st) eq_refl (k_idx_ok (lin1 i) d)) as H.
    rewrite Ex in H. apply H. rewrite <- Ex. apply assign_with_np. apply k_idx_np.
  - pose proof (assign_with_ok st st (SIdx2 x i j d) x _ HI (grows_refl st) eq_refl (k_idx_ok (lin2 i j) d)) as H.
    rewrite Ex in H. apply H. rewrite <- Ex. apply assign_with_np. apply k_idx_np.
  - pose proof (with_src_ok cfg_rep st (SOp x o e) x e (fun cs sink src => k_op cs o sink src) eq_refl HI eq_refl (k_op_ok o)) as H.
    cbv beta zeta in H. rewrite Ex in H. apply H. rewrite <- Ex. exact Hop.
  - pose proof (with_src_ok cfg_rep st (SField x f e) x e (fun cs sink src => k_field cfg_rep cs sink f src) eq_refl HI eq_refl (k_field_ok cfg_rep f)) as H.
    cbv beta zeta in H. rewrite Ex in H. apply H. rewrite <- Ex.
    apply (with_src_np cfg_rep st e x (fun cs sink src => k_field cfg_rep cs sink f src) (fun src => k_field_np cfg_rep f src eq_refl)).
  - pose proof (with_src_ok cfg_rep st (STix x k e) x e (fun cs sink src => k_tix cs sink k src) eq_refl HI eq_refl (k_tix_ok k)) as H.
    cbv beta zeta in H. rewrite Ex in H. apply H. rewrite <- Ex. apply (with_src_np cfg_rep st e x (fun cs sink src => k_tix cs sink k src) (k_tix_np k)).
  - (* destructure *)
    destruct (eval_expr cfg_rep st e) as [[[v s1] b]|] eqn:Ee.
    2:{ inversion Ex; subst. split; [apply refused_ok | exact HI]. }
    destruct (tuple_elems v) as [l|] eqn:Et.
    2:{ inversion Ex; subst. split; [apply refused_ok | exact HI]. }
    cbn [c_destr_fixed cfg_rep] in Ex.
    destruct (andb (andb (nodupb xs) (forallb (fun x => match find x (names st) with None => true | Some _ => false end) xs))
                   (Nat.leb (List.length xs) (List.length l))) eqn:Ech.
    2:{ inversion Ex; subst. split; [apply refused_ok | exact HI]. }
    inversion Ex; subst. clear Ex.
    apply andb_prop in Ech as [Ech Hlen]. apply andb_prop in Ech as [Hnd Hfr].
    apply nodupb_NoDup in Hnd. apply Nat.leb_le in Hlen.
    assert (Hfr' : forall x, In x xs -> find x (names st) = None).
    { intros x Hx. rewrite forallb_forall in Hfr. specialize (Hfr x Hx). destruct (find x (names st)); [discriminate | reflexivity]. }
    pose proof (eval_expr_grows cfg_rep eq_refl _ _ _ _ _ Ee) as Hg.
    destruct (eval_expr_snap cfg_rep eq_refl _ _ _ _ _ Hnb Ee) as [Hse Hbv].
    destruct (tuple_elems_snap v l (cells s1) Et) as [Hsn Hbl].
    pose proof (Inv_of_grows _ _ HI Hg) as HI1.
    assert (Hfr1 : forall x, In x xs -> find x (names s1) = None).
    { intros x Hx. destruct Hg as [Hn _]. rewrite Hn. apply Hfr'. exact Hx. }
    destruct (destr_new_ok xs l s1 HI1 Hnd Hfr1 Hlen (Hbl _ Hbv)) as [HI' [Hframe Hrows]].
    split; [|exact HI'].
    eapply ok_destr with (l := map (snap (cells s1)) l).
    + rewrite Hse, Hsn. reflexivity.
    + exact Hnd.
    + intros x Hx. rewrite find_snap_tab, (Hfr' x Hx). reflexivity.
    + rewrite map_length. exact Hlen.
    + intros i x d Hx Hd. apply nth_error_map_inv in Hd as [w0 [Hw ->]]. eapply Hrows; eassumption.
    + intros n Hn. rewrite (Hframe n Hn). apply find_snap_tab_grows; assumption.
Qed.

Theorem rep_holds_from st h :
  Inv st -> Forall rep_safe h -> no_op_partial cfg_rep st h = true -> trace_ok (snap_tab st) (impl_trace cfg_rep st h).
Proof.
  revert st. induction h as [|s r IH]; intros st HI Hs Hp; cbn [impl_trace]; [exact I|].
  inversion Hs; subst. cbn [no_op_partial] in Hp. apply andb_prop in Hp as [Hp1 Hp2].
  apply negb_true_iff in Hp1.
  destruct (exec_rep_ok st s HI H1 Hp1) as [Hstep HI'].
  destruct (exec_st cfg_rep st s) as [s1 ok] eqn:Ex. cbn [fst snd] in *.
  split; [exact Hstep | apply IH; assumption].
Qed.

Theorem repaired_holds h :
  Forall rep_safe h -> no_op_partial cfg_rep store0 h = true -> trace_ok [] (impl_trace cfg_rep store0 h).
Proof. intros Hs Hp. apply (rep_holds_from store0 h Inv0 Hs Hp). Qed.
