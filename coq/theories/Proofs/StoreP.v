(* C05 — proofs about Model/Store.v *)
From Coq Require Import List ZArith String Bool Arith Lia.
From MechV Require Import Base.Sexp Base.Obs Model.Store.
Import ListNotations.

Lemma step_err_frame T st T' : step_okb T st false T' = true -> frameb [] T T' = true.
Proof. unfold step_okb. cbn. auto. Qed.
