(* Lemmas and theorems for C08 (Model/Fmt.v). *)
From Coq Require Import List Arith Lia PeanoNat Bool ZArith.
From Coq Require Import String Ascii.
From MechV Require Import Base.Sexp Base.Obs Model.Fmt.
Import ListNotations.

(* ------------------------------------------------------------------ judge soundness *)
(* what an observation must say for the property to hold on this input *)
Definition observed_roundtrip (o : obs8) : Prop :=
  exists ob, o = O8Fmt ob /\ o_reparse ob = "ok"%string /\ o_same ob = 1%Z /\ o_idem ob = 1%Z.

Lemma all_good_spec ob : all_good ob = true -> o_reparse ob = "ok"%string /\ o_same ob = 1%Z /\ o_idem ob = 1%Z.
Proof.
  unfold all_good. intros H. apply andb_prop in H as [H H3]. apply andb_prop in H as [H1 H2].
  apply String.eqb_eq in H1. apply Z.eqb_eq in H2, H3. auto.
Qed.

Lemma judge_prog_sound p o tag :
  judge_prog p o = v_ok tag ->
  observed_roundtrip o /\
  (tag = "roundtrip"%string -> exists ob, o = O8Fmt ob /\ o_text ob = render (fmt_prog false p)).
Proof.
  unfold judge_prog. destruct o as [|feat|ob|]; try discriminate.
  - destruct (existsb is_panic (fmt_prog true p)); discriminate.
  - destruct (existsb is_panic (fmt_prog true p)); [discriminate|].
    destruct (String.eqb (o_text ob) (render (fmt_prog true p))) eqn:Ht; cbn [negb]; [|discriminate].
    destruct (all_good ob) eqn:Hg.
    + apply all_good_spec in Hg.
      destruct (String.eqb (render (fmt_prog true p)) (render (fmt_prog false p))) eqn:Hc; intros H; injection H as <-.
      * split; [exists ob; tauto|]. intros _. exists ob. split; [reflexivity|].
        apply String.eqb_eq in Ht, Hc. congruence.
      * split; [exists ob; tauto|]. discriminate.
    + destruct (class_of p); discriminate.
Qed.

Lemma judge_diff_sound cls o tag : judge_diff cls o = v_ok tag -> observed_roundtrip o.
Proof.
  unfold judge_diff. destruct o as [|feat|ob|]; try discriminate.
  - destruct (find_class cls feat "fmtpanic"); discriminate.
  - destruct (all_good ob) eqn:Hg.
    + intros _. apply all_good_spec in Hg. exists ob; tauto.
    + destruct (find_class cls (o_feat ob) (symptom ob)); discriminate.
Qed.
