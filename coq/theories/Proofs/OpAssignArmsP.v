(* C04 / C05 — the op-assignment family (`x += e`, `x[ix] -= e`, `x[ix,:] *= e`, `/=`) against the tables REGENERATED
   from the Rust source on every run (Gen/OpAssignArms.v, written by translators/opassign_arms.py).

   The four operator files machines/math/src/op_assign/{add,sub,mul,div}_assign.rs are hand-made copies of each
   other; mod.rs and src/core/src/stdlib.rs hold the macro-generated arm lists they share.  The statements here
   say that every copy has the same shape, i.e. for every operator and every form (whole variable / x[ix] / x[ix,:]):

     compile()       binds sink = arguments[0], source = arguments[1], (ixes = the rest), calls the kernel-level
                     function of ITS operator and form with (sink, source[, ixes]) — directly, and in every
                     `(sink, Value::MutableReference(source))` operand-form arm with every reference unwrapped
                     and nothing swapped                                                   [compile_ok, oa_compile_*]
     kernel level    the function hands (sink, source) / (sink, ixes, source) to the arm macro of its operator
                     and form                                                             [callee_ok, range_macro_ok]
     arm macros      every arm stores the payload of the sink pattern in field `sink`, of the source pattern in
                     field `source` (and of the index pattern in `ixes`)                  [sarm_ok]
     solve()         the kernel structs read self.sink / self.source / self.ixes into the roles the kernel
                     macros name `$sink` / `$source` / `$ix`                              [solve_ok]
     kernel macros   the loop nest of every kernel is the reference loop nest of its kernel name with the
                     operator token of its file — the element update is `sink-place OP= source-value`
                     (no reciprocal, no swapped operands, no other bound)                 [kernel_ok]

   Every statement is stated twice: as `<diagnosis> = []` (the list of the sites "file:line" of the irregular
   arms — when the source changes and an arm becomes irregular the failing proof names it) and as
   `forallb ... = true`.  The general lemmas that give the checks their meaning: Proofs/SrcArmsP.v
   ([compile_model_correct]) and, below, [oa_compile_applies_kernel_to_sink_source], [sarm_fields_correct],
   [kernel_update_is_lift_m].

   Irregularities of the unchanged tree that are encoded here (see the comments at the definitions):
   * the mask kernels (`.._b`, structs ..B / ..SB / ..VB) are never built for op-assignment (the kernel-level functions
     only use impl_set_range_arms / impl_set_range_all_arms, whose arms build the S and V structs): they are dead
     code; for them only the element update is checked, and div_assign_2d_vector_all_b — which alone has a
     different loop (and computes the row of a column-major position as i / ncols) — has its own reference;
   * mul_assign.rs has no `register_descriptor!` for "math/mul-assign" (the other three register theirs);
   * the kind list of the whole-variable kernel-level functions has U128 twice and no I128. *)
From Coq Require Import List Arith Bool String ZArith Lia.
From MechV Require Import Base.Sexp Model.SrcArms Proofs.SrcArmsP Gen.OpAssignArms Model.Assign.
Import ListNotations.
Open Scope string_scope.

(* operator: (file prefix, trait name, assignment token) *)
Definition oa_ops : list (string * string * string) :=
  [("add", "Add", "+="); ("sub", "Sub", "-="); ("mul", "Mul", "*="); ("div", "Div", "/=")].
Definition oa_forms : list string := ["value"; "range"; "range-all"].

Definition op_cap (o : string) : string :=
  match find (fun e => String.eqb (fst (fst e)) o) oa_ops with Some e => snd (fst e) | None => "?" end.
Definition op_tok (o : string) : string :=
  match find (fun e => String.eqb (fst (fst e)) o) oa_ops with Some e => snd e | None => "?" end.

(* ---- 0. the translator read everything --------------------------------------------------------- *)
Theorem oa_nothing_unrecognised : oa_unrecognised = [].
Proof. vm_compute. reflexivity. Qed.

(* ---- 1. compile() ------------------------------------------------------------------------------ *)
Definition callee_of (o form : string) : option string :=
  match find (fun e => let '(o', f', _, _, _, _, _) := e in String.eqb o o' && String.eqb form f') oa_callees with
  | Some (_, _, _, n, _, _, _) => Some n
  | None => None
  end.

Definition roles_of (form : string) : list nat := if String.eqb form "value" then [0; 1] else [0; 1; 2].

Definition compile_diag (c : cfn) : list string :=
  match cf_tag c with
  | [o; form] =>
      match callee_of o form with
      | Some f => cfn_diag f (roles_of form) [0; 1] c
      | None => [cf_site c ++ ": no kernel-level function for this operator and form"]
      end
  | _ => [cf_site c ++ ": tag"]
  end.

Definition compile_ok (c : cfn) : bool :=
  match cf_tag c with
  | [o; form] => match callee_of o form with Some f => cfn_ok f (roles_of form) [0; 1] c | None => false end
  | _ => false
  end.

Definition tag_is (o form : string) (c : cfn) : bool :=
  match cf_tag c with [o'; f'] => String.eqb o o' && String.eqb form f' | _ => false end.

(* every operator has exactly one compile() per form *)
Definition oa_compile_complete : bool :=
  forallb (fun e => forallb (fun form => Nat.eqb (count_if (tag_is (fst (fst e)) form) oa_compile) 1) oa_forms) oa_ops
  && Nat.eqb (List.length oa_compile) 12.

Theorem oa_compile_sites : flat_map compile_diag oa_compile = [].
Proof. vm_compute. reflexivity. Qed.

Theorem oa_compile_regular : forallb compile_ok oa_compile = true /\ oa_compile_complete = true.
Proof. split; vm_compute; reflexivity. Qed.

(* the arm lists are the same modulo the operator: same operand forms in the same order *)
Definition arm_forms (c : cfn) : list (list string) := map (fun a => map fst (ua_pats a)) (cf_arms c).
Definition forms_of_tag (o form : string) : list (list (list string)) :=
  map arm_forms (filter (tag_is o form) oa_compile).
Definition oa_uniform : bool :=
  forallb (fun form =>
             forallb (fun e => list_eqb (list_eqb (list_eqb String.eqb)) (forms_of_tag (fst (fst e)) form) (forms_of_tag "add" form))
                     oa_ops) oa_forms.
Theorem oa_arm_lists_uniform : oa_uniform = true.
Proof. vm_compute. reflexivity. Qed.

(* what the check means: whatever mixture of plain values and references the operands of an op-assignment are, the
   compile() of operator o and form `form` applies the kernel-level function of THAT operator and form to the
   contents of (sink, source[, ixes]) in this order.  [k] stands for the kernel-level functions (they match plain
   values only: hypothesis Hk). *)
Theorem oa_compile_applies_kernel_to_sink_source :
  forall (A R : Type) (c : cfn) (o form : string) (k : string -> list (rval A) -> option R) (args : list (rval A)),
    In c oa_compile -> cf_tag c = [o; form] ->
    (forall f vs, existsb is_ref vs = true -> k f vs = None) ->
    List.length args = List.length (roles_of form) ->
    (forall v, nth_error args 2 = Some v -> is_ref v = false) ->     (* the index list is never a reference *)
    exists r f, resolve_cfn c = Some r /\ callee_of o form = Some f /\
                compile_model r k args = k f (map strip args).
Proof.
  intros A R c o form k args Hin Htag Hk Hlen Hix.
  assert (Hok : compile_ok c = true).
  { pose proof (proj1 oa_compile_regular) as H. rewrite forallb_forall in H. now apply H. }
  unfold compile_ok in Hok. rewrite Htag in Hok.
  destruct (callee_of o form) as [f|] eqn:Ef; [|discriminate].
  unfold cfn_ok in Hok. destruct (resolve_cfn c) as [r|] eqn:Er; [|discriminate].
  exists r, f. repeat split; try reflexivity.
  assert (Hn : rc_nargs r = List.length (roles_of form)).
  { (* the roles cover 0..nargs-1 and are as many as the direct call's arguments *)
    clear - Hin Er Htag. revert c Hin r Er Htag.
    assert (H : forallb (fun c => match resolve_cfn c, cf_tag c with
                                  | Some r, [_; fm] => Nat.eqb (rc_nargs r) (List.length (roles_of fm))
                                  | _, _ => false end) oa_compile = true) by (vm_compute; reflexivity).
    rewrite forallb_forall in H. intros c Hin r Er Htag. specialize (H c Hin). rewrite Er, Htag in H.
    now apply Nat.eqb_eq in H. }
  rewrite (compile_model_correct f (roles_of form) [0; 1] r k args Hok).
  - (* the operands in role order are the operands *)
    unfold roles_of in *. destruct (String.eqb form "value").
    + destruct args as [|a [|b [|x args]]]; try discriminate. reflexivity.
    + destruct args as [|a [|b [|x [|y args]]]]; try discriminate. reflexivity.
  - congruence.
  - intros i v Hi Hr. destruct i as [|[|[|i]]]; try reflexivity.
    + rewrite (Hix v Hi) in Hr. discriminate.
    + exfalso. assert (S (S (S i)) < List.length args) by (apply nth_error_Some; congruence).
      unfold roles_of in Hlen. destruct (String.eqb form "value"); cbn in Hlen; lia.
  - exact Hk.
Qed.

(* ---- 2. the kernel-level functions ------------------------------------------------------------- *)
Definition callee_ok (e : string * string * string * string * list string * string * list tm) : bool :=
  let '(o, form, _, _, params, macro, margs) := e in
  if String.eqb form "value"
  then list_eqb String.eqb params ["sink"; "source"] && String.eqb macro "impl_op_assign_value_match_arms"
       && list_eqb tm_eqb margs [L (op_cap o); T "tuple" [L "sink"; L "source"]]
  else if String.eqb form "range"
  then String.eqb macro "op_assign_range_fxn" && list_eqb tm_eqb margs [L (op_cap o ++ "Assign1DR")]
  else String.eqb form "range-all" && String.eqb macro "op_assign_range_all_fxn"
       && list_eqb tm_eqb margs [L (op_cap o ++ "Assign2DRA")].

Definition callee_site (e : string * string * string * string * list string * string * list tm) : string :=
  let '(_, _, s, _, _, _, _) := e in s.

Definition callees_complete : bool :=
  forallb (fun e => forallb (fun form => match callee_of (fst (fst e)) form with Some _ => true | None => false end) oa_forms) oa_ops
  && Nat.eqb (List.length oa_callees) 12.

(* op_assign_range_fxn! / op_assign_range_all_fxn!: fn f(sink, source, ixes), arg = (sink, ixes, source) handed to the arm macro *)
Definition range_macro_ok (e : string * string * list string * list string * tm * list string * nat) : bool :=
  let '(name, _, mparams, fparams, tup, arms, n) := e in
  list_eqb String.eqb mparams ["$op_fxn_name"; "$fxn_name"] &&
  list_eqb String.eqb fparams ["sink"; "source"; "ixes"] &&
  tm_eqb (norm tup) (T "tuple" [L "sink"; T ".as_slice()" [L "ixes"]; L "source"]) &&
  list_eqb String.eqb arms [if String.eqb name "op_assign_range_fxn" then "impl_set_range_arms" else "impl_set_range_all_arms"] &&
  Nat.eqb n 14.
Definition range_macro_site (e : string * string * list string * list string * tm * list string * nat) : string :=
  let '(_, s, _, _, _, _, _) := e in s.

Theorem oa_callee_sites :
  irregular callee_site callee_ok oa_callees = [] /\ irregular range_macro_site range_macro_ok oa_range_macros = [].
Proof. split; vm_compute; reflexivity. Qed.

Theorem oa_callees_regular :
  forallb callee_ok oa_callees = true /\ callees_complete = true /\
  forallb range_macro_ok oa_range_macros = true /\ List.length oa_range_macros = 2.
Proof. repeat split; vm_compute; reflexivity. Qed.

(* ---- 3. the arm macros: which pattern's payload lands in which field ----------------------------- *)
Definition sarm : Type := string * list string * list tm * string * list (string * string * string).
Definition sarm_site (a : sarm) : string := let '(s, _, _, _, _) := a in s.

(* the variable a field is initialised from (with `.clone()`) *)
Definition field_var (fields : list (string * string * string)) (f : string) : option string :=
  match find (fun e => String.eqb (fst (fst e)) f) fields with
  | Some (_, v, acc) => if String.eqb acc "clone" then Some v else None
  | None => None
  end.

Definition opt_str_eqb (a b : option string) : bool :=
  match a, b with Some x, Some y => String.eqb x y | _, _ => false end.

(* whole-variable arms: pats = [sink pattern; source pattern] *)
Definition value_arm_ok (a : sarm) : bool :=
  let '(_, _, pats, st, fields) := a in
  match pats with
  | [ps; pr] =>
      opt_str_eqb (field_var fields "sink") (binder_of ps) && opt_str_eqb (field_var fields "source") (binder_of pr)
      && negb (opt_str_eqb (binder_of ps) (binder_of pr))
      && str_in st ["[<$op AssignSS>]"; "[<$op AssignVS>]"; "[<$op AssignVV>]"]
  | _ => false
  end.

(* indexed arms: pats = [sink pattern; [index pattern, ..]; source pattern] *)
Definition range_arm_ok (a : sarm) : bool :=
  let '(_, _, pats, st, fields) := a in
  match pats with
  | [ps; T "slice" (pi :: _); pr] =>
      opt_str_eqb (field_var fields "sink") (binder_of ps) && opt_str_eqb (field_var fields "source") (binder_of pr)
      && opt_str_eqb (field_var fields "ixes") (binder_of pi)
      && match binder_of ps, binder_of pi, binder_of pr with
         | Some x, Some y, Some z => nodup_str [x; y; z]
         | _, _, _ => false
         end
      && str_in st ["[<$fxn_name S>]"; "[<$fxn_name V>]"]
  | _ => false
  end.

Definition range_arm_tables_ok : bool :=
  list_eqb String.eqb (map (fun e => fst (fst e)) oa_range_arms) ["impl_set_range_arms"; "impl_set_range_all_arms"]
  && forallb (fun e => Nat.eqb (snd e) 1 && Nat.leb 1 (List.length (snd (fst e)))) oa_range_arms.

Theorem oa_arm_sites :
  irregular sarm_site value_arm_ok oa_value_arms = [] /\
  flat_map (fun e => irregular sarm_site range_arm_ok (snd (fst e))) oa_range_arms = [].
Proof. split; vm_compute; reflexivity. Qed.

Theorem oa_arms_regular :
  forallb value_arm_ok oa_value_arms = true /\ oa_value_error_arms = 1 /\
  forallb (fun e => forallb range_arm_ok (snd (fst e))) oa_range_arms = true /\ range_arm_tables_ok = true.
Proof. repeat split; vm_compute; reflexivity. Qed.

(* meaning: an arm binds the binder of its i-th pattern to the payload of the i-th component of the matched tuple
   and initialises the fields from these binders; for a regular arm field `sink` holds the payload of the FIRST
   component and field `source` the payload of the LAST one, whatever the payloads are *)
Definition field_payload {P} (binders : list (option string)) (payloads : list P) (fields : list (string * string * string))
           (f : string) : option P :=
  match field_var fields f with
  | Some v =>
      (fix go (bs : list (option string)) (ps : list P) : option P :=
         match bs, ps with
         | Some b :: br, p :: pr => if String.eqb v b then Some p else go br pr
         | None :: br, _ :: pr => go br pr
         | _, _ => None
         end) binders payloads
  | None => None
  end.

Theorem value_arm_fields_correct :
  forall (P : Type) (a : sarm) (s r : P), In a oa_value_arms ->
    let '(_, _, pats, _, fields) := a in
    field_payload (map binder_of pats) [s; r] fields "sink" = Some s /\
    field_payload (map binder_of pats) [s; r] fields "source" = Some r.
Proof.
  intros P a s r Hin.
  pose proof (proj1 oa_arms_regular) as H. rewrite forallb_forall in H. specialize (H a Hin).
  destruct a as [[[[site feats] pats] st] fields]. cbn [value_arm_ok] in H.
  destruct pats as [|ps [|pr [|x pats]]]; try discriminate.
  repeat (apply andb_true_iff in H; destruct H as [H ?]).
  unfold field_payload. cbn [map].
  destruct (field_var fields "sink") as [vs|]; [|discriminate].
  destruct (field_var fields "source") as [vr|]; [|destruct (binder_of pr); discriminate].
  destruct (binder_of ps) as [bs|]; [|discriminate]. destruct (binder_of pr) as [br|]; [|discriminate].
  cbn [opt_str_eqb] in *. apply String.eqb_eq in H. subst vs.
  match goal with Hx : String.eqb vr br = true |- _ => apply String.eqb_eq in Hx; subst vr end.
  rewrite String.eqb_refl. split; [reflexivity|].
  match goal with Hx : negb (String.eqb bs br) = true |- _ => apply negb_true_iff in Hx; rewrite String.eqb_sym, Hx end.
  now rewrite String.eqb_refl.
Qed.

(* ---- 4. solve() of the kernel structs and the instantiations ------------------------------------- *)
Definition ref_solve (m : string) : option tm :=
  let ptrs := [T "let" [L "sink_ptr"; T ".as_mut_ptr()" [T ".sink" [L "self"]]];
               T "let" [L "source_ptr"; T ".as_ptr()" [T ".source" [L "self"]]]] in
  let refs := [T "let" [L "sink_ref"; L "sink_ptr"]; T "let" [L "source_ref"; L "source_ptr"]] in
  if String.eqb m "impl_assign_scalar_scalar"
  then Some (T "block" (ptrs ++ [T "block" [T "$op_fn" [L "sink_ptr"; L "source_ptr"]]])%list)
  else if String.eqb m "impl_assign_vector_vector"
  then Some (T "block" (ptrs ++ refs ++
               [T "for" [T "tuple" [L "dst"; L "src"];
                         T ".zip()" [T ".into_iter()" [L "sink_ref"]; T ".into_iter()" [L "source_ref"]];
                         T "block" [T "$op_fn" [L "dst"; L "src"]]]])%list)
  else if String.eqb m "impl_assign_vector_scalar"
  then Some (T "block" (ptrs ++ refs ++
               [T "for" [L "dst"; T ".into_iter()" [L "sink_ref"]; T "block" [T "$op_fn" [L "dst"; L "source_ref"]]]])%list)
  else if String.eqb m "impl_op_assign_range_fxn_s" || String.eqb m "impl_op_assign_range_fxn_v"
  then Some (T "block" (ptrs ++
               [T "let" [L "ix_ptr"; T ".as_ref()" [T ".as_ptr()" [T ".ixes" [L "self"]]]];
                T "$op!" [L "source_ptr"; L "ix_ptr"; L "sink_ptr"]])%list)
  else None.

Definition solve_ok (e : string * string * list string * tm) : bool :=
  let '(m, _, params, body) := e in
  match ref_solve m with
  | Some r => tm_eqb (norm body) r &&
              (if String.eqb m "impl_op_assign_range_fxn_s" || String.eqb m "impl_op_assign_range_fxn_v"
               then list_eqb String.eqb params ["$struct_name:ident"; "$op:ident"; "$ix:ty"]
               else list_eqb String.eqb params ["$op_name:tt"; "$op_fn:tt"])
  | None => false
  end.
Definition solve_site (e : string * string * list string * tm) : string := let '(_, s, _, _) := e in s.

(* (kernel, struct infix, struct suffix, wrapper letter, index element type) *)
Definition kernel_table : list (string * string * string * string * string) :=
  [("1d_range", "1DR", "S", "s", "usize"); ("1d_range_b", "1DR", "B", "s", "bool");
   ("1d_range_vec", "1DR", "V", "v", "usize"); ("1d_range_vec_b", "1DR", "VB", "v", "bool");
   ("2d_vector_all", "2DRA", "S", "s", "usize"); ("2d_vector_all_b", "2DRA", "SB", "s", "bool");
   ("2d_vector_all_mat", "2DRA", "V", "v", "usize"); ("2d_vector_all_mat_b", "2DRA", "VB", "v", "bool")].

Definition expected_insts (o : string) : list (string * list string) :=
  [("impl_assign_scalar_scalar", [op_cap o; op_tok o]); ("impl_assign_vector_vector", [op_cap o; op_tok o]);
   ("impl_assign_vector_scalar", [op_cap o; op_tok o])] ++
  map (fun e => let '(k, infix, suffix, w, ty) := e in
                ("impl_" ++ o ++ "_assign_range_fxn_" ++ w, [op_cap o ++ "Assign" ++ infix ++ suffix; o ++ "_assign_" ++ k; ty]))
      kernel_table.

Definition inst_eqb (a b : string * list string) : bool := String.eqb (fst a) (fst b) && list_eqb String.eqb (snd a) (snd b).

(* the instantiations of operator o are exactly the expected ones, in order *)
Definition insts_of (o : string) : list (string * string * list string) :=
  map (fun e => let '(_, s, m, a) := e in (s, m, a)) (filter (fun e => let '(o', _, _, _) := e in String.eqb o o') oa_insts).
Definition inst_diag (o : string) : list string :=
  let got := insts_of o in
  let exp := expected_insts o in
  if Nat.eqb (List.length got) (List.length exp)
  then map (fun p => fst (fst (fst p))) (filter (fun p => negb (inst_eqb (snd (fst (fst p)), snd (fst p)) (snd p))) (combine got exp))
  else ["machines/math/src/op_assign/" ++ o ++ "_assign.rs: number of kernel instantiations"].

Definition wrapper_ok (e : string * string * string * list string * string * list string) : bool :=
  let '(o, _, m, params, callee, args) := e in
  list_eqb String.eqb params ["$struct_name"; "$op"; "$ix"] && list_eqb String.eqb args ["$struct_name"; "$op"; "$ix"] &&
  ((String.eqb m ("impl_" ++ o ++ "_assign_range_fxn_s") && String.eqb callee "impl_op_assign_range_fxn_s") ||
   (String.eqb m ("impl_" ++ o ++ "_assign_range_fxn_v") && String.eqb callee "impl_op_assign_range_fxn_v")).
Definition wrapper_site (e : string * string * string * list string * string * list string) : string :=
  let '(_, s, _, _, _, _) := e in s.

Theorem oa_solve_sites :
  irregular solve_site solve_ok oa_solves = [] /\ flat_map (fun e => inst_diag (fst (fst e))) oa_ops = [] /\
  irregular wrapper_site wrapper_ok oa_wrappers = [].
Proof. repeat split; vm_compute; reflexivity. Qed.

Theorem oa_solves_regular :
  forallb solve_ok oa_solves = true /\ List.length oa_solves = 5 /\
  forallb (fun e => list_eqb inst_eqb (map (fun x => (snd (fst x), snd x)) (insts_of (fst (fst e)))) (expected_insts (fst (fst e)))) oa_ops = true /\
  forallb wrapper_ok oa_wrappers = true /\ List.length oa_wrappers = 8.
Proof. repeat split; vm_compute; reflexivity. Qed.

(* ---- 5. the kernel macros ------------------------------------------------------------------------ *)
(* reference loop nests (normalised), [op] = the assignment token *)
Definition ix_i := T "[]" [L "$ix"; L "i"].
Definition for_i (body : list tm) : tm := T "for" [L "i"; T ".." [L "0"; T ".len()" [L "$ix"]]; T "block" body].
Definition row_zip (op : string) : tm :=
  T "for" [T "tuple" [L "dst"; L "src"]; T ".zip()" [T ".iter_mut()" [L "sink_row"]; T ".iter()" [L "src_row"]];
           T "block" [T op [L "dst"; L "src"]]].

Definition ref_kernel (k op : string) : option tm :=
  if String.eqb k "1d_range" then
    Some (T "block" [for_i [T op [T "[]" [L "$sink"; T "-" [ix_i; L "1"]]; L "$source"]]])
  else if String.eqb k "1d_range_b" then
    Some (T "block" [for_i [T "if" [T "==" [ix_i; L "true"]; T "block" [T op [T "[]" [L "$sink"; L "i"]; L "$source"]]]]])
  else if String.eqb k "1d_range_vec" then
    Some (T "block" [for_i [T op [T "[]" [L "$sink"; T "-" [ix_i; L "1"]]; T "[]" [L "$source"; L "i"]]]])
  else if String.eqb k "1d_range_vec_b" then
    Some (T "block" [for_i [T "if" [T "==" [ix_i; L "true"];
                                   T "block" [T op [T "[]" [L "$sink"; L "i"]; T "[]" [L "$source"; L "i"]]]]]])
  else if String.eqb k "2d_vector_all" then
    Some (T "block" [T "for" [L "cix"; T ".." [L "0"; T ".ncols()" [L "$sink"]];
            T "block" [T "for" [L "rix"; T ".iter()" [L "$ix"];
              T "block" [T op [T "[]" [T ".column_mut()" [L "$sink"; L "cix"]; T "-" [L "rix"; L "1"]]; L "$source"]]]]]])
  else if String.eqb k "2d_vector_all_b" then
    Some (T "block" [T "for" [L "cix"; T ".." [L "0"; T ".ncols()" [L "$sink"]];
            T "block" [T "for" [L "rix"; T ".." [L "0"; T ".len()" [L "$ix"]];
              T "block" [T "if" [T "==" [T "[]" [L "$ix"; L "rix"]; L "true"];
                T "block" [T op [T "[]" [T ".column_mut()" [L "$sink"; L "cix"]; L "rix"]; L "$source"]]]]]]]])
  else if String.eqb k "2d_vector_all_mat" then
    Some (T "block" [T "let" [L "nsrc"; T ".nrows()" [L "$source"]];
            T "for" [T "tuple" [L "i"; L "rix"]; T ".enumerate()" [T ".iter()" [L "$ix"]];
              T "block" [T "let" [L "row_index"; T "-" [L "rix"; L "1"]];
                         T "let" [L "sink_row"; T ".row_mut()" [L "$sink"; L "row_index"]];
                         T "let" [L "src_row"; T ".row()" [L "$source"; T "%" [L "i"; L "nsrc"]]];
                         row_zip op]]])
  else if String.eqb k "2d_vector_all_mat_b" then
    Some (T "block" [T "let" [L "src_i"; L "0"];
            T "for" [T "tuple" [L "i"; L "rix"]; T ".enumerate()" [T ".iter()" [L "$ix"]];
              T "block" [T "if" [T "==" [L "rix"; L "true"];
                T "block" [T "let" [L "sink_row"; T ".row_mut()" [L "$sink"; L "i"]];
                           T "let" [L "src_row"; T ".row()" [L "$source"; L "src_i"]];
                           row_zip op;
                           T "+=" [L "src_i"; L "1"]]]]]])
  else None.

(* div_assign_2d_vector_all_b (dead code, see the header): walks the whole storage and takes i / ncols as the row *)
Definition ref_div_all_b : tm :=
  T "block" [T "let" [L "ncols"; T ".ncols()" [L "$sink"]];
             T "for" [T "tuple" [L "i"; L "val"]; T ".enumerate()" [T ".iter_mut()" [L "$sink"]];
               T "block" [T "let" [L "row"; T "/" [L "i"; L "ncols"]];
                          T "if" [T "[]" [L "$ix"; L "row"]; T "block" [T "/=" [L "val"; L "$source"]]]]]].

Definition kernel_entry : Type := string * string * string * list string * tm.
Definition kernel_site (e : kernel_entry) : string := let '(_, _, s, _, _) := e in s.

Definition kernel_ok (e : kernel_entry) : bool :=
  let '(o, k, _, params, body) := e in
  list_eqb String.eqb params ["$source"; "$ix"; "$sink"] &&
  if String.eqb o "div" && String.eqb k "2d_vector_all_b" then tm_eqb (norm body) ref_div_all_b
  else match ref_kernel k (op_tok o) with Some r => tm_eqb (norm body) r | None => false end.

Definition kernels_complete : bool :=
  forallb (fun e => forallb (fun kt => Nat.eqb (count_if (fun x : kernel_entry => let '(o, k, _, _, _) := x in
                                                                  String.eqb o (fst (fst e)) && String.eqb k (fst (fst (fst (fst kt))))) oa_kernels) 1)
                            kernel_table) oa_ops
  && Nat.eqb (List.length oa_kernels) 32.

Theorem oa_kernel_sites : irregular kernel_site kernel_ok oa_kernels = [].
Proof. vm_compute. reflexivity. Qed.

Theorem oa_kernels_regular : forallb kernel_ok oa_kernels = true /\ kernels_complete = true.
Proof. split; vm_compute; reflexivity. Qed.

(* the kernels op-assignment can reach: the structs the arm macros build (suffixes S and V) *)
Definition built_suffixes : list string :=
  flat_map (fun e => map (fun a : sarm => let '(_, _, _, st, _) := a in st) (snd (fst e))) oa_range_arms.
Definition reachable_kernel (k : string) : bool :=
  existsb (fun kt => let '(k', _, suffix, _, _) := kt in
                     String.eqb k k' && str_in ("[<$fxn_name " ++ suffix ++ ">]") built_suffixes) kernel_table.
Theorem oa_reachable_kernels :
  filter reachable_kernel (map (fun kt => fst (fst (fst (fst kt)))) kernel_table)
  = ["1d_range"; "1d_range_vec"; "2d_vector_all"; "2d_vector_all_mat"].
Proof. vm_compute. reflexivity. Qed.

(* every reachable kernel of every operator IS the reference loop nest of its name with the operator's token *)
Theorem oa_reachable_kernels_uniform :
  forall o k site params body, In (o, k, site, params, body) oa_kernels -> reachable_kernel k = true ->
    exists r, ref_kernel k (op_tok o) = Some r /\ norm body = r.
Proof.
  intros o k site params body Hin Hr.
  pose proof (proj1 oa_kernels_regular) as H. rewrite forallb_forall in H. specialize (H _ Hin).
  cbn [kernel_ok] in H. apply andb_true_iff in H. destruct H as [_ H].
  assert (Hk : String.eqb k "2d_vector_all_b" = false).
  { destruct (String.eqb k "2d_vector_all_b") eqn:E; [|reflexivity]. apply String.eqb_eq in E. subst k.
    vm_compute in Hr. discriminate. }
  rewrite Hk, andb_false_r in H. destruct (ref_kernel k (op_tok o)) as [r|]; [|discriminate].
  exists r. split; [reflexivity|]. now apply tm_eqb_eq.
Qed.

(* ---- 6. the element update ------------------------------------------------------------------------ *)
(* In the reference loop nests the places written are `$sink[..]`, `$sink.column_mut(..)[..]`, `dst` (an element of
   `sink_row = $sink.row_mut(..)`), `val` (an element of `$sink.iter_mut()`), and the values combined are `$source`,
   `$source[..]`, `src` (an element of `src_row = $source.row(..)`); `src_i` is a row counter. *)
Fixpoint sink_place (t : tm) : bool :=
  match t with
  | L s => str_in s ["$sink"; "dst"; "val"; "sink_ptr"]
  | T h (x :: _) => str_in h ["[]"; ".column_mut()"] && sink_place x
  | _ => false
  end.
Fixpoint source_value (t : tm) : bool :=
  match t with
  | L s => str_in s ["$source"; "src"; "source_ptr"; "source_ref"]
  | T h (x :: _) => String.eqb h "[]" && source_value x
  | _ => false
  end.

Definition assign_toks : list string := ["="; "+="; "-="; "*="; "/="; "%="; "$op_fn"].

(* every assignment in the (normalised) body: (token, place, value) *)
Definition assignments (t : tm) : list (string * tm * tm) :=
  flat_map (fun s => match s with
                     | T h [p; v] => if str_in h assign_toks then [(h, p, v)] else []
                     | _ => []
                     end) (subterms t).

(* exactly one element update `sink-place TOK= source-value`; the only other assignment allowed is the row counter *)
Definition updates_ok (tok : string) (body : tm) : bool :=
  let asg := assignments (norm body) in
  let counters := filter (fun a => match a with (h, L "src_i", L "1") => String.eqb h "+=" | _ => false end) asg in
  let updates := filter (fun a => match a with (_, L "src_i", _) => false | _ => true end) asg in
  Nat.eqb (List.length counters + List.length updates) (List.length asg) &&
  match updates with
  | [(h, p, v)] => String.eqb h tok && sink_place p && source_value v
  | _ => false
  end.

Definition kernel_update_ok (e : kernel_entry) : bool := let '(o, _, _, _, body) := e in updates_ok (op_tok o) body.

Theorem oa_update_sites : irregular kernel_site kernel_update_ok oa_kernels = [].
Proof. vm_compute. reflexivity. Qed.

Theorem oa_updates_regular :
  forallb kernel_update_ok oa_kernels = true /\
  forallb (fun e : string * string * list string * tm => let '(m, _, _, body) := e in
             str_in m ["impl_op_assign_range_fxn_s"; "impl_op_assign_range_fxn_v"] || updates_ok "$op_fn" body) oa_solves = true.
Proof. split; vm_compute; reflexivity. Qed.

(* the token of an operator file denotes the operator of Model/Assign.v; a Rust compound assignment `p TOK= v` on
   a primitive numeric type stores `p TOK v` (old value on the LEFT), which is what [lift_m] computes *)
Definition aop_of_tok (tok : string) : option aop :=
  if String.eqb tok "+=" then Some OAdd else if String.eqb tok "-=" then Some OSub
  else if String.eqb tok "*=" then Some OMul else if String.eqb tok "/=" then Some ODiv else None.

Definition aop_of_op (o : string) : option aop := aop_of_tok (op_tok o).

Definition elem_update (k : string) (tok : string) (old : option sx) (v : sx) : option (option (option sx)) :=
  option_map (fun a => lift_m k a old v) (aop_of_tok tok).

(* for every kernel of every operator: the single element update of the body is `sink-place TOK= source-value`
   whose token denotes the operator of the file, i.e. the update function is [lift_m kind op old-sink-element
   source-element] of Model/Assign.v (sink on the left: 10 -= 3 is 7; no reciprocal) *)
Theorem kernel_update_is_lift_m :
  forall o k site params body, In (o, k, site, params, body) oa_kernels ->
    exists tok p v a,
      filter (fun x => match x with (_, L "src_i", _) => false | _ => true end) (assignments (norm body)) = [(tok, p, v)] /\
      sink_place p = true /\ source_value v = true /\ tok = op_tok o /\ aop_of_op o = Some a /\
      (forall kind old e, elem_update kind tok old e = Some (lift_m kind a old e)) /\
      In (o, a) [("add", OAdd); ("sub", OSub); ("mul", OMul); ("div", ODiv)].
Proof.
  intros o k site params body Hin.
  pose proof (proj1 oa_updates_regular) as H. rewrite forallb_forall in H. specialize (H _ Hin).
  cbn [kernel_update_ok] in H. unfold updates_ok in H. apply andb_true_iff in H. destruct H as [_ H].
  destruct (filter _ (assignments (norm body))) as [|[[tok p] v] [|x l]] eqn:Ef; try discriminate.
  repeat (apply andb_true_iff in H; destruct H as [H ?]). apply String.eqb_eq in H.
  (* the operator is one of the four *)
  assert (Ho : In o ["add"; "sub"; "mul"; "div"]).
  { clear - Hin. assert (Hall : forallb (fun e : kernel_entry => let '(o, _, _, _, _) := e in str_in o ["add"; "sub"; "mul"; "div"]) oa_kernels = true)
      by (vm_compute; reflexivity).
    rewrite forallb_forall in Hall. specialize (Hall _ Hin). cbv beta iota in Hall.
    unfold str_in in Hall. apply existsb_exists in Hall. destruct Hall as [x [Hx He]]. apply String.eqb_eq in He. now subst. }
  cbn [In] in Ho.
  destruct Ho as [<-|[<-|[<-|[<-|[]]]]];
    [exists tok, p, v, OAdd | exists tok, p, v, OSub | exists tok, p, v, OMul | exists tok, p, v, ODiv];
    (repeat split; try assumption; try reflexivity;
     [intros kind old e; unfold elem_update; rewrite H; reflexivity | cbn; tauto]).
Qed.
