(* Codec lemmas for the bytecode container model (Model/Loader.v). *)
From Coq Require Import List NArith Arith Bool Lia.
From MechV Require Import Model.Crc32 Model.Loader.
Import ListNotations.
Open Scope N_scope.

Lemma pow8_succ k : 2 ^ (8 * N.of_nat (S k)) = 256 * 2 ^ (8 * N.of_nat k).
Proof.
  rewrite Nat2N.inj_succ. replace (8 * N.succ (N.of_nat k)) with (8 + 8 * N.of_nat k) by lia.
  rewrite N.pow_add_r. reflexivity.
Qed.

Lemma le_length k : forall v, List.length (le k v) = k.
Proof. induction k as [|k IH]; intros v; cbn [le List.length]; [reflexivity|]. rewrite IH. reflexivity. Qed.

Lemma unle_le k : forall v, v < 2 ^ (8 * N.of_nat k) -> unle (le k v) = v.
Proof.
  induction k as [|k IH]; intros v H.
  - cbn in *. lia.
  - cbn [le unle]. rewrite pow8_succ in H. rewrite IH.
    + pose proof (N.div_mod v 256 ltac:(lia)). lia.
    + apply N.div_lt_upper_bound; lia.
Qed.

Lemma le_bytes k : forall v, Forall (fun b => b < 256) (le k v).
Proof.
  induction k as [|k IH]; intros v; cbn [le]; constructor; [apply N.mod_lt; lia | apply IH].
Qed.

Lemma take_app n (a b : bytes) : List.length a = n -> take n (a ++ b) = Some (a, b).
Proof.
  intros L. unfold take. rewrite app_length, L.
  replace (Nat.leb n (n + List.length b)) with true by (symmetry; apply Nat.leb_le; lia).
  rewrite <- L. rewrite firstn_app, firstn_all, Nat.sub_diag. cbn [firstn]. rewrite app_nil_r.
  rewrite skipn_app, skipn_all, Nat.sub_diag. reflexivity.
Qed.

Lemma take_fields_encode ws : forall vs rest, wf_fields ws vs = true ->
  take_fields ws (encode_fields ws vs ++ rest) = Some (vs, rest).
Proof.
  induction ws as [|w ws IH]; intros [|v vs] rest H; cbn [wf_fields] in H; try discriminate.
  - reflexivity.
  - apply andb_prop in H as [Hv Hr]. apply N.ltb_lt in Hv.
    cbn [encode_fields take_fields]. rewrite <- app_assoc, take_app by apply le_length.
    rewrite IH by exact Hr. rewrite unle_le by exact Hv. reflexivity.
Qed.

Theorem header_roundtrip (h : header) rest :
  wf_fields header_widths h = true -> decode_header (encode_header h ++ rest) = Some h.
Proof. intros H. unfold decode_header, encode_header. rewrite take_fields_encode by exact H. reflexivity. Qed.

Lemma encode_fields_length ws : forall vs, wf_fields ws vs = true ->
  List.length (encode_fields ws vs) = fold_right Nat.add 0%nat ws.
Proof.
  induction ws as [|w ws IH]; intros [|v vs] H; cbn [wf_fields] in H; try discriminate; [reflexivity|].
  apply andb_prop in H as [_ Hr]. cbn [encode_fields fold_right]. rewrite app_length, le_length, IH by exact Hr. reflexivity.
Qed.

(* ---------- instructions ---------- *)
Lemma take_u32s_encode args : forall rest, forallb (fun x => x <? 2 ^ 32) args = true ->
  take_u32s (List.length args) (flat_map (le 4) args ++ rest) = Some (args, rest).
Proof.
  induction args as [|a args IH]; intros rest H; [reflexivity|].
  cbn [forallb] in H. apply andb_prop in H as [Ha Hr]. apply N.ltb_lt in Ha.
  cbn [List.length take_u32s flat_map]. rewrite <- app_assoc, take_app by apply le_length.
  rewrite IH by exact Hr. rewrite unle_le by exact Ha. reflexivity.
Qed.

Local Ltac fields_of H :=
  repeat match type of H with
         | (_ && _)%bool = true => let H1 := fresh "W" in let H2 := fresh "W" in apply andb_prop in H as [H1 H2]; fields_of H1; fields_of H2
         end.

Local Ltac solve_wf :=
  cbn [wf_fields];
  change (2 ^ (8 * N.of_nat 4)) with (2 ^ 32); change (2 ^ (8 * N.of_nat 8)) with (2 ^ 64);
  repeat match goal with H : (_ <? _) = true |- _ => rewrite H; clear H end; reflexivity.

Lemma wf_fields_intro ws vs : wf_fields ws vs = true -> wf_fields ws vs = true. Proof. auto. Qed.

Theorem decode_encode_instr i rest : wf_instr i = true ->
  (8 <= List.length (encode_instr i ++ rest))%nat ->
  decode_instr (encode_instr i ++ rest) = Some (i, rest).
Proof.
  intros W L. unfold decode_instr.
  replace (Nat.ltb (List.length (encode_instr i ++ rest)) 8) with false by (symmetry; apply Nat.ltb_ge; exact L).
  destruct i as [d c|f d|f d s|f d a b|f d a b c|f d a b c e|f d args|s]; cbn [encode_instr app] in *; cbn [wf_instr] in W.
  - apply andb_prop in W as [W1 W2].
    change (le 4 d ++ le 4 c) with (encode_fields [4;4]%nat [d; c]). cbn [N.eqb OP_CONSTLOAD Pos.eqb].
    change (1 =? 1) with true. cbv iota.
    rewrite take_fields_encode by solve_wf. reflexivity.
  - apply andb_prop in W as [W1 W2].
    change (le 8 f ++ le 4 d) with (encode_fields [8;4]%nat [f; d]).
    change (OP_NULLOP =? OP_CONSTLOAD) with false. change (OP_NULLOP =? OP_RETURN) with false. change (OP_NULLOP =? OP_NULLOP) with true. cbv iota.
    rewrite take_fields_encode by solve_wf. reflexivity.
  - apply andb_prop in W as [W W3]. apply andb_prop in W as [W1 W2].
    change (le 8 f ++ le 4 d ++ le 4 s) with (encode_fields [8;4;4]%nat [f; d; s]).
    change (OP_UNOP =? OP_CONSTLOAD) with false. change (OP_UNOP =? OP_RETURN) with false. change (OP_UNOP =? OP_NULLOP) with false.
    change (OP_UNOP =? OP_UNOP) with true. cbv iota.
    rewrite take_fields_encode by solve_wf. reflexivity.
  - apply andb_prop in W as [W W4]. apply andb_prop in W as [W W3]. apply andb_prop in W as [W1 W2].
    change (le 8 f ++ le 4 d ++ le 4 a ++ le 4 b) with (encode_fields [8;4;4;4]%nat [f; d; a; b]).
    change (OP_BINOP =? OP_CONSTLOAD) with false. change (OP_BINOP =? OP_RETURN) with false. change (OP_BINOP =? OP_NULLOP) with false.
    change (OP_BINOP =? OP_UNOP) with false. change (OP_BINOP =? OP_BINOP) with true. cbv iota.
    rewrite take_fields_encode by solve_wf. reflexivity.
  - apply andb_prop in W as [W W5]. apply andb_prop in W as [W W4]. apply andb_prop in W as [W W3]. apply andb_prop in W as [W1 W2].
    change (le 8 f ++ le 4 d ++ le 4 a ++ le 4 b ++ le 4 c) with (encode_fields [8;4;4;4;4]%nat [f; d; a; b; c]).
    change (OP_TERNOP =? OP_CONSTLOAD) with false. change (OP_TERNOP =? OP_RETURN) with false. change (OP_TERNOP =? OP_NULLOP) with false.
    change (OP_TERNOP =? OP_UNOP) with false. change (OP_TERNOP =? OP_BINOP) with false. change (OP_TERNOP =? OP_TERNOP) with true. cbv iota.
    rewrite take_fields_encode by solve_wf. reflexivity.
  - apply andb_prop in W as [W W6]. apply andb_prop in W as [W W5]. apply andb_prop in W as [W W4]. apply andb_prop in W as [W W3]. apply andb_prop in W as [W1 W2].
    change (le 8 f ++ le 4 d ++ le 4 a ++ le 4 b ++ le 4 c ++ le 4 e) with (encode_fields [8;4;4;4;4;4]%nat [f; d; a; b; c; e]).
    change (OP_QUADOP =? OP_CONSTLOAD) with false. change (OP_QUADOP =? OP_RETURN) with false. change (OP_QUADOP =? OP_NULLOP) with false.
    change (OP_QUADOP =? OP_UNOP) with false. change (OP_QUADOP =? OP_BINOP) with false. change (OP_QUADOP =? OP_TERNOP) with false.
    change (OP_QUADOP =? OP_QUADOP) with true. cbv iota.
    rewrite take_fields_encode by solve_wf. reflexivity.
  - apply andb_prop in W as [W W4]. apply andb_prop in W as [W W3]. apply andb_prop in W as [W1 W2].
    change (OP_VARARG =? OP_CONSTLOAD) with false. change (OP_VARARG =? OP_RETURN) with false. change (OP_VARARG =? OP_NULLOP) with false.
    change (OP_VARARG =? OP_UNOP) with false. change (OP_VARARG =? OP_BINOP) with false. change (OP_VARARG =? OP_TERNOP) with false.
    change (OP_VARARG =? OP_QUADOP) with false. change (OP_VARARG =? OP_VARARG) with true. cbv iota.
    replace ((le 8 f ++ le 4 d ++ le 4 (N.of_nat (List.length args)) ++ flat_map (le 4) args) ++ rest)
      with (encode_fields [8;4;4]%nat [f; d; N.of_nat (List.length args)] ++ (flat_map (le 4) args ++ rest))
      by (cbn [encode_fields]; rewrite <- !app_assoc; reflexivity).
    rewrite take_fields_encode by solve_wf.
    assert (Lf : List.length (flat_map (le 4) args) = (4 * List.length args)%nat).
    { clear. induction args as [|a args IH]; [reflexivity|]. cbn [flat_map List.length]. rewrite app_length, le_length, IH. lia. }
    replace (N.leb (4 * N.of_nat (List.length args)) (N.of_nat (List.length (flat_map (le 4) args ++ rest)))) with true
      by (symmetry; apply N.leb_le; rewrite app_length, Lf; lia).
    rewrite Nat2N.id, take_u32s_encode by exact W4. reflexivity.
  - change (le 4 s) with (encode_fields [4]%nat [s]).
    change (OP_RETURN =? OP_CONSTLOAD) with false. change (OP_RETURN =? OP_RETURN) with true. cbv iota.
    rewrite take_fields_encode by solve_wf. reflexivity.
Qed.

Lemma encode_instr_length_ge i : is_ret i = false -> (8 <= List.length (encode_instr i))%nat.
Proof.
  destruct i; cbn [is_ret encode_instr List.length]; intros H; try discriminate;
    rewrite ?app_length, ?le_length; lia.
Qed.

Lemma encode_instr_nonempty i : encode_instr i <> [].
Proof. destruct i; discriminate. Qed.

(* the decoder refuses a stream whose last instruction is a 5-byte Ret (fewer than 8 bytes remain):
   the compiler never emits Ret (emit_ret has no caller), so emitted streams satisfy the hypothesis *)
Definition no_short_tail (is : list instr) : Prop :=
  match List.rev is with IRet _ :: _ => False | _ => True end.

Theorem decode_encode_instrs is : forall fuel,
  Forall (fun i => wf_instr i = true) is -> Forall (fun i => is_ret i = false) is ->
  (List.length is < fuel)%nat ->
  decode_instrs fuel (encode_instrs is) = Ok is.
Proof.
  induction is as [|i is IH]; intros fuel W R F.
  - destruct fuel; reflexivity.
  - inversion W as [|? ? Wi Wr]; inversion R as [|? ? Ri Rr]; subst.
    destruct fuel as [|fuel]; [cbn in F; lia|].
    unfold encode_instrs. cbn [flat_map]. fold (encode_instrs is).
    cbn [decode_instrs].
    destruct (encode_instr i ++ encode_instrs is) eqn:E.
    + exfalso. apply app_eq_nil in E as [E _]. exact (encode_instr_nonempty i E).
    + rewrite <- E. rewrite decode_encode_instr.
      * rewrite IH; [reflexivity|assumption|assumption|cbn in F; lia].
      * exact Wi.
      * rewrite app_length. pose proof (encode_instr_length_ge i Ri). lia.
Qed.

(* ---------- the loader never asks for more memory than the file is long ---------- *)
Lemma In_snd_if {A} (c : bool) (a b : A * list nat) n : In n (snd (if c then a else b)) -> In n (snd a) \/ In n (snd b).
Proof. destruct c; tauto. Qed.

Theorem load_ledger_bounded file : forall n, In n (snd (load file)) ->
  (n <= Nat.max HEADER_SIZE (List.length file))%nat.
Proof.
  intros n. unfold load.
  destruct (negb (verify file)); [cbn; tauto|].
  destruct (decode_header file) as [h|]; [|cbn [snd In]; intros [<-|[]]; apply Nat.le_max_l].
  destruct (negb (h_magic h =? MAGIC)); [cbn [snd In]; intros [<-|[]]; apply Nat.le_max_l|].
  set (fits := fun off len : N => (off =? 0) || (len =? 0) || (off + len <=? N.of_nat (List.length file - 4))).
  set (req := fun off len : N => if (off =? 0) || (len =? 0) then 0%nat else N.to_nat len).
  destruct (negb _) eqn:Hfit; [cbn [snd In]; intros [<-|[]]; apply Nat.le_max_l|].
  apply negb_false_iff in Hfit.
  apply andb_prop in Hfit as [Hfit _]. apply andb_prop in Hfit as [Hfit _].
  apply andb_prop in Hfit as [Hfit F3]. apply andb_prop in Hfit as [F1 F2].
  assert (Hreq : forall off len, fits off len = true -> (req off len <= List.length file)%nat).
  { intros off len Hf. unfold fits in Hf. unfold req.
    destruct ((off =? 0) || (len =? 0)) eqn:E; [lia|]. cbn [orb] in Hf. apply N.leb_le in Hf. lia. }
  intros Hin.
  assert (Hl : In n [HEADER_SIZE; req (h_const_tbl_off h) (h_const_tbl_len h);
                     req (h_const_blob_off h) (h_const_blob_len h); req (h_instr_off h) (h_instr_len h)]).
  { repeat match type of Hin with
           | In _ (snd (match ?x with _ => _ end)) => destruct x
           end; exact Hin. }
  clear Hin. cbn [In] in Hl.
  pose proof (Hreq _ _ F1). pose proof (Hreq _ _ F2). pose proof (Hreq _ _ F3).
  pose proof (Nat.le_max_l HEADER_SIZE (List.length file)). pose proof (Nat.le_max_r HEADER_SIZE (List.length file)).
  destruct Hl as [<-|[<-|[<-|[<-|[]]]]]; lia.
Qed.
