(* C11 — the offset bookkeeping of matrix concatenation against the tables REGENERATED from the Rust source on every
   run (Gen/CatArms.v, written by translators/cat_arms.py).

   [A B ..] and [A; B; ..] are assembled by hand-written kernels, one per number of blocks:
     solve()      `let mut offset = e0.copy(out, 0); offset += e1.copy(out, offset); ..; eN.copy(out, offset)`: block k is
                  copied at the SUM of what the copies of blocks 0..k-1 returned, in the order e0, e1, ..; horizontal
                  kernels use copy_into / copy_into_r, vertical ones copy_into_row_major / copy_into_v         [chain_ok]
     CopyMat      copy_into / _v / _r copy element i to dst[i + offset] and return the number of elements; copy_into_row_major
                  walks the block column by column inside the taller result and returns the block's ROW count   [copy_ok]
     dispatch     the dynamic-vector arms advance their running position by 1 for a scalar and by shape()[1] (columns) in
                  horizontal, shape()[0] (rows) in vertical concatenation                                     [advance_ok]

   Meaning: [chain_offsets_are_prefix_sums] — whatever the copies return, a regular kernel places block k at
   ret(0) + .. + ret(k-1); with the CopyMat return values (elements of a column-major block for horizontal, rows for
   vertical concatenation) these are the offsets at which Model/Cat.v ([cat_expected]) places the blocks. *)
From Coq Require Import List Arith Bool String Ascii Lia.
From MechV Require Import Base.Sexp Model.SrcArms Proofs.SrcArmsP Gen.CatArms.
Import ListNotations.
Open Scope string_scope.
Open Scope nat_scope.

Theorem ca_nothing_unrecognised : ca_unrecognised = [].
Proof. vm_compute. reflexivity. Qed.

(* ---- 1. the offset chains ------------------------------------------------------------------------------- *)
(* block k copied with method m at the sum of the returns of the blocks in off *)
Inductive cp : Type := Cp (blk : nat) (meth : string) (off : list nat).

Definition block_index (field : string) : option nat :=
  match field with
  | String "." (String "e" (String d EmptyString)) =>
      let n := nat_of_ascii d in if Nat.leb 48 n && Nat.leb n 57 then Some (n - 48) else None
  | _ => None
  end.

Definition is_copy (h : string) : bool := str_in h [".copy_into()"; ".copy_into_v()"; ".copy_into_r()"; ".copy_into_row_major()"].

(* `self.eK.m(&self.out, <off>)` *)
Definition copy_call (t : tm) : option (nat * string * tm) :=
  match t with
  | T m [T f [L "self"]; T ".out" [L "self"]; off] =>
      if is_copy m then match block_index f with Some k => Some (k, m, off) | None => None end else None
  | _ => None
  end.

Fixpoint chain_eval (offset : option (list nat)) (l : list tm) : option (list cp) :=
  match l with
  | [] => Some []
  | s :: r =>
      match s with
      | T "let" [L "offset"; c] =>
          match offset, copy_call c with
          | None, Some (k, m, L "0") => option_map (cons (Cp k m [])) (chain_eval (Some [k]) r)
          | _, _ => None
          end
      | T "+=" [L "offset"; c] =>
          match offset, copy_call c with
          | Some off, Some (k, m, L "offset") => option_map (cons (Cp k m off)) (chain_eval (Some (List.app off [k])) r)
          | _, _ => None
          end
      | _ =>
          match offset, copy_call s with
          | Some off, Some (k, m, L "offset") => option_map (cons (Cp k m off)) (chain_eval (Some off) r)
          | _, _ => None
          end
      end
  end.

Definition allowed_methods (direction : string) : list string :=
  if String.eqb direction "horizontal" then [".copy_into()"; ".copy_into_r()"] else [".copy_into_row_major()"; ".copy_into_v()"].

Definition cp_ok (direction : string) (m0 : string) (c : cp) (k : nat) : bool :=
  let '(Cp b m off) := c in
  Nat.eqb b k && String.eqb m m0 && list_eqb Nat.eqb off (seq 0 k) && str_in m (allowed_methods direction).

(* the N-block kernels (a loop over the blocks) and the dynamic-vector kernels (positions computed by the dispatch) *)
Definition ref_nargs (m : string) : tm :=
  T "block" [T "let" [L "offset"; L "0"];
             T "for" [L "e"; T ".e0" [L "self"]; T "block" [T "+=" [L "offset"; T m [L "e"; T ".out" [L "self"]; L "offset"]]]]].
Definition ref_positions (m : string) (discard : bool) : tm :=
  let call := T m [L "e"; T ".out" [L "self"]; L "i"] in
  T "block" [T "let" [L "out_ptr"; T ".as_mut_ptr()" [T ".out" [L "self"]]];
             T "for" [T "tuple" [L "e"; L "i"]; T ".matrix" [L "self"]; T "block" [if discard then T "let" [L "_"; call] else call]];
             T "for" [T "tuple" [L "e"; L "i"]; T ".scalar" [L "self"]; T "block" [T "=" [T "[]" [L "out_ptr"; L "i"]; T ".borrow()" [L "e"]]]]].

Definition solve_entry : Type := string * string * string * tm.
Definition solve_site (e : solve_entry) : string := let '(_, _, s, _) := e in s.

Definition chain_ok (e : solve_entry) : bool :=
  let '(direction, st, _, body) := e in
  match norm body with
  | T "block" l =>
      match chain_eval None l with
      | Some ((Cp _ m0 _ :: _) as cps) =>
          Nat.leb 2 (List.length cps) && list_eqb (cp_ok direction m0) cps (seq 0 (List.length cps))
      | _ =>
          existsb (fun m => tm_eqb (T "block" l) (ref_nargs m) || tm_eqb (T "block" l) (ref_positions m true)
                            || tm_eqb (T "block" l) (ref_positions m false)) (allowed_methods direction)
      end
  | _ => false
  end.

Definition solves_complete : bool :=
  list_eqb String.eqb (map (fun e : solve_entry => let '(_, st, _, _) := e in st) ca_solves)
    ["HorizontalConcatenateTwoArgs"; "HorizontalConcatenateThreeArgs"; "HorizontalConcatenateFourArgs"; "HorizontalConcatenateNArgs";
     "HorizontalConcatenateRDN";
     "VerticalConcatenateTwoArgs"; "VerticalConcatenateThreeArgs"; "VerticalConcatenateFourArgs"; "VerticalConcatenateNArgs";
     "VerticalConcatenateVD2"; "VerticalConcatenateVD3"; "VerticalConcatenateVD4"; "VerticalConcatenateVDN"].

(* ---- 2. the dispatch: how far the running position advances ------------------------------------------------ *)
Definition advance_entry : Type := string * string * string * string * tm.
Definition advance_ok (e : advance_entry) : bool :=
  let '(direction, _, v, op, rhs) := e in
  String.eqb v "i" && String.eqb op "+=" &&
  (tm_eqb rhs (L "1") ||
   tm_eqb (norm rhs) (T "[]" [T ".shape()" [L "e0"]; L (if String.eqb direction "horizontal" then "1" else "0")])).
Definition advance_site (e : advance_entry) : string := let '(_, s, _, _, _) := e in s.
Definition is_shape_advance (e : advance_entry) : bool :=
  let '(_, _, _, _, rhs) := e in match rhs with T "[]" _ => true | _ => false end.
Definition advances_complete : bool :=
  forallb (fun d => Nat.leb 1 (count_if (fun e : advance_entry => let '(d', _, _, _, _) := e in String.eqb d d' && is_shape_advance e) ca_advances))
          ["horizontal"; "vertical"].

(* ---- 3. CopyMat --------------------------------------------------------------------------------------------- *)
Definition ptr_lets : list tm :=
  [T "let" [L "src_ptr"; T "block" [T ".as_ptr()" [L "self"]]]; T "let" [L "dst_ptr"; T "block" [T ".as_mut_ptr()" [L "dst"]]]].
Definition ref_copy_linear : tm :=
  T "block" (List.app ptr_lets
    [T "for" [L "i"; T ".." [L "0"; T ".len()" [L "src_ptr"]];
              T "block" [T "=" [T "[]" [L "dst_ptr"; T "+" [L "i"; L "offset"]]; T "[]" [L "src_ptr"; L "i"]]]];
     T ".len()" [L "src_ptr"]]).
Definition ref_copy_row_major : tm :=
  T "block" (List.app ptr_lets
    [T "let" [L "src_rows"; T ".nrows()" [L "src_ptr"]]; T "let" [L "dest_rows"; T ".nrows()" [L "dst_ptr"]];
     T "let" [L "stride"; T "-" [L "dest_rows"; L "src_rows"]]; T "let" [L "offset"; L "offset"];
     T "for" [L "ix"; T ".." [L "0"; T ".len()" [L "src_ptr"]];
              T "block" [T "=" [T "[]" [L "dst_ptr"; L "offset"]; T "[]" [L "src_ptr"; L "ix"]];
                         T "+=" [L "offset"; T "+" [T "*" [T "as" [T "==" [T "%" [T "+" [L "ix"; L "1"]; L "src_rows"]; L "0"]; L "usize"]; L "stride"]; L "1"]]]];
     L "src_rows"]).

Definition copy_entry : Type := string * string * list string * tm.
Definition copy_ok (e : copy_entry) : bool :=
  let '(m, _, params, body) := e in
  list_eqb String.eqb params ["&self"; "dst"; "offset"] &&
  tm_eqb (norm body) (if String.eqb m "copy_into_row_major" then ref_copy_row_major else ref_copy_linear).
Definition copy_site (e : copy_entry) : string := let '(_, s, _, _) := e in s.

(* ---- the obligations ------------------------------------------------------------------------------------------ *)
Theorem ca_sites :
  irregular solve_site chain_ok ca_solves = [] /\ irregular advance_site advance_ok ca_advances = [] /\
  irregular copy_site copy_ok ca_copy_methods = [].
Proof. repeat split; vm_compute; reflexivity. Qed.

Theorem ca_regular :
  (forallb chain_ok ca_solves = true /\ solves_complete = true) /\
  (forallb advance_ok ca_advances = true /\ advances_complete = true) /\
  (forallb copy_ok ca_copy_methods = true /\
   map (fun e : copy_entry => let '(m, _, _, _) := e in m) ca_copy_methods = ["copy_into"; "copy_into_v"; "copy_into_r"; "copy_into_row_major"]).
Proof. repeat split; vm_compute; reflexivity. Qed.

(* ---- meaning ---------------------------------------------------------------------------------------------------- *)
(* the offset a copy is made at, given what each block's copy returns *)
Definition offset_value (ret : nat -> nat) (off : list nat) : nat := fold_right Nat.add 0 (map ret off).

Fixpoint prefix_sum (ret : nat -> nat) (k : nat) : nat :=
  match k with O => 0 | S j => prefix_sum ret j + ret j end.

Lemma offset_value_seq ret k : offset_value ret (seq 0 k) = prefix_sum ret k.
Proof.
  unfold offset_value. induction k as [|k IH]; [reflexivity|].
  rewrite seq_S, map_app, fold_right_app. cbn [map fold_right Nat.add].
  rewrite Nat.add_0_r. cbn [prefix_sum]. rewrite <- IH.
  generalize (map ret (seq 0 k)) as l. intro l. induction l as [|a l IHl]; cbn [fold_right]; lia.
Qed.

(* a kernel that passes [chain_ok] through its explicit chain copies its blocks e0, e1, .. in order, block k at
   ret(0) + .. + ret(k-1), where ret(j) is what the copy of block j returned *)
Theorem chain_offsets_are_prefix_sums :
  forall (direction m0 : string) (cps : list cp), list_eqb (cp_ok direction m0) cps (seq 0 (List.length cps)) = true ->
    forall (ret : nat -> nat) (j : nat) (c : cp), nth_error cps j = Some c ->
      let '(Cp b m off) := c in b = j /\ m = m0 /\ offset_value ret off = prefix_sum ret j.
Proof.
  intros direction m0 cps H ret.
  assert (G : forall (l : list cp) (s : nat), list_eqb (cp_ok direction m0) l (seq s (List.length l)) = true ->
               forall j c, nth_error l j = Some c -> cp_ok direction m0 c (s + j) = true).
  { induction l as [|a l IH]; intros s Hl j c Hn; [destruct j; discriminate|].
    cbn [List.length seq list_eqb] in Hl. apply andb_true_iff in Hl. destruct Hl as [Ha Hr].
    destruct j as [|j]; cbn [nth_error] in Hn.
    - injection Hn as <-. now rewrite Nat.add_0_r.
    - rewrite <- Nat.add_succ_comm. now apply (IH (S s) Hr j c). }
  intros j c Hn. specialize (G cps 0 H j c Hn). cbn [Nat.add] in G.
  destruct c as [b m off]. unfold cp_ok in G.
  apply andb_true_iff in G. destruct G as [G _]. apply andb_true_iff in G. destruct G as [G G3].
  apply andb_true_iff in G. destruct G as [G1 G2].
  apply Nat.eqb_eq in G1. apply String.eqb_eq in G2. apply list_eqb_nat_eq in G3.
  subst. repeat split. apply offset_value_seq.
Qed.
