(* C13, link to Flocq, bit patterns: [decode_bits f64] reads a 64-bit pattern exactly as Flocq's IEEE-754 layer
   ([b64_of_bits], IEEE754/Bits.v) does: same real value for every finite pattern, infinities and NaNs agree. *)
From Coq Require Import ZArith QArith Qreals Reals Bool Lia.
From Flocq Require Import Core.Core IEEE754.Binary IEEE754.Bits.
From MechV Require Import Base.Sexp Base.Obs Model.Literal Proofs.LiteralP Proofs.LiteralRoundP Proofs.LiteralFlocqP.
Local Open Scope Z_scope.

Lemma decode_bits_b64 bits s M e :
  decode_bits f64 bits = Some (FFin s M e) ->
  B2R 53 1024 (b64_of_bits bits) = Q2R (fin_Q f64 s M e).
Proof.
  intros Hd.
  unfold b64_of_bits, binary_float_of_bits. rewrite B2R_FF2B.
  unfold binary_float_of_bits_aux, split_bits.
  unfold decode_bits in Hd.
  change (fprec f64 - 1) with 52 in Hd. change (fexpbits f64) with 11 in Hd.
  change (52 + 11 + 1) with 64 in Hd. change (64 - 1) with 63 in Hd.
  destruct (andb (0 <=? bits) (bits <? 2 ^ 64)) eqn:Hrange; [|discriminate Hd].
  apply andb_true_iff in Hrange. destruct Hrange as [Hb0 Hb1]. apply Z.leb_le in Hb0. apply Z.ltb_lt in Hb1.
  assert (Hm : 0 <= bits mod 2 ^ 52 < 2 ^ 52) by (apply Z.mod_pos_bound, pow2_gt0; lia).
  assert (Heb : 0 <= (bits / 2 ^ 52) mod 2 ^ 11 < 2 ^ 11) by (apply Z.mod_pos_bound, pow2_gt0; lia).
  assert (Hsgn : (2 ^ 52 * 2 ^ 11 <=? bits) = (0 <? bits / 2 ^ 63)).
  { change (2 ^ 52 * 2 ^ 11) with 9223372036854775808. change (2 ^ 63) with 9223372036854775808.
    destruct (Z.leb_spec 9223372036854775808 bits) as [H|H]; symmetry; [apply Z.ltb_lt|apply Z.ltb_ge];
      Z.to_euclidean_division_equations; lia. }
  rewrite Hsgn. clear Hsgn.
  change (SpecFloat.emin (52 + 1) (2 ^ (11 - 1))) with (-1074).
  remember (bits mod 2 ^ 52) as m eqn:Hmdef. remember ((bits / 2 ^ 52) mod 2 ^ 11) as eb eqn:Hebdef.
  remember (0 <? bits / 2 ^ 63) as sg eqn:Hsgdef.
  pose proof (pow2_gt0 52 ltac:(lia)) as H52.
  destruct (eb =? 2 ^ 11 - 1) eqn:E1. { destruct (m =? 0); discriminate Hd. }
  apply Z.eqb_neq in E1.
  destruct (eb =? 0) eqn:E0; injection Hd as <- <- <-.
  - apply Z.eqb_eq in E0. rewrite E0. change (Zeq_bool 0 0) with true. cbv iota.
    rewrite (Q2R_fin_Q f64 f64_ok sg m 0 ltac:(lia)). unfold fin_R.
    destruct m as [|px|px].
    + cbn [FF2R]. symmetry. replace (sgnZ sg 0) with 0 by (destruct sg; reflexivity). apply F2R_0.
    + cbn [FF2R]. reflexivity.
    + lia.
  - apply Z.eqb_neq in E0.
    case Zeq_bool_spec; [intros Hc; contradiction|intros _].
    case Zeq_bool_spec; [intros Hc; contradiction|intros _].
    rewrite (Q2R_fin_Q f64 f64_ok sg (2 ^ 52 + m) (eb - 1) ltac:(lia)). unfold fin_R.
    destruct (m + 2 ^ 52) as [|px|px] eqn:Em; [lia| |lia].
    cbn [FF2R]. change (fscale f64) with 1074.
    replace (eb + -1074 - 1) with (eb - 1 - 1074) by lia.
    replace (sgnZ sg (2 ^ 52 + m)) with (cond_Zopp sg (Z.pos px)); [reflexivity|].
    rewrite <- Em. unfold cond_Zopp, sgnZ. destruct sg; lia.
Qed.

(* infinities and NaNs are classified alike *)
Lemma decode_bits_b64_special bits v :
  decode_bits f64 bits = Some v ->
  match v with
  | FFin _ _ _ => is_finite 53 1024 (b64_of_bits bits) = true
  | FInf s => b64_of_bits bits = B754_infinity 53 1024 s
  | FNan => is_nan 53 1024 (b64_of_bits bits) = true
  end.
Proof.
  intros Hd.
  assert (E : B2FF 53 1024 (b64_of_bits bits) = binary_float_of_bits_aux 52 11 bits).
  { unfold b64_of_bits, binary_float_of_bits. apply B2FF_FF2B. }
  revert E. generalize (b64_of_bits bits). intros x E.
  unfold binary_float_of_bits_aux, split_bits in E.
  unfold decode_bits in Hd.
  change (fprec f64 - 1) with 52 in Hd. change (fexpbits f64) with 11 in Hd.
  change (52 + 11 + 1) with 64 in Hd. change (64 - 1) with 63 in Hd.
  destruct (andb (0 <=? bits) (bits <? 2 ^ 64)) eqn:Hrange; [|discriminate Hd].
  apply andb_true_iff in Hrange. destruct Hrange as [Hb0 Hb1]. apply Z.leb_le in Hb0. apply Z.ltb_lt in Hb1.
  assert (Hm : 0 <= bits mod 2 ^ 52 < 2 ^ 52) by (apply Z.mod_pos_bound, pow2_gt0; lia).
  assert (Heb : 0 <= (bits / 2 ^ 52) mod 2 ^ 11 < 2 ^ 11) by (apply Z.mod_pos_bound, pow2_gt0; lia).
  assert (Hsgn : (2 ^ 52 * 2 ^ 11 <=? bits) = (0 <? bits / 2 ^ 63)).
  { change (2 ^ 52 * 2 ^ 11) with 9223372036854775808. change (2 ^ 63) with 9223372036854775808.
    destruct (Z.leb_spec 9223372036854775808 bits) as [H|H]; symmetry; [apply Z.ltb_lt|apply Z.ltb_ge];
      Z.to_euclidean_division_equations; lia. }
  rewrite Hsgn in E. clear Hsgn.
  remember (bits mod 2 ^ 52) as m eqn:Hmdef. remember ((bits / 2 ^ 52) mod 2 ^ 11) as eb eqn:Hebdef.
  remember (0 <? bits / 2 ^ 63) as sg eqn:Hsgdef.
  pose proof (pow2_gt0 52 ltac:(lia)) as H52.
  revert E. case Zeq_bool_spec; intros H0.
  - (* exponent field 0 *)
    subst eb. rewrite H0 in Hd. change (0 =? 2 ^ 11 - 1) with false in Hd. change (0 =? 0) with true in Hd.
    injection Hd as <-. destruct m as [|px|px]; [| |lia]; intros E; destruct x; try discriminate E; reflexivity.
  - case Zeq_bool_spec; intros H1.
    + rewrite H1 in Hd. rewrite Z.eqb_refl in Hd.
      destruct m as [|px|px]; [| |lia]; cbn [Z.eqb] in Hd; injection Hd as <-; intros E;
        destruct x; try discriminate E; [injection E as ->; reflexivity|reflexivity].
    + apply Z.eqb_neq in H1. rewrite H1 in Hd. apply Z.eqb_neq in H0. rewrite H0 in Hd. injection Hd as <-.
      destruct (m + 2 ^ 52) as [|px|px] eqn:Em; [lia| |lia]. intros E; destruct x; try discriminate E; reflexivity.
Qed.
