(* Lemmas and theorems for C03 (Model/Index.v). *)
From Coq Require Import List Arith ZArith Lia PeanoNat Bool Sorted.
From Coq Require String.
From MechV Require Import Base.Sexp Base.Obs Model.Index Proofs.SexpP.
Import ListNotations.

(* ---------- generic facts about map_opt ---------- *)
Lemma map_opt_nth {B C} (f : B -> option C) (l : list B) : forall l', map_opt f l = Some l' ->
  length l' = length l /\
  forall k x, nth_error l k = Some x -> exists y, nth_error l' k = Some y /\ f x = Some y.
Proof.
  induction l as [|a l IH]; cbn [map_opt]; intros l' H.
  - injection H as <-. split; [reflexivity|]. intros [|k] x Hk; discriminate.
  - destruct (f a) as [fa|] eqn:Ea; [|discriminate].
    destruct (map_opt f l) as [fl|]; [|discriminate]. injection H as <-.
    destruct (IH _ eq_refl) as [L N]. split; [cbn; congruence|].
    intros [|k] x Hk; cbn in Hk |- *.
    + injection Hk as <-. eauto.
    + eauto.
Qed.

Lemma map_opt_none_iff {B C} (f : B -> option C) (l : list B) :
  map_opt f l = None <-> exists x, In x l /\ f x = None.
Proof.
  induction l as [|a l IH]; cbn [map_opt].
  - split; [discriminate|]. intros (x & [] & _).
  - destruct (f a) as [fa|] eqn:Ea.
    + destruct (map_opt f l) as [fl|].
      * split; [discriminate|]. intros (x & [<-|Hin] & Hx); [congruence|].
        assert (H : @None (list C) = None) by reflexivity.
        destruct IH as [_ IH2]. specialize (IH2 (ex_intro _ x (conj Hin Hx))). discriminate.
      * split; [|reflexivity]. intros _. destruct IH as [IH1 _].
        destruct (IH1 eq_refl) as (x & Hin & Hx). exists x. split; [right; assumption|assumption].
    + split; [|reflexivity]. intros _. exists a. split; [left; reflexivity|assumption].
Qed.

Lemma map_opt_ext {B C} (f g : B -> option C) (l : list B) :
  (forall x, In x l -> f x = g x) -> map_opt f l = map_opt g l.
Proof.
  induction l as [|a l IH]; intros H; cbn [map_opt]; [reflexivity|].
  rewrite (H a) by (left; reflexivity). rewrite IH; [reflexivity|].
  intros x Hx. apply H. right. assumption.
Qed.

Lemma map_opt_map {B B' C} (f : B' -> option C) (g : B -> B') (l : list B) :
  map_opt f (map g l) = map_opt (fun x => f (g x)) l.
Proof. induction l as [|a l IH]; cbn [map_opt map]; [reflexivity|]. rewrite IH. reflexivity. Qed.

Lemma map_opt_total {B C} (f : B -> option C) (l : list B) :
  (forall x, In x l -> f x <> None) -> exists l', map_opt f l = Some l'.
Proof.
  intros H. destruct (map_opt f l) as [l'|] eqn:E; [eauto|].
  apply map_opt_none_iff in E as (x & Hin & Hx). exfalso. exact (H x Hin Hx).
Qed.

Lemma map_opt_app {B C} (f : B -> option C) (l1 l2 : list B) :
  map_opt f (l1 ++ l2) =
  match map_opt f l1, map_opt f l2 with Some a, Some b => Some (a ++ b) | _, _ => None end.
Proof.
  induction l1 as [|a l1 IH]; cbn [map_opt app].
  - destruct (map_opt f l2); reflexivity.
  - destruct (f a); [|reflexivity]. rewrite IH.
    destruct (map_opt f l1); [|reflexivity]. destruct (map_opt f l2); reflexivity.
Qed.

(* ---------- single positions ---------- *)
Lemma pos1_some n z p : pos1 n z = Some p ->
  (1 <= z <= Z.of_nat n)%Z /\ p = Z.to_nat (z - 1) /\ p < n.
Proof.
  unfold pos1. destruct (Z.leb 1 z) eqn:E1; destruct (Z.leb z (Z.of_nat n)) eqn:E2; cbn [andb]; try discriminate.
  intros [= <-]. apply Z.leb_le in E1, E2. repeat split; lia.
Qed.

Lemma pos1_none n z : pos1 n z = None <-> (z < 1 \/ z > Z.of_nat n)%Z.
Proof.
  unfold pos1. destruct (Z.leb 1 z) eqn:E1; destruct (Z.leb z (Z.of_nat n)) eqn:E2; cbn [andb];
    try apply Z.leb_le in E1; try apply Z.leb_le in E2; try apply Z.leb_gt in E1; try apply Z.leb_gt in E2;
    split; intros H; try discriminate; try reflexivity; lia.
Qed.

Lemma pos1_of_nat n p : p < n -> pos1 n (Z.of_nat (S p)) = Some p.
Proof.
  intros H. unfold pos1.
  replace (Z.leb 1 (Z.of_nat (S p))) with true by (symmetry; apply Z.leb_le; lia).
  replace (Z.leb (Z.of_nat (S p)) (Z.of_nat n)) with true by (symmetry; apply Z.leb_le; lia).
  cbn [andb]. f_equal. lia.
Qed.

(* ---------- masks: the selected positions are exactly the positions of the trues, in order ---------- *)
Lemma mask_from_In l : forall p q, In q (mask_from p l) <-> (p <= q /\ nth_error l (q - p) = Some true).
Proof.
  induction l as [|b l IH]; intros p q; cbn [mask_from].
  - split; [intros []|]. intros [_ H]. destruct (q - p); discriminate.
  - assert (Hstep : (S p <= q /\ nth_error l (q - S p) = Some true) <->
                    (p <= q /\ q <> p /\ nth_error (b :: l) (q - p) = Some true)).
    { split.
      - intros [H1 H2]. split; [lia|]. split; [lia|]. replace (q - p) with (S (q - S p)) by lia. exact H2.
      - intros (H1 & H2 & H3). split; [lia|]. replace (q - p) with (S (q - S p)) in H3 by lia. exact H3. }
    destruct b; cbn [In]; rewrite IH, Hstep.
    + split.
      * intros [<-|(H1 & _ & H3)]; [split; [lia|]; rewrite Nat.sub_diag; reflexivity | split; assumption].
      * intros [H1 H2]. destruct (Nat.eq_dec p q) as [->|Hne]; [left; reflexivity|]. right. repeat split; try assumption. lia.
    + split.
      * intros (H1 & _ & H3). split; assumption.
      * intros [H1 H2]. repeat split; try assumption. intros ->. rewrite Nat.sub_diag in H2. discriminate.
Qed.

Lemma mask_positions_In l q : In q (mask_positions l) <-> nth_error l q = Some true.
Proof.
  unfold mask_positions. rewrite mask_from_In, Nat.sub_0_r. split; [intros [_ H]; exact H | intros H; split; [lia|exact H]].
Qed.

Lemma mask_from_sorted l : forall p, StronglySorted lt (mask_from p l).
Proof.
  induction l as [|b l IH]; intros p; cbn [mask_from]; [constructor|].
  destruct b; [|apply IH]. constructor; [apply IH|].
  apply Forall_forall. intros q Hq. apply mask_from_In in Hq. lia.
Qed.

Lemma mask_positions_sorted l : StronglySorted lt (mask_positions l).
Proof. apply mask_from_sorted. Qed.

Lemma mask_positions_lt l q : In q (mask_positions l) -> q < length l.
Proof. intros H. apply mask_positions_In in H. apply nth_error_Some. congruence. Qed.

Lemma mask_from_app l1 l2 : forall p, mask_from p (l1 ++ l2) = mask_from p l1 ++ mask_from (p + length l1) l2.
Proof.
  induction l1 as [|b l1 IH]; intros p; cbn [mask_from app length].
  - rewrite Nat.add_0_r. reflexivity.
  - rewrite IH. replace (S p + length l1) with (p + S (length l1)) by lia. destruct b; reflexivity.
Qed.

Lemma mask_from_length l : forall p q, length (mask_from p l) = length (mask_from q l).
Proof. induction l as [|b l IH]; intros p q; cbn [mask_from]; [reflexivity|]. destruct b; cbn [length]; erewrite IH; reflexivity. Qed.

(* ---------- ranges are the explicit lists lo, lo+1, ... ---------- *)
Lemma range_list_length lo hi incl : length (range_list lo hi incl) = range_len lo hi incl.
Proof. unfold range_list. rewrite map_length, seq_length. reflexivity. Qed.

Lemma range_list_nth lo hi incl k : k < range_len lo hi incl ->
  nth_error (range_list lo hi incl) k = Some (lo + Z.of_nat k)%Z.
Proof.
  intros H. unfold range_list. rewrite nth_error_map.
  rewrite nth_error_nth' with (d := 0) by (rewrite seq_length; assumption).
  rewrite seq_nth by assumption. reflexivity.
Qed.

Lemma range_list_In lo hi incl z :
  In z (range_list lo hi incl) <-> (lo <= z /\ if incl then z <= hi else z < hi)%Z.
Proof.
  unfold range_list, range_len. rewrite in_map_iff. split.
  - intros (k & <- & Hk). apply in_seq in Hk. destruct incl; lia.
  - intros [H1 H2]. exists (Z.to_nat (z - lo)). split; [lia|]. apply in_seq. destruct incl; lia.
Qed.

Lemma mask_positions_spec (l : list bool) :
  StronglySorted lt (mask_positions l) /\ forall q, In q (mask_positions l) <-> nth_error l q = Some true.
Proof. split; [apply mask_positions_sorted | apply mask_positions_In]. Qed.

Lemma range_list_spec (lo hi : Z) (incl : bool) :
  length (range_list lo hi incl) = range_len lo hi incl /\
  (forall k, k < range_len lo hi incl -> nth_error (range_list lo hi incl) k = Some (lo + Z.of_nat k)%Z) /\
  (forall z, In z (range_list lo hi incl) <-> (lo <= z /\ if incl then z <= hi else z < hi)%Z).
Proof.
  split; [apply range_list_length|]. split; [intros k; apply range_list_nth | intros z; apply range_list_In].
Qed.

(* ---------- resolve ---------- *)
(* the declarative reading of "addresses no element": *)
Definition index_bad (n : nat) (i : ix) : Prop :=
  match i with
  | IScalar z => (z < 1 \/ z > Z.of_nat n)%Z
  | IVec l => exists z, In z l /\ (z < 1 \/ z > Z.of_nat n)%Z
  | IRange lo hi incl => exists z, In z (range_list lo hi incl) /\ (z < 1 \/ z > Z.of_nat n)%Z
  | IAll => False
  | IMask l => length l <> n
  end.

Lemma resolve_none_iff n i : resolve n i = None <-> index_bad n i.
Proof.
  destruct i as [z|l|lo hi incl| |l]; cbn [resolve index_bad].
  - rewrite <- pos1_none. destruct (pos1 n z); cbn; split; congruence.
  - rewrite map_opt_none_iff. split; intros (z & Hin & H); exists z; (split; [assumption|]); apply pos1_none; assumption.
  - rewrite map_opt_none_iff. split; intros (z & Hin & H); exists z; (split; [assumption|]); apply pos1_none; assumption.
  - split; [discriminate|intros []].
  - destruct (Nat.eqb (length l) n) eqn:E.
    + apply Nat.eqb_eq in E. split; [discriminate|congruence].
    + apply Nat.eqb_neq in E. split; [intros _; assumption|reflexivity].
Qed.

Lemma resolve_bound n i ps : resolve n i = Some ps -> Forall (fun p => p < n) ps.
Proof.
  destruct i as [z|l|lo hi incl| |l]; cbn [resolve]; intros H.
  - destruct (pos1 n z) as [p|] eqn:E; [|discriminate]. injection H as <-.
    constructor; [|constructor]. apply pos1_some in E. lia.
  - apply Forall_forall. intros p Hp. apply In_nth_error in Hp as [k Hk].
    destruct (map_opt_nth _ _ _ H) as [L N].
    destruct (nth_error l k) as [z|] eqn:Ez.
    + destruct (N _ _ Ez) as (y & Hy & Hz). rewrite Hk in Hy. injection Hy as <-. apply pos1_some in Hz. lia.
    + apply nth_error_None in Ez. assert (k < length ps) by (apply nth_error_Some; congruence). lia.
  - apply Forall_forall. intros p Hp. apply In_nth_error in Hp as [k Hk].
    destruct (map_opt_nth _ _ _ H) as [L N].
    destruct (nth_error (range_list lo hi incl) k) as [z|] eqn:Ez.
    + destruct (N _ _ Ez) as (y & Hy & Hz). rewrite Hk in Hy. injection Hy as <-. apply pos1_some in Hz. lia.
    + apply nth_error_None in Ez. assert (k < length ps) by (apply nth_error_Some; congruence). lia.
  - injection H as <-. apply Forall_forall. intros p Hp. apply in_seq in Hp. lia.
  - destruct (Nat.eqb (length l) n) eqn:E; [|discriminate]. injection H as <-. apply Nat.eqb_eq in E.
    apply Forall_forall. intros p Hp. apply mask_positions_lt in Hp. lia.
Qed.

Lemma resolve_length n i ps : resolve n i = Some ps -> length ps = sel_len n i.
Proof.
  destruct i as [z|l|lo hi incl| |l]; cbn [resolve sel_len]; intros H.
  - destruct (pos1 n z); [|discriminate]. injection H as <-. reflexivity.
  - apply map_opt_nth in H as [L _]. exact L.
  - apply map_opt_nth in H as [L _]. rewrite L. apply range_list_length.
  - injection H as <-. apply seq_length.
  - destruct (Nat.eqb (length l) n); [|discriminate]. injection H as <-. reflexivity.
Qed.

(* what [resolve] selects, form by form (1-based statement for the numeric forms) *)
Lemma resolve_scalar n z ps : resolve n (IScalar z) = Some ps ->
  (1 <= z <= Z.of_nat n)%Z /\ ps = [Z.to_nat (z - 1)].
Proof.
  cbn [resolve]. destruct (pos1 n z) as [p|] eqn:E; [|discriminate]. intros [= <-].
  apply pos1_some in E as (H1 & -> & _). split; [assumption|reflexivity].
Qed.

Lemma resolve_vec n l ps : resolve n (IVec l) = Some ps ->
  length ps = length l /\
  forall k z, nth_error l k = Some z -> (1 <= z <= Z.of_nat n)%Z /\ nth_error ps k = Some (Z.to_nat (z - 1)).
Proof.
  cbn [resolve]. intros H. destruct (map_opt_nth _ _ _ H) as [L N]. split; [assumption|].
  intros k z Hk. destruct (N _ _ Hk) as (p & Hp & Hz). apply pos1_some in Hz as (H1 & -> & _). split; assumption.
Qed.

Lemma resolve_range n lo hi incl : resolve n (IRange lo hi incl) = resolve n (IVec (range_list lo hi incl)).
Proof. reflexivity. Qed.

Lemma resolve_all n : resolve n IAll = Some (seq 0 n).
Proof. reflexivity. Qed.

Lemma resolve_mask n l ps : resolve n (IMask l) = Some ps ->
  length l = n /\ StronglySorted lt ps /\ forall q, In q ps <-> nth_error l q = Some true.
Proof.
  cbn [resolve]. destruct (Nat.eqb (length l) n) eqn:E; [|discriminate]. intros [= <-].
  apply Nat.eqb_eq in E. split; [assumption|]. split; [apply mask_positions_sorted|apply mask_positions_In].
Qed.

Section IndexP.
  Context {A : Type}.
  Implicit Types (m out : mat A) (i j : ix).

  (* ---------- 1-D reads ---------- *)
  Lemma gather1_total (d : list A) ps : Forall (fun p => p < length d) ps -> exists es, gather1 d ps = Some es.
  Proof.
    intros H. apply map_opt_total. intros p Hp. rewrite Forall_forall in H. apply nth_error_Some. apply H. assumption.
  Qed.

  (* definedness: for a well-formed matrix the read fails exactly when the index addresses no element *)
  Theorem read1_err_iff m i : wf_mat m -> (read1 m i = Err <-> index_bad (mrows m * mcols m) i).
  Proof.
    intros W. rewrite <- resolve_none_iff. unfold read1.
    destruct (resolve (mrows m * mcols m) i) as [ps|] eqn:R; [|split; reflexivity].
    split; [|discriminate]. intros H. exfalso.
    pose proof (resolve_bound _ _ _ R) as B. unfold wf_mat in W. rewrite <- W in B.
    destruct (gather1_total _ _ B) as [es E]. rewrite E in H.
    destruct (is_scalar i) eqn:S; [|discriminate].
    destruct i; try discriminate. apply resolve_scalar in R as [_ ->].
    cbn [gather1 map_opt] in E. destruct (nth_error (mdata m) _); [|discriminate]. injection E as <-. discriminate.
  Qed.

  (* element k of a vector-shaped result is the element addressed by the k-th selected position *)
  Theorem read1_selects m i out : read1 m i = Ok (RM out) ->
    exists ps, resolve (mrows m * mcols m) i = Some ps /\
      mrows out = length ps /\ mcols out = 1 /\ wf_mat out /\
      forall k p, nth_error ps k = Some p ->
        p < mrows m * mcols m /\ exists e, nth_error (mdata out) k = Some e /\ nth_error (mdata m) p = Some e.
  Proof.
    unfold read1. destruct (resolve (mrows m * mcols m) i) as [ps|] eqn:R; [|discriminate].
    destruct (gather1 (mdata m) ps) as [es|] eqn:G; [|discriminate].
    destruct (is_scalar i); [destruct es as [|e [|? ?]]; discriminate|].
    intros [= <-]. exists ps. cbn [mrows mcols mdata]. destruct (map_opt_nth _ _ _ G) as [L N].
    repeat split; try reflexivity.
    - unfold wf_mat; cbn [mrows mcols mdata]. lia.
    - pose proof (resolve_bound _ _ _ R) as B. rewrite Forall_forall in B. apply B. eapply nth_error_In; eassumption.
    - destruct (N _ _ H) as (e & He & Hp). exists e. split; assumption.
  Qed.

  Theorem read1_scalar m z e : read1 m (IScalar z) = Ok (RS e) ->
    (1 <= z <= Z.of_nat (mrows m * mcols m))%Z /\ nth_error (mdata m) (Z.to_nat (z - 1)) = Some e.
  Proof.
    unfold read1. destruct (resolve (mrows m * mcols m) (IScalar z)) as [ps|] eqn:R; [|discriminate].
    apply resolve_scalar in R as [H ->]. cbn [gather1 map_opt is_scalar].
    destruct (nth_error (mdata m) (Z.to_nat (z - 1))) as [e'|]; [|discriminate]. intros [= <-]. split; [assumption|reflexivity].
  Qed.

  Lemma read1_kind m i : (exists e, read1 m i = Ok (RS e)) -> is_scalar i = true.
  Proof.
    intros [e H]. unfold read1 in H. destruct (resolve _ i); [|discriminate]. destruct (gather1 _ _); [|discriminate].
    destruct (is_scalar i); [reflexivity|discriminate].
  Qed.

  (* the 1-based statement for index vectors (repeats included) *)
  Corollary read1_vec m l out : read1 m (IVec l) = Ok (RM out) ->
    mrows out = length l /\ mcols out = 1 /\
    forall k z, nth_error l k = Some z ->
      (1 <= z <= Z.of_nat (mrows m * mcols m))%Z /\
      exists e, nth_error (mdata out) k = Some e /\ nth_error (mdata m) (Z.to_nat (z - 1)) = Some e.
  Proof.
    intros H. destruct (read1_selects _ _ _ H) as (ps & R & Hr & Hc & _ & Hsel).
    destruct (resolve_vec _ _ _ R) as [L N]. split; [lia|]. split; [assumption|].
    intros k z Hk. destruct (N _ _ Hk) as [Hz Hp]. split; [assumption|].
    destruct (Hsel _ _ Hp) as (_ & e & H1 & H2). eauto.
  Qed.


  Lemma gather1_seq_gen (d pre : list A) :
    map_opt (nth_error (pre ++ d)) (seq (length pre) (length d)) = Some d.
  Proof.
    revert pre. induction d as [|a d IH]; intros pre; cbn [length seq map_opt]; [reflexivity|].
    rewrite nth_error_app2 by lia. rewrite Nat.sub_diag. cbn [nth_error].
    specialize (IH (pre ++ [a])). rewrite <- app_assoc, app_length in IH. cbn [app length] in IH.
    replace (length pre + 1) with (S (length pre)) in IH by lia. rewrite IH. reflexivity.
  Qed.

  Lemma gather1_seq (d : list A) : gather1 d (seq 0 (length d)) = Some d.
  Proof. exact (gather1_seq_gen d []). Qed.

  (* x[:] is the column-major data of x as one column *)
  Corollary read1_all m : wf_mat m -> read1 m IAll = Ok (RM (Mat (mrows m * mcols m) 1 (mdata m))).
  Proof.
    intros W. unfold read1. cbn [resolve is_scalar]. unfold wf_mat in W. rewrite <- W.
    rewrite gather1_seq, seq_length. reflexivity.
  Qed.

  (* a mask of the right length selects the positions of its trues, in increasing order *)
  Corollary read1_mask m l out : read1 m (IMask l) = Ok (RM out) ->
    length l = mrows m * mcols m /\ mrows out = count_true l /\ mcols out = 1 /\
    forall k p, nth_error (mask_positions l) k = Some p ->
      nth_error l p = Some true /\
      exists e, nth_error (mdata out) k = Some e /\ nth_error (mdata m) p = Some e.
  Proof.
    intros H. destruct (read1_selects _ _ _ H) as (ps & R & Hr & Hc & _ & Hsel).
    pose proof (resolve_mask _ _ _ R) as (L & _ & _).
    cbn [resolve] in R. rewrite L, Nat.eqb_refl in R. injection R as <-.
    split; [assumption|]. split; [exact Hr|]. split; [assumption|].
    intros k p Hk. split; [apply mask_positions_In; eapply nth_error_In; eassumption|].
    destruct (Hsel _ _ Hk) as (_ & e & H1 & H2). eauto.
  Qed.

  (* ranges are read exactly like the explicit list of their members *)
  Theorem read1_range m lo hi incl : read1 m (IRange lo hi incl) = read1 m (IVec (range_list lo hi incl)).
  Proof. reflexivity. Qed.

  (* 1-D index k (1-based) is row i, column j with k = j*rows + i + 1: column-major *)
  Theorem read1_colmajor m a b : a < mrows m -> b < mcols m ->
    read1 m (IScalar (Z.of_nat (S (b * mrows m + a)))) =
    match mget m a b with Some e => Ok (RS e) | None => Err end.
  Proof.
    intros Ha Hb. unfold read1. cbn [resolve is_scalar].
    rewrite pos1_of_nat by nia. cbn [option_map gather1 map_opt]. unfold mget.
    replace (a <? mrows m) with true by (symmetry; apply Nat.ltb_lt; assumption).
    replace (b <? mcols m) with true by (symmetry; apply Nat.ltb_lt; assumption). cbn [andb].
    destruct (nth_error (mdata m) (b * mrows m + a)); reflexivity.
  Qed.

  (* ---------- pairs ---------- *)
  Lemma pairs_cons {R C} (rs : list R) (c : C) (cs : list C) :
    pairs rs (c :: cs) = map (fun r => (r, c)) rs ++ pairs rs cs.
  Proof. reflexivity. Qed.

  Lemma pairs_length {R C} (rs : list R) (cs : list C) : length (pairs rs cs) = length cs * length rs.
  Proof.
    induction cs as [|c cs IH]; [reflexivity|]. rewrite pairs_cons, app_length, map_length, IH. cbn. lia.
  Qed.

  Lemma pairs_nth {R C} (rs : list R) (cs : list C) : forall a b r c,
    nth_error rs a = Some r -> nth_error cs b = Some c ->
    nth_error (pairs rs cs) (b * length rs + a) = Some (r, c).
  Proof.
    induction cs as [|c0 cs IH]; intros a b r c Ha Hb; [destruct b; discriminate|].
    assert (La : a < length rs) by (apply nth_error_Some; congruence).
    rewrite pairs_cons. destruct b as [|b]; cbn [nth_error] in Hb.
    - injection Hb as <-. cbn [Nat.mul Nat.add]. rewrite nth_error_app1 by (rewrite map_length; assumption).
      rewrite nth_error_map, Ha. reflexivity.
    - rewrite nth_error_app2 by (rewrite map_length; lia). rewrite map_length.
      replace (S b * length rs + a - length rs) with (b * length rs + a) by lia.
      apply IH; assumption.
  Qed.

  Lemma pairs_In {R C} (rs : list R) (cs : list C) r c : In (r, c) (pairs rs cs) <-> In r rs /\ In c cs.
  Proof.
    unfold pairs. rewrite in_flat_map. split.
    - intros (c' & Hc & H). apply in_map_iff in H as (r' & E & Hr). injection E as <- <-. split; assumption.
    - intros [Hr Hc]. exists c. split; [assumption|]. apply in_map_iff. exists r. split; [reflexivity|assumption].
  Qed.

  Lemma pairs_map {R R' C C'} (f : R -> R') (g : C -> C') (rs : list R) (cs : list C) :
    pairs (map f rs) (map g cs) = map (fun rc => (f (fst rc), g (snd rc))) (pairs rs cs).
  Proof.
    induction cs as [|c cs IH]; [reflexivity|]. cbn [map]. rewrite !pairs_cons, map_app, IH. f_equal.
    rewrite !map_map. reflexivity.
  Qed.

  (* ---------- 2-D reads ---------- *)
  Lemma gather2_total m rs cs :
    Forall (fun r => r < mrows m) rs -> Forall (fun c => c < mcols m) cs -> wf_mat m ->
    exists es, gather2 m rs cs = Some es.
  Proof.
    intros Hr Hc W. apply map_opt_total. intros [r c] Hin. apply pairs_In in Hin as [H1 H2].
    rewrite Forall_forall in Hr, Hc. specialize (Hr _ H1). specialize (Hc _ H2). cbn [fst snd]. unfold mget.
    replace (r <? mrows m) with true by (symmetry; apply Nat.ltb_lt; assumption).
    replace (c <? mcols m) with true by (symmetry; apply Nat.ltb_lt; assumption). cbn [andb].
    apply nth_error_Some. unfold wf_mat in W. rewrite W. nia.
  Qed.

  Theorem read2_err_iff m i j : wf_mat m ->
    (read2 m i j = Err <-> index_bad (mrows m) i \/ index_bad (mcols m) j).
  Proof.
    intros W. rewrite <- !resolve_none_iff. unfold read2.
    destruct (resolve (mrows m) i) as [rs|] eqn:Ri; [|split; [left; reflexivity|reflexivity]].
    destruct (resolve (mcols m) j) as [cs|] eqn:Rj; [|split; [right; reflexivity|reflexivity]].
    split; [|intros [?|?]; discriminate]. intros H. exfalso.
    destruct (gather2_total m rs cs (resolve_bound _ _ _ Ri) (resolve_bound _ _ _ Rj) W) as [es E].
    rewrite E in H. destruct (andb (is_scalar i) (is_scalar j)) eqn:S; [|discriminate].
    apply andb_prop in S as [S1 S2]. destruct i; try discriminate. destruct j; try discriminate.
    apply resolve_scalar in Ri as [_ ->]. apply resolve_scalar in Rj as [_ ->].
    cbn in E. destruct (mget m _ _); [|discriminate]. injection E as <-. discriminate.
  Qed.

  (* element (a,b) of the result is element (rs[a], cs[b]) of x; result shape |rs| x |cs| *)
  Theorem read2_selects m i j out : read2 m i j = Ok (RM out) ->
    exists rs cs, resolve (mrows m) i = Some rs /\ resolve (mcols m) j = Some cs /\
      mrows out = length rs /\ mcols out = length cs /\ wf_mat out /\
      forall a b r c, nth_error rs a = Some r -> nth_error cs b = Some c ->
        r < mrows m /\ c < mcols m /\ exists e, mget out a b = Some e /\ mget m r c = Some e.
  Proof.
    unfold read2.
    destruct (resolve (mrows m) i) as [rs|] eqn:Ri; [|discriminate].
    destruct (resolve (mcols m) j) as [cs|] eqn:Rj; [|discriminate].
    destruct (gather2 m rs cs) as [es|] eqn:G; [|discriminate].
    destruct (andb (is_scalar i) (is_scalar j)); [destruct es as [|e [|? ?]]; discriminate|].
    intros [= <-]. exists rs, cs. cbn [mrows mcols mdata].
    destruct (map_opt_nth _ _ _ G) as [L N]. rewrite pairs_length in L.
    repeat split; try reflexivity.
    - unfold wf_mat; cbn [mrows mcols mdata]. lia.
    - pose proof (resolve_bound _ _ _ Ri) as B. rewrite Forall_forall in B. apply B. eapply nth_error_In; eassumption.
    - pose proof (resolve_bound _ _ _ Rj) as B. rewrite Forall_forall in B. apply B. eapply nth_error_In; eassumption.
    - destruct (N _ _ (pairs_nth rs cs a b r c H H0)) as (e & He & Hm). cbn [fst snd] in Hm.
      exists e. split; [|assumption]. unfold mget; cbn [mrows mcols mdata].
      assert (a < length rs) by (apply nth_error_Some; congruence).
      assert (b < length cs) by (apply nth_error_Some; congruence).
      replace (a <? length rs) with true by (symmetry; apply Nat.ltb_lt; assumption).
      replace (b <? length cs) with true by (symmetry; apply Nat.ltb_lt; assumption). exact He.
  Qed.

  Theorem read2_scalar m z w e : read2 m (IScalar z) (IScalar w) = Ok (RS e) ->
    (1 <= z <= Z.of_nat (mrows m))%Z /\ (1 <= w <= Z.of_nat (mcols m))%Z /\
    mget m (Z.to_nat (z - 1)) (Z.to_nat (w - 1)) = Some e.
  Proof.
    unfold read2.
    destruct (resolve (mrows m) (IScalar z)) as [rs|] eqn:Ri; [|discriminate].
    destruct (resolve (mcols m) (IScalar w)) as [cs|] eqn:Rj; [|discriminate].
    apply resolve_scalar in Ri as [Hz ->]. apply resolve_scalar in Rj as [Hw ->].
    cbn [gather2 pairs flat_map map map_opt app fst snd is_scalar andb].
    destruct (mget m (Z.to_nat (z - 1)) (Z.to_nat (w - 1))) as [e'|]; [|discriminate].
    intros [= <-]. split; [exact Hz|]. split; [exact Hw|reflexivity].
  Qed.

  Lemma read2_kind m i j : (exists e, read2 m i j = Ok (RS e)) -> is_scalar i = true /\ is_scalar j = true.
  Proof.
    intros [e H]. unfold read2 in H. destruct (resolve _ i); [|discriminate]. destruct (resolve _ j); [|discriminate].
    destruct (gather2 _ _ _); [|discriminate].
    destruct (andb (is_scalar i) (is_scalar j)) eqn:S; [apply andb_prop in S; assumption|discriminate].
  Qed.

  Theorem read2_range_l m lo hi incl j : read2 m (IRange lo hi incl) j = read2 m (IVec (range_list lo hi incl)) j.
  Proof. reflexivity. Qed.
  Theorem read2_range_r m i lo hi incl : read2 m i (IRange lo hi incl) = read2 m i (IVec (range_list lo hi incl)).
  Proof. unfold read2. cbn [resolve]. destruct i; reflexivity. Qed.

  (* result shapes: one index -> a column of the selected length; two indices -> |rows sel| x |cols sel| *)
  Theorem read_shape m :
    (forall i out, read1 m i = Ok (RM out) ->
       mrows out = sel_len (mrows m * mcols m) i /\ mcols out = 1 /\ wf_mat out) /\
    (forall i j out, read2 m i j = Ok (RM out) ->
       mrows out = sel_len (mrows m) i /\ mcols out = sel_len (mcols m) j /\ wf_mat out) /\
    (forall i e, read1 m i = Ok (RS e) -> is_scalar i = true) /\
    (forall i j e, read2 m i j = Ok (RS e) -> is_scalar i = true /\ is_scalar j = true).
  Proof.
    split; [|split; [|split]].
    - intros i out H. destruct (read1_selects _ _ _ H) as (ps & R & Hr & Hc & W & _).
      rewrite Hr, (resolve_length _ _ _ R). repeat split; assumption.
    - intros i j out H. destruct (read2_selects _ _ _ _ H) as (rs & cs & Ri & Rj & Hr & Hc & W & _).
      rewrite Hr, Hc, (resolve_length _ _ _ Ri), (resolve_length _ _ _ Rj). repeat split; assumption.
    - intros i e H. apply (read1_kind m). exists e. exact H.
    - intros i j e H. apply (read2_kind m). exists e. exact H.
  Qed.

  Theorem read_range m lo hi incl i :
    read1 m (IRange lo hi incl) = read1 m (IVec (range_list lo hi incl)) /\
    read2 m (IRange lo hi incl) i = read2 m (IVec (range_list lo hi incl)) i /\
    read2 m i (IRange lo hi incl) = read2 m i (IVec (range_list lo hi incl)).
  Proof. split; [apply read1_range|]. split; [apply read2_range_l | apply read2_range_r]. Qed.
End IndexP.


(* ---------- the kernel model against the reference ---------- *)
Definition all_false (i : ix) : bool :=
  match i with IMask l => Nat.eqb (count_true l) 0 | _ => false end.

(* inputs outside the three known-finding classes *)
Definition clean1 (n : nat) (i : ix) : Prop := mask_len_bad n i = false.
Definition order_class {A} (m : mat A) (i j : ix) : Prop :=
  match i, j with IMask l, IAll => 2 <= count_true l /\ 2 <= mcols m | _, _ => False end.
Definition clean2 {A} (m : mat A) (i j : ix) : Prop :=
  mask_len_bad (mrows m) i = false /\ mask_len_bad (mcols m) j = false /\
  (all_false i = true -> resolve (mcols m) j <> None) /\
  (all_false j = true -> resolve (mrows m) i <> None) /\
  ~ order_class m i j.

Lemma mask_len_ok n l : mask_len_bad n (IMask l) = false -> length l = n.
Proof. cbn. intros H. apply negb_false_iff in H. apply Nat.eqb_eq in H. exact H. Qed.

Lemma firstn_skipn_exact {B} (l : list B) : firstn (length l) l = l /\ skipn (length l) l = [].
Proof. split; [apply firstn_all | apply skipn_all]. Qed.

Lemma map_opt_pos1_raw n (l : list Z) : forall ps, map_opt (pos1 n) l = Some ps ->
  l = map (fun p => Z.of_nat (S p)) ps.
Proof.
  induction l as [|z l IH]; cbn [map_opt]; intros ps H.
  - injection H as <-. reflexivity.
  - destruct (pos1 n z) as [p|] eqn:E; [|discriminate]. destruct (map_opt (pos1 n) l) as [ps'|]; [|discriminate].
    injection H as <-. cbn [map]. rewrite <- (IH _ eq_refl). f_equal.
    apply pos1_some in E as (H1 & -> & _). lia.
Qed.

Lemma rawI_resolve n i ps : resolve n i = Some ps -> rawI n i = map (fun p => Z.of_nat (S p)) ps.
Proof.
  destruct i as [z|l|lo hi incl| |l]; cbn [resolve rawI]; intros H.
  - destruct (pos1 n z) as [p|] eqn:E; [|discriminate]. injection H as <-.
    apply pos1_some in E as (H1 & -> & _). cbn [map]. f_equal. lia.
  - apply map_opt_pos1_raw in H. exact H.
  - apply map_opt_pos1_raw in H. exact H.
  - injection H as <-. reflexivity.
  - destruct (Nat.eqb (length l) n); [|discriminate]. injection H as <-. reflexivity.
Qed.

Lemma raw_all_ge1 (ps : list nat) : forallb (Z.leb 1) (map (fun p => Z.of_nat (S p)) ps) = true.
Proof. apply forallb_forall. intros z Hz. apply in_map_iff in Hz as (p & <- & _). apply Z.leb_le. lia. Qed.

Lemma resolve_bad_raw n i : is_mask i = false -> resolve n i = None ->
  exists z, In z (rawI n i) /\ (z < 1 \/ z > Z.of_nat n)%Z.
Proof.
  intros M H. apply resolve_none_iff in H. destruct i as [z|l|lo hi incl| |l]; cbn [index_bad rawI] in *.
  - exists z. split; [left; reflexivity|assumption].
  - exact H.
  - exact H.
  - destruct H.
  - discriminate.
Qed.

Lemma pairs_nil_l {R C} (cs : list C) : @pairs R C [] cs = [].
Proof. induction cs as [|c cs IH]; [reflexivity|]. cbn. exact IH. Qed.

Lemma pairs_rowmajor_nil_r {R C} (rs : list R) : @pairs_rowmajor R C rs [] = [].
Proof. induction rs as [|r rs IH]; [reflexivity|]. cbn. exact IH. Qed.

Lemma pairs_rowmajor_small {R C} (rs : list R) (cs : list C) :
  length rs <= 1 \/ length cs <= 1 -> pairs_rowmajor rs cs = pairs rs cs.
Proof.
  intros [H|H].
  - destruct rs as [|r [|r' rs]]; cbn [length] in H; try lia.
    + rewrite pairs_nil_l. reflexivity.
    + unfold pairs_rowmajor, pairs. cbn [flat_map]. rewrite app_nil_r.
      induction cs as [|c cs IH]; [reflexivity|]. cbn [map flat_map app]. f_equal; exact IH.
  - destruct cs as [|c [|c' cs]]; cbn [length] in H; try lia.
    + rewrite pairs_rowmajor_nil_r. reflexivity.
    + unfold pairs_rowmajor, pairs. cbn [flat_map]. rewrite app_nil_r.
      induction rs as [|r rs IH]; [reflexivity|]. cbn [map flat_map app]. f_equal; exact IH.
Qed.

Section Kernels.
  Context {A : Type}.
  Implicit Types (m : mat A) (i j : ix).

  Lemma cellI_nat m r c : cellI m (Z.of_nat (S r), Z.of_nat (S c)) = mget m r c.
  Proof.
    unfold cellI. cbn [fst snd].
    replace (Z.leb 1 (Z.of_nat (S r))) with true by (symmetry; apply Z.leb_le; lia).
    replace (Z.leb 1 (Z.of_nat (S c))) with true by (symmetry; apply Z.leb_le; lia). cbn [andb].
    f_equal; lia.
  Qed.

  Lemma cellI_bad_row m r c : (r < 1 \/ r > Z.of_nat (mrows m))%Z -> cellI m (r, c) = None.
  Proof.
    intros H. unfold cellI. cbn [fst snd]. destruct (Z.leb 1 r) eqn:E1; [|reflexivity].
    destruct (Z.leb 1 c); [|reflexivity]. cbn [andb]. apply Z.leb_le in E1. unfold mget.
    replace (Z.to_nat (r - 1) <? mrows m) with false by (symmetry; apply Nat.ltb_ge; lia). reflexivity.
  Qed.

  Lemma cellI_bad_col m r c : (c < 1 \/ c > Z.of_nat (mcols m))%Z -> cellI m (r, c) = None.
  Proof.
    intros H. unfold cellI. cbn [fst snd]. destruct (Z.leb 1 r); [|reflexivity].
    destruct (Z.leb 1 c) eqn:E1; [|reflexivity]. cbn [andb]. apply Z.leb_le in E1. unfold mget.
    replace (Z.to_nat (c - 1) <? mcols m) with false by (symmetry; apply Nat.ltb_ge; lia).
    rewrite andb_false_r. reflexivity.
  Qed.

  Lemma gatherI_resolved m (rs cs : list nat) :
    map_opt (cellI m) (pairs (map (fun p => Z.of_nat (S p)) rs) (map (fun p => Z.of_nat (S p)) cs)) = gather2 m rs cs.
  Proof.
    rewrite pairs_map, map_opt_map. unfold gather2. apply map_opt_ext. intros [r c] _. apply cellI_nat.
  Qed.

  Lemma gatherI_bad_row m (rs cs : list Z) r : In r rs -> cs <> [] ->
    (r < 1 \/ r > Z.of_nat (mrows m))%Z -> map_opt (cellI m) (pairs rs cs) = None.
  Proof.
    intros Hr Hc Hb. apply map_opt_none_iff. destruct cs as [|c cs]; [congruence|].
    exists (r, c). split; [apply pairs_In; split; [assumption|left; reflexivity] | apply cellI_bad_row; assumption].
  Qed.

  Lemma gatherI_bad_col m (rs cs : list Z) c : In c cs -> rs <> [] ->
    (c < 1 \/ c > Z.of_nat (mcols m))%Z -> map_opt (cellI m) (pairs rs cs) = None.
  Proof.
    intros Hc Hr Hb. apply map_opt_none_iff. destruct rs as [|r rs]; [congruence|].
    exists (r, c). split; [apply pairs_In; split; [left; reflexivity|assumption] | apply cellI_bad_col; assumption].
  Qed.

  (* 1-D: with a mask of the right length the kernel model is the reference *)
  Theorem kernel_agrees_1d (d : A) m i : clean1 (mrows m * mcols m) i -> readI1 d m i = read1 m i.
  Proof.
    intros C. destruct i as [z|l|lo hi incl| |l]; try reflexivity.
    apply mask_len_ok in C. unfold readI1, read1. cbn [resolve is_scalar]. rewrite <- C.
    rewrite Nat.ltb_irrefl, Nat.eqb_refl. destruct (firstn_skipn_exact l) as [-> ->].
    destruct (gather1 (mdata m) (mask_positions l)) as [es|]; [|reflexivity].
    cbn [count_true mask_positions mask_from length repeat]. rewrite app_nil_r. reflexivity.
  Qed.

  Lemma all_mask_agrees (d : A) m l : length l = mcols m -> all_mask_read2 d m l = read2 m IAll (IMask l).
  Proof.
    intros C. unfold all_mask_read2, read2. cbn [resolve is_scalar andb]. rewrite <- C.
    rewrite Nat.ltb_irrefl, Nat.eqb_refl. destruct (firstn_skipn_exact l) as [-> ->].
    destruct (gather2 m (seq 0 (mrows m)) (mask_positions l)) as [es|]; [|reflexivity].
    cbn [count_true mask_positions mask_from length repeat]. rewrite Nat.mul_0_r. cbn [repeat].
    rewrite app_nil_r, seq_length. reflexivity.
  Qed.

  Lemma mask_all_agrees m l : length l = mrows m -> (count_true l <= 1 \/ mcols m <= 1) ->
    mask_all_read2 m l = read2 m (IMask l) IAll.
  Proof.
    intros C S. unfold mask_all_read2, read2. cbn [resolve rawI is_scalar andb]. rewrite C, Nat.eqb_refl.
    rewrite pairs_rowmajor_small by (rewrite !map_length, seq_length; exact S).
    rewrite gatherI_resolved. destruct (gather2 m (mask_positions l) (seq 0 (mcols m))); [|reflexivity].
    rewrite !map_length. reflexivity.
  Qed.

  Lemma lazy_agrees m i j : orb (is_mask i) (is_mask j) = true -> clean2 m i j ->
    lazy_read2 m i j = read2 m i j.
  Proof.
    intros M (Ci & Cj & Ei & Ej & _). unfold lazy_read2, read2.
    destruct (resolve (mrows m) i) as [rs|] eqn:Ri.
    - destruct (resolve (mcols m) j) as [cs|] eqn:Rj.
      + rewrite (rawI_resolve _ _ _ Ri), (rawI_resolve _ _ _ Rj), raw_all_ge1. cbn [negb]. rewrite andb_false_r.
        rewrite gatherI_resolved. destruct (gather2 m rs cs); [|reflexivity].
        replace (andb (is_scalar i) (is_scalar j)) with false
          by (destruct i; destruct j; try discriminate; reflexivity).
        rewrite !map_length. reflexivity.
      + (* the column index is out of range: it is not a mask, so i is a mask with a true *)
        assert (Mj : is_mask j = false).
        { destruct j as [| | | |l]; try reflexivity. apply mask_len_ok in Cj. cbn [resolve] in Rj.
          rewrite Cj, Nat.eqb_refl in Rj. discriminate. }
        rewrite Mj, orb_false_r in M.
        replace (is_veclike i) with false by (destruct i; try discriminate; reflexivity). cbn [andb].
        destruct (resolve_bad_raw _ _ Mj Rj) as (c & Hc & Hb).
        assert (Hrs : rawI (mrows m) i <> []).
        { destruct i as [| | | |l]; try discriminate. cbn [rawI]. intros E. apply map_eq_nil in E.
          apply Ei; [|reflexivity]. cbn [all_false]. unfold count_true. rewrite E. reflexivity. }
        rewrite (gatherI_bad_col m _ _ c Hc Hrs Hb). reflexivity.
    - assert (Mi : is_mask i = false).
      { destruct i as [| | | |l]; try reflexivity. apply mask_len_ok in Ci. cbn [resolve] in Ri.
        rewrite Ci, Nat.eqb_refl in Ri. discriminate. }
      rewrite Mi in M. cbn [orb] in M.
      destruct (resolve_bad_raw _ _ Mi Ri) as (r & Hr & Hb).
      assert (Hcs : rawI (mcols m) j <> []).
      { destruct j as [| | | |l]; try discriminate. cbn [rawI]. intros E. apply map_eq_nil in E.
        apply Ej; [|reflexivity]. cbn [all_false]. unfold count_true. rewrite E. reflexivity. }
      destruct (andb (is_veclike i) (negb (forallb (Z.leb 1) (rawI (mrows m) i)))); [reflexivity|].
      rewrite (gatherI_bad_row m _ _ r Hr Hcs Hb). reflexivity.
  Qed.

  (* C03 holds for the kernel model outside the three known-finding classes *)
  Theorem kernel_agrees_2d (d : A) m i j : clean2 m i j -> readI2 d m i j = read2 m i j.
  Proof.
    intros C. pose proof C as (Ci & Cj & _ & _ & O).
    destruct i as [z|l|lo hi incl| |l]; destruct j as [z'|l'|lo' hi' incl'| |l'];
      cbn [readI2 is_mask orb]; try reflexivity; try (apply lazy_agrees; [reflexivity|exact C]).
    - apply all_mask_agrees. apply mask_len_ok in Cj. exact Cj.
    - apply mask_all_agrees; [apply mask_len_ok in Ci; exact Ci|].
      cbn [order_class] in O. lia.
  Qed.
End Kernels.

(* ---------- the kernel model violates the property inside the classes (witnesses) ---------- *)
Theorem refuted_mask_length :
  exists (m : mat Z) (l : list bool) (out : mat Z),
    wf_mat m /\ index_bad (mrows m * mcols m) (IMask l) /\ read1 m (IMask l) = Err /\
    readI1 0%Z m (IMask l) = Ok (RM out).
Proof.
  exists (Mat 1 3 [10; 20; 30]%Z), [true; false; true; true], (Mat 3 1 [10; 30; 0]%Z).
  repeat split. cbn. lia.
Qed.

Theorem refuted_mask_length_short :
  exists (m : mat Z) (i j : ix) (out : mat Z),
    wf_mat m /\ index_bad (mcols m) j /\ read2 m i j = Err /\ readI2 0%Z m i j = Ok (RM out).
Proof.
  exists (Mat 2 3 [1; 4; 2; 5; 3; 6]%Z), (IScalar 1), (IMask [true; false]), (Mat 1 1 [1]%Z).
  repeat split. cbn. lia.
Qed.

Theorem refuted_empty_mask_hides_oob :
  exists (m : mat Z) (i j : ix) (out : mat Z),
    wf_mat m /\ mask_len_bad (mrows m) i = false /\ index_bad (mcols m) j /\
    read2 m i j = Err /\ readI2 0%Z m i j = Ok (RM out).
Proof.
  exists (Mat 2 2 [1; 3; 2; 4]%Z), (IMask [false; false]), (IScalar 5), (Mat 0 1 []).
  repeat split. cbn. lia.
Qed.

Theorem refuted_mask_rows_all_order :
  exists (m : mat Z) (i j : ix) (good bad : mat Z),
    wf_mat m /\ read2 m i j = Ok (RM good) /\ readI2 0%Z m i j = Ok (RM bad) /\
    mget good 1 0 <> mget bad 1 0.
Proof.
  exists (Mat 3 3 [1; 4; 7; 2; 5; 8; 3; 6; 9]%Z), (IMask [true; false; true]), IAll,
         (Mat 2 3 [1; 7; 2; 8; 3; 9]%Z), (Mat 2 3 [1; 2; 3; 7; 8; 9]%Z).
  repeat split. cbn. discriminate.
Qed.

(* ---------- the property, as judged on the implementation's observations ---------- *)
Section Judge.
  Open Scope string_scope.

  (* x as defined, and x unchanged: after the read and when re-read *)
  Definition C03_frame (xv : kval) (def rd fin : sx * list sx) : Prop :=
    decode_obs (fst def) = OVal xv /\ sym_val (snd def) = Some xv /\
    sym_val (snd rd) = Some xv /\
    decode_obs (fst fin) = OVal xv /\ sym_val (snd fin) = Some xv.

  (* C03 for one case (x = m of kind k, index q) and the observed session *)
  Definition C03_spec (k : String.string) (m : mat sx) (q : idx) (def rd fin : sx * list sx) : Prop :=
    C03_frame (KM k m) def rd fin /\
    (forall v, spec_read m q = Ok v -> decode_obs (fst rd) = OVal (kval_of k v)) /\
    (spec_read m q = Err -> decode_obs (fst rd) = OErr).

  Lemma sym_is_val xv syms : sym_is xv syms = true -> sym_val syms = Some xv.
  Proof.
    unfold sym_is, sym_val. destruct (lookup_sym _ syms) as [v|]; [|discriminate].
    destruct (decode_kval v) as [v'|]; [|discriminate]. intros H. apply kval_eqb_eq in H. congruence.
  Qed.

  Lemma obs_is_val xv o : obs_is xv o = true -> decode_obs o = OVal xv.
  Proof.
    unfold obs_is. destruct (decode_obs o) as [v'| | | |x]; try discriminate.
    intros H. apply kval_eqb_eq in H. congruence.
  Qed.

  Lemma judge_read_sound k m q o tag : judge_read k m q o = v_ok tag ->
    (forall v, spec_read m q = Ok v -> o = OVal (kval_of k v)) /\ (spec_read m q = Err -> o = OErr).
  Proof.
    unfold judge_read. destruct (spec_read m q) as [v|] eqn:S.
    - destruct o as [v'| | | |x]; try discriminate.
      + destruct (kval_eqb (kval_of k v) v') eqn:E.
        * intros _. apply kval_eqb_eq in E. subst v'. split; [intros v0 [= <-]; reflexivity|discriminate].
        * destruct (andb _ _); discriminate.
      + destruct (supported m q); discriminate.
    - destruct o as [v'| | | |x]; try (destruct (andb _ _); [discriminate|]; destruct (andb _ _); discriminate).
      intros _. split; [discriminate|reflexivity].
  Qed.

  Theorem judge_session_sound k m q def rd fin tag :
    judge_session k m q def rd fin = v_ok tag -> C03_spec k m q def rd fin.
  Proof.
    unfold judge_session.
    destruct (andb (obs_is (KM k m) (fst def)) (sym_is (KM k m) (snd def))) eqn:E1; cbn [negb]; [|discriminate].
    destruct (andb (sym_is (KM k m) (snd rd)) (andb (obs_is (KM k m) (fst fin)) (sym_is (KM k m) (snd fin)))) eqn:E2;
      cbn [negb]; [|discriminate].
    intros H. apply judge_read_sound in H as [H1 H2].
    apply andb_prop in E1 as [A1 A2]. apply andb_prop in E2 as [A3 A45]. apply andb_prop in A45 as [A4 A5].
    split; [|split; assumption].
    repeat split; auto using sym_is_val, obs_is_val.
  Qed.

  (* the same, spelled out with the reference model's meaning *)
  Corollary judge_ok_1d k m i def rd fin tag :
    wf_mat m -> judge_session k m (I1 i) def rd fin = v_ok tag ->
    C03_frame (KM k m) def rd fin /\
    (index_bad (mrows m * mcols m) i -> decode_obs (fst rd) = OErr) /\
    (~ index_bad (mrows m * mcols m) i ->
       exists v, read1 m i = Ok v /\ decode_obs (fst rd) = OVal (kval_of k v)).
  Proof.
    intros W H. apply judge_session_sound in H as (F & H1 & H2). split; [assumption|]. cbn [spec_read] in H1, H2. split.
    - intros B. apply H2. apply read1_err_iff; assumption.
    - intros B. destruct (read1 m i) as [v|] eqn:R.
      + exists v. split; [reflexivity|]. apply H1. reflexivity.
      + exfalso. apply B. apply read1_err_iff; assumption.
  Qed.

  Corollary judge_ok_2d k m i j def rd fin tag :
    wf_mat m -> judge_session k m (I2 i j) def rd fin = v_ok tag ->
    C03_frame (KM k m) def rd fin /\
    (index_bad (mrows m) i \/ index_bad (mcols m) j -> decode_obs (fst rd) = OErr) /\
    (~ (index_bad (mrows m) i \/ index_bad (mcols m) j) ->
       exists v, read2 m i j = Ok v /\ decode_obs (fst rd) = OVal (kval_of k v)).
  Proof.
    intros W H. apply judge_session_sound in H as (F & H1 & H2). split; [assumption|]. cbn [spec_read] in H1, H2. split.
    - intros B. apply H2. apply read2_err_iff; assumption.
    - intros B. destruct (read2 m i j) as [v|] eqn:R.
      + exists v. split; [reflexivity|]. apply H1. reflexivity.
      + exfalso. apply B. apply read2_err_iff; assumption.
  Qed.

  (* a known-finding verdict is only given when the observation is exactly what the
     kernel model predicts, and that prediction departs from the reference *)
  Theorem judge_read_kf k m q o id : judge_read k m q o = v_kf id ->
    obs_is_impl k m q o = true /\
    (kf_mask_length k m q = true \/ kf_empty_mask_oob k m q = true \/ kf_mask_rows_order k m q = true).
  Proof.
    unfold judge_read. destruct (spec_read m q) as [v|] eqn:S.
    - destruct o as [v'| | | |x]; try discriminate.
      + destruct (kval_eqb (kval_of k v) v'); [discriminate|].
        destruct (andb (kf_mask_rows_order k m q) (obs_is_impl k m q (OVal v'))) eqn:E; [|discriminate].
        apply andb_prop in E as [E1 E2]. intros _. split; [assumption|]. right; right; assumption.
      + destruct (supported m q); discriminate.
    - destruct o as [v'| | | |x]; try discriminate;
        (destruct (andb (kf_mask_length k m q) (obs_is_impl k m q _)) eqn:E;
         [apply andb_prop in E as [E1 E2]; intros _; split; [assumption|left; assumption]|]);
        (destruct (andb (kf_empty_mask_oob k m q) (obs_is_impl k m q _)) eqn:E';
         [apply andb_prop in E' as [E1 E2]; intros _; split; [assumption|right; left; assumption]|discriminate]).
  Qed.
  (* reflexivity of the structural equality tests *)
  Fixpoint sx_eqb_refl (a : sx) : sx_eqb a a = true.
  Proof.
    destruct a as [z|s|s|l]; cbn [sx_eqb].
    - apply Z.eqb_refl.
    - apply String.eqb_refl.
    - apply String.eqb_refl.
    - induction l as [|x l IH]; [reflexivity|]. rewrite sx_eqb_refl. exact IH.
  Qed.

  Lemma sxs_eqb_refl (l : list sx) : sxs_eqb l l = true.
  Proof. induction l as [|x l IH]; [reflexivity|]. cbn [sxs_eqb]. rewrite sx_eqb_refl. exact IH. Qed.

  Lemma kval_eqb_refl (v : kval) : kval_eqb v v = true.
  Proof.
    destruct v as [k e|k m]; cbn [kval_eqb]; rewrite String.eqb_refl; cbn [andb].
    - apply sx_eqb_refl.
    - unfold mat_eqb. rewrite !Nat.eqb_refl, sxs_eqb_refl. reflexivity.
  Qed.

  (* the known-finding classes of the judge lie inside the three syntactic classes:
     on clean inputs the judge can never answer (kf ...) *)
  Lemma kf_false_when_agree k m q : impl_read k m q = spec_read m q ->
    kf_mask_length k m q = false /\ kf_empty_mask_oob k m q = false /\ kf_mask_rows_order k m q = false.
  Proof.
    intros E. unfold kf_mask_length, kf_empty_mask_oob, kf_mask_rows_order. rewrite E.
    destruct (spec_read m q) as [v|]; cbn [is_ok negb andb].
    - rewrite !andb_false_r, kval_eqb_refl. repeat split.
    - rewrite !andb_false_r. repeat split.
  Qed.

  Theorem judge_kf_only_in_classes k m q o id : judge_read k m q o = v_kf id ->
    match q with
    | I1 i => ~ clean1 (mrows m * mcols m) i
    | I2 i j => ~ clean2 m i j
    end.
  Proof.
    intros H. apply judge_read_kf in H as [_ H].
    assert (N : impl_read k m q <> spec_read m q).
    { intros E. destruct (kf_false_when_agree _ _ _ E) as (E1 & E2 & E3).
      rewrite E1, E2, E3 in H. destruct H as [H|[H|H]]; discriminate. }
    destruct q as [i|i j]; intros C; apply N; cbn [impl_read spec_read].
    - apply kernel_agrees_1d. exact C.
    - apply kernel_agrees_2d. exact C.
  Qed.
  (* the whole extracted judge: an `ok` line means the decoded case satisfies C03_spec *)
  Lemma crash_verdict_not_ok x tag : crash_verdict x <> v_ok tag.
  Proof.
    unfold crash_verdict.
    repeat match goal with
           | |- context [match ?t with _ => _ end] => destruct t
           end; discriminate.
  Qed.

  Theorem judge_index_sound x tag : judge_index x = v_ok tag ->
    exists k m q pre sts def rd fin,
      parse_case x = Some (k, m, q, pre, sts) /\ wf_mat m /\ 1 <= pre /\
      nth_error sts 0 = Some def /\ nth_error sts pre = Some rd /\ nth_error sts (pre + 1) = Some fin /\
      C03_spec k m q def rd fin.
  Proof.
    unfold judge_index. destruct (parse_case x) as [[[[[k m] q] pre] sts]|];
      [|intros H; exfalso; exact (crash_verdict_not_ok _ _ H)].
    destruct (andb (wf_matb m) (andb (Nat.leb 1 pre) (Nat.eqb (length sts) (pre + 2)))) eqn:E; [|discriminate].
    apply andb_prop in E as [W E]. apply andb_prop in E as [P _].
    destruct (nth_error sts 0) as [def|] eqn:N0; [|discriminate].
    destruct (nth_error sts pre) as [rd|] eqn:N1; [|destruct (nth_error sts 0); discriminate].
    destruct (nth_error sts (pre + 1)) as [fin|] eqn:N2; [|destruct (nth_error sts 0); destruct (nth_error sts pre); discriminate].
    intros H. exists k, m, q, pre, sts, def, rd, fin.
    apply wf_matb_wf in W. apply Nat.leb_le in P. apply judge_session_sound in H.
    split; [reflexivity|]. split; [exact W|]. split; [exact P|].
    split; [exact N0|]. split; [exact N1|]. split; [exact N2|exact H].
  Qed.
End Judge.
