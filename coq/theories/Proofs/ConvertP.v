(* C12 — lemmas and theorems about Model/Convert.v *)
From Coq Require Import List Arith ZArith QArith Qabs String Bool Lia Znumtheory Zpow_facts.
From MechV Require Import Base.Sexp Base.Obs Model.Convert Proofs.SexpP.
Import ListNotations.
Local Open Scope nat_scope.

(* ------------------------------------------------------------------ *)
(* 1. reshape: column-major linear order is preserved                  *)
(* ------------------------------------------------------------------ *)
Section Reshape.
  Context {A : Type}.

  Lemma mlin_nth (m : mat A) (k : nat) :
    wf_mat m -> k < msize m -> mlin m k = nth_error (mdata m) k.
  Proof.
    unfold wf_mat, msize, mlin, mget. intros Hwf Hk.
    destruct (Nat.eqb_spec (mrows m) 0) as [E|E]; [rewrite E in Hk; cbn in Hk; lia|].
    assert (H1 : k mod mrows m < mrows m) by (apply Nat.mod_upper_bound; exact E).
    assert (H2 : k / mrows m < mcols m) by (apply Nat.div_lt_upper_bound; [exact E|exact Hk]).
    apply Nat.ltb_lt in H1, H2. rewrite H1, H2. cbn [andb].
    f_equal. rewrite (Nat.div_mod k (mrows m)) at 3 by exact E. lia.
  Qed.

  Lemma mlin_out (m : mat A) (k : nat) : wf_mat m -> msize m <= k -> mlin m k = None.
  Proof.
    unfold wf_mat, msize, mlin, mget. intros Hwf Hk.
    destruct (Nat.eqb_spec (mrows m) 0) as [E|E]; [reflexivity|].
    destruct (Nat.ltb_spec (k mod mrows m) (mrows m)) as [H1|H1]; [|reflexivity].
    destruct (Nat.ltb_spec (k / mrows m) (mcols m)) as [H2|H2]; [|reflexivity].
    cbn [andb]. apply nth_error_None. rewrite Hwf.
    assert (k < mrows m * mcols m); [|lia].
    rewrite (Nat.div_mod k (mrows m)) by exact E. nia.
  Qed.

  Theorem reshape_colmajor (m m' : mat A) (r c : nat) :
    wf_mat m -> reshape m r c = Some m' ->
    mrows m' = r /\ mcols m' = c /\ wf_mat m' /\ msize m' = msize m /\
    forall k, mlin m' k = mlin m k.
  Proof.
    unfold reshape. intros Hwf H.
    destruct (Nat.eqb_spec (r * c) (msize m)) as [E|E]; [|discriminate].
    injection H as <-. cbn [mrows mcols mdata].
    assert (Hwf' : wf_mat (Mat r c (mdata m))) by (unfold wf_mat in *; cbn; unfold msize in E; lia).
    repeat split; try assumption.
    intro k. destruct (Nat.lt_ge_cases k (msize m)) as [Hk|Hk].
    - rewrite !mlin_nth; try assumption; [reflexivity|]. unfold msize; cbn. exact (eq_ind_r (fun x => k < x) Hk E).
    - rewrite !mlin_out; try assumption; [reflexivity|]. unfold msize; cbn. rewrite E. exact Hk.
  Qed.

  (* the same statement by row/column index of the result *)
  Theorem reshape_get (m m' : mat A) (r c : nat) :
    wf_mat m -> reshape m r c = Some m' ->
    forall i j, i < r -> j < c -> mget m' i j = mlin m (j * r + i).
  Proof.
    intros Hwf H i j Hi Hj.
    destruct (reshape_colmajor m m' r c Hwf H) as (Hr & Hc & Hwf' & Hs & Hlin).
    rewrite <- Hlin. unfold mlin. rewrite Hr.
    destruct (Nat.eqb_spec r 0) as [E|E]; [lia|].
    f_equal.
    - rewrite Nat.add_comm, Nat.mod_add by exact E. symmetry. apply Nat.mod_small; exact Hi.
    - rewrite Nat.add_comm, Nat.div_add by exact E. rewrite Nat.div_small by exact Hi. reflexivity.
  Qed.

  Theorem reshape_count_err (m : mat A) (r c : nat) :
    reshape m r c = None <-> r * c <> msize m.
  Proof.
    unfold reshape. destruct (Nat.eqb_spec (r * c) (msize m)); split; intro H; congruence.
  Qed.
End Reshape.

(* ------------------------------------------------------------------ *)
(* 2. distinct elements                                                *)
(* ------------------------------------------------------------------ *)
Section Dedup.
  Context {A : Type} (eqb : A -> A -> bool).
  Hypothesis eqb_spec : forall a b, eqb a b = true <-> a = b.

  Lemma existsb_eqb_In (a : A) (l : list A) : existsb (eqb a) l = true <-> In a l.
  Proof.
    rewrite existsb_exists. split.
    - intros (x & Hx & E). apply eqb_spec in E. subst. exact Hx.
    - intro H. exists a. split; [exact H|apply eqb_spec; reflexivity].
  Qed.

  Lemma dedup_from_spec (l seen : list A) :
    NoDup (dedup_from eqb seen l) /\
    forall x, In x (dedup_from eqb seen l) <-> (In x l /\ ~ In x seen).
  Proof.
    revert seen. induction l as [|a l IH]; intro seen; cbn [dedup_from].
    - split; [constructor|]. intro x; cbn; tauto.
    - destruct (existsb (eqb a) seen) eqn:E.
      + apply existsb_eqb_In in E. destruct (IH seen) as [ND HIn]. split; [exact ND|].
        intro x. rewrite HIn. cbn. split; [tauto|]. intros [[->|H] Hn]; [contradiction|tauto].
      + assert (Hna : ~ In a seen) by (intro H; apply existsb_eqb_In in H; congruence).
        destruct (IH (a :: seen)) as [ND HIn]. split.
        * constructor; [|exact ND]. rewrite HIn. cbn. tauto.
        * intro x. cbn [In]. rewrite HIn. cbn [In]. split.
          -- intros [->|[H Hn]]; [tauto|tauto].
          -- intros [[->|H] Hn]; [tauto|]. 
             destruct (eqb a x) eqn:Eax; [apply eqb_spec in Eax; tauto|].
             right. split; [exact H|]. intros [->|H']; [|tauto].
             assert (eqb x x = true) by (apply eqb_spec; reflexivity). congruence.
    Qed.

  Theorem dedup_distinct (l : list A) :
    NoDup (dedup eqb l) /\ forall x, In x (dedup eqb l) <-> In x l.
  Proof.
    unfold dedup. destruct (dedup_from_spec l []) as [ND H]. split; [exact ND|].
    intro x. rewrite H. cbn. tauto.
  Qed.
End Dedup.

Local Open Scope Z_scope.

(* ------------------------------------------------------------------ *)
(* 3. integers, dyadic values, float bit fields *)
(* ------------------------------------------------------------------ *)
Lemma pow2_pos (n : Z) : 0 <= n -> 0 < 2 ^ n.
Proof. intro. apply Z.pow_pos_nonneg; lia. Qed.

Lemma pow2_split (w : Z) : 0 < w -> 2 ^ w = 2 * 2 ^ (w - 1).
Proof. intro. rewrite <- Z.pow_succ_r by lia. f_equal. lia. Qed.

Lemma wrap_id (s : bool) (w z : Z) : 0 < w -> in_range s w z = true -> wrap s w z = z.
Proof.
  intros Hw H. unfold in_range, lo_of, hi_of in H. apply andb_prop in H as [H1 H2].
  apply Z.leb_le in H1, H2.
  pose proof (pow2_split w Hw) as Hp.
  assert (Hpos : 0 < 2 ^ (w - 1)) by (apply pow2_pos; lia).
  unfold wrap. destruct s; cbn [andb].
  - destruct (Z.lt_ge_cases z 0) as [Hz|Hz].
    + assert (E : z mod 2 ^ w = z + 2 ^ w).
      { symmetry. apply Z.mod_unique with (q := -1); lia. }
      rewrite E. destruct (Z.leb_spec (2 ^ (w - 1)) (z + 2 ^ w)); lia.
    + rewrite Z.mod_small by lia. destruct (Z.leb_spec (2 ^ (w - 1)) z); lia.
  - apply Z.mod_small. lia.
Qed.

Lemma fq_zero (neg : bool) (e : Z) : fq neg 0 e == 0.
Proof.
  unfold fq. replace (if neg then - 0 else 0) with 0 by (destruct neg; reflexivity).
  destruct (0 <=? e); [rewrite Z.mul_0_l; reflexivity|]. unfold Qeq; cbn. reflexivity.
Qed.

Lemma fq_scale (neg : bool) (m e k : Z) : 0 <= k -> fq neg (m * 2 ^ k) (e - k) == fq neg m e.
Proof.
  intro Hk. unfold fq.
  replace (if neg then - (m * 2 ^ k) else m * 2 ^ k) with ((if neg then - m else m) * 2 ^ k)
    by (destruct neg; ring).
  set (sm := if neg then - m else m).
  destruct (Z.leb_spec 0 (e - k)) as [H1|H1]; destruct (Z.leb_spec 0 e) as [H2|H2]; try lia.
  - replace (sm * 2 ^ k * 2 ^ (e - k)) with (sm * 2 ^ e); [reflexivity|].
    rewrite <- Z.mul_assoc, <- Z.pow_add_r by lia. do 2 f_equal. lia.
  - unfold Qeq. cbn [Qnum Qden inject_Z].
    rewrite Z2Pos.id by (apply pow2_pos; lia).
    replace (- (e - k)) with (k - e) by lia.
    rewrite Z.mul_1_r, <- Z.mul_assoc, <- Z.pow_add_r by lia. do 2 f_equal. lia.
  - unfold Qeq. cbn [Qnum Qden].
    rewrite !Z2Pos.id by (apply pow2_pos; lia).
    rewrite <- !Z.mul_assoc, <- Z.pow_add_r by lia. do 2 f_equal. lia.
Qed.

Lemma q_trunc_fq (neg : bool) (m e : Z) : 0 <= m -> q_trunc (fq neg m e) = f_trunc neg m e.
Proof.
  intro Hm. unfold q_trunc, fq, f_trunc.
  destruct (Z.leb_spec 0 e) as [He|He]; cbn [Qnum Qden inject_Z].
  - rewrite Z.quot_1_r. destruct neg; ring.
  - rewrite Z2Pos.id by (apply pow2_pos; lia).
    assert (Hd : 0 < 2 ^ (- e)) by (apply pow2_pos; lia).
    destruct neg.
    + rewrite Z.quot_opp_l by lia. rewrite Z.quot_div_nonneg by lia. reflexivity.
    + rewrite Z.quot_div_nonneg by lia. reflexivity.
Qed.

Lemma pos_odd_tz (p : positive) : Zpos p = Zpos (pos_odd p) * 2 ^ pos_tz p /\ 0 <= pos_tz p.
Proof.
  induction p as [p IH|p IH|]; cbn [pos_odd pos_tz].
  - rewrite Z.pow_0_r. lia.
  - destruct IH as [IH1 IH2]. split; [|lia].
    rewrite Z.pow_add_r by lia. rewrite Pos2Z.inj_xO, IH1. ring.
  - rewrite Z.pow_0_r. lia.
Qed.

Lemma pos_odd_odd (p : positive) : Z.odd (Zpos (pos_odd p)) = true.
Proof. induction p; cbn [pos_odd]; auto. Qed.

Definition fmt_ok (f : fmt) : Prop := 0 < mb f /\ 1 < eb f.

Lemma bias_facts (f : fmt) : fmt_ok f -> 2 ^ eb f = 2 * bias f + 2 /\ 1 <= bias f.
Proof.
  intros [_ He]. unfold bias. rewrite (pow2_split (eb f)) by lia.
  assert (2 <= 2 ^ (eb f - 1)); [|lia].
  change 2 with (2 ^ 1) at 1. apply Z.pow_le_mono_r; lia.
Qed.

Lemma fields (f : fmt) (c E M : Z) :
  fmt_ok f -> 0 <= M < 2 ^ mb f -> 0 <= E < 2 ^ eb f -> 0 <= c <= 1 ->
  let b := c * 2 ^ (mb f + eb f) + E * 2 ^ mb f + M in
  b mod 2 ^ mb f = M /\ (b / 2 ^ mb f) mod 2 ^ eb f = E /\ b / 2 ^ (mb f + eb f) = c /\
  0 <= b < 2 ^ fwidth f.
Proof.
  intros [Hm He] HM HE Hc b. unfold fwidth. subst b.
  rewrite !Z.pow_add_r by lia. rewrite Z.pow_1_r.
  set (P := 2 ^ mb f) in *. set (R := 2 ^ eb f) in *.
  assert (HP : 0 < P) by (apply pow2_pos; lia).
  assert (HR : 0 < R) by (apply pow2_pos; lia).
  assert (E1 : (c * (P * R) + E * P + M) / P = c * R + E).
  { symmetry. apply Z.div_unique with (r := M); [lia|ring]. }
  repeat split.
  - symmetry. apply Z.mod_unique with (q := c * R + E); [lia|ring].
  - rewrite E1. symmetry. apply Z.mod_unique with (q := c); [lia|ring].
  - symmetry. apply Z.div_unique with (r := E * P + M); [nia|ring].
  - nia.
  - nia.
Qed.

(* ------------------------------------------------------------------ *)
(* 4. the float encoder is sound *)
(* ------------------------------------------------------------------ *)
Lemma fdecode_fields (f : fmt) (c E M : Z) :
  fmt_ok f -> 0 <= M < 2 ^ mb f -> 0 <= E < 2 ^ eb f -> 0 <= c <= 1 ->
  fdecode f (c * 2 ^ (mb f + eb f) + E * 2 ^ mb f + M) =
  (if E =? 2 ^ eb f - 1 then (if M =? 0 then FInf (Z.odd c) else FNaN)
   else if E =? 0 then FFin (Z.odd c) M (emin f)
   else FFin (Z.odd c) (M + 2 ^ mb f) (E - bias f - mb f)).
Proof.
  intros Hf HM HE Hc. destruct (fields f c E M Hf HM HE Hc) as (F1 & F2 & F3 & _).
  unfold fdecode. rewrite F1, F2, F3. reflexivity.
Qed.

Lemma sign_bit (neg : bool) : let c := if neg then 1 else 0 in 0 <= c <= 1 /\ Z.odd c = neg.
Proof. destruct neg; cbn; lia. Qed.

Lemma fencode_sound (f : fmt) (neg : bool) (m e b : Z) :
  fmt_ok f -> fencode f neg m e = Some b ->
  0 <= b < 2 ^ fwidth f /\
  exists m' e', fdecode f b = FFin neg m' e' /\ 0 <= m' /\ fq neg m' e' == fq neg m e.
Proof.
  intros Hf H. pose proof Hf as [Hm He]. destruct (bias_facts f Hf) as [Hb1 Hb2].
  destruct (sign_bit neg) as [Hc Hodd]. set (c := if neg then 1 else 0) in *.
  assert (HP : 0 < 2 ^ mb f) by (apply pow2_pos; lia).
  unfold fencode in H.
  replace (if neg then 2 ^ (mb f + eb f) else 0) with (c * 2 ^ (mb f + eb f)) in H
    by (subst c; destruct neg; ring).
  destruct m as [|p|p]; [| |discriminate].
  - (* zero *)
    injection H as <-.
    assert (HM : 0 <= 0 < 2 ^ mb f) by lia.
    assert (HE : 0 <= 0 < 2 ^ eb f) by lia.
    split.
    + pose proof (fields f c 0 0 Hf HM HE Hc) as (_ & _ & _ & Hb). cbn zeta in Hb.
      rewrite Z.mul_0_l, !Z.add_0_r in Hb. exact Hb.
    + pose proof (fdecode_fields f c 0 0 Hf HM HE Hc) as D.
      rewrite Z.mul_0_l, !Z.add_0_r in D.
      destruct (Z.eqb_spec 0 (2 ^ eb f - 1)) as [E0|_]; [lia|]. cbn in D.
      exists 0, (emin f). rewrite D, Hodd. split; [reflexivity|]. split; [lia|].
      rewrite !fq_zero. reflexivity.
  - (* nonzero *)
    destruct (pos_odd_tz p) as [Hp Htz].
    remember (Zpos (pos_odd p)) as n eqn:Heqn. set (t := pos_tz p) in *.
    set (e0 := e + t) in *. set (d := Z.log2 n + 1) in *.
    assert (Hn : 0 < n) by (rewrite Heqn; lia).
    destruct (Z.log2_spec n Hn) as [L1 L2].
    assert (Hd : 1 <= d) by (subst d; pose proof (Z.log2_nonneg n); lia).
    replace (Z.succ (Z.log2 n)) with d in L2 by (subst d; lia).
    replace (Z.log2 n) with (d - 1) in L1 by (subst d; lia).
    destruct ((d <=? mb f + 1) && (emin f <=? e0) && (d + e0 <=? bias f + 1)) eqn:G; [|discriminate].
    apply andb_prop in G as [G G3]. apply andb_prop in G as [G1 G2].
    apply Z.leb_le in G1, G2, G3.
    assert (Hval : fq neg n e0 == fq neg (Zpos p) e).
    { rewrite Hp. replace e with (e0 - t) by (subst e0; lia). symmetry. apply fq_scale. exact Htz. }
    destruct (Z.leb_spec (2 - bias f) (d + e0)) as [Hnorm|Hsub]; injection H as <-.
    + (* normal *)
      set (k := mb f + 1 - d). assert (Hk : 0 <= k) by (subst k; lia).
      assert (HN1 : 2 ^ mb f <= n * 2 ^ k).
      { replace (mb f) with ((d - 1) + k) by (subst k; lia). rewrite Z.pow_add_r by lia.
        apply Z.mul_le_mono_nonneg_r; [apply Z.lt_le_incl, pow2_pos; lia|exact L1]. }
      assert (HN2 : n * 2 ^ k < 2 * 2 ^ mb f).
      { replace (2 * 2 ^ mb f) with (2 ^ d * 2 ^ k).
        - apply Z.mul_lt_mono_pos_r; [apply pow2_pos; lia|exact L2].
        - rewrite <- Z.pow_add_r, <- Z.pow_succ_r by lia. f_equal. subst k. lia. }
      set (M := n * 2 ^ k - 2 ^ mb f). set (E := d + e0 - 1 + bias f).
      assert (HM : 0 <= M < 2 ^ mb f) by (subst M; lia).
      assert (HE : 0 <= E < 2 ^ eb f) by (subst E; lia).
      replace (c * 2 ^ (mb f + eb f) + E * 2 ^ mb f + (n * 2 ^ k - 2 ^ mb f))
        with (c * 2 ^ (mb f + eb f) + E * 2 ^ mb f + M) by (subst M; ring).
      split.
      * exact (proj2 (proj2 (proj2 (fields f c E M Hf HM HE Hc)))).
      * rewrite (fdecode_fields f c E M Hf HM HE Hc).
        destruct (Z.eqb_spec E (2 ^ eb f - 1)) as [E1|_]; [subst E; lia|].
        destruct (Z.eqb_spec E 0) as [E2|_]; [subst E; lia|].
        exists (M + 2 ^ mb f), (E - bias f - mb f). rewrite Hodd.
        split; [reflexivity|]. split; [lia|].
        rewrite <- Hval. replace (M + 2 ^ mb f) with (n * 2 ^ k) by (subst M; ring).
        replace (E - bias f - mb f) with (e0 - k) by (subst E k; lia).
        apply fq_scale. exact Hk.
    + (* subnormal *)
      set (k := e0 - emin f). assert (Hk : 0 <= k) by (subst k; lia).
      assert (HM : 0 <= n * 2 ^ k < 2 ^ mb f).
      { split; [apply Z.mul_nonneg_nonneg; [lia|apply Z.lt_le_incl, pow2_pos; lia]|].
        apply Z.lt_le_trans with (2 ^ d * 2 ^ k).
        - apply Z.mul_lt_mono_pos_r; [apply pow2_pos; lia|exact L2].
        - rewrite <- Z.pow_add_r by lia. apply Z.pow_le_mono_r; [lia|].
          subst k. unfold emin in *. lia. }
      assert (HE : 0 <= 0 < 2 ^ eb f) by lia.
      replace (c * 2 ^ (mb f + eb f) + n * 2 ^ k)
        with (c * 2 ^ (mb f + eb f) + 0 * 2 ^ mb f + n * 2 ^ k) by ring.
      split.
      * exact (proj2 (proj2 (proj2 (fields f c 0 (n * 2 ^ k) Hf HM HE Hc)))).
      * rewrite (fdecode_fields f c 0 (n * 2 ^ k) Hf HM HE Hc).
        destruct (Z.eqb_spec 0 (2 ^ eb f - 1)) as [E1|_]; [lia|]. cbn [Z.eqb].
        exists (n * 2 ^ k), (emin f). rewrite Hodd. split; [reflexivity|]. split; [lia|].
        rewrite <- Hval. replace (emin f) with (e0 - k) by (subst k; lia).
        apply fq_scale. exact Hk.
Qed.

(* ------------------------------------------------------------------ *)
(* 5. a value has one odd normal form: the encoder depends on the value only *)
(* ------------------------------------------------------------------ *)
Lemma kind_eqb_eq (a b : kind) : kind_eqb a b = true <-> a = b.
Proof. split; [|intros ->; destruct b; reflexivity]. destruct a, b; cbn; intro H; try discriminate; reflexivity. Qed.

Lemma kind_eqb_refl (a : kind) : kind_eqb a a = true.
Proof. apply kind_eqb_eq. reflexivity. Qed.

Lemma int_sw_pos (k : kind) (s : bool) (w : Z) : int_sw k = Some (s, w) -> 0 < w.
Proof. destruct k; cbn; intro H; inversion H; lia. Qed.

Lemma fmt_ok_of (k : kind) : fmt_ok (fmt_of k).
Proof. destruct k; cbn; unfold fmt_ok; cbn; lia. Qed.

Lemma fdecode_nonneg (f : fmt) (b : Z) (neg : bool) (m e : Z) :
  fmt_ok f -> fdecode f b = FFin neg m e -> 0 <= m.
Proof.
  intros [Hm He] H. unfold fdecode in H.
  assert (HP : 0 < 2 ^ mb f) by (apply pow2_pos; lia).
  pose proof (Z.mod_pos_bound b (2 ^ mb f) HP) as HM.
  destruct (_ =? 2 ^ eb f - 1); [destruct (_ =? 0); discriminate|].
  destruct (_ =? 0); inversion H; subst; lia.
Qed.

(* ---- values are determined by their odd normal form ---- *)
Lemma odd_normal_unique (n n' a a' : Z) :
  Z.odd n = true -> Z.odd n' = true -> 0 <= a -> 0 <= a' ->
  n * 2 ^ a = n' * 2 ^ a' -> n = n' /\ a = a'.
Proof.
  intros Hn Hn' Ha Ha' H.
  assert (Hgen : forall n n' a a', Z.odd n = true -> 0 <= a -> a < a' -> n * 2 ^ a = n' * 2 ^ a' -> False).
  { clear. intros n n' a a' Hn Ha Hlt H.
    replace a' with (a + (a' - a)) in H by lia. rewrite Z.pow_add_r in H by lia.
    assert (HP : 0 < 2 ^ a) by (apply pow2_pos; lia).
    assert (E : n = n' * 2 ^ (a' - a)) by nia.
    replace (a' - a) with (Z.succ (a' - a - 1)) in E by lia. rewrite Z.pow_succ_r in E by lia.
    rewrite E in Hn. replace (n' * (2 * 2 ^ (a' - a - 1))) with (2 * (n' * 2 ^ (a' - a - 1))) in Hn by ring.
    rewrite Z.odd_mul in Hn. cbn in Hn. discriminate. }
  destruct (Z.lt_trichotomy a a') as [L|[E|L]].
  - exfalso. exact (Hgen n n' a a' Hn Ha L H).
  - subst a'. split; [|reflexivity].
    assert (HP : 0 < 2 ^ a) by (apply pow2_pos; lia). nia.
  - exfalso. exact (Hgen n' n a' a Hn' Ha' L (eq_sym H)).
Qed.

Lemma fq_common (neg : bool) (m e l : Z) :
  l < 0 -> l <= e -> fq neg m e == (if neg then - (m * 2 ^ (e - l)) else m * 2 ^ (e - l)) # Z.to_pos (2 ^ (- l)).
Proof.
  intros Hl Hle.
  rewrite <- (fq_scale neg m e (e - l)) by lia.
  replace (e - (e - l)) with l by lia. unfold fq.
  destruct (Z.leb_spec 0 l); [lia|]. reflexivity.
Qed.

Lemma fq_eq_inv (neg neg' : bool) (m m' e e' : Z) :
  0 < m -> 0 < m' -> fq neg m e == fq neg' m' e' ->
  neg = neg' /\ forall l, l < 0 -> l <= e -> l <= e' -> m * 2 ^ (e - l) = m' * 2 ^ (e' - l).
Proof.
  intros Hm Hm' H.
  assert (K : forall l, l < 0 -> l <= e -> l <= e' ->
     (if neg then - (m * 2 ^ (e - l)) else m * 2 ^ (e - l)) =
     (if neg' then - (m' * 2 ^ (e' - l)) else m' * 2 ^ (e' - l))).
  { intros l Hl H1 H2. rewrite (fq_common neg m e l Hl H1), (fq_common neg' m' e' l Hl H2) in H.
    unfold Qeq in H. cbn [Qnum Qden] in H.
    assert (0 < Zpos (Z.to_pos (2 ^ (- l)))) by lia. nia. }
  set (l := Z.min (-1) (Z.min e e')).
  assert (Hl : l < 0) by (subst l; lia). assert (H1 : l <= e) by (subst l; lia).
  assert (H2 : l <= e') by (subst l; lia).
  pose proof (K l Hl H1 H2) as K0.
  assert (P1 : 0 < m * 2 ^ (e - l)) by (apply Z.mul_pos_pos; [lia|apply pow2_pos; lia]).
  assert (P2 : 0 < m' * 2 ^ (e' - l)) by (apply Z.mul_pos_pos; [lia|apply pow2_pos; lia]).
  assert (neg = neg'). { destruct neg, neg'; try reflexivity; cbv beta iota in K0; exfalso; lia. } subst neg'.
  split; [reflexivity|]. intros l0 Hl0 A B. specialize (K l0 Hl0 A B). destruct neg; lia.
Qed.

Lemma fencode_ext (f : fmt) (neg neg' : bool) (m m' e e' : Z) :
  0 < m -> 0 < m' -> fq neg m e == fq neg' m' e' -> fencode f neg m e = fencode f neg' m' e'.
Proof.
  intros Hm Hm' H. destruct (fq_eq_inv _ _ _ _ _ _ Hm Hm' H) as [<- K].
  destruct m as [|p|p]; try lia. destruct m' as [|p'|p']; try lia.
  destruct (pos_odd_tz p) as [Hp Ht]. destruct (pos_odd_tz p') as [Hp' Ht'].
  set (l := Z.min (-1) (Z.min e e')).
  assert (Hl : l < 0) by (subst l; lia). assert (H1 : l <= e) by (subst l; lia).
  assert (H2 : l <= e') by (subst l; lia).
  specialize (K l Hl H1 H2). rewrite Hp, Hp' in K.
  rewrite <- !Z.mul_assoc, <- !Z.pow_add_r in K by lia.
  assert (A1 : 0 <= pos_tz p + (e - l)) by lia. assert (A2 : 0 <= pos_tz p' + (e' - l)) by lia.
  destruct (odd_normal_unique _ _ _ _ (pos_odd_odd p) (pos_odd_odd p') A1 A2 K) as [En Ea].
  unfold fencode. injection En as En. rewrite En.
  replace (e' + pos_tz p') with (e + pos_tz p) by lia. reflexivity.
Qed.

Lemma q_dyad_sound (q : Q) (s : bool) (m e : Z) :
  q_dyad q = Some (s, m, e) -> 0 <= m /\ fq s m e == q.
Proof.
  unfold q_dyad. pose proof (Qred_correct q) as Hred. destruct (Qred q) as [n d]. cbn [Qnum Qden].
  destruct (pos_odd_tz d) as [Hd Ht].
  destruct (pos_odd d) eqn:Eo; try discriminate. intro H. inversion H; subst s m e. clear H.
  split; [lia|]. rewrite <- Hred. rewrite Z.mul_1_l in Hd.
  unfold fq.
  replace (if n <? 0 then - Z.abs n else Z.abs n) with n by (destruct (Z.ltb_spec n 0); lia).
  destruct (Z.leb_spec 0 (- pos_tz d)) as [L|L].
  - assert (E : pos_tz d = 0) by lia. rewrite E in *. cbn in Hd. injection Hd as ->.
    cbn. rewrite Z.mul_1_r. reflexivity.
  - rewrite Z.opp_involutive, <- Hd. cbn. reflexivity.
Qed.

Lemma fenc_q_sound (f : fmt) (q : Q) (b : Z) :
  fmt_ok f -> fenc_q f q = Some b ->
  0 <= b < 2 ^ fwidth f /\ exists neg m e, fdecode f b = FFin neg m e /\ 0 <= m /\ fq neg m e == q.
Proof.
  intros Hf H. unfold fenc_q in H. destruct (q_dyad q) as [[[s m] e]|] eqn:D; [|discriminate].
  destruct (q_dyad_sound q s m e D) as [Hm Hq].
  destruct (fencode_sound f s m e b Hf H) as (Hb & m' & e' & Hd & Hm' & Hv).
  split; [exact Hb|]. exists s, m', e'. repeat split; try assumption. rewrite Hv. exact Hq.
Qed.

(* fenc_q on the value of (neg, m, e) agrees with fencode for nonzero m *)
Lemma fenc_q_fq (f : fmt) (neg : bool) (m e : Z) :
  0 < m -> forall b, fenc_q f (fq neg m e) = Some b -> fencode f neg m e = Some b.
Proof.
  intros Hm b H. unfold fenc_q in H. destruct (q_dyad (fq neg m e)) as [[[s m'] e']|] eqn:D; [|discriminate].
  destruct (q_dyad_sound _ s m' e' D) as [Hm' Hq].
  destruct (Z.eq_dec m' 0) as [->|Hnz].
  - exfalso. rewrite fq_zero in Hq.
    destruct (fq_eq_inv neg neg m m e e Hm Hm ltac:(reflexivity)) as [_ K].
    assert (Hz : fq neg m e == 0) by (symmetry; exact Hq).
    set (l := Z.min (-1) e). rewrite (fq_common neg m e l) in Hz by (subst l; lia).
    unfold Qeq in Hz. cbn in Hz.
    assert (0 < m * 2 ^ (e - l)) by (apply Z.mul_pos_pos; [lia|apply pow2_pos; subst l; lia]).
    destruct neg; lia.
  - rewrite <- H. apply fencode_ext; [lia|lia|]. symmetry. exact Hq.
Qed.

(* ------------------------------------------------------------------ *)
(* 6. exact conversions, float -> integer *)
(* ------------------------------------------------------------------ *)
Lemma Qred_identity (n : Z) (d : positive) : Z.gcd n (Zpos d) = 1 -> Qred (n # d) = n # d.
Proof.
  intro G. unfold Qred.
  pose proof (Z.ggcd_gcd n (Zpos d)) as H1. pose proof (Z.ggcd_correct_divisors n (Zpos d)) as H2.
  destruct (Z.ggcd n (Zpos d)) as [g [aa bb]]. cbn [fst snd] in *. rewrite G in H1. subst g.
  destruct H2 as [E1 E2]. rewrite Z.mul_1_l in E1, E2. subst aa bb. reflexivity.
Qed.

Lemma Qred_injZ (z : Z) : Qred (inject_Z z) = inject_Z z.
Proof. apply Qred_identity. apply Z.gcd_1_r. Qed.

Lemma q_integral (q : Q) : Qden (Qred q) = 1%positive ->
  q == inject_Z (Qnum (Qred q)) /\ q_trunc q = Qnum (Qred q).
Proof.
  intro H. pose proof (Qred_correct q) as C. destruct (Qred q) as [n d]. cbn [Qnum Qden] in *. subst d.
  split; [symmetry; exact C|].
  unfold Qeq in C. cbn [Qnum Qden] in C. unfold q_trunc.
  assert (E : Qnum q = n * Zpos (Qden q)) by lia. rewrite E. apply Z.quot_mul. lia.
Qed.

Lemma fenc_q_ext (f : fmt) (p q : Q) : p == q -> fenc_q f p = fenc_q f q.
Proof. intro H. unfold fenc_q, q_dyad. rewrite (Qred_complete p q H). reflexivity. Qed.

Lemma clamp_id (lo hi z : Z) : lo <= z <= hi -> clamp lo hi z = z.
Proof. intro H. unfold clamp. destruct (Z.ltb_spec z lo); [lia|]. destruct (Z.ltb_spec hi z); lia. Qed.

Lemma clamp_range (lo hi z : Z) : lo <= hi -> lo <= clamp lo hi z <= hi.
Proof. intro H. unfold clamp. destruct (Z.ltb_spec z lo); [lia|]. destruct (Z.ltb_spec hi z); lia. Qed.

Lemma lo_le_hi (s : bool) (w : Z) : 0 < w -> lo_of s w <= hi_of s w.
Proof.
  intro Hw. unfold lo_of, hi_of. destruct s.
  - assert (0 < 2 ^ (w - 1)) by (apply pow2_pos; lia). lia.
  - assert (0 < 2 ^ w) by (apply pow2_pos; lia). lia.
Qed.

Lemma in_range_iff (s : bool) (w z : Z) : in_range s w z = true <-> lo_of s w <= z <= hi_of s w.
Proof. unfold in_range. rewrite andb_true_iff, !Z.leb_le. tauto. Qed.

(* truncation toward zero, characterised *)
Lemma q_trunc_spec (q : Q) :
  (0 <= q -> inject_Z (q_trunc q) <= q /\ q < inject_Z (q_trunc q) + 1)%Q /\
  (q <= 0 -> inject_Z (q_trunc q) - 1 < q /\ q <= inject_Z (q_trunc q))%Q.
Proof.
  destruct q as [n d]. unfold q_trunc, Qle, Qlt. cbn [Qnum Qden inject_Z Qplus Qminus Qopp].
  assert (Hd : 0 < Zpos d) by lia.
  pose proof (Z.quot_rem' n (Zpos d)) as E.
  split; intro H; rewrite ?Z.mul_1_r in *.
  - assert (Hn : 0 <= n) by lia.
    pose proof (Z.rem_bound_pos n (Zpos d) Hn Hd). rewrite ?Pos.mul_1_l, ?Pos.mul_1_r. split; nia.
  - assert (Hn : n <= 0) by lia.
    pose proof (Z.rem_bound_pos_neg n (Zpos d) Hd Hn). rewrite ?Pos.mul_1_l, ?Pos.mul_1_r. split; nia.
Qed.

Lemma fwidth_32 : 2 ^ fwidth f32fmt = 2 ^ 32. Proof. reflexivity. Qed.
Lemma fwidth_64 : 2 ^ fwidth f64fmt = 2 ^ 64. Proof. reflexivity. Qed.

Lemma wf_float (k : kind) (b : Z) : is_float k = true -> (wf_val k (VFlt b) = true <-> 0 <= b < 2 ^ fwidth (fmt_of k)).
Proof.
  destruct k; try discriminate; intros _; cbn [wf_val int_sw fmt_of].
  - rewrite fwidth_32, andb_true_iff, Z.leb_le, Z.ltb_lt. tauto.
  - rewrite fwidth_64, andb_true_iff, Z.leb_le, Z.ltb_lt. tauto.
Qed.

Lemma prim_cases (k : kind) : is_prim k = true ->
  (exists s w, int_sw k = Some (s, w)) \/ (is_float k = true /\ int_sw k = None).
Proof. destruct k; cbn; try discriminate; intros _; eauto. Qed.

Lemma wf_int_inv (k : kind) (s : bool) (w : Z) (v : sval) :
  int_sw k = Some (s, w) -> wf_val k v = true -> exists z, v = VInt z /\ in_range s w z = true.
Proof.
  intros Hk H. unfold wf_val in H. rewrite Hk in H. destruct v; try discriminate.
  - eauto.
Qed.

Lemma wf_float_inv (k : kind) (v : sval) :
  is_float k = true -> wf_val k v = true -> exists b, v = VFlt b /\ 0 <= b < 2 ^ fwidth (fmt_of k).
Proof.
  intros Hk H. destruct k; try discriminate; destruct v; try discriminate; exists bits; split; try reflexivity;
  apply (wf_float _ _ Hk); exact H.
Qed.

Lemma repr_int (k : kind) (s : bool) (w : Z) (q : Q) : int_sw k = Some (s, w) ->
  repr k q = (Pos.eqb (Qden (Qred q)) 1 && in_range s w (Qnum (Qred q))).
Proof. intro H. unfold repr. rewrite H. reflexivity. Qed.

Lemma repr_float (k : kind) (q : Q) : is_float k = true ->
  repr k q = match fenc_q (fmt_of k) q with Some _ => true | None => false end.
Proof. destruct k; try discriminate; reflexivity. Qed.

Lemma fq_int (z : Z) : fq (z <? 0) (Z.abs z) 0 = inject_Z (z * 1).
Proof.
  unfold fq. cbn [Z.leb Z.compare]. rewrite Z.pow_0_r. f_equal. destruct (Z.ltb_spec z 0); lia.
Qed.

(* result of an exact conversion: the spec the theorems share *)
Definition exact_result (k2 : kind) (c : cres) (q : Q) : Prop :=
  exists v', c = CVal v' /\ wf_val k2 v' = true /\ exists q', denote k2 v' = Some q' /\ q' == q.

Lemma enc_exact (k2 : kind) (neg : bool) (m e : Z) (q : Q) :
  is_float k2 = true -> 0 <= m -> fq neg m e == q -> repr k2 q = true ->
  exact_result k2 (enc_or_unk (fencode (fmt_of k2) neg m e)) q.
Proof.
  intros Hk Hm Hq Hr. rewrite (repr_float k2 q Hk) in Hr.
  assert (Hs : exists b, fencode (fmt_of k2) neg m e = Some b).
  { destruct (Z.eq_dec m 0) as [->|Hnz]; [cbn; eauto|].
    destruct (fenc_q (fmt_of k2) q) as [b|] eqn:E; [|discriminate]. exists b.
    apply fenc_q_fq; [lia|]. rewrite (fenc_q_ext _ _ _ Hq). exact E. }
  destruct Hs as [b Hb]. rewrite Hb. cbn [enc_or_unk].
  destruct (fencode_sound _ _ _ _ _ (fmt_ok_of k2) Hb) as (Hrange & m' & e' & Hd & Hm' & Hv).
  exists (VFlt b). split; [reflexivity|]. split; [apply (wf_float _ _ Hk); exact Hrange|].
  cbn [denote]. rewrite Hd. eexists; split; [reflexivity|]. rewrite Hv. exact Hq.
Qed.

Theorem as_cast_exact (k1 k2 : kind) (v : sval) (q : Q) :
  is_prim k1 = true -> is_prim k2 = true ->
  wf_val k1 v = true -> denote k1 v = Some q -> repr k2 q = true ->
  exact_result k2 (as_cast k1 k2 v) q.
Proof.
  intros P1 P2 Hwf Hden Hrep. unfold as_cast.
  destruct (kind_eqb k1 k2) eqn:Ek.
  { apply kind_eqb_eq in Ek. subst k2. exists v. split; [reflexivity|]. split; [exact Hwf|].
    exists q. split; [exact Hden|reflexivity]. }
  destruct (prim_cases k1 P1) as [(s1 & w1 & I1)|[F1 I1]].
  - (* integer source *)
    destruct (wf_int_inv _ _ _ _ I1 Hwf) as (z & -> & Hz). cbn [denote] in Hden. injection Hden as <-.
    destruct (prim_cases k2 P2) as [(s2 & w2 & I2)|[F2 I2]]; rewrite I2.
    + rewrite (repr_int _ _ _ _ I2), Qred_injZ in Hrep. cbn [Qnum Qden inject_Z] in Hrep.
      cbn [Pos.eqb andb] in Hrep.
      rewrite (wrap_id _ _ _ (int_sw_pos _ _ _ I2) Hrep).
      exists (VInt z). split; [reflexivity|]. split; [unfold wf_val; rewrite I2; exact Hrep|].
      exists (inject_Z z). split; [reflexivity|reflexivity].
    + rewrite F2. apply enc_exact; try assumption; [lia|].
      rewrite fq_int, Z.mul_1_r. reflexivity.
  - (* float source *)
    destruct (wf_float_inv _ _ F1 Hwf) as (b & -> & Hb). cbn [denote] in Hden.
    destruct (fdecode (fmt_of k1) b) as [| |neg m e] eqn:D; try discriminate. injection Hden as <-.
    pose proof (fdecode_nonneg _ _ _ _ _ (fmt_ok_of k1) D) as Hm.
    destruct (prim_cases k2 P2) as [(s2 & w2 & I2)|[F2 I2]]; rewrite I2.
    + rewrite (repr_int _ _ _ _ I2) in Hrep. apply andb_prop in Hrep as [R1 R2].
      apply Pos.eqb_eq in R1. destruct (q_integral _ R1) as [Q1 Q2].
      unfold f2i. rewrite D. rewrite <- q_trunc_fq by exact Hm. rewrite Q2.
      rewrite clamp_id by (apply in_range_iff; exact R2).
      eexists. split; [reflexivity|]. split; [unfold wf_val; rewrite I2; exact R2|].
      eexists. split; [reflexivity|]. symmetry. exact Q1.
    + rewrite F2. apply enc_exact; try assumption. reflexivity.
Qed.

(* float -> integer: truncation toward zero and clamping, for every bit pattern *)
Theorem float_to_int_trunc_clamp (k1 k2 : kind) (s : bool) (w b : Z) :
  is_float k1 = true -> int_sw k2 = Some (s, w) ->
  as_cast k1 k2 (VFlt b) =
  CVal (VInt (match fdecode (fmt_of k1) b with
              | FNaN => 0
              | FInf neg => if neg then lo_of s w else hi_of s w
              | FFin neg m e => clamp (lo_of s w) (hi_of s w) (q_trunc (fq neg m e))
              end)).
Proof.
  intros F1 I2. unfold as_cast.
  assert (Ek : kind_eqb k1 k2 = false).
  { destruct (kind_eqb k1 k2) eqn:E; [|reflexivity]. apply kind_eqb_eq in E. subst k2.
    destruct k1; discriminate. }
  rewrite Ek, I2. unfold f2i. destruct (fdecode (fmt_of k1) b) as [| |neg m e] eqn:D; try reflexivity.
  rewrite q_trunc_fq; [reflexivity|]. exact (fdecode_nonneg _ _ _ _ _ (fmt_ok_of k1) D).
Qed.

Theorem float_to_int_in_range (k1 k2 : kind) (s : bool) (w b : Z) (z : Z) :
  is_float k1 = true -> int_sw k2 = Some (s, w) ->
  as_cast k1 k2 (VFlt b) = CVal (VInt z) -> in_range s w z = true.
Proof.
  intros F1 I2 H. rewrite (float_to_int_trunc_clamp k1 k2 s w b F1 I2) in H. injection H as <-.
  pose proof (lo_le_hi s w (int_sw_pos _ _ _ I2)) as L. apply in_range_iff.
  destruct (fdecode (fmt_of k1) b) as [| |neg m e].
  - unfold lo_of, hi_of. destruct s.
    + assert (0 < 2 ^ (w - 1)) by (apply pow2_pos; pose proof (int_sw_pos _ _ _ I2); lia). lia.
    + assert (0 < 2 ^ w) by (apply pow2_pos; pose proof (int_sw_pos _ _ _ I2); lia). lia.
  - destruct neg; lia.
  - apply clamp_range. exact L.
Qed.

(* ------------------------------------------------------------------ *)
(* 7. exact conversion of elements and matrices; widening then narrowing *)
(* ------------------------------------------------------------------ *)
Lemma sval_eqb_eq (a b : sval) : sval_eqb a b = true -> a = b.
Proof.
  destruct a, b; cbn; try discriminate; intro H.
  - apply Z.eqb_eq in H. congruence.
  - apply Z.eqb_eq in H. congruence.
  - apply andb_prop in H as [H1 H2]. apply Z.eqb_eq in H1, H2. congruence.
  - apply andb_prop in H as [H1 H2]. apply Z.eqb_eq in H1, H2. congruence.
  - apply Bool.eqb_prop in H. congruence.
  - apply String.eqb_eq in H. congruence.
Qed.

Lemma conv_elem_prim (k1 k2 : kind) (v : sval) :
  is_prim k1 = true -> is_prim k2 = true -> kind_eqb k1 k2 = false -> conv_elem k1 k2 v = as_cast k1 k2 v.
Proof.
  intros P1 P2 E. unfold conv_elem. rewrite E, P1, P2. destruct k2; try discriminate P2; reflexivity.
Qed.

Definition modelled_pair (k1 k2 : kind) : bool :=
  kind_eqb k1 k2 || (is_prim k1 && is_prim k2) || (kind_eqb k1 R64 && kind_eqb k2 F64).

Theorem convert_exact (k1 k2 : kind) (v : sval) (q : Q) :
  modelled_pair k1 k2 = true -> wf_val k1 v = true -> denote k1 v = Some q -> repr k2 q = true ->
  exact_result k2 (conv_elem k1 k2 v) q.
Proof.
  intros M Hwf Hden Hrep. unfold modelled_pair in M.
  destruct (kind_eqb k1 k2) eqn:Ek.
  { unfold conv_elem. rewrite Ek. apply kind_eqb_eq in Ek. subst k2.
    exists v. split; [reflexivity|]. split; [exact Hwf|]. exists q. split; [exact Hden|reflexivity]. }
  cbn [orb] in M. apply orb_prop in M as [M|M].
  - apply andb_prop in M as [P1 P2]. rewrite conv_elem_prim by assumption.
    apply as_cast_exact; assumption.
  - apply andb_prop in M as [E1 E2]. apply kind_eqb_eq in E1, E2. subst k1 k2.
    unfold conv_elem. cbn [kind_eqb kind_ix Nat.eqb is_prim is_int is_float int_sw orb andb].
    rewrite Hden. rewrite (repr_float F64 q eq_refl) in Hrep. cbn [fmt_of] in Hrep.
    destruct (fenc_q f64fmt q) as [b|] eqn:E; [|discriminate]. cbn [enc_or_unk].
    destruct (fenc_q_sound f64fmt q b (fmt_ok_of F64) E) as (Hb & neg & m & e & Hd & Hm & Hv).
    exists (VFlt b). split; [reflexivity|]. split; [apply (wf_float F64 b eq_refl); exact Hb|].
    cbn [denote fmt_of]. rewrite Hd. eexists. split; [reflexivity|exact Hv].
Qed.

(* widening and narrowing back *)
Theorem widen_narrow (k1 k2 : kind) (v v' : sval) (q : Q) :
  is_prim k1 = true -> is_prim k2 = true -> wf_val k1 v = true -> denote k1 v = Some q ->
  repr k2 q = true -> repr k1 q = true -> conv_elem k1 k2 v = CVal v' ->
  exact_result k1 (conv_elem k2 k1 v') q.
Proof.
  intros P1 P2 Hwf Hden R2 R1 Hc.
  assert (M : modelled_pair k1 k2 = true) by (unfold modelled_pair; rewrite P1, P2; cbn [andb]; rewrite orb_true_r; reflexivity).
  destruct (convert_exact k1 k2 v q M Hwf Hden R2) as (v0 & E0 & Hwf0 & q0 & D0 & Q0).
  rewrite Hc in E0. injection E0 as <-.
  assert (M' : modelled_pair k2 k1 = true) by (unfold modelled_pair; rewrite P1, P2; cbn [andb]; rewrite orb_true_r; reflexivity).
  assert (R1' : repr k1 q0 = true).
  { unfold repr in *. rewrite (Qred_complete q0 q Q0). unfold fenc_q, q_dyad in *. rewrite (Qred_complete q0 q Q0). exact R1. }
  destruct (convert_exact k2 k1 v' q0 M' Hwf0 D0 R1') as (v1 & E1 & Hwf1 & q1 & D1 & Q1).
  exists v1. split; [exact E1|]. split; [exact Hwf1|]. exists q1. split; [exact D1|]. rewrite Q1. exact Q0.
Qed.

Lemma repr_own_int (k : kind) (s : bool) (w z : Z) :
  int_sw k = Some (s, w) -> in_range s w z = true -> repr k (inject_Z z) = true.
Proof. intros I H. rewrite (repr_int _ _ _ _ I), Qred_injZ. cbn. exact H. Qed.

(* for an integer kind the round trip returns the very same value *)
Theorem widen_narrow_int (k1 k2 : kind) (s : bool) (w z : Z) (v' : sval) :
  int_sw k1 = Some (s, w) -> is_prim k2 = true -> in_range s w z = true ->
  repr k2 (inject_Z z) = true -> conv_elem k1 k2 (VInt z) = CVal v' ->
  conv_elem k2 k1 v' = CVal (VInt z).
Proof.
  intros I1 P2 Hz R2 Hc.
  assert (P1 : is_prim k1 = true) by (unfold is_prim, is_int; rewrite I1; reflexivity).
  assert (Hwf : wf_val k1 (VInt z) = true) by (unfold wf_val; rewrite I1; exact Hz).
  destruct (widen_narrow k1 k2 (VInt z) v' (inject_Z z) P1 P2 Hwf eq_refl R2 (repr_own_int _ _ _ _ I1 Hz) Hc)
    as (v1 & E1 & Hwf1 & q1 & D1 & Q1).
  rewrite E1. destruct (wf_int_inv _ _ _ _ I1 Hwf1) as (z1 & -> & _). cbn in D1. injection D1 as <-.
  unfold Qeq in Q1. cbn in Q1. do 2 f_equal. lia.
Qed.

(* ---- matrices ---- *)
Lemma map_opt_nth {A B} (f : A -> option B) (l : list A) (l' : list B) :
  map_opt f l = Some l' ->
  List.length l' = List.length l /\
  forall k a, nth_error l k = Some a -> exists b, nth_error l' k = Some b /\ f a = Some b.
Proof.
  revert l'. induction l as [|x l IH]; intros l' H; cbn in H.
  - injection H as <-. split; [reflexivity|]. intros [|k] a Hk; discriminate.
  - destruct (f x) as [y|] eqn:Fx; [|discriminate]. destruct (map_opt f l) as [ys|] eqn:M; [|discriminate].
    injection H as <-. destruct (IH ys eq_refl) as [L N]. split; [cbn; lia|].
    intros [|k] a Hk; cbn in *.
    + injection Hk as <-. eauto.
    + apply N. exact Hk.
Qed.

Theorem convert_mat_shape_elem (k1 k2 : kind) (dims : option (nat * nat)) (m m' : mat sval) :
  wf_mat m -> conv_mat_impl k1 k2 dims m = Some m' ->
  (mrows m', mcols m') = target_shape m dims /\ wf_mat m' /\ msize m' = msize m /\
  forall k, (k < msize m)%nat ->
    exists v v', mlin m k = Some v /\ mlin m' k = Some v' /\ conv_elem k1 k2 v = CVal v'.
Proof.
  intros Hwf H. unfold conv_mat_impl in H. destruct (target_shape m dims) as [r c] eqn:T.
  destruct (Nat.eqb_spec (r * c) (msize m)) as [E|E]; [|discriminate]. cbn [negb] in H.
  destruct (impl_supported FMat _ k1 k2); [|discriminate].
  destruct (map_opt _ (mdata m)) as [d|] eqn:M; [|discriminate]. injection H as <-.
  destruct (map_opt_nth _ _ _ M) as [L N]. cbn [mrows mcols mdata].
  assert (Hwf' : wf_mat (Mat r c d)) by (unfold wf_mat in *; cbn; unfold msize in E; lia).
  assert (Hs : msize (Mat r c d) = msize m) by (unfold msize at 1; cbn; exact E).
  repeat split; try assumption.
  intros k Hk. rewrite (mlin_nth m k Hwf Hk).
  rewrite (mlin_nth (Mat r c d) k Hwf') by (rewrite Hs; exact Hk). cbn [mdata].
  destruct (nth_error (mdata m) k) as [v|] eqn:Nv.
  - destruct (N k v Nv) as (b & Nb & Fb). exists v, b. repeat split; [exact Nb|].
    destruct (conv_elem k1 k2 v); try discriminate. cbn in Fb. congruence.
  - exfalso. apply nth_error_None in Nv. unfold wf_mat, msize in *. lia.
Qed.

Theorem convert_mat_count_err (k1 k2 : kind) (r c : nat) (m : mat sval) :
  (r * c)%nat <> msize m -> conv_mat_impl k1 k2 (Some (r, c)) m = None.
Proof.
  intro H. unfold conv_mat_impl, target_shape. destruct (Nat.eqb_spec (r * c) (msize m)); [contradiction|reflexivity].
Qed.

(* ------------------------------------------------------------------ *)
(* 8. the judge is sound for the property predicates *)
(* ------------------------------------------------------------------ *)
(* ---- what an observation must satisfy (declarative side of the judge) ---- *)
Definition meets (k2 : kind) (d : demand) (v' : sval) : Prop :=
  wf_val k2 v' = true /\
  match d with
  | DSame v => v' = v
  | DExact q => exists q', denote k2 v' = Some q' /\ q' == q
  | DInf neg => exists b, v' = VFlt b /\ fdecode (fmt_of k2) b = FInf neg
  | DErr | DFree _ => False
  end.

Lemma val_meets_sound (k2 : kind) (d : demand) (v' : sval) : val_meets k2 d v' = true -> meets k2 d v'.
Proof.
  unfold val_meets, meets. intro H. apply andb_prop in H as [Hwf H]. split; [exact Hwf|].
  destruct d as [v|q|neg| |w]; try discriminate.
  - apply sval_eqb_eq. exact H.
  - destruct (denote k2 v') as [q'|]; [|discriminate]. exists q'. split; [reflexivity|].
    apply Qeq_bool_iff. exact H.
  - destruct v' as [|b| | | |]; try discriminate. destruct (fdecode (fmt_of k2) b) as [|n|] eqn:D; try discriminate.
    apply Bool.eqb_prop in H. subst n. exists b. split; [reflexivity|exact D].
Qed.

(* scalar / reference / option annotation of the value v : k1 with kind k2, observed o *)
Definition value_spec (k1 : kind) (v : sval) (k2 : kind) (o : obs) : Prop :=
  match demand_of k1 v k2 with
  | DFree _ => True
  | DErr => o = OErr
  | d => exists e v', o = OVal (KS (kind_name k2) e) /\ decode_payload k2 e = Some v' /\ meets k2 d v'
  end.

Lemma ok_not_adv (t w : string) : v_ok t = v_adv w -> False. Proof. discriminate. Qed.
Lemma ok_not_kf (t w : string) : v_ok t = v_kf w -> False. Proof. discriminate. Qed.
Lemma ok_not_bad (t w : string) (x : sx) : v_ok t = v_bad w x -> False. Proof. discriminate. Qed.

Ltac no_ok :=
  match goal with
  | H : v_adv _ = v_ok _ |- _ => discriminate H
  | H : v_kf _ = v_ok _ |- _ => discriminate H
  | H : v_bad _ _ = v_ok _ |- _ => discriminate H
  | H : v_malformed = v_ok _ |- _ => discriminate H
  end.

Theorem judge_value_sound (kfa : kfa_t) (fm : form) (hd : bool) (k1 : kind) (v : sval) (k2 : kind) (o : obs) (tag : string) :
  judge_value kfa fm hd k1 v k2 o = v_ok tag -> value_spec k1 v k2 o.
Proof.
  unfold judge_value, value_spec. intro H.
  assert (G : forall d, is_value_demand d = true ->
     match o with
     | OVal (KS kn e) =>
         if (kn =? kind_name k2)%string
         then match decode_payload k2 e with
              | Some v' => if val_meets k2 d v' then v_ok (match d with DSame _ => "same" | DInf _ => "infinity" | _ =>
                          if is_float k1 && is_int k2 then "trunc-clamp" else "exact" end)
                           else if kfa k1 v k2 v' then v_kf "float-r64-approx" else v_bad "wrong-value" (demand_sx d)
              | None => v_bad "unreadable-value" (demand_sx d)
              end
         else v_bad "wrong-kind" (demand_sx d)
     | OVal (KM _ _) => v_bad "unexpected-observation" (demand_sx d)
     | OErr => match kf_missing fm hd k1 k2 with Some id => v_kf id | None => v_bad "unexpected-error" (demand_sx d) end
     | _ => v_bad "unexpected-observation" (demand_sx d)
     end = v_ok tag ->
     exists e v', o = OVal (KS (kind_name k2) e) /\ decode_payload k2 e = Some v' /\ meets k2 d v').
  { intros d _ Hd. destruct o as [[kn e|kn m]| | | |x]; try no_ok.
    - destruct (String.eqb_spec kn (kind_name k2)) as [->|]; [|no_ok].
      destruct (decode_payload k2 e) as [v'|] eqn:De; [|no_ok].
      destruct (val_meets k2 d v') eqn:Vm.
      + exists e, v'. split; [reflexivity|]. split; [exact De|]. apply val_meets_sound. exact Vm.
      + destruct (kfa k1 v k2 v'); no_ok.
    - destruct (kf_missing fm hd k1 k2); no_ok. }
  destruct (demand_of k1 v k2) as [v0|q|neg| |w].
  - apply (G (DSame v0) eq_refl). exact H.
  - apply (G (DExact q) eq_refl). exact H.
  - apply (G (DInf neg) eq_refl). exact H.
  - destruct o as [[kn e|kn m]| | | |x]; try no_ok. reflexivity.
  - exact I.
Qed.

(* matrix annotation *)
Definition has_err (ds : list demand) : bool := existsb (fun d => match d with DErr => true | _ => false end) ds.

Definition mat_spec (k1 : kind) (m : mat sx) (vs : list sval) (k2 : kind) (dims : option (nat * nat)) (o : obs) : Prop :=
  let '(r, c) := target_shape m dims in
  if negb (Nat.eqb (r * c) (msize m)) then o = OErr
  else if has_err (map (fun v => demand_of k1 v k2) vs) then o = OErr
  else exists m', o = OVal (KM (kind_name k2) m') /\ mrows m' = r /\ mcols m' = c /\
       Forall2 (fun v e => exists v', decode_payload k2 e = Some v' /\ meets k2 (demand_of k1 v k2) v') vs (mdata m').

Lemma elems_all_ok (kfa : kfa_t) (k1 k2 : kind) (vs : list sval) (es : list sx) (evs : list everdict) :
  elems_verdicts kfa k1 k2 vs es = Some evs ->
  existsb (ev_is EBad) evs = false -> existsb (ev_is EApprox) evs = false -> existsb (ev_is EFree) evs = false ->
  Forall2 (fun v e => exists v', decode_payload k2 e = Some v' /\ meets k2 (demand_of k1 v k2) v') vs es.
Proof.
  revert es evs. induction vs as [|v vs IH]; intros [|e es] evs H B A F; cbn in H; try discriminate.
  - constructor.
  - destruct (elems_verdicts kfa k1 k2 vs es) as [r|] eqn:R; [|discriminate]. injection H as <-.
    cbn [existsb] in B, A, F. apply orb_false_elim in B as [B1 B2]. apply orb_false_elim in A as [A1 A2].
    apply orb_false_elim in F as [F1 F2]. constructor; [|exact (IH es r R B2 A2 F2)].
    unfold elem_verdict in *.
    destruct (demand_of k1 v k2) as [v0|q|neg| |w] eqn:D; try discriminate;
      (destruct (decode_payload k2 e) as [v'|]; [|discriminate];
       destruct (val_meets k2 _ v') eqn:Vm;
       [exists v'; split; [reflexivity|apply val_meets_sound; exact Vm]
       |destruct (kfa k1 v k2 v'); discriminate]).
Qed.

Theorem judge_mat_sound (kfa : kfa_t) (k1 : kind) (m : mat sx) (vs : list sval) (k2 : kind) (dims : option (nat * nat))
        (o : obs) (tag : string) :
  map_opt (decode_payload k1) (mdata m) = Some vs ->
  judge_mat kfa k1 m k2 dims o = v_ok tag -> mat_spec k1 m vs k2 dims o.
Proof.
  intros Hvs H. unfold judge_mat in H. rewrite Hvs in H. unfold mat_spec.
  destruct (negb (wf_matb m && forallb (wf_val k1) vs)); [no_ok|].
  destruct (target_shape m dims) as [r c].
  destruct (negb (Nat.eqb (r * c) (msize m))).
  { destruct o as [[kn e|kn m']| | | |x]; try no_ok. reflexivity. }
  unfold has_err.
  destruct (existsb _ (map (fun v => demand_of k1 v k2) vs)).
  { destruct o as [[kn e|kn m']| | | |x]; try no_ok; [|reflexivity].
    destruct (_ && _); no_ok. }
  destruct o as [[kn e|kn m']| | | |x]; try (destruct (existsb is_value_demand _); no_ok).
  - destruct (String.eqb_spec kn (kind_name k2)) as [->|]; cbn [negb] in H;
      [|destruct (existsb is_value_demand _); no_ok].
    destruct (Nat.eqb_spec (mrows m') r) as [Er|]; cbn [andb negb] in H; [|no_ok].
    destruct (Nat.eqb_spec (mcols m') c) as [Ec|]; cbn [negb] in H; [|no_ok].
    destruct (elems_verdicts kfa k1 k2 vs (mdata m')) as [evs|] eqn:EV; [|no_ok].
    destruct (existsb (ev_is EBad) evs) eqn:B; [no_ok|].
    destruct (existsb (ev_is EApprox) evs) eqn:A; [no_ok|].
    destruct (existsb (ev_is EFree) evs) eqn:F; [no_ok|].
    exists m'. repeat split; try assumption. exact (elems_all_ok _ _ _ _ _ _ EV B A F).
  - destruct (existsb (fun d => negb (is_value_demand d)) _); [no_ok|].
    destruct (existsb is_value_demand _); [|no_ok]. destruct (kf_missing FMat _ k1 k2); no_ok.
Qed.

(* ------------------------------------------------------------------ *)
(* 9. matrix -> set judge *)
(* ------------------------------------------------------------------ *)
(* matrix -> set: kind, count, pairwise distinct elements, exactly the converted source elements *)
Definition set_spec (k1 : kind) (vs : list sval) (k2 : kind) (o2 : sx) : Prop :=
  if has_err (map (fun v => demand_of k1 v k2) vs) then decode_obs o2 = OErr
  else exists n es ws,
    decode_set o2 = Some (kind_name k2, n, es) /\ map_opt (set_elem_payload k2) es = Some ws /\
    n = Z.of_nat (List.length ws) /\ nodupb (same_elem k2) ws = true /\
    (forall v, In v vs -> exists w, In w ws /\ meets k2 (demand_of k1 v k2) w) /\
    (forall w, In w ws -> exists v, In v vs /\ meets k2 (demand_of k1 v k2) w).

Lemma nodupb_spec {A} (eqb : A -> A -> bool) (l : list A) :
  nodupb eqb l = true ->
  forall i j a b, (i < j)%nat -> nth_error l i = Some a -> nth_error l j = Some b -> eqb a b = false.
Proof.
  induction l as [|x l IH]; intros H i j a b Hij Hi Hj; [destruct i; discriminate|].
  cbn in H. apply andb_prop in H as [H1 H2]. apply negb_true_iff in H1.
  destruct j as [|j]; [lia|]. cbn in Hj. destruct i as [|i].
  - cbn in Hi. injection Hi as <-.
    destruct (eqb x b) eqn:E; [|reflexivity].
    assert (existsb (eqb x) l = true); [|congruence].
    apply existsb_exists. exists b. split; [eapply nth_error_In; exact Hj|exact E].
  - cbn in Hi. apply (IH H2 i j); [lia|exact Hi|exact Hj].
Qed.

Theorem judge_set_sound (k1 : kind) (m : mat sx) (vs : list sval) (k2 : kind) (o2 : sx) (tag : string) :
  map_opt (decode_payload k1) (mdata m) = Some vs ->
  judge_set k1 m k2 o2 = v_ok tag -> set_spec k1 vs k2 o2.
Proof.
  intros Hvs H. unfold judge_set in H. rewrite Hvs in H. unfold set_spec, has_err.
  destruct (negb (wf_matb m && forallb (wf_val k1) vs)); [no_ok|].
  destruct (existsb (set_awkward k1) vs); [no_ok|].
  destruct (existsb _ (map (fun v => demand_of k1 v k2) vs)).
  { destruct (decode_obs o2) as [[kn e|kn m']| | | |x]; try no_ok. reflexivity. }
  destruct (forallb is_value_demand _); cbn [negb] in H; [|no_ok].
  assert (H' : match decode_set o2 with
    | Some (kn, n, es) =>
        match map_opt (set_elem_payload k2) es with
        | Some ws =>
            if negb (kn =? kind_name k2)%string then v_bad "wrong-kind" (Ax (kind_name k2))
            else if negb (n =? Z.of_nat (List.length ws)) then v_bad "wrong-count" (Zx n)
            else if negb (nodupb (same_elem k2) ws) then v_bad "duplicate-element" (Lx (map demand_sx (map (fun v => demand_of k1 v k2) vs)))
            else if negb (forallb (fun d => existsb (val_meets k2 d) ws) (map (fun v => demand_of k1 v k2) vs))
                 then v_bad "missing-element" (Lx (map demand_sx (map (fun v => demand_of k1 v k2) vs)))
            else if negb (forallb (fun w => existsb (fun d => val_meets k2 d w) (map (fun v => demand_of k1 v k2) vs)) ws)
                 then v_bad "extra-element" (Lx (map demand_sx (map (fun v => demand_of k1 v k2) vs)))
            else v_ok "set"
        | None => v_bad "wrong-element-kind" (Ax (kind_name k2))
        end
    | None => v_bad "not-a-set" (Lx (map demand_sx (map (fun v => demand_of k1 v k2) vs)))
    end = v_ok tag).
  { destruct (decode_obs o2) as [[kn e|kn m']| | | |x]; try exact H. destruct (kf_missing FSet false k1 k2); no_ok. }
  clear H. destruct (decode_set o2) as [[[kn n] es]|]; [|no_ok].
  destruct (map_opt (set_elem_payload k2) es) as [ws|] eqn:W; [|no_ok].
  destruct (String.eqb_spec kn (kind_name k2)) as [->|]; cbn [negb] in H'; [|no_ok].
  destruct (Z.eqb_spec n (Z.of_nat (List.length ws))) as [->|]; cbn [negb] in H'; [|no_ok].
  destruct (nodupb (same_elem k2) ws) eqn:ND; cbn [negb] in H'; [|no_ok].
  destruct (forallb (fun d => existsb (val_meets k2 d) ws) _) eqn:F1; cbn [negb] in H'; [|no_ok].
  destruct (forallb (fun w => existsb _ _) ws) eqn:F2; cbn [negb] in H'; [|no_ok].
  exists (Z.of_nat (List.length ws)), es, ws. repeat split; try reflexivity; try assumption.
  - intros v Hv. rewrite forallb_forall in F1.
    specialize (F1 (demand_of k1 v k2) (in_map _ _ _ Hv)). apply existsb_exists in F1 as (w & Hw & Mw).
    exists w. split; [exact Hw|apply val_meets_sound; exact Mw].
  - intros w Hw. rewrite forallb_forall in F2. specialize (F2 w Hw).
    apply existsb_exists in F2 as (d & Hd & Mw). apply in_map_iff in Hd as (v & <- & Hv).
    exists v. split; [exact Hv|apply val_meets_sound; exact Mw].
Qed.

(* ------------------------------------------------------------------ *)
(* 10. the model of the implementation meets the property outside the known-finding classes *)
(* ------------------------------------------------------------------ *)
(* the model of the implementation meets a demand *)
Definition sat (k2 : kind) (d : demand) (c : cres) : Prop :=
  match d with
  | DFree _ => True
  | DErr => c = CErr
  | _ => exists v', c = CVal v' /\ meets k2 d v'
  end.

(* the union of the known-finding classes, as a predicate on form and kind pair *)
Definition in_known_finding (fm : form) (hd : bool) (k1 k2 : kind) : bool :=
  (match kf_missing fm hd k1 k2 with Some _ => true | None => false end)
  || (is_float k1 && kind_eqb k2 R64)
  || (match fm with FMat => kind_eqb k1 KBool && is_numeric k2 | _ => false end).

Lemma holds_same_supported (fm : form) (hd : bool) (k : kind) :
  in_known_finding fm hd k k = false -> impl_supported fm hd k k = true.
Proof. destruct fm, hd, k; cbn; intro H; try discriminate; reflexivity. Qed.

Lemma holds_numeric_supported (fm : form) (hd : bool) (k1 k2 : kind) :
  in_known_finding fm hd k1 k2 = false -> kind_eqb k1 k2 = false -> is_numeric k1 && is_numeric k2 = true ->
  impl_supported fm hd k1 k2 = true /\
  ((is_prim k1 = true /\ is_prim k2 = true) \/ (k1 = R64 /\ k2 = F64)).
Proof.
  destruct fm, hd, k1, k2; cbn; intros H E N; try discriminate; (split; [reflexivity|]); auto.
Qed.

Lemma holds_nonnumeric_unsupported (fm : form) (hd : bool) (k1 k2 : kind) :
  in_known_finding fm hd k1 k2 = false -> kind_eqb k1 k2 = false -> is_numeric k1 && is_numeric k2 = false ->
  match k2 with KStr => True | _ => impl_supported fm hd k1 k2 = false end.
Proof. destruct fm, hd, k1, k2; cbn; intros H E N; try discriminate; try reflexivity; exact I. Qed.

Lemma inf_bits_ok (f : fmt) (neg : bool) : fmt_ok f ->
  0 <= inf_bits f neg < 2 ^ fwidth f /\ fdecode f (inf_bits f neg) = FInf neg.
Proof.
  intros Hf. pose proof Hf as [Hm He]. destruct (bias_facts f Hf) as [Hb1 Hb2].
  destruct (sign_bit neg) as [Hc Hodd]. set (c := if neg then 1 else 0) in *.
  assert (HP : 0 < 2 ^ mb f) by (apply pow2_pos; lia).
  assert (HM : 0 <= 0 < 2 ^ mb f) by lia.
  assert (HE : 0 <= 2 ^ eb f - 1 < 2 ^ eb f) by lia.
  unfold inf_bits.
  replace ((if neg then 2 ^ (mb f + eb f) else 0) + (2 ^ eb f - 1) * 2 ^ mb f)
    with (c * 2 ^ (mb f + eb f) + (2 ^ eb f - 1) * 2 ^ mb f + 0) by (subst c; destruct neg; ring).
  split.
  - exact (proj2 (proj2 (proj2 (fields f c _ 0 Hf HM HE Hc)))).
  - rewrite (fdecode_fields f c _ 0 Hf HM HE Hc). rewrite Z.eqb_refl. cbn [Z.eqb]. rewrite Hodd. reflexivity.
Qed.

Lemma is_int_sw (k : kind) : is_int k = true -> exists s w, int_sw k = Some (s, w).
Proof. unfold is_int. destruct (int_sw k) as [[s w]|]; [eauto|discriminate]. Qed.

Lemma exact_sat (k2 : kind) (c : cres) (q : Q) : exact_result k2 c q -> sat k2 (DExact q) c.
Proof. intros (v' & E & Hwf & Hq). exists v'. split; [exact E|]. split; [exact Hwf|exact Hq]. Qed.

Theorem holds (fm : form) (hd : bool) (k1 k2 : kind) (v : sval) :
  wf_val k1 v = true -> in_known_finding fm hd k1 k2 = false ->
  sat k2 (demand_of k1 v k2) (conv_impl fm hd k1 k2 v).
Proof.
  intros Hwf NK. unfold demand_of, conv_impl.
  destruct (kind_eqb k1 k2) eqn:E.
  { apply kind_eqb_eq in E. subst k2. rewrite (holds_same_supported _ _ _ NK).
    unfold conv_elem. rewrite kind_eqb_refl. exists v. split; [reflexivity|]. split; [exact Hwf|reflexivity]. }
  destruct (is_numeric k1 && is_numeric k2) eqn:N.
  - destruct (holds_numeric_supported _ _ _ _ NK E N) as [S [[P1 P2]|[-> ->]]]; rewrite S.
    + rewrite (conv_elem_prim _ _ _ P1 P2 E).
      destruct (denote k1 v) as [q|] eqn:D.
      * destruct (is_float k1 && is_int k2) eqn:FI.
        -- apply andb_prop in FI as [F1 I2]. destruct (is_int_sw _ I2) as (s & w & I2').
           destruct (wf_float_inv _ _ F1 Hwf) as (b & -> & Hb).
           rewrite (float_to_int_trunc_clamp k1 k2 s w b F1 I2').
           cbn [denote] in D. destruct (fdecode (fmt_of k1) b) as [| |neg m e]; try discriminate.
           injection D as <-. unfold clampk. rewrite I2'.
           eexists. split; [reflexivity|]. split.
           ++ unfold wf_val. rewrite I2'. apply in_range_iff, clamp_range, lo_le_hi.
              exact (int_sw_pos _ _ _ I2').
           ++ eexists. split; [reflexivity|reflexivity].
        -- destruct (repr k2 q) eqn:R; [|exact I].
           apply exact_sat. apply as_cast_exact; assumption.
      * (* NaN and infinities *)
        destruct (prim_cases k1 P1) as [(s1 & w1 & I1)|[F1 I1]].
        { destruct (wf_int_inv _ _ _ _ I1 Hwf) as (z & -> & _). discriminate D. }
        destruct (wf_float_inv _ _ F1 Hwf) as (b & -> & Hb).
        unfold float_special. rewrite F1. cbn [denote] in D.
        destruct (fdecode (fmt_of k1) b) as [|neg|neg m e] eqn:Dc; try discriminate; [exact I|].
        destruct (prim_cases k2 P2) as [(s2 & w2 & I2)|[F2 I2]]; rewrite I2.
        -- rewrite (float_to_int_trunc_clamp k1 k2 s2 w2 b F1 I2), Dc.
           eexists. split; [reflexivity|]. split.
           ++ unfold wf_val. rewrite I2. apply in_range_iff.
              pose proof (lo_le_hi s2 w2 (int_sw_pos _ _ _ I2)). destruct neg; lia.
           ++ eexists. split; [reflexivity|reflexivity].
        -- rewrite F2. unfold as_cast. rewrite E, I2, F2, Dc.
           destruct (inf_bits_ok (fmt_of k2) neg (fmt_ok_of k2)) as [Hr Hd].
           eexists. split; [reflexivity|]. split; [apply (wf_float _ _ F2); exact Hr|].
           eexists. split; [reflexivity|exact Hd].
    + (* r64 -> f64 *)
      destruct (denote R64 v) as [q|] eqn:D.
      * cbn [is_float is_int int_sw andb]. destruct (repr F64 q) eqn:R; [|exact I].
        apply exact_sat. apply convert_exact; try assumption; reflexivity.
      * destruct v; cbn; exact I.
  - pose proof (holds_nonnumeric_unsupported _ _ _ _ NK E N) as U.
    destruct k2; try exact I; rewrite U; reflexivity.
Qed.

(* ---- the known-finding classes are inhabited: the model of the implementation misses the demand ---- *)
Theorem refuted_rc_identity :
  exists v, wf_val R64 v = true /\ demand_of R64 v R64 = DSame v /\ conv_impl FScalar false R64 R64 v = CErr.
Proof. exists (VRat 1 2). repeat split. Qed.

Theorem refuted_rc_cross :
  exists v, wf_val I64 v = true /\ demand_of I64 v R64 = DExact (inject_Z 5) /\ conv_impl FScalar false I64 R64 v = CErr.
Proof. exists (VInt 5). repeat split. Qed.

Theorem refuted_gate_narrowing :
  exists v, wf_val U16 v = true /\ demand_of U16 v U8 = DExact (inject_Z 5) /\
            conv_impl FScalar false U16 U8 v = CVal v /\ conv_impl FOpt false U16 U8 v = CErr.
Proof. exists (VInt 5). repeat split. Qed.

Theorem refuted_bool_matrix :
  demand_of KBool (VBool true) U8 = DErr /\ conv_impl FScalar false KBool U8 (VBool true) = CErr /\
  conv_impl FMat false KBool U8 (VBool true) = CVal (VInt 1).
Proof. repeat split. Qed.

(* ------------------------------------------------------------------ *)
(* 11. completeness of the float encoder; a value is representable in its own kind *)
(* ------------------------------------------------------------------ *)
(* ---- completeness of the encoder: every finite float is re-encoded ---- *)
Lemma fdecode_cases (f : fmt) (b : Z) (neg : bool) (m e : Z) :
  fmt_ok f -> fdecode f b = FFin neg m e ->
  (0 <= m < 2 ^ mb f /\ e = emin f) \/
  (2 ^ mb f <= m < 2 * 2 ^ mb f /\ emin f <= e /\ e <= bias f - mb f).
Proof.
  intros Hf H. pose proof Hf as [Hm He]. destruct (bias_facts f Hf) as [Hb1 Hb2].
  unfold fdecode in H.
  assert (HP : 0 < 2 ^ mb f) by (apply pow2_pos; lia).
  assert (HR : 0 < 2 ^ eb f) by (apply pow2_pos; lia).
  pose proof (Z.mod_pos_bound b (2 ^ mb f) HP) as HM.
  pose proof (Z.mod_pos_bound (b / 2 ^ mb f) (2 ^ eb f) HR) as HE.
  destruct (Z.eqb_spec ((b / 2 ^ mb f) mod 2 ^ eb f) (2 ^ eb f - 1)) as [E1|E1];
    [destruct (_ =? 0); discriminate|].
  destruct (Z.eqb_spec ((b / 2 ^ mb f) mod 2 ^ eb f) 0) as [E0|E0]; inversion H; subst.
  - left. split; [exact HM|reflexivity].
  - right. unfold emin. lia.
Qed.

Lemma fencode_decoded (f : fmt) (b : Z) (neg : bool) (m e : Z) :
  fmt_ok f -> fdecode f b = FFin neg m e -> exists b', fencode f neg m e = Some b'.
Proof.
  intros Hf H. pose proof Hf as [Hm He]. destruct (bias_facts f Hf) as [Hb1 Hb2].
  pose proof (fdecode_cases f b neg m e Hf H) as C.
  destruct m as [|p|p]; [cbn; eauto| |destruct C as [[C _]|[C _]]; lia].
  unfold fencode. destruct (pos_odd_tz p) as [Hp Ht].
  remember (Zpos (pos_odd p)) as n eqn:Hn. set (t := pos_tz p) in *.
  assert (Hn0 : 0 < n) by (rewrite Hn; lia).
  assert (HL : Z.log2 (Zpos p) = t + Z.log2 n) by (rewrite Hp; apply Z.log2_mul_pow2; lia).
  pose proof (Z.log2_nonneg n) as Hln.
  assert (G : (Z.log2 n + 1 <=? mb f + 1) && (emin f <=? e + t) && (Z.log2 n + 1 + (e + t) <=? bias f + 1) = true).
  { destruct C as [[[C1 C2] ->]|[[C1 C2] [C3 C4]]].
    - assert (Z.log2 (Zpos p) < mb f) by (apply Z.log2_lt_pow2; lia).
      unfold emin in *. rewrite !andb_true_iff, !Z.leb_le. lia.
    - assert (Z.log2 (Zpos p) = mb f).
      { apply Z.log2_unique; [lia|]. rewrite Z.pow_succ_r by lia. lia. }
      rewrite !andb_true_iff, !Z.leb_le. lia. }
  rewrite G. destruct (2 - bias f <=? Z.log2 n + 1 + (e + t)); eauto.
Qed.

Lemma pos_odd_pow2 (k : Z) : 0 <= k ->
  pos_odd (Z.to_pos (2 ^ k)) = 1%positive /\ pos_tz (Z.to_pos (2 ^ k)) = k.
Proof.
  intro Hk. pattern k. apply natlike_ind; [split; reflexivity| |exact Hk].
  intros x Hx [IH1 IH2]. rewrite Z.pow_succ_r by exact Hx.
  assert (HP : 0 < 2 ^ x) by (apply pow2_pos; lia).
  destruct (2 ^ x) as [|p|p] eqn:E; try lia.
  cbn [Z.mul Pos.mul Z.to_pos pos_odd pos_tz] in *. split; [exact IH1|lia].
Qed.

Lemma odd_gcd_pow2 (n k : Z) : Z.odd n = true -> 0 <= k -> Z.gcd n (2 ^ k) = 1.
Proof.
  intros Ho Hk. apply Zgcd_1_rel_prime. apply rel_prime_Zpower_r; [exact Hk|].
  apply rel_prime_sym. apply prime_rel_prime; [exact prime_2|].
  intros [c Hc]. rewrite Hc, Z.odd_mul in Ho. cbn in Ho. rewrite andb_false_r in Ho. discriminate.
Qed.

Lemma q_dyad_fq (neg : bool) (m e : Z) : 0 < m ->
  exists s' m' e', q_dyad (fq neg m e) = Some (s', m', e').
Proof.
  intro Hm. destruct m as [|p|p]; try lia. destruct (pos_odd_tz p) as [Hp Ht].
  remember (Zpos (pos_odd p)) as n eqn:Hn. set (t := pos_tz p) in *.
  assert (Ho : Z.odd n = true) by (rewrite Hn; apply pos_odd_odd).
  assert (Hv : fq neg (Zpos p) e == fq neg n (e + t)).
  { rewrite Hp. replace e with ((e + t) - t) at 1 by lia. apply fq_scale. exact Ht. }
  unfold q_dyad. rewrite (Qred_complete _ _ Hv). unfold fq.
  set (sn := if neg then - n else n).
  destruct (Z.leb_spec 0 (e + t)) as [L|L].
  - rewrite Qred_injZ. cbn. eauto.
  - assert (HP : 0 < 2 ^ (- (e + t))) by (apply pow2_pos; lia).
    rewrite Qred_identity.
    + cbn [Qden Qnum]. destruct (pos_odd_pow2 (- (e + t)) ltac:(lia)) as [O1 O2]. rewrite O1. eauto.
    + rewrite Z2Pos.id by exact HP.
      assert (Z.gcd n (2 ^ (- (e + t))) = 1) by (apply odd_gcd_pow2; [exact Ho|lia]).
      subst sn. destruct neg; [rewrite Z.gcd_opp_l|]; assumption.
Qed.

Lemma fenc_q_decoded (f : fmt) (b : Z) (neg : bool) (m e : Z) :
  fmt_ok f -> fdecode f b = FFin neg m e -> exists b', fenc_q f (fq neg m e) = Some b'.
Proof.
  intros Hf H. pose proof (fdecode_nonneg f b neg m e Hf H) as Hm.
  destruct (Z.eq_dec m 0) as [->|Hnz].
  - exists 0. unfold fenc_q, q_dyad. rewrite (Qred_complete (fq neg 0 e) (inject_Z 0) (fq_zero neg e)).
    rewrite Qred_injZ. reflexivity.
  - destruct (fencode_decoded f b neg m e Hf H) as [b' Hb'].
    destruct (q_dyad_fq neg m e ltac:(lia)) as (s' & m' & e' & D).
    destruct (q_dyad_sound _ _ _ _ D) as [Hm' Hq].
    exists b'. unfold fenc_q. rewrite D. rewrite <- Hb'.
    assert (m' <> 0).
    { intros ->. rewrite fq_zero in Hq.
      set (l := Z.min (-1) e). rewrite (fq_common neg m e l) in Hq by (subst l; lia).
      unfold Qeq in Hq. cbn in Hq.
      assert (0 < m * 2 ^ (e - l)) by (apply Z.mul_pos_pos; [lia|apply pow2_pos; subst l; lia]).
      destruct neg; lia. }
    apply fencode_ext; [lia|lia|exact Hq].
Qed.

(* a value of a primitive kind is representable in its own kind *)
Theorem repr_denote (k : kind) (v : sval) (q : Q) :
  is_prim k = true -> wf_val k v = true -> denote k v = Some q -> repr k q = true.
Proof.
  intros P Hwf D. destruct (prim_cases k P) as [(s & w & I)|[F I]].
  - destruct (wf_int_inv _ _ _ _ I Hwf) as (z & -> & Hz). cbn in D. injection D as <-.
    exact (repr_own_int _ _ _ _ I Hz).
  - destruct (wf_float_inv _ _ F Hwf) as (b & -> & Hb). cbn [denote] in D.
    destruct (fdecode (fmt_of k) b) as [| |neg m e] eqn:Dc; try discriminate. injection D as <-.
    rewrite (repr_float k _ F). destruct (fenc_q_decoded _ _ _ _ _ (fmt_ok_of k) Dc) as [b' ->]. reflexivity.
Qed.

(* widening and then narrowing back is the identity on the number *)
Theorem widen_narrow_id (k1 k2 : kind) (v v' : sval) (q : Q) :
  is_prim k1 = true -> is_prim k2 = true -> wf_val k1 v = true -> denote k1 v = Some q ->
  repr k2 q = true -> conv_elem k1 k2 v = CVal v' ->
  exact_result k1 (conv_elem k2 k1 v') q.
Proof.
  intros P1 P2 Hwf D R2 Hc.
  exact (widen_narrow k1 k2 v v' q P1 P2 Hwf D R2 (repr_denote k1 v q P1 Hwf D) Hc).
Qed.

(* semantic reading of [repr] for the float kinds *)
Theorem repr_float_iff (k : kind) (q : Q) : is_float k = true ->
  (repr k q = true <->
   exists b neg m e, 0 <= b < 2 ^ fwidth (fmt_of k) /\ fdecode (fmt_of k) b = FFin neg m e /\ fq neg m e == q).
Proof.
  intro F. rewrite (repr_float k q F). split.
  - destruct (fenc_q (fmt_of k) q) as [b|] eqn:E; [|discriminate]. intros _.
    destruct (fenc_q_sound _ _ _ (fmt_ok_of k) E) as (Hb & neg & m & e & Hd & _ & Hv).
    exists b, neg, m, e. repeat split; try assumption; lia.
  - intros (b & neg & m & e & _ & Hd & Hv).
    destruct (fenc_q_decoded _ _ _ _ _ (fmt_ok_of k) Hd) as [b' Hb'].
    rewrite <- (fenc_q_ext _ _ _ Hv), Hb'. reflexivity.
Qed.

(* ------------------------------------------------------------------ *)
(* 12. matrix -> set *)
(* ------------------------------------------------------------------ *)
Lemma sval_eqb_refl (a : sval) : sval_eqb a a = true.
Proof.
  destruct a; cbn; rewrite ?Z.eqb_refl, ?String.eqb_refl; try reflexivity. destruct b; reflexivity.
Qed.

Lemma sval_eqb_spec (a b : sval) : sval_eqb a b = true <-> a = b.
Proof. split; [apply sval_eqb_eq|intros ->; apply sval_eqb_refl]. Qed.

Lemma map_opt_In {A B} (f : A -> option B) (l : list A) (l' : list B) :
  map_opt f l = Some l' -> forall b, In b l' <-> exists a, In a l /\ f a = Some b.
Proof.
  revert l'. induction l as [|x l IH]; intros l' H b; cbn in H.
  - injection H as <-. cbn. split; [tauto|intros (a & [] & _)].
  - destruct (f x) as [y|] eqn:Fx; [|discriminate]. destruct (map_opt f l) as [ys|] eqn:M; [|discriminate].
    injection H as <-. cbn. rewrite (IH ys eq_refl b). split.
    + intros [<-|(a & Ha & Fa)]; [exists x; auto|exists a; auto].
    + intros (a & [<-|Ha] & Fa); [left; congruence|right; exists a; auto].
Qed.

(* matrix -> set keeps exactly the distinct converted elements *)
Theorem to_set_distinct (k1 k2 : kind) (m : mat sval) (l : list sval) :
  to_set_impl k1 k2 m = Some l ->
  NoDup l /\ forall x, In x l <-> exists v, In v (mdata m) /\ conv_elem k1 k2 v = CVal x.
Proof.
  unfold to_set_impl. destruct (impl_supported FSet false k1 k2); [|discriminate].
  destruct (map_opt _ (mdata m)) as [l0|] eqn:M; [|discriminate]. intro H. injection H as <-.
  destruct (dedup_distinct sval_eqb sval_eqb_spec l0) as [ND HIn]. split; [exact ND|].
  intro x. rewrite HIn, (map_opt_In _ _ _ M x). split; intros (v & Hv & Hc); exists v; (split; [exact Hv|]).
  - destruct (conv_elem k1 k2 v); cbn in Hc; congruence.
  - rewrite Hc. reflexivity.
Qed.

(* ------------------------------------------------------------------ *)
(* 13. the judge of a whole case line *)
(* ------------------------------------------------------------------ *)
(* the whole case line: source observed in step 1, annotated definition observed in step 2 *)
Definition case_spec (fm : form) (k2 : kind) (dims : option (nat * nat)) (o1 o2 : sx) : Prop :=
  match decode_obs o1 with
  | OVal (KS kn e) =>
      exists k1 v, kind_of_string kn = Some k1 /\ decode_payload k1 e = Some v /\ wf_val k1 v = true /\
                   value_spec k1 v k2 (decode_obs o2)
  | OVal (KM kn m) =>
      exists k1 vs, kind_of_string kn = Some k1 /\ map_opt (decode_payload k1) (mdata m) = Some vs /\
        match fm with
        | FMat => mat_spec k1 m vs k2 dims (decode_obs o2)
        | FSet => set_spec k1 vs k2 o2
        | _ => False
        end
  | _ => False
  end.

Theorem judge_convert_sound (kfa : kfa_t) (fs ks : string) (dx t o1 s1 o2 s2 : sx) (tag : string) :
  judge_convert kfa (Lx [Lx [Ax "conv"; Ax fs; Ax ks; dx; t];
                         Lx [Ax "session"; Lx [Ax "step"; o1; s1]; Lx [Ax "step"; o2; s2]]]) = v_ok tag ->
  exists fm k2 dims, form_of_string fs = Some fm /\ kind_of_string ks = Some k2 /\ decode_dims dx = Some dims /\
                     case_spec fm k2 dims o1 o2.
Proof.
  intro H. cbn [judge_convert] in H.
  destruct (form_of_string fs) as [fm|]; [|no_ok].
  destruct (kind_of_string ks) as [k2|]; [|no_ok].
  destruct (decode_dims dx) as [dims|]; [|no_ok].
  exists fm, k2, dims. repeat split. unfold case_spec.
  destruct (decode_obs o1) as [[kn e|kn m]| | | |x]; try no_ok.
  - destruct (kind_of_string kn) as [k1|]; [|no_ok].
    destruct (decode_payload k1 e) as [v|] eqn:De; [|destruct fm; no_ok].
    assert (G : (if wf_val k1 v then judge_value kfa fm false k1 v k2 (decode_obs o2) else v_adv "ill-formed-source") = v_ok tag ->
                exists k0 v0, Some k1 = Some k0 /\ decode_payload k0 e = Some v0 /\ wf_val k0 v0 = true /\
                              value_spec k0 v0 k2 (decode_obs o2)).
    { destruct (wf_val k1 v) eqn:W; [|intro; no_ok]. intro J. exists k1, v. repeat split; try assumption.
      exact (judge_value_sound _ _ _ _ _ _ _ _ J). }
    destruct fm; try no_ok; exact (G H).
  - destruct (kind_of_string kn) as [k1|]; [|no_ok]. exists k1.
    destruct (map_opt (decode_payload k1) (mdata m)) as [vs|] eqn:M.
    + exists vs. repeat split. destruct fm; try no_ok.
      * exact (judge_mat_sound _ _ _ _ _ _ _ _ M H).
      * exact (judge_set_sound _ _ _ _ _ _ M H).
    + exfalso. destruct fm; try no_ok.
      * unfold judge_mat in H. rewrite M in H. no_ok.
      * unfold judge_set in H. rewrite M in H. no_ok.
Qed.
