(* C14 — lemmas about the set model (Model/SetM.v). *)
From Coq Require Import List ZArith String Bool Arith Lia Permutation SetoidList.
From MechV Require Import Base.Sexp Base.Obs Model.SetM.
Import ListNotations.
Open Scope list_scope.

(* ================================================================== *)
(* 1. list-sets over a boolean equivalence                              *)
(* ================================================================== *)
Section ListSetP.
  Context {A : Type} (eqb : A -> A -> bool).
  Context (eqb_refl : forall x, eqb x x = true).
  Context (eqb_sym : forall x y, eqb x y = eqb y x).
  Context (eqb_trans : forall x y z, eqb x y = true -> eqb y z = true -> eqb x z = true).

  Notation memb := (memb eqb).
  Notation add := (add eqb).
  Notation of_list := (of_list eqb).
  Notation nodupb := (nodupb eqb).

  Lemma memb_cons : forall x z l, memb x (z :: l) = eqb x z || memb x l.
  Proof. reflexivity. Qed.
  Lemma memb_nil : forall x, memb x [] = false.
  Proof. reflexivity. Qed.
  Lemma nodupb_cons : forall x l, nodupb (x :: l) = negb (memb x l) && nodupb l.
  Proof. reflexivity. Qed.

  Lemma memb_In : forall x l, In x l -> memb x l = true.
  Proof.
    intros x l Hin. unfold SetM.memb. apply existsb_exists. exists x. split; [exact Hin | apply eqb_refl].
  Qed.

  Lemma memb_true_iff : forall x l, memb x l = true <-> exists y, In y l /\ eqb x y = true.
  Proof. intros x l. unfold SetM.memb. apply existsb_exists. Qed.

  Lemma eqb_cong_r : forall x y z, eqb x y = true -> eqb x z = eqb y z.
  Proof.
    intros x y z Hxy. destruct (eqb y z) eqn:Hyz.
    - eapply eqb_trans; eassumption.
    - destruct (eqb x z) eqn:Hxz; [|reflexivity].
      rewrite eqb_sym in Hxy. rewrite <- Hyz. symmetry. eapply eqb_trans; eassumption.
  Qed.

  Lemma memb_cong : forall x y l, eqb x y = true -> memb x l = memb y l.
  Proof.
    intros x y l Hxy. induction l as [|z l IH]; [reflexivity|].
    rewrite !memb_cons, IH, (eqb_cong_r x y z Hxy). reflexivity.
  Qed.

  Lemma memb_app : forall x l l', memb x (l ++ l') = memb x l || memb x l'.
  Proof. intros. unfold SetM.memb. apply existsb_app. Qed.

  Lemma memb_add : forall v acc x, memb v (add acc x) = memb v acc || eqb v x.
  Proof.
    intros v acc x. unfold SetM.add. destruct (memb x acc) eqn:Hx.
    - destruct (eqb v x) eqn:Hvx; [|rewrite orb_false_r; reflexivity].
      rewrite (memb_cong v x acc Hvx), Hx. reflexivity.
    - rewrite memb_app, memb_cons, memb_nil, orb_false_r. reflexivity.
  Qed.

  Lemma memb_fold_add : forall v l acc, memb v (fold_left add l acc) = memb v acc || memb v l.
  Proof.
    intros v l. induction l as [|x l IH]; intros acc; cbn [fold_left].
    - rewrite memb_nil, orb_false_r. reflexivity.
    - rewrite IH, memb_add, memb_cons. rewrite orb_assoc. reflexivity.
  Qed.

  (* the elements of a built set are exactly the written ones *)
  Lemma memb_of_list : forall v l, memb v (of_list l) = memb v l.
  Proof. intros. unfold SetM.of_list. rewrite memb_fold_add. reflexivity. Qed.

  Lemma nodupb_snoc : forall l x, nodupb (l ++ [x]) = nodupb l && negb (memb x l).
  Proof.
    induction l as [|y l IH]; intros x.
    - reflexivity.
    - rewrite <- app_comm_cons, !nodupb_cons, IH, memb_app, !memb_cons, memb_nil, orb_false_r, (eqb_sym x y).
      destruct (memb y l), (eqb y x), (nodupb l), (memb x l); reflexivity.
  Qed.

  Lemma nodupb_add : forall acc x, nodupb acc = true -> nodupb (add acc x) = true.
  Proof.
    intros acc x H. unfold SetM.add. destruct (memb x acc) eqn:Hx; [exact H|].
    rewrite nodupb_snoc, H, Hx. reflexivity.
  Qed.

  Lemma nodupb_fold_add : forall l acc, nodupb acc = true -> nodupb (fold_left add l acc) = true.
  Proof.
    induction l as [|x l IH]; intros acc H; cbn [fold_left]; [exact H|]. apply IH. apply nodupb_add. exact H.
  Qed.

  (* the set invariant holds for whatever is built *)
  Lemma nodupb_of_list : forall l, nodupb (of_list l) = true.
  Proof. intros. unfold SetM.of_list. apply nodupb_fold_add. reflexivity. Qed.

  Lemma nodupb_NoDupA : forall l, nodupb l = true <-> NoDupA (fun x y => eqb x y = true) l.
  Proof.
    induction l as [|x l IH].
    - split; [constructor | reflexivity].
    - rewrite nodupb_cons, andb_true_iff, negb_true_iff, IH. split.
      + intros [Hm Hn]. constructor; [|exact Hn]. intros Hin. apply InA_alt in Hin as (y & Hxy & Hy).
        assert (memb x l = true) by (apply memb_true_iff; eauto). congruence.
      + intros Hn. inversion Hn as [|? ? Hnin Hn']; subst. split; [|exact Hn'].
        destruct (memb x l) eqn:Hm; [|reflexivity]. exfalso. apply Hnin.
        apply memb_true_iff in Hm as (y & Hy & Hxy). apply InA_alt. eauto.
  Qed.

  (* of_list does nothing to a list that is already a set *)
  Lemma fold_add_nodup : forall l acc, nodupb (acc ++ l) = true -> fold_left add l acc = acc ++ l.
  Proof.
    induction l as [|x l IH]; intros acc H; cbn [fold_left].
    - rewrite app_nil_r. reflexivity.
    - assert (Hx : memb x acc = false).
      { clear IH. induction acc as [|y acc IHa]; [reflexivity|].
        rewrite <- app_comm_cons, nodupb_cons in H.
        apply andb_true_iff in H as [H1 H2]. apply negb_true_iff in H1. rewrite memb_app in H1.
        apply orb_false_iff in H1 as [_ H1]. rewrite memb_cons in H1. apply orb_false_iff in H1 as [H1 _].
        rewrite memb_cons, eqb_sym, H1. apply IHa. exact H2. }
      unfold SetM.add at 2. rewrite Hx. rewrite IH; rewrite <- app_assoc; [reflexivity | exact H].
  Qed.

  Lemma of_list_nodup : forall l, nodupb l = true -> of_list l = l.
  Proof. intros l H. unfold SetM.of_list. rewrite fold_add_nodup; [reflexivity | exact H]. Qed.

  Lemma of_list_idem : forall l, of_list (of_list l) = of_list l.
  Proof. intros. apply of_list_nodup. apply nodupb_of_list. Qed.

  (* ---------- filters that respect the equality ---------- *)
  Lemma memb_filter : forall (p : A -> bool) v l,
    (forall x y, eqb x y = true -> p x = p y) -> memb v (filter p l) = memb v l && p v.
  Proof.
    intros p v l Hp. induction l as [|x l IH]; [reflexivity|]. cbn [filter].
    destruct (p x) eqn:Hpx; rewrite ?memb_cons, IH.
    - destruct (eqb v x) eqn:Hvx; cbn [orb]; [|reflexivity]. rewrite (Hp v x Hvx), Hpx. reflexivity.
    - destruct (eqb v x) eqn:Hvx; cbn [orb]; [|reflexivity]. rewrite (Hp v x Hvx), Hpx.
      rewrite andb_false_r. reflexivity.
  Qed.

  Lemma memb_keep_in : forall v a b, memb v (keep_in eqb b a) = memb v a && memb v b.
  Proof. intros. unfold keep_in. apply memb_filter. intros x y H. apply memb_cong. exact H. Qed.

  Lemma memb_keep_out : forall v a b, memb v (keep_out eqb b a) = memb v a && negb (memb v b).
  Proof.
    intros. unfold keep_out. apply (memb_filter (fun x => negb (memb x b))).
    intros x y H. f_equal. apply memb_cong. exact H.
  Qed.

  (* ---------- the operators agree with the mathematical definitions ---------- *)
  Lemma memb_union : forall v a b, memb v (union eqb a b) = memb v a || memb v b.
  Proof.
    intros. unfold union. rewrite memb_of_list, memb_app, memb_keep_out.
    destruct (memb v a), (memb v b); reflexivity.
  Qed.

  Lemma memb_inter : forall v a b, memb v (inter eqb a b) = memb v a && memb v b.
  Proof. intros. unfold inter. rewrite memb_of_list. apply memb_keep_in. Qed.

  Lemma memb_diff : forall v a b, memb v (diff eqb a b) = memb v a && negb (memb v b).
  Proof. intros. unfold diff. rewrite memb_of_list. apply memb_keep_out. Qed.

  Lemma memb_symdiff : forall v a b, memb v (symdiff eqb a b) = xorb (memb v a) (memb v b).
  Proof.
    intros. unfold symdiff. rewrite memb_of_list, memb_app, !memb_keep_out.
    destruct (memb v a), (memb v b); reflexivity.
  Qed.

  Lemma nodupb_union : forall a b, nodupb (union eqb a b) = true.
  Proof. intros. apply nodupb_of_list. Qed.
  Lemma nodupb_inter : forall a b, nodupb (inter eqb a b) = true.
  Proof. intros. apply nodupb_of_list. Qed.
  Lemma nodupb_diff : forall a b, nodupb (diff eqb a b) = true.
  Proof. intros. apply nodupb_of_list. Qed.
  Lemma nodupb_symdiff : forall a b, nodupb (symdiff eqb a b) = true.
  Proof. intros. apply nodupb_of_list. Qed.

  Lemma subset_spec : forall a b,
    subset eqb a b = true <-> (forall v, memb v a = true -> memb v b = true).
  Proof.
    intros a b. unfold subset. rewrite forallb_forall. split.
    - intros H v Hv. apply memb_true_iff in Hv as (x & Hx & Hvx).
      rewrite (memb_cong v x b Hvx). apply H. exact Hx.
    - intros H x Hx. apply H. apply memb_In. exact Hx.
  Qed.

  Lemma forallb_false_ex : forall (f : A -> bool) l, forallb f l = false -> exists x, In x l /\ f x = false.
  Proof.
    intros f l. induction l as [|x l IH]; cbn [forallb]; [discriminate|].
    destruct (f x) eqn:Hf; cbn [andb].
    - intros H. destruct (IH H) as (y & Hy & Hfy). exists y. split; [right; exact Hy | exact Hfy].
    - intros _. exists x. split; [left; reflexivity | exact Hf].
  Qed.

  Lemma psubset_spec : forall a b,
    psubset eqb a b = true <->
    (forall v, memb v a = true -> memb v b = true) /\ (exists v, memb v b = true /\ memb v a = false).
  Proof.
    intros a b. unfold psubset. rewrite andb_true_iff, negb_true_iff, subset_spec. split.
    - intros [H1 H2]. split; [exact H1|]. unfold subset in H2.
      apply forallb_false_ex in H2 as (x & Hx & Hf). exists x. split; [apply memb_In; exact Hx | exact Hf].
    - intros [H1 (v & Hvb & Hva)]. split; [exact H1|].
      destruct (subset eqb b a) eqn:Hs; [|reflexivity].
      rewrite (proj1 (subset_spec b a) Hs v Hvb) in Hva. discriminate.
  Qed.

  Lemma superset_spec : forall a b,
    superset eqb a b = true <-> (forall v, memb v b = true -> memb v a = true).
  Proof. intros. unfold superset. apply subset_spec. Qed.

  Lemma psuperset_spec : forall a b,
    psuperset eqb a b = true <->
    (forall v, memb v b = true -> memb v a = true) /\ (exists v, memb v a = true /\ memb v b = false).
  Proof. intros. unfold psuperset. apply psubset_spec. Qed.

  Lemma same_elems_spec : forall a b,
    same_elems eqb a b = true <-> (forall v, memb v a = memb v b).
  Proof.
    intros a b. unfold same_elems. rewrite andb_true_iff, !subset_spec. split.
    - intros [H1 H2] v. destruct (memb v a) eqn:Ha.
      + symmetry. apply H1. exact Ha.
      + destruct (memb v b) eqn:Hb; [|reflexivity]. rewrite (H2 v Hb) in Ha. discriminate.
    - intros H. split; intros v Hv; [rewrite <- H | rewrite H]; exact Hv.
  Qed.

  (* ---------- sizes: the pigeonhole principle for list-sets ---------- *)
  Fixpoint remove1 (x : A) (l : list A) : list A :=
    match l with
    | [] => []
    | z :: r => if eqb x z then r else z :: remove1 x r
    end.

  Lemma remove1_length : forall x l, memb x l = true -> List.length l = S (List.length (remove1 x l)).
  Proof.
    intros x l. induction l as [|z l IH]; [discriminate|]. rewrite memb_cons. cbn [remove1 List.length].
    destruct (eqb x z); cbn [orb List.length]; [reflexivity|]. intros H. rewrite (IH H). reflexivity.
  Qed.

  Lemma remove1_memb : forall x y l, memb y l = true -> eqb y x = false -> memb y (remove1 x l) = true.
  Proof.
    intros x y l. induction l as [|z l IH]; [discriminate|]. rewrite memb_cons. cbn [remove1].
    intros H Hyx. destruct (eqb x z) eqn:Hxz.
    - destruct (eqb y z) eqn:Hyz; [|exact H]. exfalso.
      rewrite eqb_sym in Hxz. rewrite (eqb_trans y z x Hyz Hxz) in Hyx. discriminate.
    - rewrite memb_cons. destruct (eqb y z); [reflexivity|]. apply IH; assumption.
  Qed.

  Lemma subset_length : forall a b,
    nodupb a = true -> (forall v, memb v a = true -> memb v b = true) -> List.length a <= List.length b.
  Proof.
    induction a as [|x a IH]; intros b Hn Hs; cbn [List.length]; [lia|].
    rewrite nodupb_cons in Hn. apply andb_true_iff in Hn as [Hx Hn]. apply negb_true_iff in Hx.
    assert (Hxb : memb x b = true) by (apply Hs; rewrite memb_cons, eqb_refl; reflexivity).
    rewrite (remove1_length x b Hxb). apply le_n_S. apply IH; [exact Hn|].
    intros v Hv. apply remove1_memb.
    - apply Hs. rewrite memb_cons, Hv. apply orb_true_r.
    - destruct (eqb v x) eqn:Hvx; [|reflexivity]. rewrite (memb_cong v x a Hvx), Hx in Hv. discriminate.
  Qed.

  Lemma subset_length_lt : forall a b y,
    nodupb a = true -> (forall v, memb v a = true -> memb v b = true) ->
    memb y b = true -> memb y a = false -> List.length a < List.length b.
  Proof.
    intros a b y Hn Hs Hyb Hya. rewrite (remove1_length y b Hyb). apply Nat.lt_succ_r.
    apply subset_length; [exact Hn|]. intros v Hv. apply remove1_memb; [apply Hs; exact Hv|].
    destruct (eqb v y) eqn:Hvy; [|reflexivity]. rewrite (memb_cong v y a Hvy), Hya in Hv. discriminate.
  Qed.

  (* two sets with the same elements have the same size *)
  Lemma same_elems_length : forall a b,
    nodupb a = true -> nodupb b = true -> (forall v, memb v a = memb v b) -> List.length a = List.length b.
  Proof.
    intros a b Ha Hb H. apply Nat.le_antisymm; apply subset_length; try assumption; intros v Hv;
      [rewrite <- H | rewrite H]; exact Hv.
  Qed.

  (* what proper_subset.rs computes (subset and strictly fewer elements) is the proper-subset relation on sets *)
  Lemma psubset_len_spec : forall a b,
    nodupb a = true -> nodupb b = true -> psubset_len eqb a b = psubset eqb a b.
  Proof.
    intros a b Ha Hb. unfold psubset_len, psubset. destruct (subset eqb a b) eqn:Hab; [|reflexivity]. cbn.
    pose proof (proj1 (subset_spec a b) Hab) as Hs.
    destruct (subset eqb b a) eqn:Hba; cbn.
    - pose proof (proj1 (subset_spec b a) Hba) as Hs'. apply Nat.ltb_ge.
      apply subset_length; assumption.
    - apply Nat.ltb_lt. unfold subset in Hba. apply forallb_false_ex in Hba as (y & Hy & Hya).
      apply (subset_length_lt a b y); try assumption. apply memb_In. exact Hy.
  Qed.

  (* ---------- the order in which elements are written is irrelevant ---------- *)
  Lemma memb_perm : forall v l l', Permutation l l' -> memb v l = memb v l'.
  Proof.
    intros v l l' H. induction H; rewrite ?memb_cons.
    - reflexivity.
    - rewrite IHPermutation. reflexivity.
    - destruct (eqb v x), (eqb v y); reflexivity.
    - congruence.
  Qed.

  Lemma of_list_perm_elems : forall l l' v, Permutation l l' -> memb v (of_list l) = memb v (of_list l').
  Proof. intros. rewrite !memb_of_list. apply memb_perm. assumption. Qed.

  Lemma of_list_perm_size : forall l l', Permutation l l' -> List.length (of_list l) = List.length (of_list l').
  Proof.
    intros l l' H. apply same_elems_length; try apply nodupb_of_list.
    intros v. apply of_list_perm_elems. exact H.
  Qed.

  (* an operator applied to sets written in other orders gives the same set *)
  Lemma memb_ext_union : forall a a' b b',
    (forall v, memb v a = memb v a') -> (forall v, memb v b = memb v b') ->
    forall v, memb v (union eqb a b) = memb v (union eqb a' b').
  Proof. intros. rewrite !memb_union. congruence. Qed.
  Lemma memb_ext_inter : forall a a' b b',
    (forall v, memb v a = memb v a') -> (forall v, memb v b = memb v b') ->
    forall v, memb v (inter eqb a b) = memb v (inter eqb a' b').
  Proof. intros. rewrite !memb_inter. congruence. Qed.
  Lemma memb_ext_diff : forall a a' b b',
    (forall v, memb v a = memb v a') -> (forall v, memb v b = memb v b') ->
    forall v, memb v (diff eqb a b) = memb v (diff eqb a' b').
  Proof. intros. rewrite !memb_diff. congruence. Qed.
  Lemma memb_ext_symdiff : forall a a' b b',
    (forall v, memb v a = memb v a') -> (forall v, memb v b = memb v b') ->
    forall v, memb v (symdiff eqb a b) = memb v (symdiff eqb a' b').
  Proof. intros. rewrite !memb_symdiff. congruence. Qed.
  Lemma subset_ext : forall a a' b b',
    (forall v, memb v a = memb v a') -> (forall v, memb v b = memb v b') ->
    subset eqb a b = subset eqb a' b'.
  Proof.
    intros a a' b b' Ha Hb. apply eq_true_iff_eq. rewrite !subset_spec.
    split; intros H v Hv; [rewrite <- Hb; apply H; rewrite Ha | rewrite Hb; apply H; rewrite <- Ha]; exact Hv.
  Qed.
End ListSetP.

(* ================================================================== *)
(* 2. values: induction principle, the canonical equality                *)
(* ================================================================== *)
Section ValInd.
  Context (P : val -> Prop)
    (HInt : forall k z, P (VInt k z)) (HFlt : forall k b, P (VFlt k b)) (HRat : forall n d, P (VRat n d))
    (HStr : forall s, P (VStr s)) (HBool : forall b, P (VBool b))
    (HTup : forall l, Forall P l -> P (VTup l))
    (HSet : forall k n l, Forall P l -> P (VSet k n l)).

  Fixpoint val_ind' (v : val) : P v :=
    let go := fix go (l : list val) : Forall P l :=
                match l with
                | [] => Forall_nil P
                | x :: r => Forall_cons x (val_ind' x) (go r)
                end in
    match v with
    | VInt k z => HInt k z
    | VFlt k b => HFlt k b
    | VRat n d => HRat n d
    | VStr s => HStr s
    | VBool b => HBool b
    | VTup l => HTup l (go l)
    | VSet k n l => HSet k n l (go l)
    end.
End ValInd.

Lemma veq_tup_unfold : forall l l', veq (VTup l) (VTup l') = all2 veq l l'.
Proof. reflexivity. Qed.

Lemma veq_set_unfold : forall k n l k' n' l',
  veq (VSet k n l) (VSet k' n' l') =
  forallb (fun x => existsb (veq x) l') l && forallb (fun y => existsb (fun x => veq x y) l) l'.
Proof. reflexivity. Qed.

Lemma veq_set_iff : forall k n l k' n' l',
  veq (VSet k n l) (VSet k' n' l') = true <->
  (forall x, In x l -> exists y, In y l' /\ veq x y = true) /\
  (forall y, In y l' -> exists x, In x l /\ veq x y = true).
Proof.
  intros. rewrite veq_set_unfold, andb_true_iff, !forallb_forall. split; intros [H1 H2]; split.
  - intros x Hx. apply existsb_exists. apply H1. exact Hx.
  - intros y Hy. apply (existsb_exists (fun x => veq x y)). apply H2. exact Hy.
  - intros x Hx. apply existsb_exists. apply H1. exact Hx.
  - intros y Hy. apply (existsb_exists (fun x => veq x y)). apply H2. exact Hy.
Qed.

Lemma all2_refl_in : forall (f : val -> val -> bool) l, Forall (fun x => f x x = true) l -> all2 f l l = true.
Proof. intros f l H. induction H; cbn; [reflexivity|]. rewrite H, IHForall. reflexivity. Qed.

Lemma all2_sym_in : forall (f : val -> val -> bool) l,
  Forall (fun x => forall y, f x y = f y x) l -> forall l', all2 f l l' = all2 f l' l.
Proof.
  intros f l H. induction H as [|x l Hx _ IH]; intros [|y l']; cbn; try reflexivity.
  rewrite Hx, IH. reflexivity.
Qed.

Lemma all2_trans_in : forall (f : val -> val -> bool) l,
  Forall (fun x => forall y z, f x y = true -> f y z = true -> f x z = true) l ->
  forall l' l'', all2 f l l' = true -> all2 f l' l'' = true -> all2 f l l'' = true.
Proof.
  intros f l H. induction H as [|x l Hx _ IH]; intros [|y l'] [|z l'']; cbn; try discriminate; try reflexivity.
  intros H1 H2. apply andb_true_iff in H1 as [H1 H1'], H2 as [H2 H2'].
  rewrite (Hx y z H1 H2), (IH l' l'' H1' H2'). reflexivity.
Qed.

Lemma veq_refl : forall a, veq a a = true.
Proof.
  apply val_ind'; intros.
  - cbn [veq]. rewrite String.eqb_refl, Z.eqb_refl. reflexivity.
  - cbn [veq]. rewrite String.eqb_refl, Z.eqb_refl. reflexivity.
  - cbn [veq]. rewrite !Z.eqb_refl. reflexivity.
  - cbn [veq]. apply String.eqb_refl.
  - destruct b; reflexivity.
  - rewrite veq_tup_unfold. apply all2_refl_in. assumption.
  - apply veq_set_iff. rewrite Forall_forall in H.
    split; intros x Hx; exists x; split; auto.
Qed.

Lemma bool_eqb_sym : forall x y, Bool.eqb x y = Bool.eqb y x.
Proof. destruct x, y; reflexivity. Qed.

Lemma veq_sym : forall a b, veq a b = veq b a.
Proof.
  apply (val_ind' (fun a => forall b, veq a b = veq b a)).
  - intros k z [] ; try reflexivity. cbn. rewrite (String.eqb_sym k k0), (Z.eqb_sym z z0). reflexivity.
  - intros k x []; try reflexivity. cbn. rewrite (String.eqb_sym k k0), (Z.eqb_sym x bits).
    destruct (String.eqb_spec k0 k); subst; cbn; [|reflexivity].
    rewrite (andb_comm (fzero k x)). reflexivity.
  - intros n d []; try reflexivity. cbn. rewrite (Z.eqb_sym n n0), (Z.eqb_sym d d0). reflexivity.
  - intros s []; try reflexivity. cbn. apply String.eqb_sym.
  - intros x []; try reflexivity. cbn. apply bool_eqb_sym.
  - intros l IH []; try reflexivity. rewrite !veq_tup_unfold. apply all2_sym_in. exact IH.
  - intros k n l IH []; try reflexivity. rewrite Forall_forall in IH.
    apply eq_true_iff_eq. rewrite !veq_set_iff. split; intros [H1 H2]; split.
    + intros y Hy. destruct (H2 y Hy) as (x & Hx & Hxy). exists x. split; [exact Hx|]. rewrite <- (IH x Hx). exact Hxy.
    + intros x Hx. destruct (H1 x Hx) as (y & Hy & Hxy). exists y. split; [exact Hy|]. rewrite <- (IH x Hx). exact Hxy.
    + intros x Hx. destruct (H2 x Hx) as (y & Hy & Hxy). exists y. split; [exact Hy|]. rewrite (IH x Hx). exact Hxy.
    + intros y Hy. destruct (H1 y Hy) as (x & Hx & Hxy). exists x. split; [exact Hx|]. rewrite (IH x Hx). exact Hxy.
Qed.

Lemma veq_trans : forall a b c, veq a b = true -> veq b c = true -> veq a c = true.
Proof.
  apply (val_ind' (fun a => forall b c, veq a b = true -> veq b c = true -> veq a c = true)).
  - intros k z [] []; cbn; try discriminate. intros H1 H2.
    apply andb_true_iff in H1 as [H1 H1'], H2 as [H2 H2'].
    apply String.eqb_eq in H1, H2. apply Z.eqb_eq in H1', H2'. subst.
    rewrite String.eqb_refl, Z.eqb_refl. reflexivity.
  - intros k x [] []; cbn; try discriminate. intros H1 H2.
    apply andb_true_iff in H1 as [H1 H1'], H2 as [H2 H2'].
    apply String.eqb_eq in H1, H2. subst. rewrite String.eqb_refl. cbn.
    apply orb_true_iff in H1' as [H1'|H1'], H2' as [H2'|H2'].
    + apply Z.eqb_eq in H1', H2'. subst. rewrite Z.eqb_refl. reflexivity.
    + apply Z.eqb_eq in H1'. subst. rewrite H2'. apply orb_true_r.
    + apply Z.eqb_eq in H2'. subst. rewrite H1'. apply orb_true_r.
    + apply andb_true_iff in H1' as [Ha _], H2' as [_ Hb]. rewrite Ha, Hb. apply orb_true_r.
  - intros n d [] []; cbn; try discriminate. intros H1 H2.
    apply andb_true_iff in H1 as [H1 H1'], H2 as [H2 H2'].
    apply Z.eqb_eq in H1, H2, H1', H2'. subst. rewrite !Z.eqb_refl. reflexivity.
  - intros s [] []; cbn; try discriminate. intros H1 H2.
    apply String.eqb_eq in H1, H2. subst. apply String.eqb_refl.
  - intros x [] []; cbn; try discriminate. intros H1 H2.
    apply Bool.eqb_prop in H1, H2. subst. destruct b0; reflexivity.
  - intros l IH [] []; try discriminate; try (intros _ H; discriminate H).
    rewrite !veq_tup_unfold. apply all2_trans_in. exact IH.
  - intros k n l IH [] []; try discriminate; try (intros _ H; discriminate H).
    rewrite Forall_forall in IH. rewrite !veq_set_iff. intros [H1 H2] [H3 H4]. split.
    + intros x Hx. destruct (H1 x Hx) as (y & Hy & Hxy). destruct (H3 y Hy) as (z & Hz & Hyz).
      exists z. split; [exact Hz|]. exact (IH x Hx y z Hxy Hyz).
    + intros z Hz. destruct (H4 z Hz) as (y & Hy & Hyz). destruct (H2 y Hy) as (x & Hx & Hxy).
      exists x. split; [exact Hx|]. exact (IH x Hx y z Hxy Hyz).
Qed.

Definition veqP (x y : val) : Prop := veq x y = true.

Lemma veqP_equiv : Equivalence veqP.
Proof.
  split.
  - intros x. apply veq_refl.
  - intros x y H. unfold veqP. rewrite veq_sym. exact H.
  - intros x y z. apply veq_trans.
Qed.

(* a nested set equals every reordering of itself and ignores repetitions *)
Lemma veq_set_perm : forall k n l k' n' l', Permutation l l' -> veq (VSet k n l) (VSet k' n' l') = true.
Proof.
  intros. apply veq_set_iff. split; intros x Hx; exists x; split; try apply veq_refl.
  - eapply Permutation_in; eassumption.
  - eapply Permutation_in; [apply Permutation_sym|]; eassumption.
Qed.

(* +0.0 and -0.0 are one number *)
Lemma veq_signed_zero : veq (VFlt "f64" 0) (VFlt "f64" 9223372036854775808) = true.
Proof. reflexivity. Qed.

(* ================================================================== *)
(* 3. the list-set theory instantiated at values with the canonical equality *)
(* ================================================================== *)
Ltac veq_hyps := first [apply veq_refl | apply veq_sym | apply veq_trans].

Lemma vmemb_In : forall x l, In x l -> memb veq x l = true.
Proof. intros; apply memb_In; [veq_hyps | assumption]. Qed.
Lemma vmemb_cong : forall x y l, veq x y = true -> memb veq x l = memb veq y l.
Proof. intros; apply memb_cong; try veq_hyps; assumption. Qed.
Lemma vmemb_of_list : forall v l, memb veq v (of_list veq l) = memb veq v l.
Proof. intros; apply memb_of_list; veq_hyps. Qed.
Lemma vnodupb_of_list : forall l, nodupb veq (of_list veq l) = true.
Proof. intros; apply nodupb_of_list; veq_hyps. Qed.
Lemma vnodupb_NoDupA : forall l, nodupb veq l = true <-> NoDupA veqP l.
Proof. intros; apply (nodupb_NoDupA veq). Qed.
Lemma vof_list_nodup : forall l, nodupb veq l = true -> of_list veq l = l.
Proof. intros; apply of_list_nodup; try veq_hyps; assumption. Qed.
Lemma vmemb_union : forall v a b, memb veq v (union veq a b) = memb veq v a || memb veq v b.
Proof. intros; apply memb_union; veq_hyps. Qed.
Lemma vmemb_inter : forall v a b, memb veq v (inter veq a b) = memb veq v a && memb veq v b.
Proof. intros; apply memb_inter; veq_hyps. Qed.
Lemma vmemb_diff : forall v a b, memb veq v (diff veq a b) = memb veq v a && negb (memb veq v b).
Proof. intros; apply memb_diff; veq_hyps. Qed.
Lemma vmemb_symdiff : forall v a b, memb veq v (symdiff veq a b) = xorb (memb veq v a) (memb veq v b).
Proof. intros; apply memb_symdiff; veq_hyps. Qed.
Lemma vsubset_spec : forall a b,
  subset veq a b = true <-> (forall v, memb veq v a = true -> memb veq v b = true).
Proof. intros; apply subset_spec; veq_hyps. Qed.
Lemma vpsubset_spec : forall a b,
  psubset veq a b = true <->
  (forall v, memb veq v a = true -> memb veq v b = true) /\ (exists v, memb veq v b = true /\ memb veq v a = false).
Proof. intros; apply psubset_spec; veq_hyps. Qed.
Lemma vsuperset_spec : forall a b,
  superset veq a b = true <-> (forall v, memb veq v b = true -> memb veq v a = true).
Proof. intros; apply superset_spec; veq_hyps. Qed.
Lemma vpsuperset_spec : forall a b,
  psuperset veq a b = true <->
  (forall v, memb veq v b = true -> memb veq v a = true) /\ (exists v, memb veq v a = true /\ memb veq v b = false).
Proof. intros; apply psuperset_spec; veq_hyps. Qed.
Lemma vsame_elems_spec : forall a b,
  same_elems veq a b = true <-> (forall v, memb veq v a = memb veq v b).
Proof. intros; apply same_elems_spec; veq_hyps. Qed.
Lemma vpsubset_len_spec : forall a b,
  nodupb veq a = true -> nodupb veq b = true -> psubset_len veq a b = psubset veq a b.
Proof. intros; apply psubset_len_spec; try veq_hyps; assumption. Qed.
Lemma vsame_elems_length : forall a b,
  nodupb veq a = true -> nodupb veq b = true -> (forall v, memb veq v a = memb veq v b) ->
  List.length a = List.length b.
Proof. intros; apply (same_elems_length veq); try veq_hyps; assumption. Qed.
Lemma vof_list_perm_elems : forall l l' v,
  Permutation l l' -> memb veq v (of_list veq l) = memb veq v (of_list veq l').
Proof. intros; apply of_list_perm_elems; try veq_hyps; assumption. Qed.
Lemma vof_list_perm_size : forall l l',
  Permutation l l' -> List.length (of_list veq l) = List.length (of_list veq l').
Proof. intros; apply of_list_perm_size; try veq_hyps; assumption. Qed.

(* ================================================================== *)
(* 4. the property as a predicate on (case, observation); judge soundness *)
(* ================================================================== *)
Open Scope string_scope.

(* v is (equal to) one of the written elements *)
Definition inS (v : val) (l : list val) : Prop := memb veq v l = true.

Lemma inS_iff : forall v l, inS v l <-> exists x, In x l /\ veq v x = true.
Proof. intros. unfold inS, memb. apply existsb_exists. Qed.

(* the mathematical content of a set-valued case: which values belong to the result *)
Definition set_meaning (c : case) : option (val -> Prop) :=
  match c with
  | CLit _ a => Some (fun v => inS v a)
  | CBin OUnion _ _ a b => Some (fun v => inS v a \/ inS v b)
  | CBin OInter _ _ a b => Some (fun v => inS v a /\ inS v b)
  | CBin ODiff _ _ a b => Some (fun v => inS v a /\ ~ inS v b)
  | CBin OSym _ _ a b => Some (fun v => (inS v a /\ ~ inS v b) \/ (inS v b /\ ~ inS v a))
  | CComp out qs => match comp_values out qs with Some vs => Some (fun v => inS v vs) | None => None end
  | _ => None
  end.

(* ... and of a truth-valued case *)
Definition bool_meaning (c : case) : option Prop :=
  match c with
  | CRel RSub _ _ a b => Some (forall v, inS v a -> inS v b)
  | CRel RPSub _ _ a b => Some ((forall v, inS v a -> inS v b) /\ exists v, inS v b /\ ~ inS v a)
  | CRel RSup _ _ a b => Some (forall v, inS v b -> inS v a)
  | CRel RPSup _ _ a b => Some ((forall v, inS v b -> inS v a) /\ exists v, inS v a /\ ~ inS v b)
  | CMem neg _ x a => Some (if neg then ~ inS x a else inS x a)
  | _ => None
  end.

(* an observed set (reported kind k, reported size n, elements l) is a good answer for M *)
Definition good_set (M : val -> Prop) (k : string) (n : Z) (l : list val) : Prop :=
  NoDupA veqP l /\                                         (* no two equal elements *)
  n = Z.of_nat (List.length l) /\                          (* reported size = number of elements *)
  (forall v, inS v l <-> M v) /\                           (* exactly the mathematical elements *)
  (forall x, In x l -> kind_text x = k /\ val_ok x = true) /\  (* all of the set's element kind; nested sets are sets *)
  (l = [] -> k = "_").

Definition C14_spec (c : case) (o : sobs) : Prop :=
  match set_meaning c, bool_meaning c with
  | Some M, _ =>
      (exists k n l, o = SSet k n l /\ good_set M k n l) \/
      (o = SErr /\ exists v w, M v /\ M w /\ kind_text v <> kind_text w)   (* refusing a mixed-kind set is fine *)
  | None, Some P => exists b, o = SBool b /\ (b = true <-> P)
  | None, None => False
  end.

Lemma expected_set : forall c M, set_meaning c = Some M ->
  exists E, expected c = ESet E /\ nodupb veq E = true /\ forall v, inS v E <-> M v.
Proof.
  intros c M H. destruct c as [ra a|o ra rb a b|r ra rb a b|neg ra x a|out qs]; cbn in H; try discriminate.
  - inversion H; subst. eexists. split; [reflexivity|]. split; [apply vnodupb_of_list|].
    intros v. unfold inS. rewrite vmemb_of_list. reflexivity.
  - destruct o; inversion H; subst; eexists; (split; [reflexivity|]);
      (split; [apply vnodupb_of_list|]); intros v; unfold inS; cbn [set_op].
    + rewrite vmemb_union, !vmemb_of_list, orb_true_iff. reflexivity.
    + rewrite vmemb_inter, !vmemb_of_list, andb_true_iff. reflexivity.
    + rewrite vmemb_diff, !vmemb_of_list, andb_true_iff, negb_true_iff, not_true_iff_false. reflexivity.
    + rewrite vmemb_symdiff, !vmemb_of_list. rewrite !not_true_iff_false.
      destruct (memb veq v a), (memb veq v b); cbn; intuition discriminate.
  - cbn [expected]. destruct (comp_values out qs) as [vs|]; [|discriminate]. inversion H; subst.
    eexists. split; [reflexivity|]. split; [apply vnodupb_of_list|].
    intros v. unfold inS. rewrite vmemb_of_list. reflexivity.
Qed.

Lemma expected_bool : forall c P, set_meaning c = None -> bool_meaning c = Some P ->
  exists b, expected c = EBool b /\ (b = true <-> P).
Proof.
  intros c P Hs H. destruct c as [ra a|o ra rb a b|r ra rb a b|neg ra x a|out qs]; cbn in H; try discriminate.
  - destruct r; inversion H; subst; eexists; (split; [reflexivity|]); cbn [rel_op]; unfold inS.
    + rewrite vsubset_spec. setoid_rewrite vmemb_of_list. reflexivity.
    + rewrite vpsubset_spec. setoid_rewrite vmemb_of_list.
      setoid_rewrite not_true_iff_false. reflexivity.
    + rewrite vsuperset_spec. setoid_rewrite vmemb_of_list. reflexivity.
    + rewrite vpsuperset_spec. setoid_rewrite vmemb_of_list.
      setoid_rewrite not_true_iff_false. reflexivity.
  - inversion H; subst. eexists. split; [reflexivity|]. unfold inS. rewrite vmemb_of_list.
    destruct neg, (memb veq x a); cbn; intuition discriminate.
Qed.

Lemma kinds_ok_spec : forall k l, kinds_ok k l = true ->
  (forall x, In x l -> kind_text x = k) /\ (l = [] -> k = "_").
Proof.
  intros k [|y l] H.
  - cbn in H. apply String.eqb_eq in H. split; [intros x []|auto].
  - unfold kinds_ok in H. rewrite forallb_forall in H. split; [|discriminate].
    intros x Hx. apply String.eqb_eq. apply H. exact Hx.
Qed.

Lemma check_set_sound : forall E k n l t,
  check_set E k n l = VOk t -> good_set (fun v => inS v E) k n l.
Proof.
  intros E k n l t. unfold check_set.
  destruct (nodupb veq l) eqn:Hn; cbn [negb]; [|discriminate].
  destruct (Z.eqb n (Z.of_nat (List.length l))) eqn:Hs; cbn [negb]; [|discriminate].
  destruct (same_elems veq l E) eqn:He; cbn [negb]; [|discriminate].
  destruct (kinds_ok k l && forallb val_ok l) eqn:Hk; cbn [negb]; [|discriminate].
  intros _. apply andb_true_iff in Hk as [Hk Hv]. apply kinds_ok_spec in Hk as [Hk1 Hk2].
  rewrite forallb_forall in Hv. pose proof (proj1 (vsame_elems_spec l E) He) as Hse.
  unfold good_set. split; [apply vnodupb_NoDupA; exact Hn|]. split; [apply Z.eqb_eq; exact Hs|].
  split; [intros v; unfold inS; rewrite (Hse v); reflexivity|]. split; [|exact Hk2].
  intros x Hx. split; [apply Hk1 | apply Hv]; exact Hx.
Qed.

Lemma forallb_false_ex' : forall (A : Type) (f : A -> bool) l, forallb f l = false -> exists x, In x l /\ f x = false.
Proof.
  intros A f l. induction l as [|x l IH]; cbn [forallb]; [discriminate|].
  destruct (f x) eqn:Hf; cbn [andb].
  - intros H. destruct (IH H) as (y & Hy & Hfy). exists y. split; [right; exact Hy | exact Hfy].
  - intros _. exists x. split; [left; reflexivity | exact Hf].
Qed.

Lemma not_uniform_ex : forall E, uniform E = false ->
  exists v w, In v E /\ In w E /\ kind_text v <> kind_text w.
Proof.
  intros [|x r] H; [discriminate|]. unfold uniform in H.
  apply forallb_false_ex' in H as (y & Hy & Hk). exists y, x. repeat split.
  - right. exact Hy.
  - left. reflexivity.
  - intros Heq. rewrite Heq, String.eqb_refl in Hk. discriminate.
Qed.

(* the checker is sound for the property *)
Lemma check_sound : forall c o t, check c o = VOk t -> C14_spec c o.
Proof.
  intros c o t H. unfold C14_spec, check in *.
  destruct (set_meaning c) as [M|] eqn:Hm.
  - destruct (expected_set c M Hm) as (E & HE & _ & HM). rewrite HE in H.
    destruct o as [k n l|b| |]; try discriminate.
    + left. exists k, n, l. split; [reflexivity|].
      destruct (check_set_sound E k n l t H) as (G1 & G2 & G3 & G4 & G5).
      unfold good_set. repeat (split; [assumption|]). split; [|split; assumption].
      intros v. rewrite G3. apply HM.
    + right. split; [reflexivity|]. destruct (uniform E) eqn:Hu; [discriminate|].
      destruct (not_uniform_ex E Hu) as (v & w & Hv & Hw & Hk). exists v, w.
      split; [apply HM, vmemb_In; exact Hv|]. split; [apply HM, vmemb_In; exact Hw | exact Hk].
  - destruct (bool_meaning c) as [P|] eqn:Hb.
    + destruct (expected_bool c P Hm Hb) as (b & HE & HP). rewrite HE in H.
      destruct o as [k n l|b'| |]; try discriminate.
      destruct (Bool.eqb b b') eqn:Hbb; [|discriminate]. apply Bool.eqb_prop in Hbb. subst.
      exists b'. split; [reflexivity | exact HP].
    + destruct c as [ra a|o' ra rb a b|r ra rb a b|neg ra x a|out qs]; cbn in Hm, Hb; try discriminate.
      * destruct o'; discriminate.
      * destruct r; discriminate.
      * cbn [expected] in H. destruct (comp_values out qs); [discriminate|].
        destruct (comp_raises qs); discriminate.
Qed.

Lemma judge_val_sound : forall c os tag, judge_val c os = v_ok tag -> Forall (C14_spec c) os.
Proof.
  intros c os tag H. unfold judge_val in H. destruct os as [|o0 os]; [discriminate|].
  destruct (forallb (fun o => is_ok (check c o)) (o0 :: os)) eqn:Hall.
  - rewrite forallb_forall in Hall. apply Forall_forall. intros o Ho. specialize (Hall o Ho).
    destruct (check c o) as [t|w] eqn:Hc; [|discriminate]. exact (check_sound c o t Hc).
  - exfalso. assert (Hfb : forall l, first_bad c l <> v_ok tag).
    { induction l as [|o l IH]; cbn; [discriminate|]. destruct (check c o); [exact IH | discriminate]. }
    destruct (kf_class c); [destruct (faithful c) as [p|]|]; try (exact (Hfb _ H)).
    destruct (existsb (sobs_eqb p) (o0 :: os)); [discriminate | exact (Hfb _ H)].
Qed.

Lemma judge_case_sound : forall c os tag, judge_case c os = v_ok tag -> Forall (C14_spec c) os.
Proof.
  intros c os tag H. unfold judge_case in H.
  destruct (expected c); try (apply (judge_val_sound c os tag H)).
  destruct os as [|o os']; [discriminate|]. destruct (forallb is_err (o :: os')); discriminate.
Qed.

(* ================================================================== *)
(* 5. the faithful model violates the property on each known-finding class *)
(* ================================================================== *)
Lemma refute_dup : forall c M k n l,
  set_meaning c = Some M -> nodupb veq l = false -> ~ C14_spec c (SSet k n l).
Proof.
  intros c M k n l Hm Hn H. unfold C14_spec in H. rewrite Hm in H.
  destruct H as [(k' & n' & l' & Heq & Hg)|(Heq & _)]; [|discriminate].
  inversion Heq; subst. destruct Hg as (Hnd & _). apply vnodupb_NoDupA in Hnd. congruence.
Qed.

Lemma refute_kinds : forall c M k n l x y,
  set_meaning c = Some M -> In x l -> In y l -> kind_text x <> kind_text y -> ~ C14_spec c (SSet k n l).
Proof.
  intros c M k n l x y Hm Hx Hy Hk H. unfold C14_spec in H. rewrite Hm in H.
  destruct H as [(k' & n' & l' & Heq & Hg)|(Heq & _)]; [|discriminate].
  inversion Heq; subst. destruct Hg as (_ & _ & _ & Hkk & _).
  destruct (Hkk x Hx) as [Hx' _]. destruct (Hkk y Hy) as [Hy' _]. congruence.
Qed.

Definition f64_1 : val := VFlt "f64" 4607182418800017408.
Definition f64_2 : val := VFlt "f64" 4611686018427387904.
Definition f64_pz : val := VFlt "f64" 0.
Definition f64_nz : val := VFlt "f64" 9223372036854775808.

(* {{1,2},{2,1}} *)
Definition wit_nested : case :=
  CLit false [annot (VSet "" 0 [f64_1; f64_2]); annot (VSet "" 0 [f64_2; f64_1])].
(* {0.0, -0.0} *)
Definition wit_zero : case := CLit false [f64_pz; f64_nz].
(* {1} ∪ {"a"} *)
Definition wit_mixed : case := CBin OUnion false false [f64_1] [VStr "a"].
(* a := 1; A := {a}; B := {1}; A ∪ B *)
Definition wit_var : case := CBin OUnion true false [f64_1] [f64_1].

Lemma refuted_nested_set_order :
  exists o, wf_case wit_nested = true /\ kf_class wit_nested = Some "nested-set-order" /\
            faithful wit_nested = Some o /\ ~ C14_spec wit_nested o.
Proof.
  eexists. split; [vm_compute; reflexivity|]. split; [vm_compute; reflexivity|].
  split; [vm_compute; reflexivity|]. eapply refute_dup; [reflexivity | vm_compute; reflexivity].
Qed.

Lemma refuted_signed_zero :
  exists o, wf_case wit_zero = true /\ kf_class wit_zero = Some "signed-zero" /\
            faithful wit_zero = Some o /\ ~ C14_spec wit_zero o.
Proof.
  eexists. split; [vm_compute; reflexivity|]. split; [vm_compute; reflexivity|].
  split; [vm_compute; reflexivity|]. eapply refute_dup; [reflexivity | vm_compute; reflexivity].
Qed.

Lemma refuted_mixed_kind_operands :
  exists o, wf_case wit_mixed = true /\ kf_class wit_mixed = Some "mixed-kind-operands" /\
            faithful wit_mixed = Some o /\ ~ C14_spec wit_mixed o.
Proof.
  eexists. split; [vm_compute; reflexivity|]. split; [vm_compute; reflexivity|].
  split; [vm_compute; reflexivity|].
  eapply (refute_kinds _ _ _ _ _ f64_1 (VStr "a")); [reflexivity | left; reflexivity | right; left; reflexivity | discriminate].
Qed.

Lemma refuted_variable_elements :
  exists o, wf_case wit_var = true /\ kf_class wit_var = Some "variable-elements" /\
            faithful wit_var = Some o /\ ~ C14_spec wit_var o.
Proof.
  eexists. split; [vm_compute; reflexivity|]. split; [vm_compute; reflexivity|].
  split; [vm_compute; reflexivity|]. eapply refute_dup; [reflexivity | vm_compute; reflexivity].
Qed.

(* ================================================================== *)
(* 6. results do not depend on the order (or repetition) in which elements were written *)
(* ================================================================== *)
Lemma vmemb_perm : forall v l l', Permutation l l' -> memb veq v l = memb veq v l'.
Proof. intros. apply memb_perm. assumption. Qed.

Lemma vsubset_ext : forall a a' b b',
  (forall v, memb veq v a = memb veq v a') -> (forall v, memb veq v b = memb veq v b') ->
  subset veq a b = subset veq a' b'.
Proof. intros; apply subset_ext; try veq_hyps; assumption. Qed.

Lemma set_op_nodup : forall o a b, nodupb veq (set_op o a b) = true.
Proof. intros [] a b; apply vnodupb_of_list. Qed.

Lemma set_op_ext : forall o a a' b b',
  (forall v, memb veq v a = memb veq v a') -> (forall v, memb veq v b = memb veq v b') ->
  forall v, memb veq v (set_op o a b) = memb veq v (set_op o a' b').
Proof.
  intros o a a' b b' Ha Hb v. destruct o; cbn [set_op].
  - rewrite !vmemb_union. congruence.
  - rewrite !vmemb_inter. congruence.
  - rewrite !vmemb_diff. congruence.
  - rewrite !vmemb_symdiff. congruence.
Qed.

Lemma rel_op_ext : forall r a a' b b',
  (forall v, memb veq v a = memb veq v a') -> (forall v, memb veq v b = memb veq v b') ->
  rel_op r a b = rel_op r a' b'.
Proof.
  intros r a a' b b' Ha Hb. destruct r; cbn [rel_op]; unfold psuperset, superset, psubset.
  - apply vsubset_ext; assumption.
  - rewrite (vsubset_ext a a' b b' Ha Hb), (vsubset_ext b b' a a' Hb Ha). reflexivity.
  - apply vsubset_ext; assumption.
  - rewrite (vsubset_ext a a' b b' Ha Hb), (vsubset_ext b b' a a' Hb Ha). reflexivity.
Qed.

Lemma order_irrelevant_ops : forall o a a' b b', Permutation a a' -> Permutation b b' ->
  (forall v, memb veq v (set_op o (of_list veq a) (of_list veq b)) =
             memb veq v (set_op o (of_list veq a') (of_list veq b'))) /\
  List.length (set_op o (of_list veq a) (of_list veq b)) = List.length (set_op o (of_list veq a') (of_list veq b')).
Proof.
  intros o a a' b b' Ha Hb.
  assert (H : forall v, memb veq v (set_op o (of_list veq a) (of_list veq b)) =
                        memb veq v (set_op o (of_list veq a') (of_list veq b'))).
  { apply set_op_ext; intros v; apply vof_list_perm_elems; assumption. }
  split; [exact H|]. apply vsame_elems_length; try apply set_op_nodup. exact H.
Qed.

Lemma order_irrelevant_rels : forall r a a' b b', Permutation a a' -> Permutation b b' ->
  rel_op r (of_list veq a) (of_list veq b) = rel_op r (of_list veq a') (of_list veq b').
Proof. intros. apply rel_op_ext; intros v; apply vof_list_perm_elems; assumption. Qed.

Lemma order_irrelevant_mem : forall x a a', Permutation a a' ->
  memb veq x (of_list veq a) = memb veq x (of_list veq a').
Proof. intros. apply vof_list_perm_elems. assumption. Qed.

(* ================================================================== *)
(* 7. outside the known-finding classes the faithful model satisfies the property *)
(* ================================================================== *)
Open Scope list_scope.

Lemma fold_add_In : forall (A : Type) (eqb : A -> A -> bool) l acc x,
  In x (fold_left (add eqb) l acc) -> In x acc \/ In x l.
Proof.
  intros A eqb l. induction l as [|y l IH]; intros acc x H; cbn [fold_left] in H; [left; exact H|].
  apply IH in H as [H|H]; [|right; right; exact H].
  unfold add in H. destruct (memb eqb y acc); [left; exact H|].
  apply in_app_or in H as [H|[H|[]]]; [left; exact H | right; left; exact H].
Qed.

Lemma of_list_In : forall (A : Type) (eqb : A -> A -> bool) l x, In x (of_list eqb l) -> In x l.
Proof. intros A eqb l x H. apply fold_add_In in H as [[]|H]. exact H. Qed.

Lemma of_list_incl : forall (A : Type) (eqb : A -> A -> bool) l W, incl l W -> incl (of_list eqb l) W.
Proof. intros A eqb l W H x Hx. apply H. eapply of_list_In. exact Hx. Qed.

(* on W the hash, the implementation's == and the canonical equality coincide *)
Definition agreeW (W : list val) : Prop :=
  forall x y, In x W -> In y W ->
    heq x y = veq x y /\ feq x y = veq x y /\ (veq x y = true -> kind_text x = kind_text y).

Lemma all_agree_agreeW : forall W, all_agree W = true -> agreeW W.
Proof.
  intros W H x y Hx Hy. unfold all_agree in H. rewrite forallb_forall in H.
  specialize (H x Hx). rewrite forallb_forall in H. specialize (H y Hy). unfold agree in H.
  apply andb_true_iff in H as [H H3]. apply andb_true_iff in H as [H1 H2].
  apply Bool.eqb_prop in H1, H2. repeat split; try assumption.
  intros Hv. rewrite Hv in H3. cbn in H3. apply String.eqb_eq. exact H3.
Qed.

Lemma tag_app : forall r l l', tag r (l ++ l') = tag r l ++ tag r l'.
Proof. intros. unfold tag. apply map_app. Qed.

Lemma snd_tag : forall r l, map snd (tag r l) = l.
Proof. intros r l. unfold tag. rewrite map_map. cbn. apply map_id. Qed.

Section Holds.
  Context (W : list val) (HW : agreeW W).

  Lemma memb_theq_tag : forall rx x r acc, In x W -> incl acc W ->
    memb theq (rx, x) (tag r acc) = Bool.eqb rx r && memb veq x acc.
  Proof.
    intros rx x r acc Hx. induction acc as [|y acc IH]; intros Hacc.
    - cbn. rewrite andb_false_r. reflexivity.
    - cbn [tag map]. fold (tag r acc). rewrite !memb_cons, IH by (intros z Hz; apply Hacc; right; exact Hz).
      unfold theq. cbn [fst snd]. destruct (HW x y Hx (Hacc y (or_introl eq_refl))) as (H1 & _ & _).
      rewrite H1. destruct (Bool.eqb rx r); reflexivity.
  Qed.

  Lemma Fget_tag : forall rx x r s, In x W -> incl s W ->
    Fget (rx, x) (tag r s) = Bool.eqb rx r && memb veq x s.
  Proof.
    intros rx x r s Hx Hs. destruct s as [|y [|z s']].
    - cbn. rewrite andb_false_r. reflexivity.
    - cbn [tag map Fget]. unfold tfeq. cbn [fst snd]. rewrite memb_cons, memb_nil, orb_false_r.
      destruct (HW x y Hx (Hs y (or_introl eq_refl))) as (_ & H2 & _). rewrite H2. reflexivity.
    - change (Fget (rx, x) (tag r (y :: z :: s'))) with (memb theq (rx, x) (tag r (y :: z :: s'))).
      apply memb_theq_tag; assumption.
  Qed.

  Lemma fold_add_tag : forall r l acc, incl l W -> incl acc W ->
    fold_left (add theq) (tag r l) (tag r acc) = tag r (fold_left (add veq) l acc).
  Proof.
    intros r l. induction l as [|x l IH]; intros acc Hl Hacc; [reflexivity|].
    cbn [tag map fold_left]. fold (tag r l).
    assert (Hx : In x W) by (apply Hl; left; reflexivity).
    assert (Hadd : add theq (tag r acc) (r, x) = tag r (add veq acc x)).
    { unfold add. rewrite memb_theq_tag by assumption. rewrite Bool.eqb_reflx. cbn [andb].
      destruct (memb veq x acc); [reflexivity|]. rewrite tag_app. reflexivity. }
    rewrite Hadd. apply IH.
    - intros z Hz. apply Hl. right. exact Hz.
    - intros z Hz. unfold add in Hz. destruct (memb veq x acc); [apply Hacc; exact Hz|].
      apply in_app_or in Hz as [Hz|[Hz|[]]]; [apply Hacc; exact Hz | subst; exact Hx].
  Qed.

  Lemma Fbuild_tag : forall r l, incl l W -> Fbuild (tag r l) = tag r (of_list veq l).
  Proof.
    intros r l Hl. unfold Fbuild, of_list. apply (fold_add_tag r l [] Hl). intros z [].
  Qed.

  (* filtering one operand by look-ups in the other *)
  Lemma filter_Fget_tag : forall (p : bool -> bool) ra rb sa sb,
    incl sa W -> incl sb W -> (ra = rb \/ sa = [] \/ sb = []) ->
    filter (fun t => p (Fget t (tag rb sb))) (tag ra sa) = tag ra (filter (fun x => p (memb veq x sb)) sa).
  Proof.
    intros p ra rb sa sb Ha Hb Hc. induction sa as [|x sa IH]; [reflexivity|].
    assert (Hx : In x W) by (apply Ha; left; reflexivity).
    assert (Hsa : incl sa W) by (intros z Hz; apply Ha; right; exact Hz).
    assert (Hg : Fget (ra, x) (tag rb sb) = memb veq x sb).
    { rewrite Fget_tag by assumption. destruct Hc as [Hc|[Hc|Hc]].
      - subst. rewrite Bool.eqb_reflx. reflexivity.
      - discriminate.
      - subst. rewrite andb_false_r. reflexivity. }
    cbn [tag map filter]. fold (tag ra sa). rewrite Hg.
    assert (IH' : filter (fun t => p (Fget t (tag rb sb))) (tag ra sa) = tag ra (filter (fun x => p (memb veq x sb)) sa)).
    { destruct sa as [|x' sa']; [reflexivity|]. apply IH; [exact Hsa|].
      destruct Hc as [Hc|[Hc|Hc]]; [left; exact Hc | discriminate | right; right; exact Hc]. }
    rewrite IH'. destruct (p (memb veq x sb)); reflexivity.
  Qed.
End Holds.

Definition samekind (l : list val) : Prop := forall x y, In x l -> In y l -> kind_text x = kind_text y.

Lemma uniform_samekind : forall l, uniform l = true <-> samekind l.
Proof.
  intros [|x r]; cbn [uniform].
  - split; [intros _ ? ? [] | reflexivity].
  - rewrite forallb_forall. split.
    + intros H y z Hy Hz.
      assert (Hk : forall w, In w (x :: r) -> kind_text w = kind_text x).
      { intros w [Hw|Hw]; [subst; reflexivity | apply String.eqb_eq, H; exact Hw]. }
      rewrite (Hk y Hy), (Hk z Hz). reflexivity.
    + intros H y Hy. apply String.eqb_eq. apply H; [right; exact Hy | left; reflexivity].
Qed.

Lemma samekind_incl : forall l l', samekind l -> incl l' l -> samekind l'.
Proof. intros l l' H Hi x y Hx Hy. apply H; apply Hi; assumption. Qed.

Lemma check_self : forall E,
  nodupb veq E = true -> samekind E -> forallb val_ok E = true ->
  exists t, check_set E (elem_kind E) (Z.of_nat (List.length E)) E = VOk t.
Proof.
  intros E Hn Hk Hv. unfold check_set. rewrite Hn, Z.eqb_refl. cbn [negb].
  assert (Hs : same_elems veq E E = true) by (apply vsame_elems_spec; reflexivity).
  rewrite Hs. cbn [negb].
  assert (Hko : kinds_ok (elem_kind E) E = true).
  { destruct E as [|x r]; [reflexivity|]. unfold kinds_ok, elem_kind. apply forallb_forall.
    intros y Hy. apply String.eqb_eq. apply Hk; [exact Hy | left; reflexivity]. }
  rewrite Hko, Hv. cbn [negb andb]. eexists. reflexivity.
Qed.

Lemma tag_merge : forall ra rb l1 l2, (ra = rb \/ l1 = [] \/ l2 = []) ->
  exists r', tag ra l1 ++ tag rb l2 = tag r' (l1 ++ l2).
Proof.
  intros ra rb l1 l2 [H|[H|H]]; subst.
  - exists rb. rewrite tag_app. reflexivity.
  - exists rb. reflexivity.
  - exists ra. cbn. rewrite !app_nil_r. reflexivity.
Qed.

Lemma filter_incl : forall (A : Type) (p : A -> bool) l W, incl l W -> incl (filter p l) W.
Proof. intros A p l W H x Hx. apply filter_In in Hx as [Hx _]. apply H. exact Hx. Qed.

Lemma Fop_tag : forall W, agreeW W -> forall o ra rb sa sb,
  incl sa W -> incl sb W -> (ra = rb \/ sa = [] \/ sb = []) ->
  exists r', Fop o (tag ra sa) (tag rb sb) = tag r' (set_op o sa sb).
Proof.
  intros W HW o ra rb sa sb Ha Hb Hc.
  assert (Hc' : rb = ra \/ sb = [] \/ sa = []) by (destruct Hc as [Hc|[Hc|Hc]]; auto).
  pose proof (filter_Fget_tag W HW negb ra rb sa sb Ha Hb Hc) as Hout_ab.
  pose proof (filter_Fget_tag W HW negb rb ra sb sa Hb Ha Hc') as Hout_ba.
  pose proof (filter_Fget_tag W HW (fun b => b) ra rb sa sb Ha Hb Hc) as Hin_ab.
  cbn beta in Hin_ab.
  destruct o; cbn [Fop set_op].
  - rewrite Hout_ba.
    destruct (tag_merge ra rb sa (filter (fun x => negb (memb veq x sa)) sb)) as (r' & Hr).
    { destruct Hc as [Hc|[Hc|Hc]]; [left; exact Hc | right; left; exact Hc | right; right; subst; reflexivity]. }
    rewrite Hr. exists r'. rewrite (Fbuild_tag W HW); [reflexivity|].
    apply incl_app; [exact Ha | apply filter_incl; exact Hb].
  - rewrite Hin_ab. exists ra. rewrite (Fbuild_tag W HW); [reflexivity|]. apply filter_incl; exact Ha.
  - rewrite Hout_ab. exists ra. rewrite (Fbuild_tag W HW); [reflexivity|]. apply filter_incl; exact Ha.
  - rewrite Hout_ab, Hout_ba.
    destruct (tag_merge ra rb (filter (fun x => negb (memb veq x sb)) sa) (filter (fun x => negb (memb veq x sa)) sb)) as (r' & Hr).
    { destruct Hc as [Hc|[Hc|Hc]]; [left; exact Hc | right; left; subst; reflexivity | right; right; subst; reflexivity]. }
    rewrite Hr. exists r'. rewrite (Fbuild_tag W HW); [reflexivity|].
    apply incl_app; apply filter_incl; assumption.
Qed.

Lemma set_op_incl : forall o sa sb, incl (set_op o sa sb) (sa ++ sb).
Proof.
  intros o sa sb x Hx. destruct o; cbn [set_op] in Hx; apply of_list_In in Hx.
  - apply in_app_or in Hx as [Hx|Hx]; apply in_or_app; [left; exact Hx|].
    right. apply filter_In in Hx as [Hx _]. exact Hx.
  - apply filter_In in Hx as [Hx _]. apply in_or_app. left. exact Hx.
  - apply filter_In in Hx as [Hx _]. apply in_or_app. left. exact Hx.
  - apply in_app_or in Hx as [Hx|Hx]; apply filter_In in Hx as [Hx _]; apply in_or_app; [left|right]; exact Hx.
Qed.

Lemma set_op_incl_l : forall o sa sb, (o = OInter \/ o = ODiff) -> incl (set_op o sa sb) sa.
Proof.
  intros o sa sb [H|H] x Hx; subst; cbn [set_op] in Hx; apply of_list_In in Hx;
    apply filter_In in Hx as [Hx _]; exact Hx.
Qed.

Lemma Fsubset_tag : forall W, agreeW W -> forall ra rb sa sb,
  incl sa W -> incl sb W -> nodupb veq sa = true -> (ra = rb \/ sa = [] \/ sb = []) ->
  Fsubset (tag ra sa) (tag rb sb) = subset veq sa sb.
Proof.
  intros W HW ra rb sa sb Ha Hb Hn Hc. unfold Fsubset, tag. rewrite !map_length. fold (tag ra sa) (tag rb sb).
  assert (Hf : forallb (fun t => Fget t (tag rb sb)) (tag ra sa) = subset veq sa sb).
  { unfold subset. clear Hn. induction sa as [|x sa IH]; [reflexivity|].
    assert (Hx : In x W) by (apply Ha; left; reflexivity).
    assert (Hsa : incl sa W) by (intros z Hz; apply Ha; right; exact Hz).
    cbn [tag map forallb]. fold (tag ra sa). rewrite (Fget_tag W HW) by assumption.
    destruct Hc as [Hc|[Hc|Hc]]; [| discriminate |].
    - subst. rewrite Bool.eqb_reflx. cbn [andb]. f_equal. apply IH; [exact Hsa | left; reflexivity].
    - subst. cbn. rewrite andb_false_r. reflexivity. }
  rewrite Hf. destruct (subset veq sa sb) eqn:Hs; [|apply andb_false_r].
  rewrite andb_true_r. apply Nat.leb_le.
  apply (subset_length veq veq_refl veq_sym veq_trans); [exact Hn | apply vsubset_spec; exact Hs].
Qed.

Lemma forallb_incl : forall (A : Type) (f : A -> bool) l W, forallb f W = true -> incl l W -> forallb f l = true.
Proof.
  intros A f l W H Hi. rewrite forallb_forall in *. intros x Hx. apply H, Hi, Hx.
Qed.

Lemma samekind_app : forall a b, samekind a -> samekind b ->
  (a = [] \/ b = [] \/ exists x y, In x a /\ In y b /\ kind_text x = kind_text y) -> samekind (a ++ b).
Proof.
  intros a b Ha Hb [H|[H|(x & y & Hx & Hy & Hk)]]; subst.
  - exact Hb.
  - rewrite app_nil_r. exact Ha.
  - intros u v Hu Hv. apply in_app_or in Hu, Hv.
    destruct Hu as [Hu|Hu], Hv as [Hv|Hv].
    + apply Ha; assumption.
    + rewrite (Ha u x Hu Hx), Hk. apply Hb; assumption.
    + rewrite (Hb u y Hu Hy), <- Hk. apply Ha; assumption.
    + apply Hb; assumption.
Qed.

Lemma mk_set_tag : forall r E, mk_set (tag r E) = SSet (elem_kind E) (Z.of_nat (List.length E)) E.
Proof. intros. unfold mk_set. rewrite snd_tag. reflexivity. Qed.

Lemma of_list_nil_inv : forall a, a = [] -> of_list veq a = [].
Proof. intros; subst; reflexivity. Qed.

Lemma incl_app_l : forall (A : Type) (l a b : list A), incl l a -> incl l (a ++ b).
Proof. intros A l a b H x Hx. apply in_or_app. left. apply H, Hx. Qed.
Lemma incl_app_r : forall (A : Type) (l a b : list A), incl l b -> incl l (a ++ b).
Proof. intros A l a b H x Hx. apply in_or_app. right. apply H, Hx. Qed.

Lemma holds_check : forall c o,
  wf_case c = true -> kf_class c = None -> faithful c = Some o -> exists t, check c o = VOk t.
Proof.
  intros c o Hwf Hkf Hf. unfold wf_case in Hwf.
  apply andb_true_iff in Hwf as [Hwf _]. apply andb_true_iff in Hwf as [Hvok Hops].
  destruct c as [ra a|op ra rb a b|r ra rb a b|neg ra x a|out qs]; [| | | |discriminate].
  - (* literal *)
    unfold kf_class in Hkf. cbn [variable_elements mixed_operands written] in Hkf.
    destruct (all_agree a) eqn:Hag; [|destruct (all_agree (map norm0 a)); discriminate].
    pose proof (all_agree_agreeW a Hag) as HW. cbn [case_vals written] in Hvok.
    cbn [faithful] in Hf. unfold check. cbn [expected].
    set (E := of_list veq a) in *.
    assert (HE : incl E a) by (apply of_list_incl; apply incl_refl).
    destruct (uniform a) eqn:Hu; inversion Hf; subst o.
    + rewrite (Fbuild_tag a HW) by apply incl_refl. rewrite mk_set_tag. apply check_self.
      * apply vnodupb_of_list.
      * apply (samekind_incl a); [apply uniform_samekind; exact Hu | exact HE].
      * apply (forallb_incl _ _ _ a); assumption.
    + destruct (uniform E) eqn:HuE; [|eexists; reflexivity]. exfalso.
      apply uniform_samekind in HuE.
      assert (Hs : samekind a).
      { assert (Hrep : forall x, In x a -> exists x', In x' E /\ kind_text x = kind_text x').
        { intros x Hx. assert (Hm : memb veq x E = true) by (unfold E; rewrite vmemb_of_list; apply vmemb_In; exact Hx).
          apply inS_iff in Hm as (x' & Hx' & Hv). exists x'. split; [exact Hx'|].
          apply (HW x x' Hx (HE x' Hx')). exact Hv. }
        intros x y Hx Hy. destruct (Hrep x Hx) as (x' & Hx' & Hkx). destruct (Hrep y Hy) as (y' & Hy' & Hky).
        rewrite Hkx, Hky. apply HuE; assumption. }
      apply uniform_samekind in Hs. congruence.
  - (* operator *)
    unfold kf_class in Hkf. destruct (variable_elements (CBin op ra rb a b)) eqn:Hve; [discriminate|].
    destruct (mixed_operands (CBin op ra rb a b)) eqn:Hmx; [discriminate|].
    cbn [written] in Hkf.
    destruct (all_agree (a ++ b)) eqn:Hag; [|destruct (all_agree (map norm0 (a ++ b))); discriminate].
    pose proof (all_agree_agreeW _ Hag) as HW. cbn [case_vals written] in Hvok.
    cbn [operands_ok] in Hops. apply andb_true_iff in Hops as [Hua Hub].
    apply uniform_samekind in Hua, Hub.
    cbn [faithful] in Hf. inversion Hf; subst o. unfold check. cbn [expected].
    set (sa := of_list veq a) in *. set (sb := of_list veq b) in *.
    assert (Hsa : incl sa a) by (apply of_list_incl; apply incl_refl).
    assert (Hsb : incl sb b) by (apply of_list_incl; apply incl_refl).
    assert (HsaW : incl sa (a ++ b)) by (apply incl_app_l; exact Hsa).
    assert (HsbW : incl sb (a ++ b)) by (apply incl_app_r; exact Hsb).
    assert (Hc : ra = rb \/ sa = [] \/ sb = []).
    { cbn [variable_elements] in Hve. destruct (Bool.eqb ra rb) eqn:Hr; [left; apply Bool.eqb_prop; exact Hr|].
      cbn [negb andb] in Hve. destruct a as [|? ?]; [right; left; reflexivity|].
      destruct b as [|? ?]; [right; right; reflexivity | discriminate]. }
    rewrite (Fbuild_tag (a ++ b) HW ra a) by (apply incl_app_l, incl_refl).
    rewrite (Fbuild_tag (a ++ b) HW rb b) by (apply incl_app_r, incl_refl).
    fold sa sb. destruct (Fop_tag (a ++ b) HW op ra rb sa sb HsaW HsbW Hc) as (r' & Hr').
    rewrite Hr', mk_set_tag. apply check_self.
    + apply set_op_nodup.
    + assert (Hio : op = OInter \/ op = ODiff \/ op = OUnion \/ op = OSym) by (destruct op; auto).
      destruct Hio as [Hio|[Hio|Hio]].
      * apply (samekind_incl a); [exact Hua|]. intros z Hz. apply Hsa. apply (set_op_incl_l op sa sb); [left; exact Hio | exact Hz].
      * apply (samekind_incl a); [exact Hua|]. intros z Hz. apply Hsa. apply (set_op_incl_l op sa sb); [right; exact Hio | exact Hz].
      * apply (samekind_incl (a ++ b)).
        -- apply samekind_app; [exact Hua | exact Hub|].
           destruct a as [|x a']; [left; reflexivity|]. destruct b as [|y b']; [right; left; reflexivity|].
           right; right. exists x, y. split; [left; reflexivity|]. split; [left; reflexivity|].
           cbn [mixed_operands] in Hmx.
           destruct Hio as [Hio|Hio]; subst op; cbn [andb] in Hmx; apply negb_false_iff in Hmx;
             apply String.eqb_eq; exact Hmx.
        -- intros z Hz. apply set_op_incl in Hz. apply in_app_or in Hz as [Hz|Hz]; apply in_or_app;
             [left; apply Hsa | right; apply Hsb]; exact Hz.
    + apply (forallb_incl _ _ _ (a ++ b)); [exact Hvok|].
      intros z Hz. apply set_op_incl in Hz. apply in_app_or in Hz as [Hz|Hz]; [apply HsaW | apply HsbW]; exact Hz.
  - (* relation *)
    unfold kf_class in Hkf. destruct (variable_elements (CRel r ra rb a b)) eqn:Hve; [discriminate|].
    cbn [mixed_operands written] in Hkf.
    destruct (all_agree (a ++ b)) eqn:Hag; [|destruct (all_agree (map norm0 (a ++ b))); discriminate].
    pose proof (all_agree_agreeW _ Hag) as HW.
    cbn [faithful] in Hf. inversion Hf; subst o. unfold check. cbn [expected].
    set (sa := of_list veq a) in *. set (sb := of_list veq b) in *.
    assert (HsaW : incl sa (a ++ b)) by (apply incl_app_l, of_list_incl, incl_refl).
    assert (HsbW : incl sb (a ++ b)) by (apply incl_app_r, of_list_incl, incl_refl).
    assert (Hna : nodupb veq sa = true) by apply vnodupb_of_list.
    assert (Hnb : nodupb veq sb = true) by apply vnodupb_of_list.
    assert (Hc : ra = rb \/ sa = [] \/ sb = []).
    { cbn [variable_elements] in Hve. destruct (Bool.eqb ra rb) eqn:Hr; [left; apply Bool.eqb_prop; exact Hr|].
      cbn [negb andb] in Hve. destruct a as [|? ?]; [right; left; reflexivity|].
      destruct b as [|? ?]; [right; right; reflexivity | discriminate]. }
    assert (Hc' : rb = ra \/ sb = [] \/ sa = []) by (destruct Hc as [Hc|[Hc|Hc]]; auto).
    rewrite (Fbuild_tag (a ++ b) HW ra a) by (apply incl_app_l, incl_refl).
    rewrite (Fbuild_tag (a ++ b) HW rb b) by (apply incl_app_r, incl_refl).
    fold sa sb.
    assert (Hrel : Frel r (tag ra sa) (tag rb sb) = rel_op r sa sb).
    { pose proof (Fsubset_tag (a ++ b) HW ra rb sa sb HsaW HsbW Hna Hc) as H1.
      pose proof (Fsubset_tag (a ++ b) HW rb ra sb sa HsbW HsaW Hnb Hc') as H2.
      destruct r; cbn [Frel rel_op]; unfold tag; rewrite ?map_length; fold (tag ra sa) (tag rb sb); rewrite ?H1, ?H2.
      - reflexivity.
      - apply (vpsubset_len_spec sa sb Hna Hnb).
      - reflexivity.
      - apply (vpsubset_len_spec sb sa Hnb Hna). }
    rewrite Hrel. rewrite Bool.eqb_reflx. eexists. reflexivity.
  - (* membership *)
    unfold kf_class in Hkf. destruct (variable_elements (CMem neg ra x a)) eqn:Hve; [discriminate|].
    cbn [mixed_operands written] in Hkf.
    destruct (all_agree (x :: a)) eqn:Hag; [|destruct (all_agree (map norm0 (x :: a))); discriminate].
    pose proof (all_agree_agreeW _ Hag) as HW.
    cbn [operands_ok] in Hops. apply uniform_samekind in Hops.
    cbn [faithful] in Hf. inversion Hf; subst o. unfold check. cbn [expected].
    set (sa := of_list veq a) in *.
    assert (Hsa : incl sa a) by (apply of_list_incl; apply incl_refl).
    assert (HsaW : incl sa (x :: a)) by (intros z Hz; right; apply Hsa; exact Hz).
    rewrite (Fbuild_tag (x :: a) HW ra a) by (intros z Hz; right; exact Hz). fold sa.
    assert (Hm : Fmem x (tag ra sa) = memb veq x sa).
    { destruct sa as [|y s'] eqn:Hsa_eq; [reflexivity|].
      assert (Hra : ra = false).
      { cbn [variable_elements] in Hve. destruct ra; [|reflexivity]. destruct a; [discriminate Hsa_eq | discriminate Hve]. }
      subst ra. cbn [tag map Fmem negb andb]. change ((false, y) :: map (pair false) s') with (tag false (y :: s')).
      rewrite (Fget_tag (x :: a) HW) by (try (left; reflexivity); exact HsaW). cbn [Bool.eqb andb].
      destruct (memb veq x (y :: s')) eqn:Hmem; [|apply andb_false_r]. rewrite andb_true_r.
      apply inS_iff in Hmem as (z & Hz & Hv). apply String.eqb_eq.
      assert (Hkx : kind_text x = kind_text z).
      { apply (HW x z); [left; reflexivity | apply HsaW; exact Hz | exact Hv]. }
      rewrite Hkx. apply Hops; apply Hsa; [left; reflexivity | exact Hz]. }
    rewrite Hm, Bool.eqb_reflx. eexists. reflexivity.
Qed.

Lemma holds : forall c o,
  wf_case c = true -> kf_class c = None -> faithful c = Some o -> C14_spec c o.
Proof.
  intros c o H1 H2 H3. destruct (holds_check c o H1 H2 H3) as (t & Ht). exact (check_sound c o t Ht).
Qed.

(* ================================================================== *)
(* 8. equal hash streams imply == (justifies modelling a hash-table hit by [heq] alone) *)
(* ================================================================== *)
Lemma heq_tup_unfold : forall l l', heq (VTup l) (VTup l') = all2 heq l l'.
Proof. reflexivity. Qed.
Lemma heq_set_unfold : forall k n l k' n' l', heq (VSet k n l) (VSet k' n' l') = all2 heq l l'.
Proof. reflexivity. Qed.
Lemma feq_tup_unfold : forall l l', feq (VTup l) (VTup l') = all2 feq l l'.
Proof. reflexivity. Qed.
Lemma feq_set_unfold : forall k n l k' n' l',
  feq (VSet k n l) (VSet k' n' l') =
  Nat.eqb (List.length l) (List.length l') &&
  forallb (fun x => match l' with [] => false | [y] => feq x y | _ => existsb (heq x) l' end) l.
Proof. reflexivity. Qed.

Lemma all2_length : forall (f : val -> val -> bool) l l', all2 f l l' = true -> List.length l = List.length l'.
Proof.
  intros f l. induction l as [|x l IH]; intros [|y l'] H; cbn in *; try discriminate; [reflexivity|].
  apply andb_true_iff in H as [_ H]. f_equal. apply IH. exact H.
Qed.

Lemma all2_In : forall (f : val -> val -> bool) l l' x, all2 f l l' = true -> In x l ->
  exists y, In y l' /\ f x y = true.
Proof.
  intros f l. induction l as [|z l IH]; intros [|y l'] x H Hx; cbn in *; try discriminate; [destruct Hx|].
  apply andb_true_iff in H as [H1 H2]. destruct Hx as [Hx|Hx].
  - subst. exists y. split; [left; reflexivity | exact H1].
  - destruct (IH l' x H2 Hx) as (y' & Hy' & Hf). exists y'. split; [right; exact Hy' | exact Hf].
Qed.

Lemma all2_impl_in : forall (f g : val -> val -> bool) l,
  Forall (fun x => forall y, f x y = true -> g x y = true) l ->
  forall l', all2 f l l' = true -> all2 g l l' = true.
Proof.
  intros f g l H. induction H as [|x l Hx _ IH]; intros [|y l'] H2; cbn in *; try discriminate; [reflexivity|].
  apply andb_true_iff in H2 as [H2 H3]. rewrite (Hx y H2), (IH l' H3). reflexivity.
Qed.

Lemma heq_feq : forall a b, heq a b = true -> feq a b = true.
Proof.
  apply (val_ind' (fun a => forall b, heq a b = true -> feq a b = true)).
  - intros k z []; cbn; try discriminate. auto.
  - intros k x []; cbn; try discriminate. intros H. apply andb_true_iff in H as [H1 H2].
    rewrite H1, H2. reflexivity.
  - intros n d []; cbn; try discriminate. auto.
  - intros s []; cbn; try discriminate. auto.
  - intros x []; cbn; try discriminate. auto.
  - intros l IH []; try discriminate. rewrite heq_tup_unfold, feq_tup_unfold. apply all2_impl_in. exact IH.
  - intros k n l IH []; try discriminate. rewrite heq_set_unfold, feq_set_unfold. intros H.
    rewrite (all2_length _ _ _ H), Nat.eqb_refl. cbn [andb]. apply forallb_forall. intros x Hx.
    destruct (all2_In _ _ _ x H Hx) as (y & Hy & Hxy). rewrite Forall_forall in IH.
    destruct l0 as [|y0 [|y1 r]].
    + destruct Hy.
    + destruct Hy as [Hy|[]]. subst. apply IH; assumption.
    + apply existsb_exists. exists y. split; assumption.
Qed.

(* ================================================================== *)
(* 9. comprehensions: what the qualifier machinery computes for the basic shapes *)
(* ================================================================== *)
Lemma lookup_hd : forall x v e, lookup x ((x, v) :: e) = Some v.
Proof. intros. cbn. rewrite String.eqb_refl. reflexivity. Qed.

Lemma map_opt_map_some : forall (A B C : Type) (f : B -> option C) (g : A -> B) (h : A -> C) l,
  (forall a, f (g a) = Some (h a)) -> map_opt f (map g l) = Some (map h l).
Proof.
  intros A B C f g h l H. induction l as [|a l IH]; [reflexivity|]. cbn. rewrite H, IH. reflexivity.
Qed.

Lemma map_opt_app : forall (A B : Type) (f : A -> option B) l l' r r',
  map_opt f l = Some r -> map_opt f l' = Some r' -> map_opt f (l ++ l') = Some (r ++ r').
Proof.
  intros A B f l. induction l as [|a l IH]; intros l' r r' H H'; cbn in *.
  - inversion H; subst. exact H'.
  - destruct (f a); [|discriminate]. destruct (map_opt f l) as [s|] eqn:Hs; [|discriminate].
    inversion H; subst. rewrite (IH l' s r' eq_refl H'). reflexivity.
Qed.

Lemma map_opt_flat_map : forall (A B C : Type) (f : B -> option C) (g : A -> list B) (h : A -> list C) l,
  (forall a, map_opt f (g a) = Some (h a)) -> map_opt f (flat_map g l) = Some (flat_map h l).
Proof.
  intros A B C f g h l H. induction l as [|a l IH]; [reflexivity|]. cbn [flat_map].
  apply map_opt_app; [apply H | exact IH].
Qed.

Lemma flat_map_map' : forall (A B C : Type) (g : A -> B) (f : B -> list C) l,
  flat_map f (map g l) = flat_map (fun a => f (g a)) l.
Proof. intros. induction l as [|a l IH]; [reflexivity|]. cbn. rewrite IH. reflexivity. Qed.

Lemma filter_map' : forall (A B : Type) (g : A -> B) (p : B -> bool) l,
  filter p (map g l) = map g (filter (fun a => p (g a)) l).
Proof.
  intros. induction l as [|a l IH]; [reflexivity|]. cbn. rewrite IH. destruct (p (g a)); reflexivity.
Qed.

(* x <- A with x unbound: one environment per element, in order *)
Lemma gen_var_nil : forall x A, filter_map (fun v => pmatch (PVar x) v []) A = map (fun v => [(x, v)]) A.
Proof.
  intros x A. induction A as [|a A IH]; [reflexivity|]. cbn [filter_map map].
  change (pmatch (PVar x) a []) with (Some [(x, a)]). rewrite IH. reflexivity.
Qed.

(* y <- B with another variable already bound: every element extends the environment *)
Lemma gen_var_fresh : forall x y a B, String.eqb y x = false ->
  filter_map (fun v => pmatch (PVar y) v [(x, a)]) B = map (fun b => [(y, b); (x, a)]) B.
Proof.
  intros x y a B H. induction B as [|b B IH]; [reflexivity|]. cbn [filter_map map].
  assert (Hp : pmatch (PVar y) b [(x, a)] = Some [(y, b); (x, a)]) by (cbn; rewrite H; reflexivity).
  rewrite Hp, IH. reflexivity.
Qed.

(* x <- B with x already bound: a join — only the elements equal to the bound value pass *)
Lemma gen_var_bound : forall x a B,
  filter_map (fun v => pmatch (PVar x) v [(x, a)]) B = map (fun _ => [(x, a)]) (filter (veq a) B).
Proof.
  intros x a B. induction B as [|b B IH]; [reflexivity|]. cbn [filter_map filter].
  assert (Hp : pmatch (PVar x) b [(x, a)] = if veq a b then Some [(x, a)] else None)
    by (cbn; rewrite String.eqb_refl; reflexivity).
  rewrite Hp. destruct (veq a b); cbn [map]; rewrite IH; reflexivity.
Qed.

Lemma first_gen : forall x A, step_qual [[]] (QGen (PVar x) A) = Some (map (fun v => [(x, v)]) A).
Proof. intros. cbn [step_qual flat_map]. rewrite app_nil_r. unfold gen_matches. rewrite gen_var_nil. reflexivity. Qed.

Ltac comp_start := unfold comp_values, run_quals; cbn [quals_ok run_from andb]; rewrite first_gen; cbn [quals_ok run_from andb].

(* { x | x <- A } lists exactly A *)
Lemma comp_identity : forall x A, comp_values (TVar x) [QGen (PVar x) A] = Some A.
Proof.
  intros x A. comp_start.
  rewrite (map_opt_map_some _ _ _ _ _ (fun v => v)); [rewrite map_id; reflexivity|].
  intros a. cbn [eval_term]. apply lookup_hd.
Qed.

(* { (x,y) | x <- A, y <- B } lists the cartesian product *)
Lemma comp_product : forall x y A B, String.eqb x y = false ->
  comp_values (TPair (TVar x) (TVar y)) [QGen (PVar x) A; QGen (PVar y) B] =
  Some (flat_map (fun a => map (fun b => VTup [a; b]) B) A).
Proof.
  intros x y A B Hxy. assert (Hyx : String.eqb y x = false) by (rewrite String.eqb_sym; exact Hxy).
  comp_start. cbn [step_qual quals_ok run_from]. rewrite flat_map_map'.
  apply map_opt_flat_map. intros a. unfold gen_matches. rewrite (gen_var_fresh x y a B Hyx).
  apply map_opt_map_some. intros b. cbn [eval_term lookup]. rewrite Hxy, String.eqb_refl, String.eqb_refl. reflexivity.
Qed.

(* { x | x <- A, x <- B } (a repeated variable) is a join ... *)
Lemma comp_join : forall x A B,
  comp_values (TVar x) [QGen (PVar x) A; QGen (PVar x) B] =
  Some (flat_map (fun a => map (fun _ => a) (filter (veq a) B)) A).
Proof.
  intros x A B. comp_start. cbn [step_qual quals_ok run_from]. rewrite flat_map_map'.
  apply map_opt_flat_map. intros a. unfold gen_matches. rewrite (gen_var_bound x a B).
  apply map_opt_map_some. intros b. cbn [eval_term]. apply lookup_hd.
Qed.

(* ... whose elements are those of the intersection *)
Lemma comp_join_is_inter : forall A B v,
  inS v (flat_map (fun a => map (fun _ => a) (filter (veq a) B)) A) <-> inS v A /\ inS v B.
Proof.
  intros A B v. rewrite !inS_iff. split.
  - intros (z & Hz & Hvz). apply in_flat_map in Hz as (a & Ha & Hz). apply in_map_iff in Hz as (b & Hb & Hbf).
    subst z. apply filter_In in Hbf as [Hb Hab]. split; [exists a; auto|].
    exists b. split; [exact Hb | exact (veq_trans v a b Hvz Hab)].
  - intros [(a & Ha & Hva) (b & Hb & Hvb)]. exists a. split; [|exact Hva].
    apply in_flat_map. exists a. split; [exact Ha|]. apply in_map_iff. exists b. split; [reflexivity|].
    apply filter_In. split; [exact Hb|]. apply (veq_trans a v b); [rewrite veq_sym; exact Hva | exact Hvb].
Qed.

(* { x | x <- A, x o c } keeps exactly the elements that satisfy the comparison *)
Lemma comp_filter_const : forall x o c A,
  (forall a, In a A -> eval_cmp o a c <> None) ->
  comp_values (TVar x) [QGen (PVar x) A; QFilter o (TVar x) (TConst c)] =
  Some (filter (fun a => match eval_cmp o a c with Some true => true | _ => false end) A).
Proof.
  intros x o c A Hdef. comp_start.
  assert (Hfe : forall a, filter_env o (TVar x) (TConst c) [(x, a)] = eval_cmp o a c).
  { intros a. unfold filter_env. cbn [eval_term]. rewrite lookup_hd. reflexivity. }
  assert (Hq : forallb (fun e => match filter_env o (TVar x) (TConst c) e with Some _ => true | None => false end)
                 (map (fun v => [(x, v)]) A) = true).
  { apply forallb_forall. intros e He. apply in_map_iff in He as (a & Hae & Ha). subst e. rewrite Hfe.
    specialize (Hdef a Ha). destruct (eval_cmp o a c); [reflexivity | congruence]. }
  rewrite Hq. cbn [andb quals_ok step_qual run_from]. rewrite filter_map'.
  erewrite (filter_ext _ (fun a => match eval_cmp o a c with Some true => true | _ => false end)) by (intros a; rewrite Hfe; reflexivity).
  rewrite (map_opt_map_some _ _ _ _ _ (fun v => v)); [rewrite map_id; reflexivity|].
  intros a. cbn [eval_term]. apply lookup_hd.
Qed.

(* ================================================================== *)
(* 10. dependent generators; the set-builder reading of every comprehension *)
(* ================================================================== *)

(* ---------- map_opt ---------- *)
Lemma map_opt_cons : forall (A B : Type) (f : A -> option B) a l,
  map_opt f (a :: l) = match f a, map_opt f l with Some b, Some bs => Some (b :: bs) | _, _ => None end.
Proof. reflexivity. Qed.

Lemma map_opt_all_some : forall (A B : Type) (f : A -> option B) (g : A -> B) l,
  (forall a, In a l -> f a = Some (g a)) -> map_opt f l = Some (map g l).
Proof.
  intros A B f g l. induction l as [|a l IH]; intros H; [reflexivity|].
  rewrite map_opt_cons, (H a (or_introl eq_refl)), IH; [reflexivity|]. intros b Hb. apply H. right. exact Hb.
Qed.

Lemma map_opt_In : forall (A B : Type) (f : A -> option B) l r, map_opt f l = Some r ->
  forall b, In b r <-> exists a, In a l /\ f a = Some b.
Proof.
  intros A B f l. induction l as [|a l IH]; intros r H b.
  - cbn in H. inversion H; subst. split; [intros [] | intros (a & [] & _)].
  - rewrite map_opt_cons in H. destruct (f a) as [b0|] eqn:Hfa; [|discriminate].
    destruct (map_opt f l) as [bs|]; [|discriminate]. inversion H; subst. specialize (IH bs eq_refl b). split.
    + intros [Hb|Hb]; [subst; exists a; split; [left; reflexivity | exact Hfa]|].
      apply IH in Hb as (a' & Ha' & Hf). exists a'. split; [right; exact Ha' | exact Hf].
    + intros (a' & [Ha'|Ha'] & Hf); [subst; rewrite Hfa in Hf; inversion Hf; left; reflexivity|].
      right. apply IH. exists a'. split; assumption.
Qed.

Lemma map_opt_None : forall (A B : Type) (f : A -> option B) l,
  map_opt f l = None <-> exists a, In a l /\ f a = None.
Proof.
  intros A B f l. induction l as [|a l IH].
  - cbn. split; [discriminate | intros (a & [] & _)].
  - rewrite map_opt_cons. destruct (f a) as [b|] eqn:Hfa.
    + destruct (map_opt f l) as [bs|].
      * split; [discriminate|]. intros (a' & [Ha'|Ha'] & Hf); [subst; congruence|].
        assert (Hbad : Some bs = None) by (apply (proj2 IH); exists a'; split; assumption). discriminate.
      * split; [|reflexivity]. intros _. destruct (proj1 IH eq_refl) as (a' & Ha' & Hf).
        exists a'. split; [right; exact Ha' | exact Hf].
    + split; [|reflexivity]. intros _. exists a. split; [left; reflexivity | exact Hfa].
Qed.

Lemma in_filter_map : forall (A B : Type) (f : A -> option B) l b,
  In b (filter_map f l) <-> exists a, In a l /\ f a = Some b.
Proof.
  intros A B f l b. induction l as [|a l IH]; cbn [filter_map].
  - split; [intros [] | intros (a & [] & _)].
  - destruct (f a) as [b0|] eqn:Hfa.
    + split.
      * intros [Hb|Hb]; [subst; exists a; split; [left; reflexivity | exact Hfa]|].
        apply IH in Hb as (a' & Ha' & Hf). exists a'. split; [right; exact Ha' | exact Hf].
      * intros (a' & [Ha'|Ha'] & Hf); [subst; rewrite Hfa in Hf; inversion Hf; left; reflexivity|].
        right. apply IH. exists a'. split; assumption.
    + rewrite IH. split.
      * intros (a' & Ha' & Hf). exists a'. split; [right; exact Ha' | exact Hf].
      * intros (a' & [Ha'|Ha'] & Hf); [subst; congruence|]. exists a'. split; assumption.
Qed.

(* ---------- a dependent generator visits the environments one by one ---------- *)
Lemma gend_nil : forall p c, step_qual [] (QGenD p c) = Some [].
Proof. reflexivity. Qed.

Lemma gend_cons : forall p c e envs,
  step_qual (e :: envs) (QGenD p c) =
  match coll_elems e c, step_qual envs (QGenD p c) with
  | Some l, Some r => Some (gen_matches p e l ++ r)
  | _, _ => None
  end.
Proof.
  intros p c e envs. cbn [step_qual]. rewrite map_opt_cons.
  destruct (coll_elems e c) as [l|]; cbn [option_map]; [|reflexivity].
  destruct (map_opt (fun e0 => option_map (gen_matches p e0) (coll_elems e0 c)) envs); reflexivity.
Qed.

(* the environments after a dependent generator are the concatenation, over the environments before
   it, of the matches against the collection evaluated IN THAT environment *)
Lemma gend_per_environment : forall p c envs (cs : env -> list val),
  (forall e, In e envs -> coll_elems e c = Some (cs e)) ->
  step_qual envs (QGenD p c) = Some (flat_map (fun e => gen_matches p e (cs e)) envs).
Proof.
  intros p c envs cs. induction envs as [|e envs IH]; intros H; [reflexivity|].
  rewrite gend_cons, (H e (or_introl eq_refl)), IH; [reflexivity|]. intros e' He'. apply H. right. exact He'.
Qed.

(* ... and it raises an error exactly when the collection cannot be evaluated in one of them
   (so: no environment left, no error) *)
Lemma gend_error : forall p c envs,
  step_qual envs (QGenD p c) = None <-> exists e, In e envs /\ coll_elems e c = None.
Proof.
  intros p c envs. cbn [step_qual]. split.
  - intros H. destruct (map_opt _ envs) eqn:Hm; [discriminate|]. apply map_opt_None in Hm as (e & He & Hf).
    exists e. split; [exact He|]. destruct (coll_elems e c); [discriminate | reflexivity].
  - intros (e & He & Hc).
    assert (Hm : map_opt (fun e0 => option_map (gen_matches p e0) (coll_elems e0 c)) envs = None).
    { apply map_opt_None. exists e. split; [exact He|]. rewrite Hc. reflexivity. }
    rewrite Hm. reflexivity.
Qed.

(* ---------- the mathematical (set-builder) reading: one choice per generator ---------- *)
(* e -q-> e': the qualifier q, met with the bindings e, allows the bindings e' *)
Inductive qstep : env -> qual -> env -> Prop :=
| QS_gen : forall e p src v e', In v src -> pmatch p v e = Some e' -> qstep e (QGen p src) e'
| QS_genD : forall e p c l v e',
    coll_elems e c = Some l -> In v l -> pmatch p v e = Some e' -> qstep e (QGenD p c) e'
| QS_filter : forall e o a b, filter_env o a b e = Some true -> qstep e (QFilter o a b) e.

Inductive qsteps : env -> list qual -> env -> Prop :=
| QSs_nil : forall e, qsteps e [] e
| QSs_cons : forall e q e1 qs e', qstep e q e1 -> qsteps e1 qs e' -> qsteps e (q :: qs) e'.

Lemma qsteps_app : forall qs1 qs2 e e1 e', qsteps e qs1 e1 -> qsteps e1 qs2 e' -> qsteps e (qs1 ++ qs2) e'.
Proof.
  induction qs1 as [|q qs1 IH]; intros qs2 e e1 e' H1 H2.
  - inversion H1; subst. exact H2.
  - inversion H1; subst. cbn [app]. econstructor; [eassumption|]. eapply IH; eassumption.
Qed.

Lemma step_spec : forall q envs envs', step_qual envs q = Some envs' ->
  forall e', In e' envs' <-> exists e, In e envs /\ qstep e q e'.
Proof.
  intros [p src|p c|o a b] envs envs' H e'.
  - cbn [step_qual] in H. inversion H; subst. rewrite in_flat_map. split.
    + intros (e & He & Hm). apply in_filter_map in Hm as (v & Hv & Hp). exists e. split; [exact He|].
      econstructor; eassumption.
    + intros (e & He & Hq). inversion Hq; subst. exists e. split; [exact He|].
      apply in_filter_map. eexists. split; eassumption.
  - revert envs' H. induction envs as [|e0 envs IH]; intros envs' H.
    + rewrite gend_nil in H. inversion H; subst. split; [intros [] | intros (e & [] & _)].
    + rewrite gend_cons in H. destruct (coll_elems e0 c) as [l|] eqn:Hc; [|discriminate].
      destruct (step_qual envs (QGenD p c)) as [r|]; [|discriminate]. inversion H; subst.
      specialize (IH r eq_refl). rewrite in_app_iff, IH. split.
      * intros [Hm|(e & He & Hq)].
        -- apply in_filter_map in Hm as (v & Hv & Hp). exists e0. split; [left; reflexivity|].
           econstructor; eassumption.
        -- exists e. split; [right; exact He | exact Hq].
      * intros (e & [He|He] & Hq).
        -- subst e. left. inversion Hq; subst. apply in_filter_map.
           match goal with H1 : coll_elems e0 c = Some ?l', H2 : coll_elems e0 c = Some l |- _ =>
             rewrite H1 in H2; inversion H2; subst end.
           eexists. split; eassumption.
        -- right. exists e. split; assumption.
  - cbn [step_qual] in H. inversion H; subst. rewrite filter_In. split.
    + intros [He Hf]. exists e'. split; [exact He|]. constructor.
      destruct (filter_env o a b e') as [[|]|]; try discriminate. reflexivity.
    + intros (e & He & Hq). inversion Hq; subst. split; [exact He|].
      match goal with H1 : filter_env o a b e' = Some true |- _ => rewrite H1 end. reflexivity.
Qed.

Lemma step_error : forall q envs,
  step_qual envs q = None <-> exists p c e, q = QGenD p c /\ In e envs /\ coll_elems e c = None.
Proof.
  intros [p src|p c|o a b] envs.
  - split; [discriminate | intros (? & ? & ? & Hq & _); discriminate].
  - rewrite gend_error. split.
    + intros (e & He & Hc). exists p, c, e. auto.
    + intros (p' & c' & e & Hq & He & Hc). inversion Hq; subst. exists e. auto.
  - split; [discriminate | intros (? & ? & ? & Hq & _); discriminate].
Qed.

(* the environments that the qualifier machinery produces are exactly those obtained by choosing, for
   every generator in turn, an element of its collection AS EVALUATED UNDER THE CHOICES MADE SO FAR
   that matches the pattern, and passing every filter *)
Lemma run_spec : forall qs envs envs', run_from envs qs = Some envs' ->
  forall e', In e' envs' <-> exists e, In e envs /\ qsteps e qs e'.
Proof.
  induction qs as [|q qs IH]; intros envs envs' H e'.
  - cbn in H. inversion H; subst. split.
    + intros He. exists e'. split; [exact He | constructor].
    + intros (e & He & Hq). inversion Hq; subst. exact He.
  - cbn [run_from] in H. destruct (step_qual envs q) as [envs1|] eqn:Hs; [|discriminate].
    rewrite (IH envs1 envs' H e'). split.
    + intros (e1 & He1 & Hq). apply (step_spec q envs envs1 Hs) in He1 as (e & He & Hq1).
      exists e. split; [exact He|]. econstructor; eassumption.
    + intros (e & He & Hq). inversion Hq as [|? ? e1 ? ? Hq1 Hq2]; subst. exists e1. split; [|exact Hq2].
      apply (step_spec q envs envs1 Hs). exists e. split; assumption.
Qed.

(* the machinery raises an error exactly when a dependent generator's collection cannot be evaluated
   in an environment reached through the qualifiers before it *)
Lemma run_error : forall qs envs,
  run_from envs qs = None <->
  exists qs1 p c qs2 e0 e,
    qs = qs1 ++ QGenD p c :: qs2 /\ In e0 envs /\ qsteps e0 qs1 e /\ coll_elems e c = None.
Proof.
  induction qs as [|q qs IH]; intros envs.
  - cbn. split; [discriminate|]. intros (qs1 & p & c & qs2 & _ & _ & Hq & _). destruct qs1; discriminate.
  - cbn [run_from]. destruct (step_qual envs q) as [envs1|] eqn:Hs.
    + rewrite (IH envs1). split.
      * intros (qs1 & p & c & qs2 & e1 & e & Hq & He1 & Hst & Hc).
        apply (step_spec q envs envs1 Hs) in He1 as (e0 & He0 & Hq1).
        exists (q :: qs1), p, c, qs2, e0, e. split; [cbn; rewrite Hq; reflexivity|].
        split; [exact He0|]. split; [econstructor; eassumption | exact Hc].
      * intros (qs1 & p & c & qs2 & e0 & e & Hq & He0 & Hst & Hc). destruct qs1 as [|q1 qs1].
        -- cbn in Hq. inversion Hq; subst. inversion Hst; subst.
           assert (Hn : step_qual envs (QGenD p c) = None) by (apply gend_error; exists e; auto). congruence.
        -- cbn in Hq. inversion Hq; subst. inversion Hst as [|? ? e1 ? ? Hq1 Hq2]; subst.
           exists qs1, p, c, qs2, e1, e. split; [reflexivity|].
           split; [apply (step_spec q1 envs envs1 Hs); exists e0; split; assumption|]. split; assumption.
    + split; [|reflexivity]. intros _. apply step_error in Hs as (p & c & e & Hq & He & Hc). subst q.
      exists [], p, c, qs, e, e. split; [reflexivity|]. split; [exact He|]. split; [constructor | exact Hc].
Qed.

(* v belongs to { out | qs } read as mathematics *)
Definition builder_reading (out : term) (qs : list qual) (v : val) : Prop :=
  exists e w, qsteps [] qs e /\ eval_term e out = Some w /\ veq v w = true.

Lemma comp_values_reading : forall out qs vs, comp_values out qs = Some vs ->
  (forall v, inS v vs <-> builder_reading out qs v) /\
  (forall w, In w vs -> exists e, qsteps [] qs e /\ eval_term e out = Some w).
Proof.
  intros out qs vs H. unfold comp_values in H. destruct (quals_ok [[]] qs); [|discriminate].
  unfold run_quals in H. destruct (run_from [[]] qs) as [envs|] eqn:Hr; [|discriminate].
  pose proof (map_opt_In _ _ _ _ _ H) as Hin. pose proof (run_spec qs [[]] envs Hr) as Hrs.
  assert (Hw : forall w, In w vs <-> exists e, qsteps [] qs e /\ eval_term e out = Some w).
  { intros w. rewrite Hin. split.
    - intros (e & He & Hev). apply Hrs in He as (e0 & [He0|[]] & Hq). subst e0. exists e. split; assumption.
    - intros (e & Hq & Hev). exists e. split; [|exact Hev]. apply Hrs. exists []. split; [left; reflexivity | exact Hq]. }
  split.
  - intros v. rewrite inS_iff. unfold builder_reading. split.
    + intros (w & Hwi & Hv). apply Hw in Hwi as (e & Hq & Hev). exists e, w. auto.
    + intros (e & w & Hq & Hev & Hv). exists w. split; [|exact Hv]. apply Hw. exists e. auto.
  - intros w Hwi. apply Hw. exact Hwi.
Qed.

(* every comprehension that has a value — any number of generators of either sort, patterns, filters,
   in any order — denotes a set: no two equal elements, exactly the elements of the set-builder reading,
   each element the output term's value under reachable bindings, and a size that any other duplicate-free
   listing of the same elements shares *)
Lemma comp_expected_spec : forall out qs E, expected (CComp out qs) = ESet E ->
  NoDupA veqP E /\
  (forall v, inS v E <-> builder_reading out qs v) /\
  (forall w, In w E -> exists e, qsteps [] qs e /\ eval_term e out = Some w) /\
  (forall E', nodupb veq E' = true -> (forall v, inS v E' <-> builder_reading out qs v) ->
              List.length E' = List.length E).
Proof.
  intros out qs E H. cbn [expected] in H. destruct (comp_values out qs) as [vs|] eqn:Hv.
  - inversion H; subst. destruct (comp_values_reading out qs vs Hv) as [Hr Hw].
    assert (HE : forall v, inS v (of_list veq vs) <-> builder_reading out qs v).
    { intros v. unfold inS. rewrite vmemb_of_list. apply Hr. }
    split; [apply vnodupb_NoDupA, vnodupb_of_list|]. split; [exact HE|]. split.
    + intros w Hwi. apply Hw. eapply of_list_In. exact Hwi.
    + intros E' Hn HE'. apply vsame_elems_length; [exact Hn | apply vnodupb_of_list|].
      intros v. apply eq_true_iff_eq. fold (inS v E') (inS v (of_list veq vs)). rewrite HE, HE'. reflexivity.
  - destruct (comp_raises qs); discriminate.
Qed.

(* the model predicts an error only for the reason above *)
Lemma comp_error_spec : forall out qs, expected (CComp out qs) = EErr ->
  exists qs1 p c qs2 e, qs = qs1 ++ QGenD p c :: qs2 /\ qsteps [] qs1 e /\ coll_elems e c = None.
Proof.
  intros out qs H. cbn [expected] in H. destruct (comp_values out qs); [discriminate|].
  unfold comp_raises in H. destruct (quals_ok [[]] qs); cbn [andb] in H; [|discriminate].
  unfold run_quals in H. destruct (run_from [[]] qs) eqn:Hr; [discriminate|].
  apply run_error in Hr as (qs1 & p & c & qs2 & e0 & e & Hq & [He0|[]] & Hst & Hc). subst e0.
  exists qs1, p, c, qs2, e. auto.
Qed.

(* ---------- the reading in which the collection is evaluated once per generator ---------- *)
(* (in the first environment, reused for all the others) is a different function *)
Definition step_hoisted (envs : list env) (q : qual) : option (list env) :=
  match q with
  | QGenD p c =>
      match envs with
      | [] => Some []
      | e0 :: _ => match coll_elems e0 c with
                   | Some l => Some (flat_map (fun e => gen_matches p e l) envs)
                   | None => None
                   end
      end
  | _ => step_qual envs q
  end.

Fixpoint run_hoisted (envs : list env) (qs : list qual) : option (list env) :=
  match qs with
  | [] => Some envs
  | q :: r => match step_hoisted envs q with Some envs' => run_hoisted envs' r | None => None end
  end.

Definition comp_values_hoisted (out : term) (qs : list qual) : option (list val) :=
  match run_hoisted [[]] qs with Some envs => map_opt (fun e => eval_term e out) envs | None => None end.

(* the two agree when the collection has the same elements in every environment (every generated
   comprehension before the dependent shapes were added) ... *)
Lemma hoisted_agrees_on_constant_collections : forall p c envs,
  (forall e e', In e envs -> In e' envs -> coll_elems e c = coll_elems e' c) ->
  step_hoisted envs (QGenD p c) = step_qual envs (QGenD p c).
Proof.
  intros p c [|e0 envs] H; [reflexivity|]. cbn [step_hoisted].
  destruct (coll_elems e0 c) as [l|] eqn:Hc.
  - symmetry. apply (gend_per_environment p c (e0 :: envs) (fun _ => l)).
    intros e He. rewrite <- Hc. apply H; [exact He | left; reflexivity].
  - symmetry. apply gend_error. exists e0. split; [left; reflexivity | exact Hc].
Qed.

(* ... and differ on { y | x <- {{1,2},{3,4}}, y <- x }: 3 is an element, the hoisted reading loses it *)
Definition u8 (z : Z) : val := VInt "u8" z.
Definition wit_flatten : case :=
  CComp (TVar "y") [QGen (PVar "x") [annot (VSet "" 0 [u8 1; u8 2]); annot (VSet "" 0 [u8 3; u8 4])];
                    QGenD (PVar "y") (KVar "x")].

Lemma hoisting_refuted :
  wf_case wit_flatten = true /\
  expected wit_flatten = ESet [u8 1; u8 2; u8 3; u8 4] /\
  exists out qs vs vs', wit_flatten = CComp out qs /\
    comp_values out qs = Some vs /\ comp_values_hoisted out qs = Some vs' /\
    inS (u8 3) vs /\ ~ inS (u8 3) vs'.
Proof.
  split; [vm_compute; reflexivity|]. split; [vm_compute; reflexivity|].
  eexists _, _, _, _. split; [reflexivity|]. split; [vm_compute; reflexivity|].
  split; [vm_compute; reflexivity|]. split; [vm_compute; reflexivity|]. vm_compute. discriminate.
Qed.

(* ---------- the dependent shapes, for all lists ---------- *)
Definition elems_of (v : val) : list val := match v with VSet _ _ l => l | _ => [] end.

Lemma gen_matches_fresh : forall x y a l, String.eqb y x = false ->
  gen_matches (PVar y) [(x, a)] l = map (fun b => [(y, b); (x, a)]) l.
Proof. intros. unfold gen_matches. apply gen_var_fresh. assumption. Qed.

(* { y | x <- S, y <- x } over a list of sets lists the elements of its elements: the union of S *)
Lemma comp_flatten : forall x y S, String.eqb x y = false ->
  (forall s, In s S -> exists k n l, s = VSet k n l) ->
  comp_values (TVar y) [QGen (PVar x) S; QGenD (PVar y) (KVar x)] = Some (flat_map elems_of S).
Proof.
  intros x y S Hxy HS. assert (Hyx : String.eqb y x = false) by (rewrite String.eqb_sym; exact Hxy).
  comp_start.
  assert (Hstep : step_qual (map (fun v => [(x, v)]) S) (QGenD (PVar y) (KVar x)) =
                  Some (flat_map (fun e => gen_matches (PVar y) e (match lookup x e with Some s => elems_of s | None => [] end))
                                 (map (fun v => [(x, v)]) S))).
  { apply gend_per_environment. intros e He. apply in_map_iff in He as (s & Hse & Hs). subst e.
    destruct (HS s Hs) as (k & n & l & Heq). subst s. cbn [coll_elems]. rewrite lookup_hd. reflexivity. }
  rewrite Hstep. cbn [quals_ok run_from]. rewrite flat_map_map'.
  apply map_opt_flat_map. intros s. rewrite lookup_hd, (gen_matches_fresh x y s _ Hyx).
  rewrite (map_opt_map_some _ _ _ _ _ (fun v => v)); [rewrite map_id; reflexivity|].
  intros b. cbn [eval_term]. apply lookup_hd.
Qed.

Lemma comp_flatten_is_union : forall S v,
  inS v (flat_map elems_of S) <-> exists s, In s S /\ inS v (elems_of s).
Proof.
  intros S v. rewrite inS_iff. split.
  - intros (w & Hw & Hv). apply in_flat_map in Hw as (s & Hs & Hw). exists s. split; [exact Hs|].
    apply inS_iff. exists w. auto.
  - intros (s & Hs & Hv). apply inS_iff in Hv as (w & Hw & Hv). exists w. split; [|exact Hv].
    apply in_flat_map. exists s. auto.
Qed.

(* { y | x <- A, y <- {x, c} }: for every a of A the set built from a and c, in this order *)
Lemma comp_dep_literal : forall x y c A, String.eqb x y = false ->
  (forall a, In a A -> kind_text c = kind_text a) ->
  comp_values (TVar y) [QGen (PVar x) A; QGenD (PVar y) (KSet [TVar x; TConst c])] =
  Some (flat_map (fun a => of_list veq [a; c]) A).
Proof.
  intros x y c A Hxy Hk. assert (Hyx : String.eqb y x = false) by (rewrite String.eqb_sym; exact Hxy).
  comp_start.
  assert (Hstep : step_qual (map (fun v => [(x, v)]) A) (QGenD (PVar y) (KSet [TVar x; TConst c])) =
                  Some (flat_map (fun e => gen_matches (PVar y) e
                                   (match lookup x e with Some a => of_list veq [a; c] | None => [] end))
                                 (map (fun v => [(x, v)]) A))).
  { apply gend_per_environment. intros e He. apply in_map_iff in He as (a & Hae & Ha). subst e.
    cbn [coll_elems map_opt eval_term]. rewrite lookup_hd. cbn [uniform forallb].
    rewrite (Hk a Ha), String.eqb_refl. reflexivity. }
  rewrite Hstep. cbn [quals_ok run_from]. rewrite flat_map_map'.
  apply map_opt_flat_map. intros a. rewrite lookup_hd, (gen_matches_fresh x y a _ Hyx).
  rewrite (map_opt_map_some _ _ _ _ _ (fun v => v)); [rewrite map_id; reflexivity|].
  intros b. cbn [eval_term]. apply lookup_hd.
Qed.

Lemma flat_map_single : forall (A B : Type) (g : A -> B) l, flat_map (fun a => [g a]) l = map g l.
Proof. intros A B g l. induction l as [|a l IH]; [reflexivity|]. cbn. rewrite IH. reflexivity. Qed.

(* { (x,y) | x <- A, y <- {x} } is the diagonal of A *)
Lemma comp_dep_diagonal : forall x y A, String.eqb x y = false ->
  comp_values (TPair (TVar x) (TVar y)) [QGen (PVar x) A; QGenD (PVar y) (KSet [TVar x])] =
  Some (map (fun a => VTup [a; a]) A).
Proof.
  intros x y A Hxy. assert (Hyx : String.eqb y x = false) by (rewrite String.eqb_sym; exact Hxy).
  comp_start.
  assert (Hstep : step_qual (map (fun v => [(x, v)]) A) (QGenD (PVar y) (KSet [TVar x])) =
                  Some (flat_map (fun e => gen_matches (PVar y) e
                                   (match lookup x e with Some a => [a] | None => [] end))
                                 (map (fun v => [(x, v)]) A))).
  { apply gend_per_environment. intros e He. apply in_map_iff in He as (a & Hae & Ha). subst e.
    cbn [coll_elems map_opt eval_term]. rewrite lookup_hd. reflexivity. }
  rewrite Hstep. cbn [quals_ok run_from]. rewrite flat_map_map'.
  rewrite (map_opt_flat_map _ _ _ _ _ (fun a => [VTup [a; a]])).
  - rewrite flat_map_single. reflexivity.
  - intros a. rewrite lookup_hd, (gen_matches_fresh x y a _ Hyx). cbn [map map_opt eval_term lookup].
    rewrite Hxy, !String.eqb_refl. reflexivity.
Qed.
