(* C14 — lemmas about the set model (Model/SetM.v). *)
From Coq Require Import List ZArith String Bool Arith Lia Permutation SetoidList.
From MechV Require Import Base.Sexp Base.Obs Model.SetM.
Import ListNotations.
Open Scope list_scope.

(* ================================================================== *)
(* 1. list-sets over a boolean equivalence                              *)
(* ================================================================== *)
Section ListSetP.
  Context {A : Type} (eqb : A -> A -> bool).
  Context (eqb_refl : forall x, eqb x x = true).
  Context (eqb_sym : forall x y, eqb x y = eqb y x).
  Context (eqb_trans : forall x y z, eqb x y = true -> eqb y z = true -> eqb x z = true).

  Notation memb := (memb eqb).
  Notation add := (add eqb).
  Notation of_list := (of_list eqb).
  Notation nodupb := (nodupb eqb).

  Lemma memb_cons : forall x z l, memb x (z :: l) = eqb x z || memb x l.
  Proof. reflexivity. Qed.
  Lemma memb_nil : forall x, memb x [] = false.
  Proof. reflexivity. Qed.
  Lemma nodupb_cons : forall x l, nodupb (x :: l) = negb (memb x l) && nodupb l.
  Proof. reflexivity. Qed.

  Lemma memb_In : forall x l, In x l -> memb x l = true.
  Proof.
    intros x l Hin. unfold SetM.memb. apply existsb_exists. exists x. split; [exact Hin | apply eqb_refl].
  Qed.

  Lemma memb_true_iff : forall x l, memb x l = true <-> exists y, In y l /\ eqb x y = true.
  Proof. intros x l. unfold SetM.memb. apply existsb_exists. Qed.

  Lemma eqb_cong_r : forall x y z, eqb x y = true -> eqb x z = eqb y z.
  Proof.
    intros x y z Hxy. destruct (eqb y z) eqn:Hyz.
    - eapply eqb_trans; eassumption.
    - destruct (eqb x z) eqn:Hxz; [|reflexivity].
      rewrite eqb_sym in Hxy. rewrite <- Hyz. symmetry. eapply eqb_trans; eassumption.
  Qed.

  Lemma memb_cong : forall x y l, eqb x y = true -> memb x l = memb y l.
  Proof.
    intros x y l Hxy. induction l as [|z l IH]; [reflexivity|].
    rewrite !memb_cons, IH, (eqb_cong_r x y z Hxy). reflexivity.
  Qed.

  Lemma memb_app : forall x l l', memb x (l ++ l') = memb x l || memb x l'.
  Proof. intros. unfold SetM.memb. apply existsb_app. Qed.

  Lemma memb_add : forall v acc x, memb v (add acc x) = memb v acc || eqb v x.
  Proof.
    intros v acc x. unfold SetM.add. destruct (memb x acc) eqn:Hx.
    - destruct (eqb v x) eqn:Hvx; [|rewrite orb_false_r; reflexivity].
      rewrite (memb_cong v x acc Hvx), Hx. reflexivity.
    - rewrite memb_app, memb_cons, memb_nil, orb_false_r. reflexivity.
  Qed.

  Lemma memb_fold_add : forall v l acc, memb v (fold_left add l acc) = memb v acc || memb v l.
  Proof.
    intros v l. induction l as [|x l IH]; intros acc; cbn [fold_left].
    - rewrite memb_nil, orb_false_r. reflexivity.
    - rewrite IH, memb_add, memb_cons. rewrite orb_assoc. reflexivity.
  Qed.

  (* the elements of a built set are exactly the written ones *)
  Lemma memb_of_list : forall v l, memb v (of_list l) = memb v l.
  Proof. intros. unfold SetM.of_list. rewrite memb_fold_add. reflexivity. Qed.

  Lemma nodupb_snoc : forall l x, nodupb (l ++ [x]) = nodupb l && negb (memb x l).
  Proof.
    induction l as [|y l IH]; intros x.
    - reflexivity.
    - rewrite <- app_comm_cons, !nodupb_cons, IH, memb_app, !memb_cons, memb_nil, orb_false_r, (eqb_sym x y).
      destruct (memb y l), (eqb y x), (nodupb l), (memb x l); reflexivity.
  Qed.

  Lemma nodupb_add : forall acc x, nodupb acc = true -> nodupb (add acc x) = true.
  Proof.
    intros acc x H. unfold SetM.add. destruct (memb x acc) eqn:Hx; [exact H|].
    rewrite nodupb_snoc, H, Hx. reflexivity.
  Qed.

  Lemma nodupb_fold_add : forall l acc, nodupb acc = true -> nodupb (fold_left add l acc) = true.
  Proof.
    induction l as [|x l IH]; intros acc H; cbn [fold_left]; [exact H|]. apply IH. apply nodupb_add. exact H.
  Qed.

  (* the set invariant holds for whatever is built *)
  Lemma nodupb_of_list : forall l, nodupb (of_list l) = true.
  Proof. intros. unfold SetM.of_list. apply nodupb_fold_add. reflexivity. Qed.

  Lemma nodupb_NoDupA : forall l, nodupb l = true <-> NoDupA (fun x y => eqb x y = true) l.
  Proof.
    induction l as [|x l IH].
    - split; [constructor | reflexivity].
    - rewrite nodupb_cons, andb_true_iff, negb_true_iff, IH. split.
      + intros [Hm Hn]. constructor; [|exact Hn]. intros Hin. apply InA_alt in Hin as (y & Hxy & Hy).
        assert (memb x l = true) by (apply memb_true_iff; eauto). congruence.
      + intros Hn. inversion Hn as [|? ? Hnin Hn']; subst. split; [|exact Hn'].
        destruct (memb x l) eqn:Hm; [|reflexivity]. exfalso. apply Hnin.
        apply memb_true_iff in Hm as (y & Hy & Hxy). apply InA_alt. eauto.
  Qed.

  (* of_list does nothing to a list that is already a set *)
  Lemma fold_add_nodup : forall l acc, nodupb (acc ++ l) = true -> fold_left add l acc = acc ++ l.
  Proof.
    induction l as [|x l IH]; intros acc H; cbn [fold_left].
    - rewrite app_nil_r. reflexivity.
    - assert (Hx : memb x acc = false).
      { clear IH. induction acc as [|y acc IHa]; [reflexivity|].
        rewrite <- app_comm_cons, nodupb_cons in H.
        apply andb_true_iff in H as [H1 H2]. apply negb_true_iff in H1. rewrite memb_app in H1.
        apply orb_false_iff in H1 as [_ H1]. rewrite memb_cons in H1. apply orb_false_iff in H1 as [H1 _].
        rewrite memb_cons, eqb_sym, H1. apply IHa. exact H2. }
      unfold SetM.add at 2. rewrite Hx. rewrite IH; rewrite <- app_assoc; [reflexivity | exact H].
  Qed.

  Lemma of_list_nodup : forall l, nodupb l = true -> of_list l = l.
  Proof. intros l H. unfold SetM.of_list. rewrite fold_add_nodup; [reflexivity | exact H]. Qed.

  Lemma of_list_idem : forall l, of_list (of_list l) = of_list l.
  Proof. intros. apply of_list_nodup. apply nodupb_of_list. Qed.

  (* ---------- filters that respect the equality ---------- *)
  Lemma memb_filter : forall (p : A -> bool) v l,
    (forall x y, eqb x y = true -> p x = p y) -> memb v (filter p l) = memb v l && p v.
  Proof.
    intros p v l Hp. induction l as [|x l IH]; [reflexivity|]. cbn [filter].
    destruct (p x) eqn:Hpx; rewrite ?memb_cons, IH.
    - destruct (eqb v x) eqn:Hvx; cbn [orb]; [|reflexivity]. rewrite (Hp v x Hvx), Hpx. reflexivity.
    - destruct (eqb v x) eqn:Hvx; cbn [orb]; [|reflexivity]. rewrite (Hp v x Hvx), Hpx.
      rewrite andb_false_r. reflexivity.
  Qed.

  Lemma memb_keep_in : forall v a b, memb v (keep_in eqb b a) = memb v a && memb v b.
  Proof. intros. unfold keep_in. apply memb_filter. intros x y H. apply memb_cong. exact H. Qed.

  Lemma memb_keep_out : forall v a b, memb v (keep_out eqb b a) = memb v a && negb (memb v b).
  Proof.
    intros. unfold keep_out. apply (memb_filter (fun x => negb (memb x b))).
    intros x y H. f_equal. apply memb_cong. exact H.
  Qed.

  (* ---------- the operators agree with the mathematical definitions ---------- *)
  Lemma memb_union : forall v a b, memb v (union eqb a b) = memb v a || memb v b.
  Proof.
    intros. unfold union. rewrite memb_of_list, memb_app, memb_keep_out.
    destruct (memb v a), (memb v b); reflexivity.
  Qed.

  Lemma memb_inter : forall v a b, memb v (inter eqb a b) = memb v a && memb v b.
  Proof. intros. unfold inter. rewrite memb_of_list. apply memb_keep_in. Qed.

  Lemma memb_diff : forall v a b, memb v (diff eqb a b) = memb v a && negb (memb v b).
  Proof. intros. unfold diff. rewrite memb_of_list. apply memb_keep_out. Qed.

  Lemma memb_symdiff : forall v a b, memb v (symdiff eqb a b) = xorb (memb v a) (memb v b).
  Proof.
    intros. unfold symdiff. rewrite memb_of_list, memb_app, !memb_keep_out.
    destruct (memb v a), (memb v b); reflexivity.
  Qed.

  Lemma nodupb_union : forall a b, nodupb (union eqb a b) = true.
  Proof. intros. apply nodupb_of_list. Qed.
  Lemma nodupb_inter : forall a b, nodupb (inter eqb a b) = true.
  Proof. intros. apply nodupb_of_list. Qed.
  Lemma nodupb_diff : forall a b, nodupb (diff eqb a b) = true.
  Proof. intros. apply nodupb_of_list. Qed.
  Lemma nodupb_symdiff : forall a b, nodupb (symdiff eqb a b) = true.
  Proof. intros. apply nodupb_of_list. Qed.

  Lemma subset_spec : forall a b,
    subset eqb a b = true <-> (forall v, memb v a = true -> memb v b = true).
  Proof.
    intros a b. unfold subset. rewrite forallb_forall. split.
    - intros H v Hv. apply memb_true_iff in Hv as (x & Hx & Hvx).
      rewrite (memb_cong v x b Hvx). apply H. exact Hx.
    - intros H x Hx. apply H. apply memb_In. exact Hx.
  Qed.

  Lemma forallb_false_ex : forall (f : A -> bool) l, forallb f l = false -> exists x, In x l /\ f x = false.
  Proof.
    intros f l. induction l as [|x l IH]; cbn [forallb]; [discriminate|].
    destruct (f x) eqn:Hf; cbn [andb].
    - intros H. destruct (IH H) as (y & Hy & Hfy). exists y. split; [right; exact Hy | exact Hfy].
    - intros _. exists x. split; [left; reflexivity | exact Hf].
  Qed.

  Lemma psubset_spec : forall a b,
    psubset eqb a b = true <->
    (forall v, memb v a = true -> memb v b = true) /\ (exists v, memb v b = true /\ memb v a = false).
  Proof.
    intros a b. unfold psubset. rewrite andb_true_iff, negb_true_iff, subset_spec. split.
    - intros [H1 H2]. split; [exact H1|]. unfold subset in H2.
      apply forallb_false_ex in H2 as (x & Hx & Hf). exists x. split; [apply memb_In; exact Hx | exact Hf].
    - intros [H1 (v & Hvb & Hva)]. split; [exact H1|].
      destruct (subset eqb b a) eqn:Hs; [|reflexivity].
      rewrite (proj1 (subset_spec b a) Hs v Hvb) in Hva. discriminate.
  Qed.

  Lemma superset_spec : forall a b,
    superset eqb a b = true <-> (forall v, memb v b = true -> memb v a = true).
  Proof. intros. unfold superset. apply subset_spec. Qed.

  Lemma psuperset_spec : forall a b,
    psuperset eqb a b = true <->
    (forall v, memb v b = true -> memb v a = true) /\ (exists v, memb v a = true /\ memb v b = false).
  Proof. intros. unfold psuperset. apply psubset_spec. Qed.

  Lemma same_elems_spec : forall a b,
    same_elems eqb a b = true <-> (forall v, memb v a = memb v b).
  Proof.
    intros a b. unfold same_elems. rewrite andb_true_iff, !subset_spec. split.
    - intros [H1 H2] v. destruct (memb v a) eqn:Ha.
      + symmetry. apply H1. exact Ha.
      + destruct (memb v b) eqn:Hb; [|reflexivity]. rewrite (H2 v Hb) in Ha. discriminate.
    - intros H. split; intros v Hv; [rewrite <- H | rewrite H]; exact Hv.
  Qed.

  (* ---------- sizes: the pigeonhole principle for list-sets ---------- *)
  Fixpoint remove1 (x : A) (l : list A) : list A :=
    match l with
    | [] => []
    | z :: r => if eqb x z then r else z :: remove1 x r
    end.

  Lemma remove1_length : forall x l, memb x l = true -> List.length l = S (List.length (remove1 x l)).
  Proof.
    intros x l. induction l as [|z l IH]; [discriminate|]. rewrite memb_cons. cbn [remove1 List.length].
    destruct (eqb x z); cbn [orb List.length]; [reflexivity|]. intros H. rewrite (IH H). reflexivity.
  Qed.

  Lemma remove1_memb : forall x y l, memb y l = true -> eqb y x = false -> memb y (remove1 x l) = true.
  Proof.
    intros x y l. induction l as [|z l IH]; [discriminate|]. rewrite memb_cons. cbn [remove1].
    intros H Hyx. destruct (eqb x z) eqn:Hxz.
    - destruct (eqb y z) eqn:Hyz; [|exact H]. exfalso.
      rewrite eqb_sym in Hxz. rewrite (eqb_trans y z x Hyz Hxz) in Hyx. discriminate.
    - rewrite memb_cons. destruct (eqb y z); [reflexivity|]. apply IH; assumption.
  Qed.

  Lemma subset_length : forall a b,
    nodupb a = true -> (forall v, memb v a = true -> memb v b = true) -> List.length a <= List.length b.
  Proof.
    induction a as [|x a IH]; intros b Hn Hs; cbn [List.length]; [lia|].
    rewrite nodupb_cons in Hn. apply andb_true_iff in Hn as [Hx Hn]. apply negb_true_iff in Hx.
    assert (Hxb : memb x b = true) by (apply Hs; rewrite memb_cons, eqb_refl; reflexivity).
    rewrite (remove1_length x b Hxb). apply le_n_S. apply IH; [exact Hn|].
    intros v Hv. apply remove1_memb.
    - apply Hs. rewrite memb_cons, Hv. apply orb_true_r.
    - destruct (eqb v x) eqn:Hvx; [|reflexivity]. rewrite (memb_cong v x a Hvx), Hx in Hv. discriminate.
  Qed.

  Lemma subset_length_lt : forall a b y,
    nodupb a = true -> (forall v, memb v a = true -> memb v b = true) ->
    memb y b = true -> memb y a = false -> List.length a < List.length b.
  Proof.
    intros a b y Hn Hs Hyb Hya. rewrite (remove1_length y b Hyb). apply Nat.lt_succ_r.
    apply subset_length; [exact Hn|]. intros v Hv. apply remove1_memb; [apply Hs; exact Hv|].
    destruct (eqb v y) eqn:Hvy; [|reflexivity]. rewrite (memb_cong v y a Hvy), Hya in Hv. discriminate.
  Qed.

  (* two sets with the same elements have the same size *)
  Lemma same_elems_length : forall a b,
    nodupb a = true -> nodupb b = true -> (forall v, memb v a = memb v b) -> List.length a = List.length b.
  Proof.
    intros a b Ha Hb H. apply Nat.le_antisymm; apply subset_length; try assumption; intros v Hv;
      [rewrite <- H | rewrite H]; exact Hv.
  Qed.

  (* what proper_subset.rs computes (subset and strictly fewer elements) is the proper-subset relation on sets *)
  Lemma psubset_len_spec : forall a b,
    nodupb a = true -> nodupb b = true -> psubset_len eqb a b = psubset eqb a b.
  Proof.
    intros a b Ha Hb. unfold psubset_len, psubset. destruct (subset eqb a b) eqn:Hab; [|reflexivity]. cbn.
    pose proof (proj1 (subset_spec a b) Hab) as Hs.
    destruct (subset eqb b a) eqn:Hba; cbn.
    - pose proof (proj1 (subset_spec b a) Hba) as Hs'. apply Nat.ltb_ge.
      apply subset_length; assumption.
    - apply Nat.ltb_lt. unfold subset in Hba. apply forallb_false_ex in Hba as (y & Hy & Hya).
      apply (subset_length_lt a b y); try assumption. apply memb_In. exact Hy.
  Qed.

  (* ---------- the order in which elements are written is irrelevant ---------- *)
  Lemma memb_perm : forall v l l', Permutation l l' -> memb v l = memb v l'.
  Proof.
    intros v l l' H. induction H; rewrite ?memb_cons.
    - reflexivity.
    - rewrite IHPermutation. reflexivity.
    - destruct (eqb v x), (eqb v y); reflexivity.
    - congruence.
  Qed.

  Lemma of_list_perm_elems : forall l l' v, Permutation l l' -> memb v (of_list l) = memb v (of_list l').
  Proof. intros. rewrite !memb_of_list. apply memb_perm. assumption. Qed.

  Lemma of_list_perm_size : forall l l', Permutation l l' -> List.length (of_list l) = List.length (of_list l').
  Proof.
    intros l l' H. apply same_elems_length; try apply nodupb_of_list.
    intros v. apply of_list_perm_elems. exact H.
  Qed.

  (* an operator applied to sets written in other orders gives the same set *)
  Lemma memb_ext_union : forall a a' b b',
    (forall v, memb v a = memb v a') -> (forall v, memb v b = memb v b') ->
    forall v, memb v (union eqb a b) = memb v (union eqb a' b').
  Proof. intros. rewrite !memb_union. congruence. Qed.
  Lemma memb_ext_inter : forall a a' b b',
    (forall v, memb v a = memb v a') -> (forall v, memb v b = memb v b') ->
    forall v, memb v (inter eqb a b) = memb v (inter eqb a' b').
  Proof. intros. rewrite !memb_inter. congruence. Qed.
  Lemma memb_ext_diff : forall a a' b b',
    (forall v, memb v a = memb v a') -> (forall v, memb v b = memb v b') ->
    forall v, memb v (diff eqb a b) = memb v (diff eqb a' b').
  Proof. intros. rewrite !memb_diff. congruence. Qed.
  Lemma memb_ext_symdiff : forall a a' b b',
    (forall v, memb v a = memb v a') -> (forall v, memb v b = memb v b') ->
    forall v, memb v (symdiff eqb a b) = memb v (symdiff eqb a' b').
  Proof. intros. rewrite !memb_symdiff. congruence. Qed.
  Lemma subset_ext : forall a a' b b',
    (forall v, memb v a = memb v a') -> (forall v, memb v b = memb v b') ->
    subset eqb a b = subset eqb a' b'.
  Proof.
    intros a a' b b' Ha Hb. apply eq_true_iff_eq. rewrite !subset_spec.
    split; intros H v Hv; [rewrite <- Hb; apply H; rewrite Ha | rewrite Hb; apply H; rewrite <- Ha]; exact Hv.
  Qed.
End ListSetP.

(* ================================================================== *)
(* 2. values: induction principle, the canonical equality                *)
(* ================================================================== *)
Section ValInd.
  Context (P : val -> Prop)
    (HInt : forall k z, P (VInt k z)) (HFlt : forall k b, P (VFlt k b)) (HRat : forall n d, P (VRat n d))
    (HStr : forall s, P (VStr s)) (HBool : forall b, P (VBool b))
    (HTup : forall l, Forall P l -> P (VTup l))
    (HSet : forall k n l, Forall P l -> P (VSet k n l)).

  Fixpoint val_ind' (v : val) : P v :=
    let go := fix go (l : list val) : Forall P l :=
                match l with
                | [] => Forall_nil P
                | x :: r => Forall_cons x (val_ind' x) (go r)
                end in
    match v with
    | VInt k z => HInt k z
    | VFlt k b => HFlt k b
    | VRat n d => HRat n d
    | VStr s => HStr s
    | VBool b => HBool b
    | VTup l => HTup l (go l)
    | VSet k n l => HSet k n l (go l)
    end.
End ValInd.

Lemma veq_tup_unfold : forall l l', veq (VTup l) (VTup l') = all2 veq l l'.
Proof. reflexivity. Qed.

Lemma veq_set_unfold : forall k n l k' n' l',
  veq (VSet k n l) (VSet k' n' l') =
  forallb (fun x => existsb (veq x) l') l && forallb (fun y => existsb (fun x => veq x y) l) l'.
Proof. reflexivity. Qed.

Lemma veq_set_iff : forall k n l k' n' l',
  veq (VSet k n l) (VSet k' n' l') = true <->
  (forall x, In x l -> exists y, In y l' /\ veq x y = true) /\
  (forall y, In y l' -> exists x, In x l /\ veq x y = true).
Proof.
  intros. rewrite veq_set_unfold, andb_true_iff, !forallb_forall. split; intros [H1 H2]; split.
  - intros x Hx. apply existsb_exists. apply H1. exact Hx.
  - intros y Hy. apply (existsb_exists (fun x => veq x y)). apply H2. exact Hy.
  - intros x Hx. apply existsb_exists. apply H1. exact Hx.
  - intros y Hy. apply (existsb_exists (fun x => veq x y)). apply H2. exact Hy.
Qed.

Lemma all2_refl_in : forall (f : val -> val -> bool) l, Forall (fun x => f x x = true) l -> all2 f l l = true.
Proof. intros f l H. induction H; cbn; [reflexivity|]. rewrite H, IHForall. reflexivity. Qed.

Lemma all2_sym_in : forall (f : val -> val -> bool) l,
  Forall (fun x => forall y, f x y = f y x) l -> forall l', all2 f l l' = all2 f l' l.
Proof.
  intros f l H. induction H as [|x l Hx _ IH]; intros [|y l']; cbn; try reflexivity.
  rewrite Hx, IH. reflexivity.
Qed.

Lemma all2_trans_in : forall (f : val -> val -> bool) l,
  Forall (fun x => forall y z, f x y = true -> f y z = true -> f x z = true) l ->
  forall l' l'', all2 f l l' = true -> all2 f l' l'' = true -> all2 f l l'' = true.
Proof.
  intros f l H. induction H as [|x l Hx _ IH]; intros [|y l'] [|z l'']; cbn; try discriminate; try reflexivity.
  intros H1 H2. apply andb_true_iff in H1 as [H1 H1'], H2 as [H2 H2'].
  rewrite (Hx y z H1 H2), (IH l' l'' H1' H2'). reflexivity.
Qed.

Lemma veq_refl : forall a, veq a a = true.
Proof.
  apply val_ind'; intros.
  - cbn [veq]. rewrite String.eqb_refl, Z.eqb_refl. reflexivity.
  - cbn [veq]. rewrite String.eqb_refl, Z.eqb_refl. reflexivity.
  - cbn [veq]. rewrite !Z.eqb_refl. reflexivity.
  - cbn [veq]. apply String.eqb_refl.
  - destruct b; reflexivity.
  - rewrite veq_tup_unfold. apply all2_refl_in. assumption.
  - apply veq_set_iff. rewrite Forall_forall in H.
    split; intros x Hx; exists x; split; auto.
Qed.

Lemma bool_eqb_sym : forall x y, Bool.eqb x y = Bool.eqb y x.
Proof. destruct x, y; reflexivity. Qed.

Lemma veq_sym : forall a b, veq a b = veq b a.
Proof.
  apply (val_ind' (fun a => forall b, veq a b = veq b a)).
  - intros k z [] ; try reflexivity. cbn. rewrite (String.eqb_sym k k0), (Z.eqb_sym z z0). reflexivity.
  - intros k x []; try reflexivity. cbn. rewrite (String.eqb_sym k k0), (Z.eqb_sym x bits).
    destruct (String.eqb_spec k0 k); subst; cbn; [|reflexivity].
    rewrite (andb_comm (fzero k x)). reflexivity.
  - intros n d []; try reflexivity. cbn. rewrite (Z.eqb_sym n n0), (Z.eqb_sym d d0). reflexivity.
  - intros s []; try reflexivity. cbn. apply String.eqb_sym.
  - intros x []; try reflexivity. cbn. apply bool_eqb_sym.
  - intros l IH []; try reflexivity. rewrite !veq_tup_unfold. apply all2_sym_in. exact IH.
  - intros k n l IH []; try reflexivity. rewrite Forall_forall in IH.
    apply eq_true_iff_eq. rewrite !veq_set_iff. split; intros [H1 H2]; split.
    + intros y Hy. destruct (H2 y Hy) as (x & Hx & Hxy). exists x. split; [exact Hx|]. rewrite <- (IH x Hx). exact Hxy.
    + intros x Hx. destruct (H1 x Hx) as (y & Hy & Hxy). exists y. split; [exact Hy|]. rewrite <- (IH x Hx). exact Hxy.
    + intros x Hx. destruct (H2 x Hx) as (y & Hy & Hxy). exists y. split; [exact Hy|]. rewrite (IH x Hx). exact Hxy.
    + intros y Hy. destruct (H1 y Hy) as (x & Hx & Hxy). exists x. split; [exact Hx|]. rewrite (IH x Hx). exact Hxy.
Qed.

Lemma veq_trans : forall a b c, veq a b = true -> veq b c = true -> veq a c = true.
Proof.
  apply (val_ind' (fun a => forall b c, veq a b = true -> veq b c = true -> veq a c = true)).
  - intros k z [] []; cbn; try discriminate. intros H1 H2.
    apply andb_true_iff in H1 as [H1 H1'], H2 as [H2 H2'].
    apply String.eqb_eq in H1, H2. apply Z.eqb_eq in H1', H2'. subst.
    rewrite String.eqb_refl, Z.eqb_refl. reflexivity.
  - intros k x [] []; cbn; try discriminate. intros H1 H2.
    apply andb_true_iff in H1 as [H1 H1'], H2 as [H2 H2'].
    apply String.eqb_eq in H1, H2. subst. rewrite String.eqb_refl. cbn.
    apply orb_true_iff in H1' as [H1'|H1'], H2' as [H2'|H2'].
    + apply Z.eqb_eq in H1', H2'. subst. rewrite Z.eqb_refl. reflexivity.
    + apply Z.eqb_eq in H1'. subst. rewrite H2'. apply orb_true_r.
    + apply Z.eqb_eq in H2'. subst. rewrite H1'. apply orb_true_r.
    + apply andb_true_iff in H1' as [Ha _], H2' as [_ Hb]. rewrite Ha, Hb. apply orb_true_r.
  - intros n d [] []; cbn; try discriminate. intros H1 H2.
    apply andb_true_iff in H1 as [H1 H1'], H2 as [H2 H2'].
    apply Z.eqb_eq in H1, H2, H1', H2'. subst. rewrite !Z.eqb_refl. reflexivity.
  - intros s [] []; cbn; try discriminate. intros H1 H2.
    apply String.eqb_eq in H1, H2. subst. apply String.eqb_refl.
  - intros x [] []; cbn; try discriminate. intros H1 H2.
    apply Bool.eqb_prop in H1, H2. subst. destruct b0; reflexivity.
  - intros l IH [] []; try discriminate; try (intros _ H; discriminate H).
    rewrite !veq_tup_unfold. apply all2_trans_in. exact IH.
  - intros k n l IH [] []; try discriminate; try (intros _ H; discriminate H).
    rewrite Forall_forall in IH. rewrite !veq_set_iff. intros [H1 H2] [H3 H4]. split.
    + intros x Hx. destruct (H1 x Hx) as (y & Hy & Hxy). destruct (H3 y Hy) as (z & Hz & Hyz).
      exists z. split; [exact Hz|]. exact (IH x Hx y z Hxy Hyz).
    + intros z Hz. destruct (H4 z Hz) as (y & Hy & Hyz). destruct (H2 y Hy) as (x & Hx & Hxy).
      exists x. split; [exact Hx|]. exact (IH x Hx y z Hxy Hyz).
Qed.

Definition veqP (x y : val) : Prop := veq x y = true.

Lemma veqP_equiv : Equivalence veqP.
Proof.
  split.
  - intros x. apply veq_refl.
  - intros x y H. unfold veqP. rewrite veq_sym. exact H.
  - intros x y z. apply veq_trans.
Qed.

(* a nested set equals every reordering of itself and ignores repetitions *)
Lemma veq_set_perm : forall k n l k' n' l', Permutation l l' -> veq (VSet k n l) (VSet k' n' l') = true.
Proof.
  intros. apply veq_set_iff. split; intros x Hx; exists x; split; try apply veq_refl.
  - eapply Permutation_in; eassumption.
  - eapply Permutation_in; [apply Permutation_sym|]; eassumption.
Qed.

(* +0.0 and -0.0 are one number *)
Lemma veq_signed_zero : veq (VFlt "f64" 0) (VFlt "f64" 9223372036854775808) = true.
Proof. reflexivity. Qed.

(* ================================================================== *)
(* 3. the list-set theory instantiated at values with the canonical equality *)
(* ================================================================== *)
Ltac veq_hyps := first [apply veq_refl | apply veq_sym | apply veq_trans].

Lemma vmemb_In : forall x l, In x l -> memb veq x l = true.
Proof. intros; apply memb_In; [veq_hyps | assumption]. Qed.
Lemma vmemb_cong : forall x y l, veq x y = true -> memb veq x l = memb veq y l.
Proof. intros; apply memb_cong; try veq_hyps; assumption. Qed.
Lemma vmemb_of_list : forall v l, memb veq v (of_list veq l) = memb veq v l.
Proof. intros; apply memb_of_list; veq_hyps. Qed.
Lemma vnodupb_of_list : forall l, nodupb veq (of_list veq l) = true.
Proof. intros; apply nodupb_of_list; veq_hyps. Qed.
Lemma vnodupb_NoDupA : forall l, nodupb veq l = true <-> NoDupA veqP l.
Proof. intros; apply (nodupb_NoDupA veq). Qed.
Lemma vof_list_nodup : forall l, nodupb veq l = true -> of_list veq l = l.
Proof. intros; apply of_list_nodup; try veq_hyps; assumption. Qed.
Lemma vmemb_union : forall v a b, memb veq v (union veq a b) = memb veq v a || memb veq v b.
Proof. intros; apply memb_union; veq_hyps. Qed.
Lemma vmemb_inter : forall v a b, memb veq v (inter veq a b) = memb veq v a && memb veq v b.
Proof. intros; apply memb_inter; veq_hyps. Qed.
Lemma vmemb_diff : forall v a b, memb veq v (diff veq a b) = memb veq v a && negb (memb veq v b).
Proof. intros; apply memb_diff; veq_hyps. Qed.
Lemma vmemb_symdiff : forall v a b, memb veq v (symdiff veq a b) = xorb (memb veq v a) (memb veq v b).
Proof. intros; apply memb_symdiff; veq_hyps. Qed.
Lemma vsubset_spec : forall a b,
  subset veq a b = true <-> (forall v, memb veq v a = true -> memb veq v b = true).
Proof. intros; apply subset_spec; veq_hyps. Qed.
Lemma vpsubset_spec : forall a b,
  psubset veq a b = true <->
  (forall v, memb veq v a = true -> memb veq v b = true) /\ (exists v, memb veq v b = true /\ memb veq v a = false).
Proof. intros; apply psubset_spec; veq_hyps. Qed.
Lemma vsuperset_spec : forall a b,
  superset veq a b = true <-> (forall v, memb veq v b = true -> memb veq v a = true).
Proof. intros; apply superset_spec; veq_hyps. Qed.
Lemma vpsuperset_spec : forall a b,
  psuperset veq a b = true <->
  (forall v, memb veq v b = true -> memb veq v a = true) /\ (exists v, memb veq v a = true /\ memb veq v b = false).
Proof. intros; apply psuperset_spec; veq_hyps. Qed.
Lemma vsame_elems_spec : forall a b,
  same_elems veq a b = true <-> (forall v, memb veq v a = memb veq v b).
Proof. intros; apply same_elems_spec; veq_hyps. Qed.
Lemma vpsubset_len_spec : forall a b,
  nodupb veq a = true -> nodupb veq b = true -> psubset_len veq a b = psubset veq a b.
Proof. intros; apply psubset_len_spec; try veq_hyps; assumption. Qed.
Lemma vsame_elems_length : forall a b,
  nodupb veq a = true -> nodupb veq b = true -> (forall v, memb veq v a = memb veq v b) ->
  List.length a = List.length b.
Proof. intros; apply (same_elems_length veq); try veq_hyps; assumption. Qed.
Lemma vof_list_perm_elems : forall l l' v,
  Permutation l l' -> memb veq v (of_list veq l) = memb veq v (of_list veq l').
Proof. intros; apply of_list_perm_elems; try veq_hyps; assumption. Qed.
Lemma vof_list_perm_size : forall l l',
  Permutation l l' -> List.length (of_list veq l) = List.length (of_list veq l').
Proof. intros; apply of_list_perm_size; try veq_hyps; assumption. Qed.

(* ================================================================== *)
(* 4. the property as a predicate on (case, observation); judge soundness *)
(* ================================================================== *)
Open Scope string_scope.

(* v is (equal to) one of the written elements *)
Definition inS (v : val) (l : list val) : Prop := memb veq v l = true.

Lemma inS_iff : forall v l, inS v l <-> exists x, In x l /\ veq v x = true.
Proof. intros. unfold inS, memb. apply existsb_exists. Qed.

(* the mathematical content of a set-valued case: which values belong to the result *)
Definition set_meaning (c : case) : option (val -> Prop) :=
  match c with
  | CLit _ a => Some (fun v => inS v a)
  | CBin OUnion _ _ a b => Some (fun v => inS v a \/ inS v b)
  | CBin OInter _ _ a b => Some (fun v => inS v a /\ inS v b)
  | CBin ODiff _ _ a b => Some (fun v => inS v a /\ ~ inS v b)
  | CBin OSym _ _ a b => Some (fun v => (inS v a /\ ~ inS v b) \/ (inS v b /\ ~ inS v a))
  | CComp out qs => match comp_values out qs with Some vs => Some (fun v => inS v vs) | None => None end
  | _ => None
  end.

(* ... and of a truth-valued case *)
Definition bool_meaning (c : case) : option Prop :=
  match c with
  | CRel RSub _ _ a b => Some (forall v, inS v a -> inS v b)
  | CRel RPSub _ _ a b => Some ((forall v, inS v a -> inS v b) /\ exists v, inS v b /\ ~ inS v a)
  | CRel RSup _ _ a b => Some (forall v, inS v b -> inS v a)
  | CRel RPSup _ _ a b => Some ((forall v, inS v b -> inS v a) /\ exists v, inS v a /\ ~ inS v b)
  | CMem neg _ x a => Some (if neg then ~ inS x a else inS x a)
  | _ => None
  end.

(* an observed set (reported kind k, reported size n, elements l) is a good answer for M *)
Definition good_set (M : val -> Prop) (k : string) (n : Z) (l : list val) : Prop :=
  NoDupA veqP l /\                                         (* no two equal elements *)
  n = Z.of_nat (List.length l) /\                          (* reported size = number of elements *)
  (forall v, inS v l <-> M v) /\                           (* exactly the mathematical elements *)
  (forall x, In x l -> kind_text x = k /\ val_ok x = true) /\  (* all of the set's element kind; nested sets are sets *)
  (l = [] -> k = "_").

Definition C14_spec (c : case) (o : sobs) : Prop :=
  match set_meaning c, bool_meaning c with
  | Some M, _ =>
      (exists k n l, o = SSet k n l /\ good_set M k n l) \/
      (o = SErr /\ exists v w, M v /\ M w /\ kind_text v <> kind_text w)   (* refusing a mixed-kind set is fine *)
  | None, Some P => exists b, o = SBool b /\ (b = true <-> P)
  | None, None => False
  end.

Lemma expected_set : forall c M, set_meaning c = Some M ->
  exists E, expected c = ESet E /\ nodupb veq E = true /\ forall v, inS v E <-> M v.
Proof.
  intros c M H. destruct c as [ra a|o ra rb a b|r ra rb a b|neg ra x a|out qs]; cbn in H; try discriminate.
  - inversion H; subst. eexists. split; [reflexivity|]. split; [apply vnodupb_of_list|].
    intros v. unfold inS. rewrite vmemb_of_list. reflexivity.
  - destruct o; inversion H; subst; eexists; (split; [reflexivity|]);
      (split; [apply vnodupb_of_list|]); intros v; unfold inS; cbn [set_op].
    + rewrite vmemb_union, !vmemb_of_list, orb_true_iff. reflexivity.
    + rewrite vmemb_inter, !vmemb_of_list, andb_true_iff. reflexivity.
    + rewrite vmemb_diff, !vmemb_of_list, andb_true_iff, negb_true_iff, not_true_iff_false. reflexivity.
    + rewrite vmemb_symdiff, !vmemb_of_list. rewrite !not_true_iff_false.
      destruct (memb veq v a), (memb veq v b); cbn; intuition discriminate.
  - cbn [expected]. destruct (comp_values out qs) as [vs|]; [|discriminate]. inversion H; subst.
    eexists. split; [reflexivity|]. split; [apply vnodupb_of_list|].
    intros v. unfold inS. rewrite vmemb_of_list. reflexivity.
Qed.

Lemma expected_bool : forall c P, set_meaning c = None -> bool_meaning c = Some P ->
  exists b, expected c = EBool b /\ (b = true <-> P).
Proof.
  intros c P Hs H. destruct c as [ra a|o ra rb a b|r ra rb a b|neg ra x a|out qs]; cbn in H; try discriminate.
  - destruct r; inversion H; subst; eexists; (split; [reflexivity|]); cbn [rel_op]; unfold inS.
    + rewrite vsubset_spec. setoid_rewrite vmemb_of_list. reflexivity.
    + rewrite vpsubset_spec. setoid_rewrite vmemb_of_list.
      setoid_rewrite not_true_iff_false. reflexivity.
    + rewrite vsuperset_spec. setoid_rewrite vmemb_of_list. reflexivity.
    + rewrite vpsuperset_spec. setoid_rewrite vmemb_of_list.
      setoid_rewrite not_true_iff_false. reflexivity.
  - inversion H; subst. eexists. split; [reflexivity|]. unfold inS. rewrite vmemb_of_list.
    destruct neg, (memb veq x a); cbn; intuition discriminate.
Qed.

Lemma kinds_ok_spec : forall k l, kinds_ok k l = true ->
  (forall x, In x l -> kind_text x = k) /\ (l = [] -> k = "_").
Proof.
  intros k [|y l] H.
  - cbn in H. apply String.eqb_eq in H. split; [intros x []|auto].
  - unfold kinds_ok in H. rewrite forallb_forall in H. split; [|discriminate].
    intros x Hx. apply String.eqb_eq. apply H. exact Hx.
Qed.

Lemma check_set_sound : forall E k n l t,
  check_set E k n l = VOk t -> good_set (fun v => inS v E) k n l.
Proof.
  intros E k n l t. unfold check_set.
  destruct (nodupb veq l) eqn:Hn; cbn [negb]; [|discriminate].
  destruct (Z.eqb n (Z.of_nat (List.length l))) eqn:Hs; cbn [negb]; [|discriminate].
  destruct (same_elems veq l E) eqn:He; cbn [negb]; [|discriminate].
  destruct (kinds_ok k l && forallb val_ok l) eqn:Hk; cbn [negb]; [|discriminate].
  intros _. apply andb_true_iff in Hk as [Hk Hv]. apply kinds_ok_spec in Hk as [Hk1 Hk2].
  rewrite forallb_forall in Hv. pose proof (proj1 (vsame_elems_spec l E) He) as Hse.
  unfold good_set. split; [apply vnodupb_NoDupA; exact Hn|]. split; [apply Z.eqb_eq; exact Hs|].
  split; [intros v; unfold inS; rewrite (Hse v); reflexivity|]. split; [|exact Hk2].
  intros x Hx. split; [apply Hk1 | apply Hv]; exact Hx.
Qed.

Lemma forallb_false_ex' : forall (A : Type) (f : A -> bool) l, forallb f l = false -> exists x, In x l /\ f x = false.
Proof.
  intros A f l. induction l as [|x l IH]; cbn [forallb]; [discriminate|].
  destruct (f x) eqn:Hf; cbn [andb].
  - intros H. destruct (IH H) as (y & Hy & Hfy). exists y. split; [right; exact Hy | exact Hfy].
  - intros _. exists x. split; [left; reflexivity | exact Hf].
Qed.

Lemma not_uniform_ex : forall E, uniform E = false ->
  exists v w, In v E /\ In w E /\ kind_text v <> kind_text w.
Proof.
  intros [|x r] H; [discriminate|]. unfold uniform in H.
  apply forallb_false_ex' in H as (y & Hy & Hk). exists y, x. repeat split.
  - right. exact Hy.
  - left. reflexivity.
  - intros Heq. rewrite Heq, String.eqb_refl in Hk. discriminate.
Qed.

(* the checker is sound for the property *)
Lemma check_sound : forall c o t, check c o = VOk t -> C14_spec c o.
Proof.
  intros c o t H. unfold C14_spec, check in *.
  destruct (set_meaning c) as [M|] eqn:Hm.
  - destruct (expected_set c M Hm) as (E & HE & _ & HM). rewrite HE in H.
    destruct o as [k n l|b| |]; try discriminate.
    + left. exists k, n, l. split; [reflexivity|].
      destruct (check_set_sound E k n l t H) as (G1 & G2 & G3 & G4 & G5).
      unfold good_set. repeat (split; [assumption|]). split; [|split; assumption].
      intros v. rewrite G3. apply HM.
    + right. split; [reflexivity|]. destruct (uniform E) eqn:Hu; [discriminate|].
      destruct (not_uniform_ex E Hu) as (v & w & Hv & Hw & Hk). exists v, w.
      split; [apply HM, vmemb_In; exact Hv|]. split; [apply HM, vmemb_In; exact Hw | exact Hk].
  - destruct (bool_meaning c) as [P|] eqn:Hb.
    + destruct (expected_bool c P Hm Hb) as (b & HE & HP). rewrite HE in H.
      destruct o as [k n l|b'| |]; try discriminate.
      destruct (Bool.eqb b b') eqn:Hbb; [|discriminate]. apply Bool.eqb_prop in Hbb. subst.
      exists b'. split; [reflexivity | exact HP].
    + destruct c as [ra a|o' ra rb a b|r ra rb a b|neg ra x a|out qs]; cbn in Hm, Hb; try discriminate.
      * destruct o'; discriminate.
      * destruct r; discriminate.
      * cbn [expected] in H. destruct (comp_values out qs); discriminate.
Qed.

Lemma judge_case_sound : forall c os tag, judge_case c os = v_ok tag -> Forall (C14_spec c) os.
Proof.
  intros c os tag H. unfold judge_case in H. destruct os as [|o0 os]; [discriminate|].
  destruct (forallb (fun o => is_ok (check c o)) (o0 :: os)) eqn:Hall.
  - rewrite forallb_forall in Hall. apply Forall_forall. intros o Ho. specialize (Hall o Ho).
    destruct (check c o) as [t|w] eqn:Hc; [|discriminate]. exact (check_sound c o t Hc).
  - exfalso. assert (Hfb : forall l, first_bad c l <> v_ok tag).
    { induction l as [|o l IH]; cbn; [discriminate|]. destruct (check c o); [exact IH | discriminate]. }
    destruct (kf_class c); [destruct (faithful c) as [p|]|]; try (exact (Hfb _ H)).
    destruct (existsb (sobs_eqb p) (o0 :: os)); [discriminate | exact (Hfb _ H)].
Qed.

(* ================================================================== *)
(* 5. the faithful model violates the property on each known-finding class *)
(* ================================================================== *)
Lemma refute_dup : forall c M k n l,
  set_meaning c = Some M -> nodupb veq l = false -> ~ C14_spec c (SSet k n l).
Proof.
  intros c M k n l Hm Hn H. unfold C14_spec in H. rewrite Hm in H.
  destruct H as [(k' & n' & l' & Heq & Hg)|(Heq & _)]; [|discriminate].
  inversion Heq; subst. destruct Hg as (Hnd & _). apply vnodupb_NoDupA in Hnd. congruence.
Qed.

Lemma refute_kinds : forall c M k n l x y,
  set_meaning c = Some M -> In x l -> In y l -> kind_text x <> kind_text y -> ~ C14_spec c (SSet k n l).
Proof.
  intros c M k n l x y Hm Hx Hy Hk H. unfold C14_spec in H. rewrite Hm in H.
  destruct H as [(k' & n' & l' & Heq & Hg)|(Heq & _)]; [|discriminate].
  inversion Heq; subst. destruct Hg as (_ & _ & _ & Hkk & _).
  destruct (Hkk x Hx) as [Hx' _]. destruct (Hkk y Hy) as [Hy' _]. congruence.
Qed.

Definition f64_1 : val := VFlt "f64" 4607182418800017408.
Definition f64_2 : val := VFlt "f64" 4611686018427387904.
Definition f64_pz : val := VFlt "f64" 0.
Definition f64_nz : val := VFlt "f64" 9223372036854775808.

(* {{1,2},{2,1}} *)
Definition wit_nested : case :=
  CLit false [annot (VSet "" 0 [f64_1; f64_2]); annot (VSet "" 0 [f64_2; f64_1])].
(* {0.0, -0.0} *)
Definition wit_zero : case := CLit false [f64_pz; f64_nz].
(* {1} ∪ {"a"} *)
Definition wit_mixed : case := CBin OUnion false false [f64_1] [VStr "a"].
(* a := 1; A := {a}; B := {1}; A ∪ B *)
Definition wit_var : case := CBin OUnion true false [f64_1] [f64_1].

Lemma refuted_nested_set_order :
  exists o, wf_case wit_nested = true /\ kf_class wit_nested = Some "nested-set-order" /\
            faithful wit_nested = Some o /\ ~ C14_spec wit_nested o.
Proof.
  eexists. split; [vm_compute; reflexivity|]. split; [vm_compute; reflexivity|].
  split; [vm_compute; reflexivity|]. eapply refute_dup; [reflexivity | vm_compute; reflexivity].
Qed.

Lemma refuted_signed_zero :
  exists o, wf_case wit_zero = true /\ kf_class wit_zero = Some "signed-zero" /\
            faithful wit_zero = Some o /\ ~ C14_spec wit_zero o.
Proof.
  eexists. split; [vm_compute; reflexivity|]. split; [vm_compute; reflexivity|].
  split; [vm_compute; reflexivity|]. eapply refute_dup; [reflexivity | vm_compute; reflexivity].
Qed.

Lemma refuted_mixed_kind_operands :
  exists o, wf_case wit_mixed = true /\ kf_class wit_mixed = Some "mixed-kind-operands" /\
            faithful wit_mixed = Some o /\ ~ C14_spec wit_mixed o.
Proof.
  eexists. split; [vm_compute; reflexivity|]. split; [vm_compute; reflexivity|].
  split; [vm_compute; reflexivity|].
  eapply (refute_kinds _ _ _ _ _ f64_1 (VStr "a")); [reflexivity | left; reflexivity | right; left; reflexivity | discriminate].
Qed.

Lemma refuted_variable_elements :
  exists o, wf_case wit_var = true /\ kf_class wit_var = Some "variable-elements" /\
            faithful wit_var = Some o /\ ~ C14_spec wit_var o.
Proof.
  eexists. split; [vm_compute; reflexivity|]. split; [vm_compute; reflexivity|].
  split; [vm_compute; reflexivity|]. eapply refute_dup; [reflexivity | vm_compute; reflexivity].
Qed.

(* ================================================================== *)
(* 6. results do not depend on the order (or repetition) in which elements were written *)
(* ================================================================== *)
Lemma vmemb_perm : forall v l l', Permutation l l' -> memb veq v l = memb veq v l'.
Proof. intros. apply memb_perm. assumption. Qed.

Lemma vsubset_ext : forall a a' b b',
  (forall v, memb veq v a = memb veq v a') -> (forall v, memb veq v b = memb veq v b') ->
  subset veq a b = subset veq a' b'.
Proof. intros; apply subset_ext; try veq_hyps; assumption. Qed.

Lemma set_op_nodup : forall o a b, nodupb veq (set_op o a b) = true.
Proof. intros [] a b; apply vnodupb_of_list. Qed.

Lemma set_op_ext : forall o a a' b b',
  (forall v, memb veq v a = memb veq v a') -> (forall v, memb veq v b = memb veq v b') ->
  forall v, memb veq v (set_op o a b) = memb veq v (set_op o a' b').
Proof.
  intros o a a' b b' Ha Hb v. destruct o; cbn [set_op].
  - rewrite !vmemb_union. congruence.
  - rewrite !vmemb_inter. congruence.
  - rewrite !vmemb_diff. congruence.
  - rewrite !vmemb_symdiff. congruence.
Qed.

Lemma rel_op_ext : forall r a a' b b',
  (forall v, memb veq v a = memb veq v a') -> (forall v, memb veq v b = memb veq v b') ->
  rel_op r a b = rel_op r a' b'.
Proof.
  intros r a a' b b' Ha Hb. destruct r; cbn [rel_op]; unfold psuperset, superset, psubset.
  - apply vsubset_ext; assumption.
  - rewrite (vsubset_ext a a' b b' Ha Hb), (vsubset_ext b b' a a' Hb Ha). reflexivity.
  - apply vsubset_ext; assumption.
  - rewrite (vsubset_ext a a' b b' Ha Hb), (vsubset_ext b b' a a' Hb Ha). reflexivity.
Qed.

Lemma order_irrelevant_ops : forall o a a' b b', Permutation a a' -> Permutation b b' ->
  (forall v, memb veq v (set_op o (of_list veq a) (of_list veq b)) =
             memb veq v (set_op o (of_list veq a') (of_list veq b'))) /\
  List.length (set_op o (of_list veq a) (of_list veq b)) = List.length (set_op o (of_list veq a') (of_list veq b')).
Proof.
  intros o a a' b b' Ha Hb.
  assert (H : forall v, memb veq v (set_op o (of_list veq a) (of_list veq b)) =
                        memb veq v (set_op o (of_list veq a') (of_list veq b'))).
  { apply set_op_ext; intros v; apply vof_list_perm_elems; assumption. }
  split; [exact H|]. apply vsame_elems_length; try apply set_op_nodup. exact H.
Qed.

Lemma order_irrelevant_rels : forall r a a' b b', Permutation a a' -> Permutation b b' ->
  rel_op r (of_list veq a) (of_list veq b) = rel_op r (of_list veq a') (of_list veq b').
Proof. intros. apply rel_op_ext; intros v; apply vof_list_perm_elems; assumption. Qed.

Lemma order_irrelevant_mem : forall x a a', Permutation a a' ->
  memb veq x (of_list veq a) = memb veq x (of_list veq a').
Proof. intros. apply vof_list_perm_elems. assumption. Qed.

(* ================================================================== *)
