(* C06 — soundness of the link checks of the judge (Model/BytecodeLinkJ.v):
   [file_link bs = LYes] exhibits the emitted file as the encoding of the lowering of a well-formed abstract program,
   so every theorem of Proofs/BytecodeLinkP.v applies to THAT file; [instrs_link plan is = LYes] says the printed
   instruction list is what [lower] predicts for the plan read from the dump; an ok / kf answer of the extended judge
   means no applicable link check disagreed. *)
From Coq Require Import List NArith ZArith Arith Bool String.
From MechV Require Import Base.Sexp Base.Obs Proofs.SexpP Model.Plan Model.Bytecode Model.Crc32 Model.Loader Model.LoaderJ
  Model.Container Model.ConstCodec Model.BytecodeLink Model.BytecodeLinkJ Proofs.ContainerP.
Import ListNotations.
Local Open Scope string_scope.

Theorem file_link_sound (bs : bytes) : file_link bs = LYes ->
  exists e P, wf_lenv e = true /\ forallb wf_ninstr P = true /\ size_ok e P = true /\ bs = encode_program (lower e P).
Proof.
  unfold file_link. destruct (fst (load_program bs)) as [q| |]; try discriminate.
  destruct (decode_consts q) as [K en]. destruct en; try discriminate.
  destruct (map_opt (rebuild_instr K) (p_instrs q)) as [P|]; try discriminate.
  destruct (wf_lenv (env_of q) && forallb wf_ninstr P && size_ok (env_of q) P)%bool eqn:W; cbn [negb]; try discriminate.
  destruct (N_list_eqb (encode_program (lower (env_of q) P)) bs) eqn:E.
  - intros _. apply andb_prop in W as [W W3]. apply andb_prop in W as [W1 W2].
    exists (env_of q), P. repeat split; try assumption. symmetry. apply N_list_eqb_eq. exact E.
  - repeat match goal with |- (if ?c then _ else _) = _ -> _ => destruct c end; discriminate.
Qed.

Theorem instrs_link_sound (plan is : list sx) : instrs_link plan is = LYes ->
  exists rp p, map_opt decode_rstep plan = Some rp /\ zip_steps rp (filter_opt sx_op is) = Some p /\
               is = map instr_sx (snd (lower_go ls0 (ncompile p dummy_final))).
Proof.
  unfold instrs_link. cbv zeta. destruct (map_opt decode_rstep plan) as [rp|]; try discriminate.
  destruct (Nat.eqb (List.length rp) (List.length (filter_opt sx_op is))); cbn [negb].
  2:{ destruct (forallb r_structured rp); discriminate. }
  destruct (zip_steps rp (filter_opt sx_op is)) as [p|] eqn:Z; try discriminate.
  destruct (sxs_eqb (map instr_sx (predicted_instrs p)) is) eqn:E; try discriminate.
  intros _. exists rp, p. split; [reflexivity|]. split; [exact Z|]. symmetry. apply sxs_eqb_eq. exact E.
Qed.

(* an ok / kf verdict of the extended judge: the base judge said ok / kf, and no link check said "no" *)
Theorem link_verdict_sound (v : sx) (f i : lres) (pr : sx) :
  (v_head (link_verdict v f i pr) = "ok" \/ v_head (link_verdict v f i pr) = "kf") ->
  (v_head v = "ok" \/ v_head v = "kf") /\ (forall w, f <> LNo w) /\ (forall w, i <> LNo w).
Proof.
  unfold link_verdict.
  destruct (String.eqb (v_head v) "ok") eqn:E1; destruct (String.eqb (v_head v) "kf") eqn:E2; cbn [orb negb andb];
    try apply String.eqb_eq in E1; try apply String.eqb_eq in E2.
  - intros _. split; [left; exact E1|]. rewrite E1 in E2. discriminate.
  - destruct f as [wf| |wf]; destruct i as [wi| |wi]; cbn [v_head v_bad];
      try (intros [H|H]; discriminate H);
      (intros _; split; [left; exact E1|split; intros w; discriminate]).
  - destruct f as [wf| |wf]; destruct i as [wi| |wi]; cbn [v_head v_bad];
      try (intros [H|H]; discriminate H);
      (intros _; split; [right; exact E2|split; intros w; discriminate]).
  - apply String.eqb_neq in E1. apply String.eqb_neq in E2. intros [H|H]; contradiction.
Qed.
