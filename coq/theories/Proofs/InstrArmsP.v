(* C06 / C07 — the per-instruction arms of the bytecode writer, reader and runner against the tables REGENERATED from the
   Rust source on every run (Gen/InstrArms.v, written by translators/instr_arms.py).

   The source has one hand-written arm per instruction kind in five places:
     EncodedInstr::write_to / byte_len   (src/core/src/program/compiler/sections.rs: what the compiler emits)
     DecodedInstr::write_to              (src/core/src/program/program.rs: re-encoding a loaded program)
     decode_instructions                 (program.rs: the loader)
     Interpreter::run_program            (src/interpreter/src/interpreter.rs: rebuilding the plan)
   Statements, for every instruction kind (the variants of the enums as they are DECLARED in the source):

     writers     the arm writes the opcode of its kind, then every field of the variant exactly once, in declaration
                 order, with the width of its type, little-endian (VarArg: the count, then every argument)   [write_arm_ok]
     byte_len    1 + the widths of the fields                                                              [len_arm_ok]
     reader      the arm of an opcode reads the fields of its variant in declaration order with their widths and builds
                 the variant with every field bound to the value read for it                                [read_arm_ok]
     runner      the arm looks the function up, reads the registers named by dst and the operand fields, builds
                 FunctionArgs::<arity>(out, operands in declaration order), sets self.out to the function's output
                 and appends the function to the plan — in this order, once each                           [run_arm_ok]
     opcodes     the discriminants of OpCode, OpCode::from_u8 and the constants of Model/Loader.v agree    [opcodes_ok]

   Meaning: [src_encode_is_encode_instr] — the byte string the extracted write arms produce for an instruction IS
   [Loader.encode_instr] (the codec whose round trip with the loader model is Props/C07 theorem
   C07_instr_stream_roundtrip); [src_decode_is_decode_instr] — decoding by the extracted read arms IS
   [Loader.decode_instr] for every fixed-arity opcode; [src_run_builds_step] — the extracted runner arm of an operation
   instruction produces the plan step (out := dst, args := operands in order) and the result register that
   Model/Bytecode.v ([exec], [decode_rinstr]) assumes. *)
From Coq Require Import List Arith Bool String NArith Ascii Lia.
From MechV Require Import Base.Sexp Model.SrcArms Proofs.SrcArmsP Gen.InstrArms Model.Loader.
Import ListNotations.
Open Scope string_scope.
Open Scope nat_scope.

(* ---- 0. ------------------------------------------------------------------------------------------- *)
Theorem ia_nothing_unrecognised : ia_unrecognised = [].
Proof. vm_compute. reflexivity. Qed.

(* ---- tables ----------------------------------------------------------------------------------------- *)
Definition variant : Type := string * list (string * string) * string.
Definition enum_variants (name : string) : list variant :=
  match find (fun e : string * string * list variant => String.eqb (fst (fst e)) name) ia_enums with
  | Some (_, _, vs) => vs
  | None => []
  end.
Definition arms_of (fn : string) : list (string * tm * tm) :=
  match find (fun e : string * string * list (string * tm * tm) => String.eqb (fst (fst e)) fn) ia_matches with
  | Some (_, _, a) => a
  | None => []
  end.

Definition ty_width (t : string) : option nat :=
  if String.eqb t "u64" then Some 8 else if String.eqb t "u32" then Some 4 else if String.eqb t "u8" then Some 1 else None.

(* instruction kind -> name of its opcode *)
Definition opcode_name (v : string) : string :=
  if String.eqb v "UnOp" then "Unop" else if String.eqb v "BinOp" then "Binop" else if String.eqb v "TernOp" then "Ternop"
  else if String.eqb v "QuadOp" then "Quadop" else if String.eqb v "Ret" then "Return" else v.

(* ---- 1. opcodes ---------------------------------------------------------------------------------------- *)
Fixpoint dec_value (s : string) (acc : N) : option N :=
  match s with
  | EmptyString => Some acc
  | String c r => let n := nat_of_ascii c in
                  if Nat.leb 48 n && Nat.leb n 57 then dec_value r (acc * 10 + N.of_nat (n - 48))%N else None
  end.
Fixpoint hex_value (s : string) (acc : N) : option N :=
  match s with
  | EmptyString => Some acc
  | String c r => match hexval c with Some d => hex_value r (acc * 16 + N.of_nat d)%N | None => None end
  end.
Definition lit_value (s : string) : option N :=
  match s with
  | String "0" (String "x" r) => hex_value r 0
  | _ => dec_value s 0
  end.

Definition opcode_values : list (string * option N) :=
  map (fun v : variant => (fst (fst v), dec_value (snd v) 0%N)) (enum_variants "OpCode").

Definition model_opcodes : list (string * option N) :=
  [("ConstLoad", Some OP_CONSTLOAD); ("NullOp", Some OP_NULLOP); ("Unop", Some OP_UNOP); ("Binop", Some OP_BINOP);
   ("Ternop", Some OP_TERNOP); ("Quadop", Some OP_QUADOP); ("VarArg", Some OP_VARARG); ("Return", Some OP_RETURN)].

Definition optN_eqb (a b : option N) : bool := match a, b with Some x, Some y => N.eqb x y | _, _ => false end.
Definition opc_eqb (a b : string * option N) : bool := String.eqb (fst a) (fst b) && optN_eqb (snd a) (snd b).

(* OpCode::from_u8: `0x01 => Some(OpCode::ConstLoad)` for every opcode, then `_ => None` *)
Definition from_u8_pairs : list (string * option N) :=
  flat_map (fun a : string * tm * tm =>
              match a with
              | (_, L lit, T "call" [L "Some"; L path]) =>
                  [(match index_of "OpCode::" [substring 0 8 path] with Some _ => substring 8 (String.length path - 8) path | None => path end,
                    lit_value lit)]
              | _ => []
              end) (arms_of "OpCode::from_u8").

Definition opcodes_ok : bool :=
  list_eqb opc_eqb opcode_values model_opcodes && list_eqb opc_eqb from_u8_pairs model_opcodes &&
  match rev (arms_of "OpCode::from_u8") with (_, L "_", L "None") :: _ => true | _ => false end &&
  Nat.eqb (List.length (arms_of "OpCode::from_u8")) 9.

Definition opcode_byte (name : string) : option N :=
  match find (fun e : string * option N => String.eqb (fst e) name) opcode_values with Some (_, v) => v | None => None end.

(* ---- 2. writers ------------------------------------------------------------------------------------------ *)
Inductive wr : Type :=
| WOp (name : string)                 (* w.write_u8(OpCode::name as u8) *)
| WField (width : nat) (f : string)   (* w.write_uN::<LittleEndian>( *f ) *)
| WLen (f : string)                   (* w.write_u32::<LittleEndian>(f.len() as u32) *)
| WEach (width : nat) (f : string)    (* for a in f { w.write_uN::<LittleEndian>( *a ) } *)
| WAll (f : string)                   (* w.write_all(f) *)
| WBad.

Definition wr_eqb (a b : wr) : bool :=
  match a, b with
  | WOp x, WOp y => String.eqb x y
  | WField w f, WField w' f' => Nat.eqb w w' && String.eqb f f'
  | WLen f, WLen f' => String.eqb f f'
  | WEach w f, WEach w' f' => Nat.eqb w w' && String.eqb f f'
  | WAll f, WAll f' => String.eqb f f'
  | _, _ => false
  end.

Definition write_width (h : string) : option nat :=
  if String.eqb h ".write_u64::<LittleEndian>()" then Some 8 else if String.eqb h ".write_u32::<LittleEndian>()" then Some 4
  else if String.eqb h ".write_u8()" then Some 1 else None.

Definition wr_of_stmt (s : tm) : wr :=
  match s with
  | T "?" [T h [L "w"; v]] =>
      match write_width h, v with
      | Some 1, T "as" [L path; L "u8"] => if String.eqb (substring 0 8 path) "OpCode::" then WOp (substring 8 (String.length path - 8) path) else WBad
      | Some w, L f => WField w f
      | Some 4, T "as" [T ".len()" [L f]; L "u32"] => WLen f
      | None, L f => if String.eqb h ".write_all()" then WAll f else WBad
      | _, _ => WBad
      end
  | T "for" [L a; L f; T "block" [T "?" [T h [L "w"; L a']]]] =>
      match write_width h with Some w => if String.eqb a a' then WEach w f else WBad | None => WBad end
  | _ => WBad
  end.

Definition writes_of (body : tm) : list wr :=
  match norm body with T "block" l => map wr_of_stmt l | _ => [WBad] end.

Definition expected_writes (v : variant) : list wr :=
  let '(name, fields, _) := v in
  if String.eqb name "Unknown" then [WField 1 "opcode"; WAll "rest"]
  else WOp (opcode_name name) ::
       flat_map (fun ft : string * string =>
                   match ty_width (snd ft) with
                   | Some w => [WField w (fst ft)]
                   | None => if String.eqb (snd ft) "Vec<u32>" then [WLen (fst ft); WEach 4 (fst ft)] else [WBad]
                   end) fields.

(* `Enum::V { f1, f2, .. }` binding every field of the variant, in declaration order, to a variable of its name *)
Definition pattern_binds (enum : string) (v : variant) (p : tm) : bool :=
  match p with
  | T "pstruct" (L path :: fs) =>
      String.eqb path (enum ++ "::" ++ fst (fst v)) &&
      list_eqb tm_eqb fs (map (fun ft : string * string => T (fst ft ++ ":") [L (fst ft)]) (snd (fst v)))
  | _ => false
  end.

Definition write_arms_diag (enum fn : string) : list string :=
  let vs := enum_variants enum in
  let arms := arms_of fn in
  if Nat.eqb (List.length vs) (List.length arms) && negb (Nat.eqb (List.length vs) 0)
  then flat_map (fun va : variant * (string * tm * tm) =>
                   let '(v, (site, p, body)) := va in
                   if pattern_binds enum v p && list_eqb wr_eqb (writes_of body) (expected_writes v) then [] else [site])
                (combine vs arms)
  else [fn ++ ": one arm per variant expected"].

(* ---- 3. byte_len ------------------------------------------------------------------------------------------ *)
Fixpoint summands (t : tm) : list tm :=
  match t with
  | T "+" [a; b] => List.app (summands a) [b]
  | _ => [t]
  end.

Definition expected_len (v : variant) : list tm :=
  L "1" :: map (fun ft : string * string =>
                  if String.eqb (snd ft) "u64" then L "8" else if String.eqb (snd ft) "u32" then L "4"
                  else if String.eqb (snd ft) "Vec<u32>" then T "*" [L "4"; T "as" [T ".len()" [L (fst ft)]; L "u64"]] else L "?")
               (let fs := snd (fst v) in
                (* a Vec<u32> field is preceded by its u32 count *)
                flat_map (fun ft : string * string => if String.eqb (snd ft) "Vec<u32>" then [("count", "u32"); ft] else [ft]) fs).

Definition len_arms_diag : list string :=
  let vs := enum_variants "EncodedInstr" in
  let arms := arms_of "EncodedInstr::byte_len" in
  if Nat.eqb (List.length vs) (List.length arms) && negb (Nat.eqb (List.length vs) 0)
  then flat_map (fun va : variant * (string * tm * tm) =>
                   let '(v, (site, p, body)) := va in
                   match p with
                   | T "pstruct" (L path :: _) =>
                       if String.eqb path ("EncodedInstr::" ++ fst (fst v)) && list_eqb tm_eqb (summands (norm body)) (expected_len v)
                       then [] else [site]
                   | _ => [site]
                   end) (combine vs arms)
  else ["EncodedInstr::byte_len: one arm per variant expected"].

(* ---- 4. reader --------------------------------------------------------------------------------------------- *)
Definition read_width (h : string) : option nat :=
  if String.eqb h ".read_u64::<LittleEndian>()" then Some 8 else if String.eqb h ".read_u32::<LittleEndian>()" then Some 4 else None.

(* `let v = cur.read_uN::<LittleEndian>()?;` *)
Definition read_of_stmt (s : tm) : option (string * nat) :=
  match s with
  | T "let" [L v; T "?" [T h [L "cur"]]] => match read_width h with Some w => Some (v, w) | None => None end
  | _ => None
  end.

(* a fixed-arity arm: the reads, then `out.push(DecodedInstr::V { f: v, .. })` *)
Definition read_arm (body : tm) : option (list (string * nat) * string * list (string * string)) :=
  match norm body with
  | T "block" l =>
      match rev l with
      | T ".push()" [L "out"; T "struct" (L path :: fs)] :: rl =>
          match omap read_of_stmt (rev rl),
                omap (fun f => match f with T fn [L v] => Some (substring 0 (String.length fn - 1) fn, v) | _ => None end) fs with
          | Some reads, Some fields => Some (reads, path, fields)
          | _, _ => None
          end
      | _ => None
      end
  | _ => None
  end.

Definition pair_str_eqb (a b : string * string) : bool := String.eqb (fst a) (fst b) && String.eqb (snd a) (snd b).
Definition pair_sn_eqb (a b : string * nat) : bool := String.eqb (fst a) (fst b) && Nat.eqb (snd a) (snd b).

Definition variant_by_opcode (op : string) : option variant :=
  find (fun v : variant => String.eqb (opcode_name (fst (fst v))) op) (enum_variants "DecodedInstr").

(* the VarArg arm: count bounded by what is left, then `count` u32 values *)
Definition ref_vararg_read : tm :=
  let rd (h : string) := T "?" [T h [L "cur"]] in
  T "block"
    [T "let" [L "fxn_id"; rd ".read_u64::<LittleEndian>()"]; T "let" [L "dst"; rd ".read_u32::<LittleEndian>()"];
     T "let" [L "arg_count"; T "as" [rd ".read_u32::<LittleEndian>()"; L "usize"]];
     T "let" [L "remaining"; T "-" [T "as" [T ".len()" [T ".get_ref()" [L "cur"]]; L "u64"]; T ".position()" [L "cur"]]];
     T "if" [T ">" [T ".saturating_mul()" [T "as" [L "arg_count"; L "u64"]; L "4"]; L "remaining"];
             T "block" [T "return" [T "call" [L "Err"; T ".with_compiler_loc()" [T "call" [L "MechError::new"; L "TruncatedInstructionError"; L "None"]]]]]];
     T "let" [L "args"; T "call" [L "Vec::with_capacity"; L "arg_count"]];
     T "for" [L "_"; T ".." [L "0"; L "arg_count"];
              T "block" [T "let" [L "a"; rd ".read_u32::<LittleEndian>()"]; T ".push()" [L "args"; L "a"]]];
     T ".push()" [L "out"; T "struct" [L "DecodedInstr::VarArg"; T "fxn_id:" [L "fxn_id"]; T "dst:" [L "dst"]; T "args:" [L "args"]]]].

Definition read_arm_ok (a : string * tm * tm) : bool :=
  let '(_, p, body) := a in
  match p with
  | T "Some" [L path] =>
      if String.eqb (substring 0 8 path) "OpCode::" then
        let op := substring 8 (String.length path - 8) path in
        match variant_by_opcode op with
        | Some (vname, fields, _) =>
            if String.eqb vname "VarArg" then tm_eqb (norm body) ref_vararg_read
            else match read_arm body with
                 | Some (reads, spath, sfields) =>
                     String.eqb spath ("DecodedInstr::" ++ vname) &&
                     list_eqb pair_sn_eqb reads (map (fun ft : string * string => (fst ft, match ty_width (snd ft) with Some w => w | None => 0 end)) fields) &&
                     list_eqb pair_str_eqb sfields (map (fun ft : string * string => (fst ft, fst ft)) fields)
                 | None => false
                 end
        | None => false
        end
      else (* `Some(unknown) => return Err(..)` *)
        match norm body with T "block" [T "return" _] => true | _ => false end
  | L "None" => match norm body with T "block" [T "return" _] => true | _ => false end
  | _ => false
  end.

(* the opcodes handled, in source order *)
Definition read_arm_opcodes : list string :=
  flat_map (fun a : string * tm * tm => match a with (_, T "Some" [L path], _) =>
                                          if String.eqb (substring 0 8 path) "OpCode::" then [substring 8 (String.length path - 8) path] else []
                                        | _ => [] end) (arms_of "decode_instructions").

(* ---- 5. runner --------------------------------------------------------------------------------------------- *)
Definition arity_ctor (n : nat) : string :=
  match n with 0 => "FunctionArgs::Nullary" | 1 => "FunctionArgs::Unary" | 2 => "FunctionArgs::Binary" | 3 => "FunctionArgs::Ternary"
          | 4 => "FunctionArgs::Quaternary" | _ => "?" end.

(* what a local variable of the arm holds *)
Inductive lv : Type := LReg (field : string) | LRegs (field : string).

Definition reg_read (env : list (string * lv)) (e : tm) : option lv :=
  match e with
  | T "[]" [T ".registers" [L "self"]; T "as" [L f; L "usize"]] =>
      (* the index is a pattern binder (a field), not a local that shadows it *)
      if str_in f (map fst env) then None else Some (LReg f)
  | T ".collect()" [T ".map()" [T ".iter()" [L f]; T "closure" [T "params" [L r]; T "[]" [T ".registers" [L "self"]; T "as" [L r'; L "usize"]]]]] =>
      if String.eqb r r' && negb (str_in f (map fst env)) then Some (LRegs f) else None
  | _ => None
  end.

Definition lookup_lv (env : list (string * lv)) (x : string) : option lv :=
  match find (fun e : string * lv => String.eqb (fst e) x) env with Some e => Some (snd e) | None => None end.

(* the Some(fxn_factory) block: lets, the factory call, self.out, add_plan_step — returns (ctor, arguments, events) *)
Fixpoint scan_run (env : list (string * lv)) (l : list tm) : option (string * list lv * list string) :=
  match l with
  | [] => None
  | T "let" [L "fxn"; T "?" [T "call" [L "fxn_factory"; T "call" (L ctor :: args)]]] :: rest =>
      match omap (fun a => match a with L x => lookup_lv env x | _ => None end) args with
      | Some vs => Some (ctor, vs, map (fun s => match s with
                                                  | T "=" [T ".out" [L "self"]; T ".out()" [L "fxn"]] => "set-out"
                                                  | T ".add_plan_step()" [L "state_brrw"; L "fxn"] => "add-step"
                                                  | _ => "other" end) rest)
      | None => None
      end
  | T "let" [L x; e] :: rest =>
      match reg_read env e with
      | Some v => scan_run ((x, v) :: env) rest
      | None => None
      end
  | _ => None
  end.

Definition lv_eqb (a b : lv) : bool :=
  match a, b with LReg x, LReg y => String.eqb x y | LRegs x, LRegs y => String.eqb x y | _, _ => false end.

(* the body of an operation arm, possibly wrapped in a one-statement block *)
Definition run_match (body : tm) : option (tm * list tm) :=
  match norm body with
  | T "match" (s :: arms) => Some (s, arms)
  | T "block" [T "match" (s :: arms)] => Some (s, arms)
  | _ => None
  end.

Definition operand_fields (v : variant) : list (string * string) :=
  filter (fun ft : string * string => negb (str_in (fst ft) ["fxn_id"; "dst"])) (snd (fst v)).

Definition run_arm_ok (v : variant) (a : string * tm * tm) : bool :=
  let '(_, p, body) := a in
  let name := fst (fst v) in
  pattern_binds "DecodedInstr" v p &&
  if String.eqb name "ConstLoad" then
    tm_eqb (norm body) (T "block" [T "let" [L "value"; T "[]" [T ".constants" [L "self"]; T "as" [L "const_id"; L "usize"]]];
                                   T "=" [T "[]" [T ".registers" [L "self"]; T "as" [L "dst"; L "usize"]]; L "value"]])
  else if String.eqb name "Ret" then tm_eqb (norm body) (T "block" [T "todo!" []]) || tm_eqb (norm body) (T "block" [L "todo!"])
  else
    match run_match body with
    | Some (scrut, [T "arm" [T "Some" [L "fxn_factory"]; L "_noguard"; T "block" stmts]; T "arm" [L "None"; L "_noguard"; T "block" [T "return" _]]]) =>
        tm_eqb scrut (T ".get()" [T ".functions" [L "functions_table"]; L "fxn_id"]) &&
        match scan_run [] stmts with
        | Some (ctor, args, events) =>
            let ops := operand_fields v in
            (match ops with
             | [(f, "Vec<u32>")] => String.eqb ctor "FunctionArgs::Variadic" && list_eqb lv_eqb args [LReg "dst"; LRegs f]
             | _ => String.eqb ctor (arity_ctor (List.length ops)) && list_eqb lv_eqb args (LReg "dst" :: map (fun ft : string * string => LReg (fst ft)) ops)
             end) &&
            list_eqb String.eqb events ["set-out"; "add-step"]
        | None => false
        end
    | _ => false
    end.

Definition run_arms_diag : list string :=
  let vs := filter (fun v : variant => negb (String.eqb (fst (fst v)) "Unknown")) (enum_variants "DecodedInstr") in
  let arms := arms_of "run_program" in
  (* one arm per variant but Unknown, then a catch-all error arm *)
  if Nat.eqb (S (List.length vs)) (List.length arms) && negb (Nat.eqb (List.length vs) 0)
  then flat_map (fun va : variant * (string * tm * tm) => if run_arm_ok (fst va) (snd va) then [] else [fst (fst (snd va))]) (combine vs arms)
  else ["run_program: one arm per instruction kind and a catch-all expected"].

(* ---- the obligations ---------------------------------------------------------------------------------------- *)
Definition variants_ok : bool :=
  (* both instruction enums declare the same kinds with the same fields; DecodedInstr has Unknown in addition *)
  list_eqb (fun a b : variant => String.eqb (fst (fst a)) (fst (fst b)) && list_eqb pair_str_eqb (snd (fst a)) (snd (fst b)))
           (enum_variants "EncodedInstr")
           (filter (fun v : variant => negb (String.eqb (fst (fst v)) "Unknown")) (enum_variants "DecodedInstr")) &&
  list_eqb String.eqb (map (fun v : variant => fst (fst v)) (enum_variants "EncodedInstr"))
           ["ConstLoad"; "NullOp"; "UnOp"; "BinOp"; "TernOp"; "QuadOp"; "VarArg"; "Ret"].

Theorem ia_arm_sites :
  write_arms_diag "EncodedInstr" "EncodedInstr::write_to" = [] /\ write_arms_diag "DecodedInstr" "DecodedInstr::write_to" = [] /\
  len_arms_diag = [] /\ irregular (fun a : string * tm * tm => fst (fst a)) read_arm_ok (arms_of "decode_instructions") = [] /\
  run_arms_diag = [].
Proof. repeat split; vm_compute; reflexivity. Qed.

Theorem ia_arms_regular :
  variants_ok = true /\ opcodes_ok = true /\
  forallb read_arm_ok (arms_of "decode_instructions") = true /\
  read_arm_opcodes = ["ConstLoad"; "Return"; "NullOp"; "Unop"; "Binop"; "Ternop"; "Quadop"; "VarArg"].
Proof. repeat split; vm_compute; reflexivity. Qed.

(* ---- meaning 1: the writers produce Loader.encode_instr -------------------------------------------------------- *)
(* an instruction of the model as (kind, scalar fields, argument list) *)
Definition instr_view (i : instr) : string * list (string * N) * list N :=
  match i with
  | IConstLoad d c => ("ConstLoad", [("dst", d); ("const_id", c)], [])
  | INullOp f d => ("NullOp", [("fxn_id", f); ("dst", d)], [])
  | IUnOp f d s => ("UnOp", [("fxn_id", f); ("dst", d); ("src", s)], [])
  | IBinOp f d l r => ("BinOp", [("fxn_id", f); ("dst", d); ("lhs", l); ("rhs", r)], [])
  | ITernOp f d a b c => ("TernOp", [("fxn_id", f); ("dst", d); ("a", a); ("b", b); ("c", c)], [])
  | IQuadOp f d a b c e => ("QuadOp", [("fxn_id", f); ("dst", d); ("a", a); ("b", b); ("c", c); ("d", e)], [])
  | IVarArg f d args => ("VarArg", [("fxn_id", f); ("dst", d)], args)
  | IRet s => ("Ret", [("src", s)], [])
  end.

Definition field_val (fs : list (string * N)) (f : string) : option N :=
  match find (fun e : string * N => String.eqb (fst e) f) fs with Some e => Some (snd e) | None => None end.

(* the bytes one write produces *)
Definition wr_bytes (fs : list (string * N)) (args : list N) (w : wr) : option bytes :=
  match w with
  | WOp name => option_map (fun b => [b]) (opcode_byte name)
  | WField k f => option_map (le k) (field_val fs f)
  | WLen _ => Some (le 4 (N.of_nat (List.length args)))
  | WEach k _ => Some (flat_map (le k) args)
  | _ => None
  end.

Definition arm_writes (enum fn kind : string) : option (list wr) :=
  match find (fun a : string * tm * tm => match a with (_, T "pstruct" (L path :: _), _) => String.eqb path (enum ++ "::" ++ kind) | _ => false end)
             (arms_of fn) with
  | Some (_, _, body) => Some (writes_of body)
  | None => None
  end.

Definition encode_writes (ws : list wr) (fs : list (string * N)) (args : list N) : option bytes :=
  option_map (@List.concat N) (omap (wr_bytes fs args) ws).

Definition src_encode (enum fn : string) (i : instr) : option bytes :=
  let '(kind, fs, args) := instr_view i in
  match arm_writes enum fn kind with
  | Some ws => encode_writes ws fs args
  | None => None
  end.

(* closed subterms are evaluated by the VM, the symbolic rest by cbn *)
Ltac vmc t := let v := eval vm_compute in t in replace t with v by (vm_compute; reflexivity).

Theorem src_encode_is_encode_instr : forall i : instr,
  src_encode "EncodedInstr" "EncodedInstr::write_to" i = Some (encode_instr i) /\
  src_encode "DecodedInstr" "DecodedInstr::write_to" i = Some (encode_instr i).
Proof.
  intro i. destruct i; split; unfold src_encode, instr_view;
    match goal with |- context [arm_writes ?e ?f ?k] => vmc (arm_writes e f k) end;
    unfold encode_writes; cbn [omap wr_bytes];
    repeat match goal with |- context [opcode_byte ?n] => vmc (opcode_byte n) end;
    cbn -[le N.of_nat]; rewrite ?app_nil_r; reflexivity.
Qed.

(* ---- meaning 2: the reader arms are Loader.decode_instr --------------------------------------------------------- *)
Definition build_instr (kind : string) (vals : list N) : option instr :=
  if String.eqb kind "ConstLoad" then match vals with [d; c] => Some (IConstLoad d c) | _ => None end
  else if String.eqb kind "Ret" then match vals with [s] => Some (IRet s) | _ => None end
  else if String.eqb kind "NullOp" then match vals with [f; d] => Some (INullOp f d) | _ => None end
  else if String.eqb kind "UnOp" then match vals with [f; d; s] => Some (IUnOp f d s) | _ => None end
  else if String.eqb kind "BinOp" then match vals with [f; d; a; b] => Some (IBinOp f d a b) | _ => None end
  else if String.eqb kind "TernOp" then match vals with [f; d; a; b; c] => Some (ITernOp f d a b c) | _ => None end
  else if String.eqb kind "QuadOp" then match vals with [f; d; a; b; c; e] => Some (IQuadOp f d a b c e) | _ => None end
  else None.

(* decode one fixed-arity instruction with the extracted arm of its opcode: the widths read, in order, and the variant
   built from the values in the order of the struct literal's fields (which is the variant's declaration order) *)
Definition arm_reads (opname : string) : option (list (string * nat) * string * list (string * string)) :=
  match find (fun a : string * tm * tm => match a with (_, T "Some" [L path], _) => String.eqb path ("OpCode::" ++ opname) | _ => false end)
             (arms_of "decode_instructions") with
  | Some (_, _, body) => read_arm body
  | None => None
  end.

Definition decode_reads (rd : list (string * nat) * string * list (string * string)) (r : bytes) : option (instr * bytes) :=
  let '(reads, spath, sfields) := rd in
  match take_fields (map snd reads) r with
  | Some (vals, r') =>
      (* value read into variable v goes to the field initialised from v *)
      match omap (fun fv : string * string => match index_of (snd fv) (map fst reads) with Some j => nth_error vals j | None => None end) sfields with
      | Some ordered => option_map (fun i => (i, r')) (build_instr (substring 14 (String.length spath - 14) spath) ordered)
      | None => None
      end
  | None => None
  end.

Definition src_decode_fixed (opname : string) (r : bytes) : option (instr * bytes) :=
  match arm_reads opname with Some rd => decode_reads rd r | None => None end.

Definition fixed_opcodes : list (string * N) :=
  [("ConstLoad", OP_CONSTLOAD); ("Return", OP_RETURN); ("NullOp", OP_NULLOP); ("Unop", OP_UNOP); ("Binop", OP_BINOP);
   ("Ternop", OP_TERNOP); ("Quadop", OP_QUADOP)].

Lemma take_fields_length : forall (ws : list nat) (l : bytes) (vals : list N) (r : bytes),
  take_fields ws l = Some (vals, r) -> List.length vals = List.length ws.
Proof.
  induction ws as [|w ws IH]; intros l vals r H; cbn [take_fields] in H.
  - now injection H as <- <-.
  - destruct (take w l) as [[f r1]|]; [|discriminate].
    destruct (take_fields ws r1) as [[fs r2]|] eqn:E; [|discriminate].
    injection H as <- <-. cbn [List.length]. f_equal. exact (IH _ _ _ E).
Qed.

Theorem src_decode_is_decode_instr : forall (name : string) (op : N) (r : bytes),
  In (name, op) fixed_opcodes -> 8 <= List.length (op :: r) ->
  src_decode_fixed name r = decode_instr (op :: r).
Proof.
  intros name op r Hin Hlen.
  assert (Hl : Nat.ltb (List.length (op :: r)) 8 = false) by (apply Nat.ltb_ge; exact Hlen).
  unfold decode_instr. rewrite Hl. clear Hl Hlen.
  cbn [In fixed_opcodes] in Hin.
  repeat (destruct Hin as [Hin|Hin]; [injection Hin as <- <-; unfold src_decode_fixed;
    match goal with |- context [arm_reads ?n] => vmc (arm_reads n) end;
    unfold decode_reads; cbn [map snd fst];
    cbv [OP_CONSTLOAD OP_RETURN OP_NULLOP OP_UNOP OP_BINOP OP_TERNOP OP_QUADOP OP_VARARG]; cbn [N.eqb Pos.eqb];
    match goal with |- context [take_fields ?ws r] =>
      destruct (take_fields ws r) as [[vals r']|] eqn:E; [apply take_fields_length in E; cbn [List.length] in E|reflexivity] end;
    repeat (destruct vals as [|? vals]; try discriminate E); reflexivity|]).
  destruct Hin.
Qed.

(* ---- meaning 3: the runner arm of an operation builds the plan step of Model/Bytecode.v ------------------------- *)
(* registers named by the fields of an operation instruction *)
Definition arm_run (kind : string) : option (list lv * list string) :=
  match find (fun a : string * tm * tm => match a with (_, T "pstruct" (L path :: _), _) => String.eqb path ("DecodedInstr::" ++ kind) | _ => false end)
             (arms_of "run_program") with
  | Some (_, _, body) =>
      match run_match body with
      | Some (_, T "arm" [_; _; T "block" stmts] :: _) =>
          match scan_run [] stmts with Some (_, vs, events) => Some (vs, events) | None => None end
      | _ => None
      end
  | None => None
  end.

Definition src_run (i : instr) : option (N * list N * list string) :=
  let '(kind, fs, args) := instr_view i in
  match arm_run kind with
  | Some (LReg o :: vs, events) =>
      match field_val fs o,
            omap (fun v => match v with LReg f => option_map (fun x => [x]) (field_val fs f) | LRegs _ => Some args end) vs with
      | Some out, Some regs => Some (out, List.concat regs, events)
      | _, _ => None
      end
  | _ => None
  end.

(* destination and operand registers of an operation instruction, as Model/Bytecode.decode_rinstr reads them *)
Definition op_regs (i : instr) : option (N * list N) :=
  match i with
  | INullOp _ d => Some (d, [])
  | IUnOp _ d s => Some (d, [s])
  | IBinOp _ d l r => Some (d, [l; r])
  | ITernOp _ d a b c => Some (d, [a; b; c])
  | IQuadOp _ d a b c e => Some (d, [a; b; c; e])
  | IVarArg _ d args => Some (d, args)
  | _ => None
  end.

(* every operation arm hands the factory (registers[dst], registers[operands] in order), then sets self.out to the function's
   output and appends the function to the plan: the step (s_out := dst, s_args := operands) of [Bytecode.exec] *)
Theorem src_run_builds_step : forall (i : instr) (d : N) (ops : list N),
  op_regs i = Some (d, ops) -> src_run i = Some (d, ops, ["set-out"; "add-step"]).
Proof.
  intros i d ops H. destruct i; cbn [op_regs] in H; try discriminate; injection H as <- <-;
    unfold src_run, instr_view;
    match goal with |- context [arm_run ?k] => vmc (arm_run k) end;
    cbn; rewrite ?app_nil_r; reflexivity.
Qed.
