(* C15 — the range kernels (`a..b`, `a..=b`, `a..s..b`, `a..s..=b`) against the tables REGENERATED from the Rust
   source on every run (Gen/RangeArms.v, written by translators/range_arms.py).

   The four files machines/range/src/{exclusive,inclusive,exclusive_increment,inclusive_increment}.rs are hand-made
   copies of each other.  For every form:

     compile()       binds arg1, arg2(, arg3) = arguments[0], [1](, [2]), calls the kernel-level function of ITS form
                     with (arg1, arg2(, arg3)) — directly and in every operand-form arm (3 resp. 7 of them), every
                     reference unwrapped, nothing swapped                                   [rg_compile_*]
     kernel level    hands (arg1_value, ..) in order to the arm macro of its form, with its kernel struct  [callee_ok]
     arm macro       matches ($arg1, $arg2(, $arg3)); the per-kind arm names the components (from(, step), to) in this
                     order; the statements that compute the element count are the reference ones of the form;
                     every arm of `match size` builds the kernel with from <- from, step <- step, to <- to  [macro_ok, size_arm_ok]
     kernel struct   field order, new() (bytecode loader: FunctionArgs::Binary(out, from, to) / Ternary(out, from, step, to)),
                     solve() (the fill loop `out[i] = current; current = current + step`), operand order of the
                     emitted instruction                                                    [kernel_ok]
     lib.rs          range_size_to_usize!: the three rules                                 [size_macro_ok]

   Meaning: [rg_compile_applies_kernel_in_order] (Proofs/SrcArmsP.compile_model_correct instantiated),
   [rg_chain_positions] (composition of the extracted tables: arguments[0] ends in field `from`, the LAST argument in
   `to`, and for the increment forms arguments[1] in `step`), and [increment_count_is_fp_size]: the element-count
   expression of the increment forms, EVALUATED as a term (f64 arithmetic = [rnd 53]), is [Range.fp_size] — the
   count function of the implementation model that Proofs/RangeP.v relates to the specification
   ([impl_int_holds], [holds_int]).

   Not covered (reference comparison only, no evaluation): the typed `to - from (+ 1)` / EmptyRange test / usize
   conversion of the unit-step forms and the fill loop; they are compared with reference terms that are the reading
   of [Range.impl_int] / [Range.fill_int] (documented at [ref_prelude], [ref_solve]). *)
From Coq Require Import List Arith Bool String ZArith QArith Qround Lia.
From MechV Require Import Base.Sexp Model.SrcArms Proofs.SrcArmsP Gen.RangeArms Model.Range.
Import ListNotations.
Open Scope string_scope.
Open Scope nat_scope.

Definition rg_forms : list string := ["exclusive"; "inclusive"; "exclusive-increment"; "inclusive-increment"].
Definition is_step (form : string) : bool := str_in form ["exclusive-increment"; "inclusive-increment"].
Definition is_incl (form : string) : bool := str_in form ["inclusive"; "inclusive-increment"].
Definition nargs_of (form : string) : nat := if is_step form then 3 else 2.

(* ---- 0. ------------------------------------------------------------------------------------------- *)
Theorem rg_nothing_unrecognised : rg_unrecognised = [].
Proof. vm_compute. reflexivity. Qed.

(* ---- 1. compile() ---------------------------------------------------------------------------------- *)
Definition rcallee_of (form : string) : option string :=
  match find (fun e => let '(f, _, _, _, _, _, _) := e in String.eqb f form) rg_callees with
  | Some (_, _, n, _, _, _, _) => Some n
  | None => None
  end.

Definition rg_compile_diag (c : cfn) : list string :=
  match cf_tag c with
  | [form] =>
      match rcallee_of form with
      | Some f => cfn_diag f (seq 0 (nargs_of form)) (seq 0 (nargs_of form)) c
      | None => [cf_site c ++ ": no kernel-level function for this form"]
      end
  | _ => [cf_site c ++ ": tag"]
  end.

Definition rg_compile_ok (c : cfn) : bool :=
  match cf_tag c with
  | [form] => match rcallee_of form with Some f => cfn_ok f (seq 0 (nargs_of form)) (seq 0 (nargs_of form)) c | None => false end
  | _ => false
  end.

Definition rg_compile_complete : bool :=
  list_eqb (list_eqb String.eqb) (map cf_tag rg_compile) (map (fun f => [f]) rg_forms)
  (* 2^n - 1 operand-form arms *)
  && forallb (fun c => match cf_tag c with [form] => Nat.eqb (List.length (cf_arms c)) (2 ^ nargs_of form - 1) | _ => false end) rg_compile.

Theorem rg_compile_sites : flat_map rg_compile_diag rg_compile = [].
Proof. vm_compute. reflexivity. Qed.

Theorem rg_compile_regular : forallb rg_compile_ok rg_compile = true /\ rg_compile_complete = true.
Proof. split; vm_compute; reflexivity. Qed.

Theorem rg_compile_applies_kernel_in_order :
  forall (A R : Type) (c : cfn) (form : string) (k : string -> list (rval A) -> option R) (args : list (rval A)),
    In c rg_compile -> cf_tag c = [form] ->
    (forall f vs, existsb is_ref vs = true -> k f vs = None) ->
    List.length args = nargs_of form ->
    exists r f, resolve_cfn c = Some r /\ rcallee_of form = Some f /\ compile_model r k args = k f (map strip args).
Proof.
  intros A R c form k args Hin Htag Hk Hlen.
  assert (Hok : rg_compile_ok c = true).
  { pose proof (proj1 rg_compile_regular) as H. rewrite forallb_forall in H. now apply H. }
  unfold rg_compile_ok in Hok. rewrite Htag in Hok.
  destruct (rcallee_of form) as [f|] eqn:Ef; [|discriminate].
  unfold cfn_ok in Hok. destruct (resolve_cfn c) as [r|] eqn:Er; [|discriminate].
  exists r, f. repeat split; try reflexivity.
  assert (Hn : rc_nargs r = nargs_of form).
  { clear - Hin Er Htag.
    assert (H : forallb (fun c => match resolve_cfn c, cf_tag c with
                                  | Some r, [fm] => Nat.eqb (rc_nargs r) (nargs_of fm)
                                  | _, _ => false end) rg_compile = true) by (vm_compute; reflexivity).
    rewrite forallb_forall in H. specialize (H c Hin). rewrite Er, Htag in H. now apply Nat.eqb_eq in H. }
  rewrite (compile_model_correct f (seq 0 (nargs_of form)) (seq 0 (nargs_of form)) r k args Hok).
  - unfold nargs_of in *. destruct (is_step form).
    + destruct args as [|a [|b [|x [|y args]]]]; try discriminate. reflexivity.
    + destruct args as [|a [|b [|x args]]]; try discriminate. reflexivity.
  - congruence.
  - intros i v Hi _. apply nat_in_In. apply in_seq.
    assert (i < List.length args) by (apply nth_error_Some; congruence). lia.
  - exact Hk.
Qed.

(* ---- 2. kernel-level functions --------------------------------------------------------------------- *)
Definition kstruct_of (form : string) : string :=
  if String.eqb form "exclusive" then "RangeExclusiveScalar" else if String.eqb form "inclusive" then "RangeInclusiveScalar"
  else if String.eqb form "exclusive-increment" then "RangeIncrementExclusiveScalar" else "RangeIncrementInclusiveScalar".
Definition macro_of (form : string) : string :=
  if String.eqb form "exclusive" then "impl_range_exclusive_match_arms" else if String.eqb form "inclusive" then "impl_range_inclusive_match_arms"
  else if String.eqb form "exclusive-increment" then "impl_range_increment_exclusive_match_arms" else "impl_range_increment_inclusive_match_arms".
Definition value_params (form : string) : list string :=
  if is_step form then ["arg1_value"; "arg2_value"; "arg3_value"] else ["arg1_value"; "arg2_value"].
Definition range_kinds : list string := ["f32"; "f64"; "i8"; "i16"; "i32"; "i64"; "i128"; "u8"; "u16"; "u32"; "u64"; "u128"].

Definition rcallee_entry : Type := string * string * string * list string * string * list string * list string.
Definition rcallee_ok (e : rcallee_entry) : bool :=
  let '(form, _, _, params, macro, margs, kinds) := e in
  list_eqb String.eqb params (value_params form) && String.eqb macro (macro_of form) &&
  list_eqb String.eqb margs (kstruct_of form :: value_params form) && list_eqb String.eqb kinds range_kinds.
Definition rcallee_site (e : rcallee_entry) : string := let '(_, s, _, _, _, _, _) := e in s.

(* ---- 3. the arm macros ----------------------------------------------------------------------------- *)
Definition err_empty : tm :=
  T "return" [T "call" [L "Err"; T ".with_compiler_loc()" [T "call" [L "MechError::new"; T "struct" [L "EmptyRangeError"]; L "None"]]]].
Definition zero_ty : tm := T "call" [L "$ty::zero"].
Definition one_ty : tm := T "call" [L "$ty::one"].

(* the element count of the increment forms (the block bound to `size`), [incl] = inclusive *)
Definition ref_size (incl : bool) : tm :=
  T "block"
    [T "let" [L "diff"; T "-" [T "as" [L "to_val"; L "f64"]; T "as" [L "from_val"; L "f64"]]];
     T "let" [L "step"; T "as" [L "step_val"; L "f64"]];
     T "if" [T "==" [L "step"; L "0.0"]; T "block" [err_empty]];
     T "if" [T "||" [T "&&" [T ">" [L "diff"; L "0.0"]; T ">" [L "step"; L "0.0"]];
                     T "&&" [T "<" [L "diff"; L "0.0"]; T "<" [L "step"; L "0.0"]]];
             T "block" [if incl then T "+" [T "as" [T ".floor()" [T "/" [L "diff"; L "step"]]; L "usize"]; L "1"]
                        else T "as" [T ".ceil()" [T "/" [L "diff"; L "step"]]; L "usize"]];
             (if incl then T "if" [T "==" [L "diff"; L "0.0"]; T "block" [L "1"]; T "block" [err_empty]]
              else T "block" [L "0"])]].

(* the statements of the per-kind arm before `match size` (normalised).
   Reading (Model/Range.v, impl_int / flt_size): `to_val - from_val` and `+ $ty::one()` are arithmetic of the element
   kind (checked in the dev profile: [chk lo hi]), `diff < 0` is the EmptyRange test, range_size_to_usize! the
   conversion to the count ([d' <=? 0], [2^64 <=? d']), `vec![from_val; size]` the buffer the kernel fills. *)
Definition ref_prelude (form : string) : tm :=
  let lets := if is_step form
              then [T "let" [L "from_val"; T ".borrow()" [L "from"]]; T "let" [L "step_val"; T ".borrow()" [L "step"]];
                    T "let" [L "to_val"; T ".borrow()" [L "to"]]]
              else [T "let" [L "from_val"; T ".borrow()" [L "from"]]; T "let" [L "to_val"; T ".borrow()" [L "to"]]] in
  let diff := if is_step form then T "-" [L "to_val"; L "from_val"]
              else if is_incl form then T "+" [T "-" [L "to_val"; L "from_val"]; one_ty] else T "-" [L "to_val"; L "from_val"] in
  T "block" (lets ++ [T "let" [L "diff"; diff];
                      T "if" [T "<" [L "diff"; zero_ty]; T "block" [err_empty]];
                      T "let" [L "size"; if is_step form then ref_size (is_incl form) else T "range_size_to_usize!" [L "diff"; L "$ty"]];
                      T "let" [L "vec"; T "vec!;" [L "from_val"; L "size"]]])%list.

Definition argname (i : nat) : string := "$arg" ++ String (Ascii.ascii_of_nat (48 + i)) "".
Definition sfx (a b : string) : string := a ++ b.
Definition comp_names (form : string) : list string := if is_step form then ["from"; "step"; "to"] else ["from"; "to"].
Definition kind_pat (b : string) : tm := T "Value::[<$ty:camel>]" [L b].

Definition macro_entry : Type := string * string * string * list string * tm * list tm * tm * tm.
Definition macro_ok (e : macro_entry) : bool :=
  let '(form, _, name, mparams, scrut, pats, prelude, sscrut) := e in
  String.eqb name (macro_of form) &&
  list_eqb String.eqb mparams (List.app ("$fxn" :: map argname (seq 1 (nargs_of form))) ["$ty"; "$feat"]) &&
  tm_eqb scrut (T "tuple" (map (fun i => L (argname i)) (seq 1 (nargs_of form)))) &&
  list_eqb tm_eqb pats (map kind_pat (comp_names form)) &&
  tm_eqb (norm prelude) (ref_prelude form) && tm_eqb sscrut (L "size").
Definition macro_site (e : macro_entry) : string := let '(_, s, _, _, _, _, _, _) := e in s.

(* the arms of `match size` *)
Definition size_arm : Type := string * string * list string * string * string * list (string * string * string) * tm.
Definition size_arm_site (a : size_arm) : string := let '(_, s, _, _, _, _, _) := a in s.

Definition field3_eqb (a b : string * string * string) : bool :=
  String.eqb (fst (fst a)) (fst (fst b)) && String.eqb (snd (fst a)) (snd (fst b)) && String.eqb (snd a) (snd b).

(* (pattern, cfg features, container) in source order *)
Definition size_arm_table : list (string * list string * string) :=
  [("1", ["matrix1"], "Matrix1"); ("1", ["matrix1"; "matrixd"; "not"], "DMatrix"); ("2", ["row_vector2"], "RowVector2");
   ("3", ["row_vector3"], "RowVector3"); ("4", ["row_vector4"], "RowVector4"); ("n", ["row_vectord"], "RowDVector")].

Definition out_expr (container : string) : tm :=
  T "call" [L "Ref::new";
            if String.eqb container "Matrix1" then T "call" [L "Matrix1::from_element"; T "[]" [L "vec"; L "0"]]
            else if String.eqb container "DMatrix" then T "call" [L "DMatrix::from_element"; L "1"; L "1"; T "[]" [L "vec"; L "0"]]
            else T "call" [L (container ++ "::from_vec"); L "vec"]].

Definition size_arm_ok (a : size_arm) : bool :=
  let '(form, _, feats, pat, st, fields, out) := a in
  if String.eqb st "Err" then String.eqb pat "0"
  else existsb (fun e => let '(p, fs, cont) := e in
                         String.eqb pat p && list_eqb String.eqb feats fs &&
                         String.eqb st (sfx "$fxn::<$ty," (sfx cont "<$ty>>")) && tm_eqb (norm out) (out_expr cont)) size_arm_table
       && list_eqb field3_eqb fields (map (fun n => (n, n, "clone")) (comp_names form)).

Definition size_arms_complete : bool :=
  forallb (fun form => list_eqb String.eqb
                         (map (fun a : size_arm => let '(_, _, _, p, _, _, _) := a in p)
                              (filter (fun a : size_arm => let '(f, _, _, _, _, _, _) := a in String.eqb f form) rg_size_arms))
                         ["0"; "1"; "1"; "2"; "3"; "4"; "n"]) rg_forms.

(* ---- 4. the kernel structs -------------------------------------------------------------------------- *)
Definition unchecked (v : string) : tm := T "let" [L v; T "block" [T ".as_unchecked()" [L v]]].
Definition ref_new (form : string) : tm :=
  let comps := comp_names form in
  T "block"
    [T "match"
       [L "args";
        T "arm" [T (if is_step form then "FunctionArgs::Ternary" else "FunctionArgs::Binary") (L "out" :: map L comps);
                 L "_noguard";
                 T "block" (List.app (map unchecked comps)
                            [unchecked "out";
                             T "call" [L "Ok"; T "call" [L "Box::new";
                               T "struct" (L "Self" :: List.app (map (fun c => T (sfx c ":") [L c]) comps)
                                           [T "out:" [L "out"]; T "phantom:" [T "call" [L "PhantomData::default"]]])]]])];
        T "arm" [L "_"; L "_noguard";
                 T "call" [L "Err"; T ".with_compiler_loc()"
                   [T "call" [L "MechError::new";
                              T "struct" [L "IncorrectNumberOfArguments"; T "expected:" [L "3"]; T "found:" [T ".len()" [L "args"]]];
                              L "None"]]]]]].

(* the fill loop.  Reading (Model/Range.v): [fill_int lo hi s n a] / [fill_flt]: out[i] = current; current = current + step,
   n = the length of the buffer allocated by the arm macro, first element `from`; the step is 1 for the unit forms *)
Definition ref_solve (form : string) : tm :=
  let step := if is_step form then L "step" else T "call" [L "T::one"] in
  T "block"
    ([T "let" [L "out_ptr"; T "as" [T ".as_ptr()" [T ".out" [L "self"]]; L "*mutnaMatrix<T,R1,C1,S1>"]];
      T "let" [L "current"; T ".as_ptr()" [T ".from" [L "self"]]]] ++
     (if is_step form then [T "let" [L "step"; T ".as_ptr()" [T ".step" [L "self"]]]] else []) ++
     [T "for" [L "i"; T ".." [L "0"; T ".len()" [L "out_ptr"]];
               T "block" [T "=" [T "[]" [L "out_ptr"; L "i"]; L "current"];
                          T "=" [L "current"; T "+" [L "current"; step]]]]])%list.

Definition ref_emit (form : string) : tm :=
  T (if is_step form then "compile_ternop!" else "compile_binop!")
    (List.app [L "name"; T ".out" [L "self"]] (List.app (map (fun c => T (sfx "." c) [L "self"]) (comp_names form))
     [L "ctx"; T "call" [L "FeatureFlag::Builtin"; L (if is_incl form then "FeatureKind::RangeInclusive" else "FeatureKind::RangeExclusive")]])).

Definition kernel_entry : Type := string * string * list string * (string * tm) * (string * tm) * (string * tm).
Definition kernel_diag (e : kernel_entry) : list string :=
  let '(form, st, fields, (s1, nw), (s2, sv), (s3, em)) := e in
  List.app (if String.eqb st (kstruct_of form) && list_eqb String.eqb fields (List.app (comp_names form) ["out"; "phantom"]) then [] else [sfx s1 ": struct"])
  (List.app (if tm_eqb (norm nw) (ref_new form) then [] else [s1])
  (List.app (if tm_eqb (norm sv) (ref_solve form) then [] else [s2])
            (if tm_eqb em (ref_emit form) then [] else [s3]))).
Definition kernel_ok (e : kernel_entry) : bool := match kernel_diag e with [] => true | _ => false end.

(* ---- 5. lib.rs range_size_to_usize! ---------------------------------------------------------------- *)
Definition err_overflow : tm :=
  T "call" [L "Err"; T ".with_compiler_loc()" [T "call" [L "MechError::new"; T "struct" [L "RangeSizeOverflowError"]; L "None"]]].
Definition ref_size_rule (matcher : string) : option tm :=
  if str_in matcher ["$diff:expr,f32"; "$diff:expr,f64"] then
    Some (T "block" [T "let" [L "v"; L "$diff"];
                     T "if" [T "<" [L "v"; L "0.0"]; T "block" [T "return" [err_overflow]]];
                     T "as" [L "v"; L "usize"]])
  else if String.eqb matcher "$diff:expr,$ty:ty" then
    Some (T "block" [T "?" [T ".map_err()" [T ".try_into()" [L "$diff"];
                                           T "closure" [T "params" [L "_"];
                                                        T ".with_compiler_loc()" [T "call" [L "MechError::new"; T "struct" [L "RangeSizeOverflowError"]; L "None"]]]]]])
  else None.
Definition size_macro_ok (e : string * string * tm) : bool :=
  let '(_, m, b) := e in match ref_size_rule m with Some r => tm_eqb (norm b) r | None => false end.

Theorem rg_table_sites :
  irregular rcallee_site rcallee_ok rg_callees = [] /\ irregular macro_site macro_ok rg_macros = [] /\
  irregular size_arm_site size_arm_ok rg_size_arms = [] /\ flat_map kernel_diag rg_kernels = [] /\
  irregular (fun e : string * string * tm => fst (fst e)) size_macro_ok rg_size_macro = [].
Proof. repeat split; vm_compute; reflexivity. Qed.

Theorem rg_tables_regular :
  (forallb rcallee_ok rg_callees = true /\ map (fun e : rcallee_entry => let '(f, _, _, _, _, _, _) := e in f) rg_callees = rg_forms) /\
  (forallb macro_ok rg_macros = true /\ map (fun e : macro_entry => let '(f, _, _, _, _, _, _, _) := e in f) rg_macros = rg_forms) /\
  (forallb size_arm_ok rg_size_arms = true /\ size_arms_complete = true) /\
  (forallb kernel_ok rg_kernels = true /\ map (fun e : kernel_entry => let '(f, _, _, _, _, _) := e in f) rg_kernels = rg_forms) /\
  (forallb size_macro_ok rg_size_macro = true /\
   map (fun e : string * string * tm => snd (fst e)) rg_size_macro = ["$diff:expr,f32"; "$diff:expr,f64"; "$diff:expr,$ty:ty"]).
Proof. repeat split; vm_compute; reflexivity. Qed.

(* ---- 6. composition: which argument ends in which field ------------------------------------------------ *)
(* arguments[i] -> parameter i of the kernel-level function (rg_compile, theorem above) -> macro argument $arg(i+1)
   (rg_callees) -> component i of the matched tuple (rg_macros: scrutinee) -> binder of pattern i -> the field
   initialised from that binder (rg_size_arms).  [chain form field] = the i such that arguments[i] lands in the field,
   computed from the tables. *)
Definition chain (form field : string) (a : size_arm) : option nat :=
  let '(f, _, _, _, _, fields, _) := a in
  match find (fun x : string * string * string => String.eqb (fst (fst x)) field) fields,
        find (fun e : macro_entry => let '(f', _, _, _, _, _, _, _) := e in String.eqb f' form) rg_macros,
        find (fun e : rcallee_entry => let '(f', _, _, _, _, _, _) := e in String.eqb f' form) rg_callees with
  | Some (_, v, _), Some (_, _, _, _, scrut, pats, _, _), Some (_, _, _, params, _, margs, _) =>
      (* binder v is the binder of pattern j; component j of the scrutinee is macro parameter $arg(j+1), which is fed from
         macro argument j+1 (after the struct), i.e. from parameter margs[j+1] of the kernel-level function *)
      match index_of v (flat_map (fun p => match binder_of p with Some b => [b] | None => [] end) pats) with
      | Some j => match nth_error (tl margs) j with
                  | Some p => index_of p params
                  | None => None
                  end
      | None => None
      end
  | _, _, _ => None
  end.

Definition chain_ok : bool :=
  forallb (fun a : size_arm =>
             let '(form, _, _, _, st, _, _) := a in
             String.eqb st "Err" ||
             (match chain form "from" a with Some 0 => true | _ => false end &&
              match chain form "to" a with Some i => Nat.eqb (S i) (nargs_of form) | None => false end &&
              (negb (is_step form) || match chain form "step" a with Some 1 => true | _ => false end))) rg_size_arms.

Theorem rg_chain_positions : chain_ok = true.
Proof. vm_compute. reflexivity. Qed.

(* ---- 7. the element count of the increment forms, evaluated -------------------------------------------- *)
Inductive fv : Type := FQ (q : Q) | FB (b : bool) | FZ (z : Z).
Inductive res : Type := RVal (v : fv) | RErr | RBad.

Section SizeEval.
  (* `x as f64` for a value x of the element kind (integers: [f64z], floats: the value itself) *)
  Variable to64 : Q -> Q.

  Definition lookup (env : list (string * fv)) (x : string) : res :=
    match find (fun e => String.eqb (fst e) x) env with Some e => RVal (snd e) | None => RBad end.

  Definition is_input (x : string) : bool := str_in x ["from_val"; "step_val"; "to_val"].

  Definition bind2 (a b : res) (f : fv -> fv -> res) : res :=
    match a, b with
    | RVal x, RVal y => f x y
    | RErr, _ => RErr
    | RVal _, RErr => RErr
    | _, _ => RBad
    end.

  (* f64 arithmetic rounds to 53 bits; comparisons are against the literal 0.0 only; `as usize` of a non-negative
     integral f64 is its integer value *)
  Fixpoint eval (env : list (string * fv)) (t : tm) {struct t} : res :=
    match t with
    | L s => if String.eqb s "0.0" then RVal (FQ 0) else if String.eqb s "0" then RVal (FZ 0)
             else if String.eqb s "1" then RVal (FZ 1) else lookup env s
    | T h args =>
        match args with
        | [L x; L "f64"] =>
            if String.eqb h "as" && is_input x then match lookup env x with RVal (FQ q) => RVal (FQ (to64 q)) | _ => RBad end
            else RBad
        | [a; L "usize"] =>
            if String.eqb h "as" then match eval env a with RVal (FQ q) => RVal (FZ (Qfloor q)) | RErr => RErr | _ => RBad end
            else RBad
        | [a; L "0.0"] =>
            match eval env a with
            | RVal (FQ q) => if String.eqb h ">" then RVal (FB (qpos q)) else if String.eqb h "<" then RVal (FB (qneg q))
                             else if String.eqb h "==" then RVal (FB (Qeq_bool q 0)) else RBad
            | RErr => RErr
            | _ => RBad
            end
        | [a] =>
            if String.eqb h ".ceil()" then match eval env a with RVal (FQ q) => RVal (FQ (inject_Z (Qceiling q))) | RErr => RErr | _ => RBad end
            else if String.eqb h ".floor()" then match eval env a with RVal (FQ q) => RVal (FQ (inject_Z (Qfloor q))) | RErr => RErr | _ => RBad end
            else if String.eqb h "return" then RErr
            else if String.eqb h "block" then eval env a
            else RBad
        | [a; b] =>
            if String.eqb h "-" then bind2 (eval env a) (eval env b) (fun x y => match x, y with FQ p, FQ q => RVal (FQ (rnd 53 (p - q))) | _, _ => RBad end)
            else if String.eqb h "/" then bind2 (eval env a) (eval env b) (fun x y => match x, y with FQ p, FQ q => RVal (FQ (rnd 53 (p / q))) | _, _ => RBad end)
            else if String.eqb h "+" then bind2 (eval env a) (eval env b) (fun x y => match x, y with FZ p, FZ q => RVal (FZ (p + q)) | _, _ => RBad end)
            else if String.eqb h "&&" then bind2 (eval env a) (eval env b) (fun x y => match x, y with FB p, FB q => RVal (FB (p && q)) | _, _ => RBad end)
            else if String.eqb h "||" then bind2 (eval env a) (eval env b) (fun x y => match x, y with FB p, FB q => RVal (FB (p || q)) | _, _ => RBad end)
            else if String.eqb h "block" then
              (* two statements: handled by the general block case below *)
              (fix go (env : list (string * fv)) (l : list tm) {struct l} : res :=
                 match l with
                 | [] => RBad
                 | [e] => eval env e
                 | s :: r =>
                     match s with
                     | T "let" [L x; e] => match eval env e with RVal v => go ((x, v) :: env) r | o => o end
                     | T "if" [c; th] => match eval env c with
                                         | RVal (FB true) => eval env th
                                         | RVal (FB false) => go env r
                                         | RErr => RErr | _ => RBad end
                     | _ => RBad
                     end
                 end) env args
            else RBad
        | [c; th; el] =>
            if String.eqb h "if" then
              match eval env c with
              | RVal (FB true) => eval env th
              | RVal (FB false) => eval env el
              | RErr => RErr | _ => RBad
              end
            else if String.eqb h "block" then
              (fix go (env : list (string * fv)) (l : list tm) {struct l} : res :=
                 match l with
                 | [] => RBad
                 | [e] => eval env e
                 | s :: r =>
                     match s with
                     | T "let" [L x; e] => match eval env e with RVal v => go ((x, v) :: env) r | o => o end
                     | T "if" [c; th] => match eval env c with
                                         | RVal (FB true) => eval env th
                                         | RVal (FB false) => go env r
                                         | RErr => RErr | _ => RBad end
                     | _ => RBad
                     end
                 end) env args
            else RBad
        | _ =>
            if String.eqb h "block" then
              (fix go (env : list (string * fv)) (l : list tm) {struct l} : res :=
                 match l with
                 | [] => RBad
                 | [e] => eval env e
                 | s :: r =>
                     match s with
                     | T "let" [L x; e] => match eval env e with RVal v => go ((x, v) :: env) r | o => o end
                     | T "if" [c; th] => match eval env c with
                                         | RVal (FB true) => eval env th
                                         | RVal (FB false) => go env r
                                         | RErr => RErr | _ => RBad end
                     | _ => RBad
                     end
                 end) env args
            else RBad
        end
    end.

  (* the count: Some n, None for the EmptyRange error; an unreadable term gives Some (-1) (never equal to a count) *)
  Definition eval_size (t : tm) (a s b : Q) : option Z :=
    match eval [("from_val", FQ a); ("step_val", FQ s); ("to_val", FQ b)] t with
    | RVal (FZ z) => Some z
    | RErr => None
    | _ => Some (-1)%Z
    end.

  Theorem ref_size_is_fp_size (incl : bool) (a s b : Q) :
    eval_size (ref_size incl) a s b = fp_size incl (rnd 53 (to64 b - to64 a)) (to64 s).
  Proof.
    unfold fp_size, eval_size.
    destruct incl;
      cbv -[rnd Qminus Qdiv Qceiling Qfloor qpos qneg Qeq_bool inject_Z Z.add];
      rewrite ?Qfloor_Z;
      destruct (Qeq_bool (to64 s) 0); try reflexivity;
      destruct (qpos (rnd 53 (to64 b - to64 a))), (qpos (to64 s)), (qneg (rnd 53 (to64 b - to64 a))), (qneg (to64 s));
      try reflexivity;
      destruct (Qeq_bool (rnd 53 (to64 b - to64 a)) 0); reflexivity.
  Qed.
End SizeEval.

(* the `size` block of an extracted arm macro *)
Definition size_block (prelude : tm) : option tm :=
  match find (fun s => match s with T "let" [L "size"; _] => true | _ => false end) (args_of (norm prelude)) with
  | Some (T _ [_; e]) => Some e
  | _ => None
  end.

(* for the increment forms the extracted count expression, evaluated, is the count function of the implementation
   model of Model/Range.v — for integer kinds ([to64] = [f64z] of the integer) this is [int_fp_size] *)
Theorem increment_count_is_fp_size :
  forall e : macro_entry, In e rg_macros ->
    let '(form, _, _, _, _, _, prelude, _) := e in
    is_step form = true ->
    exists t, size_block prelude = Some t /\
              forall (to64 : Q -> Q) (a s b : Q),
                eval_size to64 t a s b = fp_size (is_incl form) (rnd 53 (to64 b - to64 a)) (to64 s).
Proof.
  intros e Hin. destruct e as [[[[[[[form site] name] mparams] scrut] pats] prelude] sscrut]. intro Hstep.
  pose proof (proj1 (proj1 (proj2 rg_tables_regular))) as H. rewrite forallb_forall in H. specialize (H _ Hin).
  cbn [macro_ok] in H. repeat (apply andb_true_iff in H; destruct H as [H ?]).
  match goal with Hp : tm_eqb (norm prelude) (ref_prelude form) = true |- _ => apply tm_eqb_eq in Hp; rename Hp into Hpre end.
  exists (ref_size (is_incl form)). split.
  - unfold size_block. rewrite Hpre. unfold ref_prelude. rewrite Hstep. reflexivity.
  - intros to64 a s b. apply ref_size_is_fp_size.
Qed.

Corollary increment_count_int (incl : bool) (a s b : Z) :
  eval_size (fun q => f64z (Qnum q)) (ref_size incl) (inject_Z a) (inject_Z s) (inject_Z b) = int_fp_size incl a s b.
Proof. rewrite ref_size_is_fp_size. reflexivity. Qed.
