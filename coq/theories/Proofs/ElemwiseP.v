(* C01 — lemmas and theorems about Model/Elemwise.v *)
From Coq Require Import List Arith ZArith Bool String Lia.
From MechV Require Import Base.Sexp Base.Obs Proofs.SexpP Model.Elemwise.
Import ListNotations.

Lemma bop_reject_incompatible {A X} (f : A -> A -> option X) (a b : operand A) :
  bshape (oshape a) (oshape b) = None -> bop f a b = None.
Proof. unfold bop. intros ->. reflexivity. Qed.
