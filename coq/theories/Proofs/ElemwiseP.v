(* C01 — lemmas and theorems about Model/Elemwise.v *)
From Coq Require Import List Arith ZArith Bool String Lia.
From MechV Require Import Base.Sexp Base.Obs Proofs.SexpP Model.Elemwise.
Import ListNotations.

(* ------------------------------------------------------------------ *)
(* lists                                                               *)
(* ------------------------------------------------------------------ *)

Lemma map_opt_length {A B} (f : A -> option B) : forall l l',
  map_opt f l = Some l' -> List.length l' = List.length l.
Proof.
  induction l as [|a l IH]; intros l' H; cbn in H.
  - inversion H. reflexivity.
  - destruct (f a) as [b|]; [|discriminate]. destruct (map_opt f l) as [bs|]; [|discriminate].
    inversion H; subst. cbn. f_equal. apply IH. reflexivity.
Qed.

Lemma map_opt_nth {A B} (f : A -> option B) : forall l l' k a,
  map_opt f l = Some l' -> nth_error l k = Some a ->
  exists b, f a = Some b /\ nth_error l' k = Some b.
Proof.
  induction l as [|x l IH]; intros l' k a H Hk.
  - destruct k; discriminate.
  - cbn in H. destruct (f x) as [b|] eqn:Hfx; [|discriminate].
    destruct (map_opt f l) as [bs|] eqn:Hm; [|discriminate]. inversion H; subst.
    destruct k as [|k]; cbn in Hk |- *.
    + inversion Hk; subst. eauto.
    + eapply IH; eauto.
Qed.

Lemma map_opt_nth_inv {A B} (f : A -> option B) : forall l l' k b,
  map_opt f l = Some l' -> nth_error l' k = Some b ->
  exists a, nth_error l k = Some a /\ f a = Some b.
Proof.
  induction l as [|x l IH]; intros l' k b H Hk; cbn in H.
  - inversion H; subst. destruct k; discriminate.
  - destruct (f x) as [y|] eqn:Hfx; [|discriminate].
    destruct (map_opt f l) as [bs|] eqn:Hm; [|discriminate]. inversion H; subst.
    destruct k as [|k]; cbn in Hk |- *.
    + inversion Hk; subst. eauto.
    + eapply IH; eauto.
Qed.

Lemma map_opt_defined {A B} (f : A -> option B) : forall l,
  (forall a, In a l -> f a <> None) -> map_opt f l <> None.
Proof.
  induction l as [|x l IH]; intros H; cbn; [discriminate|].
  destruct (f x) eqn:Hfx; [|exfalso; apply (H x); [left; reflexivity|exact Hfx]].
  destruct (map_opt f l) eqn:Hm; [discriminate|].
  exfalso. apply IH; [|reflexivity]. intros a Ha. apply H. right. exact Ha.
Qed.

Lemma map_opt_none_inv {A B} (f : A -> option B) : forall l,
  map_opt f l = None -> exists a, In a l /\ f a = None.
Proof.
  induction l as [|x l IH]; intros H; cbn in H; [discriminate|].
  destruct (f x) eqn:Hfx.
  - destruct (map_opt f l) eqn:Hm; [discriminate|].
    destruct (IH eq_refl) as [a [Ha Hfa]]. exists a. split; [right; exact Ha|exact Hfa].
  - exists x. split; [left; reflexivity|exact Hfx].
Qed.

Lemma map_opt_ext {A B} (f g : A -> option B) : forall l,
  (forall a, In a l -> f a = g a) -> map_opt f l = map_opt g l.
Proof.
  induction l as [|x l IH]; intros H; cbn; [reflexivity|].
  rewrite (H x) by (left; reflexivity). rewrite IH; [reflexivity|].
  intros a Ha. apply H. right. exact Ha.
Qed.

Lemma map_opt_map {A B C} (g : A -> B) (f : B -> option C) : forall l,
  map_opt f (map g l) = map_opt (fun a => f (g a)) l.
Proof. induction l as [|x l IH]; cbn; [reflexivity|]. rewrite IH. reflexivity. Qed.

Lemma nth_error_seq s n i : i < n -> nth_error (seq s n) i = Some (s + i).
Proof.
  intros H. rewrite (nth_error_nth' _ 0) by (rewrite seq_length; exact H).
  rewrite seq_nth by exact H. reflexivity.
Qed.

(* ------------------------------------------------------------------ *)
(* cells / tab                                                         *)
(* ------------------------------------------------------------------ *)

Lemma cells_gen_length R : forall C s,
  List.length (flat_map (fun j => map (fun i => (i, j)) (seq 0 R)) (seq s C)) = C * R.
Proof.
  induction C as [|C IH]; intros s; cbn; [reflexivity|].
  rewrite app_length, map_length, seq_length, IH. reflexivity.
Qed.

Lemma cells_length R C : List.length (cells R C) = C * R.
Proof. apply cells_gen_length. Qed.

Lemma cells_gen_nth R : forall C s i j, i < R -> j < C ->
  nth_error (flat_map (fun j => map (fun i => (i, j)) (seq 0 R)) (seq s C)) (j * R + i) = Some (i, s + j).
Proof.
  induction C as [|C IH]; intros s i j Hi Hj; [lia|]. cbn [seq flat_map].
  destruct j as [|j].
  - rewrite nth_error_app1 by (rewrite map_length, seq_length; lia).
    cbn [Nat.mul Nat.add]. erewrite map_nth_error by (apply nth_error_seq; exact Hi).
    f_equal. f_equal. lia.
  - rewrite nth_error_app2 by (rewrite map_length, seq_length; lia).
    rewrite map_length, seq_length.
    replace (S j * R + i - R) with (j * R + i) by lia.
    rewrite IH by lia. f_equal. f_equal. lia.
Qed.

Lemma cells_nth R C i j : i < R -> j < C -> nth_error (cells R C) (j * R + i) = Some (i, j).
Proof. intros Hi Hj. unfold cells. rewrite cells_gen_nth by assumption. reflexivity. Qed.

Lemma cells_in R C p : In p (cells R C) -> fst p < R /\ snd p < C.
Proof.
  unfold cells. intros H. apply in_flat_map in H as [j [Hj H]].
  apply in_map_iff in H as [i [<- Hi]]. apply in_seq in Hj, Hi. cbn. lia.
Qed.

Lemma tab_length {X} R C (g : nat -> nat -> option X) d : tab R C g = Some d -> List.length d = R * C.
Proof. unfold tab. intros H. apply map_opt_length in H. rewrite H, cells_length. lia. Qed.

Lemma tab_nth {X} R C (g : nat -> nat -> option X) d i j :
  tab R C g = Some d -> i < R -> j < C ->
  exists x, g i j = Some x /\ nth_error d (j * R + i) = Some x.
Proof.
  unfold tab. intros H Hi Hj.
  destruct (map_opt_nth _ _ _ _ _ H (cells_nth R C i j Hi Hj)) as [x [Hx Hn]]. eauto.
Qed.

Lemma tab_defined {X} R C (g : nat -> nat -> option X) :
  (forall i j, i < R -> j < C -> g i j <> None) -> tab R C g <> None.
Proof.
  intros H. unfold tab. apply map_opt_defined. intros p Hp. apply cells_in in Hp. apply H; tauto.
Qed.

Lemma tab_none_inv {X} R C (g : nat -> nat -> option X) :
  tab R C g = None -> exists i j, i < R /\ j < C /\ g i j = None.
Proof.
  unfold tab. intros H. apply map_opt_none_inv in H as [p [Hp Hg]].
  apply cells_in in Hp. exists (fst p), (snd p). tauto.
Qed.

Lemma tab_ext {X} R C (g h : nat -> nat -> option X) :
  (forall i j, i < R -> j < C -> g i j = h i j) -> tab R C g = tab R C h.
Proof.
  intros H. unfold tab. apply map_opt_ext. intros p Hp. apply cells_in in Hp. apply H; tauto.
Qed.

(* ------------------------------------------------------------------ *)
(* the specification bop                                               *)
(* ------------------------------------------------------------------ *)

(* element (i,j) of a result *)
Definition oget {A} (o : operand A) (i j : nat) : option A :=
  match o with
  | OS x => if Nat.eqb i 0 && Nat.eqb j 0 then Some x else None
  | OM m => mget m i j
  end.

Definition in_shape (s : shape) (i j : nat) : Prop :=
  match s with Sc => i = 0 /\ j = 0 | Mx R C => i < R /\ j < C end.

Lemma owf_wf {A} (m : mat A) : owf (OM m) = true <-> wf_mat m.
Proof. apply wf_matb_wf. Qed.

Theorem bop_reject_incompatible {A X} (f : A -> A -> option X) (a b : operand A) :
  bshape (oshape a) (oshape b) = None -> bop f a b = None.
Proof. unfold bop. intros ->. reflexivity. Qed.

Theorem bop_shape {A X} (f : A -> A -> option X) (a b : operand A) v :
  bop f a b = Some v ->
  bshape (oshape a) (oshape b) = Some (oshape v) /\ owf v = true.
Proof.
  unfold bop. destruct (bshape (oshape a) (oshape b)) as [[|R C]|]; [| |discriminate].
  - destruct (bel f a b 0 0); [|discriminate]. cbn. intros H; inversion H; subst. split; reflexivity.
  - destruct (tab R C (bel f a b)) as [d|] eqn:Ht; [|discriminate]. cbn. intros H; inversion H; subst.
    split; [reflexivity|]. cbn. unfold wf_matb. cbn. apply Nat.eqb_eq. eapply tab_length; eauto.
Qed.

(* every element of the result is the scalar function applied to the broadcast elements *)
Theorem bop_elem {A X} (f : A -> A -> option X) (a b : operand A) v s :
  bop f a b = Some v -> bshape (oshape a) (oshape b) = Some s ->
  forall i j, in_shape s i j ->
    exists x y r, bget a i j = Some x /\ bget b i j = Some y /\ f x y = Some r /\ oget v i j = Some r.
Proof.
  unfold bop. intros H Hs. rewrite Hs in H. intros i j Hij. destruct s as [|R C]; cbn in Hij.
  - destruct Hij as [-> ->]. unfold bel in H.
    destruct (bget a 0 0) as [x|]; [|discriminate]. destruct (bget b 0 0) as [y|]; [|discriminate].
    destruct (f x y) as [r|] eqn:Hf; [|discriminate]. inversion H; subst.
    exists x, y, r. repeat split; try reflexivity; assumption.
  - destruct (tab R C (bel f a b)) as [d|] eqn:Ht; [|discriminate]. inversion H; subst.
    destruct Hij as [Hi Hj]. destruct (tab_nth _ _ _ _ _ _ Ht Hi Hj) as [r [Hr Hn]].
    unfold bel in Hr. destruct (bget a i j) as [x|]; [|discriminate]. destruct (bget b i j) as [y|]; [|discriminate].
    exists x, y, r. repeat split; try assumption.
    unfold oget, mget. cbn [mrows mcols mdata]. apply Nat.ltb_lt in Hi, Hj. rewrite Hi, Hj. exact Hn.
Qed.

(* bget is defined inside the broadcast shape *)
Lemma mget_defined {A} (m : mat A) i j : wf_mat m -> i < mrows m -> j < mcols m -> mget m i j <> None.
Proof.
  intros Hwf Hi Hj. unfold mget. pose proof Hi as Hi'. pose proof Hj as Hj'.
  apply Nat.ltb_lt in Hi', Hj'. rewrite Hi', Hj'. cbn.
  apply nth_error_Some. unfold wf_mat in Hwf. rewrite Hwf. nia.
Qed.

Lemma bshape_cases a b s : bshape a b = Some s ->
  (a = Sc /\ s = b) \/ (b = Sc /\ s = a) \/
  (exists R C, s = Mx R C /\
     ((a = s /\ b = s) \/
      (a = s /\ 2 <= R /\ 2 <= C /\ (b = Mx R 1 \/ b = Mx 1 C)) \/
      (b = s /\ 2 <= R /\ 2 <= C /\ (a = Mx R 1 \/ a = Mx 1 C)))).
Proof.
  destruct a as [|r1 c1], b as [|r2 c2]; cbn; intros H.
  - inversion H. left. split; reflexivity.
  - inversion H. left. split; reflexivity.
  - inversion H. right. left. split; reflexivity.
  - right. right. unfold is_mat2 in H.
    destruct (Nat.eqb r1 r2 && Nat.eqb c1 c2) eqn:E1.
    { inversion H; subst. apply andb_prop in E1 as [E1 E2]. apply Nat.eqb_eq in E1, E2. subst.
      exists r2, c2. split; [reflexivity|]. left. split; reflexivity. }
    destruct (Nat.leb 2 r1 && Nat.leb 2 c1 && (Nat.eqb r2 r1 && Nat.eqb c2 1)) eqn:E2.
    { inversion H; subst. repeat (apply andb_prop in E2 as [E2 ?]).
      apply andb_prop in H0 as [? ?]. apply Nat.leb_le in E2, H1. apply Nat.eqb_eq in H0, H2. subst.
      exists r1, c1. split; [reflexivity|]. right. left. repeat split; try assumption. left. reflexivity. }
    destruct (Nat.leb 2 r1 && Nat.leb 2 c1 && (Nat.eqb r2 1 && Nat.eqb c2 c1)) eqn:E3.
    { inversion H; subst. repeat (apply andb_prop in E3 as [E3 ?]).
      apply andb_prop in H0 as [? ?]. apply Nat.leb_le in E3, H1. apply Nat.eqb_eq in H0, H2. subst.
      exists r1, c1. split; [reflexivity|]. right. left. repeat split; try assumption. right. reflexivity. }
    destruct (Nat.leb 2 r2 && Nat.leb 2 c2 && (Nat.eqb r1 r2 && Nat.eqb c1 1)) eqn:E4.
    { inversion H; subst. repeat (apply andb_prop in E4 as [E4 ?]).
      apply andb_prop in H0 as [? ?]. apply Nat.leb_le in E4, H1. apply Nat.eqb_eq in H0, H2. subst.
      exists r2, c2. split; [reflexivity|]. right. right. repeat split; try assumption. left. reflexivity. }
    destruct (Nat.leb 2 r2 && Nat.leb 2 c2 && (Nat.eqb r1 1 && Nat.eqb c1 c2)) eqn:E5; [|discriminate].
    { inversion H; subst. repeat (apply andb_prop in E5 as [E5 ?]).
      apply andb_prop in H0 as [? ?]. apply Nat.leb_le in E5, H1. apply Nat.eqb_eq in H0, H2. subst.
      exists r2, c2. split; [reflexivity|]. right. right. repeat split; try assumption. right. reflexivity. }
Qed.

Lemma bget_defined {A} (a : operand A) b s i j :
  owf a = true -> (bshape (oshape a) b = Some s \/ bshape b (oshape a) = Some s) ->
  in_shape s i j -> bget a i j <> None.
Proof.
  intros Hwf Hs Hij. destruct a as [x|m]; cbn; [discriminate|].
  apply owf_wf in Hwf. change (oshape (OM m)) with (Mx (mrows m) (mcols m)) in Hs.
  assert (Hc : (s = Mx (mrows m) (mcols m)) \/
               (exists R C, s = Mx R C /\ 2 <= R /\ 2 <= C /\
                  ((mrows m = R /\ mcols m = 1) \/ (mrows m = 1 /\ mcols m = C)))).
  { destruct Hs as [Hs|Hs]; apply bshape_cases in Hs;
      destruct Hs as [[H1 H2]|[[H1 H2]|[R [C [-> H]]]]]; try discriminate; subst; try (left; reflexivity).
    - destruct H as [[H _]|[[H _]|[_ [HR [HC H]]]]]; try (left; symmetry; exact H).
      right. exists R, C. split; [reflexivity|]. split; [exact HR|]. split; [exact HC|].
      destruct H as [H|H]; inversion H; subst; [left|right]; split; reflexivity.
    - destruct H as [[_ H]|[[_ [HR [HC H]]]|[H _]]]; try (left; symmetry; exact H).
      right. exists R, C. split; [reflexivity|]. split; [exact HR|]. split; [exact HC|].
      destruct H as [H|H]; inversion H; subst; [left|right]; split; reflexivity. }
  destruct Hc as [->|[R [C [-> [HR [HC Hv]]]]]]; cbn in Hij; destruct Hij as [Hi Hj].
  - apply mget_defined; try assumption.
    + destruct (Nat.eqb (mrows m) 1); lia.
    + destruct (Nat.eqb (mcols m) 1); lia.
  - destruct Hv as [[Hr Hc]|[Hr Hc]]; rewrite Hr, Hc; cbn.
    + replace (Nat.eqb R 1) with false by (symmetry; apply Nat.eqb_neq; lia).
      apply mget_defined; try assumption; lia.
    + replace (Nat.eqb C 1) with false by (symmetry; apply Nat.eqb_neq; lia).
      apply mget_defined; try assumption; lia.
Qed.

(* if the scalar function accepts every pair of elements, the matrix forms named by the property are accepted *)
Theorem bop_accept_uniform {A X} (f : A -> A -> option X) (a b : operand A) :
  owf a = true -> owf b = true ->
  (forall x y, In x (odata a) -> In y (odata b) -> f x y <> None) ->
  (oshape a = oshape b \/ oshape a = Sc \/ oshape b = Sc) ->
  bop f a b <> None.
Proof.
  intros Ha Hb Hf Hs.
  assert (Hbs : exists s, bshape (oshape a) (oshape b) = Some s).
  { destruct Hs as [Hs|[Hs|Hs]]; rewrite Hs.
    - destruct (oshape b) as [|r c]; cbn; [eauto|]. rewrite !Nat.eqb_refl. cbn. eauto.
    - cbn. eauto.
    - destruct (oshape a); cbn; eauto. }
  destruct Hbs as [s Hbs].
  assert (Hel : forall i j, in_shape s i j -> bel f a b i j <> None).
  { intros i j Hij. unfold bel.
    pose proof (bget_defined a (oshape b) s i j Ha (or_introl Hbs) Hij) as H1.
    pose proof (bget_defined b (oshape a) s i j Hb (or_intror Hbs) Hij) as H2.
    destruct (bget a i j) as [x|] eqn:Hx; [|congruence]. destruct (bget b i j) as [y|] eqn:Hy; [|congruence].
    apply Hf.
    - destruct a as [x0|m]; cbn in Hx |- *; [inversion Hx; left; reflexivity|].
      unfold mget in Hx. destruct (_ && _); [|discriminate]. eapply nth_error_In; eauto.
    - destruct b as [y0|m]; cbn in Hy |- *; [inversion Hy; left; reflexivity|].
      unfold mget in Hy. destruct (_ && _); [|discriminate]. eapply nth_error_In; eauto. }
  unfold bop. rewrite Hbs. destruct s as [|R C].
  - specialize (Hel 0 0 (conj eq_refl eq_refl)). destruct (bel f a b 0 0); [discriminate|congruence].
  - pose proof (tab_defined R C (bel f a b) (fun i j Hi Hj => Hel i j (conj Hi Hj))) as Ht.
    destruct (tab R C (bel f a b)); [discriminate|congruence].
Qed.

(* bop is an error only if the shapes are incompatible or some needed scalar application is *)
Theorem bop_none_inv {A X} (f : A -> A -> option X) (a b : operand A) s :
  owf a = true -> owf b = true ->
  bshape (oshape a) (oshape b) = Some s -> bop f a b = None ->
  exists i j x y, in_shape s i j /\ bget a i j = Some x /\ bget b i j = Some y /\ f x y = None.
Proof.
  intros Ha Hb Hs H. unfold bop in H. rewrite Hs in H.
  assert (Hel : exists i j, in_shape s i j /\ bel f a b i j = None).
  { destruct s as [|R C].
    - exists 0, 0. split; [split; reflexivity|]. destruct (bel f a b 0 0); [discriminate|reflexivity].
    - destruct (tab R C (bel f a b)) eqn:Ht; [discriminate|].
      apply tab_none_inv in Ht as [i [j [Hi [Hj Hn]]]]. exists i, j. split; [split; assumption|exact Hn]. }
  destruct Hel as [i [j [Hij Hn]]]. exists i, j. unfold bel in Hn.
  pose proof (bget_defined a (oshape b) s i j Ha (or_introl Hs) Hij) as H1.
  pose proof (bget_defined b (oshape a) s i j Hb (or_intror Hs) Hij) as H2.
  destruct (bget a i j) as [x|]; [|congruence]. destruct (bget b i j) as [y|]; [|congruence].
  exists x, y. repeat split; assumption.
Qed.

(* ------------------------------------------------------------------ *)
(* soundness of the judge                                              *)
(* ------------------------------------------------------------------ *)

(* What an `ok` verdict certifies about the implementation's observations on one case:
   (i)  every scalar evaluation `x op y` whose result the property fixes agrees with the scalar model;
   (ii) `A op B` is an error exactly when the shapes are incompatible or one of the scalar
        evaluations it is made of is no value, and otherwise it is the broadcast-shaped
        tabulation of the implementation's own scalar results (bop over the oracle). *)
Definition C01_spec (o : op) (k : kind) (kn : string) (a b : operand sx) (t : otable) (r : obs) : Prop :=
  (forall pa pb ob p, In (pa, pb, ob) t -> sop o k pa pb = SV true p ->
      exists p', ob = OVal (KS (rkname o kn) p') /\ payload_eqb (rkind o k) p p' = true) /\
  match bshape (oshape a) (oshape b) with
  | None => r = OErr
  | Some s =>
      match bop (orc_f (rkname o kn) t) a b with
      | Some e => exists v, r = OVal v /\ val_eqb (rkind o k) (rkname o kn) e v = true
      | None => r = OErr
      end
  end.

Lemma scalar_layer_ok o k kn t :
  find (scalar_bad o k (rkname o kn)) t = None ->
  forall pa pb ob p, In (pa, pb, ob) t -> sop o k pa pb = SV true p ->
    exists p', ob = OVal (KS (rkname o kn) p') /\ payload_eqb (rkind o k) p p' = true.
Proof.
  intros Hf pa pb ob p Hin Hs.
  pose proof (find_none _ _ Hf _ Hin) as Hb. unfold scalar_bad in Hb. rewrite Hs in Hb.
  destruct ob as [[k' p'|k' m]| | | |x]; try discriminate.
  apply negb_false_iff in Hb. apply andb_prop in Hb as [Hk Hp]. apply String.eqb_eq in Hk. subst.
  exists p'. split; [reflexivity|exact Hp].
Qed.

Theorem judge_core_sound o k kn a b t r tag :
  judge_core o k kn a b t r = v_ok tag -> C01_spec o k kn a b t r.
Proof.
  unfold judge_core, C01_spec. intros H.
  destruct (find (scalar_bad o k (rkname o kn)) t) eqn:Hfind; [discriminate|].
  split; [apply scalar_layer_ok; exact Hfind|].
  destruct (bshape (oshape a) (oshape b)) as [s|].
  - destruct (bop (orc_present t) a b); [|discriminate].
    destruct (bop (orc_f (rkname o kn) t) a b) as [e|].
    + destruct r as [v| | | |x]; try discriminate.
      * destruct (val_eqb (rkind o k) (rkname o kn) e v) eqn:Hv; [|discriminate]. eauto.
      * destruct (is_vec_bcast (oshape a) (oshape b)); discriminate.
    + destruct r as [v| | | |x]; try discriminate. reflexivity.
  - destruct r as [v| | | |x]; try discriminate; [|reflexivity].
    destruct (ibop _ _ _ _ a b); [|discriminate].
    destruct (kf_samevec _ _ a b && val_eqb _ _ _ v); discriminate.
Qed.

(* ------------------------------------------------------------------ *)
(* the dispatch arms against the broadcast rule                        *)
(* ------------------------------------------------------------------ *)

Definition pos_shape (s : shape) : Prop :=
  match s with Sc => True | Mx r c => 1 <= r /\ 1 <= c end.

Ltac beq :=
  repeat (match goal with
  | |- context [Nat.eqb ?a ?b] => destruct (Nat.eqb_spec a b); try (exfalso; lia)
  | |- context [Nat.leb ?a ?b] => destruct (Nat.leb_spec a b); try (exfalso; lia)
  | |- context [Nat.ltb ?a ?b] => destruct (Nat.ltb_spec a b); try (exfalso; lia)
  end; cbn [andb orb]).

(* Which operand shapes reach which arm, and that the arms together accept exactly the
   broadcast-compatible shapes — except that the same-form arm performs no shape test. *)
Theorem dispatch_spec a b : pos_shape a -> pos_shape b ->
  match dispatch a b with
  | None => bshape a b = None
  | Some ASS => a = Sc /\ b = Sc
  | Some ASM => a = Sc /\ exists r c, b = Mx r c
  | Some AMS => b = Sc /\ exists r c, a = Mx r c
  | Some AVV => (exists r1 c1 r2 c2, a = Mx r1 c1 /\ b = Mx r2 c2) /\ (a = b \/ bshape a b = None)
  | Some AMV => exists R C, 2 <= R /\ 2 <= C /\ a = Mx R C /\ b = Mx R 1
  | Some AMR => exists R C, 2 <= R /\ 2 <= C /\ a = Mx R C /\ b = Mx 1 C
  | Some AVM => exists R C, 2 <= R /\ 2 <= C /\ b = Mx R C /\ a = Mx R 1
  | Some ARM => exists R C, 2 <= R /\ 2 <= C /\ b = Mx R C /\ a = Mx 1 C
  end.
Proof.
  destruct a as [|r1 c1], b as [|r2 c2]; cbn [pos_shape]; intros Ha Hb.
  - cbn. split; reflexivity.
  - cbn. split; [reflexivity|eauto].
  - cbn. split; [reflexivity|eauto].
  - unfold dispatch, form_of.
    destruct (Nat.eqb_spec r1 1), (Nat.eqb_spec c1 1), (Nat.eqb_spec r2 1), (Nat.eqb_spec c2 1); subst;
      cbn [andb]; unfold guard_lhs_dm, guard_rhs_dm; beq;
      repeat match goal with
      | |- (exists r1 c1 r2 c2, Mx _ _ = Mx r1 c1 /\ Mx _ _ = Mx r2 c2) /\ _ =>
          split; [do 4 eexists; split; reflexivity|]
      | |- Mx ?a ?b = Mx ?c ?d \/ _ =>
          destruct (Nat.eq_dec a c); [destruct (Nat.eq_dec b d); [left; subst; reflexivity|right]|right]
      | |- exists R C, _ => do 2 eexists; repeat split; try reflexivity; try lia; try (f_equal; lia)
      end;
      try (unfold bshape, is_mat2; beq; first [reflexivity | exfalso; lia]).
Qed.

(* ------------------------------------------------------------------ *)
(* the implementation model against the specification                  *)
(* ------------------------------------------------------------------ *)

Lemma map_opt_pointwise {A A' B} (f : A -> option B) (g : A' -> option B) : forall l l',
  List.length l = List.length l' ->
  (forall k a a', nth_error l k = Some a -> nth_error l' k = Some a' -> f a = g a') ->
  map_opt f l = map_opt g l'.
Proof.
  induction l as [|x l IH]; intros [|y l'] Hlen H; try discriminate; [reflexivity|].
  cbn. rewrite (H 0 x y eq_refl eq_refl). erewrite IH; [reflexivity| |].
  - cbn in Hlen. lia.
  - intros k a a' Ha Ha'. apply (H (S k)); assumption.
Qed.

Lemma cells_nth_inv R C k p :
  nth_error (cells R C) k = Some p -> fst p < R /\ snd p < C /\ k = snd p * R + fst p.
Proof.
  intros H. assert (Hk : k < C * R).
  { rewrite <- cells_length. apply nth_error_Some. congruence. }
  assert (HR : 0 < R) by nia.
  assert (Hi : k mod R < R) by (apply Nat.mod_upper_bound; lia).
  assert (Hj : k / R < C) by (apply Nat.div_lt_upper_bound; nia).
  pose proof (cells_nth R C _ _ Hi Hj) as Hc.
  assert (Hkk : k / R * R + k mod R = k).
  { pose proof (Nat.div_mod k R). lia. }
  rewrite Hkk in Hc. rewrite H in Hc. inversion Hc; subst. cbn. repeat split; try assumption. lia.
Qed.

Lemma nth_error_combine {A B} : forall (la : list A) (lb : list B) k x y,
  nth_error (combine la lb) k = Some (x, y) <-> nth_error la k = Some x /\ nth_error lb k = Some y.
Proof.
  induction la as [|a la IH]; intros lb k x y.
  - cbn. destruct k; cbn; (split; [discriminate|intros [H _]; discriminate]).
  - destruct lb as [|b lb].
    + cbn. destruct k; cbn; (split; [discriminate|intros [_ H]; discriminate]).
    + destruct k as [|k]; cbn.
      * split; [intros H; inversion H; split; reflexivity|intros [H1 H2]; inversion H1; inversion H2; reflexivity].
      * apply IH.
Qed.

Lemma if_eqb1_lt n i : i < n -> (if Nat.eqb n 1 then 0 else i) = i.
Proof. intros H. destruct (Nat.eqb_spec n 1); lia. Qed.

Lemma bget_in {A} (m : mat A) i j : i < mrows m -> j < mcols m ->
  bget (OM m) i j = nth_error (mdata m) (j * mrows m + i).
Proof.
  intros Hi Hj. cbn. rewrite (if_eqb1_lt _ _ Hi), (if_eqb1_lt _ _ Hj). unfold mget.
  apply Nat.ltb_lt in Hi, Hj. rewrite Hi, Hj. reflexivity.
Qed.

Lemma bget_col {A} (m : mat A) i j : mcols m = 1 -> i < mrows m -> bget (OM m) i j = nth_error (mdata m) i.
Proof.
  intros Hc Hi. cbn. rewrite Hc. cbn. rewrite (if_eqb1_lt _ _ Hi). unfold mget. rewrite Hc.
  apply Nat.ltb_lt in Hi. rewrite Hi. cbn. reflexivity.
Qed.

Lemma bget_row {A} (m : mat A) i j : mrows m = 1 -> j < mcols m -> bget (OM m) i j = nth_error (mdata m) j.
Proof.
  intros Hr Hj. cbn. rewrite Hr. cbn. rewrite (if_eqb1_lt _ _ Hj). unfold mget. rewrite Hr.
  apply Nat.ltb_lt in Hj. rewrite Hj. cbn. f_equal. lia.
Qed.

(* tabulating a function of the linear index over a well-formed matrix is a map over its data *)
Lemma tab_linear {A X} (m : mat A) (g : A -> option X) :
  wf_mat m ->
  tab (mrows m) (mcols m) (fun i j => match bget (OM m) i j with Some x => g x | None => None end)
  = map_opt g (mdata m).
Proof.
  intros Hwf. unfold tab. apply map_opt_pointwise.
  - rewrite cells_length. unfold wf_mat in Hwf. lia.
  - intros k p x Hp Hx. apply cells_nth_inv in Hp as [Hi [Hj Hk]].
    rewrite bget_in by assumption. rewrite <- Hk, Hx. reflexivity.
Qed.

Lemma tab_linear2 {A X} (ma mb : mat A) (f : A -> A -> option X) :
  wf_mat ma -> wf_mat mb -> mrows ma = mrows mb -> mcols ma = mcols mb ->
  tab (mrows ma) (mcols ma) (bel f (OM ma) (OM mb)) = map2_opt f (mdata ma) (mdata mb).
Proof.
  intros Ha Hb Hr Hc. unfold tab, map2_opt. apply map_opt_pointwise.
  - rewrite cells_length, combine_length. unfold wf_mat in Ha, Hb. rewrite Ha, Hb, <- Hr, <- Hc. lia.
  - intros k p [x y] Hp Hxy. apply cells_nth_inv in Hp as [Hi [Hj Hk]].
    apply nth_error_combine in Hxy as [Hx Hy]. unfold bel.
    rewrite bget_in by assumption. rewrite bget_in by lia.
    rewrite <- Hr, <- Hk, Hx, Hy. reflexivity.
Qed.

Lemma index_kernel_long {A X} (f : A -> A -> option X) (sc : A -> option X) : forall la lb,
  List.length la <= List.length lb -> index_kernel f sc la lb = map2_opt f la lb.
Proof.
  induction la as [|x la IH]; intros lb Hlen; [reflexivity|].
  destruct lb as [|y lb]; [cbn in Hlen; lia|]. cbn [index_kernel tl]. unfold map2_opt. cbn [combine map_opt fst snd].
  rewrite IH by (cbn in Hlen; lia). reflexivity.
Qed.

Lemma index_kernel_runs_out {A X} (f : A -> A -> option X) (sc : A -> option X) : forall la lb,
  runs_out sc la lb = true -> index_kernel f sc la lb = None.
Proof.
  unfold runs_out. induction la as [|x la IH]; intros lb H.
  - destruct (List.length lb); discriminate.
  - destruct lb as [|y lb].
    + cbn [List.length skipn existsb] in H. cbn [index_kernel tl].
      destruct (sc x) eqn:Hsc; [|reflexivity]. cbn [orb] in H.
      rewrite (IH [] H). reflexivity.
    + cbn [List.length skipn] in H. cbn [index_kernel tl]. rewrite (IH lb H).
      destruct (f x y); reflexivity.
Qed.

Theorem ibop_eq_bop {A X} (dflt : X) (vk : vkern) (sc : A -> option X) (f : A -> A -> option X) (a b : operand A) :
  owf a = true -> owf b = true -> pos_shape (oshape a) -> pos_shape (oshape b) ->
  kf_samevec vk sc a b = false -> ibop dflt vk sc f a b = bop f a b.
Proof.
  intros Ha Hb Hpa Hpb Hkf. pose proof (dispatch_spec _ _ Hpa Hpb) as Hd.
  unfold ibop, kf_samevec in *. destruct (dispatch (oshape a) (oshape b)) as [[]|] eqn:Hdis.
  - (* ASS *) destruct Hd as [Hsa Hsb]. destruct a as [x|ma]; [|discriminate]. destruct b as [y|mb]; [|discriminate].
    reflexivity.
  - (* ASM *) destruct Hd as [Hsa [r [c Hsb]]]. destruct a as [x|ma]; [|discriminate]. destruct b as [y|mb]; [discriminate|].
    unfold bop. cbn [oshape bshape]. f_equal.
    rewrite <- (tab_linear mb (fun y => f x y)) by (apply owf_wf; exact Hb).
    apply tab_ext. intros i j Hi Hj. unfold bel. cbn [bget]. reflexivity.
  - (* AMS *) destruct Hd as [Hsb [r [c Hsa]]]. destruct b as [y|mb]; [|discriminate]. destruct a as [x|ma]; [discriminate|].
    unfold bop. cbn [oshape bshape]. f_equal.
    rewrite <- (tab_linear ma (fun x => f x y)) by (apply owf_wf; exact Ha).
    apply tab_ext. intros i j Hi Hj. unfold bel. cbn [bget]. destruct (mget ma _ _); reflexivity.
  - (* AVV *) destruct Hd as [[r1 [c1 [r2 [c2 [Hsa Hsb]]]]] Hor].
    destruct a as [x|ma]; [discriminate|]. destruct b as [y|mb]; [discriminate|].
    apply owf_wf in Ha, Hb. cbn [oshape] in *.
    destruct Hor as [Heq|Hnone].
    + inversion Heq as [[Hr Hc]]. unfold bop. cbn [oshape]. rewrite <- Heq.
      assert (Hbs : bshape (Mx (mrows ma) (mcols ma)) (Mx (mrows ma) (mcols ma)) = Some (Mx (mrows ma) (mcols ma))).
      { cbn. rewrite !Nat.eqb_refl. reflexivity. }
      rewrite Hbs. rewrite (tab_linear2 ma mb f Ha Hb Hr Hc).
      assert (Hlen : List.length (mdata ma) = List.length (mdata mb)).
      { unfold wf_mat in Ha, Hb. rewrite Ha, Hb, Hr, Hc. reflexivity. }
      destruct vk.
      * rewrite Hr, Hc, !Nat.eqb_refl. reflexivity.
      * unfold map2_opt. destruct (map_opt _ (combine (mdata ma) (mdata mb))) as [d|] eqn:Hm; [|reflexivity].
        cbn [option_map]. apply map_opt_length in Hm. rewrite combine_length, <- Hlen, Nat.min_id in Hm.
        rewrite Hm, Nat.sub_diag. cbn [repeat]. rewrite app_nil_r. reflexivity.
      * rewrite index_kernel_long by lia. reflexivity.
    + unfold bop. cbn [oshape]. rewrite Hnone.
      assert (Hne : Nat.eqb (mrows ma) (mrows mb) && Nat.eqb (mcols ma) (mcols mb) = false).
      { destruct (Nat.eqb_spec (mrows ma) (mrows mb)) as [e1|]; [|reflexivity].
        destruct (Nat.eqb_spec (mcols ma) (mcols mb)) as [e2|]; [|reflexivity].
        exfalso. rewrite e1, e2 in Hnone. cbn in Hnone. rewrite !Nat.eqb_refl in Hnone. discriminate. }
      rewrite Hne in *. cbn [negb andb] in Hkf. destruct vk; [reflexivity|discriminate|].
      apply negb_false_iff in Hkf. rewrite (index_kernel_runs_out f sc _ _ Hkf). reflexivity.
  - (* AMV *) destruct Hd as [R [C [HR [HC [Hsa Hsb]]]]].
    destruct a as [x|ma]; [discriminate|]. destruct b as [y|mb]; [discriminate|].
    cbn [oshape] in Hsa, Hsb. inversion Hsa as [[Hra Hca]]. inversion Hsb as [[Hrb Hcb]].
    unfold bop. cbn [oshape]. rewrite Hsa, Hsb.
    assert (Hbs : bshape (Mx R C) (Mx R 1) = Some (Mx R C)).
    { unfold bshape, is_mat2. beq; reflexivity. }
    rewrite Hbs, Hra, Hca. f_equal. apply tab_ext. intros i j Hi Hj. unfold bel, nth2.
    rewrite bget_in by lia. rewrite (bget_col mb i j) by lia. rewrite Hra. reflexivity.
  - (* AVM *) destruct Hd as [R [C [HR [HC [Hsb Hsa]]]]].
    destruct a as [x|ma]; [discriminate|]. destruct b as [y|mb]; [discriminate|].
    cbn [oshape] in Hsa, Hsb. inversion Hsa as [[Hra Hca]]. inversion Hsb as [[Hrb Hcb]].
    unfold bop. cbn [oshape]. rewrite Hsa, Hsb.
    assert (Hbs : bshape (Mx R 1) (Mx R C) = Some (Mx R C)).
    { unfold bshape, is_mat2. beq; reflexivity. }
    rewrite Hbs, Hrb, Hcb. f_equal. apply tab_ext. intros i j Hi Hj. unfold bel, nth2.
    rewrite (bget_col ma i j) by lia. rewrite bget_in by lia. rewrite Hrb. reflexivity.
  - (* AMR *) destruct Hd as [R [C [HR [HC [Hsa Hsb]]]]].
    destruct a as [x|ma]; [discriminate|]. destruct b as [y|mb]; [discriminate|].
    cbn [oshape] in Hsa, Hsb. inversion Hsa as [[Hra Hca]]. inversion Hsb as [[Hrb Hcb]].
    unfold bop. cbn [oshape]. rewrite Hsa, Hsb.
    assert (Hbs : bshape (Mx R C) (Mx 1 C) = Some (Mx R C)).
    { unfold bshape, is_mat2. beq; reflexivity. }
    rewrite Hbs, Hra, Hca. f_equal. apply tab_ext. intros i j Hi Hj. unfold bel, nth2.
    rewrite bget_in by lia. rewrite (bget_row mb i j) by lia. rewrite Hra. reflexivity.
  - (* ARM *) destruct Hd as [R [C [HR [HC [Hsb Hsa]]]]].
    destruct a as [x|ma]; [discriminate|]. destruct b as [y|mb]; [discriminate|].
    cbn [oshape] in Hsa, Hsb. inversion Hsa as [[Hra Hca]]. inversion Hsb as [[Hrb Hcb]].
    unfold bop. cbn [oshape]. rewrite Hsa, Hsb.
    assert (Hbs : bshape (Mx 1 C) (Mx R C) = Some (Mx R C)).
    { unfold bshape, is_mat2. beq; reflexivity. }
    rewrite Hbs, Hrb, Hcb. f_equal. apply tab_ext. intros i j Hi Hj. unfold bel, nth2.
    rewrite (bget_row ma i j) by lia. rewrite bget_in by lia. rewrite Hrb. reflexivity.
  - (* no arm *) unfold bop. rewrite Hd. destruct a, b; reflexivity.
Qed.

(* ------------------------------------------------------------------ *)
(* scalars: integers                                                   *)
(* ------------------------------------------------------------------ *)
Local Open Scope Z_scope.

(* exact integer arithmetic; None where it has no (unique) exact integer result:
   `/` when the divisor is 0 or does not divide, `%` outside the non-negative quadrant,
   `^` with a negative exponent *)
Definition zarith (o : op) (a b : Z) : option Z :=
  match o with
  | Add => Some (a + b)
  | Sub => Some (a - b)
  | Mul => Some (a * b)
  | Neg => Some (- a)
  | Pow => if 0 <=? b then Some (a ^ b) else None
  | Div => if b =? 0 then None else if Z.rem a b =? 0 then Some (Z.quot a b) else None
  | Mod => if (0 <=? a) && (0 <? b) then Some (a mod b) else None
  | _ => None
  end.

Definition is_arith (o : op) : bool :=
  match o with Add | Sub | Mul | Div | Mod | Pow | Neg => true | _ => false end.

(* the exact quotient: q with a = b * q *)
Lemma zarith_div_exact a b q : b <> 0 -> a = b * q -> zarith Div a b = Some q.
Proof.
  intros Hb ->. unfold zarith. destruct (Z.eqb_spec b 0) as [|_]; [contradiction|].
  rewrite (Z.mul_comm b q), Z.rem_mul by exact Hb. cbn. rewrite Z.quot_mul by exact Hb. reflexivity.
Qed.

Lemma in_range_unsigned_nonneg w z : in_range false w z = true -> 0 <= z.
Proof. unfold in_range. intros H. apply andb_prop in H as [H _]. lia. Qed.

Lemma pow_guard_overflow w a b : 0 < w -> w < b -> 2 <= a -> in_range false w (a ^ b) = false.
Proof.
  intros Hw Hb Ha. unfold in_range. apply andb_false_iff. right. apply Z.ltb_ge.
  transitivity (2 ^ b); [apply Z.pow_le_mono_r; lia|apply Z.pow_le_mono_l; lia].
Qed.

(* On integers the scalar model is binding exactly where exact integer arithmetic has a result
   that the kind can represent, and then it is that result. *)
Theorem sop_int_exact o sg w a b z :
  0 < w -> in_range sg w a = true -> in_range sg w b = true ->
  is_arith o = true -> accepts o (KInt sg w) = true ->
  (sop o (KInt sg w) (Zx a) (Zx b) = SV true (Zx z) <-> zarith o a b = Some z /\ in_range sg w z = true).
Proof.
  intros Hw Ha Hb Har Hacc. cbn [sop]. rewrite Ha, Hb. cbn [andb].
  assert (Hret : forall r, ret_int sg w r = SV true (Zx z) <-> Some r = Some z /\ in_range sg w z = true).
  { intros r. unfold ret_int. destruct (in_range sg w r) eqn:Hr; split.
    - intros H; inversion H; subst. split; [reflexivity|exact Hr].
    - intros [H _]; inversion H; subst. reflexivity.
    - discriminate.
    - intros [H Hz]; inversion H; subst. congruence. }
  destruct o; try discriminate; cbn [int_op zarith].
  - apply Hret.
  - apply Hret.
  - apply Hret.
  - destruct (Z.eqb_spec b 0); [split; [discriminate|intros [? _]; discriminate]|].
    destruct (Z.eqb_spec (Z.rem a b) 0); [apply Hret|].
    split; [discriminate|intros [? _]; discriminate].
  - destruct (Z.eqb_spec b 0) as [->|Hb0].
    + replace ((0 <=? a) && (0 <? 0)) with false by (rewrite andb_comm; reflexivity).
      split; [discriminate|intros [? _]; discriminate].
    + destruct ((0 <=? a) && (0 <? b)) eqn:Hq.
      * apply andb_prop in Hq as [Hq1 Hq2]. split.
        -- intros H; inversion H; subst. split; [reflexivity|].
           assert (0 <= a mod b < b) by (apply Z.mod_pos_bound; lia).
           unfold in_range in *. destruct sg.
           ++ apply andb_prop in Hb as [_ Hb]. apply andb_true_intro. split; lia.
           ++ apply andb_prop in Hb as [_ Hb]. apply andb_true_intro. split; lia.
        -- intros [H _]; inversion H; subst. reflexivity.
      * split; [discriminate|intros [? _]; discriminate].
  - (* Pow *)
    cbn [accepts] in Hacc. apply andb_prop in Hacc as [Hsg Hw32]. apply negb_true_iff in Hsg. subst sg.
    cbn [orb]. replace (32 <? w) with false by (symmetry; apply Z.ltb_ge; lia).
    pose proof (in_range_unsigned_nonneg _ _ Ha) as Ha0. pose proof (in_range_unsigned_nonneg _ _ Hb) as Hb0.
    replace (0 <=? b) with true by (symmetry; apply Z.leb_le; lia).
    destruct (Z.ltb_spec w b) as [Hwb|Hwb]; [|apply Hret].
    destruct (Z.eqb_spec a 0) as [->|Ha1].
    { rewrite Z.pow_0_l by lia. split.
      - intros H; inversion H; subst. split; [reflexivity|]. unfold in_range. apply andb_true_intro. split; [lia|].
        apply Z.ltb_lt. apply Z.pow_pos_nonneg; lia.
      - intros [H _]; inversion H; subst. reflexivity. }
    destruct (Z.eqb_spec a 1) as [->|Ha2].
    { rewrite Z.pow_1_l by lia. split.
      - intros H; inversion H; subst. split; [reflexivity|]. unfold in_range. apply andb_true_intro. split; [lia|].
        apply Z.ltb_lt. change 1 with (2 ^ 0). apply Z.pow_lt_mono_r; lia.
      - intros [H _]; inversion H; subst. reflexivity. }
    split; [discriminate|]. intros [H Hz]. inversion H; subst.
    rewrite pow_guard_overflow in Hz by lia. discriminate.
  - (* Neg *) cbn [accepts] in Hacc. subst sg. apply Hret.
Qed.

Definition zcmp (o : op) (a b : Z) : bool :=
  match o with
  | Eq => a =? b | Ne => negb (a =? b)
  | Lt => a <? b | Le => a <=? b | Gt => b <? a | Ge => b <=? a
  | _ => false
  end.

Lemma cmp_of_zcmp o a b : is_cmp o = true -> cmp_of o (a ?= b) = zcmp o a b.
Proof.
  intros Ho. destruct o; try discriminate; unfold zcmp; destruct (Z.compare_spec a b) as [H|H|H]; cbn [cmp_of];
    repeat match goal with
    | |- context [Z.eqb ?x ?y] => destruct (Z.eqb_spec x y)
    | |- context [Z.ltb ?x ?y] => destruct (Z.ltb_spec x y)
    | |- context [Z.leb ?x ?y] => destruct (Z.leb_spec x y)
    end; cbn [negb]; try reflexivity; lia.
Qed.

(* comparisons of integers are the order of Z *)
Theorem sop_int_cmp o sg w a b :
  in_range sg w a = true -> in_range sg w b = true -> is_cmp o = true ->
  sop o (KInt sg w) (Zx a) (Zx b) = SV true (bool_p (zcmp o a b)).
Proof.
  intros Ha Hb Ho. cbn [sop]. rewrite Ha, Hb. cbn [andb].
  rewrite <- cmp_of_zcmp by exact Ho. destruct o; try discriminate; reflexivity.
Qed.

(* ------------------------------------------------------------------ *)
(* scalars: Boolean algebra, strings                                   *)
(* ------------------------------------------------------------------ *)

Theorem sop_bool_algebra (a b : bool) :
  sop And KBool (bool_p a) (bool_p b) = SV true (bool_p (a && b)) /\
  sop Or KBool (bool_p a) (bool_p b) = SV true (bool_p (a || b)) /\
  sop Xor KBool (bool_p a) (bool_p b) = SV true (bool_p (xorb a b)) /\
  sop Not KBool (bool_p a) (bool_p b) = SV true (bool_p (negb a)) /\
  sop Eq KBool (bool_p a) (bool_p b) = SV true (bool_p (Bool.eqb a b)) /\
  sop Ne KBool (bool_p a) (bool_p b) = SV true (bool_p (negb (Bool.eqb a b))).
Proof. destruct a, b; repeat split; reflexivity. Qed.

Theorem sop_string (a b : string) :
  sop Add KStr (Qx a) (Qx b) = SV true (Qx (String.append a b)) /\
  sop Eq KStr (Qx a) (Qx b) = SV true (bool_p (String.eqb a b)) /\
  sop Ne KStr (Qx a) (Qx b) = SV true (bool_p (negb (String.eqb a b))).
Proof. repeat split; reflexivity. Qed.

(* ------------------------------------------------------------------ *)
(* scalars: rationals                                                  *)
(* ------------------------------------------------------------------ *)

(* exact value N/D of the operation as numerator and denominator (not reduced) *)
Definition qarith (o : op) (n1 d1 n2 d2 : Z) : option (Z * Z) :=
  match o with
  | Add => Some (n1 * d2 + n2 * d1, d1 * d2)
  | Sub => Some (n1 * d2 - n2 * d1, d1 * d2)
  | Mul => Some (n1 * n2, d1 * d2)
  | Div => Some (n1 * d2, d1 * n2)
  | Neg => Some (- n1, d1)
  | _ => None
  end.

Lemma ret_rat_sound N D p : ret_rat N D = SV true p ->
  D <> 0 /\ exists n d, p = Lx [Zx n; Zx d] /\ 0 < d /\ Z.gcd n d = 1 /\ n * D = N * d /\
                        in_range true 64 n = true /\ in_range true 64 d = true.
Proof.
  unfold ret_rat. destruct (Z.eqb_spec D 0) as [|HD]; [discriminate|]. intros H. split; [exact HD|].
  unfold rnorm in H. cbv zeta in H. set (g := Z.gcd N D) in *.
  assert (Hg : 0 < g) by (pose proof (Z.gcd_nonneg N D); assert (g <> 0) by (intro E; apply Z.gcd_eq_0_r in E; contradiction); lia).
  destruct (Z.gcd_divide_l N D) as [n' Hn']. destruct (Z.gcd_divide_r N D) as [d' Hd']. fold g in Hn', Hd'.
  assert (HNg : N / g = n') by (rewrite Hn'; apply Z.div_mul; lia).
  assert (HDg : D / g = d') by (rewrite Hd'; apply Z.div_mul; lia).
  assert (Hcop : Z.gcd n' d' = 1).
  { rewrite <- HNg, <- HDg. apply Z.gcd_div_gcd; [lia|reflexivity]. }
  rewrite HNg, HDg in H.
  destruct (Z.ltb_spec D 0) as [Hneg|Hpos].
  - destruct (in_range true 64 (- n') && in_range true 64 (- d')) eqn:Hfit; [|discriminate].
    inversion H; subst p. apply andb_prop in Hfit as [F1 F2].
    exists (- n'), (- d'). repeat split; try assumption.
    + nia.
    + rewrite Z.gcd_opp_l, Z.gcd_opp_r. exact Hcop.
    + rewrite Hn', Hd'. ring.
  - destruct (in_range true 64 n' && in_range true 64 d') eqn:Hfit; [|discriminate].
    inversion H; subst p. apply andb_prop in Hfit as [F1 F2].
    exists n', d'. repeat split; try assumption.
    + nia.
    + rewrite Hn', Hd'. ring.
Qed.

(* a binding result of a rational operator is the exact value of the operation, in lowest terms,
   positive denominator, both parts within i64: p/q with p * D = N * q where N/D is the exact value *)
Theorem sop_rat_exact o n1 d1 n2 d2 N D p :
  0 < d1 -> 0 < d2 -> qarith o n1 d1 n2 d2 = Some (N, D) ->
  sop o KR64 (Lx [Zx n1; Zx d1]) (Lx [Zx n2; Zx d2]) = SV true p ->
  D <> 0 /\ exists n d, p = Lx [Zx n; Zx d] /\ 0 < d /\ Z.gcd n d = 1 /\ n * D = N * d /\
                        in_range true 64 n = true /\ in_range true 64 d = true.
Proof.
  intros H1 H2 Hq. cbn [sop]. unfold rat_op.
  replace ((0 <? d1) && (0 <? d2)) with true by (symmetry; apply andb_true_intro; split; apply Z.ltb_lt; assumption).
  cbn [negb]. destruct o; try discriminate; cbn [qarith] in Hq; inversion Hq; subst; apply ret_rat_sound.
Qed.

(* ... and it is binding whenever the reduced exact value fits *)
Theorem sop_rat_binding o n1 d1 n2 d2 N D :
  0 < d1 -> 0 < d2 -> qarith o n1 d1 n2 d2 = Some (N, D) -> D <> 0 ->
  in_range true 64 (fst (rnorm N D)) = true -> in_range true 64 (snd (rnorm N D)) = true ->
  exists p, sop o KR64 (Lx [Zx n1; Zx d1]) (Lx [Zx n2; Zx d2]) = SV true p.
Proof.
  intros H1 H2 Hq HD F1 F2. cbn [sop]. unfold rat_op.
  replace ((0 <? d1) && (0 <? d2)) with true by (symmetry; apply andb_true_intro; split; apply Z.ltb_lt; assumption).
  cbn [negb].
  assert (Hr : exists p, ret_rat N D = SV true p).
  { unfold ret_rat. destruct (Z.eqb_spec D 0); [contradiction|]. destruct (rnorm N D) as [n' d']. cbn [fst snd] in F1, F2.
    rewrite F1, F2. cbn. eauto. }
  destruct o; try discriminate; cbn [qarith] in Hq; inversion Hq; subst; exact Hr.
Qed.

(* comparisons of rationals are the order of Q (cross-multiplied; denominators positive) *)
Theorem sop_rat_cmp o n1 d1 n2 d2 :
  0 < d1 -> 0 < d2 -> is_cmp o = true ->
  sop o KR64 (Lx [Zx n1; Zx d1]) (Lx [Zx n2; Zx d2]) = SV true (bool_p (zcmp o (n1 * d2) (n2 * d1))).
Proof.
  intros H1 H2 Ho. cbn [sop]. unfold rat_op.
  replace ((0 <? d1) && (0 <? d2)) with true by (symmetry; apply andb_true_intro; split; apply Z.ltb_lt; assumption).
  cbn [negb]. rewrite <- cmp_of_zcmp by exact Ho. destruct o; try discriminate; reflexivity.
Qed.
Local Close Scope Z_scope.

(* ------------------------------------------------------------------ *)
(* the known finding: the same-form arm does not compare shapes         *)
(* ------------------------------------------------------------------ *)

(* outside the class the implementation model rejects incompatible shapes *)
Corollary ibop_reject_incompatible {A X} (dflt : X) (vk : vkern) (sc : A -> option X) (f : A -> A -> option X) (a b : operand A) :
  owf a = true -> owf b = true -> pos_shape (oshape a) -> pos_shape (oshape b) ->
  kf_samevec vk sc a b = false -> bshape (oshape a) (oshape b) = None -> ibop dflt vk sc f a b = None.
Proof.
  intros Ha Hb Hpa Hpb Hkf Hs. rewrite ibop_eq_bop by assumption. apply bop_reject_incompatible. exact Hs.
Qed.

(* inside the class the shapes are incompatible (so the property demands an error) *)
Lemma kf_samevec_incompatible {A X} (vk : vkern) (sc : A -> option X) (a b : operand A) :
  pos_shape (oshape a) -> pos_shape (oshape b) ->
  kf_samevec vk sc a b = true -> bshape (oshape a) (oshape b) = None.
Proof.
  intros Hpa Hpb H. pose proof (dispatch_spec _ _ Hpa Hpb) as Hd. unfold kf_samevec in H.
  destruct (dispatch (oshape a) (oshape b)) as [[]|]; try discriminate.
  destruct a as [x|ma]; [discriminate|]. destruct b as [y|mb]; [discriminate|].
  apply andb_prop in H as [H _]. apply negb_true_iff in H.
  destruct Hd as [_ [Heq|Hn]]; [|exact Hn]. cbn [oshape] in Heq. inversion Heq as [[Hr Hc]].
  rewrite Hr, Hc, !Nat.eqb_refl in H. discriminate.
Qed.

(* the witness: `[1 2 3 4] * [1 2 3]` (1x4 with 1x3, both RowDVector) yields [1 4 9 0] *)
Theorem refuted_samevec :
  exists (a b : operand Z) (v : operand Z),
    owf a = true /\ owf b = true /\ pos_shape (oshape a) /\ pos_shape (oshape b) /\
    bshape (oshape a) (oshape b) = None /\ kf_samevec VZip (fun _ : Z => @None Z) a b = true /\
    ibop 0%Z VZip (fun _ => None) (fun x y => Some (x * y)%Z) a b = Some v.
Proof.
  exists (OM (Mat 1 4 [1; 2; 3; 4]%Z)), (OM (Mat 1 3 [1; 2; 3]%Z)), (OM (Mat 1 4 [1; 4; 9; 0]%Z)).
  cbn [oshape pos_shape mrows mcols]. repeat split; try reflexivity; lia.
Qed.

From Coq Require Import Reals.
From Flocq Require Import Core IEEE754.BinarySingleNaN IEEE754.Binary IEEE754.Bits.

(* ------------------------------------------------------------------ *)
(* scalars: IEEE-754 (Flocq)                                           *)
(* ------------------------------------------------------------------ *)

(* the operation on real numbers *)
Definition rop (o : op) (x y : R) : R :=
  match o with
  | Add => (x + y)%R | Sub => (x - y)%R | Mul => (x * y)%R | Div => (x / y)%R
  | _ => 0%R
  end.

Definition is_fop (o : op) : bool := match o with Add | Sub | Mul | Div => true | _ => false end.

(* rounding to nearest even into binary64 / binary32 *)
Definition round64 (r : R) : R := round radix2 (SpecFloat.fexp 53 1024) (round_mode mode_NE) r.
Definition round32 (r : R) : R := round radix2 (SpecFloat.fexp 24 128) (round_mode mode_NE) r.

Lemma b64_bits_roundtrip (z : binary64) : b64_of_bits (bits_of_b64 z) = z.
Proof. exact (binary_float_of_bits_of_binary_float 52 11 eq_refl eq_refl eq_refl z). Qed.

Lemma b32_bits_roundtrip (z : binary32) : b32_of_bits (bits_of_b32 z) = z.
Proof. exact (binary_float_of_bits_of_binary_float 23 8 eq_refl eq_refl eq_refl z). Qed.

Lemma f64_range_ok a b : (0 <= a < 2 ^ 64)%Z -> (0 <= b < 2 ^ 64)%Z ->
  negb ((0 <=? a)%Z && (a <? 2 ^ 64)%Z && (0 <=? b)%Z && (b <? 2 ^ 64)%Z) = false.
Proof.
  intros [A1 A2] [B1 B2]. apply negb_false_iff. repeat (apply andb_true_intro; split);
    first [apply Z.leb_le; assumption | apply Z.ltb_lt; assumption].
Qed.

Lemma f32_range_ok a b : (0 <= a < 2 ^ 32)%Z -> (0 <= b < 2 ^ 32)%Z ->
  negb ((0 <=? a)%Z && (a <? 2 ^ 32)%Z && (0 <=? b)%Z && (b <? 2 ^ 32)%Z) = false.
Proof.
  intros [A1 A2] [B1 B2]. apply negb_false_iff. repeat (apply andb_true_intro; split);
    first [apply Z.leb_le; assumption | apply Z.ltb_lt; assumption].
Qed.

(* + - * / on f64: the result is the binary64 number Flocq's IEEE-754 operation yields; for finite
   operands whose rounded exact result does not overflow it denotes that rounded exact result *)
Theorem sop_f64_ieee o a b :
  is_fop o = true -> (0 <= a < 2 ^ 64)%Z -> (0 <= b < 2 ^ 64)%Z ->
  let x := b64_of_bits a in
  let y := b64_of_bits b in
  exists r, sop o KF64 (Zx a) (Zx b) = SV true (Zx r) /\
    (Binary.is_finite 53 1024 x = true -> Binary.is_finite 53 1024 y = true ->
     (o = Div -> Binary.B2R 53 1024 y <> 0%R) ->
     Rlt_bool (Rabs (round64 (rop o (Binary.B2R 53 1024 x) (Binary.B2R 53 1024 y)))) (bpow radix2 1024) = true ->
     Binary.B2R 53 1024 (b64_of_bits r) = round64 (rop o (Binary.B2R 53 1024 x) (Binary.B2R 53 1024 y)) /\
     Binary.is_finite 53 1024 (b64_of_bits r) = true).
Proof.
  intros Ho Ha Hb x y. cbn [sop]. unfold f64_op. rewrite (f64_range_ok a b Ha Hb). fold x y.
  destruct o; try discriminate; cbn [rop]; eexists; (split; [reflexivity|]);
    intros Fx Fy Hd Hov; rewrite b64_bits_roundtrip; unfold round64 in *.
  - pose proof (Binary.Bplus_correct 53 1024 eq_refl eq_refl binop_nan_pl64 mode_NE x y Fx Fy) as H.
    rewrite Hov in H. destruct H as [H1 [H2 _]]. split; assumption.
  - pose proof (Binary.Bminus_correct 53 1024 eq_refl eq_refl binop_nan_pl64 mode_NE x y Fx Fy) as H.
    rewrite Hov in H. destruct H as [H1 [H2 _]]. split; assumption.
  - pose proof (Binary.Bmult_correct 53 1024 eq_refl eq_refl binop_nan_pl64 mode_NE x y) as H.
    rewrite Hov in H. destruct H as [H1 [H2 _]]. split; [assumption|]. unfold b64_mult. rewrite H2, Fx, Fy. reflexivity.
  - pose proof (Binary.Bdiv_correct 53 1024 eq_refl eq_refl binop_nan_pl64 mode_NE x y (Hd eq_refl)) as H.
    rewrite Hov in H. destruct H as [H1 [H2 _]]. split; [assumption|]. unfold b64_div. rewrite H2. exact Fx.
Qed.

Theorem sop_f32_ieee o a b :
  is_fop o = true -> (0 <= a < 2 ^ 32)%Z -> (0 <= b < 2 ^ 32)%Z ->
  let x := b32_of_bits a in
  let y := b32_of_bits b in
  exists r, sop o KF32 (Zx a) (Zx b) = SV true (Zx r) /\
    (Binary.is_finite 24 128 x = true -> Binary.is_finite 24 128 y = true ->
     (o = Div -> Binary.B2R 24 128 y <> 0%R) ->
     Rlt_bool (Rabs (round32 (rop o (Binary.B2R 24 128 x) (Binary.B2R 24 128 y)))) (bpow radix2 128) = true ->
     Binary.B2R 24 128 (b32_of_bits r) = round32 (rop o (Binary.B2R 24 128 x) (Binary.B2R 24 128 y)) /\
     Binary.is_finite 24 128 (b32_of_bits r) = true).
Proof.
  intros Ho Ha Hb x y. cbn [sop]. unfold f32_op. rewrite (f32_range_ok a b Ha Hb). fold x y.
  destruct o; try discriminate; cbn [rop]; eexists; (split; [reflexivity|]);
    intros Fx Fy Hd Hov; rewrite b32_bits_roundtrip; unfold round32 in *.
  - pose proof (Binary.Bplus_correct 24 128 eq_refl eq_refl binop_nan_pl32 mode_NE x y Fx Fy) as H.
    rewrite Hov in H. destruct H as [H1 [H2 _]]. split; assumption.
  - pose proof (Binary.Bminus_correct 24 128 eq_refl eq_refl binop_nan_pl32 mode_NE x y Fx Fy) as H.
    rewrite Hov in H. destruct H as [H1 [H2 _]]. split; assumption.
  - pose proof (Binary.Bmult_correct 24 128 eq_refl eq_refl binop_nan_pl32 mode_NE x y) as H.
    rewrite Hov in H. destruct H as [H1 [H2 _]]. split; [assumption|]. unfold b32_mult. rewrite H2, Fx, Fy. reflexivity.
  - pose proof (Binary.Bdiv_correct 24 128 eq_refl eq_refl binop_nan_pl32 mode_NE x y (Hd eq_refl)) as H.
    rewrite Hov in H. destruct H as [H1 [H2 _]]. split; [assumption|]. unfold b32_div. rewrite H2. exact Fx.
Qed.

(* unary minus on floats is exact negation *)
Theorem sop_f64_neg a b : (0 <= a < 2 ^ 64)%Z -> (0 <= b < 2 ^ 64)%Z ->
  exists r, sop Neg KF64 (Zx a) (Zx b) = SV true (Zx r) /\
            Binary.B2R 53 1024 (b64_of_bits r) = (- Binary.B2R 53 1024 (b64_of_bits a))%R.
Proof.
  intros Ha Hb. cbn [sop]. unfold f64_op. rewrite (f64_range_ok a b Ha Hb). eexists. split; [reflexivity|].
  rewrite b64_bits_roundtrip. apply Binary.B2R_Bopp.
Qed.

(* comparisons of finite floats are the order of the reals they denote; with a NaN only != holds *)
Theorem sop_f64_cmp o a b :
  is_cmp o = true -> (0 <= a < 2 ^ 64)%Z -> (0 <= b < 2 ^ 64)%Z ->
  let x := b64_of_bits a in
  let y := b64_of_bits b in
  (Binary.is_finite 53 1024 x = true -> Binary.is_finite 53 1024 y = true ->
   sop o KF64 (Zx a) (Zx b) = SV true (bool_p (cmp_of o (Rcompare (Binary.B2R 53 1024 x) (Binary.B2R 53 1024 y))))) /\
  (Binary.is_nan 53 1024 x = true \/ Binary.is_nan 53 1024 y = true ->
   sop o KF64 (Zx a) (Zx b) = SV true (bool_p (match o with Ne => true | _ => false end))).
Proof.
  intros Ho Ha Hb x y. cbn [sop]. unfold f64_op. rewrite (f64_range_ok a b Ha Hb). fold x y. split.
  - intros Fx Fy. unfold b64_compare. rewrite (Binary.Bcompare_correct 53 1024 x y Fx Fy).
    destruct o; try discriminate; reflexivity.
  - intros Hn. assert (Hc : b64_compare x y = None).
    { unfold b64_compare. destruct Hn as [Hn|Hn].
      - destruct x; try discriminate. reflexivity.
      - destruct y; try discriminate. destruct x; reflexivity. }
    rewrite Hc. destruct o; try discriminate; reflexivity.
Qed.

Theorem sop_f32_cmp o a b :
  is_cmp o = true -> (0 <= a < 2 ^ 32)%Z -> (0 <= b < 2 ^ 32)%Z ->
  let x := b32_of_bits a in
  let y := b32_of_bits b in
  (Binary.is_finite 24 128 x = true -> Binary.is_finite 24 128 y = true ->
   sop o KF32 (Zx a) (Zx b) = SV true (bool_p (cmp_of o (Rcompare (Binary.B2R 24 128 x) (Binary.B2R 24 128 y))))) /\
  (Binary.is_nan 24 128 x = true \/ Binary.is_nan 24 128 y = true ->
   sop o KF32 (Zx a) (Zx b) = SV true (bool_p (match o with Ne => true | _ => false end))).
Proof.
  intros Ho Ha Hb x y. cbn [sop]. unfold f32_op. rewrite (f32_range_ok a b Ha Hb). fold x y. split.
  - intros Fx Fy. unfold b32_compare. rewrite (Binary.Bcompare_correct 24 128 x y Fx Fy).
    destruct o; try discriminate; reflexivity.
  - intros Hn. assert (Hc : b32_compare x y = None).
    { unfold b32_compare. destruct Hn as [Hn|Hn].
      - destruct x; try discriminate. reflexivity.
      - destruct y; try discriminate. destruct x; reflexivity. }
    rewrite Hc. destruct o; try discriminate; reflexivity.
Qed.

(* the scalar model as a partial function on payloads (binding or advisory prediction) *)
Definition sopf (o : op) (k : kind) (x y : sx) : option sx :=
  match sop o k x y with SV _ p => Some p | _ => None end.

(* the kind table and the scalar model agree: no arm <-> SRej *)
Theorem sop_rej_iff_not_accepts o sg w a b :
  in_range sg w a = true -> in_range sg w b = true ->
  (sop o (KInt sg w) (Zx a) (Zx b) = SRej <-> accepts o (KInt sg w) = false).
Proof.
  intros Ha Hb. cbn [sop]. rewrite Ha, Hb. cbn [andb].
  destruct o; cbn [int_op accepts]; unfold ret_int;
    repeat match goal with
    | |- context [if ?c then _ else _] => destruct c eqn:?
    end; cbn; split; intros H; try discriminate; try reflexivity;
    try (destruct sg; discriminate).
  all: try (apply andb_false_iff in H; destruct H as [H|H];
            [apply negb_false_iff in H; subst sg; discriminate|]).
  all: try (apply orb_false_iff in Heqb0; destruct Heqb0 as [-> Hw]; cbn in H;
            apply Z.leb_gt in H; apply Z.ltb_ge in Hw; lia).
  all: try (apply orb_prop in Heqb0; destruct Heqb0 as [->|Hw]; [reflexivity|];
            apply andb_false_iff; right; apply Z.leb_gt; apply Z.ltb_lt in Hw; exact Hw).
Qed.
