(* C02 — lemmas and theorems about Model/Formula.v *)
From Coq Require Import List Arith ZArith String Bool Lia.
From MechV Require Import Base.Sexp Base.Obs Gen.Levels Model.Formula.
Import ListNotations.
Open Scope list_scope.

(* ================================================================== *)
(* 1. the generated level table against the documented classes        *)
(* ================================================================== *)
Lemma lvl_is_crank : forall o, lvl o = crank o.
Proof. destruct o; vm_compute; reflexivity. Qed.

Lemma nlevels_7 : nlevels = 7.
Proof. vm_compute. reflexivity. Qed.

Lemma crank_range : forall o, 1 <= crank o <= 7.
Proof. destruct o; vm_compute; lia. Qed.

Lemma rank_inj : forall a b, rank a = rank b -> a = b.
Proof. destruct a, b; simpl; intros H; try reflexivity; discriminate H. Qed.

(* the shape of the grammar the model relies on, as read from the source by the translator *)
Fixpoint chain_ok (entry : string) (chain : list (string * string)) : bool :=
  match chain with
  | [] => String.eqb entry "factor"
  | (a, b) :: rest => andb (String.eqb entry a) (chain_ok b rest)
  end.

Definition grammar_shape_ok : bool :=
  andb (chain_ok formula_entry level_chain)                                    (* formula := l1; lN := lN+1 ...; l7 := factor ... *)
 (andb (Nat.eqb (List.length level_chain) (List.length level_rows))
 (andb (forallb (fun s => match binop_of_name s with Some _ => true | None => false end) (List.concat level_rows))
 (andb (forallb (fun p => String.eqb (snd p) "factor") prefix_operand)          (* "-" and "!" take a factor *)
 (andb (existsb (String.eqb "negate_factor") (map fst prefix_operand))
 (andb (existsb (String.eqb "not_factor") (map fst prefix_operand))
 (andb (existsb (String.eqb "parenthetical_term") factor_alternatives)
 (andb (String.eqb paren_inner "formula")                                       (* ( formula ) *)
 (andb factor_postfix_transpose
       (String.eqb term_fold "left"))))))))).

Lemma grammar_shape : grammar_shape_ok = true.
Proof. vm_compute. reflexivity. Qed.

Theorem levels_refine_spec :
  (forall o, lvl o = rank (class_of o)) /\
  (forall o1 o2, (lvl o1 < lvl o2 <-> rank (class_of o1) < rank (class_of o2)) /\
                 (lvl o1 = lvl o2 <-> class_of o1 = class_of o2)) /\
  nlevels = 7 /\ grammar_shape_ok = true.
Proof.
  split; [exact lvl_is_crank|]. split; [|split; [exact nlevels_7 | exact grammar_shape]].
  intros o1 o2. rewrite !lvl_is_crank. unfold crank. split; [reflexivity|].
  split; [apply rank_inj | intros ->; reflexivity].
Qed.

(* ================================================================== *)
(* 2. recursive descent = declarative precedence, on flat sequences    *)
(* ================================================================== *)
Definition all_ge (c : nat) (r : oseq) : Prop := Forall (fun ot => c <= crank (fst ot)) r.
Definition all_gt (c : nat) (r : oseq) : Prop := Forall (fun ot => c < crank (fst ot)) r.

Lemma all_gt_ge : forall c r, all_gt c r -> all_ge c r.
Proof. intros c r H. eapply Forall_impl; [|exact H]. simpl. intros; lia. Qed.

Lemma all_ge_mono : forall c c' r, c' <= c -> all_ge c r -> all_ge c' r.
Proof. intros c c' r Hc H. eapply Forall_impl; [|exact H]. simpl. intros; lia. Qed.

Lemma all_ge_gt : forall c c' r, c' < c -> all_ge c r -> all_gt c' r.
Proof. intros c c' r Hc H. eapply Forall_impl; [|exact H]. simpl. intros; lia. Qed.

Lemma all_gt_mono : forall c c' r, c' <= c -> all_gt c r -> all_gt c' r.
Proof. intros c c' r Hc H. eapply Forall_impl; [|exact H]. simpl. intros; lia. Qed.

(* ---- the implementation side ---- *)
Lemma segs_ext : forall lv1 lv2, (forall o, lv1 o = lv2 o) ->
  forall n r x, segs lv1 n x r = segs lv2 n x r.
Proof.
  intros lv1 lv2 E n r. induction r as [|[op y] r IH]; intros x; simpl; [reflexivity|].
  rewrite IH, E. reflexivity.
Qed.

Lemma rd_level_ext : forall lv1 lv2, (forall o, lv1 o = lv2 o) ->
  forall k n x r, rd_level lv1 k n x r = rd_level lv2 k n x r.
Proof.
  intros lv1 lv2 E k. induction k as [|k IH]; intros n x r; simpl; [reflexivity|].
  rewrite (segs_ext lv1 lv2 E). destruct (segs lv2 n x r) as [s0 ss].
  rewrite IH. f_equal. apply map_ext. intros os. rewrite IH. reflexivity.
Qed.

Lemma segs_tight : forall n r x, all_gt n r -> segs crank n x r = ((x, r), []).
Proof.
  intros n r. induction r as [|[op y] r IH]; intros x H; simpl; [reflexivity|].
  inversion H as [|? ? Hop Hr]; subst. simpl in Hop.
  rewrite (IH y Hr). destruct (Nat.leb_spec (crank op) n) as [Hl|Hl]; [lia|]. reflexivity.
Qed.

Lemma segs_app : forall n op y r2, crank op <= n -> all_gt n r2 ->
  forall r1 x, segs crank n x (r1 ++ (op, y) :: r2) =
               (fst (segs crank n x r1), snd (segs crank n x r1) ++ [(op, (y, r2))]).
Proof.
  intros n op y r2 Hop H2 r1. induction r1 as [|[o1 y1] r1 IH]; intros x; simpl.
  - rewrite (segs_tight n r2 y H2). destruct (Nat.leb_spec (crank op) n) as [Hl|Hl]; [reflexivity|lia].
  - rewrite IH. destruct (segs crank n y1 r1) as [s0 ss]. simpl.
    destruct (Nat.leb (crank o1) n); reflexivity.
Qed.

Lemma rd_level_nil : forall lv k n x, rd_level lv k n x [] = x.
Proof. intros lv k. induction k as [|k IH]; intros n x; simpl; [reflexivity|]. apply IH. Qed.

Lemma rd_level_tight : forall k n x r, all_gt n r ->
  rd_level crank (S k) n x r = rd_level crank k (S n) x r.
Proof. intros k n x r H. simpl. rewrite (segs_tight n r x H). reflexivity. Qed.

Lemma rd_level_split : forall k n x r1 op y r2, crank op <= n -> all_gt n r2 ->
  rd_level crank (S k) n x (r1 ++ (op, y) :: r2) =
  TBin op (rd_level crank (S k) n x r1) (rd_level crank k (S n) y r2).
Proof.
  intros k n x r1 op y r2 Hop H2. simpl.
  rewrite (segs_app n op y r2 Hop H2 r1 x). destruct (segs crank n x r1) as [s0 ss]. simpl.
  unfold fold_term. rewrite map_app, fold_left_app. reflexivity.
Qed.

(* the root equation for the parser: the last operator of the loosest level present is applied last *)
Lemma rd_level_root : forall k n x r1 op y r2,
  n <= crank op < n + k -> all_ge (crank op) r1 -> all_gt (crank op) r2 ->
  rd_level crank k n x (r1 ++ (op, y) :: r2) =
  TBin op (rd_level crank k n x r1) (rd_level crank k n y r2).
Proof.
  induction k as [|k IH]; intros n x r1 op y r2 Hr H1 H2; [lia|].
  destruct (Nat.eq_dec (crank op) n) as [E|NE].
  - rewrite rd_level_split by (rewrite <- ?E; auto; lia).
    rewrite (rd_level_tight k n y r2) by (rewrite <- E; exact H2). reflexivity.
  - assert (Hlt : n < crank op) by lia.
    assert (G1 : all_gt n r1) by (eapply all_ge_gt; eauto).
    assert (G2 : all_gt n r2) by (eapply all_gt_mono; [|exact H2]; lia).
    assert (G : all_gt n (r1 ++ (op, y) :: r2)).
    { apply Forall_app. split; [exact G1|]. constructor; [simpl; lia | exact G2]. }
    rewrite !rd_level_tight by assumption.
    apply IH; [lia | assumption | assumption].
Qed.

(* ---- the specification side ---- *)
Lemma split_last_none : forall m r x,
  Forall (fun ot => crank (fst ot) <> m) r -> split_last m x r = None.
Proof.
  intros m r. induction r as [|[op y] r IH]; intros x H; simpl; [reflexivity|].
  inversion H as [|? ? Hop Hr]; subst. simpl in Hop. rewrite (IH y Hr).
  destruct (Nat.eqb_spec (crank op) m); [contradiction | reflexivity].
Qed.

Lemma split_last_app : forall m op y r2, crank op = m ->
  Forall (fun ot => crank (fst ot) <> m) r2 ->
  forall r1 x, split_last m x (r1 ++ (op, y) :: r2) = Some ((x, r1), op, (y, r2)).
Proof.
  intros m op y r2 E H2 r1. induction r1 as [|[o1 y1] r1 IH]; intros x; simpl.
  - rewrite (split_last_none m r2 y H2). rewrite E, Nat.eqb_refl. reflexivity.
  - rewrite IH. reflexivity.
Qed.

Lemma min_rank_ge : forall c r, all_ge c r -> c <= 8 -> c <= min_rank r.
Proof.
  intros c r H Hc. induction H as [|[op y] r Hop Hr IH]; simpl; [exact Hc|].
  simpl in Hop. lia.
Qed.

Lemma min_rank_app : forall op y r1 r2, all_ge (crank op) r1 -> all_gt (crank op) r2 ->
  min_rank (r1 ++ (op, y) :: r2) = crank op.
Proof.
  intros op y r1 r2 H1 H2. pose proof (crank_range op) as Hc.
  induction H1 as [|[o1 y1] r1 Hop Hr IH]; simpl.
  - pose proof (min_rank_ge (crank op) r2 (all_gt_ge _ _ H2)). lia.
  - simpl in Hop. rewrite IH. lia.
Qed.

Lemma spec_fuel_S : forall f x r, r <> [] ->
  spec_fuel (S f) x r =
  match split_last (min_rank r) x r with
  | Some (l, o, rt) => TBin o (spec_fuel f (fst l) (snd l)) (spec_fuel f (fst rt) (snd rt))
  | None => x
  end.
Proof. intros f x r H. destruct r; [contradiction|]. reflexivity. Qed.

Lemma spec_fuel_nil : forall f x, spec_fuel f x [] = x.
Proof. destruct f; reflexivity. Qed.

Lemma spec_step : forall f x r1 op y r2, all_ge (crank op) r1 -> all_gt (crank op) r2 ->
  spec_fuel (S f) x (r1 ++ (op, y) :: r2) = TBin op (spec_fuel f x r1) (spec_fuel f y r2).
Proof.
  intros f x r1 op y r2 H1 H2.
  rewrite spec_fuel_S by (intros E; apply app_eq_nil in E; destruct E; discriminate).
  rewrite (min_rank_app op y r1 r2 H1 H2).
  rewrite (split_last_app (crank op) op y r2 eq_refl).
  - reflexivity.
  - eapply Forall_impl; [|exact H2]. simpl. intros; lia.
Qed.

(* every non-empty sequence has a last operator of the loosest rank present *)
Lemma decomp : forall r : oseq, r <> [] ->
  exists r1 op y r2, r = r1 ++ (op, y) :: r2 /\ all_ge (crank op) r1 /\ all_gt (crank op) r2.
Proof.
  induction r as [|[o1 y1] r IH]; intros H; [contradiction|].
  destruct r as [|p r'].
  - exists [], o1, y1, []. repeat split; constructor.
  - destruct IH as (r1 & op & y & r2 & E & H1 & H2); [discriminate|].
    destruct (le_lt_dec (crank op) (crank o1)) as [Hle|Hlt].
    + exists ((o1, y1) :: r1), op, y, r2. rewrite E. repeat split; [|exact H2].
      constructor; [exact Hle | exact H1].
    + exists [], o1, y1, (p :: r'). rewrite E. repeat split; [constructor|].
      apply Forall_app. split; [eapply all_ge_gt; eauto|].
      constructor; [simpl; exact Hlt | eapply all_gt_mono; [|exact H2]; lia].
Qed.

Lemma rd_spec_fuel : forall n x r f, List.length r <= n -> List.length r <= f ->
  rd_level crank 7 1 x r = spec_fuel f x r.
Proof.
  induction n as [|n IH]; intros x r f Hn Hf.
  - destruct r; [|simpl in Hn; lia]. rewrite rd_level_nil, spec_fuel_nil. reflexivity.
  - destruct r as [|p r']; [rewrite rd_level_nil, spec_fuel_nil; reflexivity|].
    destruct (decomp (p :: r')) as (r1 & op & y & r2 & E & H1 & H2); [discriminate|].
    destruct f as [|f]; [simpl in Hf; lia|].
    assert (L : List.length r1 + S (List.length r2) = List.length (p :: r')).
    { rewrite E, app_length. reflexivity. }
    rewrite E. pose proof (crank_range op).
    rewrite rd_level_root by (auto; lia). rewrite spec_step by assumption.
    f_equal; apply IH; lia.
Qed.

Lemma rd_seq_is_level : forall x r, rd_seq x r = rd_level crank 7 1 x r.
Proof.
  intros x r. unfold rd_seq, rd_seq_with. rewrite nlevels_7. apply rd_level_ext. exact lvl_is_crank.
Qed.

Theorem rd_seq_spec : forall x r, rd_seq x r = spec_seq x r.
Proof. intros x r. rewrite rd_seq_is_level. unfold spec_seq. apply (rd_spec_fuel (List.length r)); lia. Qed.

Lemma spec_fuel_enough : forall f x r, List.length r <= f -> spec_fuel f x r = spec_seq x r.
Proof.
  intros f x r H. unfold spec_seq.
  rewrite <- (rd_spec_fuel (List.length r) x r f) by lia.
  rewrite <- (rd_spec_fuel (List.length r) x r (List.length r)) by lia. reflexivity.
Qed.

(* the declarative reading of the precedence table: these two equations determine spec_seq *)
Theorem spec_seq_nil : forall x, spec_seq x [] = x.
Proof. reflexivity. Qed.

Theorem spec_seq_root : forall x r1 op y r2, all_ge (crank op) r1 -> all_gt (crank op) r2 ->
  spec_seq x (r1 ++ (op, y) :: r2) = TBin op (spec_seq x r1) (spec_seq y r2).
Proof.
  intros x r1 op y r2 H1 H2. unfold spec_seq at 1.
  rewrite app_length. simpl List.length. rewrite Nat.add_succ_r.
  rewrite spec_step by assumption.
  rewrite !spec_fuel_enough by lia. reflexivity.
Qed.

(* ... and nothing else satisfies them: the declarative reading is well defined *)
Theorem spec_seq_unique : forall g : tree -> oseq -> tree,
  (forall x, g x [] = x) ->
  (forall x r1 op y r2, all_ge (crank op) r1 -> all_gt (crank op) r2 ->
     g x (r1 ++ (op, y) :: r2) = TBin op (g x r1) (g y r2)) ->
  forall x r, g x r = spec_seq x r.
Proof.
  intros g G0 G1.
  assert (H : forall n x r, List.length r <= n -> g x r = spec_seq x r).
  { induction n as [|n IH]; intros x r Hn.
    - destruct r; [apply G0 | simpl in Hn; lia].
    - destruct r as [|p r']; [apply G0|].
      destruct (decomp (p :: r')) as (r1 & op & y & r2 & E & H1 & H2); [discriminate|].
      assert (L : List.length r1 + S (List.length r2) = List.length (p :: r')).
      { rewrite E, app_length. reflexivity. }
      rewrite E. rewrite G1, spec_seq_root by assumption.
      f_equal; apply IH; simpl in *; lia. }
  intros x r. apply (H (List.length r)). apply le_n.
Qed.

Lemma rd_seq_root : forall x r1 op y r2, all_ge (crank op) r1 -> all_gt (crank op) r2 ->
  rd_seq x (r1 ++ (op, y) :: r2) = TBin op (rd_seq x r1) (rd_seq y r2).
Proof. intros. rewrite !rd_seq_spec. apply spec_seq_root; assumption. Qed.

Lemma rd_seq_nil : forall x, rd_seq x [] = x.
Proof. intros. rewrite rd_seq_spec. reflexivity. Qed.

(* operators of one class group left to right (including ^) *)
Theorem spec_same_class_left : forall c x r,
  Forall (fun ot => crank (fst ot) = c) r -> spec_seq x r = fold_term x r.
Proof.
  intros c x r. induction r as [|[op y] r IH] using rev_ind; intros H; [reflexivity|].
  apply Forall_app in H. destruct H as [Hr Hop]. apply Forall_inv in Hop. simpl in Hop. rename Hop into Hc.
  rewrite spec_seq_root.
  - rewrite (IH Hr). unfold fold_term. rewrite fold_left_app. reflexivity.
  - eapply Forall_impl; [|exact Hr]. simpl. intros a Ha. rewrite Ha, Hc. apply le_n.
  - constructor.
Qed.

(* ================================================================== *)
(* 3. whole formulas (all nestings)                                   *)
(* ================================================================== *)
Scheme operand_mind := Induction for operand Sort Prop
  with formula_mind := Induction for formula Sort Prop.
Combined Scheme syntax_mutind from operand_mind, formula_mind.

Lemma build_operand_atom : forall s pre a tr, build_operand s (OAtom pre a tr) = wrap pre tr (TAtom a).
Proof. reflexivity. Qed.
Lemma build_operand_paren : forall s pre f tr,
  build_operand s (OParen pre f tr) = wrap pre tr (let '(x, r) := flat s f in s x r).
Proof. reflexivity. Qed.
Lemma flat_one : forall s o, flat s (FOne o) = (build_operand s o, []).
Proof. reflexivity. Qed.
Lemma flat_cons : forall s o op f,
  flat s (FCons o op f) = (let '(x, r) := flat s f in (build_operand s o, (op, x) :: r)).
Proof. reflexivity. Qed.

Lemma build_ext_mut : forall s1 s2 : tree -> oseq -> tree, (forall x r, s1 x r = s2 x r) ->
  (forall o, build_operand s1 o = build_operand s2 o) /\ (forall f, flat s1 f = flat s2 f).
Proof.
  intros s1 s2 E. apply syntax_mutind.
  - intros pre a tr. reflexivity.
  - intros pre f IH tr. rewrite !build_operand_paren. rewrite IH. destruct (flat s2 f) as [x r]. rewrite E. reflexivity.
  - intros o IH. rewrite !flat_one. rewrite IH. reflexivity.
  - intros o IHo op f IHf. rewrite !flat_cons. rewrite IHo, IHf. reflexivity.
Qed.

Lemma build_ext : forall s1 s2 : tree -> oseq -> tree, (forall x r, s1 x r = s2 x r) ->
  forall f, build s1 f = build s2 f.
Proof.
  intros s1 s2 E f. unfold build. rewrite (proj2 (build_ext_mut s1 s2 E) f).
  destruct (flat s2 f) as [x r]. apply E.
Qed.

(* THE refinement theorem: the recursive-descent parser with the generated level table, followed by term()'s
   left fold, builds exactly the tree the documented precedence classes prescribe — all lengths, all nestings *)
Theorem rd_refines_spec : forall f, rd f = spec_tree f.
Proof. intros f. unfold rd, rd_with, spec_tree. apply build_ext. exact rd_seq_spec. Qed.

Corollary eval_agree : forall (V : Type) (evalf : tree -> V) f, evalf (rd f) = evalf (spec_tree f).
Proof. intros. rewrite rd_refines_spec. reflexivity. Qed.

(* ---- inserting parentheses never changes the tree; explicit parentheses always win ---- *)
Fixpoint top_ops (f : formula) : list binop :=
  match f with FOne _ => [] | FCons _ op f' => op :: top_ops f' end.

Lemma flat_tops : forall s f, map fst (snd (flat s f)) = top_ops f.
Proof.
  intros s f. induction f as [o|o op f IH]; [reflexivity|].
  rewrite flat_cons. destruct (flat s f) as [x r]. simpl in *. rewrite IH. reflexivity.
Qed.

Lemma flat_fapp : forall s g op f,
  flat s (fapp g op f) = (fst (flat s g), snd (flat s g) ++ (op, fst (flat s f)) :: snd (flat s f)).
Proof.
  intros s g op f. induction g as [o|o p g IH]; simpl fapp.
  - rewrite flat_cons, flat_one. destruct (flat s f) as [x r]. reflexivity.
  - rewrite !flat_cons. rewrite IH. destruct (flat s g) as [x r]. reflexivity.
Qed.

Lemma top_ops_fapp : forall g op f, top_ops (fapp g op f) = top_ops g ++ op :: top_ops f.
Proof. intros g op f. induction g as [o|o p g IH]; simpl; [reflexivity|]. rewrite IH. reflexivity. Qed.

Lemma build_one : forall o, build rd_seq (FOne o) = build_operand rd_seq o.
Proof. intros o. unfold build. rewrite flat_one. apply rd_seq_nil. Qed.

Lemma build_paren : forall pre g tr,
  build rd_seq (FOne (OParen pre g tr)) = wrap pre tr (build rd_seq g).
Proof. intros. rewrite build_one. reflexivity. Qed.

Lemma build_as_operand : forall g, build_operand rd_seq (as_operand g) = build rd_seq g.
Proof.
  intros g. destruct g as [o|o op f]; simpl as_operand.
  - rewrite build_one. reflexivity.
  - reflexivity.
Qed.

Lemma build_push_un : forall u o, build_operand rd_seq (push_un u o) = TUn u (build_operand rd_seq o).
Proof. intros u o. destruct o; reflexivity. Qed.

Lemma build_fapp : forall g op f,
  Forall (fun o => crank op <= crank o) (top_ops g) ->
  Forall (fun o => crank op < crank o) (top_ops f) ->
  build rd_seq (fapp g op f) = TBin op (build rd_seq g) (build rd_seq f).
Proof.
  intros g op f Hg Hf. unfold build. rewrite flat_fapp.
  pose proof (flat_tops rd_seq g) as Tg. pose proof (flat_tops rd_seq f) as Tf.
  destruct (flat rd_seq g) as [xg rg]. destruct (flat rd_seq f) as [xf rf]. simpl in *.
  apply rd_seq_root.
  - unfold all_ge. apply Forall_forall. intros [o t] Hin. simpl. rewrite Forall_forall in Hg. apply Hg.
    rewrite <- Tg. apply in_map_iff. exists (o, t). split; [reflexivity | exact Hin].
  - unfold all_gt. apply Forall_forall. intros [o t] Hin. simpl. rewrite Forall_forall in Hf. apply Hf.
    rewrite <- Tf. apply in_map_iff. exists (o, t). split; [reflexivity | exact Hin].
Qed.

Definition root_rank (t : tree) : nat := match t with TBin op _ _ => crank op | _ => 0 end.

Lemma pf_operand : forall sel d t,
  match t with TBin _ _ _ => True | _ => exists o, pf sel d t = FOne o end.
Proof.
  intros sel d t. destruct t as [a|u t'|t'|op l r]; simpl; [eexists; reflexivity| | |exact I].
  - destruct (sel d); eexists; reflexivity.
  - destruct (pf sel (S d) t') as [[[|u pre] a [|]|pre f tr]|o op f]; try (eexists; reflexivity).
    destruct (sel d); eexists; reflexivity.
Qed.

Lemma side_build : forall force left p c g, build rd_seq (side force left p c g) = build rd_seq g.
Proof.
  intros force left p c g. unfold side.
  destruct c as [a|u t'|t'|cop l r]; try reflexivity.
  - destruct force; [apply build_paren | reflexivity].
  - destruct force; [apply build_paren | reflexivity].
  - destruct (orb force _); [apply build_paren | reflexivity].
Qed.

(* the top-level operators of a child written next to an operator of rank p never regroup *)
Lemma side_tops : forall force (left : bool) p c g,
  match c with TBin _ _ _ => True | _ => exists o, g = FOne o end ->
  Forall (fun o => root_rank c <= crank o) (top_ops g) ->
  Forall (fun o => if left then p <= crank o else p < crank o) (top_ops (side force left p c g)).
Proof.
  intros force left p c g Hop Hg. unfold side.
  destruct c as [a|u t'|t'|cop l r].
  - destruct Hop as [o ->]. constructor.
  - destruct force; [constructor|]. destruct Hop as [o ->]. constructor.
  - destruct force; [constructor|]. destruct Hop as [o ->]. constructor.
  - simpl in Hg. destruct force; simpl orb; [constructor|].
    destruct left.
    + destruct (Nat.leb_spec p (crank cop)) as [H|H]; simpl; [|constructor].
      eapply Forall_impl; [|exact Hg]. simpl. intros; lia.
    + destruct (Nat.ltb_spec p (crank cop)) as [H|H]; simpl; [|constructor].
      eapply Forall_impl; [|exact Hg]. simpl. intros; lia.
Qed.

Lemma pf_correct : forall t sel d,
  build rd_seq (pf sel d t) = t /\ Forall (fun o => root_rank t <= crank o) (top_ops (pf sel d t)).
Proof.
  induction t as [a|u t' IH|t' IH|op l IHl r IHr]; intros sel d.
  - split; [reflexivity | constructor].
  - simpl. destruct (IH sel (S d)) as [B _]. destruct (sel d).
    + split; [|constructor]. rewrite build_paren, B. reflexivity.
    + split; [|constructor]. rewrite build_one, build_push_un, build_as_operand, B. reflexivity.
  - simpl. destruct (IH sel (S d)) as [B _].
    destruct (pf sel (S d) t') as [[[|u pre] a [|]|pre f tr]|o op f];
      try (split; [rewrite build_paren, B; reflexivity | constructor]).
    rewrite build_one in B. simpl in B.
    destruct (sel d); (split; [|constructor]).
    + rewrite build_paren, build_one. simpl. rewrite <- B. reflexivity.
    + rewrite build_one. simpl. rewrite <- B. reflexivity.
  - destruct (IHl sel (S d)) as [Bl Tl]. destruct (IHr sel (S d)) as [Br Tr].
    pose proof (side_tops (sel d) true (crank op) l (pf sel (S d) l) (pf_operand sel (S d) l) Tl) as Sl.
    pose proof (side_tops (sel d) false (crank op) r (pf sel (S d) r) (pf_operand sel (S d) r) Tr) as Sr.
    simpl in Sl, Sr. simpl pf. split.
    + rewrite build_fapp by assumption. rewrite !side_build, Bl, Br. reflexivity.
    + rewrite top_ops_fapp. simpl root_rank. apply Forall_app. split.
      * exact Sl.
      * constructor; [apply le_n|]. eapply Forall_impl; [|exact Sr]. simpl. intros; lia.
Qed.

(* for EVERY tree t (i.e. whatever grouping one wants) and every choice of additional implied parentheses,
   writing t with parentheses and parsing it back gives t: explicit parentheses always override the levels *)
Theorem paren_override_gen : forall sel d t, rd (pf sel d t) = t.
Proof. intros sel d t. unfold rd, rd_with. exact (proj1 (pf_correct t sel d)). Qed.

Theorem paren_override : forall t, rd (paren_full t) = t.
Proof. intros t. apply paren_override_gen. Qed.

Theorem paren_min_roundtrip : forall t, rd (paren_min t) = t.
Proof. intros t. apply paren_override_gen. Qed.

Lemma choose_bands_sound : forall fuel m t g, In g (choose_bands fuel m t) -> rd g = t.
Proof.
  induction fuel as [|fuel IH]; intros m t g H; simpl in H.
  - unfold bands in H. apply in_map_iff in H. destruct H as (k & <- & _). apply paren_override_gen.
  - destruct (forallb _ (bands m t)).
    + unfold bands in H. apply in_map_iff in H. destruct H as (k & <- & _). apply paren_override_gen.
    + eapply IH; exact H.
Qed.

(* every text submitted as "e with parentheses inserted" has, under the documented rules, the tree of e *)
Theorem paren_texts_sound : forall f g, In g (paren_texts (rd f)) -> spec_tree g = spec_tree f.
Proof.
  intros f g H. rewrite <- !rd_refines_spec. eapply choose_bands_sound; exact H.
Qed.

(* ================================================================== *)
(* 4. the judge                                                       *)
(* ================================================================== *)
(* what an `ok` verdict asserts about the implementation's observations: oe of e, ops of the parenthesised texts *)
Definition C02_spec (f : formula) (oe : sx) (ops : list sx) : Prop :=
  (forall o, In o ops -> obs_agree oe o = true) /\
  (forall v, ev (spec_tree f) = Some v -> matches v oe = true /\ forall o, In o ops -> matches v o = true).

Lemma ok_not_bad : forall tag why e, v_ok tag <> v_bad why e.
Proof. intros tag why e H. discriminate H. Qed.
Lemma ok_not_adv : forall tag t, v_ok tag <> v_adv t.
Proof. intros tag t H. discriminate H. Qed.

Theorem judge_sound : forall f oe ops oa tag, judge_obs f oe ops oa = v_ok tag -> C02_spec f oe ops.
Proof.
  intros f oe ops oa tag H. unfold judge_obs in H. rewrite rd_refines_spec in H. unfold C02_spec.
  destruct (ev (spec_tree f)) as [v|] eqn:E.
  - destruct (andb (andb (matches v oe) (forallb (matches v) ops)) (forallb (same_value oe) ops)) eqn:C;
      [|exfalso; eapply ok_not_bad; symmetry; exact H].
    apply andb_true_iff in C. destruct C as [C Cs]. apply andb_true_iff in C. destruct C as [Ce Co].
    rewrite forallb_forall in Co, Cs. split.
    + intros o Ho. unfold obs_agree. rewrite (Cs o Ho). apply orb_true_r.
    + intros v' Hv. inversion Hv; subst v'. split; [exact Ce | exact Co].
  - split; [|intros v Hv; discriminate Hv].
    destruct (andb (is_perr oe) (forallb is_perr ops)); [exfalso; eapply ok_not_adv; symmetry; exact H|].
    destruct (andb (is_err oe) (forallb is_err ops)) eqn:Ce.
    + apply andb_true_iff in Ce. destruct Ce as [C1 C2]. rewrite forallb_forall in C2.
      intros o Ho. unfold obs_agree. rewrite C1, (C2 o Ho). reflexivity.
    + destruct (forallb (same_value oe) ops) eqn:Cs; [|exfalso; eapply ok_not_bad; symmetry; exact H].
      rewrite forallb_forall in Cs. intros o Ho. unfold obs_agree. rewrite (Cs o Ho). apply orb_true_r.
Qed.

(* ================================================================== *)
(* 5. examples                                                        *)
(* ================================================================== *)
Definition num (n : Z) : operand := OAtom [] (ANum n) false.

Example pow_left_assoc :
  rd (FCons (num 2) OPow (FCons (num 3) OPow (FOne (num 2)))) =
    TBin OPow (TBin OPow (TAtom (ANum 2)) (TAtom (ANum 3))) (TAtom (ANum 2))
  /\ ev (rd (FCons (num 2) OPow (FCons (num 3) OPow (FOne (num 2))))) = Some (VN 64).
Proof. split; vm_compute; reflexivity. Qed.

(* -2 ^ 2 : unary minus binds tighter than ^ *)
Example neg_binds_tighter_than_pow :
  ev (rd (FCons (OAtom [UNeg] (ANum 2) false) OPow (FOne (num 2)))) = Some (VN 4).
Proof. vm_compute. reflexivity. Qed.

(* 1 + 2 * 3 ^ 2 < 30 && true : all five classes *)
Example five_classes_example :
  let f := FCons (num 1) OAdd (FCons (num 2) OMul (FCons (num 3) OPow (FCons (num 2) OLt
           (FCons (num 30) OAnd (FOne (OAtom [] (ABool true) false)))))) in
  show_formula f = "1 + 2 * 3 ^ 2 < 30 && true"%string /\
  show_formula (paren_full (rd f)) = "((1 + (2 * (3 ^ 2))) < 30) && true"%string /\
  ev (rd f) = Some (VB true).
Proof. cbv zeta. repeat split; vm_compute; reflexivity. Qed.

(* ================================================================== *)
(* 6. the token-consuming parser  lN := lN+1, many0(pair(opN, cut(lN+1)))  *)
(*    computes the same tree as the split-based [rd_level]            *)
(* ================================================================== *)
Fixpoint take_ge (c : nat) (r : oseq) : oseq :=
  match r with
  | (op, y) :: r' => if Nat.leb c (crank op) then (op, y) :: take_ge c r' else []
  | [] => []
  end.
Fixpoint drop_ge (c : nat) (r : oseq) : oseq :=
  match r with
  | (op, y) :: r' => if Nat.leb c (crank op) then drop_ge c r' else r
  | [] => []
  end.
(* the parser of level c cannot continue on this input *)
Definition stops (c : nat) (r : oseq) : Prop :=
  match r with [] => True | (op, _) :: _ => crank op < c end.

Lemma take_drop : forall c r, take_ge c r ++ drop_ge c r = r.
Proof.
  intros c r. induction r as [|[op y] r IH]; simpl; [reflexivity|].
  destruct (Nat.leb c (crank op)); simpl; [rewrite IH|]; reflexivity.
Qed.

Lemma take_all_ge : forall c r, all_ge c (take_ge c r).
Proof.
  intros c r. induction r as [|[op y] r IH]; simpl; [constructor|].
  destruct (Nat.leb_spec c (crank op)); constructor; [simpl; lia | exact IH].
Qed.

Lemma drop_stops : forall c r, stops c (drop_ge c r).
Proof.
  intros c r. induction r as [|[op y] r IH]; simpl; [exact I|].
  destruct (Nat.leb_spec c (crank op)); [exact IH | simpl; lia].
Qed.

Lemma take_app_stop : forall c t rest, all_ge c t -> stops c rest ->
  take_ge c (t ++ rest) = t /\ drop_ge c (t ++ rest) = rest.
Proof.
  intros c t rest Ht Hs. induction Ht as [|[op y] t Hop Ht IH]; simpl.
  - destruct rest as [|[op y] rest]; simpl; [split; reflexivity|].
    simpl in Hs. destruct (Nat.leb_spec c (crank op)); [lia | split; reflexivity].
  - simpl in Hop. destruct (Nat.leb_spec c (crank op)); [|lia].
    destruct IH as [E1 E2]. rewrite E1, E2. split; reflexivity.
Qed.

Lemma stops_mono : forall c c' r, c <= c' -> stops c r -> stops c' r.
Proof. intros c c' [|[op y] r] H Hs; simpl in *; [exact I | lia]. Qed.

Lemma stops_app : forall c p rest, stops c p -> stops c rest -> stops c (p ++ rest).
Proof. intros c [|[op y] p] rest Hp Hr; simpl in *; assumption. Qed.

Lemma stops_take : forall c n r, stops c r -> stops c (take_ge n r).
Proof.
  intros c n [|[op y] r] H; simpl in *; [exact I|].
  destruct (Nat.leb n (crank op)); simpl; [exact H | exact I].
Qed.

Definition segs' (n : nat) (p : oseq) : list (binop * (tree * oseq)) :=
  match p with
  | [] => []
  | (o1, y1) :: p1 => (o1, fst (segs crank n y1 p1)) :: snd (segs crank n y1 p1)
  end.

Lemma segs_run : forall n t p x, all_gt n t -> stops (S n) p ->
  segs crank n x (t ++ p) = ((x, t), segs' n p).
Proof.
  intros n t p. induction t as [|[o y] t IH]; intros x Ht Hp; simpl.
  - destruct p as [|[o1 y1] p1]; simpl; [reflexivity|].
    simpl in Hp. destruct (segs crank n y1 p1) as [s0 ss]. simpl.
    destruct (Nat.leb_spec (crank o1) n); [reflexivity | lia].
  - inversion Ht as [|? ? Ho Ht']; subst. simpl in Ho.
    rewrite (IH y Ht' Hp). simpl.
    destruct (Nat.leb_spec (crank o) n); [lia | reflexivity].
Qed.

Definition segF (k n : nat) (os : binop * (tree * oseq)) : binop * tree :=
  (fst os, rd_level crank k (S n) (fst (snd os)) (snd (snd os))).

Lemma rd_level_S : forall k n x r,
  rd_level crank (S k) n x r =
  fold_term (rd_level crank k (S n) (fst (fst (segs crank n x r))) (snd (fst (segs crank n x r))))
            (map (segF k n) (snd (segs crank n x r))).
Proof. intros k n x r. simpl. destruct (segs crank n x r) as [s0 ss]. reflexivity. Qed.

Lemma pl_S : forall lv k n x r,
  pl lv (S k) n x r =
  (let '(lhs, r1) := pl lv k (S n) x r in
   let '(rhs, r2) := many0 lv (List.length r1) n (pl lv k (S n)) r1 in
   (fold_term lhs rhs, r2)).
Proof. reflexivity. Qed.

Definition bounded (b : nat) (r : oseq) : Prop := Forall (fun ot => crank (fst ot) < b) r.

Lemma many0_spec : forall k n,
  (forall x r, bounded (S n + k) r ->
     pl crank k (S n) x r = (rd_level crank k (S n) x (take_ge (S n) r), drop_ge (S n) r)) ->
  forall fuel p rest, List.length (p ++ rest) <= fuel ->
    all_ge n p -> stops (S n) p -> stops n rest -> bounded (S n + k) (p ++ rest) ->
    many0 crank fuel n (pl crank k (S n)) (p ++ rest) = (map (segF k n) (segs' n p), rest).
Proof.
  intros k n Hpl. induction fuel as [|fuel IH]; intros p rest Hlen Hge Hsp Hsr Hb.
  - destruct p; [|simpl in Hlen; lia]. destruct rest; [|simpl in Hlen; lia]. reflexivity.
  - destruct p as [|[o1 y1] p1].
    + simpl. destruct rest as [|[op y] rest']; [reflexivity|].
      simpl in Hsr. destruct (Nat.eqb_spec (crank op) n); [lia | reflexivity].
    + simpl in Hsp. pose proof (Forall_inv Hge) as Ho. pose proof (Forall_inv_tail Hge) as Hge1. simpl in Ho.
      assert (E : crank o1 = n) by lia.
      assert (Hb1 : bounded (S n + k) (p1 ++ rest)) by (exact (Forall_inv_tail Hb)).
      simpl app. simpl many0. rewrite E, Nat.eqb_refl.
      rewrite (Hpl y1 (p1 ++ rest) Hb1).
      pose proof (take_drop (S n) p1) as TD.
      pose proof (take_all_ge (S n) p1) as T1.
      pose proof (drop_stops (S n) p1) as D1.
      set (t1 := take_ge (S n) p1) in *. set (p2 := drop_ge (S n) p1) in *.
      assert (S2 : stops (S n) (p2 ++ rest)).
      { apply stops_app; [exact D1 | eapply stops_mono; [|exact Hsr]; lia]. }
      assert (A : take_ge (S n) (p1 ++ rest) = t1 /\ drop_ge (S n) (p1 ++ rest) = p2 ++ rest).
      { rewrite <- TD, <- app_assoc. apply take_app_stop; assumption. }
      destruct A as [A1 A2]. rewrite A1, A2.
      assert (Hge2 : all_ge n p2).
      { unfold all_ge in Hge1. rewrite <- TD in Hge1. apply Forall_app in Hge1. apply Hge1. }
      assert (Hb2 : bounded (S n + k) (p2 ++ rest)).
      { unfold bounded in Hb1. rewrite <- TD, <- app_assoc in Hb1. apply Forall_app in Hb1. apply Hb1. }
      assert (Hl2 : List.length (p2 ++ rest) <= fuel).
      { simpl in Hlen. rewrite <- TD in Hlen. rewrite !app_length in *. lia. }
      rewrite (IH p2 rest Hl2 Hge2 D1 Hsr Hb2).
      unfold segs'. rewrite <- TD.
      rewrite (segs_run n t1 p2 y1); [reflexivity | | exact D1].
      eapply all_ge_gt; [|exact T1]. lia.
Qed.

Lemma take_none : forall c r, bounded c r -> take_ge c r = [] /\ drop_ge c r = r.
Proof.
  intros c [|[op y] r] H; simpl; [split; reflexivity|].
  inversion H as [|? ? Ho _]; subst. simpl in Ho.
  destruct (Nat.leb_spec c (crank op)); [lia | split; reflexivity].
Qed.

Lemma take_ge_app : forall c t s, all_ge c t ->
  take_ge c (t ++ s) = t ++ take_ge c s /\ drop_ge c (t ++ s) = drop_ge c s.
Proof.
  intros c t s Ht. induction Ht as [|[op y] t Hop Ht IH]; simpl; [split; reflexivity|].
  simpl in Hop. destruct (Nat.leb_spec c (crank op)); [|lia].
  destruct IH as [E1 E2]. rewrite E1, E2. split; reflexivity.
Qed.

Theorem pl_spec : forall k n x r, bounded (n + k) r ->
  pl crank k n x r = (rd_level crank k n x (take_ge n r), drop_ge n r).
Proof.
  induction k as [|k IH]; intros n x r Hb.
  - rewrite Nat.add_0_r in Hb. destruct (take_none n r Hb) as [E1 E2]. rewrite E1, E2. reflexivity.
  - assert (Hb' : bounded (S n + k) r) by (rewrite Nat.add_succ_r in Hb; exact Hb).
    rewrite pl_S. rewrite (IH (S n) x r Hb').
    pose proof (take_drop (S n) r) as TD.
    pose proof (take_all_ge (S n) r) as T0.
    pose proof (drop_stops (S n) r) as D0.
    set (t0 := take_ge (S n) r) in *. set (r1 := drop_ge (S n) r) in *.
    pose proof (take_drop n r1) as TD1.
    pose proof (take_all_ge n r1) as T1.
    pose proof (drop_stops n r1) as D1.
    assert (Sp : stops (S n) (take_ge n r1)) by (apply stops_take; exact D0).
    set (p := take_ge n r1) in *. set (rest := drop_ge n r1) in *.
    assert (Hb1 : bounded (S n + k) (p ++ rest)).
    { rewrite TD1. unfold bounded in Hb'. rewrite <- TD in Hb'. apply Forall_app in Hb'. apply Hb'. }
    rewrite <- TD1 at 2.
    rewrite (many0_spec k n (fun x r H => IH (S n) x r H) (List.length r1) p rest);
      [| rewrite TD1; apply le_n | exact T1 | exact Sp | exact D1 | exact Hb1].
    assert (G0 : all_ge n t0) by (eapply all_ge_mono; [|exact T0]; lia).
    destruct (take_ge_app n t0 r1 G0) as [E1 E2]. rewrite TD in E1, E2.
    rewrite E1, E2. fold p. fold rest.
    rewrite rd_level_S.
    rewrite (segs_run n t0 p x); [reflexivity | | exact Sp].
    eapply all_ge_gt; [|exact T0]. lia.
Qed.

Lemma many0_ext : forall lv1 lv2 (next1 next2 : tree -> oseq -> tree * oseq),
  (forall o, lv1 o = lv2 o) -> (forall y r, next1 y r = next2 y r) ->
  forall fuel n r, many0 lv1 fuel n next1 r = many0 lv2 fuel n next2 r.
Proof.
  intros lv1 lv2 next1 next2 E En. induction fuel as [|fuel IH]; intros n r; simpl; [reflexivity|].
  destruct r as [|[op y] r']; [reflexivity|]. rewrite E, En.
  destruct (Nat.eqb (lv2 op) n); [|reflexivity].
  destruct (next2 y r') as [t r1]. rewrite IH. reflexivity.
Qed.

Lemma pl_ext : forall lv1 lv2, (forall o, lv1 o = lv2 o) ->
  forall k n x r, pl lv1 k n x r = pl lv2 k n x r.
Proof.
  intros lv1 lv2 E. induction k as [|k IH]; intros n x r; [reflexivity|].
  rewrite !pl_S. rewrite IH. destruct (pl lv2 k (S n) x r) as [lhs r1].
  rewrite (many0_ext lv1 lv2 (pl lv1 k (S n)) (pl lv2 k (S n)) E (IH (S n))). reflexivity.
Qed.

(* the literal recursive-descent loop over the generated table consumes the whole sequence and returns [rd_seq] *)
Theorem pl_is_rd : forall x r, pl lvl nlevels 1 x r = (rd_seq x r, []).
Proof.
  intros x r. rewrite nlevels_7, (pl_ext lvl crank lvl_is_crank), rd_seq_is_level.
  assert (Hb : bounded (1 + 7) r).
  { apply Forall_forall. intros [op y] _. simpl. pose proof (crank_range op). lia. }
  rewrite (pl_spec 7 1 x r Hb).
  assert (Hg : all_ge 1 r).
  { apply Forall_forall. intros [op y] _. simpl. pose proof (crank_range op). lia. }
  destruct (take_app_stop 1 r [] Hg I) as [E1 E2]. rewrite app_nil_r in E1, E2.
  rewrite E1, E2. reflexivity.
Qed.
