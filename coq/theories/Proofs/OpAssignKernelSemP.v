(* C04 — what the reachable op-assignment kernel macros DO, read off their extracted loop nests.

   Proofs/OpAssignArmsP.v compares the loop nest of every kernel macro with a reference term.  Here the loop nests of
   the kernels an op-assignment can reach with a scalar / vector source and an index vector —
       <op>_assign_1d_range       x[ix] op= s          <op>_assign_1d_range_vec   x[ix] op= v
       <op>_assign_2d_vector_all  x[ix,:] op= s
   — are INTERPRETED: [parse_kernel] turns the (normalised) term into a small loop-nest syntax, [nest_attempts] runs the
   nest and lists, in loop order, the element accesses it makes: (position in the column-major sink, source element), None
   where the access panics (index 0: `ix - 1` underflows; index beyond the dimension: slice index out of bounds; source
   vector too short).  The theorems say that for EVERY operator's extracted kernel this list is exactly the attempt list
   Model/Assign.v feeds to [run_attempts] for that statement form:
       1d_range       with_src e (dim_attempts n (CU l))
       1d_range_vec   zip_src 0 (dim_attempts n (CU l)) vs
       2d_vector_all  with_src e (col_outer r (dim_attempts r (CU l)) (dim_attempts c CA))
   and (Proofs/OpAssignArmsP.kernel_update_is_lift_m) that the update applied at each access is [lift_m kind op].
   So a changed loop bound (ncols -> nrows), a dropped `- 1`, a swapped loop order or index changes the list and breaks
   the theorem, for all shapes — not only the reference comparison. *)
From Coq Require Import List Arith Bool String ZArith Lia.
From MechV Require Import Base.Sexp Model.SrcArms Proofs.SrcArmsP Gen.OpAssignArms Model.Assign Proofs.OpAssignArmsP.
Import ListNotations.
Open Scope string_scope.
Open Scope nat_scope.

(* ---- loop-nest syntax ------------------------------------------------------------------------------------ *)
Inductive iter : Type :=
| ItIxLen              (* 0..($ix).len()        — positions in the index vector *)
| ItCols               (* 0..($sink).ncols()    — column numbers *)
| ItIxElems.           (* $ix.iter()            — the index values *)

Inductive idx : Type :=
| IPos (v : string)            (* a position / column variable *)
| IElem (v : string)           (* an index value bound by `for v in $ix.iter()` *)
| IIxAt (v : string)           (* ($ix)[v] *)
| ISub1 (i : idx).             (* i - 1 *)

Inductive place : Type :=
| PLin (i : idx)                       (* ($sink)[i] *)
| PCol (c : string) (i : idx).         (* ($sink).column_mut(c)[i] *)

Inductive srcv : Type := SScalar | SAt (v : string).      (* $source | ($source)[v] *)

Inductive knest : Type :=
| KFor (v : string) (it : iter) (body : knest)
| KUpd (op : string) (p : place) (s : srcv).

(* ---- reading a normalised kernel body --------------------------------------------------------------------- *)
Definition parse_iter (t : tm) : option iter :=
  match t with
  | T ".." [L "0"; T ".len()" [L "$ix"]] => Some ItIxLen
  | T ".." [L "0"; T ".ncols()" [L "$sink"]] => Some ItCols
  | T ".iter()" [L "$ix"] => Some ItIxElems
  | _ => None
  end.

(* [vars]: loop variable -> what it ranges over *)
Fixpoint parse_idx (vars : list (string * iter)) (t : tm) : option idx :=
  match t with
  | L v => match find (fun e : string * iter => String.eqb (fst e) v) vars with
           | Some (_, ItIxElems) => Some (IElem v)
           | Some _ => Some (IPos v)
           | None => None
           end
  | T "[]" [L "$ix"; L v] => match find (fun e : string * iter => String.eqb (fst e) v) vars with
                             | Some (_, ItIxLen) => Some (IIxAt v)
                             | _ => None
                             end
  | T "-" [a; L "1"] => option_map ISub1 (parse_idx vars a)
  | _ => None
  end.

Definition parse_place (vars : list (string * iter)) (t : tm) : option place :=
  match t with
  | T "[]" [L "$sink"; i] => option_map PLin (parse_idx vars i)
  | T "[]" [T ".column_mut()" [L "$sink"; L c]; i] =>
      match find (fun e : string * iter => String.eqb (fst e) c) vars with
      | Some (_, ItCols) => option_map (PCol c) (parse_idx vars i)
      | _ => None
      end
  | _ => None
  end.

Definition parse_src (vars : list (string * iter)) (t : tm) : option srcv :=
  match t with
  | L "$source" => Some SScalar
  | T "[]" [L "$source"; L v] => match find (fun e : string * iter => String.eqb (fst e) v) vars with
                                 | Some (_, ItIxLen) => Some (SAt v)
                                 | _ => None
                                 end
  | _ => None
  end.

Fixpoint parse_nest (vars : list (string * iter)) (t : tm) : option knest :=
  match t with
  | T "block" [s] => parse_nest vars s
  | T "for" [L v; it; body] =>
      match parse_iter it with
      | Some i => option_map (KFor v i) (parse_nest ((v, i) :: vars) body)
      | None => None
      end
  | T op [p; s] =>
      if str_in op ["+="; "-="; "*="; "/="] then
        match parse_place vars p, parse_src vars s with
        | Some pl, Some sv => Some (KUpd op pl sv)
        | _, _ => None
        end
      else None
  | _ => None
  end.

Definition parse_kernel (body : tm) : option knest := parse_nest [] (norm body).

(* ---- running a loop nest ------------------------------------------------------------------------------------ *)
Section Run.
  Context {A : Type}.
  (* the sink is an r x c column-major matrix, the index vector l (1-based usize values), the source a scalar e or a
     vector vs *)
  Variables (r c : nat) (l : list Z) (e : A) (vs : list A).

  Inductive ev : Type := EN (n : nat) | EZ (z : Z).
  Definition lookup_ev (env : list (string * ev)) (v : string) : option ev :=
    match find (fun x : string * ev => String.eqb (fst x) v) env with Some x => Some (snd x) | None => None end.

  (* usize arithmetic of the dev profile: `z - 1` panics for z = 0 *)
  Inductive ival : Type := VNat (n : nat) | VIx (z : Z) | VPanic | VBad.
  Fixpoint eval_idx (env : list (string * ev)) (i : idx) : ival :=
    match i with
    | IPos v => match lookup_ev env v with Some (EN n) => VNat n | _ => VBad end
    | IElem v => match lookup_ev env v with Some (EZ z) => VIx z | _ => VBad end
    | IIxAt v => match lookup_ev env v with
                 | Some (EN n) => match nth_error l n with Some z => VIx z | None => VPanic end
                 | _ => VBad
                 end
    | ISub1 j => match eval_idx env j with
                 | VIx z => if Z.leb 1 z then VNat (Z.to_nat (z - 1)) else VPanic
                 | VNat (S n) => VNat n
                 | VNat O => VPanic
                 | o => o
                 end
    end.

  (* the linear position an access addresses; None = the access panics; [bad] = not understood *)
  Definition eval_place (env : list (string * ev)) (p : place) : option (option nat) :=
    match p with
    | PLin i => match eval_idx env i with
                | VNat n => Some (if Nat.ltb n (r * c) then Some n else None)
                | VPanic => Some None
                | _ => None
                end
    | PCol cv i => match lookup_ev env cv, eval_idx env i with
                   | Some (EN cix), VNat k => Some (if Nat.ltb k r then Some (cix * r + k) else None)
                   | Some (EN _), VPanic => Some None
                   | _, _ => None
                   end
    end.

  Definition eval_src (env : list (string * ev)) (s : srcv) : option (option A) :=
    match s with
    | SScalar => Some (Some e)
    | SAt v => match lookup_ev env v with Some (EN n) => Some (nth_error vs n) | _ => None end
    end.

  Definition iter_values (it : iter) : list ev :=
    match it with
    | ItIxLen => map EN (seq 0 (List.length l))
    | ItCols => map EN (seq 0 c)
    | ItIxElems => map EZ l
    end.

  (* the accesses in loop order; None = a construct the interpreter does not understand *)
  Fixpoint nest_attempts (env : list (string * ev)) (k : knest) : option (list (option nat * option A)) :=
    match k with
    | KFor v it body =>
        option_map (@List.concat _) (omap (fun x => nest_attempts ((v, x) :: env) body) (iter_values it))
    | KUpd _ p s =>
        match eval_place env p, eval_src env s with
        | Some pos, Some sv => Some [(pos, sv)]
        | _, _ => None
        end
    end.
End Run.

(* ---- the three reachable kernels with a model counterpart -------------------------------------------------- *)
Definition nest_1d_range (op : string) : knest := KFor "i" ItIxLen (KUpd op (PLin (ISub1 (IIxAt "i"))) SScalar).
Definition nest_1d_range_vec (op : string) : knest := KFor "i" ItIxLen (KUpd op (PLin (ISub1 (IIxAt "i"))) (SAt "i")).
Definition nest_2d_vector_all (op : string) : knest :=
  KFor "cix" ItCols (KFor "rix" ItIxElems (KUpd op (PCol "cix" (ISub1 (IElem "rix"))) SScalar)).

(* every operator's extracted kernel parses to the nest of its name with its token *)
Definition iter_eqb (a b : iter) : bool :=
  match a, b with ItIxLen, ItIxLen | ItCols, ItCols | ItIxElems, ItIxElems => true | _, _ => false end.
Fixpoint idx_eqb (a b : idx) : bool :=
  match a, b with
  | IPos x, IPos y | IElem x, IElem y | IIxAt x, IIxAt y => String.eqb x y
  | ISub1 x, ISub1 y => idx_eqb x y
  | _, _ => false
  end.
Definition place_eqb (a b : place) : bool :=
  match a, b with
  | PLin i, PLin j => idx_eqb i j
  | PCol x i, PCol y j => String.eqb x y && idx_eqb i j
  | _, _ => false
  end.
Definition srcv_eqb (a b : srcv) : bool :=
  match a, b with SScalar, SScalar => true | SAt x, SAt y => String.eqb x y | _, _ => false end.
Fixpoint knest_eqb (a b : knest) : bool :=
  match a, b with
  | KFor v i x, KFor v' i' y => String.eqb v v' && iter_eqb i i' && knest_eqb x y
  | KUpd o1 p1 s1, KUpd o2 p2 s2 => String.eqb o1 o2 && place_eqb p1 p2 && srcv_eqb s1 s2
  | _, _ => false
  end.

Lemma idx_eqb_eq a b : idx_eqb a b = true -> a = b.
Proof.
  revert b. induction a; intros [] H; cbn [idx_eqb] in H; try discriminate;
    try (apply String.eqb_eq in H; now subst). f_equal. now apply IHa.
Qed.
Lemma knest_eqb_eq a b : knest_eqb a b = true -> a = b.
Proof.
  revert b. induction a as [v i x IH|o p s]; intros [v' i' y|o' p' s'] H; cbn [knest_eqb] in H; try discriminate.
  - apply andb_true_iff in H. destruct H as [H H3]. apply andb_true_iff in H. destruct H as [H1 H2].
    apply String.eqb_eq in H1. subst. rewrite (IH y H3). destruct i, i'; try discriminate; reflexivity.
  - apply andb_true_iff in H. destruct H as [H H3]. apply andb_true_iff in H. destruct H as [H1 H2].
    apply String.eqb_eq in H1. subst. f_equal.
    + destruct p as [i|cx i], p' as [j|cy j]; cbn [place_eqb] in H2; try discriminate.
      * f_equal. now apply idx_eqb_eq.
      * apply andb_true_iff in H2. destruct H2 as [Hc Hi]. apply String.eqb_eq in Hc. subst. f_equal. now apply idx_eqb_eq.
    + destruct s as [|x], s' as [|y]; cbn [srcv_eqb] in H3; try discriminate; [reflexivity|].
      apply String.eqb_eq in H3. now subst.
Qed.

Definition kernel_parses (k : string) (mk : string -> knest) : bool :=
  forallb (fun x : kernel_entry => let '(o, k', _, _, body) := x in
             negb (String.eqb k k') ||
             match parse_kernel body with Some n => knest_eqb n (mk (op_tok o)) | None => false end) oa_kernels.

Theorem reachable_kernels_parse :
  kernel_parses "1d_range" nest_1d_range = true /\ kernel_parses "1d_range_vec" nest_1d_range_vec = true /\
  kernel_parses "2d_vector_all" nest_2d_vector_all = true.
Proof. repeat split; vm_compute; reflexivity. Qed.

(* ---- their accesses are the attempt lists of Model/Assign.v -------------------------------------------------- *)
Section Sem.
  (* Model/Assign.v works on canonical payloads (sx) *)
  Variables (r c : nat) (l : list Z) (e : sx) (vs : list sx).

  Lemma chk_as_eval (n : nat) (z : Z) :
    (if Z.leb 1 z then (if Nat.ltb (Z.to_nat (z - 1)) n then Some (Z.to_nat (z - 1)) else None) else None) = chk n z.
  Proof.
    unfold chk. destruct (Z.leb 1 z) eqn:E1; [|reflexivity]. cbn [andb].
    apply Z.leb_le in E1.
    destruct (Nat.ltb (Z.to_nat (z - 1)) n) eqn:E2.
    - apply Nat.ltb_lt in E2. assert (H : (z <=? Z.of_nat n)%Z = true) by (apply Z.leb_le; lia). now rewrite H.
    - apply Nat.ltb_ge in E2. assert (H : (z <=? Z.of_nat n)%Z = false) by (apply Z.leb_gt; lia). now rewrite H.
  Qed.

  (* iterating over the positions of l and reading l at the position = iterating over l *)
  Lemma omap_positions {B} (f : nat -> Z -> list B) :
    forall (l0 : list Z) (s : nat),
      (forall i z, nth_error l0 i = Some z -> nth_error l (s + i) = Some z) ->
      omap (fun x => match x with
                     | EN n => match nth_error l n with Some z => Some (f n z) | None => None end
                     | EZ _ => None
                     end) (map EN (seq s (List.length l0)))
      = Some (map (fun p => f (fst p) (snd p)) (combine (seq s (List.length l0)) l0)).
  Proof.
    induction l0 as [|z l0 IH]; intros s H; [reflexivity|].
    cbn [List.length seq map omap combine fst snd].
    pose proof (H 0 z eq_refl) as H0. rewrite Nat.add_0_r in H0. rewrite H0.
    rewrite (IH (S s)); [reflexivity|].
    intros i z' Hi. replace (S s + i) with (s + S i) by lia. apply (H (S i) z' Hi).
  Qed.

  Theorem sem_1d_range (op : string) :
    nest_attempts r c l e vs [] (nest_1d_range op) = Some (with_src e (dim_attempts (r * c) (CU l))).
  Proof.
    unfold nest_1d_range, with_src, dim_attempts. cbn [nest_attempts iter_values].
    rewrite (omap_ext _ (fun x => match x with
                                  | EN n => match nth_error l n with Some z => Some [(chk (r * c) z, Some e)] | None => None end
                                  | EZ _ => None end)).
    - rewrite (omap_positions (fun _ z => [(chk (r * c) z, Some e)]) l 0 (fun i z H => H)).
      cbn [option_map]. f_equal. rewrite map_map.
      generalize 0 at 1. induction l as [|z l0 IH]; intro s; [reflexivity|].
      cbn [List.length seq combine map List.concat fst snd List.app]. f_equal. apply IH.
    - intros x Hx. apply in_map_iff in Hx. destruct Hx as [n [<- Hn]]. apply in_seq in Hn.
      cbn [nest_attempts eval_place eval_idx eval_src].
      change (lookup_ev [("i", EN n)] "i") with (Some (EN n)). cbv beta iota.
      destruct (nth_error l n) as [z|] eqn:En; [|apply nth_error_None in En; lia].
      rewrite <- (chk_as_eval (r * c) z). destruct (Z.leb 1 z); reflexivity.
  Qed.

  Theorem sem_1d_range_vec (op : string) :
    nest_attempts r c l e vs [] (nest_1d_range_vec op) = Some (zip_src 0 (dim_attempts (r * c) (CU l)) vs).
  Proof.
    unfold nest_1d_range_vec, dim_attempts. cbn [nest_attempts iter_values].
    rewrite (omap_ext _ (fun x => match x with
                                  | EN n => match nth_error l n with Some z => Some [(chk (r * c) z, nth_error vs n)] | None => None end
                                  | EZ _ => None end)).
    - rewrite (omap_positions (fun n z => [(chk (r * c) z, nth_error vs n)]) l 0 (fun i z H => H)).
      cbn [option_map]. f_equal.
      generalize 0. induction l as [|z l0 IH]; intro s; [reflexivity|].
      cbn [List.length seq combine map List.concat fst snd List.app zip_src]. f_equal. apply IH.
    - intros x Hx. apply in_map_iff in Hx. destruct Hx as [n [<- Hn]]. apply in_seq in Hn.
      cbn [nest_attempts eval_place eval_idx eval_src].
      change (lookup_ev [("i", EN n)] "i") with (Some (EN n)). cbv beta iota.
      destruct (nth_error l n) as [z|] eqn:En; [|apply nth_error_None in En; lia].
      rewrite <- (chk_as_eval (r * c) z). destruct (Z.leb 1 z); reflexivity.
  Qed.

  (* one column of x[ix,:]: the rows named by the index values, in column cix *)
  Lemma column_attempts (op : string) (cix : nat) (l0 : list Z) :
    omap (fun x => nest_attempts r c l e vs ((("rix", x) :: [("cix", EN cix)]))
                     (KUpd op (PCol "cix" (ISub1 (IElem "rix"))) SScalar)) (map EZ l0)
    = Some (map (fun a => [(comb r a (Some cix), Some e)]) (map (chk r) l0)).
  Proof.
    induction l0 as [|z l0 IH]; [reflexivity|].
    cbn [map omap]. rewrite IH. clear IH.
    cbn [nest_attempts eval_place eval_idx eval_src].
    change (lookup_ev [("rix", EZ z); ("cix", EN cix)] "rix") with (Some (EZ z)).
    change (lookup_ev [("rix", EZ z); ("cix", EN cix)] "cix") with (Some (EN cix)). cbv beta iota.
    rewrite <- (chk_as_eval r z). destruct (Z.leb 1 z); [|reflexivity].
    destruct (Nat.ltb (Z.to_nat (z - 1)) r); reflexivity.
  Qed.

  Lemma omap_EN {B} (g : nat -> B) (ns : list nat) :
    omap (fun x => match x with EN n => Some (g n) | EZ _ => None end) (map EN ns) = Some (map g ns).
  Proof. induction ns as [|n ns IH]; [reflexivity|]. cbn [map omap]. now rewrite IH. Qed.

  Lemma concat_singletons {B C} (f : B -> C) (xs : list B) : List.concat (map (fun a => [f a]) xs) = map f xs.
  Proof. induction xs as [|a xs IH]; [reflexivity|]. cbn [map List.concat List.app]. now rewrite IH. Qed.

  Theorem sem_2d_vector_all (op : string) :
    nest_attempts r c l e vs [] (nest_2d_vector_all op)
    = Some (with_src e (col_outer r (dim_attempts r (CU l)) (dim_attempts c CA))).
  Proof.
    unfold nest_2d_vector_all, with_src, col_outer, dim_attempts.
    change (nest_attempts r c l e vs [] (KFor "cix" ItCols (KFor "rix" ItIxElems (KUpd op (PCol "cix" (ISub1 (IElem "rix"))) SScalar))))
      with (option_map (@List.concat _)
              (omap (fun x => nest_attempts r c l e vs [("cix", x)] (KFor "rix" ItIxElems (KUpd op (PCol "cix" (ISub1 (IElem "rix"))) SScalar)))
                    (map EN (seq 0 c)))).
    rewrite (omap_ext _ (fun x => match x with
                                  | EN cix => Some (map (fun a => (comb r a (Some cix), Some e)) (map (chk r) l))
                                  | EZ _ => None end)).
    - rewrite omap_EN. cbn [option_map]. f_equal.
      induction (seq 0 c) as [|cix cs IH]; [reflexivity|].
      cbn [map List.concat flat_map]. rewrite IH, map_app. f_equal. now rewrite !map_map.
    - intros x Hx. apply in_map_iff in Hx. destruct Hx as [cix [<- _]].
      cbv beta.
      change (nest_attempts r c l e vs [("cix", EN cix)] (KFor "rix" ItIxElems (KUpd op (PCol "cix" (ISub1 (IElem "rix"))) SScalar)))
        with (option_map (@List.concat _)
                (omap (fun x => nest_attempts r c l e vs [("rix", x); ("cix", EN cix)] (KUpd op (PCol "cix" (ISub1 (IElem "rix"))) SScalar))
                      (map EZ l))).
      rewrite column_attempts. cbn [option_map]. now rewrite concat_singletons.
  Qed.
End Sem.

(* for EVERY operator: the extracted kernel macro, parsed and run, makes exactly the accesses of the model, for all shapes,
   index vectors and sources *)
Lemma kernel_parses_to (k : string) (mk : string -> knest) :
  kernel_parses k mk = true ->
  forall o site params body, In (o, k, site, params, body) oa_kernels -> parse_kernel body = Some (mk (op_tok o)).
Proof.
  unfold kernel_parses. intros H o site params body Hin. rewrite forallb_forall in H. specialize (H _ Hin).
  cbv beta iota in H. rewrite String.eqb_refl in H. cbn [negb orb] in H.
  destruct (parse_kernel body) as [n|]; [|discriminate]. now rewrite (knest_eqb_eq _ _ H).
Qed.

Theorem extracted_kernels_make_model_accesses :
  forall (o site : string) (params : list string) (body : tm),
    (In (o, "1d_range", site, params, body) oa_kernels ->
       exists n, parse_kernel body = Some n /\
         forall (r c : nat) (l : list Z) (e : sx) (vs : list sx),
           nest_attempts r c l e vs [] n = Some (with_src e (dim_attempts (r * c) (CU l)))) /\
    (In (o, "1d_range_vec", site, params, body) oa_kernels ->
       exists n, parse_kernel body = Some n /\
         forall (r c : nat) (l : list Z) (e : sx) (vs : list sx),
           nest_attempts r c l e vs [] n = Some (zip_src 0 (dim_attempts (r * c) (CU l)) vs)) /\
    (In (o, "2d_vector_all", site, params, body) oa_kernels ->
       exists n, parse_kernel body = Some n /\
         forall (r c : nat) (l : list Z) (e : sx) (vs : list sx),
           nest_attempts r c l e vs [] n = Some (with_src e (col_outer r (dim_attempts r (CU l)) (dim_attempts c CA)))).
Proof.
  intros o site params body.
  destruct reachable_kernels_parse as [H1 [H2 H3]].
  repeat split; intro Hin.
  - exists (nest_1d_range (op_tok o)). split; [exact (kernel_parses_to _ _ H1 _ _ _ _ Hin)|]. intros. apply sem_1d_range.
  - exists (nest_1d_range_vec (op_tok o)). split; [exact (kernel_parses_to _ _ H2 _ _ _ _ Hin)|]. intros. apply sem_1d_range_vec.
  - exists (nest_2d_vector_all (op_tok o)). split; [exact (kernel_parses_to _ _ H3 _ _ _ _ Hin)|]. intros. apply sem_2d_vector_all.
Qed.
