(* C10 — lemmas and theorems about the document algebra of Model/Doc.v.
   Everything in Section Generic holds for every statement semantics [exec], every comment effect [cmt]
   and every initial store [init]. *)
From Coq Require Import List ZArith Ascii String Bool Arith Lia.
From MechV Require Import Base.Sexp Base.Obs Model.Doc Proofs.SexpP.
Import ListNotations.

(* ---------- tables ---------- *)
Section TablesP.
  Context {S : Type}.
  Lemma lookup_upsert_same (n : string) (v : S) t : lookup n (upsert n v t) = Some v.
  Proof.
    induction t as [|[m w] t IH]; cbn.
    - rewrite String.eqb_refl. reflexivity.
    - destruct (String.eqb n m) eqn:E; cbn; rewrite ?String.eqb_refl, ?E; auto.
  Qed.
  Lemma lookup_upsert_other (n m : string) (v : S) t : n <> m -> lookup m (upsert n v t) = lookup m t.
  Proof.
    intros Hn. induction t as [|[k w] t IH]; cbn.
    - destruct (String.eqb m n) eqn:E; [apply String.eqb_eq in E; congruence|reflexivity].
    - destruct (String.eqb n k) eqn:E; cbn.
      + apply String.eqb_eq in E. subst k.
        destruct (String.eqb m n) eqn:E2; [apply String.eqb_eq in E2; congruence|reflexivity].
      + destruct (String.eqb m k); [reflexivity|exact IH].
  Qed.
End TablesP.

Section Generic.
  Context {S stmt prose : Type}.
  Variable exec : S -> stmt -> res S.
  Variable cmt : S -> S.
  Variable init : S.

  Notation step := (@step S stmt exec cmt).
  Notation run_items := (@run_items S stmt exec cmt).
  Notation run_elem := (@run_elem S stmt prose exec cmt init).
  Notation run_from := (@run_from S stmt prose exec cmt init).
  Notation run_doc := (@run_doc S stmt prose exec cmt init).
  Notation live := (@live S stmt prose exec cmt).
  Notation ns_store := (@ns_store S stmt exec cmt init).
  Notation ns_result := (@ns_result S stmt prose exec cmt init).
  Notation sub_or_init := (@sub_or_init S init).
  Notation elemT := (elem stmt prose).

  (* ---------- basic facts ---------- *)
  Lemma run_from_app ds (d1 d2 : list elemT) : run_from ds (d1 ++ d2) = run_from (run_from ds d1) d2.
  Proof. unfold Doc.run_from. apply fold_left_app. Qed.

  Lemma run_from_cons ds (e : elemT) d : run_from ds (e :: d) = run_from (run_elem ds e) d.
  Proof. reflexivity. Qed.

  Lemma run_elem_halted ds (e : elemT) : d_halted ds = true -> run_elem ds e = ds.
  Proof. intros H. unfold Doc.run_elem. rewrite H. reflexivity. Qed.

  Lemma run_from_halted ds (d : list elemT) : d_halted ds = true -> run_from ds d = ds.
  Proof.
    intros H. induction d as [|e d IH]; [reflexivity|].
    rewrite run_from_cons, run_elem_halted by exact H. exact IH.
  Qed.

  Lemma run_items_app s l1 l2 :
    run_items s (l1 ++ l2) =
    (let '(s1, ok) := run_items s l1 in if ok then run_items s1 l2 else (s1, false)).
  Proof.
    revert s. induction l1 as [|it l1 IH]; intros s; [reflexivity|].
    cbn [app Doc.run_items]. destruct (step s it) as [s'|s']; [apply IH|reflexivity].
  Qed.

  (* ---------- 1. prose is inert ---------- *)
  Lemma run_elem_inert ds (e : elemT) : is_inert e = true -> run_elem ds e = ds.
  Proof.
    intros H. unfold Doc.run_elem. destruct (d_halted ds); [reflexivity|].
    destruct e as [p|p|l|[|n|] l]; cbn in H; try discriminate; reflexivity.
  Qed.

  Theorem prose_inert_from ds (d : list elemT) : run_from ds (strip_prose d) = run_from ds d.
  Proof.
    revert ds. induction d as [|e d IH]; intros ds; [reflexivity|].
    cbn [strip_prose filter]. destruct (is_inert e) eqn:E; cbn [negb].
    - rewrite run_from_cons, (run_elem_inert ds e E). apply IH.
    - rewrite !run_from_cons. apply IH.
  Qed.

  Theorem prose_inert (d : list elemT) : run_doc (strip_prose d) = run_doc d.
  Proof. apply prose_inert_from. Qed.

  (* inserting an inert element anywhere changes nothing *)
  Theorem inert_insert (d1 d2 : list elemT) e :
    is_inert e = true -> run_doc (d1 ++ e :: d2) = run_doc (d1 ++ d2).
  Proof.
    intros H. unfold Doc.run_doc. rewrite !run_from_app, run_from_cons, run_elem_inert by exact H. reflexivity.
  Qed.

  (* ---------- 2. the main store is the fold of exec over the main code, in document order ---------- *)
  Lemma main_from ds (d : list elemT) :
    d_halted ds = false ->
    d_main (run_from ds d) = fst (run_items (d_main ds) (main_items d)) /\
    d_halted (run_from ds d) = negb (snd (run_items (d_main ds) (main_items d))).
  Proof.
    revert ds. induction d as [|e d IH]; intros ds Hh.
    - cbn. rewrite Hh. auto.
    - rewrite run_from_cons. cbn [main_items flat_map]. fold (main_items d).
      rewrite run_items_app.
      assert (Hmain : forall l, main_items_of e = l ->
                (e = Code l \/ e = Fence FUnnamed l) ->
                d_main (run_from (run_elem ds e) d) =
                  fst (let '(s1, ok) := run_items (d_main ds) l in
                       if ok then run_items s1 (main_items d) else (s1, false)) /\
                d_halted (run_from (run_elem ds e) d) =
                  negb (snd (let '(s1, ok) := run_items (d_main ds) l in
                             if ok then run_items s1 (main_items d) else (s1, false)))).
      { intros l _ He.
        assert (Hr : run_elem ds e =
                     (let '(s', ok) := run_items (d_main ds) l in DS s' (d_subs ds) (negb ok))).
        { unfold Doc.run_elem. rewrite Hh. destruct He as [-> | ->]; reflexivity. }
        rewrite Hr. destruct (run_items (d_main ds) l) as [s1 ok]. destruct ok; cbn [negb].
        - apply IH. reflexivity.
        - rewrite run_from_halted by reflexivity. cbn. auto. }
      destruct e as [p|p|l|[|n|] l]; cbn [main_items_of].
      + cbn [Doc.run_items]. rewrite run_elem_inert by reflexivity. apply IH, Hh.
      + cbn [Doc.run_items]. rewrite run_elem_inert by reflexivity. apply IH, Hh.
      + apply Hmain; auto.
      + apply Hmain; auto.
      + cbn [Doc.run_items].
        assert (Hm : d_main (run_elem ds (Fence (FNamed n) l)) = d_main ds /\
                     d_halted (run_elem ds (Fence (FNamed n) l)) = false).
        { unfold Doc.run_elem. rewrite Hh.
          destruct (run_items (sub_or_init n (d_subs ds)) l) as [s' ok]. cbn. auto. }
        destruct Hm as [Hm1 Hm2]. rewrite <- Hm1. apply IH, Hm2.
      + cbn [Doc.run_items]. rewrite run_elem_inert by reflexivity. apply IH, Hh.
  Qed.

  Theorem main_is_code_in_order (d : list elemT) :
    d_main (run_doc d) = fst (run_items init (main_items d)) /\
    d_halted (run_doc d) = negb (snd (run_items init (main_items d))).
  Proof. apply (main_from (start init) d). reflexivity. Qed.

  Corollary main_depends_only_on_main_code (d1 d2 : list elemT) :
    main_items d1 = main_items d2 ->
    d_main (run_doc d1) = d_main (run_doc d2) /\ d_halted (run_doc d1) = d_halted (run_doc d2).
  Proof.
    intros H. destruct (main_is_code_in_order d1) as [A1 B1], (main_is_code_in_order d2) as [A2 B2].
    rewrite A1, A2, B1, B2, H. auto.
  Qed.

  (* ---------- 3. namespaces ---------- *)
  (* only the evaluated part of a document matters *)
  Lemma run_from_live ds (d : list elemT) :
    d_halted ds = false -> run_from ds (live (d_main ds) d) = run_from ds d.
  Proof.
    revert ds. induction d as [|e d IH]; intros ds Hh; [reflexivity|].
    assert (Hmain : forall l, (e = Code l \/ e = Fence FUnnamed l) ->
              run_from ds (let '(s', ok) := run_items (d_main ds) l in
                           if ok then e :: live s' d else [e]) = run_from ds (e :: d)).
    { intros l He.
      assert (Hr : run_elem ds e =
                   (let '(s', ok) := run_items (d_main ds) l in DS s' (d_subs ds) (negb ok))).
      { unfold Doc.run_elem. rewrite Hh. destruct He as [-> | ->]; reflexivity. }
      destruct (run_items (d_main ds) l) as [s1 ok] eqn:E. destruct ok.
      - rewrite !run_from_cons, Hr. cbn [negb]. apply (IH (DS s1 (d_subs ds) false)). reflexivity.
      - rewrite !run_from_cons, Hr. cbn [negb Doc.run_from fold_left].
        symmetry. apply run_from_halted. reflexivity. }
    assert (Hother : d_main (run_elem ds e) = d_main ds -> d_halted (run_elem ds e) = false ->
              run_from ds (e :: live (d_main ds) d) = run_from ds (e :: d)).
    { intros H1 H2. rewrite !run_from_cons, <- H1. apply IH, H2. }
    destruct e as [p|p|l|[|n|] l]; cbn [Doc.live].
    - apply Hother; rewrite run_elem_inert by reflexivity; auto.
    - apply Hother; rewrite run_elem_inert by reflexivity; auto.
    - apply (Hmain l). auto.
    - apply (Hmain l). auto.
    - apply Hother; unfold Doc.run_elem; rewrite Hh;
        destruct (run_items (sub_or_init n (d_subs ds)) l); reflexivity.
    - apply Hother; rewrite run_elem_inert by reflexivity; auto.
  Qed.

  Theorem run_doc_live (d : list elemT) : run_doc (live init d) = run_doc d.
  Proof. apply (run_from_live (start init)). reflexivity. Qed.

  (* folding the fences of one namespace, starting from what the table holds for it *)
  Definition ns_fold (o : option S) (fs : list (list (item stmt))) : option S :=
    fold_left (fun o l => Some (fst (run_items (match o with Some s => s | None => init end) l))) fs o.

  Lemma ns_fold_some s fs :
    ns_fold (Some s) fs = Some (fold_left (fun s l => fst (run_items s l)) fs s).
  Proof. revert s. induction fs as [|l fs IH]; intros s; [reflexivity|]. cbn. apply IH. Qed.

  Lemma ns_result_fold n (d : list elemT) : ns_result n d = ns_fold None (ns_fences n d).
  Proof.
    unfold Doc.ns_result, Doc.ns_store. destruct (ns_fences n d) as [|l fs]; [reflexivity|].
    change (ns_fold None (l :: fs)) with (ns_fold (Some (fst (run_items init l))) fs).
    rewrite ns_fold_some. reflexivity.
  Qed.

  (* on a document in which main code never fails before the last element ("live" documents),
     the table entry of n is the fold over the fences named n *)
  Lemma ns_from n ds (d : list elemT) :
    d_halted ds = false ->
    lookup n (d_subs (run_from ds d)) = ns_fold (lookup n (d_subs ds)) (ns_fences n (live (d_main ds) d)).
  Proof.
    revert ds. induction d as [|e d IH]; intros ds Hh; [reflexivity|].
    rewrite run_from_cons.
    assert (Hmain : forall l, (e = Code l \/ e = Fence FUnnamed l) ->
              lookup n (d_subs (run_from (run_elem ds e) d)) =
              ns_fold (lookup n (d_subs ds))
                (ns_fences n (let '(s', ok) := run_items (d_main ds) l in
                              if ok then e :: live s' d else [e]))).
    { intros l He.
      assert (Hr : run_elem ds e =
                   (let '(s', ok) := run_items (d_main ds) l in DS s' (d_subs ds) (negb ok))).
      { unfold Doc.run_elem. rewrite Hh. destruct He as [-> | ->]; reflexivity. }
      assert (Hn : ns_items_of n e = None) by (destruct He as [-> | ->]; reflexivity).
      rewrite Hr. destruct (run_items (d_main ds) l) as [s1 ok]. destruct ok; cbn [negb].
      - cbn [ns_fences]. rewrite Hn. apply (IH (DS s1 (d_subs ds) false)). reflexivity.
      - rewrite run_from_halted by reflexivity. cbn [ns_fences]. rewrite Hn. reflexivity. }
    assert (Hinert : is_inert e = true -> ns_items_of n e = None ->
              lookup n (d_subs (run_from (run_elem ds e) d)) =
              ns_fold (lookup n (d_subs ds)) (ns_fences n (e :: live (d_main ds) d))).
    { intros Hi Hn. rewrite run_elem_inert by exact Hi. cbn [ns_fences]. rewrite Hn. apply IH, Hh. }
    destruct e as [p|p|l|[|m|] l]; cbn [Doc.live].
    - apply Hinert; reflexivity.
    - apply Hinert; reflexivity.
    - apply (Hmain l). auto.
    - apply (Hmain l). auto.
    - assert (Hr : run_elem ds (Fence (FNamed m) l) =
                   DS (d_main ds) (upsert m (fst (run_items (sub_or_init m (d_subs ds)) l)) (d_subs ds)) false).
      { unfold Doc.run_elem. rewrite Hh. destruct (run_items (sub_or_init m (d_subs ds)) l); reflexivity. }
      rewrite Hr, IH by reflexivity. cbn [d_main d_subs ns_fences ns_items_of].
      destruct (String.eqb n m) eqn:E.
      + apply String.eqb_eq in E. subst m. rewrite lookup_upsert_same.
        cbn [ns_fold fold_left]. unfold Doc.sub_or_init. reflexivity.
      + rewrite lookup_upsert_other; [reflexivity|].
        intros ->. rewrite String.eqb_refl in E. discriminate.
    - apply Hinert; reflexivity.
  Qed.

  (* the store of namespace n is determined by the fences named n that are reached, and by nothing else *)
  Theorem namespace_is_its_fences n (d : list elemT) :
    lookup n (d_subs (run_doc d)) = ns_result n (live init d).
  Proof. rewrite ns_result_fold. apply (ns_from n (start init) d). reflexivity. Qed.

  Corollary namespaces_disjoint n (d1 d2 : list elemT) :
    ns_fences n (live init d1) = ns_fences n (live init d2) ->
    lookup n (d_subs (run_doc d1)) = lookup n (d_subs (run_doc d2)).
  Proof. intros H. rewrite !namespace_is_its_fences. unfold Doc.ns_result. rewrite H. reflexivity. Qed.

  (* fences of another name (and everything that is not a fence named m) are invisible to m;
     main code is invisible too as long as it does not fail *)
  Lemma ns_fences_live_skip m s (d1 d2 : list elemT) e :
    main_items_of e = [] -> ns_items_of m e = None ->
    ns_fences m (live s (d1 ++ e :: d2)) = ns_fences m (live s (d1 ++ d2)).
  Proof.
    intros Hm Hn. revert s. induction d1 as [|x d1 IH]; intros s.
    - cbn [app]. destruct e as [p|p|l|[|k|] l]; cbn in Hm; cbn [Doc.live ns_fences]; rewrite ?Hn; try reflexivity.
      + subst l. cbn. reflexivity.
      + subst l. cbn. reflexivity.
    - cbn [app]. destruct x as [p|p|l|[|k|] l]; cbn [Doc.live].
      + cbn [ns_fences ns_items_of]. apply IH.
      + cbn [ns_fences ns_items_of]. apply IH.
      + destruct (run_items s l) as [s1 ok]. destruct ok; [|reflexivity].
        cbn [ns_fences ns_items_of]. apply IH.
      + destruct (run_items s l) as [s1 ok]. destruct ok; [|reflexivity].
        cbn [ns_fences ns_items_of]. apply IH.
      + cbn [ns_fences]. destruct (ns_items_of m (Fence (FNamed k) l)); rewrite IH; reflexivity.
      + cbn [ns_fences ns_items_of]. apply IH.
  Qed.

  Lemma main_items_skip (d1 d2 : list elemT) e :
    main_items_of e = [] -> main_items (d1 ++ e :: d2) = main_items (d1 ++ d2).
  Proof.
    intros H. unfold main_items. rewrite !flat_map_app. cbn [flat_map]. rewrite H. reflexivity.
  Qed.

  (* ---------- 4. a named fence — whatever happens inside it, errors included — is invisible to the
     main program and to every other name, and the rest of the document is evaluated as without it ---------- *)
  Theorem named_fence_invisible (d1 d2 : list elemT) n l :
    let A := run_doc (d1 ++ Fence (FNamed n) l :: d2) in
    let B := run_doc (d1 ++ d2) in
    d_main A = d_main B /\ d_halted A = d_halted B /\
    forall m, m <> n -> lookup m (d_subs A) = lookup m (d_subs B).
  Proof.
    cbv zeta.
    destruct (main_depends_only_on_main_code (d1 ++ Fence (FNamed n) l :: d2) (d1 ++ d2)) as [A B].
    { apply main_items_skip. reflexivity. }
    split; [exact A|]. split; [exact B|].
    intros m Hm. apply namespaces_disjoint. apply ns_fences_live_skip; [reflexivity|].
    cbn. destruct (String.eqb m n) eqn:E; [apply String.eqb_eq in E; congruence|reflexivity].
  Qed.

  (* an error inside a named fence ends that fence only: the lines after the failing one are never executed,
     and (previous theorem) nothing outside the namespace can tell *)
  Theorem named_error_cuts_suffix (d1 d2 : list elemT) n l1 a l2 s1 s2 :
    run_items (sub_or_init n (d_subs (run_doc d1))) l1 = (s1, true) ->
    step s1 a = Err s2 ->
    run_doc (d1 ++ Fence (FNamed n) (l1 ++ a :: l2) :: d2) = run_doc (d1 ++ Fence (FNamed n) (l1 ++ [a]) :: d2) /\
    (d_halted (run_doc d1) = false ->
       lookup n (d_subs (run_doc (d1 ++ [Fence (FNamed n) (l1 ++ a :: l2)]))) = Some s2 /\
       d_halted (run_doc (d1 ++ [Fence (FNamed n) (l1 ++ a :: l2)])) = false).
  Proof.
    intros H1 H2.
    assert (Hcut : forall l, run_items (sub_or_init n (d_subs (run_doc d1))) (l1 ++ a :: l) = (s2, false)).
    { intros l. rewrite run_items_app, H1. cbn [Doc.run_items]. rewrite H2. reflexivity. }
    split.
    - unfold Doc.run_doc. rewrite !run_from_app, !run_from_cons. f_equal.
      unfold Doc.run_elem. fold (run_doc d1). destruct (d_halted (run_doc d1)); [reflexivity|].
      rewrite (Hcut l2), (Hcut []). reflexivity.
    - intros Hh. unfold Doc.run_doc. rewrite run_from_app. fold (run_doc d1).
      cbn [Doc.run_from fold_left]. unfold Doc.run_elem. rewrite Hh, (Hcut l2). cbn [d_subs d_halted].
      split; [apply lookup_upsert_same|reflexivity].
  Qed.

  (* an error in main code ends the document *)
  Theorem main_error_stops_document (d1 d2 : list elemT) :
    d_halted (run_doc d1) = true -> run_doc (d1 ++ d2) = run_doc d1.
  Proof. intros H. unfold Doc.run_doc. rewrite run_from_app. apply run_from_halted, H. Qed.

  (* ---------- 5. comments ---------- *)
  Lemma run_items_strip_id s l :
    (forall s, cmt s = s) -> run_items s (strip_cmts_items l) = run_items s l.
  Proof.
    intros Hc. revert s. induction l as [|[a|t] l IH]; intros s; [reflexivity| |].
    - cbn [strip_cmts_items filter is_stmt Doc.run_items Doc.step].
      destruct (exec s a); [apply IH|reflexivity].
    - cbn [strip_cmts_items filter is_stmt Doc.run_items Doc.step]. rewrite Hc. apply IH.
  Qed.

  (* where a comment leaves the store alone, comments are inert *)
  Theorem comments_inert_if (d : list elemT) :
    (forall s, cmt s = s) -> run_doc (strip_cmts d) = run_doc d.
  Proof.
    intros Hc. unfold Doc.run_doc. generalize (start init) as ds.
    induction d as [|e d IH]; intros ds; [reflexivity|].
    cbn [strip_cmts map]. rewrite !run_from_cons. fold (strip_cmts d). rewrite IH. f_equal.
    unfold Doc.run_elem. destruct (d_halted ds); [reflexivity|].
    destruct e as [p|p|l|[|n|] l]; cbn [strip_cmts_elem]; rewrite ?run_items_strip_id by exact Hc; reflexivity.
  Qed.

  (* in general: comments are inert up to whatever [cmt] may change, provided no statement depends on it *)
  Section Upto.
    Variable R : S -> S -> Prop.
    Hypothesis R_refl : forall s, R s s.
    Hypothesis R_cmt : forall s t, R s t -> R (cmt s) t.
    Hypothesis R_exec : forall s t a, R s t ->
      match exec s a, exec t a with
      | Ok s', Ok t' => R s' t'
      | Err s', Err t' => R s' t'
      | _, _ => False
      end.

    Lemma run_items_strip_upto l : forall s t, R s t ->
      R (fst (run_items s l)) (fst (run_items t (strip_cmts_items l))) /\
      snd (run_items s l) = snd (run_items t (strip_cmts_items l)).
    Proof.
      induction l as [|[a|c] l IH]; intros s t H.
      - cbn. auto.
      - cbn [strip_cmts_items filter is_stmt Doc.run_items Doc.step].
        pose proof (R_exec s t a H) as He.
        destruct (exec s a) as [s'|s'], (exec t a) as [t'|t']; try contradiction.
        + apply IH, He.
        + cbn. auto.
      - cbn [strip_cmts_items filter is_stmt Doc.run_items Doc.step]. apply IH, R_cmt, H.
    Qed.

    Definition subs_rel (a b : list (string * S)) : Prop :=
      Forall2 (fun x y => fst x = fst y /\ R (snd x) (snd y)) a b.
    Definition ds_rel (a b : dstate S) : Prop :=
      R (d_main a) (d_main b) /\ subs_rel (d_subs a) (d_subs b) /\ d_halted a = d_halted b.

    Lemma sub_or_init_rel n a b : subs_rel a b -> R (sub_or_init n a) (sub_or_init n b).
    Proof.
      unfold Doc.sub_or_init. induction 1 as [|[m v] [m' w] a b [Hn Hr] _ IH]; cbn; [apply R_refl|].
      cbn in Hn, Hr. subst m'. destruct (String.eqb n m); [exact Hr|exact IH].
    Qed.

    Lemma upsert_rel n v w a b : R v w -> subs_rel a b -> subs_rel (upsert n v a) (upsert n w b).
    Proof.
      intros Hv. induction 1 as [|[m x] [m' y] a b [Hn Hr] Hab IH]; cbn.
      - constructor; [cbn; auto|constructor].
      - cbn in Hn, Hr. subst m'. destruct (String.eqb n m).
        + constructor; [cbn; auto|exact Hab].
        + constructor; [cbn; auto|exact IH].
    Qed.

    Lemma run_elem_rel a b (e : elemT) : ds_rel a b -> ds_rel (run_elem a e) (run_elem b (strip_cmts_elem e)).
    Proof.
      intros (Hm & Hs & Hh). unfold Doc.run_elem. rewrite <- Hh.
      destruct (d_halted a) eqn:Ha; [repeat split; try assumption; congruence|].
      assert (Hmain : forall l,
        ds_rel (let '(s', ok) := run_items (d_main a) l in DS s' (d_subs a) (negb ok))
               (let '(s', ok) := run_items (d_main b) (strip_cmts_items l) in DS s' (d_subs b) (negb ok))).
      { intros l. destruct (run_items_strip_upto l _ _ Hm) as [H1 H2].
        destruct (run_items (d_main a) l) as [s1 o1], (run_items (d_main b) (strip_cmts_items l)) as [s2 o2].
        cbn in H1, H2. subst o2. repeat split; assumption. }
      destruct e as [p|p|l|[|n|] l]; cbn [strip_cmts_elem]; try (repeat split; try assumption; congruence).
      - apply Hmain.
      - apply Hmain.
      - destruct (run_items_strip_upto l _ _ (sub_or_init_rel n _ _ Hs)) as [H1 _].
        destruct (run_items (sub_or_init n (d_subs a)) l) as [s1 o1],
                 (run_items (sub_or_init n (d_subs b)) (strip_cmts_items l)) as [s2 o2].
        cbn in H1. unfold ds_rel. cbn.
        split; [exact Hm|]. split; [apply upsert_rel; assumption|reflexivity].
    Qed.

    Theorem comments_inert_upto (d : list elemT) : ds_rel (run_doc d) (run_doc (strip_cmts d)).
    Proof.
      unfold Doc.run_doc.
      assert (H0 : ds_rel (start init) (start init)) by (repeat split; [apply R_refl|constructor]).
      revert H0. generalize (start init) at 1 3 as a. generalize (start init) as b.
      induction d as [|e d IH]; intros b a H; [exact H|].
      cbn [strip_cmts map]. rewrite !run_from_cons. apply IH, run_elem_rel, H.
    Qed.
  End Upto.
End Generic.

(* ---------- the concrete instance: comments are NOT inert in the implementation's semantics ---------- *)
Definition refute_doc : list (elem tstmt string) := [Code [Stmt (TDef "x" (TLit 5)); Cmt "-- note"]].

Theorem comment_resets_ans :
  t_ans (d_main (trun refute_doc)) = None /\
  t_ans (d_main (trun (strip_cmts refute_doc))) = Some 5%Z /\
  t_vars (d_main (trun refute_doc)) = t_vars (d_main (trun (strip_cmts refute_doc))).
Proof. repeat split. Qed.

Theorem comments_not_inert : exists d : list (elem tstmt string), trun d <> trun (strip_cmts d).
Proof. exists refute_doc. intros H. apply (f_equal (fun x => t_ans (d_main x))) in H. discriminate H. Qed.

(* ... but all variables other than `ans` agree, for every document, in the concrete semantics *)
Definition same_vars (s t : tstore) : Prop := t_vars s = t_vars t.

Theorem toy_comments_inert_upto_ans (d : list (elem tstmt string)) :
  ds_rel same_vars (trun d) (trun (strip_cmts d)).
Proof.
  apply comments_inert_upto.
  - reflexivity.
  - intros s t H. exact H.
  - intros s t [x e] H. unfold same_vars in *. unfold texec. rewrite H.
    destruct (teval (t_vars t) e); [|exact H]. destruct (lookup x (t_vars t)); [exact H|]. reflexivity.
Qed.

(* ---------- judge ---------- *)
Fixpoint ns_spec (d : list (elem jstmt string)) (D : dobs) (ns : list string) (rest : list dobs) : Prop :=
  match ns, rest with
  | [], [] => True
  | n :: ns', Na :: Nb :: rest' =>
      o_src Na = ns_only n d /\ o_src Nb = ns_flat n d /\
      (exists t, lookup n (o_subs D) = Some t /\ lookup n (o_subs Na) = Some t /\ o_main Nb = t) /\
      ns_spec d D ns' rest'
  | _, _ => False
  end.

(* what an `ok` verdict asserts about the implementation's observations *)
Definition C10_spec (jd : list jelem) (os : list dobs) : Prop :=
  exists D M rest, os = D :: M :: rest /\
    o_src D = render_doc jd /\ o_src M = main_only (doc_of jd) /\
    is_perr (o_res D) = false /\ o_res D = o_res M /\ o_main D = o_main M /\
    List.length (o_subs D) = List.length (ns_names (doc_of jd)) /\
    ns_spec (doc_of jd) D (ns_names (doc_of jd)) rest.

Lemma tc_and_eq a b : tc_and a b = TEq -> a = TEq /\ b = TEq.
Proof. destruct a, b; cbn; intros H; try discriminate; auto. Qed.

Lemma table_check_eq c got want : table_check c got want = TEq -> got = want.
Proof.
  unfold table_check. destruct (sxs_eqb got want) eqn:E; [intros _; apply sxs_eqb_eq, E|].
  destruct (c && sxs_eqb got (set_ans_empty want)); discriminate.
Qed.

Lemma table_check_kf c got want :
  table_check c got want = TKf -> c = true /\ got = set_ans_empty want /\ got <> want.
Proof.
  unfold table_check. destruct (sxs_eqb got want) eqn:E; [discriminate|].
  destruct c; cbn [andb]; [|discriminate].
  destruct (sxs_eqb got (set_ans_empty want)) eqn:E2; [|discriminate].
  intros _. split; [reflexivity|]. split; [apply sxs_eqb_eq, E2|].
  intros ->. assert (X : sxs_eqb want want = true).
  { clear. induction want as [|x w IH]; [reflexivity|]. cbn. rewrite IH, Bool.andb_true_r.
    clear. revert x. fix F 1. intros [z|s|s|l]; cbn.
    - apply Z.eqb_refl. - apply String.eqb_refl. - apply String.eqb_refl.
    - induction l as [|y l IHl]; [reflexivity|]. rewrite F. exact IHl. }
  congruence.
Qed.

Lemma ns_checks_eq d D ns rest : ns_checks d D ns rest = Some TEq -> ns_spec d D ns rest.
Proof.
  revert rest. induction ns as [|n ns IH]; intros rest H.
  - destruct rest; [exact I|discriminate].
  - destruct rest as [|Na [|Nb rest]]; try discriminate. cbn [ns_checks] in H.
    destruct (ns_check d D n Na Nb) as [a|] eqn:Ea; [|discriminate].
    destruct (ns_checks d D ns rest) as [b|] eqn:Eb; [|discriminate].
    injection H as H. apply tc_and_eq in H as [-> ->].
    cbn [ns_spec]. unfold ns_check in Ea.
    destruct (String.eqb (o_src Na) (ns_only n d) && String.eqb (o_src Nb) (ns_flat n d)) eqn:Es; [|discriminate].
    apply andb_prop in Es as [Es1 Es2]. apply String.eqb_eq in Es1, Es2.
    destruct (lookup n (o_subs D)) as [t|] eqn:El; [|discriminate].
    destruct (lookup n (o_subs Na)) as [ta|] eqn:Ela; [|discriminate].
    injection Ea as Ea. apply tc_and_eq in Ea as [E1 E2].
    apply table_check_eq in E1, E2. subst ta.
    repeat split; try assumption.
    + exists t. auto.
    + apply IH, Eb.
Qed.

Theorem judge_doc_sound stream jd os tag :
  judge_doc stream jd os = Some (v_ok tag) -> C10_spec jd os.
Proof.
  unfold judge_doc. destruct os as [|D [|M rest]]; try discriminate.
  destruct (String.eqb (o_src D) (render_doc jd) && String.eqb (o_src M) (main_only (doc_of jd))) eqn:Es;
    cbn [negb]; [|discriminate].
  apply andb_prop in Es as [Es1 Es2]. apply String.eqb_eq in Es1, Es2.
  destruct (is_perr (o_res M)); [discriminate|].
  destruct (is_perr (o_res D)) eqn:Ep.
  { destruct (negb (String.eqb stream "plain")); [discriminate|]. destruct (kf_list_dash (doc_of jd)); discriminate. }
  destruct (ns_checks (doc_of jd) D (ns_names (doc_of jd)) rest) as [nsr|] eqn:En; [|discriminate].
  destruct (sx_eqb (o_res D) (o_res M)) eqn:Er; cbn [negb]; [|discriminate].
  destruct (Nat.eqb (List.length (o_subs D)) (List.length (ns_names (doc_of jd)))) eqn:El; cbn [negb]; [|discriminate].
  destruct (table_check (last_is_cmt (d_main (jrun (doc_of jd)))) (o_main D) (o_main M)) eqn:Et;
    destruct nsr; try discriminate.
  intros _. exists D, M, rest. repeat split; try assumption.
  - apply sx_eqb_eq, Er.
  - eapply table_check_eq, Et.
  - apply Nat.eqb_eq, El.
  - apply ns_checks_eq, En.
Qed.

(* a known-finding verdict is given only inside the finding's class and only for the predicted wrong behaviour *)
Theorem judge_kf_list_dash stream jd os :
  judge_doc stream jd os = Some (v_kf "list-then-dash-line") ->
  kf_list_dash (doc_of jd) = true /\ exists D M rest, os = D :: M :: rest /\ is_perr (o_res D) = true.
Proof.
  unfold judge_doc. destruct os as [|D [|M rest]]; try discriminate.
  destruct (negb _); [discriminate|].
  destruct (is_perr (o_res M)); [discriminate|].
  destruct (is_perr (o_res D)) eqn:Ep.
  - destruct (negb (String.eqb stream "plain")); [discriminate|].
    destruct (kf_list_dash (doc_of jd)) eqn:Ek; [|discriminate].
    intros _. split; [reflexivity|]. exists D, M, rest. auto.
  - destruct (ns_checks _ _ _ _) as [nsr|]; [|discriminate].
    destruct (negb _); [discriminate|]. destruct (negb _); [discriminate|].
    destruct (table_check _ _ _); destruct nsr; discriminate.
Qed.

(* the verdict `comment-resets-ans`: every table of the document equals the table of its code-only document, or
   (only where the model says that the last line the interpreter executed is a comment) that table with ans := Empty *)
Definition tok (c : bool) (got want : list sx) : Prop :=
  got = want \/ (c = true /\ got = set_ans_empty want).

Fixpoint ns_spec_kf (d : list (elem jstmt string)) (D : dobs) (ns : list string) (rest : list dobs) : Prop :=
  match ns, rest with
  | [], [] => True
  | n :: ns', Na :: Nb :: rest' =>
      o_src Na = ns_only n d /\ o_src Nb = ns_flat n d /\
      (exists t ta, lookup n (o_subs D) = Some t /\ lookup n (o_subs Na) = Some ta /\
         let c := last_is_cmt (sub_or_init [] n (d_subs (jrun d))) in tok c t ta /\ tok c t (o_main Nb)) /\
      ns_spec_kf d D ns' rest'
  | _, _ => False
  end.

Definition C10_spec_kf (jd : list jelem) (os : list dobs) : Prop :=
  exists D M rest, os = D :: M :: rest /\
    o_src D = render_doc jd /\ o_src M = main_only (doc_of jd) /\
    is_perr (o_res D) = false /\ o_res D = o_res M /\
    tok (last_is_cmt (d_main (jrun (doc_of jd)))) (o_main D) (o_main M) /\
    List.length (o_subs D) = List.length (ns_names (doc_of jd)) /\
    ns_spec_kf (doc_of jd) D (ns_names (doc_of jd)) rest.

Lemma table_check_tok c got want : table_check c got want <> TBad -> tok c got want.
Proof.
  destruct (table_check c got want) eqn:E; intros H.
  - left. eapply table_check_eq, E.
  - right. apply table_check_kf in E as (A & B & _). auto.
  - congruence.
Qed.

Lemma tc_and_nb a b : tc_and a b <> TBad -> a <> TBad /\ b <> TBad.
Proof. destruct a, b; cbn; intros H; split; congruence. Qed.

Lemma ns_checks_nb d D ns rest r : ns_checks d D ns rest = Some r -> r <> TBad -> ns_spec_kf d D ns rest.
Proof.
  revert rest r. induction ns as [|n ns IH]; intros rest r H Hr.
  - destruct rest; [exact I|discriminate].
  - destruct rest as [|Na [|Nb rest]]; try discriminate. cbn [ns_checks] in H.
    destruct (ns_check d D n Na Nb) as [a|] eqn:Ea; [|discriminate].
    destruct (ns_checks d D ns rest) as [b|] eqn:Eb; [|discriminate].
    injection H as H. subst r. apply tc_and_nb in Hr as [Ha Hb].
    cbn [ns_spec_kf]. unfold ns_check in Ea.
    destruct (String.eqb (o_src Na) (ns_only n d) && String.eqb (o_src Nb) (ns_flat n d)) eqn:Es; [|discriminate].
    apply andb_prop in Es as [Es1 Es2]. apply String.eqb_eq in Es1, Es2.
    destruct (lookup n (o_subs D)) as [t|] eqn:El; [|injection Ea as Ea; congruence].
    destruct (lookup n (o_subs Na)) as [ta|] eqn:Ela; [|injection Ea as Ea; congruence].
    injection Ea as Ea. subst a. apply tc_and_nb in Ha as [E1 E2].
    apply table_check_tok in E1, E2.
    repeat split; try assumption.
    + exists t, ta. cbv zeta. auto.
    + eapply IH; eassumption.
Qed.

Theorem judge_doc_kf_sound stream jd os :
  judge_doc stream jd os = Some (v_kf "comment-resets-ans") -> C10_spec_kf jd os.
Proof.
  unfold judge_doc. destruct os as [|D [|M rest]]; try discriminate.
  destruct (String.eqb (o_src D) (render_doc jd) && String.eqb (o_src M) (main_only (doc_of jd))) eqn:Es;
    cbn [negb]; [|discriminate].
  apply andb_prop in Es as [Es1 Es2]. apply String.eqb_eq in Es1, Es2.
  destruct (is_perr (o_res M)); [discriminate|].
  destruct (is_perr (o_res D)) eqn:Ep.
  { destruct (negb (String.eqb stream "plain")); [discriminate|]. destruct (kf_list_dash (doc_of jd)); discriminate. }
  destruct (ns_checks (doc_of jd) D (ns_names (doc_of jd)) rest) as [nsr|] eqn:En; [|discriminate].
  destruct (sx_eqb (o_res D) (o_res M)) eqn:Er; cbn [negb]; [|discriminate].
  destruct (Nat.eqb (List.length (o_subs D)) (List.length (ns_names (doc_of jd)))) eqn:El; cbn [negb]; [|discriminate].
  destruct (table_check (last_is_cmt (d_main (jrun (doc_of jd)))) (o_main D) (o_main M)) eqn:Et;
    destruct nsr eqn:Ensr; try discriminate; intros _;
    (exists D, M, rest; repeat split; try assumption;
     [apply sx_eqb_eq, Er | apply table_check_tok; congruence | apply Nat.eqb_eq, El
     | eapply ns_checks_nb; [exact En|congruence]]).
Qed.
