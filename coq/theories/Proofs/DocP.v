(* C10 — lemmas and theorems about the document algebra of Model/Doc.v. *)
From Coq Require Import List ZArith Ascii String Bool Arith Lia.
From MechV Require Import Base.Sexp Base.Obs Model.Doc Proofs.SexpP.
Import ListNotations.

Section Generic.
  Context {S stmt prose : Type}.
  Variable exec : S -> stmt -> res S.
  Variable cmt : S -> S.
  Variable init : S.

  Notation run_elem := (@run_elem S stmt prose exec cmt init).
  Notation run_from := (@run_from S stmt prose exec cmt init).
  Notation run_doc := (@run_doc S stmt prose exec cmt init).

  Lemma run_from_app ds d1 d2 : run_from ds (d1 ++ d2) = run_from (run_from ds d1) d2.
  Proof. unfold Doc.run_from. apply fold_left_app. Qed.

  Lemma run_elem_inert ds e : is_inert e = true -> run_elem ds e = ds.
  Proof.
    intros H. unfold Doc.run_elem. destruct (d_halted ds); [reflexivity|].
    destruct e as [p|p|l|[|n|] l]; cbn in H; try discriminate; reflexivity.
  Qed.

  Theorem prose_inert_from ds d : run_from ds (strip_prose d) = run_from ds d.
  Proof.
    revert ds. induction d as [|e d IH]; intros ds; [reflexivity|].
    cbn [strip_prose filter]. destruct (is_inert e) eqn:E; cbn [negb].
    - cbn [Doc.run_from fold_left]. rewrite (run_elem_inert ds e E). apply IH.
    - cbn [Doc.run_from fold_left]. apply IH.
  Qed.

  Theorem prose_inert d : run_doc (strip_prose d) = run_doc d.
  Proof. apply prose_inert_from. Qed.
End Generic.
