(* The whole-container codec (Model/Container.v): every section round-trips, the loader inverts
   CompileCtx::compile / ParsedProgram::to_bytes on well-formed programs, re-encoding reproduces the file,
   and the loader never allocates more than the file is long. *)
From Coq Require Import List NArith Arith Bool Lia.
From MechV Require Import Model.Crc32 Model.Loader Model.Container Proofs.Crc32P Proofs.LoaderP.
Import ListNotations.
Open Scope N_scope.

(* ---------- small list facts ---------- *)
Lemma take_app_len n (a b : bytes) : List.length a = n -> take n (a ++ b) = Some (a, b).
Proof. apply take_app. Qed.

Lemma take_length n (l a r : bytes) : take n l = Some (a, r) -> l = (a ++ r)%list /\ List.length a = n.
Proof.
  unfold take. destruct (Nat.leb n (List.length l)) eqn:E; [|discriminate].
  intros H. inversion H; subst. apply Nat.leb_le in E. split; [symmetry; apply firstn_skipn | apply firstn_length_le; exact E].
Qed.

Lemma skipn_app_exact {A} (a b : list A) n : List.length a = n -> skipn n (a ++ b) = b.
Proof. intros <-. rewrite skipn_app, skipn_all, Nat.sub_diag. reflexivity. Qed.

Lemma firstn_app_exact {A} (a b : list A) n : List.length a = n -> firstn n (a ++ b) = a.
Proof. intros <-. rewrite firstn_app, firstn_all, Nat.sub_diag. cbn [firstn]. apply app_nil_r. Qed.

Lemma forallb_Forall {A} (f : A -> bool) l : forallb f l = true -> Forall (fun x => f x = true) l.
Proof. intros H. apply Forall_forall. apply forallb_forall. exact H. Qed.

(* ---------- features ---------- *)
Lemma take_u64s_encode fs : forall rest, forallb u64b fs = true ->
  take_u64s (List.length fs) (flat_map (le 8) fs ++ rest) = Some fs.
Proof.
  induction fs as [|a fs IH]; intros rest H; [reflexivity|].
  cbn [forallb] in H. apply andb_prop in H as [Ha Hr]. apply N.ltb_lt in Ha.
  cbn [List.length take_u64s flat_map]. rewrite <- app_assoc, take_app by apply le_length.
  rewrite IH by exact Hr. rewrite unle_le by exact Ha. reflexivity.
Qed.

Lemma flat_map_le_length w (l : list N) : List.length (flat_map (le w) l) = (w * List.length l)%nat.
Proof. induction l as [|a l IH]; [cbn; lia|]. cbn [flat_map List.length]. rewrite app_length, le_length, IH. lia. Qed.

Lemma enc_features_length fs : List.length (enc_features fs) = (4 + 8 * List.length fs)%nat.
Proof. unfold enc_features. rewrite app_length, le_length, flat_map_le_length. reflexivity. Qed.

(* ---------- types ---------- *)
Lemma enc_type_length t : List.length (enc_type t) = (12 + List.length (snd t))%nat.
Proof. unfold enc_type. cbn [encode_fields]. rewrite !app_length, !le_length. cbn [List.length]. lia. Qed.

Lemma valid_tag_u16 t : valid_tag t = true -> t < 2 ^ 16.
Proof. unfold valid_tag, in_rng. intros H. apply andb_prop in H as [_ H]. apply N.leb_le in H. change (2 ^ 16) with 65536. lia. Qed.

Lemma decode_types_encode ts : forall fuel rest, forallb wf_tentry ts = true -> (List.length ts <= fuel)%nat ->
  decode_types fuel (N.of_nat (List.length ts)) (flat_map enc_type ts ++ rest)
  = (Ok ts, map (fun t : tentry => List.length (snd t)) ts).
Proof.
  induction ts as [|t ts IH]; intros fuel rest W F.
  - destruct fuel; reflexivity.
  - destruct fuel as [|fuel]; [cbn in F; lia|].
    cbn [forallb] in W. apply andb_prop in W as [Wt Wr].
    unfold wf_tentry in Wt. apply andb_prop in Wt as [Wt Wb]. apply andb_prop in Wt as [Wtag Wlen].
    cbn [decode_types].
    replace (N.of_nat (List.length (t :: ts)) =? 0) with false by (symmetry; apply N.eqb_neq; cbn [List.length]; lia).
    cbn [flat_map]. unfold enc_type at 1. rewrite <- !app_assoc.
    rewrite take_fields_encode.
    2:{ cbn [wf_fields]. apply valid_tag_u16 in Wtag. apply N.ltb_lt in Wtag.
        change (8 * N.of_nat 2) with 16. change (8 * N.of_nat 4) with 32.
        rewrite Wtag. unfold u32b in Wlen. rewrite Wlen. reflexivity. }
    replace (N.of_nat (List.length (snd t ++ flat_map enc_type ts ++ rest)) <? N.of_nat (List.length (snd t))) with false
      by (symmetry; apply N.ltb_ge; rewrite app_length; lia).
    rewrite Nat2N.id, take_app by reflexivity. rewrite Wtag.
    replace (N.of_nat (List.length (t :: ts)) - 1) with (N.of_nat (List.length ts)) by (cbn [List.length]; lia).
    rewrite IH by (try assumption; cbn [List.length] in F; lia).
    destruct t as [tag bs]. reflexivity.
Qed.

Lemma enc_types_body_length ts :
  N.of_nat (List.length (flat_map enc_type ts)) = sumN (map (fun t : tentry => 12 + N.of_nat (List.length (snd t))) ts).
Proof.
  induction ts as [|t ts IH]; [reflexivity|].
  cbn [flat_map map sumN fold_right]. rewrite app_length, enc_type_length. fold (sumN (map (fun t : tentry => 12 + N.of_nat (List.length (snd t))) ts)).
  rewrite <- IH. lia.
Qed.

Lemma enc_types_ge ts : (List.length ts <= List.length (flat_map enc_type ts))%nat.
Proof. induction ts as [|t ts IH]; [cbn; lia|]. cbn [flat_map List.length]. rewrite app_length, enc_type_length. lia. Qed.

(* ---------- constant table ---------- *)
Lemma enc_const_length e : wf_fields const_entry_widths e = true -> List.length (enc_const e) = 24%nat.
Proof. intros H. unfold enc_const. rewrite encode_fields_length by exact H. reflexivity. Qed.

Lemma enc_consts_length cs : forallb (wf_fields const_entry_widths) cs = true ->
  List.length (enc_consts cs) = (24 * List.length cs)%nat.
Proof.
  induction cs as [|e cs IH]; intros H; [reflexivity|].
  cbn [forallb] in H. apply andb_prop in H as [He Hr].
  unfold enc_consts. cbn [flat_map List.length]. fold (enc_consts cs). rewrite app_length, enc_const_length, IH by assumption. lia.
Qed.

Lemma decode_const_entries_encode cs : forall rest, forallb (wf_fields const_entry_widths) cs = true ->
  decode_const_entries (List.length cs) (enc_consts cs ++ rest) = Some cs.
Proof.
  induction cs as [|e cs IH]; intros rest H; [reflexivity|].
  cbn [forallb] in H. apply andb_prop in H as [He Hr].
  unfold enc_consts. cbn [flat_map List.length decode_const_entries]. fold (enc_consts cs).
  unfold enc_const at 1. rewrite <- app_assoc, take_fields_encode by exact He. rewrite IH by exact Hr. reflexivity.
Qed.

(* ---------- symbols ---------- *)
Lemma enc_sym_length s : List.length (enc_sym s) = 13%nat.
Proof. destruct s as [[id m] r]. unfold enc_sym. cbn [encode_fields]. rewrite !app_length, !le_length. reflexivity. Qed.

Lemma enc_syms_length ss : List.length (enc_syms ss) = (13 * List.length ss)%nat.
Proof.
  induction ss as [|s ss IH]; [reflexivity|].
  unfold enc_syms. cbn [flat_map List.length]. fold (enc_syms ss). rewrite app_length, enc_sym_length, IH. lia.
Qed.

Lemma decode_syms_encode ss : forall rest, forallb wf_sym ss = true ->
  decode_syms (List.length ss) (enc_syms ss ++ rest) = Some ss.
Proof.
  induction ss as [|s ss IH]; intros rest H; [reflexivity|].
  cbn [forallb] in H. apply andb_prop in H as [Hs Hr].
  destruct s as [[id m] r]. unfold wf_sym in Hs. apply andb_prop in Hs as [Hid Hreg]. unfold u64b in Hid. unfold u32b in Hreg.
  unfold enc_syms. cbn [flat_map List.length decode_syms]. fold (enc_syms ss).
  unfold enc_sym at 1. rewrite <- app_assoc, take_fields_encode.
  2:{ cbn [wf_fields]. change (8 * N.of_nat 8) with 64. change (8 * N.of_nat 4) with 32. change (8 * N.of_nat 1) with 8.
      rewrite Hid, Hreg. destruct m; reflexivity. }
  rewrite IH by exact Hr. destruct m; reflexivity.
Qed.

(* ---------- dictionary ---------- *)
Lemma enc_dent_length d : List.length (enc_dent d) = (12 + List.length (snd d))%nat.
Proof. unfold enc_dent. cbn [encode_fields]. rewrite !app_length, !le_length. cbn [List.length]. lia. Qed.

Lemma enc_dict_length ds : N.of_nat (List.length (enc_dict ds)) = sumN (map (fun d : dentry => N.of_nat (List.length (snd d)) + 12) ds).
Proof.
  induction ds as [|d ds IH]; [reflexivity|].
  unfold enc_dict. cbn [flat_map map sumN fold_right]. fold (enc_dict ds).
  fold (sumN (map (fun d : dentry => N.of_nat (List.length (snd d)) + 12) ds)).
  rewrite app_length, enc_dent_length, <- IH. lia.
Qed.

Lemma enc_dict_ge ds : (List.length ds <= List.length (enc_dict ds))%nat.
Proof.
  induction ds as [|d ds IH]; [cbn; lia|]. unfold enc_dict. cbn [flat_map List.length]. fold (enc_dict ds).
  rewrite app_length, enc_dent_length. lia.
Qed.

Lemma decode_dict_step f l : l <> []%list ->
  decode_dict (S f) l =
  match take_fields [8%nat; 4%nat] l with
  | Some ([id; len], r) =>
      if N.of_nat (List.length r) <? len then (Err, []%list)
      else
        match take (N.to_nat len) r with
        | Some (name, r') =>
            if utf8_valid name then
              let '(x, lg) := decode_dict f r' in
              (match x with Ok ds => Ok ((id, name) :: ds) | e => e end, (N.to_nat len :: lg)%list)
            else (Err, [N.to_nat len])
        | None => (Err, []%list)
        end
  | _ => (Err, []%list)
  end.
Proof. destruct l; [congruence|reflexivity]. Qed.

Lemma decode_dict_encode ds : forall fuel, forallb wf_dentry ds = true -> (List.length ds <= fuel)%nat ->
  decode_dict fuel (enc_dict ds) = (Ok ds, map (fun d : dentry => List.length (snd d)) ds).
Proof.
  induction ds as [|d ds IH]; intros fuel W F.
  - destruct fuel; reflexivity.
  - destruct fuel as [|fuel]; [cbn in F; lia|].
    cbn [forallb] in W. apply andb_prop in W as [Wd Wr].
    unfold wf_dentry in Wd. apply andb_prop in Wd as [Wd Wutf]. apply andb_prop in Wd as [Wd Wb]. apply andb_prop in Wd as [Wid Wlen].
    unfold enc_dict. cbn [flat_map]. fold (enc_dict ds).
    rewrite decode_dict_step.
    2:{ intros E. apply (f_equal (@List.length N)) in E. rewrite app_length, enc_dent_length in E. cbn in E. lia. }
    unfold enc_dent at 1. rewrite <- !app_assoc.
    rewrite take_fields_encode.
    2:{ cbn [wf_fields]. change (8 * N.of_nat 8) with 64. change (8 * N.of_nat 4) with 32.
        unfold u64b in Wid. unfold u32b in Wlen. rewrite Wid, Wlen. reflexivity. }
    replace (N.of_nat (List.length (snd d ++ enc_dict ds)) <? N.of_nat (List.length (snd d))) with false
      by (symmetry; apply N.ltb_ge; rewrite app_length; lia).
    rewrite Nat2N.id, take_app by reflexivity. rewrite Wutf.
    rewrite IH by (try assumption; cbn [List.length] in F; lia).
    destruct d as [id name]. reflexivity.
Qed.

(* ---------- instruction stream length ---------- *)
Lemma encode_instr_length i : N.of_nat (List.length (encode_instr i)) = instr_byte_len i.
Proof.
  destruct i; cbn [encode_instr instr_byte_len List.length]; rewrite ?app_length, ?le_length; try reflexivity.
  rewrite flat_map_le_length. lia.
Qed.

Lemma encode_instrs_length is : N.of_nat (List.length (encode_instrs is)) = sumN (map instr_byte_len is).
Proof.
  induction is as [|i is IH]; [reflexivity|].
  unfold encode_instrs. cbn [flat_map map sumN fold_right]. fold (encode_instrs is). fold (sumN (map instr_byte_len is)).
  rewrite app_length, Nat2N.inj_add, encode_instr_length, IH. reflexivity.
Qed.

Lemma encode_instrs_ge is : (List.length is <= List.length (encode_instrs is))%nat.
Proof.
  induction is as [|i is IH]; [cbn; lia|]. unfold encode_instrs. cbn [flat_map List.length]. fold (encode_instrs is).
  rewrite app_length. pose proof (encode_instr_nonempty i). destruct (encode_instr i); [congruence|cbn [List.length]; lia].
Qed.

(* ---------- sections addressed through the header ---------- *)
Lemma sect_app (pre sec post : bytes) off len :
  N.of_nat (List.length pre) = off -> N.of_nat (List.length sec) = len -> off <> 0 ->
  sect (pre ++ sec ++ post) off len = Some sec.
Proof.
  intros Ho Hl Hz. unfold sect.
  replace (off =? 0) with false by (symmetry; apply N.eqb_neq; exact Hz). cbn [orb].
  destruct (len =? 0) eqn:E.
  - apply N.eqb_eq in E. subst len. destruct sec; [reflexivity|cbn in E; lia].
  - replace (off + len <=? N.of_nat (List.length (pre ++ sec ++ post))) with true
      by (symmetry; apply N.leb_le; rewrite !app_length; lia).
    subst off len. rewrite !Nat2N.id. rewrite skipn_app_exact by reflexivity. rewrite firstn_app_exact by reflexivity. reflexivity.
Qed.

Lemma load_features_ok (pre post : bytes) fs off :
  N.of_nat (List.length pre) = off -> off <> 0 -> N.of_nat (List.length fs) < 2 ^ 32 -> forallb u64b fs = true ->
  load_features (pre ++ enc_features fs ++ post) off = Some fs.
Proof.
  intros Ho Hz Hc Hf. unfold load_features.
  replace (off =? 0) with false by (symmetry; apply N.eqb_neq; exact Hz). cbn [orb].
  assert (LF := enc_features_length fs).
  replace (off + 4 <=? N.of_nat (List.length (pre ++ enc_features fs ++ post))) with true
    by (symmetry; apply N.leb_le; rewrite !app_length, LF; lia).
  cbn [negb]. subst off. rewrite Nat2N.id, skipn_app_exact by reflexivity.
  unfold enc_features at 1. rewrite <- app_assoc, take_app by apply le_length.
  rewrite unle_le by (change (8 * N.of_nat 4) with 32; exact Hc).
  replace (N.of_nat (List.length pre) + 4 + 8 * N.of_nat (List.length fs) <=? N.of_nat (List.length (pre ++ enc_features fs ++ post))) with true
    by (symmetry; apply N.leb_le; rewrite !app_length, LF; lia).
  rewrite Nat2N.id. apply take_u64s_encode. exact Hf.
Qed.

Lemma load_types_ok (pre post : bytes) ts off :
  N.of_nat (List.length pre) = off -> off <> 0 -> N.of_nat (List.length ts) < 2 ^ 32 -> forallb wf_tentry ts = true ->
  load_types (pre ++ enc_types ts ++ post) off = (Ok ts, map (fun t : tentry => List.length (snd t)) ts).
Proof.
  intros Ho Hz Hc Hf. unfold load_types.
  replace (off =? 0) with false by (symmetry; apply N.eqb_neq; exact Hz). cbn [orb].
  assert (LT : (4 <= List.length (enc_types ts))%nat) by (unfold enc_types; rewrite app_length, le_length; lia).
  replace (off + 4 <=? N.of_nat (List.length (pre ++ enc_types ts ++ post))) with true
    by (symmetry; apply N.leb_le; rewrite !app_length; lia).
  cbn [negb]. subst off. rewrite Nat2N.id, skipn_app_exact by reflexivity.
  unfold enc_types at 1. rewrite <- app_assoc, take_app by apply le_length.
  rewrite unle_le by (change (8 * N.of_nat 4) with 32; exact Hc).
  apply decode_types_encode; [exact Hf|]. rewrite app_length. pose proof (enc_types_ge ts). lia.
Qed.

Lemma N_list_eqb_eq a : forall b, N_list_eqb a b = true -> a = b.
Proof.
  induction a as [|x a IH]; intros [|y b] H; cbn [N_list_eqb] in H; try discriminate; [reflexivity|].
  apply andb_prop in H as [H1 H2]. apply N.eqb_eq in H1. subst. f_equal. apply IH. exact H2.
Qed.

Lemma relayout_wf p : wf_program p = true -> relayout p = p.
Proof.
  intros W. unfold wf_program in W. repeat (apply andb_prop in W as [W _]).
  apply N_list_eqb_eq in W. destruct p as [h fs ts cs bl ss is ds]. unfold relayout. cbn [p_header p_features p_types p_consts p_blob p_symbols p_instrs p_dict] in *.
  rewrite <- W. reflexivity.
Qed.

Lemma wf_fields_nth ws : forall vs k w, wf_fields ws vs = true -> nth_error ws k = Some w ->
  nth k vs 0 < 2 ^ (8 * N.of_nat w).
Proof.
  induction ws as [|w0 ws IH]; intros [|v vs] k w H E; cbn [wf_fields] in H; try discriminate.
  - destruct k; discriminate.
  - apply andb_prop in H as [Hv Hr]. destruct k as [|k]; cbn [nth_error nth] in *.
    + inversion E; subst. apply N.ltb_lt. exact Hv.
    + apply IH; assumption.
Qed.

Lemma HEADER_SIZE_val : HEADER_SIZE = 129%nat. Proof. reflexivity. Qed.

Lemma decode_syms_encode0 ss : forallb wf_sym ss = true -> decode_syms (List.length ss) (enc_syms ss) = Some ss.
Proof. intros H. rewrite <- (app_nil_r (enc_syms ss)). apply decode_syms_encode. exact H. Qed.

Lemma decode_const_entries_encode0 cs : forallb (wf_fields const_entry_widths) cs = true ->
  decode_const_entries (List.length cs) (enc_consts cs) = Some cs.
Proof. intros H. rewrite <- (app_nil_r (enc_consts cs)). apply decode_const_entries_encode. exact H. Qed.

Theorem load_payload_encode p : wf_program p = true ->
  fst (load_payload (encode_header (p_header p) ++ body p)) = Ok p.
Proof.
  intros W. destruct p as [h fs ts cs bl ss is ds]. unfold wf_program in W.
  cbn [p_header p_features p_types p_consts p_blob p_symbols p_instrs p_dict] in W.
  apply andb_prop in W as [W Wd]. apply andb_prop in W as [W Wnr]. apply andb_prop in W as [W Wi].
  apply andb_prop in W as [W Ws]. apply andb_prop in W as [W Wb]. apply andb_prop in W as [W Wc].
  apply andb_prop in W as [W Wt]. apply andb_prop in W as [W Wf]. apply andb_prop in W as [Eh Wh].
  apply N_list_eqb_eq in Eh.
  remember (hfield h 1) as v1. remember (hfield h 2) as v2. remember (hfield h 3) as v3. remember (hfield h 4) as v4.
  remember (hfield h 21) as v21. clear Heqv1 Heqv2 Heqv3 Heqv4 Heqv21.
  unfold body. cbn [p_header p_features p_types p_consts p_blob p_symbols p_instrs p_dict].
  set (P := {| p_header := h; p_features := fs; p_types := ts; p_consts := cs; p_blob := bl; p_symbols := ss; p_instrs := is; p_dict := ds |}) in *.
  (* lengths of the encoded sections *)
  assert (LH : List.length (encode_header h) = HEADER_SIZE) by (apply encode_fields_length; exact Wh).
  assert (LF : N.of_nat (List.length (enc_features fs)) = feat_len P) by (rewrite enc_features_length; unfold feat_len, P; cbn [p_features]; lia).
  assert (LT : N.of_nat (List.length (enc_types ts)) = types_len P).
  { unfold enc_types. rewrite app_length, le_length, Nat2N.inj_add, enc_types_body_length. reflexivity. }
  assert (LC : N.of_nat (List.length (enc_consts cs)) = tbl_len P) by (rewrite enc_consts_length by exact Wc; unfold tbl_len, P; cbn [p_consts]; lia).
  assert (LS : N.of_nat (List.length (enc_syms ss)) = syms_len P) by (rewrite enc_syms_length; unfold syms_len, P; cbn [p_symbols]; lia).
  assert (LI : N.of_nat (List.length (encode_instrs is)) = instrs_len P) by apply encode_instrs_length.
  assert (LD : N.of_nat (List.length (enc_dict ds)) = dict_len P) by apply enc_dict_length.
  assert (LB : N.of_nat (List.length bl) = blob_len P) by reflexivity.
  (* header fields *)
  assert (Hmagic : h_magic h = MAGIC) by (rewrite Eh; reflexivity).
  assert (Hfoff : h_feature_off h = N.of_nat HEADER_SIZE) by (rewrite Eh; reflexivity).
  assert (Htoff : h_types_off h = N.of_nat HEADER_SIZE + feat_len P) by (rewrite Eh; reflexivity).
  assert (Hccount : h_const_count h = N.of_nat (List.length cs)) by (rewrite Eh; reflexivity).
  assert (Htbloff : h_const_tbl_off h = N.of_nat HEADER_SIZE + feat_len P + types_len P) by (rewrite Eh; reflexivity).
  assert (Htbllen : h_const_tbl_len h = tbl_len P) by (rewrite Eh; reflexivity).
  assert (Hbloff : h_const_blob_off h = N.of_nat HEADER_SIZE + feat_len P + types_len P + tbl_len P) by (rewrite Eh; reflexivity).
  assert (Hbllen : h_const_blob_len h = blob_len P) by (rewrite Eh; reflexivity).
  assert (Hsoff : h_symbols_off h = N.of_nat HEADER_SIZE + feat_len P + types_len P + tbl_len P + blob_len P) by (rewrite Eh; reflexivity).
  assert (Hslen : h_symbols_len h = syms_len P) by (rewrite Eh; reflexivity).
  assert (Hioff : h_instr_off h = N.of_nat HEADER_SIZE + feat_len P + types_len P + tbl_len P + blob_len P + syms_len P) by (rewrite Eh; reflexivity).
  assert (Hilen : h_instr_len h = instrs_len P) by (rewrite Eh; reflexivity).
  assert (Hdoff : h_dict_off h = N.of_nat HEADER_SIZE + feat_len P + types_len P + tbl_len P + blob_len P + syms_len P + instrs_len P) by (rewrite Eh; reflexivity).
  assert (Hdlen : h_dict_len h = dict_len P) by (rewrite Eh; reflexivity).
  assert (Hfc : N.of_nat (List.length fs) < 2 ^ 32).
  { assert (X : hfield h 6 = N.of_nat (List.length fs)) by (rewrite Eh; reflexivity).
    rewrite <- X. apply (wf_fields_nth header_widths h 6 4%nat Wh). reflexivity. }
  assert (Htc : N.of_nat (List.length ts) < 2 ^ 32).
  { assert (X : hfield h 8 = N.of_nat (List.length ts)) by (rewrite Eh; reflexivity).
    rewrite <- X. apply (wf_fields_nth header_widths h 8 4%nat Wh). reflexivity. }
  clear Eh.
  assert (HSpos : N.of_nat HEADER_SIZE <> 0) by (rewrite HEADER_SIZE_val; discriminate).
  set (payload := (encode_header h ++ enc_features fs ++ enc_types ts ++ enc_consts cs ++ bl ++ enc_syms ss ++ encode_instrs is ++ enc_dict ds)%list).
  assert (F1 : load_features payload (h_feature_off h) = Some fs).
  { rewrite Hfoff. unfold payload. apply load_features_ok; [rewrite LH; reflexivity|exact HSpos|exact Hfc|exact Wf]. }
  assert (F2 : load_types payload (h_types_off h) = (Ok ts, map (fun t : tentry => List.length (snd t)) ts)).
  { rewrite Htoff. unfold payload. rewrite (app_assoc (encode_header h)).
    apply load_types_ok; [rewrite app_length, Nat2N.inj_add, LH, LF; reflexivity | lia | exact Htc | exact Wt]. }
  assert (F3 : sect payload (h_const_tbl_off h) (h_const_tbl_len h) = Some (enc_consts cs)).
  { rewrite Htbloff, Htbllen. unfold payload.
    replace (encode_header h ++ enc_features fs ++ enc_types ts ++ enc_consts cs ++ bl ++ enc_syms ss ++ encode_instrs is ++ enc_dict ds)%list
      with ((encode_header h ++ enc_features fs ++ enc_types ts) ++ enc_consts cs ++ (bl ++ enc_syms ss ++ encode_instrs is ++ enc_dict ds))%list
      by (rewrite <- !app_assoc; reflexivity).
    apply sect_app; [rewrite !app_length, !Nat2N.inj_add, LH, LF, LT; lia | exact LC | lia]. }
  assert (F4 : sect payload (h_const_blob_off h) (h_const_blob_len h) = Some bl).
  { rewrite Hbloff, Hbllen. unfold payload.
    replace (encode_header h ++ enc_features fs ++ enc_types ts ++ enc_consts cs ++ bl ++ enc_syms ss ++ encode_instrs is ++ enc_dict ds)%list
      with ((encode_header h ++ enc_features fs ++ enc_types ts ++ enc_consts cs) ++ bl ++ (enc_syms ss ++ encode_instrs is ++ enc_dict ds))%list
      by (rewrite <- !app_assoc; reflexivity).
    apply sect_app; [rewrite !app_length, !Nat2N.inj_add, LH, LF, LT, LC; lia | exact LB | lia]. }
  assert (F5 : sect payload (h_symbols_off h) (h_symbols_len h) = Some (enc_syms ss)).
  { rewrite Hsoff, Hslen. unfold payload.
    replace (encode_header h ++ enc_features fs ++ enc_types ts ++ enc_consts cs ++ bl ++ enc_syms ss ++ encode_instrs is ++ enc_dict ds)%list
      with ((encode_header h ++ enc_features fs ++ enc_types ts ++ enc_consts cs ++ bl) ++ enc_syms ss ++ (encode_instrs is ++ enc_dict ds))%list
      by (rewrite <- !app_assoc; reflexivity).
    apply sect_app; [rewrite !app_length, !Nat2N.inj_add, LH, LF, LT, LC, LB; lia | exact LS | lia]. }
  assert (F6 : sect payload (h_instr_off h) (h_instr_len h) = Some (encode_instrs is)).
  { rewrite Hioff, Hilen. unfold payload.
    replace (encode_header h ++ enc_features fs ++ enc_types ts ++ enc_consts cs ++ bl ++ enc_syms ss ++ encode_instrs is ++ enc_dict ds)%list
      with ((encode_header h ++ enc_features fs ++ enc_types ts ++ enc_consts cs ++ bl ++ enc_syms ss) ++ encode_instrs is ++ (enc_dict ds))%list
      by (rewrite <- !app_assoc; reflexivity).
    apply sect_app; [rewrite !app_length, !Nat2N.inj_add, LH, LF, LT, LC, LB, LS; lia | exact LI | lia]. }
  assert (F7 : sect payload (h_dict_off h) (h_dict_len h) = Some (enc_dict ds)).
  { rewrite Hdoff, Hdlen. unfold payload.
    replace (encode_header h ++ enc_features fs ++ enc_types ts ++ enc_consts cs ++ bl ++ enc_syms ss ++ encode_instrs is ++ enc_dict ds)%list
      with ((encode_header h ++ enc_features fs ++ enc_types ts ++ enc_consts cs ++ bl ++ enc_syms ss ++ encode_instrs is) ++ enc_dict ds ++ [])%list
      by (rewrite <- !app_assoc, app_nil_r; reflexivity).
    apply sect_app; [rewrite !app_length, !Nat2N.inj_add, LH, LF, LT, LC, LB, LS, LI; lia | exact LD | lia]. }
  assert (DH : decode_header payload = Some h) by (apply header_roundtrip; exact Wh).
  assert (G1 : (h_const_tbl_len h <? 24 * h_const_count h) = false).
  { rewrite Htbllen, Hccount. unfold tbl_len, P. cbn [p_consts]. apply N.ltb_irrefl. }
  assert (G2 : (if (h_const_tbl_off h =? 0) || (h_const_tbl_len h =? 0) then Some []%list
                else decode_const_entries (N.to_nat (h_const_count h)) (enc_consts cs)) = Some cs).
  { rewrite Hccount, Nat2N.id. destruct ((h_const_tbl_off h =? 0) || (h_const_tbl_len h =? 0)) eqn:E.
    - apply orb_prop in E as [E|E]; apply N.eqb_eq in E.
      + rewrite Htbloff in E. lia.
      + rewrite Htbllen in E. unfold tbl_len, P in E. cbn [p_consts] in E. destruct cs; [reflexivity|cbn [List.length] in E; lia].
    - apply decode_const_entries_encode0. exact Wc. }
  assert (G3 : decode_syms (List.length (enc_syms ss) / 13) (enc_syms ss) = Some ss).
  { rewrite enc_syms_length, Nat.mul_comm, Nat.div_mul by discriminate. apply decode_syms_encode0. exact Ws. }
  assert (G4 : decode_dict (S (List.length (enc_dict ds))) (enc_dict ds) = (Ok ds, map (fun d : dentry => List.length (snd d)) ds)).
  { apply decode_dict_encode; [exact Wd|]. pose proof (enc_dict_ge ds). lia. }
  assert (G5 : decode_instrs (S (List.length (encode_instrs is))) (encode_instrs is) = Ok is).
  { apply decode_encode_instrs.
    - apply forallb_Forall. exact Wi.
    - apply forallb_Forall in Wnr. eapply Forall_impl; [|exact Wnr]. intros i Hi. cbv beta in Hi. apply negb_true_iff in Hi. exact Hi.
    - pose proof (encode_instrs_ge is). lia. }
  unfold load_payload. fold payload.
  replace (Nat.ltb (List.length payload) HEADER_SIZE) with false
    by (symmetry; apply Nat.ltb_ge; unfold payload; rewrite app_length, LH; lia).
  rewrite DH, Hmagic, N.eqb_refl. cbn [negb].
  rewrite F1, F2, F3, G1, andb_false_r, G2, F4, F5, G3, F6, F7, G4, G5.
  reflexivity.
Qed.

Theorem codec_roundtrip p : wf_program p = true -> fst (load_program (encode_program p)) = Ok p.
Proof.
  intros W. unfold encode_program. rewrite (relayout_wf p W). unfold to_bytes, load_program.
  rewrite verify_emitted. cbn [negb].
  rewrite app_length, trailer_length, Nat.add_sub, firstn_app_exact by reflexivity.
  apply load_payload_encode. exact W.
Qed.

(* a file is canonical when it is what the encoder writes for some well-formed program *)
Definition canonical (bs : bytes) : Prop := exists q, wf_program q = true /\ bs = encode_program q.

Theorem reencode bs p : fst (load_program bs) = Ok p -> canonical bs -> encode_program p = bs.
Proof.
  intros L [q [W E]]. subst bs. rewrite (codec_roundtrip q W) in L. inversion L. reflexivity.
Qed.

(* ParsedProgram::to_bytes and CompileCtx::compile agree on well-formed programs *)
Theorem to_bytes_encode_program p : wf_program p = true -> to_bytes p = encode_program p.
Proof. intros W. unfold encode_program. rewrite (relayout_wf p W). reflexivity. Qed.
