(* The whole-container codec (Model/Container.v): every section round-trips, the loader inverts
   CompileCtx::compile / ParsedProgram::to_bytes on well-formed programs, re-encoding reproduces the file,
   and the loader never allocates more than the file is long. *)
From Coq Require Import List NArith Arith Bool Lia.
From MechV Require Import Model.Crc32 Model.Loader Model.Container Proofs.Crc32P Proofs.LoaderP.
Import ListNotations.
Open Scope N_scope.

(* ---------- small list facts ---------- *)
Lemma take_app_len n (a b : bytes) : List.length a = n -> take n (a ++ b) = Some (a, b).
Proof. apply take_app. Qed.

Lemma take_length n (l a r : bytes) : take n l = Some (a, r) -> l = (a ++ r)%list /\ List.length a = n.
Proof.
  unfold take. destruct (Nat.leb n (List.length l)) eqn:E; [|discriminate].
  intros H. inversion H; subst. apply Nat.leb_le in E. split; [symmetry; apply firstn_skipn | apply firstn_length_le; exact E].
Qed.

Lemma skipn_app_exact {A} (a b : list A) n : List.length a = n -> skipn n (a ++ b) = b.
Proof. intros <-. rewrite skipn_app, skipn_all, Nat.sub_diag. reflexivity. Qed.

Lemma firstn_app_exact {A} (a b : list A) n : List.length a = n -> firstn n (a ++ b) = a.
Proof. intros <-. rewrite firstn_app, firstn_all, Nat.sub_diag. cbn [firstn]. apply app_nil_r. Qed.

Lemma forallb_Forall {A} (f : A -> bool) l : forallb f l = true -> Forall (fun x => f x = true) l.
Proof. intros H. apply Forall_forall. apply forallb_forall. exact H. Qed.

(* ---------- features ---------- *)
Lemma take_u64s_encode fs : forall rest, forallb u64b fs = true ->
  take_u64s (List.length fs) (flat_map (le 8) fs ++ rest) = Some fs.
Proof.
  induction fs as [|a fs IH]; intros rest H; [reflexivity|].
  cbn [forallb] in H. apply andb_prop in H as [Ha Hr]. apply N.ltb_lt in Ha.
  cbn [List.length take_u64s flat_map]. rewrite <- app_assoc, take_app by apply le_length.
  rewrite IH by exact Hr. rewrite unle_le by exact Ha. reflexivity.
Qed.

Lemma flat_map_le_length w (l : list N) : List.length (flat_map (le w) l) = (w * List.length l)%nat.
Proof. induction l as [|a l IH]; [cbn; lia|]. cbn [flat_map List.length]. rewrite app_length, le_length, IH. lia. Qed.

Lemma enc_features_length fs : List.length (enc_features fs) = (4 + 8 * List.length fs)%nat.
Proof. unfold enc_features. rewrite app_length, le_length, flat_map_le_length. reflexivity. Qed.

(* ---------- types ---------- *)
Lemma enc_type_length t : List.length (enc_type t) = (12 + List.length (snd t))%nat.
Proof. unfold enc_type. cbn [encode_fields]. rewrite !app_length, !le_length. cbn [List.length]. lia. Qed.

Lemma valid_tag_u16 t : valid_tag t = true -> t < 2 ^ 16.
Proof. unfold valid_tag, in_rng. intros H. apply andb_prop in H as [_ H]. apply N.leb_le in H. change (2 ^ 16) with 65536. lia. Qed.

Lemma decode_types_encode ts : forall fuel rest, forallb wf_tentry ts = true -> (List.length ts <= fuel)%nat ->
  decode_types fuel (N.of_nat (List.length ts)) (flat_map enc_type ts ++ rest)
  = (Ok ts, map (fun t : tentry => List.length (snd t)) ts).
Proof.
  induction ts as [|t ts IH]; intros fuel rest W F.
  - destruct fuel; reflexivity.
  - destruct fuel as [|fuel]; [cbn in F; lia|].
    cbn [forallb] in W. apply andb_prop in W as [Wt Wr].
    unfold wf_tentry in Wt. apply andb_prop in Wt as [Wt Wb]. apply andb_prop in Wt as [Wtag Wlen].
    cbn [decode_types].
    replace (N.of_nat (List.length (t :: ts)) =? 0) with false by (symmetry; apply N.eqb_neq; cbn [List.length]; lia).
    cbn [flat_map]. unfold enc_type at 1. rewrite <- !app_assoc.
    rewrite take_fields_encode.
    2:{ cbn [wf_fields]. apply valid_tag_u16 in Wtag. apply N.ltb_lt in Wtag.
        change (8 * N.of_nat 2) with 16. change (8 * N.of_nat 4) with 32.
        rewrite Wtag. unfold u32b in Wlen. rewrite Wlen. reflexivity. }
    replace (N.of_nat (List.length (snd t ++ flat_map enc_type ts ++ rest)) <? N.of_nat (List.length (snd t))) with false
      by (symmetry; apply N.ltb_ge; rewrite app_length; lia).
    rewrite Nat2N.id, take_app by reflexivity. rewrite Wtag.
    replace (N.of_nat (List.length (t :: ts)) - 1) with (N.of_nat (List.length ts)) by (cbn [List.length]; lia).
    rewrite IH by (try assumption; cbn [List.length] in F; lia).
    destruct t as [tag bs]. reflexivity.
Qed.

Lemma enc_types_body_length ts :
  N.of_nat (List.length (flat_map enc_type ts)) = sumN (map (fun t : tentry => 12 + N.of_nat (List.length (snd t))) ts).
Proof.
  induction ts as [|t ts IH]; [reflexivity|].
  cbn [flat_map map sumN fold_right]. rewrite app_length, enc_type_length. fold (sumN (map (fun t : tentry => 12 + N.of_nat (List.length (snd t))) ts)).
  rewrite <- IH. lia.
Qed.

Lemma enc_types_ge ts : (List.length ts <= List.length (flat_map enc_type ts))%nat.
Proof. induction ts as [|t ts IH]; [cbn; lia|]. cbn [flat_map List.length]. rewrite app_length, enc_type_length. lia. Qed.

(* ---------- constant table ---------- *)
Lemma enc_const_length e : wf_fields const_entry_widths e = true -> List.length (enc_const e) = 24%nat.
Proof. intros H. unfold enc_const. rewrite encode_fields_length by exact H. reflexivity. Qed.

Lemma enc_consts_length cs : forallb (wf_fields const_entry_widths) cs = true ->
  List.length (enc_consts cs) = (24 * List.length cs)%nat.
Proof.
  induction cs as [|e cs IH]; intros H; [reflexivity|].
  cbn [forallb] in H. apply andb_prop in H as [He Hr].
  unfold enc_consts. cbn [flat_map List.length]. fold (enc_consts cs). rewrite app_length, enc_const_length, IH by assumption. lia.
Qed.

Lemma decode_const_entries_encode cs : forall rest, forallb (wf_fields const_entry_widths) cs = true ->
  decode_const_entries (List.length cs) (enc_consts cs ++ rest) = Some cs.
Proof.
  induction cs as [|e cs IH]; intros rest H; [reflexivity|].
  cbn [forallb] in H. apply andb_prop in H as [He Hr].
  unfold enc_consts. cbn [flat_map List.length decode_const_entries]. fold (enc_consts cs).
  unfold enc_const at 1. rewrite <- app_assoc, take_fields_encode by exact He. rewrite IH by exact Hr. reflexivity.
Qed.

(* ---------- symbols ---------- *)
Lemma enc_sym_length s : List.length (enc_sym s) = 13%nat.
Proof. destruct s as [[id m] r]. unfold enc_sym. cbn [encode_fields]. rewrite !app_length, !le_length. reflexivity. Qed.

Lemma enc_syms_length ss : List.length (enc_syms ss) = (13 * List.length ss)%nat.
Proof.
  induction ss as [|s ss IH]; [reflexivity|].
  unfold enc_syms. cbn [flat_map List.length]. fold (enc_syms ss). rewrite app_length, enc_sym_length, IH. lia.
Qed.

Lemma decode_syms_encode ss : forall rest, forallb wf_sym ss = true ->
  decode_syms (List.length ss) (enc_syms ss ++ rest) = Some ss.
Proof.
  induction ss as [|s ss IH]; intros rest H; [reflexivity|].
  cbn [forallb] in H. apply andb_prop in H as [Hs Hr].
  destruct s as [[id m] r]. unfold wf_sym in Hs. apply andb_prop in Hs as [Hid Hreg]. unfold u64b in Hid. unfold u32b in Hreg.
  unfold enc_syms. cbn [flat_map List.length decode_syms]. fold (enc_syms ss).
  unfold enc_sym at 1. rewrite <- app_assoc, take_fields_encode.
  2:{ cbn [wf_fields]. change (8 * N.of_nat 8) with 64. change (8 * N.of_nat 4) with 32. change (8 * N.of_nat 1) with 8.
      rewrite Hid, Hreg. destruct m; reflexivity. }
  rewrite IH by exact Hr. destruct m; reflexivity.
Qed.

(* ---------- dictionary ---------- *)
Lemma enc_dent_length d : List.length (enc_dent d) = (12 + List.length (snd d))%nat.
Proof. unfold enc_dent. cbn [encode_fields]. rewrite !app_length, !le_length. cbn [List.length]. lia. Qed.

Lemma enc_dict_length ds : N.of_nat (List.length (enc_dict ds)) = sumN (map (fun d : dentry => N.of_nat (List.length (snd d)) + 12) ds).
Proof.
  induction ds as [|d ds IH]; [reflexivity|].
  unfold enc_dict. cbn [flat_map map sumN fold_right]. fold (enc_dict ds).
  fold (sumN (map (fun d : dentry => N.of_nat (List.length (snd d)) + 12) ds)).
  rewrite app_length, enc_dent_length, <- IH. lia.
Qed.

Lemma enc_dict_ge ds : (List.length ds <= List.length (enc_dict ds))%nat.
Proof.
  induction ds as [|d ds IH]; [cbn; lia|]. unfold enc_dict. cbn [flat_map List.length]. fold (enc_dict ds).
  rewrite app_length, enc_dent_length. lia.
Qed.

Lemma decode_dict_encode ds : forall fuel, forallb wf_dentry ds = true -> (List.length ds <= fuel)%nat ->
  decode_dict fuel (enc_dict ds) = (Ok ds, map (fun d : dentry => List.length (snd d)) ds).
Proof.
  induction ds as [|d ds IH]; intros fuel W F.
  - destruct fuel; reflexivity.
  - destruct fuel as [|fuel]; [cbn in F; lia|].
    cbn [forallb] in W. apply andb_prop in W as [Wd Wr].
    unfold wf_dentry in Wd. apply andb_prop in Wd as [Wd Wutf]. apply andb_prop in Wd as [Wd Wb]. apply andb_prop in Wd as [Wid Wlen].
    unfold enc_dict. cbn [flat_map]. fold (enc_dict ds).
    destruct (enc_dent d ++ enc_dict ds)%list eqn:E.
    { exfalso. apply (f_equal (@List.length N)) in E. rewrite app_length, enc_dent_length in E. cbn in E. lia. }
    rewrite <- E. cbn [decode_dict].
    unfold enc_dent at 1. rewrite <- !app_assoc.
    assert (E2 : exists b l', (encode_fields [8%nat; 4%nat] [fst d; N.of_nat (List.length (snd d))] ++ snd d ++ enc_dict ds)%list = b :: l').
    { cbn [encode_fields le]. eexists. eexists. reflexivity. }
    destruct E2 as [b0 [l0 E2]]. rewrite E2. rewrite <- E2.
    rewrite take_fields_encode.
    2:{ cbn [wf_fields]. change (8 * N.of_nat 8) with 64. change (8 * N.of_nat 4) with 32.
        unfold u64b in Wid. unfold u32b in Wlen. rewrite Wid, Wlen. reflexivity. }
    replace (N.of_nat (List.length (snd d ++ enc_dict ds)) <? N.of_nat (List.length (snd d))) with false
      by (symmetry; apply N.ltb_ge; rewrite app_length; lia).
    rewrite Nat2N.id, take_app by reflexivity. rewrite Wutf.
    rewrite IH by (try assumption; cbn [List.length] in F; lia).
    destruct d as [id name]. reflexivity.
Qed.

(* ---------- instruction stream length ---------- *)
Lemma encode_instr_length i : N.of_nat (List.length (encode_instr i)) = instr_byte_len i.
Proof.
  destruct i; cbn [encode_instr instr_byte_len List.length]; rewrite ?app_length, ?le_length; try reflexivity.
  rewrite flat_map_le_length. lia.
Qed.

Lemma encode_instrs_length is : N.of_nat (List.length (encode_instrs is)) = sumN (map instr_byte_len is).
Proof.
  induction is as [|i is IH]; [reflexivity|].
  unfold encode_instrs. cbn [flat_map map sumN fold_right]. fold (encode_instrs is). fold (sumN (map instr_byte_len is)).
  rewrite app_length, Nat2N.inj_add, encode_instr_length, IH. reflexivity.
Qed.

Lemma encode_instrs_ge is : (List.length is <= List.length (encode_instrs is))%nat.
Proof.
  induction is as [|i is IH]; [cbn; lia|]. unfold encode_instrs. cbn [flat_map List.length]. fold (encode_instrs is).
  rewrite app_length. pose proof (encode_instr_nonempty i). destruct (encode_instr i); [congruence|cbn [List.length]; lia].
Qed.

(* ---------- sections addressed through the header ---------- *)
Lemma sect_app (pre sec post : bytes) off len :
  N.of_nat (List.length pre) = off -> N.of_nat (List.length sec) = len -> off <> 0 ->
  sect (pre ++ sec ++ post) off len = Some sec.
Proof.
  intros Ho Hl Hz. unfold sect.
  replace (off =? 0) with false by (symmetry; apply N.eqb_neq; exact Hz). cbn [orb].
  destruct (len =? 0) eqn:E.
  - apply N.eqb_eq in E. subst len. destruct sec; [reflexivity|cbn in E; lia].
  - replace (off + len <=? N.of_nat (List.length (pre ++ sec ++ post))) with true
      by (symmetry; apply N.leb_le; rewrite !app_length; lia).
    subst off len. rewrite !Nat2N.id. rewrite skipn_app_exact by reflexivity. rewrite firstn_app_exact by reflexivity. reflexivity.
Qed.
