(* C01 / C03 / C12 — every dynamic-matrix allocation `DMatrix::from_element(rows, cols, fill)` of the source against the
   table REGENERATED on every run (Gen/AllocArms.v, written by translators/alloc_arms.py).

   nalgebra's DMatrix::from_element takes (number of rows, number of columns, fill).  The result buffers of the elementwise
   operators, of indexing, of conversion, of concatenation, .. are allocated in ~90 hand-written or macro-generated arms,
   each of which computes the two extents from its operands.  The translator records the two extent arguments of every call
   with every variable replaced by what it was bound to (positional binding only); the statement here classifies each
   resolved extent by the AXIS it measures —

       x.shape()[k], the k-th component of `let (r, c) = x.shape()`, shape[k]            axis k
       x.nrows() / x.ncols()                                                             axis 0 / 1
       the length (len, or count of the true entries) of the k-th index of x[i0, i1]     axis k
       the sum over the blocks of shape()[k]                                             axis k
       the literal 1                                                                     either
       a parameter named rows / cols                                                     axis 0 / 1 (by name)

   — and demands: the first argument never measures axis 1, the second never axis 0 (no transposed allocation), and every
   extent is classified ([al_unclassified] = 0: a new shape of expression must be added to the classifier, it cannot pass
   silently).  The reading "this expression measures axis k" is the trusted part (DESIGN §6). *)
From Coq Require Import List Arith Bool String.
From MechV Require Import Base.Sexp Model.SrcArms Proofs.SrcArmsP Gen.AllocArms.
Import ListNotations.
Open Scope string_scope.

Inductive axis : Type := Ax0 | Ax1 | AxOne | AxUnknown.

Definition axis_of_lit (k : string) : axis :=
  if String.eqb k "0" then Ax0 else if String.eqb k "1" then Ax1 else AxUnknown.

(* the first `elem(_, k)` (k-th element of the index slice) inside a term *)
Definition index_position (t : tm) : axis :=
  match find (fun s => match s with T "elem" [_; L _] => true | _ => false end) (subterms t) with
  | Some (T _ [_; L k]) => axis_of_lit k
  | _ => AxUnknown
  end.

(* the `x.shape()[k]` summed by a fold over the blocks *)
Definition fold_axis (t : tm) : axis :=
  match t with
  | T ".fold()" [_; L "0"; T "closure" [T "params" [L acc; L x]; T "+" [L acc'; T "[]" [T ".shape()" [L x']; L k]]]] =>
      if String.eqb acc acc' && String.eqb x x' then axis_of_lit k else AxUnknown
  | _ => AxUnknown
  end.

Definition axis_of (t : tm) : axis :=
  match t with
  | L "1" => AxOne
  | L "rows" => Ax0
  | L "cols" => Ax1
  | T "proj" [T ".shape()" _; L k] => axis_of_lit k
  | T "[]" [T ".shape()" _; L k] => axis_of_lit k
  | T "[]" [L "shape"; L k] => axis_of_lit k
  | T ".nrows()" [_] => Ax0
  | T ".ncols()" [_] => Ax1
  | T ".len()" [x] => index_position x
  | T ".count()" [T ".filter()" [T ".iter()" [x]; T "closure" [T "params" [L b]; L b']]] =>
      if String.eqb b b' then index_position x else AxUnknown
  | T ".fold()" _ => fold_axis t
  | T "elem" [_; L k] => axis_of_lit k
  | _ => AxUnknown
  end.

Definition alloc_site : Type := string * string * tm * tm * tm * tm.
Definition site_of (a : alloc_site) : string := let '(s, _, _, _, _, _) := a in s.
Definition rows_axis (a : alloc_site) : axis := let '(_, _, _, _, r, _) := a in axis_of (norm r).
Definition cols_axis (a : alloc_site) : axis := let '(_, _, _, _, _, c) := a in axis_of (norm c).

Definition alloc_ok (a : alloc_site) : bool :=
  match rows_axis a, cols_axis a with
  | Ax1, _ | _, Ax0 => false                 (* transposed *)
  | AxUnknown, _ | _, AxUnknown => false     (* not classified *)
  | _, _ => true
  end.

Definition in_file (prefix : string) (a : alloc_site) : bool := String.eqb (substring 0 (String.length prefix) (site_of a)) prefix.

Theorem al_nothing_unrecognised : al_unrecognised = [].
Proof. vm_compute. reflexivity. Qed.

Theorem al_sites_irregular : irregular site_of alloc_ok al_sites = [].
Proof. vm_compute. reflexivity. Qed.

Theorem al_allocations_regular : forallb alloc_ok al_sites = true /\ Nat.leb 80 (List.length al_sites) = true.
Proof. split; vm_compute; reflexivity. Qed.

(* what the check excludes: an allocation whose first extent measures the column axis or whose second measures the row axis *)
Theorem al_no_transposed_allocation :
  forall a : alloc_site, In a al_sites ->
    rows_axis a <> Ax1 /\ cols_axis a <> Ax0 /\ rows_axis a <> AxUnknown /\ cols_axis a <> AxUnknown.
Proof.
  intros a Hin. pose proof (proj1 al_allocations_regular) as H. rewrite forallb_forall in H. specialize (H a Hin).
  unfold alloc_ok in H. destruct (rows_axis a), (cols_axis a); try discriminate; repeat split; discriminate.
Qed.

(* the allocations of the files a property is anchored in are among the sites *)
Definition sites_under (prefix : string) : list alloc_site := filter (in_file prefix) al_sites.
Theorem al_site_counts :
  Nat.leb 1 (List.length (sites_under "src/core/src/stdlib.rs")) = true /\
  Nat.leb 1 (List.length (sites_under "src/interpreter/src/stdlib/access/")) = true /\
  Nat.leb 1 (List.length (sites_under "src/interpreter/src/stdlib/convert/")) = true.
Proof. repeat split; vm_compute; reflexivity. Qed.
