(* C13, link to Flocq, the overflow side: the checker / [rounds_to] answer "infinity" exactly when Flocq's
   rounding with unbounded exponent range reaches 2^emax in magnitude (IEEE 754's definition of overflow for
   round-to-nearest), and a finite answer stays below 2^emax.  2^emax = bpow (femax + fprec - fscale). *)
From Coq Require Import ZArith QArith Qabs Qreals Reals Bool Lia Lra.
From Flocq Require Import Core.Raux Core.Zaux Core.Defs Core.Digits Core.Float_prop Core.Generic_fmt Core.FLX Core.FLT
  Core.Round_pred Core.Round_NE.
From MechV Require Import Base.Sexp Base.Obs Model.Literal Proofs.LiteralP Proofs.LiteralRoundP Proofs.LiteralFlocqP.
Local Open Scope Z_scope.

Section FlocqInf.
  Variable f : fmt.
  Hypothesis Hf : fmt_ok f.
  Hypothesis Hp2 : 2 <= fprec f.
  Notation fexp := (FLT_exp (fl_emin f) (fl_prec f)).
  Notation format := (generic_format radix2 fexp).

  Local Instance Hprec : Prec_gt_0 (fl_prec f) := fl_prec_gt_0 f Hp2.
  Local Instance Hexne : Exists_NE radix2 fexp := fl_exists_NE f Hp2.
  Local Instance Hvalid : Valid_exp fexp := FLT_exp_valid (fl_emin f) (fl_prec f).

  Lemma canon_le_Amax s' M' e' : canon f M' e' -> (Rabs (fin_R f s' M' e') <= Amax f)%R.
  Proof.
    intros (HM & He & _). rewrite (fin_R_unitR f s' M' e') by lia. rewrite unitR_abs. unfold Amax.
    apply unitR_le.
    pose proof (pow2_gt0 e' ltac:(lia)) as Hu.
    rewrite Z.abs_mul, (abs_sgnZ s' M') by lia. rewrite (Z.abs_eq (2 ^ e')) by lia.
    apply Z.mul_le_mono_nonneg; [lia| |lia|apply Z.pow_le_mono_r; lia].
    unfold Mmax. rewrite (pow2_prec f Hf). lia.
  Qed.

  Lemma Amax_fin : fin_R f false (Mmax f) (femax f) = Amax f.
  Proof. unfold Amax. rewrite fin_R_unitR by apply Hf. reflexivity. Qed.

  Lemma Amax_format : format (Amax f).
  Proof. rewrite <- Amax_fin. apply (fin_R_format f Hf). apply (Mmax_canon f Hf Hp2). Qed.

  Lemma Amax_nonneg : (0 <= Amax f)%R.
  Proof.
    eapply Rle_trans; [apply Rabs_pos|apply (canon_le_Amax false (Mmax f) (femax f)), (Mmax_canon f Hf Hp2)].
  Qed.

  Lemma Bmax_format : format (Bmax f).
  Proof.
    unfold Bmax. apply generic_format_FLT_bpow; [exact Hprec|]. unfold fl_emin. destruct Hf as (? & ? & ?). lia.
  Qed.

  Lemma Mmax_odd : Z.even (Mmax f) = false.
  Proof.
    unfold Mmax. rewrite Z.even_sub, (pow2_prec f Hf), Z.even_mul. reflexivity.
  Qed.

  Lemma Mmax_nz : Mmax f <> 0.
  Proof. unfold Mmax. rewrite (pow2_prec f Hf). pose proof (P_pos f Hf) as HP. cbv zeta in HP. lia. Qed.

  (* the midpoint between the largest finite float and 2^emax rounds (ties to even) to 2^emax *)
  Lemma round_midpoint : (Bmax f <= round radix2 fexp ZnearestE ((Amax f + Bmax f) / 2))%R.
  Proof.
    set (mph := ((Amax f + Bmax f) / 2)%R). set (r := round radix2 fexp ZnearestE mph).
    destruct (Rle_or_lt (Bmax f) r) as [Hok|Hlt]; [exact Hok|exfalso].
    pose proof (Amax_lt_Bmax f Hf Hp2) as HAB. pose proof Amax_nonneg as HA0.
    assert (Hge : (Amax f <= r)%R).
    { apply round_ge_generic; [exact Hvalid|apply valid_rnd_N|exact Amax_format|unfold mph; lra]. }
    assert (Hfmt : format r) by (apply generic_format_round; [exact Hvalid|apply valid_rnd_N]).
    assert (Hr : r = Amax f).
    { destruct (format_cases f Hf Hp2 r Hfmt) as [(s' & M' & e' & Hc' & E)|Hb].
      - pose proof (canon_le_Amax s' M' e' Hc') as Hle. rewrite <- E in Hle.
        pose proof (Rle_abs r). lra.
      - rewrite Rabs_pos_eq in Hb by lra. lra. }
    pose proof (@round_NE_pt radix2 fexp Hvalid Hexne mph) as [HN HP]. fold r in HN, HP.
    destruct HP as [(g & Hg1 & Hg2 & Hg3)|HU].
    - assert (Hcan : canonical radix2 fexp (Float radix2 (sgnZ false (Mmax f)) (femax f - fscale f))).
      { apply (fin_R_canonical f Hf Hp2); [apply (Mmax_canon f Hf Hp2)|apply Mmax_nz]. }
      assert (Eg : g = Float radix2 (sgnZ false (Mmax f)) (femax f - fscale f)).
      { apply (canonical_unique radix2 fexp); [exact Hg2|exact Hcan|].
        rewrite <- Hg1, Hr, <- Amax_fin. reflexivity. }
      rewrite Eg in Hg3. cbn [Fnum sgnZ] in Hg3. rewrite Mmax_odd in Hg3. discriminate Hg3.
    - assert (HB : Rnd_N_pt format mph (Bmax f)).
      { split; [exact Bmax_format|]. intros g Hg. destruct HN as [_ Hmin]. specialize (Hmin g Hg).
        assert (E : Rabs (Bmax f - mph) = Rabs (r - mph)).
        { rewrite Hr. unfold mph, Rabs.
          destruct (Rcase_abs (Bmax f - (Amax f + Bmax f) / 2)), (Rcase_abs (Amax f - (Amax f + Bmax f) / 2)); lra. }
        rewrite E. exact Hmin. }
      pose proof (HU _ HB) as E. lra.
  Qed.

  Theorem overflow_region_round x :
    ((Amax f + Bmax f) / 2 <= Rabs x)%R -> (Bmax f <= Rabs (round radix2 fexp ZnearestE x))%R.
  Proof.
    intros Hx. rewrite <- (@round_NE_abs radix2 fexp Hvalid x).
    eapply Rle_trans; [apply round_midpoint|].
    apply round_le; [exact Hvalid|apply valid_rnd_N|exact Hx].
  Qed.

  Theorem rounds_to_inf_round s q :
    rounds_to f (FInf s) q -> (Bmax f <= Rabs (round radix2 fexp ZnearestE (Q2R q)))%R.
  Proof.
    intros [Hq _]. apply Qle_Rle in Hq. rewrite Q2R_Qabs, (Q2R_max_plus_half f Hf Hp2) in Hq.
    apply overflow_region_round. exact Hq.
  Qed.

  Theorem rounds_to_fin_round_below s M e q :
    rounds_to f (FFin s M e) q -> (Qabs q < max_plus_half f)%Q ->
    (Rabs (round radix2 fexp ZnearestE (Q2R q)) < Bmax f)%R.
  Proof.
    intros Hr Hq. rewrite <- (rounds_to_round_NE f Hf Hp2 s M e q Hr Hq).
    eapply Rle_lt_trans; [apply canon_le_Amax; apply Hr|apply (Amax_lt_Bmax f Hf Hp2)].
  Qed.
End FlocqInf.

(* the checker's answer (finite / infinite) and Flocq's rounding agree on overflow, every format *)
Theorem is_nearest_overflow_flocq f v q :
  fmt_ok f -> 2 <= fprec f -> is_nearest f v q = true ->
  let r := round radix2 (FLT_exp (- fscale f) (fprec f)) ZnearestE (Q2R q) in
  let two_emax := bpow radix2 (femax f + fprec f - fscale f) in
  match v with
  | FFin s M e => Q2R (fin_Q f s M e) = r /\ (Rabs r < two_emax)%R
  | FInf s => (two_emax <= Rabs r)%R /\ s = (Qnum q <? 0)
  | FNan => False
  end.
Proof.
  intros Hf Hp2 Hn. cbv zeta. destruct v as [s M e|s|]; [| |discriminate Hn].
  - pose proof (is_nearest_sound f Hf _ _ Hn) as Hr.
    pose proof (is_nearest_fin_in_range f s M e q Hf Hn) as Hq.
    split; [exact (rounds_to_flocq f s M e q Hf Hp2 Hr Hq)|].
    exact (rounds_to_fin_round_below f Hf Hp2 s M e q Hr Hq).
  - pose proof (is_nearest_sound f Hf _ _ Hn) as Hr. split; [|apply Hr].
    exact (rounds_to_inf_round f Hf Hp2 s q Hr).
Qed.

(* binary64 with the numbers spelled out: 2^emax = 2^1024 *)
Theorem is_nearest_overflow_flocq64 v q :
  is_nearest f64 v q = true ->
  let r := round radix2 (FLT_exp (3 - 1024 - 53) 53) ZnearestE (Q2R q) in
  match v with
  | FFin s M e => Q2R (fin_Q f64 s M e) = r /\ (Rabs r < bpow radix2 1024)%R
  | FInf s => (bpow radix2 1024 <= Rabs r)%R /\ s = (Qnum q <? 0)
  | FNan => False
  end.
Proof. exact (is_nearest_overflow_flocq f64 v q f64_ok ltac:(cbn; lia)). Qed.
