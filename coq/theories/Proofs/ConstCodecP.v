(* Constant payload codec (Model/ConstCodec.v): from_le inverts write_le on well-formed values of every
   modelled kind, for scalars and for dense matrices of any shape. *)
From Coq Require Import List NArith ZArith Arith Bool Lia.
From MechV Require Import Model.Crc32 Model.Loader Model.Container Model.ConstCodec Proofs.LoaderP Proofs.ContainerP.
Import ListNotations.
Open Scope Z_scope.

Lemma pow_N_Z w : Z.of_N (2 ^ (8 * N.of_nat w)) = 2 ^ (8 * Z.of_nat w).
Proof. rewrite N2Z.inj_pow, N2Z.inj_mul, nat_N_Z. reflexivity. Qed.

Lemma unle_enc_int w z : Z.of_N (unle (enc_int w z)) = z mod 2 ^ (8 * Z.of_nat w).
Proof.
  unfold enc_int. assert (P : 0 < 2 ^ (8 * Z.of_nat w)) by (apply Z.pow_pos_nonneg; lia).
  pose proof (Z.mod_pos_bound z _ P) as B.
  rewrite unle_le.
  - apply Z2N.id. lia.
  - apply N2Z.inj_lt. rewrite pow_N_Z, Z2N.id by lia. lia.
Qed.

Lemma dec_enc_int_u w z : 0 <= z < 2 ^ (8 * Z.of_nat w) -> dec_int false w (enc_int w z) = z.
Proof. intros R. unfold dec_int. cbn [andb]. rewrite unle_enc_int. apply Z.mod_small. exact R. Qed.

Lemma dec_enc_int_s w z : (0 < w)%nat -> - 2 ^ (8 * Z.of_nat w - 1) <= z < 2 ^ (8 * Z.of_nat w - 1) ->
  dec_int true w (enc_int w z) = z.
Proof.
  intros Hw R. unfold dec_int. cbn [andb]. rewrite unle_enc_int.
  assert (E : 2 ^ (8 * Z.of_nat w) = 2 * 2 ^ (8 * Z.of_nat w - 1)).
  { rewrite <- Z.pow_succ_r by lia. f_equal. lia. }
  set (h := 2 ^ (8 * Z.of_nat w - 1)) in *. assert (0 < h) by (apply Z.pow_pos_nonneg; lia).
  rewrite E. destruct (Z_lt_le_dec z 0) as [Neg|Pos].
  - assert (M : z mod (2 * h) = z + 2 * h).
    { symmetry. apply Z.mod_unique with (q := -1); lia. }
    rewrite M. replace (h <=? z + 2 * h) with true by (symmetry; apply Z.leb_le; lia). lia.
  - rewrite Z.mod_small by lia. replace (h <=? z) with false by (symmetry; apply Z.leb_gt; lia). reflexivity.
Qed.

Lemma enc_int_length w z : List.length (enc_int w z) = w.
Proof. apply le_length. Qed.

Lemma ratio_new_reduced n d : in_i64 n = true -> in_i64 d = true -> 0 < d -> Z.gcd n d = 1 -> ratio_new n d = DOk (VP n d).
Proof.
  intros Hn Hd Pd G. unfold ratio_new.
  replace (d =? 0) with false by (symmetry; apply Z.eqb_neq; lia).
  rewrite G, !Z.div_1_r. replace (d <? 0) with false by (symmetry; apply Z.ltb_ge; lia).
  rewrite Hn, Hd. reflexivity.
Qed.

Local Ltac split_and H :=
  repeat match type of H with
         | (_ && _)%bool = true => let H1 := fresh "W" in let H2 := fresh "W" in apply andb_prop in H as [H1 H2]; split_and H1; split_and H2
         end.

Local Ltac int_case s :=
  cbn [encode_elem decode_elem kwidth ksigned];
  rewrite take_app by apply enc_int_length;
  first [ rewrite dec_enc_int_u by (cbn [kwidth]; lia) | rewrite dec_enc_int_s by (cbn [kwidth]; lia) ]; reflexivity.

Theorem decode_encode_elem k v rest : wf_sval k v = true -> decode_elem k (encode_elem k v ++ rest) = DOk (v, rest).
Proof.
  intros W.
  destruct k, v; cbn [wf_sval ksigned kwidth] in W; try discriminate;
    try (apply andb_prop in W as [W1 W2]; apply Z.leb_le in W1; apply Z.ltb_lt in W2;
         cbn [encode_elem decode_elem kwidth ksigned]; rewrite take_app by apply enc_int_length;
         first [ rewrite dec_enc_int_u by (split; assumption) | rewrite dec_enc_int_s by (first [ split; assumption | cbn; lia ]) ];
         reflexivity).
  - (* c64 *)
    apply andb_prop in W as [W Wb2]. apply andb_prop in W as [W Wb1]. apply andb_prop in W as [Wa1 Wa2].
    apply Z.leb_le in Wa1, Wb1. apply Z.ltb_lt in Wa2, Wb2.
    cbn [encode_elem decode_elem]. rewrite <- app_assoc, take_app by apply enc_int_length.
    rewrite take_app by apply enc_int_length.
    rewrite !dec_enc_int_u by (change (8 * Z.of_nat 8) with 64; lia). reflexivity.
  - (* r64 *)
    apply andb_prop in W as [W Wg]. apply andb_prop in W as [W Wp]. apply andb_prop in W as [Wn Wd].
    apply Z.ltb_lt in Wp. apply Z.eqb_eq in Wg.
    cbn [encode_elem decode_elem]. rewrite <- app_assoc, take_app by apply enc_int_length.
    rewrite take_app by apply enc_int_length.
    assert (Ri : forall x, in_i64 x = true -> - 2 ^ (8 * Z.of_nat 8 - 1) <= x < 2 ^ (8 * Z.of_nat 8 - 1)).
    { intros x Hx. unfold in_i64 in Hx. apply andb_prop in Hx as [A B]. apply Z.leb_le in A. apply Z.ltb_lt in B.
      change (8 * Z.of_nat 8 - 1) with 63. lia. }
    rewrite !dec_enc_int_s by (first [ apply Ri; assumption | lia ]).
    rewrite ratio_new_reduced by assumption. reflexivity.
  - (* string *)
    apply andb_prop in W as [W Wu]. apply andb_prop in W as [Wl Wb]. apply N.ltb_lt in Wl.
    cbn [encode_elem decode_elem]. rewrite <- app_assoc, take_app by apply le_length.
    rewrite unle_le by (change (8 * N.of_nat 4)%N with 32%N; exact Wl).
    replace (N.of_nat (List.length (s ++ rest)) <? N.of_nat (List.length s))%N with false
      by (symmetry; apply N.ltb_ge; rewrite app_length; lia).
    rewrite Nat2N.id, take_app by reflexivity. rewrite Wu. reflexivity.
  - (* bool *)
    cbn [encode_elem decode_elem app]. destruct b; reflexivity.
Qed.

Lemma scalar_size_encode k v : wf_sval k v = true -> scalar_size_ok k (encode_elem k v) = true.
Proof.
  intros W. destruct k, v; cbn [wf_sval] in W; try discriminate;
    cbn [scalar_size_ok encode_elem kwidth]; rewrite ?app_length, ?enc_int_length, ?le_length; try reflexivity;
    try (destruct b; reflexivity).
Qed.

Theorem decode_encode_scalar k v : wf_sval k v = true -> decode_scalar k (encode_elem k v) = DOk (CScalar k v).
Proof.
  intros W. unfold decode_scalar. rewrite scalar_size_encode by exact W.
  pose proof (decode_encode_elem k v [] W) as E. rewrite app_nil_r in E. rewrite E. reflexivity.
Qed.

Lemma encode_elem_min k v : wf_sval k v = true ->
  (1 <= List.length (encode_elem k v))%nat /\ (matrix_min_len k <= 8 + List.length (encode_elem k v))%nat.
Proof.
  intros W. destruct k, v; cbn [wf_sval] in W; try discriminate;
    cbn [encode_elem kwidth matrix_min_len]; rewrite ?app_length, ?enc_int_length, ?le_length; cbn [List.length]; lia.
Qed.

Lemma flat_elems_ge k elems : forallb (wf_sval k) elems = true ->
  (List.length elems <= List.length (flat_map (encode_elem k) elems))%nat.
Proof.
  induction elems as [|e es IH]; intros W; [cbn; lia|].
  cbn [forallb] in W. apply andb_prop in W as [We Wr]. cbn [flat_map List.length]. rewrite app_length.
  pose proof (proj1 (encode_elem_min k e We)). specialize (IH Wr). lia.
Qed.

Lemma decode_elems_encode k elems : forall fuel rest, forallb (wf_sval k) elems = true -> (List.length elems <= fuel)%nat ->
  decode_elems fuel k (N.of_nat (List.length elems)) (flat_map (encode_elem k) elems ++ rest) = DOk elems.
Proof.
  induction elems as [|e es IH]; intros fuel rest W F.
  - destruct fuel; reflexivity.
  - destruct fuel as [|fuel]; [cbn in F; lia|].
    cbn [forallb] in W. apply andb_prop in W as [We Wr].
    cbn [decode_elems].
    replace (N.of_nat (List.length (e :: es)) =? 0)%N with false by (symmetry; apply N.eqb_neq; cbn [List.length]; lia).
    cbn [flat_map]. rewrite <- app_assoc, decode_encode_elem by exact We.
    replace (N.of_nat (List.length (e :: es)) - 1)%N with (N.of_nat (List.length es)) by (cbn [List.length]; lia).
    rewrite IH by (try assumption; cbn [List.length] in F; lia). reflexivity.
Qed.

Theorem decode_encode_matrix k rows cols elems : wf_cval (CMatrix k rows cols elems) = true ->
  decode_matrix k (encode_matrix k rows cols elems) = DOk (CMatrix k rows cols elems).
Proof.
  intros W. cbn [wf_cval] in W.
  apply andb_prop in W as [W We]. apply andb_prop in W as [W Wn]. apply andb_prop in W as [W Wc2]. apply andb_prop in W as [W Wc1].
  apply andb_prop in W as [Wr1 Wr2].
  apply N.leb_le in Wr1, Wc1. apply N.ltb_lt in Wr2, Wc2. apply N.eqb_eq in Wn.
  unfold decode_matrix, encode_matrix.
  assert (Lmin : (matrix_min_len k <= 8 + List.length (flat_map (encode_elem k) elems))%nat).
  { destruct elems as [|e es]; [cbn [List.length] in Wn; nia|].
    cbn [forallb] in We. apply andb_prop in We as [We _]. cbn [flat_map]. rewrite app_length.
    pose proof (proj2 (encode_elem_min k e We)). lia. }
  replace (Nat.ltb (List.length (le 4 rows ++ le 4 cols ++ flat_map (encode_elem k) elems)) (matrix_min_len k)) with false
    by (symmetry; apply Nat.ltb_ge; rewrite !app_length, !le_length; lia).
  rewrite take_app by apply le_length. rewrite take_app by apply le_length.
  rewrite !unle_le by (change (8 * N.of_nat 4)%N with 32%N; assumption).
  rewrite <- Wn.
  pose proof (decode_elems_encode k elems (S (List.length (flat_map (encode_elem k) elems))) [] We) as E.
  rewrite app_nil_r in E. rewrite E by (pose proof (flat_elems_ge k elems We); lia).
  replace ((rows =? 0) || (cols =? 0))%N with false
    by (symmetry; apply orb_false_iff; split; apply N.eqb_neq; lia).
  reflexivity.
Qed.

(* from_le inverts write_le, through the TypeTag the compiler records for the constant *)
Theorem const_roundtrip v : wf_cval v = true -> decode_tagged (tag_of_kind v) (encode_const v) = DOk v.
Proof.
  intros W. destruct v as [k x|k r c es].
  - cbn [wf_cval] in W. cbn [encode_const]. unfold decode_tagged.
    replace (kind_of_tag (tag_of_kind (CScalar k x))) with (TScalar k) by (destruct k; reflexivity).
    apply decode_encode_scalar. exact W.
  - cbn [encode_const]. unfold decode_tagged.
    replace (kind_of_tag (tag_of_kind (CMatrix k r c es))) with (TMatrix k) by (destruct k; reflexivity).
    apply decode_encode_matrix. exact W.
Qed.

(* the same through a constant-table entry of a loaded program: an Inline entry that points at the encoded
   value inside the blob, aligned, with a type id whose TypeEntry carries the value's tag *)
Theorem const_entry_roundtrip (types : list tentry) (pre post : bytes) v tid align fl rs tb :
  wf_cval v = true ->
  nth_error types (N.to_nat tid) = Some (tag_of_kind v, tb) ->
  (align <> 0)%N -> (N.of_nat (List.length pre) mod align = 0)%N ->
  (N.of_nat (List.length pre) + N.of_nat (List.length (encode_const v)) < 2 ^ 64)%N ->
  decode_entry types (pre ++ encode_const v ++ post)
    [tid; 1%N; align; fl; rs; N.of_nat (List.length pre); N.of_nat (List.length (encode_const v))] = DOk v.
Proof.
  intros W Ht Ha Hm Hb. unfold decode_entry.
  change (negb (1 =? 1)%N) with false. cbv iota.
  replace (2 ^ 64 <=? N.of_nat (List.length pre) + N.of_nat (List.length (encode_const v)))%N with false
    by (symmetry; apply N.leb_gt; exact Hb).
  replace (N.of_nat (List.length (pre ++ encode_const v ++ post)) <? N.of_nat (List.length pre) + N.of_nat (List.length (encode_const v)))%N
    with false by (symmetry; apply N.ltb_ge; rewrite !app_length; lia).
  replace (align =? 0)%N with false by (symmetry; apply N.eqb_neq; exact Ha).
  rewrite Hm. cbn [orb negb N.eqb].
  rewrite !Nat2N.id, skipn_app_exact, firstn_app_exact by reflexivity.
  assert (Hl : (N.to_nat tid < List.length types)%nat) by (apply nth_error_Some; rewrite Ht; discriminate).
  replace (N.of_nat (List.length types) <=? tid)%N with false by (symmetry; apply N.leb_gt; lia).
  rewrite Ht. cbn [fst]. apply const_roundtrip. exact W.
Qed.
