(* The whole-container loader never requests a buffer larger than the file (or the fixed header). *)
From Coq Require Import List NArith Arith Bool Lia.
From MechV Require Import Model.Crc32 Model.Loader Model.Container Proofs.LoaderP Proofs.ContainerP.
Import ListNotations.
Open Scope N_scope.

Lemma take_fields_length ws : forall l vs r, take_fields ws l = Some (vs, r) -> (List.length r <= List.length l)%nat.
Proof.
  induction ws as [|w ws IH]; intros l vs r H; cbn [take_fields] in H.
  - inversion H; subst. lia.
  - destruct (take w l) as [[f r0]|] eqn:T; [|discriminate].
    destruct (take_fields ws r0) as [[fs r1]|] eqn:T2; [|discriminate]. inversion H; subst.
    apply take_length in T as [-> _]. apply IH in T2. rewrite app_length. lia.
Qed.

Lemma decode_types_ledger fuel : forall n l x, In x (snd (decode_types fuel n l)) -> (x <= List.length l)%nat.
Proof.
  induction fuel as [|f IH]; intros n l x; cbn [decode_types]; destruct (n =? 0); cbn [snd In]; try tauto.
  destruct (take_fields [2%nat; 2%nat; 4%nat; 4%nat] l) as [[vs r]|] eqn:T; [|cbn; tauto].
  destruct vs as [|tag [|a [|b [|blen [|? ?]]]]]; try (cbn; tauto).
  apply take_fields_length in T.
  destruct (N.of_nat (List.length r) <? blen) eqn:E; [cbn; tauto|]. apply N.ltb_ge in E.
  destruct (take (N.to_nat blen) r) as [[bs r']|] eqn:T2; [|cbn; tauto].
  apply take_length in T2 as [-> L2]. rewrite app_length in *.
  destruct (valid_tag tag).
  - destruct (decode_types f (n - 1) r') as [y lg] eqn:D. cbn [snd In]. intros [<-|Hin]; [lia|].
    specialize (IH (n - 1) r' x). rewrite D in IH. specialize (IH Hin). lia.
  - cbn [snd In]. intros [<-|[]]. lia.
Qed.

Lemma decode_dict_ledger fuel : forall l x, In x (snd (decode_dict fuel l)) -> (x <= List.length l)%nat.
Proof.
  induction fuel as [|f IH]; intros l x; destruct l as [|b0 l0]; cbn [decode_dict snd In]; try tauto.
  set (l := b0 :: l0).
  destruct (take_fields [8%nat; 4%nat] l) as [[vs r]|] eqn:T; [|cbn; tauto].
  destruct vs as [|id [|len [|? ?]]]; try (cbn; tauto).
  apply take_fields_length in T.
  destruct (N.of_nat (List.length r) <? len) eqn:E; [cbn; tauto|]. apply N.ltb_ge in E.
  destruct (take (N.to_nat len) r) as [[name r']|] eqn:T2; [|cbn; tauto].
  apply take_length in T2 as [-> L2]. rewrite app_length in *.
  destruct (utf8_valid name).
  - destruct (decode_dict f r') as [y lg] eqn:D. cbn [snd In]. intros [<-|Hin]; [lia|].
    specialize (IH r' x). rewrite D in IH. specialize (IH Hin). lia.
  - cbn [snd In]. intros [<-|[]]. lia.
Qed.

Lemma sect_req_bound payload off len s : sect payload off len = Some s ->
  (sect_req off len <= List.length payload)%nat /\ (List.length s <= List.length payload)%nat
  /\ ((off =? 0) || (len =? 0) = false -> List.length s = N.to_nat len).
Proof.
  unfold sect, sect_req. destruct ((off =? 0) || (len =? 0)).
  - intros H. inversion H; subst. cbn [List.length]. repeat split; try lia; try discriminate.
  - destruct (off + len <=? N.of_nat (List.length payload)) eqn:E; [|discriminate]. apply N.leb_le in E.
    intros H. inversion H; subst. rewrite firstn_length, skipn_length. repeat split; lia.
Qed.

Lemma load_types_ledger payload off x : In x (snd (load_types payload off)) -> (x <= List.length payload)%nat.
Proof.
  unfold load_types. destruct ((off =? 0) || negb (off + 4 <=? N.of_nat (List.length payload))); [cbn; tauto|].
  destruct (take 4 (skipn (N.to_nat off) payload)) as [[c4 r]|] eqn:T; [|cbn; tauto].
  apply take_length in T as [T _]. intros H. apply decode_types_ledger in H.
  assert (List.length (skipn (N.to_nat off) payload) <= List.length payload)%nat by (rewrite skipn_length; lia).
  rewrite T, app_length in *. lia.
Qed.

Local Ltac fin :=
  let Hin := fresh "Hin" in
  cbn [snd]; intros Hin;
  repeat (apply in_app_or in Hin as [Hin|Hin]);
  cbn [In] in Hin;
  repeat match goal with H : _ \/ _ |- _ => destruct H end;
  subst; try lia; try contradiction; auto.

Theorem load_payload_ledger payload n : In n (snd (load_payload payload)) ->
  (n <= Nat.max HEADER_SIZE (List.length payload))%nat.
Proof.
  unfold load_payload. set (B := Nat.max HEADER_SIZE (List.length payload)).
  assert (B1 : (List.length payload <= B)%nat) by apply Nat.le_max_r.
  assert (B2 : (HEADER_SIZE <= B)%nat) by apply Nat.le_max_l.
  destruct (Nat.ltb (List.length payload) HEADER_SIZE); [fin|].
  destruct (decode_header payload) as [h|]; [|fin].
  destruct (negb (h_magic h =? MAGIC)); [fin|].
  destruct (load_features payload (h_feature_off h)) as [feats|]; [|fin].
  destruct (load_types payload (h_types_off h)) as [tr lgt] eqn:ET.
  assert (BT : forall x, In x lgt -> (x <= B)%nat).
  { intros x Hx. pose proof (load_types_ledger payload (h_types_off h) x) as L. rewrite ET in L. specialize (L Hx). lia. }
  destruct tr as [types| |]; [|fin|fin].
  destruct (sect payload (h_const_tbl_off h) (h_const_tbl_len h)) as [tbl|] eqn:E3; [|fin].
  apply sect_req_bound in E3 as [R3 [L3 X3]].
  destruct ((h_const_tbl_off h =? 0) || (h_const_tbl_len h =? 0)) eqn:SK; cbn [negb andb].
  - destruct (sect payload (h_const_blob_off h) (h_const_blob_len h)) as [blob|] eqn:E4; [|fin].
    apply sect_req_bound in E4 as [R4 _].
    destruct (sect payload (h_symbols_off h) (h_symbols_len h)) as [sb|] eqn:E5; [|fin].
    apply sect_req_bound in E5 as [R5 _].
    destruct (decode_syms (List.length sb / 13) sb); [|fin].
    destruct (sect payload (h_instr_off h) (h_instr_len h)) as [ib|] eqn:E6; [|fin].
    apply sect_req_bound in E6 as [R6 _].
    destruct (sect payload (h_dict_off h) (h_dict_len h)) as [db|] eqn:E7; [|fin].
    apply sect_req_bound in E7 as [R7 [L7 _]].
    destruct (decode_dict (S (List.length db)) db) as [dr lgd] eqn:ED.
    assert (BD : forall x, In x lgd -> (x <= B)%nat).
    { intros x Hx. pose proof (decode_dict_ledger (S (List.length db)) db x) as L. rewrite ED in L. specialize (L Hx). lia. }
    destruct dr; [destruct (decode_instrs (S (List.length ib)) ib)|..]; fin.
  - destruct (h_const_tbl_len h <? 24 * h_const_count h) eqn:G; [fin|]. apply N.ltb_ge in G.
    specialize (X3 eq_refl).
    assert (BV : (24 * N.to_nat (h_const_count h) <= B)%nat) by lia.
    destruct (decode_const_entries (N.to_nat (h_const_count h)) tbl); [|fin].
    destruct (sect payload (h_const_blob_off h) (h_const_blob_len h)) as [blob|] eqn:E4; [|fin].
    apply sect_req_bound in E4 as [R4 _].
    destruct (sect payload (h_symbols_off h) (h_symbols_len h)) as [sb|] eqn:E5; [|fin].
    apply sect_req_bound in E5 as [R5 _].
    destruct (decode_syms (List.length sb / 13) sb); [|fin].
    destruct (sect payload (h_instr_off h) (h_instr_len h)) as [ib|] eqn:E6; [|fin].
    apply sect_req_bound in E6 as [R6 _].
    destruct (sect payload (h_dict_off h) (h_dict_len h)) as [db|] eqn:E7; [|fin].
    apply sect_req_bound in E7 as [R7 [L7 _]].
    destruct (decode_dict (S (List.length db)) db) as [dr lgd] eqn:ED.
    assert (BD : forall x, In x lgd -> (x <= B)%nat).
    { intros x Hx. pose proof (decode_dict_ledger (S (List.length db)) db x) as L. rewrite ED in L. specialize (L Hx). lia. }
    destruct dr; [destruct (decode_instrs (S (List.length ib)) ib)|..]; fin.
Qed.

Theorem load_program_ledger_bounded file n : In n (snd (load_program file)) ->
  (n <= Nat.max HEADER_SIZE (List.length file))%nat.
Proof.
  unfold load_program. destruct (negb (verify file)).
  - cbn [snd In]. intros [<-|[]]. lia.
  - intros H. apply load_payload_ledger in H. rewrite firstn_length in H. lia.
Qed.
